/-
Code-shaped model of `XSerializeEngine` (src/xercesc/internal/XSerializeEngine.cpp) as a byte-stream machine.
No Mathlib.  Constants, sizes and the per-operator descriptors come from `XV.Gen.SerConsts` (regenerated from
the source on every run).

Layers
  * `SBuf` / `LBuf`   : the store / load buffer (`fBufStart..fBufEnd`, `fBufCur`, `fBufLoadMax`), `flushBuffer`,
                        `fillBuffer`, `checkAndFlushBuffer`, `checkAndFillBuffer`, `alignAdjust`, primitive
                        operators (`putPrim`/`getPrim` driven by the extracted `PrimDesc`), `write`/`read` of raw bytes.
  * `Val`/`Shape`     : typed values: primitives, raw byte blocks, `writeString`/`readString` in all four encodings.
  * `Store` / `Load`  : buffer + object pools (`lookupStorePool/addStorePool`, `lookupLoadPool/addLoadPool`),
                        object tags, the class-name record of `XProtoType::store/load`, template objects.
  * graph machines    : `storeRun` / `loadRun` — `write(XSerializable*)` / `read(XProtoType*)` over an object heap,
                        the C++ call stack of nested `serialize` calls represented as an explicit work list.

Deviation from the code as it is (DESIGN/guide rule "model the code as it should be after a minimal fix"):
`XSerializeEngine::read(XMLByte*, n)` does not advance `fBufCur` after copying a full `fBufSize` chunk, so when
`n - dataAvail` is a positive multiple of `fBufSize` the cursor is left at the start of the already consumed
buffer and the following reads return stale bytes.  `getRaw` below advances the cursor (fixes/c16_read_chunk.diff);
`getRawAsIs` is the unrepaired loop, used by the driver to reproduce the defect.
-/
import XV.Gen.SerConsts
namespace XV.Model.SerEngine
open XV.Gen.SerConsts

-- ------------------------------------------------------------------ bytes
/-- `n` little-endian bytes of `v` -/
def toLE : Nat → Nat → List Nat
  | 0, _ => []
  | n + 1, v => (v % 256) :: toLE n (v / 256)

def fromLE : List Nat → Nat
  | [] => 0
  | b :: bs => b + 256 * fromLE bs

def zeros (n : Nat) : List Nat := List.replicate n 0

/-- `alignAdjust(size)` at address `addr = (XMLSize_t) fBufCur` -/
def alignAdjust (addr size : Nat) : Nat :=
  let remainder := addr % size
  if remainder == 0 then 0 else size - remainder

inductive Err
  | readLT                 -- XSer_InStream_Read_LT_Req: input stream delivered fewer bytes than fBufSize
  | overrun                -- (modelled undefined behaviour) readString writes the terminator outside its allocation
  | loadPoolBound          -- XSer_LoadPool_UppBnd_Exceed
  | loadPoolTally          -- XSer_LoadPool_NoTally_ObjCnt
  | objCount               -- XSer_ObjCount_UppBnd_Exceed
  | invClassIndex          -- XSer_Inv_ClassIndex
  | nameLenDif             -- XSer_ProtoType_NameLen_Dif
  | nameDif                -- XSer_ProtoType_Name_Dif
  | levelMismatch          -- XSer_Storer_Loader_Mismatch
  | fuel                   -- model artefact: work-list fuel exhausted
  | dangling               -- model artefact: pointer without heap entry
  deriving DecidableEq, Repr

def Err.name : Err → String
  | .readLT => "XSer_InStream_Read_LT_Req"
  | .overrun => "MODEL-OVERRUN"
  | .loadPoolBound => "XSer_LoadPool_UppBnd_Exceed"
  | .loadPoolTally => "XSer_LoadPool_NoTally_ObjCnt"
  | .objCount => "XSer_ObjCount_UppBnd_Exceed"
  | .invClassIndex => "XSer_Inv_ClassIndex"
  | .nameLenDif => "XSer_ProtoType_NameLen_Dif"
  | .nameDif => "XSer_ProtoType_Name_Dif"
  | .levelMismatch => "XSer_Storer_Loader_Mismatch"
  | .fuel => "MODEL-FUEL"
  | .dangling => "MODEL-DANGLING"

def errOf {α : Type} : Except Err α → Option Err
  | .error e => some e
  | .ok _ => none

def okOf {α : Type} : Except Err α → Option α
  | .error _ => none
  | .ok a => some a

-- ------------------------------------------------------------------ store buffer
structure SBuf where
  base : Nat            -- (XMLSize_t) fBufStart
  bufSize : Nat         -- fBufSize
  out : List Nat        -- everything handed to fOutputStream->writeBytes so far
  buf : List Nat        -- [fBufStart, fBufCur); the rest of the buffer is zero (resetBuffer)
  deriving Repr

def SBuf.init (base bufSize : Nat) : SBuf := ⟨base, bufSize, [], []⟩

/-- `flushBuffer`: the *whole* buffer is written, then `resetBuffer` -/
def SBuf.flush (s : SBuf) : SBuf :=
  { s with out := s.out ++ s.buf ++ zeros (s.bufSize - s.buf.length), buf := [] }

/-- `checkAndFlushBuffer(bytesNeedToWrite)` -/
def SBuf.checkAndFlush (s : SBuf) (need : Nat) : SBuf :=
  if s.buf.length + need > s.bufSize then s.flush else s

/-- `calBytesNeeded(size)` / plain `size`, at the current cursor -/
def needOf (d : PrimDesc) (addr : Nat) : Nat :=
  if d.chkAligned then alignAdjust addr d.chk + d.chk else d.chk

/-- `alignBufCur(size)` padding (0 when the operator does not call it) -/
def padOf (d : PrimDesc) (addr : Nat) : Nat :=
  if d.align == 0 then 0 else alignAdjust addr d.align

/-- a primitive `operator<<` / `writeSize` … : check, align, store `xfer` bytes, advance by `adv` -/
def SBuf.putPrim (s : SBuf) (d : PrimDesc) (v : Nat) : SBuf :=
  let s1 := s.checkAndFlush (needOf d (s.base + s.buf.length))
  let pad := padOf d (s1.base + s1.buf.length)
  let bytes := toLE d.xfer v
  { s1 with buf := s1.buf ++ zeros pad ++ (bytes ++ zeros (d.adv - d.xfer)).take d.adv }

/-- the `while (writeRemain >= fBufSize)` loop and the remainder of `write(const XMLByte*, n)`; buffer empty -/
def SBuf.putChunks : Nat → SBuf → List Nat → SBuf
  | 0, s, _ => s
  | f + 1, s, bs =>
    if bs.length ≥ s.bufSize then
      SBuf.putChunks f ({ s with buf := bs.take s.bufSize }).flush (bs.drop s.bufSize)
    else { s with buf := bs }

/-- `write(const XMLByte* toWrite, XMLSize_t writeLen)` -/
def SBuf.putRaw (s : SBuf) (bs : List Nat) : SBuf :=
  if bs.length == 0 then s else
  let bufAvail := s.bufSize - s.buf.length
  if bs.length ≤ bufAvail then { s with buf := s.buf ++ bs }
  else
    let s1 := ({ s with buf := s.buf ++ bs.take bufAvail }).flush
    s1.putChunks (bs.length + 1) (bs.drop bufAvail)

/-- destructor / `flush()`: one more `flushBuffer` -/
def SBuf.finish (s : SBuf) : List Nat := s.flush.out

/-- bytes produced so far, without the zero fill of the last block -/
def SBuf.stream (s : SBuf) : List Nat := s.out ++ s.buf

-- ------------------------------------------------------------------ load buffer
structure LBuf where
  base : Nat
  bufSize : Nat
  inp : List Nat        -- bytes of the input stream not yet fetched
  buf : List Nat        -- [fBufStart, fBufLoadMax)
  cur : Nat             -- fBufCur - fBufStart
  deriving Repr

/-- `fillBuffer`: discard the buffer, fetch exactly fBufSize bytes -/
def LBuf.fill (l : LBuf) : Except Err LBuf :=
  if l.inp.length < l.bufSize then .error .readLT
  else .ok { l with buf := l.inp.take l.bufSize, inp := l.inp.drop l.bufSize, cur := 0 }

/-- loading constructor: empty buffer, then `fillBuffer()` -/
def LBuf.init (base bufSize : Nat) (stream : List Nat) : Except Err LBuf :=
  LBuf.fill ⟨base, bufSize, stream, [], 0⟩

def LBuf.checkAndFill (l : LBuf) (need : Nat) : Except Err LBuf :=
  if l.cur + need > l.buf.length then l.fill else .ok l

def LBuf.getPrim (l : LBuf) (d : PrimDesc) : Except Err (Nat × LBuf) := do
  let l1 ← l.checkAndFill (needOf d (l.base + l.cur))
  let pad := padOf d (l1.base + l1.cur)
  let bytes := (l1.buf.drop (l1.cur + pad)).take d.xfer
  .ok (fromLE bytes, { l1 with cur := l1.cur + pad + d.adv })

/-- chunk loop + remainder of `read(XMLByte*, n)` with the cursor advanced after every full chunk (repaired) -/
def LBuf.getChunks : Nat → LBuf → Nat → List Nat → Except Err (List Nat × LBuf)
  | 0, l, _, acc => .ok (acc, l)
  | f + 1, l, n, acc =>
    if n ≥ l.bufSize then do
      let l1 ← l.fill
      LBuf.getChunks f { l1 with cur := l1.bufSize } (n - l1.bufSize) (acc ++ l1.buf.take l1.bufSize)
    else if n > 0 then do
      let l1 ← l.fill
      .ok (acc ++ l1.buf.take n, { l1 with cur := n })
    else .ok (acc, l)

/-- `read(XMLByte* toRead, XMLSize_t readLen)` -/
def LBuf.getRaw (l : LBuf) (n : Nat) : Except Err (List Nat × LBuf) :=
  if n == 0 then .ok ([], l) else
  let dataAvail := l.buf.length - l.cur
  if n ≤ dataAvail then .ok ((l.buf.drop l.cur).take n, { l with cur := l.cur + n })
  else LBuf.getChunks (n + 1) l (n - dataAvail) (l.buf.drop l.cur)

/-- the chunk loop exactly as in the unrepaired source: `fBufCur` stays at `fBufStart` after a full chunk -/
def LBuf.getChunksAsIs : Nat → LBuf → Nat → List Nat → Except Err (List Nat × LBuf)
  | 0, l, _, acc => .ok (acc, l)
  | f + 1, l, n, acc =>
    if n ≥ l.bufSize then do
      let l1 ← l.fill
      LBuf.getChunksAsIs f l1 (n - l1.bufSize) (acc ++ l1.buf.take l1.bufSize)
    else if n > 0 then do
      let l1 ← l.fill
      .ok (acc ++ l1.buf.take n, { l1 with cur := n })
    else .ok (acc, l)

def LBuf.getRawAsIs (l : LBuf) (n : Nat) : Except Err (List Nat × LBuf) :=
  if n == 0 then .ok ([], l) else
  let dataAvail := l.buf.length - l.cur
  if n ≤ dataAvail then .ok ((l.buf.drop l.cur).take n, { l with cur := l.cur + n })
  else LBuf.getChunksAsIs (n + 1) l (n - dataAvail) (l.buf.drop l.cur)

-- ------------------------------------------------------------------ typed values
inductive Ty
  | byte | xmlch | char | short | int | uint | long | ulong | float | double | bool | size | int64 | uint64
  deriving DecidableEq, Repr

/-- store-side descriptor (from `operator<<` / `writeSize` …) -/
def Ty.w : Ty → PrimDesc
  | .byte => W_byte | .xmlch => W_xmlch | .char => W_char | .short => W_short | .int => W_int
  | .uint => W_uint | .long => W_long | .ulong => W_ulong | .float => W_float | .double => W_double
  | .bool => W_bool | .size => W_size | .int64 => W_int64 | .uint64 => W_uint64

/-- load-side descriptor (from `operator>>` / `readSize` …) -/
def Ty.r : Ty → PrimDesc
  | .byte => R_byte | .xmlch => R_xmlch | .char => R_char | .short => R_short | .int => R_int
  | .uint => R_uint | .long => R_long | .ulong => R_ulong | .float => R_float | .double => R_double
  | .bool => R_bool | .size => R_size | .int64 => R_int64 | .uint64 => R_uint64

def Ty.all : List Ty :=
  [.byte, .xmlch, .char, .short, .int, .uint, .long, .ulong, .float, .double, .bool, .size, .int64, .uint64]

def Ty.name : Ty → String
  | .byte => "byte" | .xmlch => "xmlch" | .char => "char" | .short => "short" | .int => "int"
  | .uint => "uint" | .long => "long" | .ulong => "ulong" | .float => "float" | .double => "double"
  | .bool => "bool" | .size => "size" | .int64 => "int64" | .uint64 => "uint64"

/-- bytes of a string of XMLCh code units as `write(const XMLCh*, len)` copies them -/
def unitsToBytes : List Nat → List Nat
  | [] => []
  | u :: us => toLE sz_xmlch u ++ unitsToBytes us

/-- `n` code units out of a byte block -/
def bytesToUnits : Nat → List Nat → List Nat
  | 0, _ => []
  | n + 1, bs => fromLE (bs.take sz_xmlch) :: bytesToUnits n (bs.drop sz_xmlch)

/-- what one engine call transfers -/
inductive Val
  | prim (t : Ty) (v : Nat)                 -- operator<< / writeSize / writeInt64 / writeUInt64
  | raw (bs : List Nat)                     -- write(const XMLByte*, n)
  | str (s : Option (List Nat))             -- writeString(const XMLCh*)           (none = null pointer)
  | strL (s : Option (List Nat × Nat))      -- writeString(const XMLCh*, bufferLen, toWriteBufferLen)
  | bstr (s : Option (List Nat))            -- writeString(const XMLByte*)
  | bstrL (s : Option (List Nat × Nat))     -- writeString(const XMLByte*, bufferLen, toWriteBufferLen)
  deriving DecidableEq, Repr

/-- what the reader must know in advance -/
inductive Shape
  | prim (t : Ty) | raw (n : Nat) | str | strL | bstr | bstrL
  deriving DecidableEq, Repr

def Val.shape : Val → Shape
  | .prim t _ => .prim t
  | .raw bs => .raw bs.length
  | .str _ => .str
  | .strL _ => .strL
  | .bstr _ => .bstr
  | .bstrL _ => .bstrL

def SBuf.putUL (s : SBuf) (v : Nat) : SBuf := s.putPrim Ty.ulong.w v
def LBuf.getUL (l : LBuf) : Except Err (Nat × LBuf) := l.getPrim Ty.ulong.r

/-- `writeString`: `[bufferLen] strLen data` or the single word `noDataFollowed` -/
def SBuf.putVal (s : SBuf) : Val → SBuf
  | .prim t v => s.putPrim t.w v
  | .raw bs => s.putRaw bs
  | .str none => s.putUL noDataFollowed
  | .str (some us) => (s.putUL us.length).putRaw (unitsToBytes us)
  | .strL none => s.putUL noDataFollowed
  | .strL (some (us, bl)) => ((s.putUL bl).putUL us.length).putRaw (unitsToBytes us)
  | .bstr none => s.putUL noDataFollowed
  | .bstr (some bs) => (s.putUL bs.length).putRaw bs
  | .bstrL none => s.putUL noDataFollowed
  | .bstrL (some (bs, bl)) => ((s.putUL bl).putUL bs.length).putRaw bs

/-- `readString(toRead, bufferLen, dataLen, toReadBufLen)`; `unit` = sizeof of the character type.
Returns the raw data bytes and the buffer length. -/
def LBuf.getStr (l : LBuf) (withLen : Bool) (unit : Nat) : Except Err (Option (List Nat × Nat) × LBuf) := do
  let (bufferLen, l1) ← l.getUL
  if bufferLen == noDataFollowed then .ok (none, l1) else
  if withLen then do
    let (dataLen, l2) ← l1.getUL
    -- toRead = allocate(bufferLen * unit); read(toRead, dataLen); toRead[dataLen] = 0
    if dataLen ≥ bufferLen then .error .overrun else
    let (bs, l3) ← l2.getRaw (dataLen * unit)
    .ok (some (bs, bufferLen), l3)
  else do
    let dataLen := bufferLen
    let (bs, l3) ← l1.getRaw (dataLen * unit)
    .ok (some (bs, bufferLen + 1), l3)

def LBuf.getVal (l : LBuf) : Shape → Except Err (Val × LBuf)
  | .prim t => do let (v, l1) ← l.getPrim t.r; .ok (.prim t v, l1)
  | .raw n => do let (bs, l1) ← l.getRaw n; .ok (.raw bs, l1)
  | .str => do
      let (r, l1) ← l.getStr false sz_xmlch
      .ok (.str (r.map fun p => bytesToUnits (p.1.length / sz_xmlch) p.1), l1)
  | .strL => do
      let (r, l1) ← l.getStr true sz_xmlch
      .ok (.strL (r.map fun p => (bytesToUnits (p.1.length / sz_xmlch) p.1, p.2)), l1)
  | .bstr => do
      let (r, l1) ← l.getStr false sz_byte
      .ok (.bstr (r.map fun p => p.1), l1)
  | .bstrL => do
      let (r, l1) ← l.getStr true sz_byte
      .ok (.bstrL (r.map fun p => p), l1)

def SBuf.putVals (s : SBuf) : List Val → SBuf
  | [] => s
  | v :: vs => (s.putVal v).putVals vs

def LBuf.getVals (l : LBuf) : List Shape → Except Err (List Val × LBuf)
  | [] => .ok ([], l)
  | sh :: shs => do
      let (v, l1) ← l.getVal sh
      let (vs, l2) ← l1.getVals shs
      .ok (v :: vs, l2)

/-- store a value list with a fresh engine, destroy the engine (final flush): the output stream -/
def storeVals (base bufSize : Nat) (vs : List Val) : List Nat :=
  ((SBuf.init base bufSize).putVals vs).finish

/-- load with a fresh engine -/
def loadVals (base bufSize : Nat) (stream : List Nat) (shs : List Shape) : Except Err (List Val) := do
  let l ← LBuf.init base bufSize stream
  let (vs, _) ← l.getVals shs
  .ok vs

/-- value fits its C++ type / string has no embedded terminator -/
def unitOK (u : Nat) : Prop := 0 < u ∧ u < 256 ^ sz_xmlch
def byteOK (b : Nat) : Prop := 0 < b ∧ b < 256

def Val.ok : Val → Prop
  | .prim t v => v < 256 ^ t.w.xfer
  | .raw bs => ∀ b ∈ bs, b < 256
  | .str none => True
  | .str (some us) => (∀ u ∈ us, unitOK u) ∧ us.length < noDataFollowed
  | .strL none => True
  | .strL (some (us, bl)) => (∀ u ∈ us, unitOK u) ∧ us.length < bl ∧ bl < noDataFollowed
  | .bstr none => True
  | .bstr (some bs) => (∀ b ∈ bs, byteOK b) ∧ bs.length < noDataFollowed
  | .bstrL none => True
  | .bstrL (some (bs, bl)) => (∀ b ∈ bs, byteOK b) ∧ bs.length < bl ∧ bl < noDataFollowed

-- ------------------------------------------------------------------ engines with object pools
/-- keys of the store pool: addresses of objects, of `XProtoType`s (one per class), of template containers -/
inductive Key
  | obj (p : Nat) | cls (c : Nat) | tmpl (p : Nat)
  deriving DecidableEq, Repr

structure Store where
  b : SBuf
  pool : List (Key × Nat)      -- fStorePool (key ↦ object id); key 0 ↦ fgNullObjectTag is implicit
  count : Nat                  -- fObjectCount
  deriving Repr

def Store.init (base bufSize : Nat) : Store := ⟨SBuf.init base bufSize, [], 0⟩

def poolLookup : List (Key × Nat) → Key → Nat
  | [], _ => 0
  | (k', i) :: r, k => if k' = k then i else poolLookup r k

/-- `lookupStorePool` (0 = not seen) -/
def Store.lookup (s : Store) (k : Key) : Nat := poolLookup s.pool k

/-- `addStorePool` = `pumpCount` + put; `none` = XSer_ObjCount_UppBnd_Exceed -/
def Store.add (s : Store) (k : Key) : Option Store :=
  if s.count ≥ fgMaxObjectCount then none
  else some { s with pool := (k, s.count + 1) :: s.pool, count := s.count + 1 }

def Store.putTag (s : Store) (tag : Nat) : Store := { s with b := s.b.putPrim Ty.uint.w tag }
def Store.putVal (s : Store) (v : Val) : Store := { s with b := s.b.putVal v }

/-- `write(XProtoType*)`: known class → `fgClassMask | index`; else `fgNewClassTag`, `XProtoType::store`
(name length as unsigned long, name bytes), `addStorePool(protoType)` -/
def Store.writeProto (s : Store) (c : Nat) (name : List Nat) : Option Store :=
  let idx := s.lookup (.cls c)
  if idx != 0 then some (s.putTag (fgClassMask + idx))      -- `|`: idx ≤ fgMaxObjectCount < fgClassMask, so + = |
  else
    let s1 := s.putTag fgNewClassTag
    let s2 := { s1 with b := (s1.b.putUL name.length).putRaw name }
    s2.add (.cls c)

/-- entries of the load pool; the restored object's identity is its pool index -/
inductive LEntry
  | obj (c : Nat) | cls (c : Nat) | tmpl
  deriving DecidableEq, Repr

structure Load where
  b : LBuf
  pool : List LEntry           -- fLoadPool, in insertion order
  count : Nat                  -- fObjectCount
  storerLevel : Nat := 0
  deriving Repr

def Load.init (base bufSize : Nat) (stream : List Nat) : Except Err Load := do
  let b ← LBuf.init base bufSize stream
  .ok ⟨b, [], 0, 0⟩

def Load.getTag (l : Load) : Except Err (Nat × Load) := do
  let (t, b1) ← l.b.getPrim Ty.uint.r
  .ok (t, { l with b := b1 })

def Load.getVal (l : Load) (sh : Shape) : Except Err (Val × Load) := do
  let (v, b1) ← l.b.getVal sh
  .ok (v, { l with b := b1 })

/-- `addLoadPool` -/
def Load.add (l : Load) (e : LEntry) : Except Err Load :=
  if l.pool.length != l.count then .error .loadPoolTally
  else if l.count ≥ fgMaxObjectCount then .error .objCount
  else .ok { l with pool := l.pool ++ [e], count := l.count + 1 }

/-- `lookupLoadPool(objectTag)`: the restored pointer (0 = null) is the tag itself -/
def Load.lookup (l : Load) (tag : Nat) : Except Err Nat :=
  if tag > l.pool.length then .error .loadPoolBound else .ok tag

/-- `XProtoType::load`: verify the class-name record against the expected class -/
def Load.readProtoRecord (l : Load) (name : List Nat) : Except Err Load := do
  let (len, b1) ← l.b.getUL
  if len != name.length then .error .nameLenDif else
  let (bs, b2) ← b1.getRaw len
  if bs != name then .error .nameDif else
  .ok { l with b := b2 }

/-- `bool read(XProtoType*, XSerializedObjectId_t*)`: `some tag` = reference to an existing object,
`none` = an object of the expected class follows -/
def Load.readProto (l : Load) (c : Nat) (name : List Nat) : Except Err (Option Nat × Load) := do
  let (obTag, l1) ← l.getTag
  if obTag / fgClassMask % 2 == 0 then .ok (some obTag, l1)       -- !(obTag & fgClassMask)
  else if obTag == fgNewClassTag then do
    let l2 ← l1.readProtoRecord name
    let l3 ← l2.add (.cls c)
    .ok (none, l3)
  else
    let classIndex := obTag - fgClassMask                          -- obTag & ~fgClassMask
    if classIndex == 0 || classIndex > l1.pool.length then .error .invClassIndex
    else .ok (none, l1)

-- ------------------------------------------------------------------ object graphs
/-- a field of a serialisable object: a value or a pointer to a serialisable object (0 = null) -/
inductive Fld
  | val (v : Val) | ptr (p : Nat)
  deriving DecidableEq, Repr

inductive FldTy
  | val (sh : Shape) | ptr (c : Nat)        -- pointer with static class `c` (`serEng >> fPtr` reads via `c`'s prototype)
  deriving DecidableEq, Repr

structure Node where
  cls : Nat
  flds : List Fld
  deriving DecidableEq, Repr

abbrev Heap := List (Nat × Node)

def heapLookup : Heap → Nat → Option Node
  | [], _ => none
  | (q, n) :: r, p => if q = p then some n else heapLookup r p

/-- class table: name bytes (the `#class_name` string of the prototype) and the field layout `serialize` follows -/
structure ClassInfo where
  name : List Nat
  flds : List FldTy
  deriving Repr

abbrev Schema := Nat → ClassInfo

/-- `write(XSerializable*)` for everything on the work list (`work` = pending fields, innermost first: the C++
call stack of nested `serialize` calls); a work item is (owner pointer, owner's pool index, field).
Two traces in the order written: `tp` = (owner pointer, field) — what the heap says; `ti` = (owner index, field with
every pointer replaced by the object id the engine wrote) — what went into the stream.  `none`: fuel exhausted,
dangling pointer, or XSer_ObjCount_UppBnd_Exceed. -/
def storeRun (sch : Schema) (h : Heap) : Nat → List (Nat × Nat × Fld) → Store → List (Nat × Fld) → List (Nat × Fld) →
    Option (Store × List (Nat × Fld) × List (Nat × Fld))
  | _, [], s, tp, ti => some (s, tp, ti)
  | 0, _ :: _, _, _, _ => none
  | f + 1, (o, oi, .val v) :: rest, s, tp, ti =>
      storeRun sch h f rest (s.putVal v) (tp ++ [(o, .val v)]) (ti ++ [(oi, .val v)])
  | f + 1, (o, oi, .ptr p) :: rest, s, tp, ti =>
    if p = 0 then storeRun sch h f rest (s.putTag fgNullObjectTag) (tp ++ [(o, .ptr 0)]) (ti ++ [(oi, .ptr 0)])
    else if s.lookup (.obj p) != 0 then
      storeRun sch h f rest (s.putTag (s.lookup (.obj p))) (tp ++ [(o, .ptr p)]) (ti ++ [(oi, .ptr (s.lookup (.obj p)))])
    else match heapLookup h p with
      | none => none
      | some n =>
        match s.writeProto n.cls (sch n.cls).name with
        | none => none
        | some s1 =>
          match s1.add (.obj p) with
          | none => none
          | some s2 =>
            storeRun sch h f (n.flds.map (fun x => (p, s2.count, x)) ++ rest) s2
              (tp ++ [(o, .ptr p)]) (ti ++ [(oi, .ptr s2.count)])

/-- `read(XProtoType*)` for everything on the work list; the restored heap is returned as the trace of
(owner index, restored field); a restored pointer is the load-pool index of its target (0 = null). -/
def loadRun (sch : Schema) : Nat → List (Nat × FldTy) → Load → List (Nat × Fld) → Except Err (Load × List (Nat × Fld))
  | _, [], l, tr => .ok (l, tr)
  | 0, _ :: _, _, _ => .error .fuel
  | f + 1, (o, .val sh) :: rest, l, tr => do
      let (v, l1) ← l.getVal sh
      loadRun sch f rest l1 (tr ++ [(o, .val v)])
  | f + 1, (o, .ptr c) :: rest, l, tr => do
      let (r, l1) ← l.readProto c (sch c).name
      match r with
      | some tag => do
          let p ← l1.lookup tag
          loadRun sch f rest l1 (tr ++ [(o, .ptr p)])
      | none => do
          -- objRet = protoType->fCreateObject(); addLoadPool(objRet); objRet->serialize(*this)
          let l2 ← l1.add (.obj c)
          let idx := l2.count
          loadRun sch f ((sch c).flds.map (fun t => (idx, t)) ++ rest) l2 (tr ++ [(o, .ptr idx)])

/-- template objects: `needToStoreObject` -/
def Store.needToStore (s : Store) (p : Nat) : Bool × Store :=
  if p = 0 then (false, s.putTag fgNullObjectTag)
  else if s.lookup (.tmpl p) != 0 then (false, s.putTag (s.lookup (.tmpl p)))
  else match (s.putTag fgTemplateObjTag).add (.tmpl p) with
    | some s1 => (true, s1)
    | none => (false, s)      -- XSer_ObjCount_UppBnd_Exceed

/-- `needToLoadObject`: `none` = the template object follows (caller creates it and calls `registerObject`) -/
def Load.needToLoad (l : Load) : Except Err (Option Nat × Load) := do
  let (obTag, l1) ← l.getTag
  if obTag == fgTemplateObjTag then .ok (none, l1)
  else do
    let p ← l1.lookup obTag
    .ok (some p, l1)

-- ------------------------------------------------------------------ grammar-pool header
/-- `XMLGrammarPoolImpl::serializeGrammars` prefix: level, lock flag -/
def storeHeader (s : SBuf) (level : Nat) (locked : Bool) : SBuf :=
  (s.putPrim Ty.uint.w level).putPrim Ty.bool.w (if locked then 1 else 0)

/-- `deserializeGrammars` prefix: the storer level must equal the loader level -/
def loadHeader (l : LBuf) (level : Nat) : Except Err (Bool × LBuf) := do
  let (storerLevel, l1) ← l.getPrim Ty.uint.r
  if storerLevel != level then .error .levelMismatch else
  let (lk, l2) ← l1.getPrim Ty.bool.r
  .ok (lk != 0, l2)

end XV.Model.SerEngine
