/-
Model of XMLString::replaceWS / isWSReplaced / isWSCollapsed / collapseWS (util/XMLString.cpp) and of
BooleanDatatypeValidator::checkContent / compare / getCanonicalRepresentation, written after the C++.
`fgBooleanValueSpace` comes from XV.Gen.Codec (regenerated from util/XMLUni.cpp).
-/
import XV.Gen.Codec
namespace XV.Model.Ws
open XV.Gen.Codec

def chCR : Nat := 0xD
def chLFc : Nat := 0xA
def chHTab : Nat := 0x9

/-- `XMLString::replaceWS` -/
def replaceWS (s : List Nat) : List Nat :=
  s.map (fun c => if c == chCR || c == chLFc || c == chHTab then chSpace else c)

/-- `XMLString::isWSReplaced` -/
def isWSReplaced (s : List Nat) : Bool :=
  s.all (fun c => !(c == chCR || c == chLFc || c == chHTab))

/-- the `inSpace` loop of `isWSCollapsed` -/
def noDoubleSpace : List Nat → Bool → Bool
  | [], _ => true
  | c :: r, inSpace =>
    if c == chSpace then (if inSpace then false else noDoubleSpace r true)
    else noDoubleSpace r false

/-- `XMLString::isWSCollapsed` -/
def isWSCollapsed (s : List Nat) : Bool :=
  if s.isEmpty then true
  else if !isWSReplaced s then false
  else if s.head? == some chSpace || s.getLast? == some chSpace then false
  else noDoubleSpace s false

/-- the chopping loop of `collapseWS` -/
def chop : List Nat → Bool → List Nat
  | [], _ => []
  | c :: r, inSpace =>
    if c == chSpace then (if !inSpace then chSpace :: chop r true else chop r true)
    else c :: chop r false

/-- `*ptr == chSpace` -/
def isSpaceCh (c : Nat) : Bool := c == chSpace

/-- `XMLString::collapseWS` -/
def collapseWS (s : List Nat) : List Nat :=
  if s.isEmpty then s
  else
    let t := if !isWSReplaced s then replaceWS s else s
    let start := t.dropWhile isSpaceCh                       -- remove leading spaces
    if start.isEmpty then []
    else
      let body := (start.reverse.dropWhile isSpaceCh).reverse  -- remove trailing spaces
      if !isWSCollapsed body then chop body false else body

/-- `BooleanDatatypeValidator::checkContent`: index into fgBooleanValueSpace, `none` = exception -/
def boolIndex (s : List Nat) : Option Nat := booleanValueSpace.findIdx? (· == s)

/-- `BooleanDatatypeValidator::compare` (0 = equal, 1 = not equal) -/
def boolCompare (l r : List Nat) : Nat :=
  let v (i : Nat) : List Nat := booleanValueSpace.getD i []
  if l == v 0 || l == v 2 then (if r == v 0 || r == v 2 then 0 else 1)
  else if l == v 1 || l == v 3 then (if r == v 1 || r == v 3 then 0 else 1)
  else 1

/-- `BooleanDatatypeValidator::getCanonicalRepresentation` (after validation) -/
def boolCanonical (s : List Nat) : Option (List Nat) :=
  match boolIndex s with
  | none => none
  | some _ =>
    let v (i : Nat) : List Nat := booleanValueSpace.getD i []
    if s == v 0 || s == v 2 then some (v 0) else some (v 1)

end XV.Model.Ws
