/-
Model of internal/XMLReader.cpp/.hpp: the byte → character pipeline.  Written after the C++,
function by function (refreshRawBuffer, xcodeMoreChars, refreshCharBuffer, getNextChar,
peekNextChar, handleEOL, skippedChar/Space/String, peekString, the constructors incl.
basicEncodingProbe/doInitDecode, setEncoding).

Representation.  The two buffers are modelled by their *live windows*:
  rawWin  = fRawByteBuf[fRawBufIndex .. fRawBytesAvail)      charWin = fCharBuf[fCharIndex .. fCharsAvail)
while the index fields themselves (`rawIdx`, `rawAvail`, `charIdx`, `charsAvail`) are kept as
numbers and updated exactly as the C++ updates them; `XV.Lemmas.Reader.Inv` ties the two
(`rawAvail - rawIdx = rawWin.length`, …) and bounds them by the buffer sizes.
The input stream is `List (List Nat)`: each inner list is what one `BinInputStream::readBytes`
call returns (clipped to the requested size, the remainder staying in front); `[]`/end = EOF.
Buffer sizes and the low-water mark are parameters (`Cfg`); `stdCfg` instantiates them with the
constants regenerated from the sources (XV.Gen.ReaderConsts).
Not modelled: UCS-4/EBCDIC auto-sensing (reported as `unmodelled`), ICU transcoders, the dead
`fRawBufIndex > fRawBytesAvail` throw of refreshRawBuffer, fCharOfsBuf (getSrcOffset is modelled by
the running sum `srcOfs`), reads of stale buffer content past fCharsAvail (getName look-ahead).
-/
import XV.Gen.ReaderConsts
import XV.Model.Utf8
import XV.Model.Utf8Fast
namespace XV.Model.Reader
open XV.Gen.ReaderConsts
open XV.Model.Utf8 (Res Exc transcodeFrom)

structure Cfg where
  charBufSize : Nat
  rawBufSize : Nat
  lowWater : Nat
  deriving DecidableEq, Repr

/-- The sizes of this build of the library. -/
def stdCfg (lw : Nat := lowWaterMark) : Cfg := ⟨kCharBufSize, kRawBufSize, lw⟩

inductive Enc
  | utf8 | latin1 | ascii | utf16le | utf16be
  deriving DecidableEq, Repr

/-! ### The intrinsic transcoders' `transcodeFrom` -/

/-- XML88591Transcoder::transcodeFrom -/
def decLatin1 (src : List Nat) (maxChars : Nat) : Res :=
  let countToDo := min src.length maxChars
  .ok (src.take countToDo) (List.replicate countToDo 1) countToDo

/-- The loop of XMLASCIITranscoder::transcodeFrom; `none` = the throw (everything decoded in this
call is lost), `countDone > 32` = break and come back later. -/
def asciiLoop : List Nat → Nat → Nat → Option (List Nat)
  | [], _, _ => some []
  | b :: rest, room, countDone =>
    if room = 0 then some []
    else if b < 0x80 then (asciiLoop rest (room - 1) (countDone + 1)).map (b :: ·)
    else if countDone > 32 then some []
    else none

def decAscii (src : List Nat) (maxChars : Nat) : Res :=
  match asciiLoop src maxChars 0 with
  | none => .exc .unrepresentable
  | some cs => .ok cs (List.replicate cs.length 1) cs.length

def units16 (le : Bool) : List Nat → List Nat
  | a :: b :: rest => (if le then a + 256 * b else 256 * a + b) :: units16 le rest
  | _ => []

/-- XMLUTF16Transcoder::transcodeFrom (`le` = the source is little-endian). -/
def decUtf16 (le : Bool) (src : List Nat) (maxChars : Nat) : Res :=
  let countToDo := min (src.length / 2) maxChars
  .ok ((units16 le src).take countToDo) (List.replicate countToDo 2) (2 * countToDo)

def decode : Enc → List Nat → Nat → Res
  | .utf8 => transcodeFrom
  | .latin1 => decLatin1
  | .ascii => decAscii
  | .utf16le => decUtf16 true
  | .utf16be => decUtf16 false

/-! ### The stream -/

/-- One `readBytes(buf, maxToRead)` call. -/
def readBytes : List (List Nat) → Nat → List Nat × List (List Nat)
  | [], _ => ([], [])
  | c :: cs, n => if c.length ≤ n then (c, cs) else (c.take n, c.drop n :: cs)

def streamBytes (s : List (List Nat)) : Nat := (s.map List.length).sum

/-! ### The reader -/

structure Reader where
  cfg : Cfg
  enc : Enc                    -- fEncoding (modelled families only)
  xcoder : Option Enc          -- fTranscoder (none = not created yet)
  forced : Bool                -- fForcedEncoding
  nel : Bool                   -- fNEL
  external : Bool              -- fSource == Source_External
  pe : Bool                    -- fType == Type_PE && fRefFrom == RefFrom_NonLiteral
  sentTrailingSpace : Bool
  stream : List (List Nat)
  fuel : Nat                   -- bound of the xcodeMoreChars loop (never changed after construction)
  rawWin : List Nat            -- fRawByteBuf[fRawBufIndex .. fRawBytesAvail)
  rawIdx : Nat
  rawAvail : Nat
  charWin : List Nat           -- fCharBuf[fCharIndex .. fCharsAvail)
  sizeWin : List Nat           -- fCharSizeBuf[fCharIndex .. fCharsAvail)
  charIdx : Nat
  charsAvail : Nat
  noMore : Bool
  line : Nat
  col : Nat
  srcOfs : Nat                 -- getSrcOffset(): fSrcOfsBase + Σ fCharSizeBuf[0 .. fCharIndex)
  deriving Repr

/-- refreshRawBuffer: move the left-over bytes down, read after them. -/
def refreshRawBuffer (r : Reader) : Reader :=
  let bytesLeft := r.rawAvail - r.rawIdx
  let (got, st) := readBytes r.stream (r.cfg.rawBufSize - bytesLeft)
  { r with rawWin := r.rawWin ++ got, rawAvail := got.length + bytesLeft, rawIdx := 0, stream := st }

inductive XRes
  | ok (chars sizes : List Nat) (r : Reader)
  | exc (e : Exc)
  | fuelOut

/-- The `while (!bytesEaten)` loop of xcodeMoreChars. -/
def xcodeLoop : Nat → Reader → Nat → Bool → XRes
  | 0, _, _, _ => .fuelOut
  | fuel + 1, r, maxChars, needMore =>
    let bytesLeft := r.rawAvail - r.rawIdx
    let refill := needMore || bytesLeft == 0 || decide (bytesLeft < r.cfg.lowWater)
    let r1 := if refill then refreshRawBuffer r else r
    if refill && r1.rawAvail == 0 then
      .ok [] [] r1                -- no bytes at all: return 0
    else if refill && needMore && bytesLeft == r1.rawAvail - r1.rawIdx then
      -- needMore and the refill added nothing: the source ends inside a character - unless the transcoder
      -- stopped for lack of room (a surrogate pair needs two slots), then nothing could be done now
      if maxChars < 2 then .ok [] [] r1 else .exc .badSrcSeq
    else
      match decode (r1.xcoder.getD r1.enc) r1.rawWin maxChars with
      | .exc e => .exc e
      | .ok chars sizes bytesEaten =>
        if bytesEaten == 0 then xcodeLoop fuel r1 maxChars true
        else .ok chars sizes { r1 with rawWin := r1.rawWin.drop bytesEaten, rawIdx := r1.rawIdx + bytesEaten }

def xcodeMoreChars (r : Reader) (maxChars : Nat) : XRes := xcodeLoop r.fuel r maxChars false

inductive RRes
  | ok (more : Bool) (r : Reader)
  | exc (e : Exc)
  | fuelOut

def refreshCharBuffer (r : Reader) : RRes :=
  if r.noMore then .ok false r else
  let spareChars := r.charsAvail - r.charIdx
  if spareChars == r.cfg.charBufSize then .ok true r else
  let r := if r.xcoder.isNone then { r with xcoder := some r.enc } else r
  match xcodeMoreChars r (r.cfg.charBufSize - spareChars) with
  | .fuelOut => .fuelOut
  | .exc e => .exc e
  | .ok chars sizes r1 =>
    let r2 := { r1 with charWin := r1.charWin ++ chars, sizeWin := r1.sizeWin ++ sizes,
                        charsAvail := chars.length + spareChars, charIdx := 0 }
    let r3 := if r2.charsAvail == 0 && r2.pe && !r2.sentTrailingSpace then
                { r2 with charWin := [chSpace], sizeWin := [0], charsAvail := 1, sentTrailingSpace := true }
              else r2
    let r4 := if r3.charsAvail == 0 then { r3 with noMore := true } else r3
    .ok (r4.charsAvail != 0) r4

/-- fCharBuf[fCharIndex] -/
def Reader.curChar (r : Reader) : Nat := r.charWin.headD 0
/-- fCharIndex++ -/
def Reader.advance (r : Reader) : Reader :=
  { r with charWin := r.charWin.tail, sizeWin := r.sizeWin.tail, charIdx := r.charIdx + 1,
           srcOfs := r.srcOfs + r.sizeWin.headD 0 }

/-- `exc e r`: `r` is the reader as the exception leaves it (its line/column are what an error
report shows; its buffers are not used again). -/
inductive HRes
  | ok (c : Nat) (r : Reader)
  | exc (e : Exc) (r : Reader)
  | fuelOut

/-- `if (buf[idx] == chLF || (buf[idx] == chNEL && fNEL)) fCharIndex++` -/
def eatLF (r : Reader) : Reader :=
  if r.curChar == chLF || (r.curChar == chNEL && r.nel) then r.advance else r

/-- handleEOL(curCh, inDecl = false) -/
def handleEOL (r : Reader) (curCh : Nat) : HRes :=
  if curCh == chCR then
    let r := { r with col := 1, line := r.line + 1 }
    if r.external then
      if r.charIdx < r.charsAvail then .ok chLF (eatLF r)
      else match refreshCharBuffer r with
        | .fuelOut => .fuelOut
        | .exc e => .exc e r
        | .ok true r' => .ok chLF (eatLF r')
        | .ok false r' => .ok chLF r'
    else .ok curCh r
  else if curCh == chLF then .ok curCh { r with col := 1, line := r.line + 1 }
  else if curCh == chNEL || curCh == chLineSeparator then
    if r.nel && r.external then .ok chLF { r with col := 1, line := r.line + 1 } else .ok curCh r
  else .ok curCh { r with col := r.col + 1 }

inductive GRes
  | char (c : Nat) (r : Reader)
  | eof (r : Reader)
  | exc (e : Exc) (r : Reader)
  | fuelOut

/-- the part of getNextChar after a character is known to be available -/
def takeChar (r : Reader) : GRes :=
  let c := r.curChar
  let r := r.advance
  if (c &&& eolMask) != 0 then .char c { r with col := r.col + 1 }
  else match handleEOL r c with
    | .ok c r => .char c r
    | .exc e r => .exc e r
    | .fuelOut => .fuelOut

def getNextChar (r : Reader) : GRes :=
  if r.charIdx ≥ r.charsAvail then
    if r.noMore then .eof r
    else match refreshCharBuffer r with
      | .fuelOut => .fuelOut
      | .exc e => .exc e r
      | .ok false r' => .eof r'
      | .ok true r' => takeChar r'
  else takeChar r

def peekNorm (r : Reader) : Nat :=
  let c := r.curChar
  if (c == chCR || (r.nel && (c == chNEL || c == chLineSeparator))) && r.external then chLF else c

/-- peekNextChar: `.char c r` = true with chGotten = c, `.eof r` = false (chGotten = 0) -/
def peekNextChar (r : Reader) : GRes :=
  if r.charIdx ≥ r.charsAvail then
    match refreshCharBuffer r with
    | .fuelOut => .fuelOut
    | .exc e => .exc e r
    | .ok false r' => .eof r'
    | .ok true r' => .char (peekNorm r') r'
  else .char (peekNorm r) r

/-- getNextCharIfNot(chNotToGet): `.eof` = returned false -/
def getNextCharIfNot (r : Reader) (chNot : Nat) : GRes :=
  let go (r : Reader) : GRes := if r.curChar == chNot then .eof r else takeChar r
  if r.charIdx ≥ r.charsAvail then
    if r.noMore then .eof r
    else match refreshCharBuffer r with
      | .fuelOut => .fuelOut
      | .exc e => .exc e r
      | .ok false r' => .eof r'
      | .ok true r' => go r'
  else go r

inductive BRes
  | ok (b : Bool) (r : Reader)
  | exc (e : Exc) (r : Reader)
  | fuelOut

/-- skippedChar(toSkip) -/
def skippedChar (r : Reader) (toSkip : Nat) : BRes :=
  let go (r : Reader) : BRes :=
    if r.curChar == toSkip then .ok true { (r.advance) with col := r.col + 1 } else .ok false r
  if r.charIdx == r.charsAvail then
    match refreshCharBuffer r with
    | .fuelOut => .fuelOut
    | .exc e => .exc e r
    | .ok false r' => .ok false r'
    | .ok true r' => go r'
  else go r

/-- isWhitespace: x20 | x9 | xD | xA, and in the XML 1.1 table (`nel`) also x85 and x2028 -/
def isWhitespace (nel : Bool) (c : Nat) : Bool :=
  c == chSpace || c == chHTab || c == chCR || c == chLF || (nel && (c == chNEL || c == chLineSeparator))

/-- the pre-test of skippedSpace/skipSpaces/getSpaces: x20 or x9 advance the column, every other white-space
character is a line end (since /repo 8449186; before, the bit test `(c & (chCR|chLF) & ~(0x9|0x20)) == 0` put
U+2028 on the plain-space side) -/
def isPlainSpace (c : Nat) : Bool := c == chSpace || c == chHTab

/-- skippedSpace() -/
def skippedSpace (r : Reader) : BRes :=
  let go (r : Reader) : BRes :=
    let c := r.curChar
    if isWhitespace r.nel c then
      let r := r.advance
      if isPlainSpace c then .ok true { r with col := r.col + 1 }
      else match handleEOL r c with
        | .ok _ r => .ok true r
        | .exc e r => .exc e r
        | .fuelOut => .fuelOut
    else .ok false r
  if r.charIdx == r.charsAvail then
    match refreshCharBuffer r with
    | .fuelOut => .fuelOut
    | .exc e => .exc e r
    | .ok false r' => .ok false r'
    | .ok true r' => go r'
  else go r

/-- the `while (charsLeft < srcLen)` loop shared by skippedString and peekString.
`strict` = skippedString (a false from refreshCharBuffer returns at once). -/
def fillLoop (strict : Bool) : Nat → Reader → Nat → BRes
  | 0, _, _ => .fuelOut
  | k + 1, r, srcLen =>
    let charsLeft := r.charsAvail - r.charIdx
    if charsLeft < srcLen then
      match refreshCharBuffer r with
      | .fuelOut => .fuelOut
      | .exc e => .exc e r
      | .ok more r' =>
        if strict && !more then .ok false r'
        else if r'.charsAvail - r'.charIdx == charsLeft then .ok false r'
        else fillLoop strict k r' srcLen
    else .ok true r

/-- skippedString(toSkip) -/
def skippedString (r : Reader) (toSkip : List Nat) : BRes :=
  match fillLoop true (toSkip.length + 1) r toSkip.length with
  | .ok true r' =>
    if r'.charWin.take toSkip.length == toSkip then
      .ok true { r' with charWin := r'.charWin.drop toSkip.length,
                         srcOfs := r'.srcOfs + (r'.sizeWin.take toSkip.length).sum,
                         sizeWin := r'.sizeWin.drop toSkip.length,
                         charIdx := r'.charIdx + toSkip.length, col := r'.col + toSkip.length }
    else .ok false r'
  | other => other

/-- peekString(toPeek) -/
def peekString (r : Reader) (toPeek : List Nat) : BRes :=
  match fillLoop false (toPeek.length + 1) r toPeek.length with
  | .ok true r' => .ok (r'.charWin.take toPeek.length == toPeek) r'
  | other => other

/-! ### Constructors -/

def mkBase (cfg : Cfg) (nel external pe : Bool) (stream : List (List Nat)) : Reader :=
  { cfg := cfg, enc := .utf8, xcoder := none, forced := false, nel := nel, external := external, pe := pe,
    sentTrailingSpace := false, stream := stream, fuel := streamBytes stream + stream.length + 2,
    rawWin := [], rawIdx := 0, rawAvail := 0, charWin := [], sizeWin := [], charIdx := 0, charsAvail := 0,
    noMore := false, line := 1, col := 1, srcOfs := 0 }

/-- fRawBufIndex += n -/
def skipRaw (r : Reader) (n : Nat) : Reader := { r with rawWin := r.rawWin.drop n, rawIdx := r.rawIdx + n }

/-- the BOM test of the forced-encoding constructors -/
def bomLen (enc : Enc) (raw : List Nat) : Nat :=
  match enc with
  | .utf8 => if raw.length > fgUTF8BOM.length && raw.take fgUTF8BOM.length == fgUTF8BOM then fgUTF8BOM.length else 0
  | .utf16le | .utf16be =>
      if raw.length < 2 then 0
      else if raw.take 2 == [0xFF, 0xFE] || raw.take 2 == [0xFE, 0xFF] then 2 else 0
  | _ => 0

/-- XMLReader(…, encodingStr | encodingEnum, …): the encoding is forced, no sniffing. -/
def mkForced (cfg : Cfg) (enc : Enc) (nel external pe : Bool) (stream : List (List Nat)) : Reader :=
  let r := refreshRawBuffer (mkBase cfg nel external pe stream)
  let r := skipRaw r (bomLen enc r.rawWin)
  let r := { r with enc := enc, xcoder := some enc, forced := true }
  if pe then { r with charWin := [chSpace], sizeWin := [0], charsAvail := 1 } else r

inductive Family
  | utf8 | utf16b | utf16l | ucs4b | ucs4l | ebcdic
  deriving DecidableEq, Repr

/-- XMLRecognizer::basicEncodingProbe(rawBuffer, rawByteCount) -/
def basicEncodingProbe (buf : List Nat) : Family :=
  let n := buf.length
  if n ≥ fgASCIIPre.length && fgASCIIPre.isPrefixOf buf then .utf8
  else if n < 2 then .utf8
  else if n < 4 then
    if buf.take 2 == [0xFE, 0xFF] then .utf16b
    else if buf.take 2 == [0xFF, 0xFE] then .utf16l
    else .utf8
  else if buf.take 4 == [0x00, 0x00, 0xFE, 0xFF] then .ucs4b
  else if buf.take 4 == [0xFF, 0xFE, 0x00, 0x00] then .ucs4l
  else if buf.take 2 == [0xFE, 0xFF] then .utf16b
  else if buf.take 2 == [0xFF, 0xFE] then .utf16l
  else if (buf.headD 1 == 0x00 || buf.headD 1 == 0x3C) && n ≥ fgUCS4BPre.length && fgUCS4BPre.isPrefixOf buf then .ucs4b
  else if (buf.headD 1 == 0x00 || buf.headD 1 == 0x3C) && n ≥ fgUCS4LPre.length && fgUCS4LPre.isPrefixOf buf then .ucs4l
  else if (buf.headD 1 == 0x00 || buf.headD 1 == 0x3C) && n ≥ fgUTF16BPre.length && fgUTF16BPre.isPrefixOf buf then .utf16b
  else if (buf.headD 1 == 0x00 || buf.headD 1 == 0x3C) && n ≥ fgUTF16LPre.length && fgUTF16LPre.isPrefixOf buf then .utf16l
  else if n > fgEBCDICPre.length && fgEBCDICPre.isPrefixOf buf then .ebcdic
  else .utf8

inductive InitRes
  | ok (chars : List Nat) (eaten : Nat)
  | couldNotDecodeFirstLine

/-- the `while (fRawBufIndex < fRawBytesAvail)` loop of doInitDecode, UTF-8 case.
`avail` = fCharsAvail so far, `cap` = kCharBufSize. -/
def initLoop8 (cap : Nat) : List Nat → Nat → Option (List Nat)
  | [], _ => some []
  | b :: rest, avail =>
    if avail == cap - 1 then none
    else if b == chCloseAngle then some [b]
    else if b ≥ 0x80 then none
    else (initLoop8 cap rest (avail + 1)).map (b :: ·)

/-- same, UTF-16 cases -/
def initLoop16 (le : Bool) (cap : Nat) : List Nat → Nat → Option (List Nat)
  | [], _ => some []
  | [_], _ => none                      -- fRawBufIndex + sizeof(UTF16Ch) > fRawBytesAvail
  | a :: b :: rest, avail =>
    if avail == cap - 1 then none
    else
      let u := if le then a + 256 * b else 256 * a + b
      if u == chCloseAngle then some [u]
      else (initLoop16 le cap rest (avail + 1)).map (u :: ·)

inductive MkRes
  | ok (r : Reader)
  | couldNotDecodeFirstLine
  | unmodelled (f : Family)

/-- the end of doInitDecode: `if (PE && NonLiteral) fCharBuf[fCharsAvail++] = chSpace` -/
def initFinish (r : Reader) : MkRes :=
  .ok (if r.pe then { r with charWin := r.charWin ++ [chSpace], sizeWin := r.sizeWin ++ [0],
                             charsAvail := r.charsAvail + 1 } else r)

/-- the pre-decoded declaration becomes the character buffer; `eaten` raw bytes are consumed -/
def initChars (r : Reader) (cs : List Nat) (unit : Nat) : Reader :=
  { r with rawWin := r.rawWin.drop (unit * cs.length), rawIdx := r.rawIdx + unit * cs.length,
           charWin := cs, sizeWin := List.replicate cs.length unit, charsAvail := cs.length }

/-- `fEncoding = …` -/
def setEnc (r : Reader) (e : Enc) : Reader := { r with enc := e }

/-- UTF-8 case: `if (fRawBytesAvail > 3 && starts with EF BB BF) fRawBufIndex += 3` -/
def skipBom8 (r : Reader) : Reader :=
  if r.rawAvail > fgUTF8BOM.length && r.rawWin.take fgUTF8BOM.length == fgUTF8BOM then skipRaw r fgUTF8BOM.length else r

/-- UTF-16 cases: a BOM in either byte order is skipped -/
def skipBom16 (r : Reader) : Reader :=
  if r.rawWin.take 2 == [0xFF, 0xFE] || r.rawWin.take 2 == [0xFE, 0xFF] then skipRaw r 2 else r

/-- doInitDecode, case UTF_8 -/
def doInit8 (r0 : Reader) : MkRes :=
  let r := skipBom8 (setEnc r0 .utf8)
  if r.rawAvail < fgASCIIPre.length then initFinish r
  else if !(fgASCIIPre.isPrefixOf r.rawWin) then initFinish r
  else match initLoop8 r.cfg.charBufSize r.rawWin r.charsAvail with
    | none => .couldNotDecodeFirstLine
    | some cs => initFinish (initChars r cs 1)

/-- doInitDecode, cases UTF_16B / UTF_16L (fSwapped is folded into `le`) -/
def doInit16 (le : Bool) (r0 : Reader) : MkRes :=
  let r := setEnc r0 (if le then .utf16le else .utf16be)
  if r.rawAvail < 2 then initFinish r
  else
    let r1 := skipBom16 r
    if r1.rawAvail - r1.rawIdx < fgUTF16BPre.length then initFinish r1
    else if !((if le then fgUTF16LPre else fgUTF16BPre).isPrefixOf r1.rawWin) then initFinish r1
    else match initLoop16 le r1.cfg.charBufSize r1.rawWin r1.charsAvail with
      | none => .couldNotDecodeFirstLine
      | some cs => initFinish (initChars r1 cs 2)

/-- doInitDecode for the UTF-8 and UTF-16 families. -/
def doInitDecode (r : Reader) (fam : Family) : MkRes :=
  match fam with
  | .utf8 => doInit8 r
  | .utf16b => doInit16 false r
  | .utf16l => doInit16 true r
  | f => .unmodelled f

/-- XMLReader(…) without an encoding: probe the first read, pre-decode the XMLDecl from it. -/
def mkAuto (cfg : Cfg) (nel external pe : Bool) (stream : List (List Nat)) : MkRes :=
  let r := refreshRawBuffer (mkBase cfg nel external pe stream)
  doInitDecode r (basicEncodingProbe r.rawWin)

inductive EncName
  | named (e : Enc)       -- a name that maps to one modelled intrinsic encoding
  | utf16                 -- "UTF-16" & aliases: endianness from what was sensed
  deriving DecidableEq, Repr

/-- setEncoding(newEncoding) restricted to the modelled names; result = the C++ return value. -/
def setEncoding (r : Reader) (n : EncName) : Bool × Reader :=
  if r.forced then (true, r) else
  match n with
  | .utf16 =>
    if r.enc != .utf16le && r.enc != .utf16be then (false, r)
    else (true, if r.xcoder.isNone then { r with xcoder := some r.enc } else r)
  | .named e =>
    -- ISO-8859-1 is `OtherEncoding` for XMLRecognizer::encodingForName: a pre-created transcoder is
    -- deleted and replaced; for the recognizer's own encodings an existing transcoder is KEPT.
    if e == .latin1 then (true, { r with enc := e, xcoder := some e })
    else (true, { r with enc := e, xcoder := if r.xcoder.isNone then some e else r.xcoder })

/-! ### What a reader delivers -/

inductive End
  | eof
  | exc (e : Exc)
  | fuelOut
  deriving DecidableEq, Repr

/-- repeated getNextChar -/
def deliveredLoop : Nat → Reader → List Nat × End
  | 0, _ => ([], .fuelOut)
  | n + 1, r =>
    match getNextChar r with
    | .char c r' => let (cs, e) := deliveredLoop n r'; (c :: cs, e)
    | .eof _ => ([], .eof)
    | .exc e _ => ([], .exc e)
    | .fuelOut => ([], .fuelOut)

/-- The full sequence of characters obtained by repeated getNextChar, and how it ended. -/
def delivered (r : Reader) : List Nat × End :=
  deliveredLoop (r.charWin.length + r.rawWin.length + r.fuel) r

end XV.Model.Reader
