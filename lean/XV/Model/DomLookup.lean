/-
  Code-shaped model of the DOM Level 3 namespace lookups of `DOMNodeImpl`
  (src/xercesc/dom/impl/DOMNodeImpl.cpp: lookupNamespaceURI, lookupPrefix(2 overloads), isDefaultNamespace) and of
  the element/attribute nodes `AbstractDOMParser::startElement` creates when namespaces are on.

  The three algorithms only ever look at an element, its attributes and its element ancestors, so a node position is
  modelled as the chain `self :: parent :: … :: root` of element records (`none` = null pointer).  Text, comment, PI
  and CDATA nodes delegate to their nearest element ancestor and attribute nodes to their owner element, i.e. they
  evaluate the same chain; a Document node delegates to its document element.

  DEFECTS in /repo that this model deliberately does NOT copy (reported with patches under fixes/):
  * `lookupNamespaceURI`, `lookupPrefix`, `isDefaultNamespace` on a Document without document element dereference a null
    pointer (F15).  The model answers "unknown".
  * the reserved prefixes `xml` / `xmlns` are not pre-bound in `lookupNamespaceURI` (and so never found by
    `lookupPrefix`).  The model binds them first, as the Namespaces recommendation and the DOM standard's "locate a
    namespace" do.
  * `lookupNamespaceURI` returns the empty string instead of null for `xmlns=""` / `xmlns:p=""`; the model returns null.
  Core Lean only.
-/
import XV.Model.NsScan
namespace XV.Model.DomLookup
open XV.Model.ElemStack XV.Model.NsScan
open XV.Spec.Namespace (Item Tag Node Decl)

structure DAttr where
  ns : Option String
  pre : Option String
  loc : String
  nodeName : String
  value : String
deriving Repr, DecidableEq, Inhabited

structure DElem where
  ns : Option String
  pre : Option String
  loc : String
  nodeName : String
  attrs : List DAttr        -- in NamedNodeMap order (sorted by nodeName)
deriving Repr, Inhabited

/-- `XMLString::equals` treats a null pointer and the empty string alike -/
def xeq (a b : Option String) : Bool := a.getD "" == b.getD ""

/-- null for the empty string (minimal fix: "if the value is empty return unknown", DOM L3 Core Appendix B.4) -/
def nonEmpty (v : String) : Option String := if v = "" then none else some v

/-- the attribute loop of `lookupNamespaceURI` on one element; `some r` = the loop returned `r` -/
def lnsAttrs (specifiedPrefix : Option String) : List DAttr → Option (Option String)
  | [] => none
  | attr :: rest =>
    if attr.ns.isSome && xeq attr.ns (some xmlnsURIName) then
      if specifiedPrefix.isNone && attr.nodeName == xmlnsString then some (nonEmpty attr.value)
      else if attr.pre.isSome && xeq attr.pre (some xmlnsString) && xeq (some attr.loc) specifiedPrefix
        then some (nonEmpty attr.value)
      else lnsAttrs specifiedPrefix rest
    else lnsAttrs specifiedPrefix rest

/-- `DOMNodeImpl::lookupNamespaceURI`, ELEMENT_NODE case, walking up through `getElementAncestor` -/
def lookupNamespaceURIElem : List DElem → Option String → Option String
  | [], _ => none
  | thisNode :: ancestors, specifiedPrefix =>
    let ns := thisNode.ns
    let pre := thisNode.pre
    if ns.isSome && ((specifiedPrefix.isNone && pre.isNone) || (pre.isSome && xeq pre specifiedPrefix)) then ns
    else match lnsAttrs specifiedPrefix thisNode.attrs with
      | some r => r
      | none => lookupNamespaceURIElem ancestors specifiedPrefix

/-- `lookupNamespaceURI` as it should be: the reserved prefixes first (minimal fix), then the algorithm as written -/
def lookupNamespaceURI (chain : List DElem) (specifiedPrefix : Option String) : Option String :=
  if specifiedPrefix = some xmlString then some xmlURIName
  else if specifiedPrefix = some xmlnsString then some xmlnsURIName
  else lookupNamespaceURIElem chain specifiedPrefix

/-- the attribute loop of `lookupPrefix(namespaceURI, originalElement)` -/
def lpAttrs (namespaceURI : String) (original : List DElem) : List DAttr → Option String
  | [] => none
  | attr :: rest =>
    if attr.ns.isSome && xeq attr.ns (some xmlnsURIName) && attr.pre.isSome && xeq attr.pre (some xmlnsString)
        && attr.value == namespaceURI then
      let localname := attr.loc
      match lookupNamespaceURI original (some localname) with
      | some found => if found == namespaceURI then some localname else lpAttrs namespaceURI original rest
      | none => lpAttrs namespaceURI original rest
    else lpAttrs namespaceURI original rest

/-- `DOMNodeImpl::lookupPrefix(const XMLCh* namespaceURI, DOMElement* originalElement)` -/
def lookupPrefixFrom (namespaceURI : String) (original : List DElem) : List DElem → Option String
  | [] => none
  | thisNode :: ancestors =>
    let own : Option String :=
      match thisNode.ns, thisNode.pre with
      | some ns, some pre =>
        if ns == namespaceURI then
          (match lookupNamespaceURI original (some pre) with
           | some found => if found == namespaceURI then some pre else none
           | none => none)
        else none
      | _, _ => none
    match own with
    | some p => some p
    | none => match lpAttrs namespaceURI original thisNode.attrs with
      | some p => some p
      | none => lookupPrefixFrom namespaceURI original ancestors

/-- `DOMNodeImpl::lookupPrefix(namespaceURI)`: null for a null argument, else the walk starting at the element -/
def lookupPrefix (chain : List DElem) (namespaceURI : Option String) : Option String :=
  match namespaceURI with
  | none => none
  | some u => lookupPrefixFrom u chain chain

/-- `DOMNodeImpl::isDefaultNamespace`, ELEMENT_NODE case -/
def isDefaultNamespace : List DElem → Option String → Bool
  | [], _ => false
  | thisNode :: ancestors, namespaceURI =>
    if thisNode.pre.isNone || thisNode.pre == some "" then xeq namespaceURI thisNode.ns
    else
      -- getAttributeNodeNS(xmlnsURI, "xmlns")
      match thisNode.attrs.find? (fun a => xeq a.ns (some xmlnsURIName) && a.loc == xmlnsString) with
      | some attr => xeq namespaceURI (some attr.value)
      | none => isDefaultNamespace ancestors namespaceURI

-- ------------------------------------------------------------------------------------------ nodes built by the parser
def nullIfEmpty (s : String) : Option String := if s = "" then none else some s

def qn (pre loc : String) : String := if pre = "" then loc else pre ++ ":" ++ loc

/-- `AbstractDOMParser::startElement`, doNamespaces branch: one attribute -/
def mkAttr (s : Scan) (a : XMLAttr) : DAttr :=
  let attrURIId := if a.pre = "" ∧ a.name = xmlnsString then s.fXMLNSNamespaceId else a.uriId
  let namespaceURI := if attrURIId ≠ s.fEmptyNamespaceId then some (uriText s attrURIId) else none
  ⟨namespaceURI, nullIfEmpty a.pre, a.name, qn a.pre a.name, a.value⟩

def leName (a b : DAttr) : Bool := decide (a.nodeName ≤ b.nodeName)

/-- the element node: `createElementNS(namespaceURI, prefix, localName, qName)`; the attributes end up ordered by
    nodeName (`DOMAttrMapImpl::setNamedItemNSFast` inserts at `findNamePoint(nodeName)`) -/
def mkElem (s : Scan) (t : Tag) (attrs : List XMLAttr) (uriId : Nat) : DElem :=
  let as := (attrs.map (mkAttr s)).mergeSort leName
  if uriId ≠ s.fEmptyNamespaceId then
    ⟨some (uriText s uriId), nullIfEmpty t.pre, t.loc, qn t.pre t.loc, as⟩
  else ⟨none, none, t.loc, t.loc, as⟩

def nullS : Option String → String
  | some s => s
  | none => "~"

def showAttr (a : DAttr) : String :=
  "@{" ++ nullS a.ns ++ "}" ++ nullS a.pre ++ "|" ++ a.loc ++ "|" ++ a.nodeName ++ "="

def showLookups (chain : List DElem) (qp qu : List String) : List String :=
  [ "L^" ++ "^".intercalate ((nullS (lookupNamespaceURI chain none)) :: qp.map (fun p => nullS (lookupNamespaceURI chain (some p)))),
    "P" ++ String.join (qu.map (fun u => "^" ++ nullS (lookupPrefix chain (some u)))),
    "D" ++ String.join (qu.map (fun u => if isDefaultNamespace chain (some u) then "^1" else "^0")) ]

mutual
  def dumpNode (qp qu : List String) (s : Scan) (chain : List DElem) : Node → List String
    | .elem t kids =>
        let (s1, attrs, uriId, _) := startTagNS s t
        let e := mkElem s1 t attrs uriId
        let chain' := e :: chain
        ["<{" ++ nullS e.ns ++ "}" ++ nullS e.pre ++ "|" ++ e.loc ++ "|" ++ e.nodeName] ++ e.attrs.map showAttr ++
        showLookups chain' qp qu ++ dumpList qp qu s1 chain' kids ++ [">"]
    | .text => ["t="] | .comment => ["k="] | .pi => ["p="] | .cdata => ["c="]
  def dumpList (qp qu : List String) (s : Scan) (chain : List DElem) : List Node → List String
    | [] => []
    | n :: ns => dumpNode qp qu s chain n ++ dumpList qp qu s chain ns
end

def dumpParsed (qp qu : List String) (v11 : Bool) (root : Node) : List String :=
  dumpNode qp qu (Scan.init v11) [] root

def scanErrors (v11 : Bool) (root : Node) : Bool := NsScan.scanErrors v11 root

end XV.Model.DomLookup
