/-
C19 (URI part) — code-shaped models of relative-reference resolution in xerces-c (no Mathlib).

C++ under model (src/xercesc/util):
  XMLURL.cpp         XMLURL::setURL(base, rel), XMLURL::isRelative, XMLURL::conglomerateWithBase
  PlatformUtils.cpp  XMLPlatformUtils::weavePaths, removeDotSlash, removeDotDotSlash (searchSlashDotDotSlash)
  XMLUri.cpp         XMLUri::initialize(const XMLUri* baseURI, const XMLCh* uriSpec): the resolution part
                     ("check to see if this is the current doc" … step 6f)

LEVEL OF THE MODEL.  The models work on PARSED components and on path SEGMENTS, the level of XV.Spec.Uri.
The character scanning of XMLURL::parse / XMLUri::initializePath / initializeAuthority is NOT modelled: the
checker (tools/props/c19_uri.py) parses strings with the regular expression of RFC 2396 appendix B and hands the
components to the model.  Consequences, all handled (and documented) on the Python side:
  * XMLURL::parse knows only file/http/ftp/https (anything else throws), throws on an empty reference and on
    "http:" without "//", gives a URL with a host and nothing else the path "/" ("//g" ↦ "http://g/"), ends the
    host only at "/" ("//g?y" has host "g?y"), and turns an empty host into a null one (`ofUri` below does
    the last);
  * XMLUri checks the characters of every component and throws on invalid ones.
NOT modelled in the path algorithms (outside the domain of the correspondence check):
  * empty segments that are not last ("//" inside a path): removeDotDotSlash and XMLUri 6e/6f look for the
    start of <segment> in `subString(tmp1, path, 0, index-1)`, one character short, so an empty segment is
    removed together with the segment before it ("/a//../g" ↦ "/g", RFC: "/a/g");
  * weavePaths treats the backslash (on Windows also the yen and won signs) as a slash;
  * base paths that do not start with a slash (for XMLURL such a base is refused; for XMLUri the buffer of
    step 6 is then relative and `endsWith("/.")` / `patternMatch("/../")` see no slash before a first segment).

DEVIATIONS FROM THE CODE AS IT IS (deliberate, each reported as a defect; the `…AsIs` variants — driver ops `L0`,
`I0` — are exactly the code, so that the unchanged library can be compared as well):
  D3  weavePaths has no step 6d / 6f: "." ↦ "/b/c/.", ".." ↦ "/b/c/.."  (RFC: "/b/c/", "/b/").  The model
      `weavePaths` is the code as it should be after the minimal fix (fixes/c19-weavepaths-trailing-dot-segments.diff).
  D4  the "all we have is a fragment" special case of conglomerateWithBase drops the base query
      ("#s" ↦ "http://a/b/c/d;p#s").  `conglomerate` keeps it (fixes/c19-xmlurl-fragment-only-keeps-base-query.diff).
  D5  XMLUri::initialize returns before the base is looked at when the reference ends after the authority
      ("//g" stays "//g": no scheme).  `xmlUriResolve` inherits the scheme
      (fixes/c19-xmluri-netpath-keeps-base-scheme.diff).
  D6  XMLUri step 6f computes `index-1` with `index = 0` when the buffer is exactly "/.." and
      XMLString::subString throws ArrayIndexOutOfBoundsException ("../../.." against "http://a/b/c/d").
      `xmlUriResolve` keeps "/.." as it keeps "/../g" (fixes/c19-xmluri-dotdot-at-root.diff).
-/
import XV.Spec.Uri
namespace XV.Model.Uri
open XV.Spec.Uri

/-! ### XMLPlatformUtils::weavePaths -/

/-- removeDotSlash: one pass, source pointer → target pointer; "/./" seen: skip "/." and go on from the second
    slash.  On segments: a "." that is followed by a slash is not copied.  (`outRev`: the target, newest first) -/
def removeDotSlashGo : List Seg → List Seg → List Seg
  | outRev, [] => outRev.reverse
  | outRev, [s] => (s :: outRev).reverse
  | outRev, s :: t :: r =>
    if s = "." then removeDotSlashGo outRev (t :: r) else removeDotSlashGo (s :: outRev) (t :: r)

def removeDotSlash (l : List Seg) : List Seg := removeDotSlashGo [] l

/-- removeDotDotSlash: `while ((index = searchSlashDotDotSlash(&path[offset])) != -1)`.
    `doneRev` = the segments before `offset` (newest first), `rest` = the segments from `offset` on.
    "/../" found (".." followed by a slash): `segIndex` = start of the segment before it = top of `doneRev`;
      "<segment> exists and != '..'": both are cut out and `offset = segIndex` — the scan restarts at the place
      of the removed segment, so the next "/../" meets the segment that is now on top;
      otherwise `offset += 4`: the ".." is passed over (kept). -/
def removeDotDotSlashGo : List Seg → List Seg → List Seg
  | doneRev, [] => doneRev.reverse
  | doneRev, s :: rest =>
    if s = ".." ∧ rest ≠ [] then
      match doneRev with
      | p :: d => if p ≠ ".." then removeDotDotSlashGo d rest else removeDotDotSlashGo (s :: doneRev) rest
      | [] => removeDotDotSlashGo (s :: doneRev) rest
    else removeDotDotSlashGo (s :: doneRev) rest

def removeDotDotSlash (l : List Seg) : List Seg := removeDotDotSlashGo [] l

/-- THE FIX, first half (RFC 6d): `if (len >= 2 && buf[len-1] == '.' && isAnySlash(buf[len-2])) buf[len-1] = 0;` -/
def trailingDot (l : List Seg) : List Seg :=
  if l.getLast? = some "." then l.dropLast ++ [""] else l

/-- THE FIX, second half (RFC 6f): the buffer ends with "/..", the segment before it exists and is not "..":
    cut after the slash that precedes that segment. -/
def trailingDotDot (l : List Seg) : List Seg :=
  match l.reverse with
  | d :: p :: r => if d = ".." ∧ p ≠ ".." then ("" :: r).reverse else l
  | _ => l

/-- weavePaths(basePath, relativePath) for a base path that starts with a slash (`baseSegs ≠ []`) and a
    relative reference path (`relSegs = []`: relativePath == 0).
      "Remove anything after the last slash"; "1. concatenate the base and relative";
      "2. remove all occurences of '/./'"; [fix: 6d]; "3. remove all occurences of segment/../ where segment
      is not ../"; [fix: 6f] -/
def weavePathsWith (fix : Bool) (baseSegs relSegs : List Seg) : List Seg :=
  let buf := baseSegs.dropLast ++ (if relSegs.isEmpty then [""] else relSegs)
  let buf := removeDotSlash buf
  let buf := if fix then trailingDot buf else buf
  let buf := removeDotDotSlash buf
  if fix then trailingDotDot buf else buf

/-- the code after the minimal fix -/
def weavePaths := weavePathsWith true
/-- exactly the code -/
def weavePathsAsIs := weavePathsWith false

/-! ### XMLURL -/

/-- the fields of an XMLURL.  `host` stands for fUser, fPassword, fHost, fPortNum, which are always copied
    together; `segs = []` is `fPath == 0`; `absPath` is `*fPath == '/'`. -/
structure URL where
  proto : Option String
  host : Option String
  absPath : Bool
  segs : List Seg
  query : Option String
  fragment : Option String
  deriving Repr, DecidableEq, Inhabited

/-- what XMLURL::parse stores for parsed components: "If its empty, leave it null" (host) -/
def ofUri (u : Uri) : URL :=
  { proto := u.scheme, host := if u.authority = some "" then none else u.authority,
    absPath := u.absPath, segs := u.segs, query := u.query, fragment := u.fragment }

/-- XMLURL::isRelative: no protocol, no path, or a path that is not absolute -/
def isRelative (u : URL) : Bool := u.proto.isNone || u.segs.isEmpty || !u.absPath

/-- XMLURL::conglomerateWithBase(baseURL, false) on `r` (= *this), statement by statement.
    `none`: returns false (setURL then throws MalformedURLException). -/
def conglomerateWith (fix : Bool) (b r : URL) : Option URL :=
  -- "The base URL cannot be relative"
  if isRelative b then none
  -- "Check a special case. If all we have is a fragment, then we want to just take the base host and path,
  --  plus our fragment."   if ((fProtocol == Unknown) && !fHost && !fPath && fFragment)
  else if r.proto.isNone && r.host.isNone && r.segs.isEmpty && r.fragment.isSome then
    some { r with proto := b.proto, host := b.host, absPath := b.absPath, segs := b.segs,
                  -- FIX D4:  if (!fQuery) fQuery = XMLString::replicate(baseURL.fQuery, fMemoryManager);
                  query := if fix && r.query.isNone then b.query else r.query }
  -- if (fProtocol != Unknown) return true;
  else if r.proto.isSome then some r
  else
    -- fProtocol = baseURL.fProtocol;
    let r := { r with proto := b.proto }
    -- if (fProtocol != File) { if (fHost || !baseURL.fHost) return true; }
    if r.proto ≠ some "file" && (r.host.isSome || b.host.isNone) then some r
    else
      -- "Replicate all of the hosty stuff if the base has one"
      let r := { r with host := if b.host.isSome then b.host else r.host }
      -- const bool hadPath = (fPath != 0);  if (hadPath) { if (*fPath == chForwardSlash) return true; }
      let hadPath := !r.segs.isEmpty
      if hadPath && r.absPath then some r
      else
        -- if (baseURL.fPath) { fPath = weavePaths(baseURL.fPath, fPath) }    (the base path is absolute here)
        let r := if !b.segs.isEmpty
                 then { r with absPath := b.absPath, segs := weavePathsWith fix b.segs r.segs } else r
        -- if (hadPath) return true;
        if hadPath then some r
        -- if (fQuery || !baseURL.fQuery) return true;   fQuery = replicate(baseURL.fQuery);
        else if r.query.isSome || b.query.isNone then some r
        else
          let r := { r with query := b.query }
          -- if (fFragment || !baseURL.fFragment) return true;   fFragment = replicate(baseURL.fFragment);
          if r.fragment.isSome || b.fragment.isNone then some r
          else some { r with fragment := b.fragment }

/-- the code after the minimal fixes D3, D4 -/
def conglomerate := conglomerateWith true
/-- exactly the code -/
def conglomerateAsIs := conglomerateWith false

/-- XMLURL::setURL(baseURL, relativeURL) after both strings are parsed:
    `if (isRelative()) conglomerateWithBase(basePart)`. -/
def setURLWith (fix : Bool) (b r : URL) : Option URL :=
  if isRelative r then conglomerateWith fix b r else some r

def setURL := setURLWith true
def setURLAsIs := setURLWith false

/-! ### XMLUri -/

/-- leftmost "/./" (`XMLString::patternMatch(path, SLASH_DOT_SLASH)`) cut down to "/" -/
def removeFirstDot : List Seg → Option (List Seg)
  | [] => none
  | [_] => none
  | s :: t :: r => if s = "." then some (t :: r) else (removeFirstDot (t :: r)).map (s :: ·)

/-- 6c: `while ((iIndex = patternMatch(path, "/./")) != -1) { path = path[0,iIndex) + path[iIndex+2..] }`
    (`n`: iteration bound; the driver passes the length) -/
def uri6c : Nat → List Seg → List Seg
  | 0, l => l
  | n + 1, l => match removeFirstDot l with
    | none => l
    | some l' => uri6c n l'

/-- 6d: `if (endsWith(path, "/.")) path[len-1] = 0;` -/
def uri6d (l : List Seg) : List Seg :=
  if l.getLast? = some "." then l.dropLast ++ [""] else l

/-- 6f: `if (endsWith(path, "/..")) { index = len-3; subString(tmp1, path, 0, index-1); … path[segIndex+1] = 0 }`.
    As is, `index-1` wraps around when the buffer is exactly "/.." and subString throws (D6): `none`. -/
def uri6f (fix : Bool) (l : List Seg) : Option (List Seg) :=
  match l.reverse with
  | [d] => if d = ".." && !fix then none else some l
  | d :: p :: r => if d = ".." ∧ p ≠ ".." then some ("" :: r).reverse else some l
  | [] => some l

/-- The resolution part of XMLUri::initialize(baseURI, uriSpec) on parsed components, for a base path that
    starts with a slash.  `none`: an exception is thrown. -/
def xmlUriResolveWith (fix : Bool) (b r : Uri) : Option Uri :=
  -- "just make a copy of the base if spec is empty"
  if r.scheme.isNone && r.authority.isNone && r.segs.isEmpty && r.query.isNone && r.fragment.isNone then some b
  -- `if (index >= trimmedUriSpecLen) return;` after the authority: nothing of the base is used (D5).
  -- FIX D5: go on (the scheme is inherited in "#3" below, "#4" then returns).
  else if !fix && r.authority.isSome && r.segs.isEmpty && r.query.isNone && r.fragment.isNone then some r
  -- "check to see if this is the current doc - RFC 2396 5.2 #2 … we don't include the check for query string
  --  being null"   if ((!fPath || !*fPath) && fScheme == 0 && fHost == 0 && fRegAuth == 0)
  else if r.segs.isEmpty && r.scheme.isNone && r.authority.isNone then
    some { b with query := if r.query.isNone then b.query else r.query, fragment := r.fragment }
  -- "check for scheme - RFC 2396 5.2 #3"
  else if r.scheme.isSome then some r
  else
    let r := { r with scheme := b.scheme }
    -- "check for authority - RFC 2396 5.2 #4"
    if r.authority.isSome then some r
    else
      let r := { r with authority := b.authority }
      -- "check for absolute path - RFC 2396 5.2 #5"   if ((fPath && *fPath) && startsWith(fPath, "/"))
      if !r.segs.isEmpty && r.absPath then some r
      else
        -- 6a "get all but the last segment of the base URI path", 6b "append the relative URI path"
        let buf := b.segs.dropLast ++ r.segs
        -- 6c, 6d
        let buf := uri6d (uri6c buf.length buf)
        -- 6e: the same loop as XMLPlatformUtils::removeDotDotSlash (with lastIndexOf / patternMatch)
        let buf := removeDotDotSlash buf
        -- 6f
        match uri6f fix buf with
        | none => none
        | some buf => some { r with absPath := b.absPath, segs := buf }

/-- the code after the minimal fixes D5, D6 -/
def xmlUriResolve := xmlUriResolveWith true
/-- exactly the code -/
def xmlUriResolveAsIs := xmlUriResolveWith false

/-! ### Domains of the Spec-equivalence theorems (XV.Props.C19Uri); executable, the driver reports them -/

/-- XMLURL has no host for this base (authority undefined or empty) -/
def hostless (u : Uri) : Bool := (ofUri u).host.isNone

/-- Where `conglomerate` (the code after the fixes D3, D4) IS RFC 2396 §5.2.  Every conjunct excludes a case in
    which the code deviates; `XV.Props.C19Uri` has a counterexample for each. -/
def urlDomain (base rel : Uri) : Bool :=
  -- the base must not be "relative" for XMLURL: protocol and a path starting with a slash (else: refused)
  base.scheme.isSome && base.absPath && !base.segs.isEmpty
  && ( -- a reference with a scheme is taken as it is (RFC step 3)
       rel.scheme.isSome
    || ( rel.WF
      -- the empty reference: parse throws; conglomerateWithBase itself would give the base *directory*
      && !(rel.authority.isNone && rel.segs.isEmpty && rel.query.isNone && rel.fragment.isNone)
      -- "?y#s": taken by the fragment-only special case, keeps the whole base path (RFC 3986 behaviour;
      -- RFC 2396: "/b/c/?y#s")
      && !(rel.authority.isNone && rel.segs.isEmpty && rel.query.isSome && rel.fragment.isSome)
      -- "///x": an empty host is no host for XMLURL, the reference is treated as "/x" (harmless only if the
      -- base has no host either)
      && (decide (rel.authority ≠ some "") || (hostless base && rel.absPath))
      && (if base.scheme = some "file" then
            -- file: a reference with an authority gets the base's host if there is one, and its path is woven
            -- into the base path unless it is absolute ("//h?q")
            rel.authority.isNone || (hostless base && rel.absPath)
          else
            -- not file, base without host ("ftp:///a/b"): returns before the paths are woven; harmless only if
            -- the reference has an authority or an absolute path, or is a fragment only
            !hostless base || rel.authority.isSome || rel.absPath
              || (rel.segs.isEmpty && rel.query.isNone && rel.fragment.isSome)) ) )

/-- Where `xmlUriResolve` (the code after the fixes D5, D6) IS RFC 2396 §5.2. -/
def uriDomain (base rel : Uri) : Bool :=
  -- the buffer of step 6 must start with a slash (see the header)
  base.absPath && !base.segs.isEmpty
  && rel.WF
  -- a query-only reference ("?y", "?y#s") keeps the whole base path: the deliberate deviation from RFC 2396
  -- (its erratum / RFC 3986) documented in XMLUri.cpp; RFC 2396: "/b/c/?y"
  && !(rel.scheme.isNone && rel.authority.isNone && rel.segs.isEmpty && rel.query.isSome)
  -- the empty reference gives a copy of the base *with* the base's fragment
  && !(rel.scheme.isNone && rel.authority.isNone && rel.segs.isEmpty && rel.query.isNone && rel.fragment.isNone
       && base.fragment.isSome)

end XV.Model.Uri
