/-
C13 — reference DOM: an executable model of the DOM Core mutation operations as implemented by
xercesc/dom/impl (DOMParentNode, DOMNodeImpl, DOMDocumentImpl, DOMElementImpl, DOMAttrMapImpl,
DOMAttrImpl, DOMCharacterDataImpl, DOMTextImpl), written so that
  * the order of the legality checks (which decides WHICH DOMException is raised) is the order of the C++,
  * where the C++ violates DOM Core (see `-- REPAIRED` marks) the model shows the behaviour after the minimal
    fix (fixes/*.diff),
  * every successful mutation is one or two *global maps* over the store (`Store.mapNodes`) plus fresh
    allocations, which is what makes the invariant proofs in XV.Props.C13 uniform.

Store: `nodes : NodeId → Option NodeRec` as an `Array (Option NodeRec)`; a NodeId is the creation index and is
the handle used by the line protocol on both sides (harness/hx_dom.cpp assigns handles in the same order).
Strings (names, character data) are lists of UTF-16 code units.  No Mathlib.
-/
import XV.Gen.KidOK
namespace XV.Model.Dom

abbrev NodeId := Nat

/-- DOMNode::NodeType (same order as the enum; `Kind.code` is tied to the generated enum in Props). -/
inductive Kind
  | element | attr | text | cdata | entityRef | entity | pi | comment | document | doctype | fragment | notation
  deriving DecidableEq, Repr, Inhabited

def Kind.code : Kind → Nat
  | .element => 1 | .attr => 2 | .text => 3 | .cdata => 4 | .entityRef => 5 | .entity => 6
  | .pi => 7 | .comment => 8 | .document => 9 | .doctype => 10 | .fragment => 11 | .notation => 12

def Kind.all : List Kind :=
  [.element, .attr, .text, .cdata, .entityRef, .entity, .pi, .comment, .document, .doctype, .fragment, .notation]

/-- DOMException::ExceptionCode (the ones the modelled operations can raise). -/
inductive Exc
  | indexSize | hierarchy | wrongDocument | invalidCharacter | noModification | notFound
  | notSupported | inuseAttribute | namespaceErr | invalidAccess
  deriving DecidableEq, Repr

def Exc.name : Exc → String
  | .indexSize => "INDEX_SIZE_ERR" | .hierarchy => "HIERARCHY_REQUEST_ERR"
  | .wrongDocument => "WRONG_DOCUMENT_ERR" | .invalidCharacter => "INVALID_CHARACTER_ERR"
  | .noModification => "NO_MODIFICATION_ALLOWED_ERR" | .notFound => "NOT_FOUND_ERR"
  | .notSupported => "NOT_SUPPORTED_ERR" | .inuseAttribute => "INUSE_ATTRIBUTE_ERR"
  | .namespaceErr => "NAMESPACE_ERR" | .invalidAccess => "INVALID_ACCESS_ERR"

def Exc.all : List Exc :=
  [.indexSize, .hierarchy, .wrongDocument, .invalidCharacter, .noModification, .notFound,
   .notSupported, .inuseAttribute, .namespaceErr, .invalidAccess]

structure NodeRec where
  kind : Kind
  name : List Nat := []            -- element tag / attribute name / PI target / entity-reference name
  data : List Nat := []            -- character data (Text, CDATASection, Comment, PI)
  parent : Option NodeId := none   -- getParentNode(); always `none` for Attr
  children : List NodeId := []     -- getFirstChild()/getNextSibling() order
  attrs : List NodeId := []        -- Element: DOMAttrMapImpl::fNodes, sorted by nodeName
  ownerElem : Option NodeId := none -- Attr: getOwnerElement()
  owner : NodeId                   -- owner document (a Document owns itself; getOwnerDocument() hides that)
  readOnly : Bool := false
  deriving Repr, DecidableEq

structure Store where
  nodes : Array (Option NodeRec)
  deriving Repr

namespace Store

def size (s : Store) : Nat := s.nodes.size

def get (s : Store) (i : NodeId) : Option NodeRec := (s.nodes[i]?).join

/-- The one mutation primitive: rewrite (or delete, `none`) every live node as a function of its id. -/
def mapNodes (f : NodeId → NodeRec → Option NodeRec) (s : Store) : Store :=
  ⟨s.nodes.mapIdx (fun i o => o.bind (f i))⟩

/-- Fresh node; its id is the old size. -/
def alloc (s : Store) (r : NodeRec) : Store × NodeId := (⟨s.nodes.push (some r)⟩, s.nodes.size)

/-- Several fresh nodes at once (ids `size, size+1, …`). -/
def allocMany (s : Store) (rs : List NodeRec) : Store := ⟨s.nodes ++ (rs.map some).toArray⟩

end Store

/-- `n` documents, handles `0 … n-1` (DOMImplementation::createDocument() without a root element). -/
def init (n : Nat) : Store :=
  ⟨((List.range n).map (fun i => some { kind := .document, owner := i : NodeRec })).toArray⟩

-- ------------------------------------------------------------------ names, strings

/-- XMLChar1_0::isValidName restricted to ASCII (the generators only produce ASCII names); code units
≥ 0x80 are treated as name characters (not exercised, stated as an assumption of the property). -/
def isNameStart (c : Nat) : Bool :=
  (0x41 ≤ c && c ≤ 0x5A) || (0x61 ≤ c && c ≤ 0x7A) || c == 0x5F || c == 0x3A || 0x80 ≤ c

def isNameChar (c : Nat) : Bool :=
  isNameStart c || (0x30 ≤ c && c ≤ 0x39) || c == 0x2D || c == 0x2E

def isXMLName : List Nat → Bool
  | [] => false
  | c :: cs => isNameStart c && cs.all isNameChar

def isSpace (c : Nat) : Bool := c == 0x20 || c == 0x9 || c == 0xA || c == 0xD

/-- XMLChar1_0::isAllSpaces: false for the empty string. -/
def isAllSpaces (l : List Nat) : Bool := !l.isEmpty && l.all isSpace

/-- XMLString::compareString(a, b) < 0 : lexicographic on code units, a proper prefix is smaller. -/
def nameLt : List Nat → List Nat → Bool
  | [], [] => false
  | [], _ :: _ => true
  | _ :: _, [] => false
  | a :: as, b :: bs => if a < b then true else if b < a then false else nameLt as bs

def strOf (s : String) : List Nat := s.toList.map Char.toNat

/-- getNodeName() -/
def NodeRec.nodeName (r : NodeRec) : List Nat :=
  match r.kind with
  | .text => strOf "#text" | .cdata => strOf "#cdata-section" | .comment => strOf "#comment"
  | .document => strOf "#document" | .fragment => strOf "#document-fragment"
  | _ => r.name

-- ------------------------------------------------------------------ hierarchy table

/-- `(kidOK[p] & 1<<ch) != 0` over the generated table. -/
def kidOKTable (p c : Kind) : Bool := (XV.Gen.KidOK.kidOK.getD p.code 0).testBit c.code

/-- DOMDocumentImpl::isKidOK(parent, child) -/
def isKidOK (rp rc : NodeRec) : Bool :=
  kidOKTable rp.kind rc.kind ||
    (XV.Gen.KidOK.docTextAllSpacesClause && rp.kind == .document && rc.kind == .text && isAllSpaces rc.data)

/-- node types implemented without a DOMParentNode: their insertBefore/appendChild/replaceChild are
DOMNodeImpl's (HIERARCHY_REQUEST_ERR), removeChild is DOMNodeImpl's (NOT_FOUND_ERR). -/
def isLeaf : Kind → Bool
  | .text | .cdata | .comment | .pi | .notation => true
  | _ => false

def isCharData : Kind → Bool
  | .text | .cdata | .comment => true
  | _ => false

-- ------------------------------------------------------------------ store queries

def kindOf (s : Store) (i : NodeId) : Option Kind := (s.get i).map (·.kind)

def parentOf (s : Store) (i : NodeId) : Option NodeId := (s.get i).bind (·.parent)

/-- fOwnerNode when isOwned(): the tree parent, or the owner element of an attribute. -/
def upOf (s : Store) (i : NodeId) : Option NodeId :=
  (s.get i).bind fun r => match r.parent with
    | some p => some p
    | none => r.ownerElem

def nameOf (s : Store) (i : NodeId) : List Nat := match s.get i with
  | some r => r.name
  | none => []

def dataOf (s : Store) (i : NodeId) : List Nat := match s.get i with
  | some r => r.data
  | none => []

def isKind (s : Store) (k : Kind) (i : NodeId) : Bool := match s.get i with
  | some r => r.kind == k
  | none => false

/-- getOwnerDocument(): null for a Document. -/
def ownerDocOf (r : NodeRec) : Option NodeId := if r.kind = .document then none else some r.owner

/-- Walk `getParentNode()` upwards from `x` (inclusive) looking for `n`.  Running out of fuel counts as
"found" (the safe answer); `fuel_suffices` in Props shows that this never happens in a well-formed store. -/
def ancOrSelfFuel (s : Store) (n : NodeId) : Nat → NodeId → Bool
  | 0, _ => true
  | fuel + 1, x =>
    if x = n then true else
    match parentOf s x with
    | none => false
    | some q => ancOrSelfFuel s n fuel q

/-- REPAIRED (F4): the walk starts at the target node itself, not at its parent, and is not skipped for a
childless `newChild`. -/
def isAncOrSelf (s : Store) (n x : NodeId) : Bool := ancOrSelfFuel s n (s.size + 1) x

/-- same walk along `upOf` (through attributes), used for subtree membership (clone/import). -/
def inSubtreeFuel (s : Store) (n : NodeId) : Nat → NodeId → Bool
  | 0, _ => false
  | fuel + 1, x =>
    if x = n then true else
    match upOf s x with
    | none => false
    | some q => inSubtreeFuel s n fuel q

def inSubtree (s : Store) (n x : NodeId) : Bool := inSubtreeFuel s n (s.size + 1) x

def countKind (s : Store) (k : Kind) (l : List NodeId) : Nat := (l.filter (isKind s k)).length

-- ------------------------------------------------------------------ child-list surgery

def spliceBefore (r : NodeId) (ms : List NodeId) : List NodeId → List NodeId
  | [] => ms
  | x :: xs => if x = r then ms ++ x :: xs else x :: spliceBefore r ms xs

def insertAt (ref : Option NodeId) (ms l : List NodeId) : List NodeId :=
  match ref with
  | none => l ++ ms
  | some r => spliceBefore r ms l

/-- The effect of the pointer surgery in DOMParentNode::insertBefore (including the preceding
`oldparent->removeChild(newChild)`), for one node or for all children of a DocumentFragment at once:
every `m ∈ ms` leaves the child list it is in, gets parent `p`, and `ms` is spliced into `p`'s list before
`ref` (at the end when `ref` is null). -/
def moveNodes (s : Store) (ms : List NodeId) (p : NodeId) (ref : Option NodeId) : Store :=
  s.mapNodes fun i r => some
    { r with
      children :=
        let l := r.children.filter (fun c => !ms.contains c)
        if i = p then insertAt ref ms l else l
      parent := if ms.contains i then some p else r.parent }

/-- DOMParentNode::removeChild pointer surgery. -/
def detach (s : Store) (c : NodeId) : Store :=
  s.mapNodes fun i r => some
    { r with
      children := r.children.filter (fun x => x != c)
      parent := if i = c then none else r.parent }

/-- Release of nodes (DOMNode::release() on an attribute value / a removed attribute): the handles die.
Written totally: whatever still refers to a released node is cut loose (nothing does in reachable states). -/
def killNodes (s : Store) (dead : List NodeId) : Store :=
  s.mapNodes fun i r =>
    if dead.contains i then none else some
      { r with
        children := r.children.filter (fun c => !dead.contains c)
        attrs := r.attrs.filter (fun c => !dead.contains c)
        parent := match r.parent with
          | some p => if dead.contains p then none else some p
          | none => none
        ownerElem := match r.ownerElem with
          | some e => if dead.contains e then none else some e
          | none => none }

def setDataOf (s : Store) (t : NodeId) (d : List Nat) : Store :=
  s.mapNodes fun i r => some (if i = t then { r with data := d } else r)

def setNameOf (s : Store) (n : NodeId) (nm : List Nat) : Store :=
  s.mapNodes fun i r => some (if i = n then { r with name := nm } else r)

def parentKids (s : Store) (p : NodeId) : List NodeId := match s.get p with
  | some rp => rp.children
  | none => []

/-- node that follows `t` in a child list (getNextSibling) -/
def nextSibIn : List NodeId → NodeId → Option NodeId
  | [], _ => none
  | x :: xs, t => if x = t then xs.head? else nextSibIn xs t

-- ------------------------------------------------------------------ results

inductive Val
  | null
  | node (i : NodeId)
  | str (l : List Nat)
  deriving DecidableEq, Repr

/-- `dead`: an operand handle is not live (released or never created); `mismatch`: the operand's static C++ type
does not offer the method (harness and model both skip the call).  Neither touches the store. -/
inductive Result
  | ok (v : Val)
  | exc (e : Exc)
  | dead
  | mismatch
  deriving DecidableEq, Repr

def Result.isOk : Result → Bool
  | .ok _ => true
  | _ => false

-- ------------------------------------------------------------------ operations

inductive Op
  | createElement (doc : NodeId) (name : List Nat)
  | createText (doc : NodeId) (data : List Nat)
  | createComment (doc : NodeId) (data : List Nat)
  | createCDATA (doc : NodeId) (data : List Nat)
  | createPI (doc : NodeId) (target data : List Nat)
  | createAttribute (doc : NodeId) (name : List Nat)
  | createFragment (doc : NodeId)
  | createEntityRef (doc : NodeId) (name : List Nat)
  | appendChild (p n : NodeId)
  | insertBefore (p n : NodeId) (ref : Option NodeId)
  | removeChild (p c : NodeId)
  | replaceChild (p n old : NodeId)
  | setAttribute (e : NodeId) (name val : List Nat)
  | removeAttribute (e : NodeId) (name : List Nat)
  | setAttributeNode (e a : NodeId)
  | removeAttributeNode (e a : NodeId)
  | setValue (a : NodeId) (val : List Nat)
  | substringData (t off cnt : Nat)
  | appendData (t : NodeId) (d : List Nat)
  | insertData (t off : Nat) (d : List Nat)
  | deleteData (t off cnt : Nat)
  | replaceData (t off cnt : Nat) (d : List Nat)
  | setData (t : NodeId) (d : List Nat)
  | splitText (t off : Nat)
  | cloneNode (n : NodeId) (deep : Bool)
  | importNode (doc n : NodeId) (deep : Bool)
  | adoptNode (doc n : NodeId)
  | normalize (n : NodeId)
  | renameNode (doc n : NodeId) (name : List Nat)
  deriving Repr

/-- `doc->createX(...)`: fresh unattached node owned by `d`. -/
def createNode (s : Store) (d : NodeId) (nameCheck : Option (List Nat)) (mk : NodeRec) : Store × Result :=
  match s.get d with
  | none => (s, .dead)
  | some rd =>
    if rd.kind ≠ .document then (s, .mismatch)
    else match nameCheck with
      | some nm =>
        if isXMLName nm then ((s.alloc mk).1, .ok (.node (s.alloc mk).2))
        else (s, .exc .invalidCharacter)
      | none => ((s.alloc mk).1, .ok (.node (s.alloc mk).2))

/-- DOMDocumentImpl::insertBefore's "only one such child permitted" test.
`skipElem`/`skipDT`: DOMDocumentImpl::replaceChild clears fDocElement / fDocType for the duration of the call
when `oldChild` is an Element / a DocumentType.
REPAIRED: (a) "fDocElement != 0" is "the document has an Element child" (the cached pointer is stale after
`doc.replaceChild(e, e)`); (b) the children of a DocumentFragment are counted *before* anything is moved (the C++
discovers the second element only after it has moved the preceding children). -/
def docConflict (s : Store) (rp rn : NodeRec) (skipElem skipDT : Bool) : Bool :=
  let hasE := !skipElem && decide (0 < countKind s .element rp.children)
  let hasD := !skipDT && decide (0 < countKind s .doctype rp.children)
  match rn.kind with
  | .element => hasE
  | .doctype => hasD
  | .fragment =>
    decide (1 < countKind s .element rn.children + (if hasE then 1 else 0)) ||
    decide (1 < countKind s .doctype rn.children + (if hasD then 1 else 0))
  | _ => false

def refDead (s : Store) : Option NodeId → Bool
  | some r => (s.get r).isNone
  | none => false

/-- `refChild != 0 && refChild->getParentNode() != this` -/
def refNotChild (s : Store) (p : NodeId) : Option NodeId → Bool
  | some r => decide (parentOf s r ≠ some p)
  | none => false

/-- some child of the fragment may not become a child of `rp` -/
def fragKidsBad (s : Store) (rp : NodeRec) (kids : List NodeId) : Bool :=
  kids.any fun k => match s.get k with
    | some rk => !isKidOK rp rk
    | none => true

/-- The legality checks of DOMParentNode::insertBefore (and of the DOMDocumentImpl / DOMNodeImpl overrides) in
C++ order.  `.error r`: the call ends with result `r` and changes nothing; `.ok ms`: the nodes to be moved. -/
def insertPlan (s : Store) (p n : NodeId) (rp rn : NodeRec) (ref : Option NodeId) (skipElem skipDT : Bool) :
    Except Result (List NodeId) :=
  if refDead s ref then .error .dead else
  -- DOMNodeImpl::insertBefore
  if isLeaf rp.kind then .error (.exc .hierarchy) else
  -- DOMDocumentImpl::insertBefore
  if rp.kind = .document ∧ docConflict s rp rn skipElem skipDT = true then .error (.exc .hierarchy) else
  -- DOMParentNode::insertBefore
  if rp.readOnly then .error (.exc .noModification) else
  if ownerDocOf rn ≠ some rp.owner then .error (.exc .wrongDocument) else
  if isAncOrSelf s n p then .error (.exc .hierarchy) else                                  -- REPAIRED (F4)
  if refNotChild s p ref then .error (.exc .notFound) else
  if ref = some n then .error (.ok (.node n)) else
  if rn.kind = .fragment then
    if fragKidsBad s rp rn.children then .error (.exc .hierarchy) else .ok rn.children
  else if !isKidOK rp rn then .error (.exc .hierarchy)
  else .ok [n]

/-- DOMParentNode::insertBefore -/
def insertBeforeCore (s : Store) (p n : NodeId) (ref : Option NodeId) (skipElem skipDT : Bool) :
    Store × Result :=
  match s.get p, s.get n with
  | some rp, some rn =>
    match insertPlan s p n rp rn ref skipElem skipDT with
    | .error r => (s, r)
    | .ok ms => (moveNodes s ms p ref, .ok (.node n))
  | _, _ => (s, .dead)

def removeChildCore (s : Store) (p c : NodeId) : Store × Result :=
  match s.get p, s.get c with
  | some rp, some rc =>
    if isLeaf rp.kind then (s, .exc .notFound) else              -- DOMNodeImpl::removeChild
    if rp.readOnly then (s, .exc .noModification) else
    if rc.parent ≠ some p then (s, .exc .notFound) else
    (detach s c, .ok (.node c))
  | _, _ => (s, .dead)

/-- DOMParentNode::replaceChild = insertBefore(newChild, oldChild); removeChild(oldChild)
(so `replaceChild(x, x)` removes `x`: DOM Level 3 leaves replacing a node with itself to the implementation). -/
def replaceChildCore (s : Store) (p n old : NodeId) : Store × Result :=
  match s.get p, s.get n, s.get old with
  | some rp, some _, some ro =>
    if isLeaf rp.kind then (s, .exc .hierarchy) else            -- DOMNodeImpl::replaceChild
    let skipE := rp.kind == .document && ro.kind == .element
    let skipD := rp.kind == .document && ro.kind == .doctype
    match insertBeforeCore s p n (some old) skipE skipD with
    | (s1, .ok _) => (detach s1 old, .ok (.node old))
    | (_, r) => (s, r)
  | _, _, _ => (s, .dead)

-- attributes ---------------------------------------------------------------------------------

/-- DOMAttrMapImpl::findNamePoint(name) ≥ 0 : the attribute with that nodeName. -/
def findAttr (s : Store) (as : List NodeId) (nm : List Nat) : Option NodeId :=
  as.find? (fun a => nameOf s a == nm)

/-- insertion at the point findNamePoint reports for an absent name (the vector stays sorted). -/
def insertSorted (s : Store) (a : NodeId) (nm : List Nat) : List NodeId → List NodeId
  | [] => [a]
  | x :: xs => if nameLt nm (nameOf s x) then a :: x :: xs else x :: insertSorted s a nm xs

/-- DOMAttrMapImpl: take `a` out of the vector it is in, clear its owner element. -/
def unlinkAttr (s : Store) (a : NodeId) : Store :=
  s.mapNodes fun i r => some
    { r with
      attrs := r.attrs.filter (fun x => x != a)
      ownerElem := if i = a then none else r.ownerElem }

/-- DOMAttrMapImpl::setNamedItem for an absent name: insert at the sorted position, set the owner element. -/
def linkAttr (s : Store) (e a : NodeId) (nm : List Nat) : Store :=
  s.mapNodes fun i r => some
    (if i = e then { r with attrs := insertSorted s a nm r.attrs }
     else if i = a then { r with ownerElem := some e }
     else r)

/-- DOMAttrImpl::setValue: existing children are removed *and released* (their handles die), one new Text child
holds the value. -/
def setValueCore (s : Store) (a : NodeId) (ra : NodeRec) (val : List Nat) : Store :=
  let t := s.size
  let s1 := (s.alloc { kind := .text, data := val, owner := ra.owner }).1
  let s2 := killNodes s1 ra.children
  moveNodes s2 [t] a none

def setAttributeCore (s : Store) (e : NodeId) (nm val : List Nat) : Store × Result :=
  match s.get e with
  | none => (s, .dead)
  | some re =>
    if re.kind ≠ .element then (s, .mismatch) else
    if re.readOnly then (s, .exc .noModification) else
    match findAttr s re.attrs nm with
    | some a =>
      match s.get a with
      | some ra => (setValueCore s a ra val, .ok .null)
      | none => (s, .dead)
    | none =>
      if !isXMLName nm then (s, .exc .invalidCharacter) else
      let a := s.size
      let ra : NodeRec := { kind := .attr, name := nm, owner := re.owner }
      let s1 := (s.alloc ra).1
      let s2 := linkAttr s1 e a nm
      (setValueCore s2 a ra val, .ok .null)

/-- DOMElementImpl::removeAttribute: the removed Attr and its children are released. -/
def removeAttributeCore (s : Store) (e : NodeId) (nm : List Nat) : Store × Result :=
  match s.get e with
  | none => (s, .dead)
  | some re =>
    if re.kind ≠ .element then (s, .mismatch) else
    if re.readOnly then (s, .exc .noModification) else
    match findAttr s re.attrs nm with
    | none => (s, .ok .null)
    | some a =>
      let kids := match s.get a with
        | some ra => ra.children
        | none => []
      (killNodes (unlinkAttr s a) (a :: kids), .ok .null)

/-- DOMElementImpl::setAttributeNode → DOMAttrMapImpl::setNamedItem.
REPAIRED: setting an attribute that already belongs to this element has no effect (the C++ clears its
owner-element link while leaving it in the map). -/
def setAttributeNodeCore (s : Store) (e a : NodeId) : Store × Result :=
  match s.get e, s.get a with
  | some re, some ra =>
    if re.kind ≠ .element then (s, .mismatch) else
    if ra.kind ≠ .attr then (s, .mismatch) else
    if re.readOnly then (s, .exc .noModification) else
    if ra.owner ≠ re.owner then (s, .exc .wrongDocument) else
    match ra.ownerElem with
    | some e' => if e' = e then (s, .ok (.node a)) else (s, .exc .inuseAttribute)
    | none =>
      match findAttr s re.attrs ra.name with
      | some prev => (linkAttr (unlinkAttr s prev) e a ra.name, .ok (.node prev))
      | none => (linkAttr s e a ra.name, .ok .null)
  | _, _ => (s, .dead)

def removeAttributeNodeCore (s : Store) (e a : NodeId) : Store × Result :=
  match s.get e, s.get a with
  | some re, some ra =>
    if re.kind ≠ .element then (s, .mismatch) else
    if ra.kind ≠ .attr then (s, .mismatch) else
    if re.readOnly then (s, .exc .noModification) else
    if findAttr s re.attrs ra.name = some a then (unlinkAttr s a, .ok (.node a))
    else (s, .exc .notFound)
  | _, _ => (s, .dead)

def setValueOp (s : Store) (a : NodeId) (val : List Nat) : Store × Result :=
  match s.get a with
  | none => (s, .dead)
  | some ra =>
    if ra.kind ≠ .attr then (s, .mismatch) else
    if ra.readOnly then (s, .exc .noModification) else
    (setValueCore s a ra val, .ok .null)

-- character data ---------------------------------------------------------------------------------

/-- the list-level meaning of the five CharacterData methods (DOM Core) -/
def substr (l : List Nat) (off cnt : Nat) : List Nat := (l.drop off).take cnt
def insertAtOff (l : List Nat) (off : Nat) (d : List Nat) : List Nat := l.take off ++ d ++ l.drop off
def deleteRange (l : List Nat) (off cnt : Nat) : List Nat := l.take off ++ l.drop (off + cnt)

inductive CDOp
  | substring (off cnt : Nat)
  | append (d : List Nat)
  | insert (off : Nat) (d : List Nat)
  | delete (off cnt : Nat)
  | replace (off cnt : Nat) (d : List Nat)
  | set (d : List Nat)

/-- DOMCharacterDataImpl on a data string: `inl code` or `inr (newData, returned string)`.
REPAIRED: substringData clamps `count` (the C++ writes `newString[count] = 0` past its 4096-unit buffer). -/
def cdApply (l : List Nat) : CDOp → Except Exc (List Nat × Option (List Nat))
  | .substring off cnt => if l.length < off then .error .indexSize else .ok (l, some (substr l off cnt))
  | .append d => .ok (l ++ d, none)
  | .insert off d => if l.length < off then .error .indexSize else .ok (insertAtOff l off d, none)
  | .delete off cnt => if l.length < off then .error .indexSize else .ok (deleteRange l off cnt, none)
  | .replace off cnt d =>
      if l.length < off then .error .indexSize else .ok (insertAtOff (deleteRange l off cnt) off d, none)
  | .set d => .ok (d, none)

/-- which interfaces offer the method: CharacterData (Text, CDATASection, Comment); setData also on PI -/
def cdKindOK (k : Kind) : CDOp → Bool
  | .set _ => isCharData k || k == .pi
  | _ => isCharData k

def charDataOp (s : Store) (t : NodeId) (op : CDOp) : Store × Result :=
  match s.get t with
  | none => (s, .dead)
  | some rt =>
    if !cdKindOK rt.kind op then (s, .mismatch) else
    if rt.readOnly then (s, .exc .noModification) else
    match cdApply rt.data op with
    | .error e => (s, .exc e)
    | .ok (_, some str) => (s, .ok (.str str))
    | .ok (d, none) => (setDataOf s t d, .ok .null)

/-- would the parent's insertBefore refuse the second half? -/
def splitRefuse (s : Store) (rt nw : NodeRec) : Option Exc :=
  match rt.parent with
  | some p =>
    (match s.get p with
     | some rp => if rp.readOnly then some .noModification else if !isKidOK rp nw then some .hierarchy else none
     | none => none)
  | none => none

/-- DOMTextImpl::splitText / DOMCDATASectionImpl::splitText.  The new node is inserted through the parent's
(virtual) insertBefore, which can refuse it: a Document accepts only all-white-space Text children. -/
def splitTextCore (s : Store) (t off : Nat) : Store × Result :=
  match s.get t with
  | none => (s, .dead)
  | some rt =>
    if rt.kind ≠ .text ∧ rt.kind ≠ .cdata then (s, .mismatch) else
    if rt.readOnly then (s, .exc .noModification) else
    if rt.data.length < off then (s, .exc .indexSize) else
    let nw : NodeRec := { kind := rt.kind, data := rt.data.drop off, owner := rt.owner }
    match splitRefuse s rt nw with
    | some e => (s, .exc e)
    | none =>
    let k := s.size
    let s1 := (s.alloc nw).1
    let s2 := setDataOf s1 t (rt.data.take off)
    match rt.parent with
    | none => (s2, .ok (.node k))
    | some p => (moveNodes s2 [k] p (nextSibIn (parentKids s p) t), .ok (.node k))

-- clone / import / adopt / normalize / rename -------------------------------------------------

/-- the nodes copied by cloneNode/importNode of `n`: `n`, (deep) its descendants including attributes and
their children, (shallow Element) its attributes and their children, (Attr) always its children. -/
def cloneSet (s : Store) (n : NodeId) (rn : NodeRec) (deep : Bool) : List NodeId :=
  (List.range s.size).filter fun x =>
    (s.get x).isSome && !isKind s .document x &&
    (x == n ||
     (if deep || rn.kind == .attr then inSubtree s n x
      else rn.attrs.contains x || (match parentOf s x with
        | some q => rn.attrs.contains q
        | none => false)))

/-- new id of the copy of `x` -/
def cloneId (base : Nat) (D : List NodeId) (x : NodeId) : NodeId := base + D.idxOf x

/-- the copy of node `x` (record `r`): links are translated by `f`; a link that leaves the copied set is cut
(none does in a well-formed store — written totally so that the invariant proof needs no closure argument).
`dropKids`: shallow clone of a non-Attr, the root's children are not copied. -/
def cloneRec (n : NodeId) (D : List NodeId) (f : NodeId → NodeId) (dropKids : Bool) (doc : NodeId)
    (x : NodeId) (r : NodeRec) : NodeRec :=
  { r with
    parent := if x = n then none else match r.parent with
      | some q => if D.contains q && !(q == n && dropKids) then some (f q) else none
      | none => none
    ownerElem := if x = n then none else match r.ownerElem with
      | some e => if D.contains e then some (f e) else none
      | none => none
    children := if x = n && dropKids then [] else (r.children.filter (fun c => D.contains c && c != n)).map f
    attrs := (r.attrs.filter (fun c => D.contains c && c != n)).map f
    owner := doc }

/-- cloneNode(deep) / importNode(source, deep): copies get fresh ids in increasing order of the originals' ids
(the harness numbers the new nodes the same way). -/
def cloneInto (s : Store) (n : NodeId) (rn : NodeRec) (deep : Bool) (doc : NodeId) : Store × Result :=
  let D := cloneSet s n rn deep
  let f := cloneId s.size D
  let recs := D.map fun x => match s.get x with
    | some r => cloneRec n D f (!deep && rn.kind != .attr) doc x r
    | none => { kind := .text, owner := doc }          -- unreachable: every member of D is live
  (s.allocMany recs, .ok (.node (f n)))

def cloneNodeCore (s : Store) (n : NodeId) (deep : Bool) : Store × Result :=
  match s.get n with
  | none => (s, .dead)
  | some rn =>
    if rn.kind = .document ∨ rn.kind = .doctype then (s, .mismatch) else   -- not exercised
    cloneInto s n rn deep rn.owner

def importNodeCore (s : Store) (d n : NodeId) (deep : Bool) : Store × Result :=
  match s.get d, s.get n with
  | some rd, some rn =>
    if rd.kind ≠ .document then (s, .mismatch) else
    if rn.kind = .document ∨ rn.kind = .doctype then (s, .exc .notSupported) else
    cloneInto s n rn (deep && rn.kind != .entityRef) d
  | _, _ => (s, .dead)

/-- DOMDocumentImpl::adoptNode: only nodes of this document; detaches; always returns null. -/
def adoptNodeCore (s : Store) (d n : NodeId) : Store × Result :=
  match s.get d, s.get n with
  | some rd, some rn =>
    if rd.kind ≠ .document then (s, .mismatch) else
    if ownerDocOf rn ≠ some d then (s, .ok .null) else
    if rn.kind = .doctype then (s, .exc .notSupported) else
    if rn.kind = .attr then
      match rn.ownerElem with
      | some e =>
        match removeAttributeNodeCore s e n with
        | (s1, .ok _) => (s1, .ok .null)
        | (_, r) => (s, r)
      | none => (s, .ok .null)
    else
      match rn.parent with
      | some p =>
        match removeChildCore s p n with
        | (s1, .ok _) => (s1, .ok .null)
        | (_, r) => (s, r)
      | none => (s, .ok .null)
  | _, _ => (s, .dead)

/-- nodes whose child lists normalize visits from `n`: `n`, recursively its Element children, and
(REPAIRED: DOM Core "including attribute nodes"; the C++ skips them) the attributes of the visited Elements. -/
def normReachFuel (s : Store) (n : NodeId) : Nat → NodeId → Bool
  | 0, _ => false
  | fuel + 1, x =>
    if x = n then true else
    if isKind s .element x then
      match parentOf s x with
      | some q => normReachFuel s n fuel q
      | none => false
    else if isKind s .attr x then
      match upOf s x with
      | some q => isKind s .element q && normReachFuel s n fuel q
      | none => false
    else false

def normReach (s : Store) (n x : NodeId) : Bool := normReachFuel s n (s.size + 1) x

/-- children kept by normalize: a Text that directly follows a Text is merged away -/
def normKids (s : Store) : Bool → List NodeId → List NodeId
  | _, [] => []
  | prevText, k :: rest =>
    if isKind s .text k then (if prevText then normKids s true rest else k :: normKids s true rest)
    else k :: normKids s false rest

/-- data of the Text run that directly follows `t` in `l` -/
def runAfter (s : Store) (t : NodeId) : List NodeId → List Nat
  | [] => []
  | k :: rest =>
    if k = t then ((rest.takeWhile (isKind s .text)).map (dataOf s)).flatten else runAfter s t rest

/-- children left in place by normalize: the first Text of every run of adjacent Text nodes, unless the merged data
is empty (REPAIRED: DOM Core "neither adjacent Text nodes nor empty Text nodes"; the C++ keeps empty ones), and
every non-Text child. -/
def keptKids (s : Store) (l : List NodeId) : List NodeId :=
  (normKids s false l).filter fun k => !(isKind s .text k && (dataOf s k ++ runAfter s k l).isEmpty)

/-- `q`'s child list is visited by the normalize call on `n` -/
def visited (s : Store) (n q : NodeId) : Bool :=
  normReach s n q && (match s.get q with
    | some rq => !isLeaf rq.kind
    | none => false)

/-- a Text child of a visited parent that directly follows another Text: merged into it and removed
(`removeChild`, not released) -/
def mergedAway (s : Store) (n i : NodeId) (r : NodeRec) : Bool :=
  r.kind == .text && (match r.parent with
    | some q => visited s n q && !(keptKids s (parentKids s q)).contains i
    | none => false)

/-- what `appendData` adds to the first Text of a run -/
def extraData (s : Store) (n i : NodeId) (r : NodeRec) : List Nat :=
  match r.parent with
  | some q =>
    if r.kind == .text && visited s n q && (keptKids s (parentKids s q)).contains i
    then runAfter s i (parentKids s q) else []
  | none => []

/-- the per-node effect of DOMParentNode::normalize -/
def normF (s : Store) (n i : NodeId) (r : NodeRec) : NodeRec :=
  { r with
    children := if visited s n i then keptKids s r.children else r.children
    parent := if mergedAway s n i r then none else r.parent
    data := r.data ++ extraData s n i r }

/-- DOMParentNode::normalize / DOMElementImpl::normalize: adjacent Text nodes are merged into the first one, Text
nodes that end up empty are removed; removed nodes are detached (removeChild), not released. -/
def normalizeCore (s : Store) (n : NodeId) : Store × Result :=
  match s.get n with
  | none => (s, .dead)
  | some rn =>
    if isLeaf rn.kind then (s, .ok .null) else
    (s.mapNodes fun i r => some (normF s n i r), .ok .null)

/-- DOMDocumentImpl::renameNode with a null namespace URI.
REPAIRED: the new name must be an XML name (the C++ performs no check at all). -/
def renameNodeCore (s : Store) (d n : NodeId) (nm : List Nat) : Store × Result :=
  match s.get d, s.get n with
  | some rd, some rn =>
    if rd.kind ≠ .document then (s, .mismatch) else
    if ownerDocOf rn ≠ some d then (s, .exc .wrongDocument) else
    if rn.kind = .element then
      if !isXMLName nm then (s, .exc .invalidCharacter) else
      (setNameOf s n nm, .ok (.node n))
    else if rn.kind = .attr then
      if !isXMLName nm then (s, .exc .invalidCharacter) else
      match rn.ownerElem with
      | none => (setNameOf s n nm, .ok (.node n))
      | some e =>
        -- el->removeAttributeNode(this); fName = name; el->setAttributeNode(this)
        let s1 := setNameOf (unlinkAttr s n) n nm
        let others := match s1.get e with
          | some re => re.attrs
          | none => []
        match findAttr s1 others nm with
        | some prev => (linkAttr (unlinkAttr s1 prev) e n nm, .ok (.node n))
        | none => (linkAttr s1 e n nm, .ok (.node n))
    else (s, .exc .notSupported)
  | _, _ => (s, .dead)

-- ------------------------------------------------------------------ step

def step (s : Store) : Op → Store × Result
  | .createElement d nm => createNode s d (some nm) { kind := .element, name := nm, owner := d }
  | .createText d data => createNode s d none { kind := .text, data := data, owner := d }
  | .createComment d data => createNode s d none { kind := .comment, data := data, owner := d }
  | .createCDATA d data => createNode s d none { kind := .cdata, data := data, owner := d }
  | .createPI d tg data => createNode s d (some tg) { kind := .pi, name := tg, data := data, owner := d }
  | .createAttribute d nm => createNode s d (some nm) { kind := .attr, name := nm, owner := d }
  | .createFragment d => createNode s d none { kind := .fragment, owner := d }
  | .createEntityRef d nm => createNode s d (some nm) { kind := .entityRef, name := nm, owner := d, readOnly := true }
  | .appendChild p n => insertBeforeCore s p n none false false
  | .insertBefore p n ref => insertBeforeCore s p n ref false false
  | .removeChild p c => removeChildCore s p c
  | .replaceChild p n old => replaceChildCore s p n old
  | .setAttribute e nm v => setAttributeCore s e nm v
  | .removeAttribute e nm => removeAttributeCore s e nm
  | .setAttributeNode e a => setAttributeNodeCore s e a
  | .removeAttributeNode e a => removeAttributeNodeCore s e a
  | .setValue a v => setValueOp s a v
  | .substringData t off cnt => charDataOp s t (.substring off cnt)
  | .appendData t d => charDataOp s t (.append d)
  | .insertData t off d => charDataOp s t (.insert off d)
  | .deleteData t off cnt => charDataOp s t (.delete off cnt)
  | .replaceData t off cnt d => charDataOp s t (.replace off cnt d)
  | .setData t d => charDataOp s t (.set d)
  | .splitText t off => splitTextCore s t off
  | .cloneNode n deep => cloneNodeCore s n deep
  | .importNode d n deep => importNodeCore s d n deep
  | .adoptNode d n => adoptNodeCore s d n
  | .normalize n => normalizeCore s n
  | .renameNode d n nm => renameNodeCore s d n nm

/-- run a history -/
def run (s : Store) : List Op → Store
  | [] => s
  | op :: ops => run (step s op).1 ops

end XV.Model.Dom
