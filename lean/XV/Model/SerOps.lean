/-
Symmetry of the per-class store / load operation lists (`XV.Gen.SerializeOps`, regenerated from the source).

`opsPaths` enumerates the straight-line operation sequences of a structured list (one alternative per conditional
branch; a loop body is bracketed by `loopBegin`/`loopEnd`).  `Symmetric st ld` demands that EVERY sequence the
storing code can produce is matched, position by position, by a sequence the loading code can follow, where a store
atom is matched only by the load atom of the same kind and type (`pairs`); the single relaxation is polymorphism:
a pointer stored through static class `B` may be read through a class derived from `B` (the `switch` of
`loadDV`/`loadIC`/`loadElementDecl`/`loadGrammar`/`loadNumber`).  `unparsed` pairs with nothing.
-/
import XV.Gen.SerializeOps
import XV.Model.SerEngine
namespace XV.Model.SerOps
open XV.Gen.SerializeOps

mutual
  def opPaths : Op → List (List Atom)
    | .atom a => [[a]]
    | .cond bs => altsPaths bs
    | .loop body => (opsPaths body).map (fun p => Atom.loopBegin :: (p ++ [Atom.loopEnd]))
  def opsPaths : Ops → List (List Atom)
    | .nil => [[]]
    | .cons o r => (opPaths o).flatMap (fun p => (opsPaths r).map (fun q => p ++ q))
  def altsPaths : Alts → List (List Atom)
    | .nil => []
    | .cons b r => opsPaths b ++ altsPaths r
end

def ancestorsOf (h : List (Nat × List Nat)) (c : Nat) : List Nat :=
  match h.find? (fun e => e.1 == c) with
  | some e => e.2
  | none => []

/-- does the load atom `l` read what the store atom `s` wrote? -/
def pairs (h : List (Nat × List Nat)) (s l : Atom) : Bool :=
  match s, l with
  | .unparsed, _ => false
  | _, .unparsed => false
  | .obj b, .obj c => b == c || (ancestorsOf h c).contains b
  | s, l => s == l

def pairsAll (h : List (Nat × List Nat)) : List Atom → List Atom → Bool
  | [], [] => true
  | s :: ss, l :: ls => pairs h s l && pairsAll h ss ls
  | _, _ => false

def Symmetric (st ld : Ops) : Bool :=
  (opsPaths st).all (fun p => (opsPaths ld).any (fun q => pairsAll hierarchy p q))

/-- atoms that transfer a plain value (no pool, no nested object) -/
def atomIsValue : Atom → Bool
  | .prim (.unk _) => false
  | .prim _ => true
  | .size | .int64 | .uint64 | .str | .strL => true
  | _ => false


open XV.Model.SerEngine in
def ptyToTy : PTy → Option Ty
  | .byte => some .byte | .xmlch => some .xmlch | .char => some .char | .short => some .short | .int => some .int
  | .uint => some .uint | .long => some .long | .ulong => some .ulong | .float => some .float
  | .double => some .double | .bool => some .bool | .unk _ => none

open XV.Model.SerEngine in
/-- the engine call a value atom stands for -/
def atomShape : Atom → Option Shape
  | .prim t => (ptyToTy t).map Shape.prim
  | .size => some (.prim .size)
  | .int64 => some (.prim .int64)
  | .uint64 => some (.prim .uint64)
  | .str => some .str
  | .strL => some .strL
  | _ => none

open XV.Model.SerEngine in
/-- execute a straight-line store list on field values / a load list on a stream (value atoms only) -/
def storeOps (base bufSize : Nat) (flds : List Val) : List Nat := storeVals base bufSize flds

open XV.Model.SerEngine in
def loadOps (base bufSize : Nat) (ld : List Atom) (stream : List Nat) : Except Err (List Val) :=
  loadVals base bufSize stream (ld.filterMap atomShape)


-- ------------------------------------------------------------------ references to datatype validators (storeDV / loadDV)
/-- a datatype validator as far as storeDV/loadDV are concerned: its identity (address), local name, namespace -/
structure DV where
  id : Nat
  localName : Nat
  uri : Nat
  deriving DecidableEq, Repr

/-- the static built-in registry: keyed by LOCAL name only, value = identity of the shared built-in validator -/
abbrev Registry := List (Nat × Nat)

def regGet : Registry → Nat → Option Nat
  | [], _ => none
  | (n, i) :: r, k => if n = k then some i else regGet r k

/-- what storeDV puts on the stream -/
inductive DVRef
  | null                    -- DV_ZERO
  | builtin (name : Nat)    -- DV_BUILTIN + local name
  | byValue (dv : DV)       -- DV_NORMAL + type + the object itself (through the engine's object pool)
  deriving DecidableEq, Repr

/-- `test` = `XV.Gen.SerConsts.storeDVBuiltinTest`: 1 identity, otherwise "a built-in of this local name exists" -/
def storeDV (test : Nat) (reg : Registry) : Option DV → DVRef
  | none => .null
  | some dv =>
    let isBuiltin := if test == 1 then regGet reg dv.localName == some dv.id else (regGet reg dv.localName).isSome
    if isBuiltin then .builtin dv.localName else .byValue dv

/-- what loadDV hands back -/
inductive Loaded
  | null
  | shared (id : Nat)       -- the shared built-in validator with this identity
  | copy (dv : DV)          -- the restored copy of a by-value validator (its own identity, see graph_roundtrip)
  deriving DecidableEq, Repr

def loadDV (reg : Registry) : DVRef → Loaded
  | .null => .null
  | .builtin n => match regGet reg n with
      | some i => .shared i
      | none => .null
  | .byValue dv => .copy dv

/-- the specification: a reference to the built-in registered under its own local name is restored as that very object,
every other validator — in particular a user type whose local name equals a built-in's — as its own copy -/
def dvExpected (reg : Registry) : Option DV → Loaded
  | none => .null
  | some dv => if regGet reg dv.localName = some dv.id then .shared dv.id else .copy dv

end XV.Model.SerOps
