/-
C12, whole trees: the bridge between the serializer model (XV.Model.Serializer, strings of UTF-16 units) and C02's
concrete syntax (XV.Spec.Xml, strings of `Char`).

`CNode` is a DOM tree of the fragment (elements with attributes, text, CDATA sections, comments, PIs) whose
strings are lists of Unicode scalar values; `unitsNode` hands it to the serializer model (UTF-16, as the DOM stores
it); `toDoc` is the concrete syntax tree of what the serializer writes for it: which characters become which
reference, where CDATA sections are cut, how the tags and the XML declaration are spelled.  XV.Props.C12 proves
`serialize (units t) = units (render (toDoc t))`, `WF (toDoc t)` and reads the tree back from C03's `infoset`.
Definitions only; no Mathlib.
-/
import XV.Model.Serializer
import XV.Spec.Escaping
import XV.Spec.Xml
import XV.Spec.DomView
namespace XV.Model.TreeSyntax
open XV.Spec.Xml XV.Model.Formatter XV.Spec.Escaping

/-- UTF-16 code units of a string of scalar values (D91) -/
def U (s : Str) : List Nat := s.flatMap (fun c => scalarUnits c.toNat)

/-- the scalar values of a string of UTF-16 units (what a decoder of a Unicode-transparent encoding hands to the
parser); an unpaired surrogate is passed through -/
def charsOf : List Nat → Str
  | [] => []
  | [c] => [Char.ofNat c]
  | h :: l :: t =>
    if isHigh h && isLow l then Char.ofNat (0x10000 + (h - 0xD800) * 1024 + (l - 0xDC00)) :: charsOf t
    else Char.ofNat h :: charsOf (l :: t)

inductive CNode
  | elem (name : Str) (attrs : List (Str × Str)) (kids : List CNode)
  | text (v : Str)
  | cdata (v : Str)
  | comment (v : Str)
  | pi (target data : Str)
  deriving Repr, Inhabited

def unitsAttrs : List (Str × Str) → List (List Nat × List Nat)
  | [] => []
  | a :: t => (U a.1, U a.2) :: unitsAttrs t

mutual
def unitsNode : CNode → XV.Model.Serializer.Node
  | .elem n as kids => .elem (U n) (unitsAttrs as) (unitsNodes kids)
  | .text v => .text (U v)
  | .cdata v => .cdata (U v)
  | .comment v => .comment (U v)
  | .pi t d => .pi (U t) (U d)
def unitsNodes : List CNode → List XV.Model.Serializer.Node
  | [] => []
  | n :: t => unitsNode n :: unitsNodes t
end

/-! ### how one character is spelled -/

def asciiStr (l : List Nat) : Str := l.map Char.ofNat

/-- the digits of `&#xH;` as the formatter writes them -/
def hexStr (n : Nat) : Str := asciiStr (hexDigits n)

/-- `XMLFormatter`'s spelling of an escaped character (the `switch` of formatBuf) -/
def refLeaf (c : Char) : Leaf :=
  if c.toNat = 38 then .eref ['a', 'm', 'p'] else if c.toNat = 39 then .eref ['a', 'p', 'o', 's']
  else if c.toNat = 34 then .eref ['q', 'u', 'o', 't'] else if c.toNat = 62 then .eref ['g', 't']
  else if c.toNat = 60 then .eref ['l', 't'] else .cref ⟨true, hexStr c.toNat⟩

def refPiece (c : Char) : AttPiece :=
  if c.toNat = 38 then .eref ['a', 'm', 'p'] else if c.toNat = 39 then .eref ['a', 'p', 'o', 's']
  else if c.toNat = 34 then .eref ['q', 'u', 'o', 't'] else if c.toNat = 62 then .eref ['g', 't']
  else if c.toNat = 60 then .eref ['l', 't'] else .cref ⟨true, hexStr c.toNat⟩

/-- character data: CharEscapes -/
def textLeaf (cfg : Cfg) (c : Char) : Leaf := if escd cfg .CharEscapes c.toNat then refLeaf c else .ch c
/-- attribute values: AttrEscapes -/
def attPiece (cfg : Cfg) (c : Char) : AttPiece := if escd cfg .AttrEscapes c.toNat then refPiece c else .ch c

/-- the escaped text as characters: what `render` prints for `v.map textLeaf` / `v.map attPiece` -/
def escStr (cfg : Cfg) (esc : EscapeFlags) (v : Str) : Str :=
  v.flatMap (fun c => if escd cfg esc c.toNat then asciiStr (refText c.toNat) else [c])

def ver (v11 : Bool) : XV.Spec.XmlChar.Version := if v11 then .v11 else .v10

/-- a character that may stand literally in a document of the version (1.1: not a RestrictedChar) -/
def legalC (v11 : Bool) (c : Char) : Bool := XV.Spec.XmlChar.isLiteralChar (ver v11) c.toNat

/-! ### CDATA sections: `]]>` is cut between `]]` and `>` (the repaired procCdataSection) -/

def endsWith2C : Str → Bool
  | [] => false
  | [_] => false
  | [a, b] => a == ']' && b == ']'
  | _ :: b :: c :: t => endsWith2C (b :: c :: t)

def splitFixedC : Str → Str → List Str
  | [], cur => [cur]
  | c :: t, cur =>
    if c == '>' && endsWith2C cur then cur :: splitFixedC t ['>']
    else splitFixedC t (cur ++ [c])

/-! ### the trees the theorem covers -/

def chNEL : Char := Char.ofNat 0x85
def chLS : Char := Char.ofNat 0x2028

/-- no literal line end other than LF: inside a CDATA section, a comment or a PI a CR (XML 1.1: also NEL, LSEP)
cannot be written so that it survives (known findings cdata-line-end-not-preserved, comment-pi-line-end-not-preserved) -/
def noLineEnd (v11 : Bool) (s : Str) : Bool := s.all (fun c => c != '\r' && !(v11 && (c == chNEL || c == chLS)))

def okAttr (v11 : Bool) (a : Str × Str) : Bool := isName a.1 && a.2.all (legalC v11)

mutual
/-- What the DOM guarantees (names are Names, attribute names are distinct, a PI target is not `xml`), what the
serializer itself checks (legal characters, no `--` in or `-` at the end of a comment, no `?>` in PI data), and the
two things XML cannot express (line ends other than LF in CDATA / comment / PI, white space at the start of PI data). -/
def okNode (v11 : Bool) : CNode → Bool
  | .elem n as kids => isName n && as.all (okAttr v11) && noDup (as.map (·.1)) && okNodes v11 kids
  | .text v => v.all (legalC v11)
  | .cdata v => v.all (legalC v11) && noLineEnd v11 v
  | .comment v => v.all (legalC v11) && noLineEnd v11 v && noEarly ['-', '-'] v
  | .pi t d => isName t && piTargetOk t && d.all (legalC v11) && noLineEnd v11 d && noEarly ['?', '>'] d && headNotS d
def okNodes (v11 : Bool) : List CNode → Bool
  | [] => true
  | n :: t => okNode v11 n && okNodes v11 t
end

/-! ### the concrete syntax tree of the output -/

def sp1 : Str := [' ']
def eq0 : EqS := ⟨[], []⟩

def toAttr (cfg : Cfg) (a : Str × Str) : Attr := ⟨sp1, a.1, eq0, .dq, a.2.map (attPiece cfg)⟩

def toAttrs (cfg : Cfg) : List (Str × Str) → List Attr
  | [] => []
  | a :: t => toAttr cfg a :: toAttrs cfg t

/-- `<n atts/>` for an element without children, `<n atts>…</n>` otherwise -/
def mkElem (cfg : Cfg) (n : Str) (as : List (Str × Str)) (kids : List Node) (noKids : Bool) : Node :=
  if noKids then .empty ⟨n, toAttrs cfg as, []⟩ else .elem ⟨n, toAttrs cfg as, []⟩ kids n []

mutual
def toNodes (cfg : Cfg) : CNode → List Node
  | .elem n as kids => [mkElem cfg n as (toNodesL cfg kids) kids.isEmpty]
  | .text v => v.map (fun c => Node.leaf (textLeaf cfg c))
  | .cdata v => (splitFixedC v []).map (fun p => Node.leaf (.cdata p))
  | .comment v => [.leaf (.comment v)]
  | .pi t d => [.leaf (.pi t (if d.isEmpty then [] else sp1) d)]
def toNodesL (cfg : Cfg) : List CNode → List Node
  | [] => []
  | n :: t => toNodes cfg n ++ toNodesL cfg t
end

def pseudo : PseudoAtt := ⟨sp1, eq0, .dq⟩

/-- `<?xml version="1.x" encoding="ENC" standalone="no" ?>` -/
def toDecl (cfg : Cfg) (enc : Str) : XmlDecl :=
  ⟨pseudo, [if cfg.xml11 then '1' else '0'], some (pseudo, enc), some (pseudo, false), sp1⟩

/-- the document: XML declaration (if the feature is on) and the document element `<n as>kids</n>` -/
def toDoc (cfg : Cfg) (xmlDecl : Bool) (enc : Str) (n : Str) (as : List (Str × Str)) (kids : List CNode) : Doc :=
  ⟨if xmlDecl then some (toDecl cfg enc) else none, [], none, mkElem cfg n as (toNodesL cfg kids) kids.isEmpty, []⟩


/-! ### the content of the original tree, in the vocabulary of XV.Spec.DomView -/
open XV.Spec.DomView in
mutual
def treeRaw : CNode → List CEv
  | .elem n as kids => .start n as :: (treeRawL kids ++ [.end_ n])
  | .text v => [.chars v]
  | .cdata v => [.chars v]
  | .comment v => [.comment v]
  | .pi t d => [.pi t d]
def treeRawL : List CNode → List CEv
  | [] => []
  | n :: t => treeRaw n ++ treeRawL t
end

/-- element starts with their attributes, ends, comments, PIs and coalesced character data of the tree -/
def treeView (n : CNode) : List XV.Spec.DomView.CEv := XV.Spec.DomView.coalesce (treeRaw n)

end XV.Model.TreeSyntax
