/-
C14 — live views of the DOM: code-shaped models, on the C13 reference store (XV.Model.Dom), of
  * DOMNodeIteratorImpl  (fCurrentNode, fForward, nextNode / previousNode / removeNode / matchNodeOrParent),
  * DOMTreeWalkerImpl    (parentNode, firstChild, lastChild, previousSibling, nextSibling, previousNode, nextNode,
                          acceptNode with whatToShow + filter verdict),
  * DOMDeepNodeListImpl  (item / getLength through cacheItem with fCurrentNode, fCurrentIndexPlus1, fChanges against the
                          document's change counter; nextMatchingElementAfter),
  * DOMRangeImpl         (boundary points, the six fix-up functions called by the DOM on mutation, compareBoundaryPoints,
                          collapse, setStart/End(Before/After), selectNode(Contents), toString), and declarative versions
                          of cloneContents / extractContents / deleteContents / insertNode / surroundContents,
and of how the DOM drives them: `vstep` decomposes every C13 operation into the primitive tree events of the C++
(removeChild before the unlink, insertBefore after the link, insertData / deleteData / setNodeValue / splitText) and
calls the fix-ups on the intermediate stores, in the order of the C++.

`-- REPAIRED` marks the places where the C++ contradicts DOM Traversal / DOM Range; the model shows the behaviour after the
minimal fix (fixes/c14_*.diff); the `…AsIs` definitions keep the current behaviour where a theorem refutes it.
Entity references are expanded (expandEntityReferences = true; in C13 histories they are empty anyway).  No Mathlib.
-/
import XV.Model.Dom
namespace XV.Model.Views
open XV.Model.Dom

-- ------------------------------------------------------------------ navigation through the public getters

/-- getChildNodes() -/
abbrev kids (s : Store) (x : NodeId) : List NodeId := parentKids s x

def firstKid (s : Store) (x : NodeId) : Option NodeId := (kids s x).head?
def lastKid (s : Store) (x : NodeId) : Option NodeId := (kids s x).getLast?

/-- node that precedes `t` in a child list -/
def prevSibIn : List NodeId → NodeId → Option NodeId
  | [], _ => none
  | [_], _ => none
  | x :: y :: ys, t => if y = t then some x else prevSibIn (y :: ys) t

/-- getNextSibling() -/
def nextSib (s : Store) (x : NodeId) : Option NodeId :=
  match parentOf s x with
  | some p => nextSibIn (kids s p) x
  | none => none

/-- getPreviousSibling() -/
def prevSib (s : Store) (x : NodeId) : Option NodeId :=
  match parentOf s x with
  | some p => prevSibIn (kids s p) x
  | none => none

/-- the chain getParentNode(), getParentNode()->getParentNode(), … (nearest first) -/
def ancestorsFuel (s : Store) : Nat → NodeId → List NodeId
  | 0, _ => []
  | f + 1, x =>
    match parentOf s x with
    | none => []
    | some p => p :: ancestorsFuel s f p

def ancestors (s : Store) (x : NodeId) : List NodeId := ancestorsFuel s s.size x

/-- DOMRangeImpl::isAncestorOf(a, b): `a` is `b` or an ancestor of `b` -/
def isAncOf (s : Store) (a b : NodeId) : Bool := b == a || (ancestors s b).contains a

/-- top of the parent chain -/
def rootOf (s : Store) (x : NodeId) : NodeId := ((ancestors s x).getLast?).getD x

/-- Text, CDATASection, Comment, ProcessingInstruction: offsets count code units -/
def isTextLike : Kind → Bool
  | .text | .cdata | .comment | .pi => true
  | _ => false

def textLike (s : Store) (x : NodeId) : Bool := match s.get x with
  | some r => isTextLike r.kind
  | none => false

/-- number of offsets a container offers minus one: data length or number of children -/
def lenOf (s : Store) (x : NodeId) : Nat :=
  if textLike s x then (dataOf s x).length else (kids s x).length

/-- DOMRangeImpl::indexOf(child, parent) for a child of `parent` -/
def indexIn (s : Store) (p c : NodeId) : Nat := (kids s p).idxOf c

/-- rightmost deepest descendant (`while (hasChildNodes()) result = getLastChild()`) -/
def deepLastFuel (s : Store) : Nat → NodeId → NodeId
  | 0, x => x
  | f + 1, x =>
    match lastKid s x with
    | none => x
    | some l => deepLastFuel s f l

def deepLast (s : Store) (x : NodeId) : NodeId := deepLastFuel s s.size x

-- ------------------------------------------------------------------ whatToShow and the fixed filters

inductive Verdict
  | accept | skip | reject
  deriving DecidableEq, Repr

/-- `(whatToShow & (1 << (nodeType - 1))) != 0` -/
def shown (w : Nat) (k : Kind) : Bool := w.testBit (k.code - 1)

def nameB : List Nat := [0x62]

/-- The harness' DOMNodeFilter objects, chosen by id:
0 = no filter object, 1 = FILTER_SKIP for elements named `b`, 2 = FILTER_REJECT for elements named `b`,
3 = FILTER_ACCEPT for Text only (everything else FILTER_SKIP), 4 = a filter object that accepts everything. -/
def filterVerdict (f : Nat) (r : NodeRec) : Verdict :=
  if f = 1 then (if r.kind = .element ∧ r.name = nameB then .skip else .accept)
  else if f = 2 then (if r.kind = .element ∧ r.name = nameB then .reject else .accept)
  else if f = 3 then (if r.kind = .text then .accept else .skip)
  else .accept

-- ------------------------------------------------------------------ DOMNodeIteratorImpl

structure Iter where
  root : NodeId
  w : Nat                         -- fWhatToShow
  filt : Nat                      -- fNodeFilter (id)
  cur : Option NodeId := none     -- fCurrentNode
  fwd : Bool := true              -- fForward
  detached : Bool := false
  deriving Repr, DecidableEq

/-- DOMNodeIteratorImpl::acceptNode: shown by whatToShow and (no filter or) the filter says FILTER_ACCEPT;
FILTER_REJECT counts as FILTER_SKIP for an iterator. -/
def iterAccepts (s : Store) (w filt : Nat) (x : NodeId) : Bool :=
  match s.get x with
  | some r => shown w r.kind && (filt == 0 || filterVerdict filt r == .accept)
  | none => false

/-- "return parent's 1st sibling", over the parent chain of the node -/
def climbNext (s : Store) (root : NodeId) : List NodeId → Option NodeId
  | [] => none
  | p :: ps =>
    if p = root then none else
    match nextSib s p with
    | some r => some r
    | none => climbNext s root ps

/-- DOMNodeIteratorImpl::nextNode(node, visitChildren) -/
def nextRaw (s : Store) (root : NodeId) (node : Option NodeId) (visit : Bool) : Option NodeId :=
  match node with
  | none => some root
  | some n =>
    if visit && !(kids s n).isEmpty then firstKid s n
    else if n = root then none
    else match nextSib s n with
      | some r => some r
      | none => climbNext s root (ancestors s n)

/-- DOMNodeIteratorImpl::previousNode(node) -/
def prevRaw (s : Store) (root : NodeId) (n : NodeId) : Option NodeId :=
  if n = root then none else
  match prevSib s n with
  | none => parentOf s n
  | some r => some (deepLast s r)

/-- the `while (!accepted)` loop of nextNode(); `a` is aNextNode, `fwd` the current fForward -/
def nextLoop (s : Store) (it : Iter) : Nat → Option NodeId → Bool → Iter × Option NodeId
  | 0, _, fwd => ({ it with fwd := fwd }, none)
  | f + 1, a, fwd =>
    let a' := if !fwd && a.isSome then it.cur else nextRaw s it.root a true
    match a' with
    | none => ({ it with fwd := true }, none)
    | some x =>
      if iterAccepts s it.w it.filt x then ({ it with cur := some x, fwd := true }, some x)
      else nextLoop s it f a' true

inductive IterRes
  | node (n : Option NodeId)
  | invalidState
  deriving DecidableEq, Repr

/-- DOMNodeIteratorImpl::nextNode() -/
def Iter.nextNode (s : Store) (it : Iter) : Iter × IterRes :=
  if it.detached then (it, .invalidState) else
  let (it', r) := nextLoop s it (s.size + 2) it.cur it.fwd
  (it', .node r)

def prevLoop (s : Store) (it : Iter) : Nat → NodeId → Bool → Iter × Option NodeId
  | 0, _, fwd => ({ it with fwd := fwd }, none)
  | f + 1, a, fwd =>
    let a' := if fwd then it.cur else prevRaw s it.root a
    match a' with
    | none => ({ it with fwd := false }, none)
    | some x =>
      if iterAccepts s it.w it.filt x then ({ it with cur := some x, fwd := false }, some x)
      else prevLoop s it f x false

/-- DOMNodeIteratorImpl::previousNode() -/
def Iter.previousNode (s : Store) (it : Iter) : Iter × IterRes :=
  if it.detached then (it, .invalidState) else
  match it.cur with
  | none => (it, .node none)
  | some c =>
    let (it', r) := prevLoop s it (s.size + 2) c it.fwd
    (it', .node r)

/-- DOMNodeIteratorImpl::matchNodeOrParent: `for (n = fCurrentNode; n != fRoot; n = n->getParentNode())`.
`chain` is `fCurrentNode :: ancestors`. -/
def matchChain (root node : NodeId) : List NodeId → Option NodeId
  | [] => none
  | n :: ns => if n = root then none else if node = n then some n else matchChain root node ns

/-- REPAIRED (F5): `if (!fCurrentNode) return 0;` — the C++ dereferences the null fCurrentNode of an iterator that has
not been stepped yet. -/
def matchNodeOrParent (s : Store) (it : Iter) (node : NodeId) : Option NodeId :=
  match it.cur with
  | none => none
  | some c => matchChain it.root node (c :: ancestors s c)

/-- DOMNodeIteratorImpl::removeNode(node), called by DOMParentNode::removeChild BEFORE the node is unlinked. -/
def Iter.removeNode (s : Store) (it : Iter) (node : NodeId) : Iter :=
  if it.detached then it else                 -- (the C++ throws; detached iterators are not in the document's list)
  match matchNodeOrParent s it node with
  | none => it
  | some deleted =>
    if it.fwd then { it with cur := prevRaw s it.root deleted }
    else
      match nextRaw s it.root (some deleted) false with
      | some nx => { it with cur := some nx }
      | none => { it with cur := prevRaw s it.root deleted, fwd := true }

/-- The current C++: `none` = null-pointer dereference (n->getParentNode() with n == 0). -/
def matchNodeOrParentAsIs (s : Store) (it : Iter) (node : NodeId) : Option (Option NodeId) :=
  match it.cur with
  | none => if it.root = it.root ∧ True then none else some none      -- n = 0 ≠ fRoot (fRoot is never null): n->getParentNode()
  | some c => some (matchChain it.root node (c :: ancestors s c))

def Iter.removeNodeAsIs (s : Store) (it : Iter) (node : NodeId) : Option Iter :=
  match matchNodeOrParentAsIs s it node with
  | none => none
  | some none => some it
  | some (some deleted) =>
    if it.fwd then some { it with cur := prevRaw s it.root deleted }
    else
      match nextRaw s it.root (some deleted) false with
      | some nx => some { it with cur := some nx }
      | none => some { it with cur := prevRaw s it.root deleted, fwd := true }

-- ------------------------------------------------------------------ DOMTreeWalkerImpl

structure Walker where
  root : NodeId
  w : Nat
  filt : Nat
  cur : NodeId
  asIs : Bool := false       -- use the current C++ acceptNode (see `verdictAsIs`)
  deriving Repr, DecidableEq

/-- DOMTreeWalkerImpl::acceptNode.
REPAIRED: a node hidden by whatToShow is FILTER_SKIP and the filter is not consulted (DOM Traversal 1.2: "If a node is
skipped by the active whatToShow flags, a NodeFilter will not be called"); the C++ calls it and lets its FILTER_REJECT
prune the subtree. -/
def verdict (s : Store) (w filt : Nat) (x : NodeId) : Verdict :=
  match s.get x with
  | some r =>
    if shown w r.kind then (if filt = 0 then .accept else filterVerdict filt r) else .skip
  | none => .skip

/-- the current C++ -/
def verdictAsIs (s : Store) (w filt : Nat) (x : NodeId) : Verdict :=
  match s.get x with
  | some r =>
    if filt = 0 then (if shown w r.kind then .accept else .skip)
    else if shown w r.kind then filterVerdict filt r
    else if filterVerdict filt r = .reject then .reject else .skip
  | none => .skip

def Walker.judge (s : Store) (wk : Walker) (x : NodeId) : Verdict :=
  if wk.asIs then verdictAsIs s wk.w wk.filt x else verdict s wk.w wk.filt x

/-- DOMTreeWalkerImpl::getParentNode(node), over the parent chain -/
def twParentChain (s : Store) (wk : Walker) : NodeId → List NodeId → Option NodeId
  | _, [] => none
  | node, p :: ps =>
    if node = wk.root then none else
    if wk.judge s p = .accept then some p else twParentChain s wk p ps

def twParent (s : Store) (wk : Walker) (node : NodeId) : Option NodeId :=
  twParentChain s wk node (ancestors s node)

mutual
/-- DOMTreeWalkerImpl::getFirstChild(node) -/
def twFirstChild (s : Store) (wk : Walker) : Nat → NodeId → Option NodeId
  | 0, _ => none
  | f + 1, node =>
    match firstKid s node with
    | none => none
    | some c =>
      match wk.judge s c with
      | .accept => some c
      | .skip => if !(kids s c).isEmpty then twFirstChild s wk f c else twNextSibling s wk f c
      | .reject => twNextSibling s wk f c
/-- DOMTreeWalkerImpl::getNextSibling(node) -/
def twNextSibling (s : Store) (wk : Walker) : Nat → NodeId → Option NodeId
  | 0, _ => none
  | f + 1, node =>
    if node = wk.root then none else
    match nextSib s node with
    | none =>
      match parentOf s node with
      | none => none
      | some p => if wk.judge s p = .skip then twNextSibling s wk f p else none
    | some m =>
      match wk.judge s m with
      | .accept => some m
      | .skip =>
        match twFirstChild s wk f m with
        | none => if (kids s m).isEmpty then twNextSibling s wk f m else none
        | some c => some c
      | .reject => twNextSibling s wk f m
end

mutual
/-- DOMTreeWalkerImpl::getLastChild(node) -/
def twLastChild (s : Store) (wk : Walker) : Nat → NodeId → Option NodeId
  | 0, _ => none
  | f + 1, node =>
    match lastKid s node with
    | none => none
    | some c =>
      match wk.judge s c with
      | .accept => some c
      | .skip => if !(kids s c).isEmpty then twLastChild s wk f c else twPrevSibling s wk f c
      | .reject => twPrevSibling s wk f c
/-- DOMTreeWalkerImpl::getPreviousSibling(node) -/
def twPrevSibling (s : Store) (wk : Walker) : Nat → NodeId → Option NodeId
  | 0, _ => none
  | f + 1, node =>
    if node = wk.root then none else
    match prevSib s node with
    | none =>
      match parentOf s node with
      | none => none
      | some p => if wk.judge s p = .skip then twPrevSibling s wk f p else none
    | some m =>
      match wk.judge s m with
      | .accept => some m
      | .skip =>
        match twLastChild s wk f m with
        | none => if (kids s m).isEmpty then twPrevSibling s wk f m else none
        | some c => some c
      | .reject => twPrevSibling s wk f m
end

/-- bound on the number of nested calls of the filtered navigation functions -/
def twFuel (s : Store) : Nat := (s.size + 2) * (s.size + 2)

def moveTo (wk : Walker) (r : Option NodeId) : Walker × Option NodeId :=
  match r with
  | some n => ({ wk with cur := n }, some n)
  | none => (wk, none)

def Walker.parentNode (s : Store) (wk : Walker) : Walker × Option NodeId := moveTo wk (twParent s wk wk.cur)
def Walker.firstChild (s : Store) (wk : Walker) : Walker × Option NodeId :=
  moveTo wk (twFirstChild s wk (twFuel s) wk.cur)
def Walker.lastChild (s : Store) (wk : Walker) : Walker × Option NodeId :=
  moveTo wk (twLastChild s wk (twFuel s) wk.cur)
def Walker.previousSibling (s : Store) (wk : Walker) : Walker × Option NodeId :=
  moveTo wk (twPrevSibling s wk (twFuel s) wk.cur)
def Walker.nextSibling (s : Store) (wk : Walker) : Walker × Option NodeId :=
  moveTo wk (twNextSibling s wk (twFuel s) wk.cur)

/-- the `while (parent != 0)` loop of nextNode() over the chain of ACCEPTed ancestors -/
def twClimb (s : Store) (wk : Walker) : Nat → NodeId → Option NodeId
  | 0, _ => none
  | f + 1, node =>
    match twParent s wk node with
    | none => none
    | some p =>
      match twNextSibling s wk (twFuel s) p with
      | some n => some n
      | none => twClimb s wk f p

/-- DOMTreeWalkerImpl::nextNode() -/
def Walker.nextNode (s : Store) (wk : Walker) : Walker × Option NodeId :=
  match twFirstChild s wk (twFuel s) wk.cur with
  | some n => moveTo wk (some n)
  | none =>
    match twNextSibling s wk (twFuel s) wk.cur with
    | some n => moveTo wk (some n)
    | none => moveTo wk (twClimb s wk (s.size + 1) wk.cur)

/-- `lastChild = getLastChild(node)` repeated while it succeeds -/
def twDeepLast (s : Store) (wk : Walker) : Nat → NodeId → NodeId
  | 0, n => n
  | f + 1, n =>
    match twLastChild s wk (twFuel s) n with
    | none => n
    | some l => twDeepLast s wk f l

/-- DOMTreeWalkerImpl::previousNode().
REPAIRED: the previous node in document order is the DEEPEST last visible descendant of the previous sibling; the C++ takes
one `getLastChild` step only. -/
def Walker.previousNode (s : Store) (wk : Walker) : Walker × Option NodeId :=
  match twPrevSibling s wk (twFuel s) wk.cur with
  | none => moveTo wk (twParent s wk wk.cur)
  | some n => moveTo wk (some (twDeepLast s wk (s.size + 1) n))

/-- the current C++ -/
def Walker.previousNodeAsIs (s : Store) (wk : Walker) : Walker × Option NodeId :=
  match twPrevSibling s wk (twFuel s) wk.cur with
  | none => moveTo wk (twParent s wk wk.cur)
  | some n =>
    match twLastChild s wk (twFuel s) n with
    | some l => moveTo wk (some l)
    | none => moveTo wk (some n)

-- ------------------------------------------------------------------ DOMDeepNodeListImpl

structure DeepList where
  root : NodeId
  tag : List Nat
  doc : NodeId                -- the root's owner document (castToParentImpl(fRootNode)->fOwnerDocument): its counter is read
  changes : Nat := 0          -- fChanges
  cur : Option NodeId := none -- fCurrentNode
  idx : Nat := 0              -- fCurrentIndexPlus1
  deriving Repr, DecidableEq

def star : List Nat := [0x2A]

/-- `current->getNodeType() == ELEMENT_NODE && (fMatchAll || equals(getTagName(), fTagName))` -/
def tagMatches (s : Store) (tag : List Nat) (x : NodeId) : Bool :=
  match s.get x with
  | some r => r.kind == .element && (tag == star || r.name == tag)
  | none => false

/-- "Look up and right (but not past root!)": `for (; current != fRootNode; current = current->getParentNode())` over
`current :: ancestors` -/
def upRight (s : Store) (root : NodeId) : List NodeId → Option NodeId
  | [] => none
  | c :: cs =>
    if c = root then none else
    match nextSib s c with
    | some n => some n
    | none => upRight s root cs

/-- one turn of the `while (current != 0)` loop: the next node in document order below the root -/
def deepStep (s : Store) (root cur : NodeId) : Option NodeId :=
  if !(kids s cur).isEmpty then firstKid s cur
  else if cur ≠ root ∧ (nextSib s cur).isSome then nextSib s cur
  else upRight s root (cur :: ancestors s cur)

/-- DOMDeepNodeListImpl::nextMatchingElementAfter(current) -/
def nextMatching (s : Store) (dl : DeepList) : Nat → NodeId → Option NodeId
  | 0, _ => none
  | f + 1, cur =>
    match deepStep s dl.root cur with
    | none => none
    | some n => if n ≠ dl.root ∧ tagMatches s dl.tag n then some n else nextMatching s dl f n

/-- the counting loop of cacheItem: `while (currentIndexPlus1 < index+1 && currentNode != 0)` -/
def countLoop (s : Store) (dl : DeepList) (index : Nat) : Nat → Option NodeId → Nat → Option NodeId → Option NodeId × Nat × Option NodeId
  | 0, cur, i, nx => (cur, i, nx)
  | f + 1, cur, i, nx =>
    match cur with
    | none => (cur, i, nx)
    | some c =>
      if i < index + 1 then
        match nextMatching s dl (s.size + 1) c with
        | none => (cur, i, none)
        | some n => countLoop s dl index f (some n) (i + 1) (some n)
      else (cur, i, nx)

/-- DOMDeepNodeListImpl::cacheItem(index); `docChanges` = castToParentImpl(fRootNode)->changes() -/
def DeepList.item (s : Store) (docChanges : Nat) (dl : DeepList) (index : Nat) : DeepList × Option NodeId :=
  let fresh := (docChanges != dl.changes) || decide (dl.idx > index + 1)
  if !fresh && index + 1 == dl.idx then (dl, dl.cur) else
  let i0 := if fresh then 0 else dl.idx
  let c0 := if fresh then some dl.root else dl.cur
  let (cur, i, nx) := countLoop s dl index (s.size + 1) c0 i0 none
  ({ dl with changes := docChanges, cur := cur, idx := i }, match nx with
    | some _ => cur
    | none => none)

def intMax : Nat := 2147483647

/-- DOMDeepNodeListImpl::getLength(): item(0); item(INT_MAX); return fCurrentIndexPlus1 -/
def DeepList.length (s : Store) (docChanges : Nat) (dl : DeepList) : DeepList × Nat :=
  let dl1 := (dl.item s docChanges 0).1
  let dl2 := (dl1.item s docChanges intMax).1
  (dl2, dl2.idx)

-- ------------------------------------------------------------------ DOMRangeImpl: state, fix-ups

structure Range where
  doc : NodeId
  sc : NodeId
  so : Nat
  ec : NodeId
  eo : Nat
  detached : Bool := false
  deriving Repr, DecidableEq

/-- getCollapsed() -/
def Range.collapsed (r : Range) : Bool := r.sc == r.ec && r.so == r.eo

/-- updateRangeForInsertedNode(node): called AFTER the node is linked in; `s` is that store -/
def Range.insertedNode (s : Store) (r : Range) (node : NodeId) : Range :=
  let p := parentOf s node
  let r1 := if p = some r.sc ∧ indexIn s r.sc node < r.so then { r with so := r.so + 1 } else r
  if p = some r1.ec ∧ indexIn s r1.ec node < r1.eo then { r1 with eo := r1.eo + 1 } else r1

/-- updateRangeForDeletedNode(node): called BEFORE the node is unlinked; `s` is that store -/
def Range.deletedNode (s : Store) (r : Range) (node : NodeId) : Range :=
  let p := parentOf s node
  let r1 := if p = some r.sc ∧ r.so > indexIn s r.sc node then { r with so := r.so - 1 } else r
  let r2 := if p = some r1.ec ∧ r1.eo > indexIn s r1.ec node then { r1 with eo := r1.eo - 1 } else r1
  if p ≠ some r2.sc ∨ p ≠ some r2.ec then
    let r3 := if isAncOf s node r2.sc then
        (match p with
         | some tp => { r2 with sc := tp, so := indexIn s tp node }
         | none => r2)                                       -- (not reached: removeChild has a parent)
      else r2
    if isAncOf s node r3.ec then
      (match p with
       | some tp => { r3 with ec := tp, eo := indexIn s tp node }
       | none => r3)
    else r3
  else r2

/-- updateRangeForInsertedText(node, offset, count).
REPAIRED (F6): the start offset advances by `count` (DOM Range 2.12.1); the C++ assigns `fStartOffset = offset`. -/
def Range.insertedText (s : Store) (r : Range) (node : NodeId) (off cnt : Nat) : Range :=
  let r1 := if node = r.sc ∧ textLike s r.sc ∧ r.so > off then { r with so := r.so + cnt } else r
  if node = r1.ec ∧ textLike s r1.ec ∧ r1.eo > off then { r1 with eo := r1.eo + cnt } else r1

/-- the current C++ -/
def Range.insertedTextAsIs (s : Store) (r : Range) (node : NodeId) (off cnt : Nat) : Range :=
  let r1 := if node = r.sc ∧ textLike s r.sc ∧ r.so > off then { r with so := off } else r
  if node = r1.ec ∧ textLike s r1.ec ∧ r1.eo > off then { r1 with eo := r1.eo + cnt } else r1

/-- updateRangeForDeletedText(node, offset, count) -/
def Range.deletedText (s : Store) (r : Range) (node : NodeId) (off cnt : Nat) : Range :=
  let r1 := if node = r.sc ∧ textLike s r.sc then
      (if r.so > off + cnt then { r with so := r.so - cnt } else if r.so > off then { r with so := off } else r)
    else r
  if node = r1.ec ∧ textLike s r1.ec then
    (if r1.eo > off + cnt then { r1 with eo := r1.eo - cnt } else if r1.eo > off then { r1 with eo := off } else r1)
  else r1

/-- receiveReplacedText(node) -/
def Range.replacedText (s : Store) (r : Range) (node : NodeId) : Range :=
  let r1 := if node = r.sc ∧ textLike s r.sc then { r with so := 0 } else r
  if node = r1.ec ∧ textLike s r1.ec then { r1 with eo := 0 } else r1

/-- updateSplitInfo(oldNode, startNode, offset) -/
def Range.splitInfo (s : Store) (r : Range) (old nw : NodeId) (off : Nat) : Range :=
  let r1 := if old = r.sc ∧ textLike s r.sc ∧ r.so > off then { r with sc := nw, so := r.so - off } else r
  if old = r1.ec ∧ textLike s r1.ec ∧ r1.eo > off then { r1 with ec := nw, eo := r1.eo - off } else r1

/-- REPAIRED: DOMTextImpl::splitText links the new node `nw` right after the old one; a boundary point that was directly
after the old node — now (parent, index of nw) — must stay after the text that moved into the new node, otherwise a range
that starts inside the moved text ends before it starts.  The C++ leaves it between the two halves.  Evaluated after the
insertion notification (points further right have already moved on). -/
def Range.splitAfter (s : Store) (r : Range) (nw : NodeId) : Range :=
  match parentOf s nw with
  | none => r
  | some p =>
    let i := indexIn s p nw
    let r1 := if r.sc = p ∧ r.so = i then { r with so := r.so + 1 } else r
    if r1.ec = p ∧ r1.eo = i then { r1 with eo := r1.eo + 1 } else r1

-- ------------------------------------------------------------------ DOMRangeImpl: comparison, setters

/-- chains `x :: ancestors x` of equal length: drop the surplus of the longer one (the two `depthDiff` loops) -/
def equalise (la lb : List NodeId) : List NodeId × List NodeId :=
  (la.drop (la.length - lb.length), lb.drop (lb.length - la.length))

/-- `for (pB = B->parent, pA = A->parent; pB != pA; …) { B = pB; A = pA; }` on chains of equal length -/
def liftPair : List NodeId → List NodeId → Option (NodeId × NodeId)
  | [a], [b] => some (a, b)
  | a :: a2 :: as, b :: b2 :: bs => if a2 = b2 then some (a, b) else liftPair (a2 :: as) (b2 :: bs)
  | _, _ => none

/-- siblings after `x` (getNextSibling repeatedly) -/
def sibsAfter (s : Store) (x : NodeId) : List NodeId :=
  match parentOf s x with
  | some p => ((kids s p).dropWhile (· != x)).drop 1
  | none => []

/-- the comparison of two boundary points in DOMRangeImpl::compareBoundaryPoints: -1 / 0 / 1 -/
def cmpPoints (s : Store) (a : NodeId) (oa : Nat) (b : NodeId) (ob : Nat) : Int :=
  if a = b then (if oa < ob then -1 else if oa = ob then 0 else 1) else
  match (kids s a).find? (fun c => isAncOf s c b) with
  | some c => if oa ≤ indexIn s a c then -1 else 1
  | none =>
    match (kids s b).find? (fun c => isAncOf s c a) with
    | some c => if indexIn s b c < ob then -1 else 1
    | none =>
      let (la, lb) := equalise (a :: ancestors s a) (b :: ancestors s b)
      match liftPair la lb with
      | some (a', b') => if (sibsAfter s b').contains a' then 1 else -1
      | none => -1

inductive How
  | startToStart | startToEnd | endToEnd | endToStart       -- DOMRange::CompareHow 0..3
  deriving DecidableEq, Repr

/-- DOMRangeImpl::compareBoundaryPoints(how, src) for two attached ranges of the same document -/
def Range.compare (s : Store) (r : Range) (how : How) (src : Range) : Int :=
  match how with
  | .startToStart => cmpPoints s r.sc r.so src.sc src.so
  | .startToEnd => cmpPoints s r.ec r.eo src.sc src.so
  | .endToStart => cmpPoints s r.sc r.so src.ec src.eo
  | .endToEnd => cmpPoints s r.ec r.eo src.ec src.eo

/-- collapse(toStart) -/
def Range.collapse (r : Range) (toStart : Bool) : Range :=
  if toStart then { r with ec := r.sc, eo := r.so } else { r with sc := r.ec, so := r.eo }

/-- commonAncestorOf(a, b) != 0 -/
def sameRoot (s : Store) (a b : NodeId) : Bool := rootOf s a == rootOf s b

inductive RExc
  | invalidState | indexSize | wrongDocument | invalidNodeType | badBoundaryPoints | hierarchy | noModification
  | notFound
  deriving DecidableEq, Repr

/-- isValidAncestorType: no Entity / Notation / DocumentType among node and its ancestors -/
def validAncestorType (s : Store) (x : NodeId) : Bool :=
  (x :: ancestors s x).all fun a => match kindOf s a with
    | some .entity | some .notation | some .doctype => false
    | _ => true

/-- `fDocument != refNode->getOwnerDocument() && refNode != fDocument` -/
def foreignTo (s : Store) (r : Range) (x : NodeId) : Bool :=
  match s.get x with
  | some rx => ownerDocOf rx != some r.doc && x != r.doc
  | none => true

/-- the tail shared by setStart / setStartBefore / setStartAfter -/
def Range.fixStart (s : Store) (r : Range) (ref : NodeId) : Range :=
  let r1 := if !sameRoot s ref r.ec then r.collapse true else r
  if cmpPoints s r1.sc r1.so r1.ec r1.eo = 1 then r1.collapse true else r1

def Range.fixEnd (s : Store) (r : Range) (ref : NodeId) : Range :=
  let r1 := if !sameRoot s ref r.sc then r.collapse false else r
  if cmpPoints s r1.sc r1.so r1.ec r1.eo = 1 then r1.collapse false else r1

/-- setStart(refNode, offset) -/
def Range.setStart (s : Store) (r : Range) (x : NodeId) (off : Nat) : Range × Option RExc :=
  if r.detached then (r, some .invalidState) else
  if !validAncestorType s x then (r, some .invalidNodeType) else
  if lenOf s x < off then (r, some .indexSize) else
  if foreignTo s r x then (r.collapse true, some .wrongDocument) else
  (({ r with sc := x, so := off } : Range).fixStart s x, none)

/-- setEnd(refNode, offset) -/
def Range.setEnd (s : Store) (r : Range) (x : NodeId) (off : Nat) : Range × Option RExc :=
  if r.detached then (r, some .invalidState) else
  if !validAncestorType s x then (r, some .invalidNodeType) else
  if lenOf s x < off then (r, some .indexSize) else
  if foreignTo s r x then (r.collapse false, some .wrongDocument) else
  (({ r with ec := x, eo := off } : Range).fixEnd s x, none)

/-- hasLegalRootContainer(node) && isLegalContainedNode(node) -/
def legalForBeforeAfter (s : Store) (x : NodeId) : Bool :=
  (match kindOf s (rootOf s x) with
   | some .attr | some .document | some .fragment => true
   | _ => false) &&
  (match kindOf s x with
   | some .document | some .fragment | some .attr | some .entity | some .notation => false
   | _ => true)

/-- setStartBefore / setStartAfter / setEndBefore / setEndAfter (which = 0..3).
The parent exists: a node with a legal root container that is itself not a legal root has a parent. -/
def Range.setRel (s : Store) (r : Range) (which : Nat) (x : NodeId) : Range × Option RExc :=
  if r.detached then (r, some .invalidState) else
  if !legalForBeforeAfter s x then (r, some .invalidNodeType) else
  if foreignTo s r x then (r.collapse (which < 2), some .wrongDocument) else
  match parentOf s x with
  | none => (r, some .invalidNodeType)
  | some p =>
    let i := indexIn s p x
    if which = 0 then (({ r with sc := p, so := i } : Range).fixStart s x, none)
    else if which = 1 then (({ r with sc := p, so := i + 1 } : Range).fixStart s x, none)
    else if which = 2 then (({ r with ec := p, eo := i } : Range).fixEnd s x, none)
    else (({ r with ec := p, eo := i + 1 } : Range).fixEnd s x, none)

def legalContained (s : Store) (x : NodeId) : Bool :=
  match kindOf s x with
  | some .document | some .fragment | some .attr | some .entity | some .notation => false
  | _ => true

/-- selectNode(refNode).
REPAIRED: the range selects the node, i.e. its parent is the container of both boundary points, whatever the node type
(DOM Range 2.6 selectNode); the C++ selects the CONTENTS of a Text / CDATASection / Comment / PI instead.  A node without
a parent leaves the range unchanged (as the C++ does). -/
def Range.selectNode (s : Store) (r : Range) (x : NodeId) : Range × Option RExc :=
  if r.detached then (r, some .invalidState) else
  if !validAncestorType s x then (r, some .invalidNodeType) else
  if !legalContained s x then (r, some .invalidNodeType) else
  match parentOf s x with
  | none => (r, none)
  | some p => ({ r with sc := p, ec := p, so := indexIn s p x, eo := indexIn s p x + 1 }, none)

/-- the current C++ -/
def Range.selectNodeAsIs (s : Store) (r : Range) (x : NodeId) : Range × Option RExc :=
  if r.detached then (r, some .invalidState) else
  if !validAncestorType s x then (r, some .invalidNodeType) else
  if !legalContained s x then (r, some .invalidNodeType) else
  if textLike s x then ({ r with sc := x, ec := x, so := 0, eo := lenOf s x }, none) else
  match parentOf s x with
  | none => (r, none)
  | some p => ({ r with sc := p, ec := p, so := indexIn s p x, eo := indexIn s p x + 1 }, none)

/-- selectNodeContents(node) -/
def Range.selectNodeContents (s : Store) (r : Range) (x : NodeId) : Range × Option RExc :=
  if r.detached then (r, some .invalidState) else
  if !validAncestorType s x then (r, some .invalidNodeType) else
  ({ r with sc := x, ec := x, so := 0, eo := lenOf s x }, none)

-- ------------------------------------------------------------------ the selection of a range, declaratively

/-- Text and CDATASection: the "data characters" of DOM Range toString -/
def isCharText (s : Store) (x : NodeId) : Bool := isKind s .text x || isKind s .cdata x

/-- the child of `anc` on the way down to `x` (`anc` a proper ancestor of `x`) -/
def childToward (s : Store) (anc x : NodeId) : Option NodeId :=
  (kids s anc).find? (fun c => isAncOf s c x)

/-- deepest common inclusive ancestor of two nodes of one tree -/
def commonAnc (s : Store) (a b : NodeId) : NodeId :=
  ((a :: ancestors s a).find? (fun x => isAncOf s x b)).getD a

/-- what a range boundary inside `n` means for the children of `n`: index of the first child that takes part and the
bound handed down to it (lower side) -/
def lowerCut (s : Store) (n : NodeId) (lo : Option (NodeId × Nat)) : Nat × Option (NodeId × Nat) :=
  match lo with
  | some (c, o) => if c = n then (o, none) else
      (match childToward s n c with
       | some k => ((kids s n).idxOf k, some (c, o))
       | none => (0, none))
  | none => (0, none)

/-- … index one past the last child that takes part and the bound handed down to it (upper side) -/
def upperCut (s : Store) (n : NodeId) (hi : Option (NodeId × Nat)) : Nat × Option (NodeId × Nat) :=
  match hi with
  | some (c, o) => if c = n then (o, none) else
      (match childToward s n c with
       | some k => ((kids s n).idxOf k + 1, some (c, o))
       | none => ((kids s n).length, none))
  | none => ((kids s n).length, none)

/-- DOMRangeImpl::nextNode(node, visitChildren): pre-order successor, stopping below the document -/
def rangeNext (s : Store) (doc : NodeId) (n : NodeId) (visit : Bool) : Option NodeId :=
  if visit && !(kids s n).isEmpty then firstKid s n else
  match nextSib s n with
  | some r => some r
  | none => climbNext s doc (ancestors s n)

/-- the `while (node != stopNode)` loop of toString; `dataP` tells which nodes contribute their data -/
def toStringLoop (s : Store) (dataP : NodeId → Bool) (doc : NodeId) (stop : Option NodeId) :
    Nat → Option NodeId → List Nat → List Nat
  | 0, _, acc => acc
  | f + 1, node, acc =>
    if node = stop then acc else
    match node with
    | none => acc
    | some n =>
      let acc' := if dataP n then acc ++ dataOf s n else acc
      toStringLoop s dataP doc stop f (rangeNext s doc n true) acc'

/-- DOMRangeImpl::toString() with the node types that count as character data as a parameter -/
def Range.toStringWith (s : Store) (dataP : NodeId → Bool) (r : Range) : List Nat :=
  if r.sc = r.ec ∧ r.so = r.eo then [] else
  if dataP r.sc ∧ r.sc = r.ec then ((dataOf s r.sc).take r.eo).drop r.so else
  let (pre, node) :=
    if dataP r.sc then ((dataOf s r.sc).drop r.so, rangeNext s r.doc r.sc true)
    else match (kids s r.sc).drop r.so with
      | k :: _ => ([], some k)
      | [] => ([], rangeNext s r.doc r.sc false)
  let stop : Option NodeId :=
    if dataP r.ec then some r.ec
    else match (kids s r.ec).drop r.eo with
      | k :: _ => some k
      | [] => rangeNext s r.doc r.ec false
  let mid := toStringLoop s dataP r.doc stop (s.size + 1) node pre
  if dataP r.ec then mid ++ (dataOf s r.ec).take r.eo else mid

/-- REPAIRED: only Text and CDATASection contribute ("This string contains only the data characters, not any markup",
DOM Range); the C++ also appends the data of Comments and ProcessingInstructions, which are markup. -/
def Range.toStringCode (s : Store) (r : Range) : List Nat := r.toStringWith s (isCharText s)

/-- the current C++ -/
def Range.toStringAsIs (s : Store) (r : Range) : List Nat := r.toStringWith s (textLike s)

-- ------------------------------------------------------------------ primitive tree events seen by the views

/-- What the DOM tells its live views, with the store in which the notification is evaluated:
`removing c`  : DOMParentNode::removeChild(c), BEFORE the unlink (iterators: removeNode, ranges: updateRangeForDeletedNode);
`inserted n`  : DOMParentNode::insertBefore(n, …), AFTER the link (updateRangeForInsertedNode);
`textInserted / textDeleted / textReplaced` : insertData / deleteData / setNodeValue, after the edit;
`split old new off` : splitText, after the new node is linked and the old one is cut (updateSplitInfo). -/
inductive Ev
  | removing (c : NodeId)
  | inserted (n : NodeId)
  | textInserted (t : NodeId) (off cnt : Nat)
  | textDeleted (t : NodeId) (off cnt : Nat)
  | textReplaced (t : NodeId)
  | split (old nw : NodeId) (off : Nat)
  deriving Repr, DecidableEq

abbrev Log := List (Store × Ev)

-- ------------------------------------------------------------------ content operations (declarative, DOM Range 2.7-2.10)

inductive Mode
  | clone | extract | delete
  deriving DecidableEq, Repr

/-- copy of `n` (deep or shallow, attributes as cloneNode copies them); `none` when `n` is not live -/
def cloneOf (s : Store) (n : NodeId) (deep : Bool) : Store × Option NodeId :=
  match s.get n with
  | none => (s, none)
  | some rn =>
    match cloneInto s n rn deep rn.owner with
    | (s', .ok (.node c)) => (s', some c)
    | (s', _) => (s', none)

/-- attach `ms` (detached or fresh) at the end of `p` -/
def appendAll (s : Store) (p : NodeId) (ms : List NodeId) : Store := moveNodes s ms p none

/-- remove the characters [a, b) of a text-like node -/
def cutData (s : Store) (t : NodeId) (a b : Nat) : Store :=
  setDataOf s t ((dataOf s t).take a ++ (dataOf s t).drop b)

/-- result of a content traversal: store, detached top-level result nodes, notifications to the other views -/
structure Sel where
  store : Store
  tops : List NodeId := []
  log : Log := []

/-- a text-like boundary container `k`: the characters [a, b) -/
def selText (m : Mode) (acc : Sel) (k : NodeId) (a b : Nat) : Sel :=
  let s1 := acc.store
  let piece := ((dataOf s1 k).take b).drop a
  match m with
  | .clone =>
    let (s2, c) := cloneOf s1 k false
    (match c with
     | some c => { acc with store := setDataOf s2 c piece, tops := acc.tops ++ [c] }
     | none => { acc with store := s2 })
  | .extract =>
    let (s2, c) := cloneOf s1 k false
    (match c with
     | some c =>
       let s3 := cutData (setDataOf s2 c piece) k a b
       { store := s3, tops := acc.tops ++ [c], log := acc.log ++ [(s3, .textDeleted k a (b - a))] }
     | none => { acc with store := s2 })
  | .delete =>
    let s3 := cutData s1 k a b
    { acc with store := s3, log := acc.log ++ [(s3, .textDeleted k a (b - a))] }

/-- a fully selected node `k` -/
def selFull (m : Mode) (acc : Sel) (k : NodeId) : Sel :=
  match m with
  | .clone => let (s2, c) := cloneOf acc.store k true; { acc with store := s2, tops := acc.tops ++ c.toList }
  | .extract => { store := detach acc.store k, tops := acc.tops ++ [k], log := acc.log ++ [(acc.store, .removing k)] }
  | .delete => { acc with store := detach acc.store k, log := acc.log ++ [(acc.store, .removing k)] }

/-- The selected part of the content of `n` between the optional boundary points (as in `selTextFuel`):
the top-level nodes standing for that content are copies (clone), the originals of fully selected nodes and copies of
partially selected ones (extract), or nothing (delete); in extract/delete mode the selected content is gone from `n`
afterwards.  Returned nodes have no parent. -/
def selContent (m : Mode) : Nat → Sel → NodeId → Option (NodeId × Nat) → Option (NodeId × Nat) → Sel
  | 0, acc, _, _, _ => acc
  | f + 1, acc, n, lo, hi =>
    let s := acc.store
    let (i0, lo0) := lowerCut s n lo
    let (i1, hi1) := upperCut s n hi
    let part := ((kids s n).take i1).drop i0
    let last := i1 - i0 - 1
    part.zipIdx.foldl (fun (acc : Sel) (kj : NodeId × Nat) =>
      let (k, j) := kj
      let lo' := if j = 0 then lo0 else none
      let hi' := if j = last then hi1 else none
      match lo', hi' with
      | none, none => selFull m acc k
      | _, _ =>
        if textLike acc.store k then
          let a := match lo' with
            | some (_, o) => o
            | none => 0
          let b := match hi' with
            | some (_, o) => o
            | none => (dataOf acc.store k).length
          selText m acc k a b
        else
          -- partially selected: a shallow copy that receives the selected part of its content
          let inner := selContent m f { acc with tops := [] } k lo' hi'
          (match m with
           | .delete => { inner with tops := acc.tops }
           | _ =>
             let (s3, c) := cloneOf inner.store k false
             (match c with
              | some c => { inner with store := appendAll s3 c inner.tops, tops := acc.tops ++ [c] }
              | none => { inner with store := s3, tops := acc.tops })))
      acc

/-- where a range ends up after extractContents / deleteContents: collapsed at the start point when the start
container is an inclusive ancestor of the end container, otherwise directly after the topmost partially selected
ancestor of the start container -/
def collapsePoint (s : Store) (r : Range) : NodeId × Nat :=
  if isAncOf s r.sc r.ec then (r.sc, r.so) else
  let ca := commonAnc s r.sc r.ec
  match childToward s ca r.sc with
  | some k => (ca, indexIn s ca k + 1)
  | none => (r.sc, r.so)

/-- the content of the range, for the three traversal types; the result nodes are detached -/
def rangeContent (m : Mode) (s : Store) (r : Range) : Sel :=
  if r.sc = r.ec ∧ textLike s r.sc then
    if r.so = r.eo then { store := s } else selText m { store := s } r.sc r.so r.eo
  else
    selContent m (s.size + 1) { store := s } (commonAnc s r.sc r.ec) (some (r.sc, r.so)) (some (r.ec, r.eo))

/-- a new DocumentFragment of the range's document holding `tops` -/
def wrapFragment (s : Store) (doc : NodeId) (tops : List NodeId) : Store × NodeId :=
  let (s1, f) := s.alloc { kind := .fragment, owner := doc }
  (appendAll s1 f tops, f)

/-- cloneContents(): the store only grows -/
def cloneContents (s : Store) (r : Range) : Store × NodeId :=
  let sel := rangeContent .clone s r
  wrapFragment sel.store r.doc sel.tops

/-- extractContents(): store, fragment, the range afterwards, notifications for the other views -/
def extractContents (s : Store) (r : Range) : Store × NodeId × Range × Log :=
  let pt := collapsePoint s r
  let sel := rangeContent .extract s r
  let (s2, f) := wrapFragment sel.store r.doc sel.tops
  (s2, f, { r with sc := pt.1, so := pt.2, ec := pt.1, eo := pt.2 }, sel.log)

/-- deleteContents() -/
def deleteContents (s : Store) (r : Range) : Store × Range × Log :=
  let pt := collapsePoint s r
  let sel := rangeContent .delete s r
  (sel.store, { r with sc := pt.1, so := pt.2, ec := pt.1, eo := pt.2 }, sel.log)

-- ------------------------------------------------------------------ the document with its live views

/-- which of the repairs are in force (`true` everywhere = the repaired library; `false` = the current C++) -/
structure Cfg where
  iterNullGuard : Bool := true       -- F5
  insertedTextAdvance : Bool := true -- F6
  whatToShowFirst : Bool := true     -- TreeWalker::acceptNode
  prevNodeDeepest : Bool := true     -- TreeWalker::previousNode
  selectNodeParent : Bool := true    -- Range::selectNode on character data
  toStringDataOnly : Bool := true    -- Range::toString
  splitKeepsAfter : Bool := true     -- splitText vs. a boundary point right after the node
  renameInvalidates : Bool := true   -- renameNode vs. getElementsByTagName caches
  contentDeletesData : Bool := true  -- extract/deleteContents cut boundary text with deleteData (not setNodeValue)
  splitDetachedStays : Bool := true  -- splitText of a parentless node: boundary points stay in the old node
  insertNodeChecksFirst : Bool := true  -- Range::insertNode refuses what insertBefore will refuse BEFORE it splits the text
  deriving Repr

structure VState where
  store : Store
  chg : List (NodeId × Nat) := []     -- DOMDocumentImpl::fChanges per document (absent = 0)
  iters : List Iter := []
  walkers : List Walker := []
  lists : List DeepList := []
  ranges : List Range := []
  crashed : Bool := false             -- the current C++ dereferenced a null pointer (only with iterNullGuard = false)

def changesOf (v : VState) (doc : NodeId) : Nat :=
  match v.chg.find? (fun p => p.1 == doc) with
  | some p => p.2
  | none => 0

/-- DOMDocumentImpl::changed() -/
def bump (chg : List (NodeId × Nat)) (doc : NodeId) : List (NodeId × Nat) :=
  if chg.any (fun p => p.1 == doc) then chg.map (fun p => if p.1 == doc then (p.1, p.2 + 1) else p)
  else (doc, 1) :: chg

/-- owner document of a node, the node itself for a Document -/
def docOf (s : Store) (x : NodeId) : NodeId := match s.get x with
  | some r => r.owner
  | none => x

/-- document whose iterator / range lists a notification about node `x` goes through -/
def evDoc (s : Store) : Ev → NodeId
  | .removing c => docOf s c
  | .inserted n => docOf s n
  | .textInserted t _ _ => docOf s t
  | .textDeleted t _ _ => docOf s t
  | .textReplaced t => docOf s t
  | .split o _ _ => docOf s o

def Range.onEv (cfg : Cfg) (s : Store) (r : Range) : Ev → Range
  | .removing c => r.deletedNode s c
  | .inserted n => r.insertedNode s n
  | .textInserted t off cnt => if cfg.insertedTextAdvance then r.insertedText s t off cnt else r.insertedTextAsIs s t off cnt
  | .textDeleted t off cnt => r.deletedText s t off cnt
  | .textReplaced t => r.replacedText s t
  | .split o n off => r.splitInfo s o n off

/-- deliver one notification to every live view of the document concerned -/
def notify (cfg : Cfg) (v : VState) (s : Store) (ev : Ev) : VState :=
  let d := evDoc s ev
  let v1 : VState := match ev with
    | .removing c =>
      -- iterators first (DOMParentNode::removeChild)
      if cfg.iterNullGuard then
        { v with iters := v.iters.map fun it =>
            if docOf s it.root = d ∧ !it.detached then it.removeNode s c else it }
      else
        let crash := v.iters.any fun it => docOf s it.root = d ∧ !it.detached ∧ (it.removeNodeAsIs s c).isNone
        { v with crashed := v.crashed || crash,
                 iters := v.iters.map fun it =>
                   if docOf s it.root = d ∧ !it.detached then (it.removeNodeAsIs s c).getD it else it }
    | _ => v
  { v1 with ranges := v1.ranges.map fun r => if r.doc = d ∧ !r.detached then r.onEv cfg s ev else r }

def notifyAll (cfg : Cfg) (v : VState) (log : Log) : VState :=
  log.foldl (fun v (se : Store × Ev) => notify cfg v se.1 se.2) v

-- ------------------------------------------------------------------ C13 operations as sequences of notifications

/-- `oldparent->removeChild(m)` if attached, then the link surgery, then the insertion notification -/
def moveOneLog (s : Store) (m p : NodeId) (ref : Option NodeId) : Store × Log :=
  let (s1, l1) := match parentOf s m with
    | some _ => (detach s m, [(s, Ev.removing m)])
    | none => (s, [])
  let s2 := moveNodes s1 [m] p ref
  (s2, l1 ++ [(s2, Ev.inserted m)])

/-- DOMParentNode::insertBefore for the nodes `ms` (one node, or the children of a DocumentFragment one by one) -/
def insertLog (s : Store) (ms : List NodeId) (p : NodeId) (ref : Option NodeId) : Store × Log :=
  ms.foldl (fun (acc : Store × Log) m =>
    let (s1, l) := moveOneLog acc.1 m p ref
    (s1, acc.2 ++ l)) (s, [])

/-- the notifications of `p.insertBefore(n, ref)` when it succeeds -/
def insertBeforeLog (s : Store) (p n : NodeId) (ref : Option NodeId) (skipE skipD : Bool) : Store × Log :=
  match s.get p, s.get n with
  | some rp, some rn =>
    (match insertPlan s p n rp rn ref skipE skipD with
     | .ok ms => insertLog s ms p ref
     | .error _ => (s, []))
  | _, _ => (s, [])

/-- DOMAttrImpl::setValue: `while ((kid = fFirstChild) != 0) removeChild(kid)->release()` (the new Text is appended with
appendChildFast: no notification) -/
def clearKidsLog (s : Store) (a : NodeId) : Log :=
  ((kids s a).foldl (fun (acc : Store × Log) k => (detach acc.1 k, acc.2 ++ [(acc.1, Ev.removing k)])) (s, [])).2

/-- DOMParentNode::normalize on the children of `q`, then (Element) on its attributes; `f` bounds the depth.
Works on a scratch store in which appendData / removeChild are carried out, and logs the removeChild notifications. -/
def normLog : Nat → Store → NodeId → Store × Log
  | 0, s, _ => (s, [])
  | f + 1, s, q =>
    -- the `for (kid = fFirstChild; kid != 0; kid = next)` loop; `todo` = kid :: following siblings
    let rec loop (fuel : Nat) (s : Store) (log : Log) (todo : List NodeId) : Store × Log :=
      match fuel, todo with
      | 0, _ => (s, log)
      | _, [] => (s, log)
      | fuel + 1, kid :: rest =>
        match rest with
        | nx :: rest' =>
          if isKind s .text kid && isKind s .text nx then
            let s1 := setDataOf s kid (dataOf s kid ++ dataOf s nx)
            loop fuel (detach s1 nx) (log ++ [(s1, Ev.removing nx)]) (kid :: rest')
          else if isKind s .text kid then
            if (dataOf s kid).isEmpty then loop fuel (detach s kid) (log ++ [(s, Ev.removing kid)]) rest
            else loop fuel s log rest
          else if isKind s .element kid then
            let (s1, l1) := normLog f s kid
            loop fuel s1 (log ++ l1) rest
          else loop fuel s log rest
        | [] =>
          if isKind s .text kid then
            if (dataOf s kid).isEmpty then (detach s kid, log ++ [(s, Ev.removing kid)]) else (s, log)
          else if isKind s .element kid then
            let (s1, l1) := normLog f s kid
            (s1, log ++ l1)
          else (s, log)
    let (s1, l1) := loop (2 * (kids s q).length + 2) s [] (kids s q)
    if isKind s1 .element q then
      (match s1.get q with
       | some rq => rq.attrs.foldl (fun (acc : Store × Log) a =>
           let (s2, l2) := normLog f acc.1 a
           (s2, acc.2 ++ l2)) (s1, l1)
       | none => (s1, l1))
    else (s1, l1)

/-- DOMCharacterDataImpl::deleteData's clamping of `count` -/
def clampCount (len off cnt : Nat) : Nat :=
  let c := if cnt > len then len else cnt
  if off + c ≥ len then len - off else c

/-- does the operation invalidate getElementsByTagName caches (DOMDocumentImpl::changed())?  In the C++: insertBefore,
removeChild (also inside replaceChild, splitText, normalize, adoptNode, Attr::setValue); REPAIRED: renameNode.
The model also counts cloneNode / importNode (they append children to the copies) and the attribute operations. -/
def opBumps (cfg : Cfg) : Op → Bool
  | .appendChild .. | .insertBefore .. | .removeChild .. | .replaceChild .. | .splitText .. | .normalize ..
  | .adoptNode .. | .cloneNode .. | .importNode .. | .setAttribute .. | .setValue .. | .removeAttribute ..
  | .setAttributeNode .. | .removeAttributeNode .. => true
  | .renameNode .. => cfg.renameInvalidates
  | _ => false

/-- the notifications an operation sends, computed on the store BEFORE it; only meaningful when the operation succeeds -/
def opLog (s : Store) : Op → Log
  | .appendChild p n => (insertBeforeLog s p n none false false).2
  | .insertBefore p n ref => (insertBeforeLog s p n ref false false).2
  | .removeChild _ c => [(s, .removing c)]
  | .replaceChild p n old =>
    (match s.get p, s.get old with
     | some rp, some ro =>
       let skipE := rp.kind == .document && ro.kind == .element
       let skipD := rp.kind == .document && ro.kind == .doctype
       let (s1, l1) := insertBeforeLog s p n (some old) skipE skipD
       l1 ++ [(s1, .removing old)]
     | _, _ => [])
  | .setAttribute e nm _ =>
    (match s.get e with
     | some re => (match findAttr s re.attrs nm with
        | some a => clearKidsLog s a
        | none => [])
     | none => [])
  | .setValue a _ => clearKidsLog s a
  | .insertData t off d => [(s, .textInserted t off d.length)]
  | .deleteData t off cnt => [(s, .textDeleted t off (clampCount (dataOf s t).length off cnt))]
  | .replaceData t off cnt d =>
    [(s, .textDeleted t off (clampCount (dataOf s t).length off cnt)), (s, .textInserted t off d.length)]
  | .setData t _ => [(s, .textReplaced t)]
  | .adoptNode d n =>
    (match s.get n with
     | some rn =>
       if ownerDocOf rn = some d ∧ rn.kind ≠ .attr ∧ rn.kind ≠ .doctype ∧ rn.parent.isSome then [(s, .removing n)] else []
     | none => [])
  | .normalize n => (normLog (s.size + 1) s n).2
  | _ => []

/-- a view that refers to a released node is gone (its handle is reported dead from then on) -/
def Iter.alive (s : Store) (it : Iter) : Bool :=
  (s.get it.root).isSome && (match it.cur with | some c => (s.get c).isSome | none => true)
def Walker.alive (s : Store) (wk : Walker) : Bool := (s.get wk.root).isSome && (s.get wk.cur).isSome
def DeepList.alive (s : Store) (dl : DeepList) : Bool := (s.get dl.root).isSome
def Range.alive (s : Store) (r : Range) : Bool := (s.get r.sc).isSome && (s.get r.ec).isSome

/-- REPAIRED splitText: boundary points directly after the old node follow the text that moved -/
def splitAfterAll (v : VState) (s : Store) (nw : NodeId) : VState :=
  { v with ranges := v.ranges.map fun r => if r.doc = docOf s nw ∧ !r.detached then r.splitAfter s nw else r }

/-- the views after `t.splitText(off)` returned the new node `k` (`s'` = the store afterwards) -/
def splitNotify (cfg : Cfg) (v : VState) (s s' : Store) (t k off : Nat) : VState :=
  let v1 := match parentOf s t with
    | some _ =>
      let v1 := notify cfg v s' (.inserted k)
      if cfg.splitKeepsAfter then splitAfterAll v1 s' k else v1
    | none => v
  -- A parentless node: the new node is linked to nothing, a boundary point that followed the text into it would leave its
  -- range with the two points in different trees.  Rule of the Spec (DOM: "split a Text node", the ranges move to the new
  -- node only when there is a parent): the points stay in the old node, at its new end.  The code moves them.
  if (parentOf s t).isNone ∧ cfg.splitDetachedStays then notify cfg v1 s' (.textDeleted t off (lenOf s t - off))
  else notify cfg v1 s' (.split t k off)

/-- the document whose change counter an operation advances (when `opBumps`) -/
def bumpDoc (s : Store) : Op → Option NodeId
  | .appendChild p _ | .insertBefore p _ _ | .removeChild p _ | .replaceChild p _ _ => some (docOf s p)
  | .splitText t _ => some (docOf s t)
  | .normalize n => some (docOf s n)
  | .adoptNode d _ | .importNode d _ _ | .renameNode d _ _ => some d
  | .cloneNode n _ => some (docOf s n)
  | .setAttribute e _ _ | .removeAttribute e _ | .setAttributeNode e _ | .removeAttributeNode e _ => some (docOf s e)
  | .setValue a _ => some (docOf s a)
  | _ => none

def bumpFor (s : Store) (chg : List (NodeId × Nat)) (op : Op) : List (NodeId × Nat) :=
  match bumpDoc s op with
  | some d => bump chg d
  | none => chg

/-- One C13 operation on a document that has live views. -/
def vstep (cfg : Cfg) (v : VState) (op : Op) : VState × Result :=
  let s := v.store
  let (s', res) := step s op
  if !res.isOk then (v, res) else
  let v1 : VState := match op, res with
    | .splitText t off, .ok (.node k) => splitNotify cfg v s s' t k off
    | _, _ => notifyAll cfg v (opLog s op)
  let chg := if opBumps cfg op then bumpFor s v1.chg op else v1.chg
  ({ v1 with store := s', chg := chg }, res)

-- ------------------------------------------------------------------ operations on the views themselves

inductive VOp
  | dom (op : Op)
  | mkIter (root w filt : Nat) | iterNext (k : Nat) | iterPrev (k : Nat) | iterDetach (k : Nat)
  | mkWalker (root w filt : Nat) | walk (k : Nat) (dir : Nat) | wSet (k node : Nat)
  | mkList (root : Nat) (tag : List Nat) | listLen (k : Nat) | listItem (k i : Nat) | listAll (k : Nat)
  | mkRange (doc : Nat) | rSetStart (k n off : Nat) | rSetEnd (k n off : Nat) | rSetRel (k which n : Nat)
  | rCollapse (k : Nat) (toStart : Bool) | rSelNode (k n : Nat) | rSelContents (k n : Nat)
  | rCompare (k how other : Nat) | rToString (k : Nat) | rDelete (k : Nat) | rExtract (k : Nat) | rClone (k : Nat)
  | rInsert (k n : Nat) | rSurround (k n : Nat) | rDetach (k : Nat)
  deriving Repr

inductive VRes
  | dom (r : Result)
  | node (n : Option NodeId)
  | view (kind : Char) (k : Nat)
  | num (i : Int)
  | str (l : List Nat)
  | items (len : Nat) (l : List (Option NodeId))
  | exc (e : Exc)
  | rexc (e : RExc)
  | ok
  | dead
  | mismatch
  | crash
  deriving Repr, DecidableEq

def listSet {α : Type} (l : List α) (k : Nat) (a : α) : List α := l.set k a

def RExc.toRes : RExc → VRes := VRes.rexc

/-- walker direction codes of the line protocol: 0 parentNode, 1 firstChild, 2 lastChild, 3 previousSibling,
4 nextSibling, 5 previousNode, 6 nextNode -/
def Walker.go (cfg : Cfg) (s : Store) (wk : Walker) (dir : Nat) : Walker × Option NodeId :=
  let vd := wk
  match dir with
  | 0 => vd.parentNode s
  | 1 => vd.firstChild s
  | 2 => vd.lastChild s
  | 3 => vd.previousSibling s
  | 4 => vd.nextSibling s
  | 5 => if cfg.prevNodeDeepest then vd.previousNode s else vd.previousNodeAsIs s
  | _ => vd.nextNode s

-- the position of a boundary point in the linearised tree (used to decide whether a range is well-ordered)
/-- weight of a subtree in the linearisation: one tick for entering, the content, one tick for leaving -/
def weightFuel (s : Store) : Nat → NodeId → Nat
  | 0, _ => 2
  | f + 1, n => if textLike s n then 2 + (dataOf s n).length else 2 + ((kids s n).map (weightFuel s f)).sum

def weight (s : Store) (n : NodeId) : Nat := weightFuel s s.size n

/-- position of the point (n, o) relative to the tick at which `n` is entered -/
def innerPos (s : Store) (n : NodeId) (o : Nat) : Nat :=
  if textLike s n then 1 + o else 1 + (((kids s n).take o).map (weight s)).sum

/-- tick at which `x` is entered, relative to the top of its tree (`chain` = its ancestors, nearest first) -/
def enterPos (s : Store) : NodeId → List NodeId → Nat
  | _, [] => 0
  | x, p :: ps => enterPos s p ps + innerPos s p (indexIn s p x)

/-- position of a boundary point in the linearised tree: points compare as these numbers do -/
def bpKey (s : Store) (b : NodeId × Nat) : Nat := enterPos s b.1 (ancestors s b.1) + innerPos s b.1 b.2

/-- does the subtree of `x` hold a read-only node (EntityReference)?  Content operations are not exercised then. -/
def hasReadOnlyBelow (s : Store) (x : NodeId) : Bool :=
  (List.range s.size).any fun i => match s.get i with
    | some r => r.readOnly && isAncOf s x i
    | none => false

/-- the range is usable for a content operation: attached, live containers of one tree, start not after end -/
def Range.usable (s : Store) (r : Range) : Bool :=
  !r.detached && r.alive s && sameRoot s r.sc r.ec && r.so ≤ lenOf s r.sc && r.eo ≤ lenOf s r.ec &&
  bpKey s (r.sc, r.so) ≤ bpKey s (r.ec, r.eo) &&
  -- DOM Range 2.2: the root container of a range is a Document, DocumentFragment or Attr
  (match kindOf s (rootOf s r.sc) with
   | some .document | some .fragment | some .attr => true
   | _ => false)

def setRange (v : VState) (k : Nat) (r : Range) : VState := { v with ranges := v.ranges.set k r }

/-- apply the notifications of a content operation of range `k` to all views, then put range `k` where the operation
leaves it, and invalidate the tag-name caches of the document -/
def afterContent (cfg : Cfg) (v : VState) (k : Nat) (s' : Store) (r' : Range) (log : Log) : VState :=
  -- REPAIRED: the characters cut from a boundary Text are removed with deleteData, so other ranges move as DOM Range
  -- 2.12.2 says; the C++ (traverseTextNode, i.e. when the two containers differ) assigns the shortened value with
  -- setNodeValue, which sends every boundary point in that node to offset 0
  let twoContainers := match v.ranges[k]? with
    | some r => r.sc != r.ec
    | none => false
  let log' := if !cfg.contentDeletesData && twoContainers then
      log.map fun (se : Store × Ev) => match se.2 with
        | .textDeleted t _ _ => (se.1, Ev.textReplaced t)
        | _ => se
    else log
  let v1 := notifyAll cfg v log'
  { (setRange v1 k r') with store := s', chg := bump v1.chg r'.doc }

/-- DOMRangeImpl::insertNode(newNode) as a sequence of DOM calls -/
def rangeInsert (cfg : Cfg) (v : VState) (_k : Nat) (r : Range) (n : NodeId) : VState × VRes :=
  let s := v.store
  match s.get n with
  | none => (v, .dead)
  | some rn =>
    if r.detached then (v, .rexc .invalidState) else
    if rn.kind = .attr ∨ rn.kind = .entity ∨ rn.kind = .notation ∨ rn.kind = .document then (v, .rexc .invalidNodeType) else
    if isAncOf s n r.sc then (v, .rexc .hierarchy) else
    if rn.readOnly then (v, .rexc .noModification) else
    if ownerDocOf rn ≠ some r.doc then (v, .rexc .wrongDocument) else
    if textLike s r.sc then
      match parentOf s r.sc with
      | none =>
        -- the text is split even though nothing can be inserted
        if r.so > 0 then
          let (v1, res) := vstep cfg v (.splitText r.sc r.so)
          (v1, if res.isOk then .ok else .dom res)
        else (v, .ok)
      | some p =>
        if r.so > 0 then
          -- Rule of the Spec: an operation that raises changes nothing.  The code splits the text and only then lets
          -- insertBefore find out that the parent (an Attr) cannot hold the node: HIERARCHY_REQUEST_ERR with the text split.
          let dry := (step s (.insertBefore p n (some r.sc))).2
          if cfg.insertNodeChecksFirst ∧ !dry.isOk then (v, .dom dry) else
          let (v1, res) := vstep cfg v (.splitText r.sc r.so)
          match res with
          | .ok (.node nw) =>
            let (v2, res2) := vstep cfg v1 (.insertBefore p n (some nw))
            (v2, if res2.isOk then .ok else .dom res2)
          | _ => (v1, .dom res)
        else
          let (v2, res2) := vstep cfg v (.insertBefore p n (some r.sc))
          (v2, if res2.isOk then .ok else .dom res2)
    else
      let ref := ((kids s r.sc).drop r.so).head?
      let (v2, res2) := vstep cfg v (.insertBefore r.sc n ref)
      (v2, if res2.isOk then .ok else .dom res2)

/-- One operation of the C14 line protocol. -/
def vop (cfg : Cfg) (v : VState) : VOp → VState × VRes
  | .dom op => let (v', r) := vstep cfg v op; (v', .dom r)
  -- ---- NodeIterator
  | .mkIter root w filt =>
    if (v.store.get root).isNone then (v, .dead) else
    ({ v with iters := v.iters ++ [{ root := root, w := w, filt := filt }] }, .view 'I' v.iters.length)
  | .iterNext k =>
    (match v.iters[k]? with
     | none => (v, .dead)
     | some it =>
       if !it.alive v.store then (v, .dead) else
       match it.nextNode v.store with
       | (it', .node r) => ({ v with iters := v.iters.set k it' }, .node r)
       | (_, .invalidState) => (v, .rexc .invalidState))
  | .iterPrev k =>
    (match v.iters[k]? with
     | none => (v, .dead)
     | some it =>
       if !it.alive v.store then (v, .dead) else
       match it.previousNode v.store with
       | (it', .node r) => ({ v with iters := v.iters.set k it' }, .node r)
       | (_, .invalidState) => (v, .rexc .invalidState))
  | .iterDetach k =>
    (match v.iters[k]? with
     | none => (v, .dead)
     | some it => ({ v with iters := v.iters.set k { it with detached := true } }, .ok))
  -- ---- TreeWalker
  | .mkWalker root w filt =>
    if (v.store.get root).isNone then (v, .dead) else
    ({ v with walkers := v.walkers ++ [{ root := root, w := w, filt := filt, cur := root, asIs := !cfg.whatToShowFirst }] },
     .view 'W' v.walkers.length)
  | .walk k dir =>
    (match v.walkers[k]? with
     | none => (v, .dead)
     | some wk =>
       if !wk.alive v.store then (v, .dead) else
       let (wk', r) := wk.go cfg v.store dir
       ({ v with walkers := v.walkers.set k wk' }, .node r))
  | .wSet k node =>
    (match v.walkers[k]? with
     | none => (v, .dead)
     | some wk =>
       if (v.store.get node).isNone ∨ !wk.alive v.store then (v, .dead) else
       ({ v with walkers := v.walkers.set k { wk with cur := node } }, .ok))
  -- ---- getElementsByTagName
  | .mkList root tag =>
    (match v.store.get root with
     | none => (v, .dead)
     | some r =>
       if r.kind ≠ .element ∧ r.kind ≠ .document then (v, .mismatch) else
       ({ v with lists := v.lists ++ [{ root := root, tag := tag, doc := docOf v.store root }] }, .view 'L' v.lists.length))
  | .listLen k =>
    (match v.lists[k]? with
     | none => (v, .dead)
     | some dl =>
       if !dl.alive v.store then (v, .dead) else
       let (dl', n) := dl.length v.store (changesOf v dl.doc)
       ({ v with lists := v.lists.set k dl' }, .num n))
  | .listItem k i =>
    (match v.lists[k]? with
     | none => (v, .dead)
     | some dl =>
       if !dl.alive v.store then (v, .dead) else
       let (dl', r) := dl.item v.store (changesOf v dl.doc) i
       ({ v with lists := v.lists.set k dl' }, .node r))
  | .listAll k =>
    (match v.lists[k]? with
     | none => (v, .dead)
     | some dl =>
       if !dl.alive v.store then (v, .dead) else
       let c := changesOf v dl.doc
       let (dl1, n) := dl.length v.store c
       let (dl2, items) := (List.range n).foldl (fun (acc : DeepList × List (Option NodeId)) i =>
         let (d, r) := acc.1.item v.store c i
         (d, acc.2 ++ [r])) (dl1, [])
       ({ v with lists := v.lists.set k dl2 }, .items n items))
  -- ---- Range
  | .mkRange doc =>
    (match v.store.get doc with
     | none => (v, .dead)
     | some r =>
       if r.kind ≠ .document then (v, .mismatch) else
       ({ v with ranges := v.ranges ++ [{ doc := doc, sc := doc, so := 0, ec := doc, eo := 0 }] }, .view 'R' v.ranges.length))
  | .rSetStart k n off => rangeSet v k n (fun s r => r.setStart s n off)
  | .rSetEnd k n off => rangeSet v k n (fun s r => r.setEnd s n off)
  | .rSetRel k which n => rangeSet v k n (fun s r => r.setRel s which n)
  -- (selectNode / selectNodeContents do not look at the owner document; nodes of other documents are not exercised)
  | .rSelNode k n =>
    if foreignNode v k n then (v, .mismatch) else
    rangeSet v k n (fun s r => if cfg.selectNodeParent then r.selectNode s n else r.selectNodeAsIs s n)
  | .rSelContents k n =>
    if foreignNode v k n then (v, .mismatch) else
    rangeSet v k n (fun s r => r.selectNodeContents s n)
  | .rCollapse k toStart => withRange v k fun r => (setRange v k (r.collapse toStart), .ok)
  | .rCompare k how other =>
    (match v.ranges[k]?, v.ranges[other]? with
     | some r, some o =>
       if r.doc ≠ o.doc then (v, .rexc .wrongDocument) else
       if r.detached ∨ o.detached then (v, .rexc .invalidState) else
       if !r.alive v.store ∨ !o.alive v.store then (v, .dead) else
       let h := if how = 0 then How.startToStart else if how = 1 then .startToEnd else if how = 2 then .endToEnd else .endToStart
       (v, .num (r.compare v.store h o))
     | _, _ => (v, .dead))
  | .rToString k => withRange v k fun r =>
      if !r.usable v.store then (v, .mismatch) else
      (v, .str (if cfg.toStringDataOnly then r.toStringCode v.store else r.toStringAsIs v.store))
  | .rDetach k =>
    (match v.ranges[k]? with
     | none => (v, .dead)
     | some r =>
       if r.detached then (v, .rexc .invalidState) else
       (setRange v k { r with detached := true }, .ok))
  | .rDelete k => withRange v k fun r =>
      if !contentOk v.store r then (v, .mismatch) else
      let (s', r', log) := deleteContents v.store r
      (afterContent cfg v k s' r' log, .ok)
  | .rExtract k => withRange v k fun r =>
      if !contentOk v.store r then (v, .mismatch) else
      let (s', f, r', log) := extractContents v.store r
      (afterContent cfg v k s' r' log, .node (some f))
  | .rClone k => withRange v k fun r =>
      if !contentOk v.store r then (v, .mismatch) else
      let (s', f) := cloneContents v.store r
      ({ v with store := s', chg := bump v.chg r.doc }, .node (some f))
  | .rInsert k n =>
    if (v.store.get n).isNone then (v, .dead) else
    withRange v k fun r =>
      if !r.usable v.store then (v, .mismatch) else
      if textLike v.store r.sc ∧ !isCharText v.store r.sc then (v, .mismatch) else   -- Comment / PI containers: not exercised
      rangeInsert cfg v k r n
  | .rSurround k n =>
    (match v.store.get n with
     | none => (v, .dead)
     | some rn => withRange v k fun r =>
       let s := v.store
       if !contentOk s r then (v, .mismatch) else
       if textLike s r.sc ∧ !isCharText s r.sc then (v, .mismatch) else
       if ownerDocOf rn ≠ some r.doc then (v, .rexc .wrongDocument) else
       if !legalContained s n ∨ rn.kind = .doctype then (v, .rexc .invalidNodeType) else
       let realS := if textLike s r.sc then parentOf s r.sc else some r.sc
       let realE := if textLike s r.ec then parentOf s r.ec else some r.ec
       if realS ≠ realE then (v, .rexc .badBoundaryPoints) else
       -- the C++ extracts the contents before it finds out that newParent cannot be inserted (and then raises with the
       -- contents lost in an unreachable fragment): exercised only with an Element that can be inserted
       let insertable := rn.kind == .element && !isAncOf s n r.sc &&
         (match realS with
          | some p => isKind s .element p || isKind s .fragment p
          | none => false)
       if !insertable then (v, .mismatch) else
       -- extractContents(); insertNode(newParent); newParent->appendChild(frag); selectNode(newParent)
       let (s1, f, r1, log) := extractContents s r
       let v1 := afterContent cfg v k s1 r1 log
       (match v1.ranges[k]? with
        | none => (v1, .dead)
        | some r1 =>
          let (v2, res2) := rangeInsert cfg v1 k r1 n
          match res2 with
          | .ok =>
            let (v3, res3) := vstep cfg v2 (.appendChild n f)
            if !res3.isOk then (v3, .dom res3) else
            (match v3.ranges[k]? with
             | none => (v3, .dead)
             | some r3 =>
               let (r4, e) := if cfg.selectNodeParent then r3.selectNode v3.store n else r3.selectNodeAsIs v3.store n
               (setRange v3 k r4, match e with
                 | some e => .rexc e
                 | none => .ok))
          | other => (v2, other)))
where
  /-- checks shared by the range operations: the handle exists, a detached range raises INVALID_STATE_ERR, a range whose
  container was released is dead -/
  withRange (v : VState) (k : Nat) (f : Range → VState × VRes) : VState × VRes :=
    match v.ranges[k]? with
    | none => (v, .dead)
    | some r =>
      if r.detached then (v, .rexc .invalidState) else
      if !r.alive v.store then (v, .dead) else f r
  rangeSet (v : VState) (k n : Nat) (f : Store → Range → Range × Option RExc) : VState × VRes :=
    if (v.store.get n).isNone then (v, .dead) else
    withRange v k fun r =>
      let (r', e) := f v.store r
      (setRange v k r', match e with
        | some e => .rexc e
        | none => .ok)
  foreignNode (v : VState) (k n : Nat) : Bool :=
    match v.ranges[k]? with
    | some r => (v.store.get n).isSome && !r.detached && r.alive v.store && foreignTo v.store r n
    | none => false
  contentOk (s : Store) (r : Range) : Bool :=
    r.usable s && !hasReadOnlyBelow s (commonAnc s r.sc r.ec)

end XV.Model.Views
