/-
  Code-shaped model of `ElemStack` and `WFElemStack` (src/xercesc/internal/ElemStack.cpp/.hpp) and of the way the
  scanners drive them (`XMLScanner::commonInit/scanReset`, `updateNSMap`, `resolvePrefix`, the two-pass start tag of
  IGXMLScanner/SGXMLScanner::scanStartTagNS).  Capacities and growth factors come from `XV.Gen.ElemStackConsts`
  (regenerated from the C++ text on every run).  Core Lean only.

  Representation choices (stated, not hidden):
  * `XMLStringPool` is a list of strings; the id of a string is its position + `poolFirstId`, 0 = "not in the pool".
  * `fStack` is the list of rows allocated so far.  In the C++ the non-null slots of the pointer array always form a
    prefix (the top moves by one), so "slot `fStackTop` is null" is `fStackTop = fStack.length`.
  * a row's `fMap` is a list of length `fMapCapacity`; slots that the C++ leaves uninitialised hold `default`.
    `fMapCount` says how many are valid, exactly as in the C++.
  * exceptions (`EmptyStackException`) are `none`.
  * `WFElemStack::StackElem::fTopPrefix` is an `int` with -1 for "no prefix yet"; the model stores `fTopPrefix + 1`.
-/
import XV.Gen.ElemStackConsts
namespace XV.Model.ElemStack
open XV.Gen.ElemStackConsts

def ofUnits (l : List Nat) : String := String.ofList (l.map Char.ofNat)

def xmlString : String := ofUnits fgXMLString
def xmlnsString : String := ofUnits fgXMLNSString
def xmlURIName : String := ofUnits fgXMLURIName
def xmlnsURIName : String := ofUnits fgXMLNSURIName
def unknownURIName : String := ofUnits fgUnknownURIName

-- ------------------------------------------------------------------------------------------ XMLStringPool
abbrev Pool := List String

/-- `XMLStringPool::getId`: 0 when absent -/
def getId (pool : Pool) (s : String) : Nat :=
  if pool.idxOf s < pool.length then pool.idxOf s + poolFirstId else 0

/-- `XMLStringPool::addOrFind` -/
def addOrFind (pool : Pool) (s : String) : Pool × Nat :=
  if getId pool s ≠ 0 then (pool, getId pool s) else (pool ++ [s], pool.length + poolFirstId)

/-- `XMLStringPool::getValueForId` -/
def valueForId (pool : Pool) (id : Nat) : Option String :=
  if id < poolFirstId then none else pool[id - poolFirstId]?

-- ------------------------------------------------------------------------------------------ ElemStack
structure PrefMapElem where
  fPrefId : Nat := 0
  fURIId : Nat := 0
deriving DecidableEq, Repr, Inhabited

structure StackElem where
  fMap : List PrefMapElem := []
  fMapCapacity : Nat := 0
  fMapCount : Nat := 0
deriving Repr, Inhabited

structure ElemStack where
  fEmptyNamespaceId : Nat := 0
  fGlobalPoolId : Nat := 0
  fPrefixPool : Pool := []
  fGlobalNamespaces : Option StackElem := none
  fStack : List StackElem := []
  fStackCapacity : Nat := esStackInitCap
  fStackTop : Nat := 0
  fUnknownNamespaceId : Nat := 0
  fXMLNamespaceId : Nat := 0
  fXMLPoolId : Nat := 0
  fXMLNSNamespaceId : Nat := 0
  fXMLNSPoolId : Nat := 0
deriving Repr, Inhabited

/-- `ElemStack::expandMap` -/
def expandMap (toExpand : StackElem) : StackElem :=
  let oldCap := toExpand.fMapCapacity
  let newCapacity := if oldCap ≠ 0 then oldCap * esMapGrowNum / esMapGrowDen else esMapInitCap
  { toExpand with
    fMap := toExpand.fMap.take oldCap ++ List.replicate (newCapacity - oldCap) default
    fMapCapacity := newCapacity }

/-- `ElemStack::expandStack` (only the capacity is observable in the model) -/
def expandStack (s : ElemStack) : ElemStack :=
  { s with fStackCapacity := s.fStackCapacity * esStackGrowNum / esStackGrowDen }

/-- `ElemStack::addLevel()` -/
def addLevel (s : ElemStack) : ElemStack :=
  -- if (fStackTop == fStackCapacity) expandStack();
  let cap := if s.fStackTop = s.fStackCapacity then (expandStack s).fStackCapacity else s.fStackCapacity
  -- if (!fStack[fStackTop]) fStack[fStackTop] = new StackElem  (capacity 0, no map)
  let rows := if s.fStackTop < s.fStack.length then s.fStack else s.fStack ++ [({} : StackElem)]
  -- fStack[fStackTop]->fMapCount = 0; …; fStackTop++
  { s with fStackCapacity := cap
           fStack := rows.set s.fStackTop { (rows[s.fStackTop]?.getD ({} : StackElem)) with fMapCount := 0 }
           fStackTop := s.fStackTop + 1 }

/-- `ElemStack::popTop` -/
def popTop (s : ElemStack) : Option ElemStack :=
  if s.fStackTop = 0 then none else some { s with fStackTop := s.fStackTop - 1 }

/-- the tail of `addPrefix`/`addGlobalPrefix`: grow if full, store the pair, bump the count -/
def rowAdd (s : ElemStack) (curRow : StackElem) (prefId uriId : Nat) : StackElem :=
  let curRow := if curRow.fMapCount = curRow.fMapCapacity then expandMap curRow else curRow
  let uri := if prefId = s.fGlobalPoolId ∧ uriId = s.fEmptyNamespaceId then s.fEmptyNamespaceId else uriId
  { curRow with fMap := curRow.fMap.set curRow.fMapCount ⟨prefId, uri⟩, fMapCount := curRow.fMapCount + 1 }

/-- `ElemStack::addPrefix` -/
def addPrefix (s : ElemStack) (prefixToAdd : String) (uriId : Nat) : Option ElemStack :=
  if s.fStackTop = 0 then none else
  match s.fStack[s.fStackTop - 1]? with
  | none => none    -- unreachable
  | some curRow =>
    let (pool, prefId) := addOrFind s.fPrefixPool prefixToAdd
    some { s with fPrefixPool := pool, fStack := s.fStack.set (s.fStackTop - 1) (rowAdd s curRow prefId uriId) }

/-- `if (!fGlobalNamespaces) fGlobalNamespaces = new StackElem` (capacity 0, no map) -/
def globalRow (s : ElemStack) : StackElem :=
  match s.fGlobalNamespaces with
  | some g => g
  | none => {}

/-- `ElemStack::addGlobalPrefix` -/
def addGlobalPrefix (s : ElemStack) (prefixToAdd : String) (uriId : Nat) : ElemStack :=
  let g := globalRow s
  let (pool, prefId) := addOrFind s.fPrefixPool prefixToAdd
  { s with fPrefixPool := pool, fGlobalNamespaces := some (rowAdd s g prefId uriId) }

/-- inner loop of `mapPrefixToURI`: `for mapIndex < fMapCount: if fMap[mapIndex].fPrefId == prefixId return fURIId` -/
def searchRow (curRow : StackElem) (prefixId : Nat) : Option Nat :=
  ((curRow.fMap.take curRow.fMapCount).find? (fun e => e.fPrefId == prefixId)).map (·.fURIId)

/-- outer loop: `for (index = fStackTop; index > 0; index--) … fStack[index-1]` -/
def searchStack (rows : List StackElem) (prefixId : Nat) : Nat → Option Nat
  | 0 => none
  | index + 1 =>
    match rows[index]? with
    | some curRow =>
      (match searchRow curRow prefixId with
       | some u => some u
       | none => searchStack rows prefixId index)
    | none => searchStack rows prefixId index

/-- `ElemStack::mapPrefixToURI(prefixToMap, unknown)`; returns `(uriId, unknown)` -/
def mapPrefixToURI (s : ElemStack) (prefixToMap : String) : Nat × Bool :=
  let prefixId := if prefixToMap = "" then s.fGlobalPoolId else getId s.fPrefixPool prefixToMap
  if prefixId = 0 then (s.fUnknownNamespaceId, true)
  else if prefixId = s.fXMLPoolId then (s.fXMLNamespaceId, false)
  else if prefixId = s.fXMLNSPoolId then (s.fXMLNSNamespaceId, false)
  else match searchStack s.fStack prefixId s.fStackTop with
    | some u => (u, false)
    | none =>
      match s.fGlobalNamespaces.bind (searchRow · prefixId) with
      | some u => (u, false)
      | none => if prefixToMap = "" then (s.fEmptyNamespaceId, false) else (s.fUnknownNamespaceId, true)

/-- `ElemStack::reset` -/
def reset (s : ElemStack) (emptyId unknownId xmlId xmlNSId : Nat) : ElemStack :=
  let s := { s with fGlobalNamespaces := none, fStackTop := 0 }
  let s := if s.fXMLPoolId = 0 then
      let g := addOrFind s.fPrefixPool ""
      let x := addOrFind g.1 xmlString
      let n := addOrFind x.1 xmlnsString
      { s with fPrefixPool := n.1, fGlobalPoolId := g.2, fXMLPoolId := x.2, fXMLNSPoolId := n.2 }
    else s
  { s with fEmptyNamespaceId := emptyId, fUnknownNamespaceId := unknownId,
           fXMLNamespaceId := xmlId, fXMLNSNamespaceId := xmlNSId }

-- ------------------------------------------------------------------------------------------ WFElemStack
structure WFStackElem where
  fTopPrefix1 : Nat := 0      -- C++ `fTopPrefix + 1`
deriving Repr, Inhabited

structure WFElemStack where
  fEmptyNamespaceId : Nat := 0
  fGlobalPoolId : Nat := 0
  fStackCapacity : Nat := wfStackInitCap
  fStackTop : Nat := 0
  fUnknownNamespaceId : Nat := 0
  fXMLNamespaceId : Nat := 0
  fXMLPoolId : Nat := 0
  fXMLNSNamespaceId : Nat := 0
  fXMLNSPoolId : Nat := 0
  fMapCapacity : Nat := wfMapInitCapCtor
  fMap : List PrefMapElem := []
  fStack : List WFStackElem := []
  fPrefixPool : Pool := []
deriving Repr, Inhabited

namespace WF

/-- `WFElemStack::expandMap` -/
def expandMap (s : WFElemStack) : WFElemStack :=
  let newCapacity := if s.fMapCapacity ≠ 0 then s.fMapCapacity * wfMapGrowNum / wfMapGrowDen else wfMapInitCap
  { s with fMap := s.fMap.take s.fMapCapacity ++ List.replicate (newCapacity - s.fMapCapacity) default
           fMapCapacity := newCapacity }

def expandStack (s : WFElemStack) : WFElemStack :=
  { s with fStackCapacity := s.fStackCapacity * wfStackGrowNum / wfStackGrowDen }

/-- `WFElemStack::addLevel()` -/
def addLevel (s : WFElemStack) : WFElemStack :=
  let cap := if s.fStackTop = s.fStackCapacity then (expandStack s).fStackCapacity else s.fStackCapacity
  let rows := if s.fStackTop < s.fStack.length then s.fStack else s.fStack ++ [({} : WFStackElem)]
  -- fTopPrefix = -1; if (fStackTop != 0) fTopPrefix = fStack[fStackTop - 1]->fTopPrefix
  let tp := if s.fStackTop ≠ 0 then (rows[s.fStackTop - 1]?.getD ({} : WFStackElem)).fTopPrefix1 else 0
  { s with fStackCapacity := cap, fStack := rows.set s.fStackTop { fTopPrefix1 := tp }, fStackTop := s.fStackTop + 1 }

def popTop (s : WFElemStack) : Option WFElemStack :=
  if s.fStackTop = 0 then none else some { s with fStackTop := s.fStackTop - 1 }

/-- `WFElemStack::addPrefix` -/
def addPrefix (s : WFElemStack) (prefixToAdd : String) (uriId : Nat) : Option WFElemStack :=
  if s.fStackTop = 0 then none else
  match s.fStack[s.fStackTop - 1]? with
  | none => none
  | some curRow =>
    let r := addOrFind s.fPrefixPool prefixToAdd
    -- if ((unsigned int)curRow->fTopPrefix + 1 == fMapCapacity) expandMap();
    let full := curRow.fTopPrefix1 = s.fMapCapacity
    let map1 := if full then (expandMap s).fMap else s.fMap
    let cap1 := if full then (expandMap s).fMapCapacity else s.fMapCapacity
    let uri := if r.2 = s.fGlobalPoolId ∧ uriId = s.fEmptyNamespaceId then s.fEmptyNamespaceId else uriId
    some { s with fPrefixPool := r.1, fMapCapacity := cap1
                  fMap := map1.set curRow.fTopPrefix1 ⟨r.2, uri⟩
                  fStack := s.fStack.set (s.fStackTop - 1) { fTopPrefix1 := curRow.fTopPrefix1 + 1 } }

/-- `for (mapIndex = fTopPrefix; mapIndex >= 0; mapIndex--)` over the shared map -/
def searchDown (fMap : List PrefMapElem) (prefixId : Nat) : Nat → Option Nat
  | 0 => none
  | n + 1 =>
    match fMap[n]? with
    | some e => if e.fPrefId = prefixId then some e.fURIId else searchDown fMap prefixId n
    | none => searchDown fMap prefixId n

/-- `WFElemStack::mapPrefixToURI`; `none` when the stack is empty (the C++ reads `fStack[-1]`: undefined behaviour,
    never done by the scanner, guarded in the harness) -/
def mapPrefixToURI (s : WFElemStack) (prefixToMap : String) : Option (Nat × Bool) :=
  if s.fStackTop = 0 then none else
  match s.fStack[s.fStackTop - 1]? with
  | none => none
  | some curRow =>
    let prefixId := getId s.fPrefixPool prefixToMap
    some <|
    if prefixId = 0 then (s.fUnknownNamespaceId, true)
    else if prefixId = s.fXMLPoolId then (s.fXMLNamespaceId, false)
    else if prefixId = s.fXMLNSPoolId then (s.fXMLNSNamespaceId, false)
    else match searchDown s.fMap prefixId curRow.fTopPrefix1 with
      | some u => (u, false)
      | none => if prefixToMap = "" then (s.fEmptyNamespaceId, false) else (s.fUnknownNamespaceId, true)

/-- `WFElemStack::reset` -/
def reset (s : WFElemStack) (emptyId unknownId xmlId xmlNSId : Nat) : WFElemStack :=
  let s := { s with fStackTop := 0 }
  let s := if s.fXMLPoolId = 0 then
      let g := addOrFind s.fPrefixPool ""
      let x := addOrFind g.1 xmlString
      let n := addOrFind x.1 xmlnsString
      { s with fPrefixPool := n.1, fGlobalPoolId := g.2, fXMLPoolId := x.2, fXMLNSPoolId := n.2 }
    else s
  { s with fEmptyNamespaceId := emptyId, fUnknownNamespaceId := unknownId,
           fXMLNamespaceId := xmlId, fXMLNSNamespaceId := xmlNSId }

end WF

-- ------------------------------------------------------------------------------------------ the scanner's use
/-- The part of `XMLScanner` that namespace resolution depends on: the element stack, the URI string pool
    (`fURIStringPool`) and the four special URI ids. -/
structure Scan where
  es : ElemStack := {}
  uriPool : Pool := []
  fEmptyNamespaceId : Nat := 0
  fUnknownNamespaceId : Nat := 0
  fXMLNamespaceId : Nat := 0
  fXMLNSNamespaceId : Nat := 0
  xml11 : Bool := false          -- fXMLVersion != XMLV1_0
deriving Repr, Inhabited

/-- `XMLScanner::commonInit` (the four `fURIStringPool->addOrFind` lines) followed by `scanReset`'s
    `fElemStack.reset(fEmptyNamespaceId, fUnknownNamespaceId, fXMLNamespaceId, fXMLNSNamespaceId)` -/
def Scan.init (xml11 : Bool := false) : Scan :=
  let e := addOrFind [] ""
  let u := addOrFind e.1 unknownURIName
  let x := addOrFind u.1 xmlURIName
  let n := addOrFind x.1 xmlnsURIName
  { es := reset {} e.2 u.2 x.2 n.2, uriPool := n.1, fEmptyNamespaceId := e.2, fUnknownNamespaceId := u.2,
    fXMLNamespaceId := x.2, fXMLNSNamespaceId := n.2, xml11 := xml11 }

/-- operations the scanners perform on the stack (histories are lists of these) -/
inductive Op where
  | addLevel
  | popTop
  | addPrefix (pre uri : String)        -- `updateNSMap`: addPrefix(prefix, fURIStringPool->addOrFind(uri))
  | addGlobalPrefix (pre uri : String)  -- `XMLScanner::addGlobalPrefix` with the pooled URI id
deriving Repr, Inhabited

/-- one operation; an operation that throws in the C++ leaves the state as it was -/
def Scan.step (s : Scan) : Op → Scan
  | .addLevel => { s with es := addLevel s.es }
  | .popTop => match popTop s.es with
      | some es => { s with es := es }
      | none => s
  | .addPrefix p u =>
      let r := addOrFind s.uriPool u        -- the argument is evaluated before addPrefix can throw
      (match addPrefix s.es p r.2 with
       | some es => { s with es := es, uriPool := r.1 }
       | none => { s with uriPool := r.1 })
  | .addGlobalPrefix p u =>
      let r := addOrFind s.uriPool u
      { s with es := addGlobalPrefix s.es p r.2, uriPool := r.1 }

def Scan.run (s : Scan) : List Op → Scan
  | [] => s
  | o :: os => (s.step o).run os

/-- what a `(uriId, unknown)` answer means: `getURIText(uriId)`, with "unknown" and the empty namespace id both
    standing for "no namespace name" -/
def Scan.decode (s : Scan) (r : Nat × Bool) : Option String :=
  if r.2 then none else if r.1 = s.fEmptyNamespaceId then none else valueForId s.uriPool r.1

/-- the same wrapper around a `WFElemStack` (exported, but not used by any scanner of this version: all of them,
    WFXMLScanner included, use `XMLScanner::fElemStack : ElemStack`); it has no global prefixes -/
structure WFScan where
  es : WFElemStack := {}
  uriPool : Pool := []
  fEmptyNamespaceId : Nat := 0
deriving Repr, Inhabited

def WFScan.init : WFScan :=
  let e := addOrFind [] ""
  let u := addOrFind e.1 unknownURIName
  let x := addOrFind u.1 xmlURIName
  let n := addOrFind x.1 xmlnsURIName
  { es := WF.reset {} e.2 u.2 x.2 n.2, uriPool := n.1, fEmptyNamespaceId := e.2 }

def WFScan.step (s : WFScan) : Op → WFScan
  | .addLevel => { s with es := WF.addLevel s.es }
  | .popTop => match WF.popTop s.es with
      | some es => { s with es := es }
      | none => s
  | .addPrefix p u =>
      let r := addOrFind s.uriPool u
      (match WF.addPrefix s.es p r.2 with
       | some es => { s with es := es, uriPool := r.1 }
       | none => { s with uriPool := r.1 })
  | .addGlobalPrefix _ _ => s

def WFScan.run (s : WFScan) : List Op → WFScan
  | [] => s
  | o :: os => (s.step o).run os

def WFScan.decode (s : WFScan) (r : Nat × Bool) : Option String :=
  if r.2 then none else if r.1 = s.fEmptyNamespaceId then none else valueForId s.uriPool r.1

inductive MapModes where
  | attribute | element
deriving DecidableEq, Repr

/-- `XMLScanner::resolvePrefix(prefix, mode)`; returns `(uriId, an UnknownPrefix error was emitted)`.
    DEFECT in /repo (reported, fixes/resolvePrefix-xml11-attr.diff): the C++ applies the XML 1.1 "prefix was
    un-declared" test only when `mode == Mode_Element`, so `p:a="…"` with `xmlns:p=""` in scope is accepted.
    The model is the code after the minimal fix (the test applies to both modes). -/
def Scan.resolvePrefix (s : Scan) (pre : String) (mode : MapModes) : Nat × Bool :=
  if pre = "" ∧ mode = .attribute then (s.fEmptyNamespaceId, false)
  else if pre ≠ "" ∧ pre = xmlnsString then (s.fXMLNSNamespaceId, false)
  else if pre ≠ "" ∧ pre = xmlString then (s.fXMLNamespaceId, false)
  else
    let r := mapPrefixToURI s.es pre
    let err1 := r.2
    let err2 := pre ≠ "" ∧ s.xml11 ∧ r.1 = s.es.fEmptyNamespaceId
    (r.1, err1 || decide err2)

/-- a raw attribute of a start tag as the scanner sees it: the QName split at the colon, and the value -/
structure RawAttr where
  pre : String
  loc : String
  value : String
deriving Repr, Inhabited

def RawAttr.isNSDecl (a : RawAttr) : Bool := (a.pre = xmlnsString) || (a.pre = "" && a.loc = xmlnsString)

/-- `scanRawAttrListforNameSpaces`: first pass over the raw attribute list, every `xmlns`/`xmlns:*` goes to
    `updateNSMap` (→ `addPrefix`) -/
def Scan.scanRawAttrListforNameSpaces (s : Scan) : List RawAttr → Scan
  | [] => s
  | a :: r =>
    if a.isNSDecl then
      (s.step (.addPrefix (if a.pre = "" then "" else a.loc) a.value)).scanRawAttrListforNameSpaces r
    else s.scanRawAttrListforNameSpaces r

/-- start of `scanStartTagNS`: push a level, collect all declarations, *then* resolve names -/
def Scan.startTag (s : Scan) (attrs : List RawAttr) : Scan :=
  (s.step .addLevel).scanRawAttrListforNameSpaces attrs

end XV.Model.ElemStack
