/-
C20 — the XInclude processor AS THE PINNED CODE BEHAVES, where that differs from XV.Model.XInclude (which states what the
property demands).  Used only by the driver, to attribute a disagreement between implementation and model to a recorded
finding exactly (implementation = this model with the quirk switched on) instead of guessing from the input's shape.
No theorem is about this file.

Quirks (each switchable, so that the check keeps working when one of them is repaired in /repo):
* `eagerRoot`   AbstractDOMParser::endElement calls parseDOMNodeDoingXInclude on every xi:include (and stray xi:fallback) of
                the ROOT document when its end tag is scanned, i.e. bottom-up with a fresh history each time: includes inside
                an xi:fallback are expanded (and their errors reported) whether or not the fallback is used, an xi:include
                child of an xi:include has been replaced before its parent is looked at, and what a failing include leaves
                behind is processed again by the enclosing one.
* `ownBaseBug`  doXIncludeXMLFileDOM, included document element with an xml:base of its own:
                `xil(own).prependPath(getBaseAttrValue(includeNode))` (only if the include has an xml:base; else unchanged)
                instead of `prependPath(relativeHref)`.
* `rawHistory`  the history stack and the self-inclusion test compare `hrefLoc` = directory of the include's base URI ++
                href (after removeDotDotSlash on the href alone): not dot-segment-normalised, so `d1/../a.xml` is not
                recognised as `a.xml` until it comes round again in the same spelling.
Definitions only; no Mathlib.
-/
import XV.Model.XInclude

namespace XV.Model.XIncludeAsIs
open XV.Spec.XInclude XV.Model.XInclude
open XV.Gen.XIncludeErrs

structure Quirks where
  eagerRoot : Bool
  ownBaseBug : Bool
  rawHistory : Bool
  deriving Repr, Inhabited

/-- the two attribute values a fix-up can write: for a node without / with an xml:base of its own -/
structure Pre where
  noOwn : Base
  own : Base
  deriving Inhabited

def Pre.none : Pre := ⟨.inherit, .inherit⟩

def applyPre2 (pre : Pre) (b : Base) : Base :=
  match b with
  | .inherit => applyPre pre.noOwn b
  | _ => applyPre pre.own b

/-- XMLPlatformUtils::removeDotDotSlash on a relative href: `<seg>/..` is removed only when a `/` precedes `<seg>` -/
def rddsStep : List Seg → List Seg → List Seg        -- done (reversed), todo
  | acc, [] => acc.reverse
  | [], s :: rest => rddsStep [s] rest
  | a :: acc, s :: ".." :: rest =>
    if s ≠ ".." then rddsStep (a :: acc) rest else rddsStep (s :: a :: acc) (".." :: rest)
  | a :: acc, s :: rest => rddsStep (s :: a :: acc) rest

def rdds (href : Ref) : Ref := rddsStep [] href

/-- the string the history stack holds -/
def hrefLocOf (q : Quirks) (includeBase : URI) (href : Ref) : List Seg :=
  if q.rawHistory then (if href = [] then includeBase else dir includeBase ++ rdds href) else resolve includeBase href

/-- the directories that exist: every proper prefix of a file's path -/
def dirExists (fs : FS) (d : List Seg) : Bool := fs.any fun (u, _) => d.isPrefixOf (dir u)

/-- opening the un-normalised path the way the operating system does: `..` is followed through directories that
    must exist (`d1/d1/d1/../../x.xml` fails when there is no `d1/d1/d1`), unlike RFC 2396 dot-segment removal -/
def osWalk (fs : FS) : List Seg → List Seg → Option (List Seg)       -- stack (reversed), todo
  | stk, [] => some stk.reverse
  | stk, [s] => if s = ".." ∨ s = "." then none else some (s :: stk).reverse
  | stk, s :: rest =>
    if s = ".." then osWalk fs stk.tail rest
    else if s = "." then osWalk fs stk rest
    else if dirExists fs (s :: stk).reverse then osWalk fs (s :: stk) rest else none

def osTarget (q : Quirks) (fs : FS) (loc : List Seg) : Option URI :=
  if q.rawHistory then osWalk fs [] loc else some (normalize loc)

abbrev RecQ := List (List Seg) → URI → Pre → List Node → Res

mutual
def procNodeQ (q : Quirks) (fs : FS) (root : URI) (rec : RecQ) (h : List (List Seg)) (pb : URI) (pre : Pre) : Node → Res
  | .elem n a b kids =>
      let eb := resolveBase pb (applyPre2 pre b)
      let r := procListQ q fs root rec h eb Pre.none kids
      ⟨[.elem n a (.abs eb) r.nodes], r.errs⟩
  | .leaf k t cs => ⟨[.leaf k t cs], []⟩
  | .fallback b kids => ⟨[annotate pb (.fallback (applyPre2 pre b) kids)], [XIncludeOrphanFallback]⟩
  | .bad k a b kids => ⟨[annotate pb (.bad k a (applyPre2 pre b) kids)], [badCode k]⟩
  | .incl href parse enc ib hasFb fb =>
      let ib' := applyPre2 pre ib
      let includeBase := resolveBase pb ib'
      let loc := hrefLocOf q includeBase href
      let target := osTarget q fs loc
      let failed (errs0 : List Nat) : Res :=
        if hasFb then
          let r := procListQ q fs root rec h pb ⟨ib', ib'⟩ fb
          ⟨r.nodes, errs0 ++ [XIncludeIncludeFailedResourceError] ++ r.errs⟩
        else
          ⟨[annotate pb (.incl href parse enc ib' hasFb fb)],
           errs0 ++ [XIncludeIncludeFailedResourceError, XIncludeIncludeFailedNoFallback]⟩
      match parse with
      | .text =>
          match (if encSupported enc then target.bind fs.chars else none) with
          | some cs => ⟨[.leaf .text "" cs], []⟩
          | none => failed [XIncludeCannotOpenFile]
      | _ =>
          if loc ∈ h then failed [XIncludeCircularInclusionLoop]
          else if loc = root then failed [XIncludeCircularInclusionDocIncludesSelf]
          else match target.bind fs.doc with
            | none => failed []
            | some d =>
                -- "if the paths differ we need to add a base attribute": compares the include's OWN base URI (not the
                -- base of the place the content goes to) with the included document's URI; equal only when a document
                -- includes itself and the raw history let that through
                if includeBase = loc then rec (loc :: h) pb Pre.none d
                else
                  let rel := inclPre ib' href
                  let own := if q.ownBaseBug then ib' else rel
                  rec (loc :: h) pb ⟨rel, own⟩ d
def procListQ (q : Quirks) (fs : FS) (root : URI) (rec : RecQ) (h : List (List Seg)) (pb : URI) (pre : Pre) : List Node → Res
  | [] => ⟨[], []⟩
  | n :: ns =>
      let a := procNodeQ q fs root rec h pb pre n
      let b := procListQ q fs root rec h pb pre ns
      ⟨a.nodes ++ b.nodes, a.errs ++ b.errs⟩
end

def procFuelQ (q : Quirks) (fs : FS) (root : URI) : Nat → RecQ
  | 0 => fun _ _ _ _ => ⟨[], [outOfFuel]⟩
  | n + 1 => fun h pb pre ns => procListQ q fs root (procFuelQ q fs root n) h pb pre ns

/-- the lazy processor started on one node of the root document (fresh XIncludeUtils: empty history).
    Raw spellings can repeat a file, so the budget is larger than in the normalised model. -/
def lazyAt (q : Quirks) (fs : FS) (root : URI) (pb : URI) (n : Node) : Res :=
  procFuelQ q fs root (2 * budget fs + 2) [] pb Pre.none [n]

def isIncludeLike : Node → Bool
  | .incl .. => true
  | .bad .. => true
  | _ => false

def hrefAttr (attrs : List (String × String)) : Option Ref :=
  (attrs.lookup "href").map (·.splitOn "/")

/-- after its children have been expanded bottom-up, an `xi:include` that had an xi:include child may have none left:
    doDOMNodeXInclude then sees an ordinary include (children other than one xi:fallback are ignored) -/
def reclassify (n : Node) : Node :=
  match n with
  | .bad .disallowedChild attrs b kids =>
    let fbs := kids.filterMap fun k => match k with | .fallback _ ks => some ks | _ => none
    if kids.any isIncludeLike then n
    else match hrefAttr attrs, fbs with
      | some href, [] => .incl href .dflt none b false []
      | some href, [fb] => .incl href .dflt none b true fb
      | _, _ => n
  | _ => n

mutual
/-- AbstractDOMParser::endElement order on the root document.  `inIncl`: the parent is an XInclude-namespace element (xi:include or xi:fallback). -/
partial def eagerNode (q : Quirks) (fs : FS) (root : URI) (pb : URI) (inIncl : Bool) : Node → Res
  | .elem n a b kids =>
      let eb := resolveBase pb b
      let r := eagerList q fs root eb false kids
      ⟨[.elem n a (.abs eb) r.nodes], r.errs⟩
  | .leaf k t cs => ⟨[.leaf k t cs], []⟩
  | .incl href parse enc ib hasFb fb =>
      -- the children of the xi:fallback element first
      let r := eagerList q fs root (resolveBase pb ib) true fb
      let r2 := lazyAt q fs root pb (.incl href parse enc ib hasFb r.nodes)
      ⟨r2.nodes, r.errs ++ r2.errs⟩
  | .bad k a b kids =>
      let r := eagerList q fs root (resolveBase pb b) true kids
      let r2 := lazyAt q fs root pb (reclassify (.bad k a b r.nodes))
      ⟨r2.nodes, r.errs ++ r2.errs⟩
  | .fallback b kids =>
      let r := eagerList q fs root (resolveBase pb b) true kids
      if inIncl then ⟨[.fallback b r.nodes], r.errs⟩
      else
        let r2 := lazyAt q fs root pb (.fallback b r.nodes)
        ⟨r2.nodes, r.errs ++ r2.errs⟩
partial def eagerList (q : Quirks) (fs : FS) (root : URI) (pb : URI) (inIncl : Bool) : List Node → Res
  | [] => ⟨[], []⟩
  | n :: ns =>
      let a := eagerNode q fs root pb inIncl n
      let b := eagerList q fs root pb inIncl ns
      ⟨a.nodes ++ b.nodes, a.errs ++ b.errs⟩
end

def processQ (q : Quirks) (fs : FS) (root : URI) : Res :=
  match fs.doc root with
  | some d =>
      if q.eagerRoot then eagerList q fs root root false d
      else procFuelQ q fs root (2 * budget fs + 2) [] root Pre.none d
  | none => ⟨[], []⟩

end XV.Model.XIncludeAsIs
