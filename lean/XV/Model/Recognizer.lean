/- Model of framework/XMLRecognizer.cpp `basicEncodingProbe`, prefixes regenerated from the source. -/
import XV.Gen.Recognizer
namespace XV.Model.Recognizer
open XV.Gen.Recognizer

inductive Enc | EBCDIC | UCS_4B | UCS_4L | US_ASCII | UTF_8 | UTF_16B | UTF_16L | XERCES_XMLCH
  deriving DecidableEq, Repr

def Enc.name : Enc → String
  | .EBCDIC => "EBCDIC" | .UCS_4B => "UCS_4B" | .UCS_4L => "UCS_4L" | .US_ASCII => "US_ASCII"
  | .UTF_8 => "UTF_8" | .UTF_16B => "UTF_16B" | .UTF_16L => "UTF_16L" | .XERCES_XMLCH => "XERCES_XMLCH"

/-- `rawByteCount >= len && !memcmp(raw, pre, len)` -/
def hasPrefix (pre raw : List Nat) : Bool := pre.isPrefixOf raw

def b (raw : List Nat) (i : Nat) : Nat := raw.getD i 0

def basicEncodingProbe (raw : List Nat) : Enc :=
  let n := raw.length
  if hasPrefix fgASCIIPre raw then .UTF_8
  else if n < 2 then .UTF_8
  else if n < 4 then
    if b raw 0 = 0xFE ∧ b raw 1 = 0xFF then .UTF_16B
    else if b raw 0 = 0xFF ∧ b raw 1 = 0xFE then .UTF_16L
    else .UTF_8
  else if b raw 0 = 0x00 ∧ b raw 1 = 0x00 ∧ b raw 2 = 0xFE ∧ b raw 3 = 0xFF then .UCS_4B
  else if b raw 0 = 0xFF ∧ b raw 1 = 0xFE ∧ b raw 2 = 0x00 ∧ b raw 3 = 0x00 then .UCS_4L
  else if b raw 0 = 0xFE ∧ b raw 1 = 0xFF then .UTF_16B
  else if b raw 0 = 0xFF ∧ b raw 1 = 0xFE then .UTF_16L
  else if (b raw 0 = 0x00 ∨ b raw 0 = 0x3C) ∧ hasPrefix fgUCS4BPre raw then .UCS_4B
  else if (b raw 0 = 0x00 ∨ b raw 0 = 0x3C) ∧ hasPrefix fgUCS4LPre raw then .UCS_4L
  else if (b raw 0 = 0x00 ∨ b raw 0 = 0x3C) ∧ hasPrefix fgUTF16BPre raw then .UTF_16B
  else if (b raw 0 = 0x00 ∨ b raw 0 = 0x3C) ∧ hasPrefix fgUTF16LPre raw then .UTF_16L
  else if n > fgEBCDICPre.length ∧ hasPrefix fgEBCDICPre raw then .EBCDIC
  else .UTF_8

end XV.Model.Recognizer
