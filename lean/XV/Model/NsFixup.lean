/-
Code-shaped model of the namespace fix-up in DOMLSSerializerImpl::processNode (ELEMENT_NODE case) and of
isNamespaceBindingActive, for trees built with createElementNS / setAttributeNS that carry no explicit xmlns
attributes and whose elements all have a namespace (a null namespace goes through
isDefaultNamespacePrefixDeclared and the stored-null quirk recorded as known finding
nsfixup-default-namespace-undeclaration-lost; not modelled).  fNamespaceStack is a list, innermost scope first.
No Mathlib.
-/
import XV.Spec.Namespaces
namespace XV.Model.NsFixup
open XV.Spec.Namespaces

/-- `RefHashTableOf::put`: a second put of the same key replaces the value -/
def scopePut (s : Scope) (p u : Name) : Scope :=
  match s with
  | [] => [(p, u)]
  | (q, v) :: t => if q = p then (q, u) :: t else (q, v) :: scopePut t p u

/-- `for (i = size; i > 0; i--) { thisUri = map(i-1).get(prefix); if (thisUri) return equals(thisUri, uri); } return false;` -/
def isNamespaceBindingActive : List Scope → Name → Name → Bool
  | [], _, _ => false
  | s :: rest, p, u => match scopeGet s p with
    | some t => t == u
    | none => isNamespaceBindingActive rest p u

/-- one use of a prefix on an element: its own (prefix, namespace) first, then those of its prefixed attributes
in DOMAttrMapImpl order -/
abbrev Use := Name × Name

structure St where
  scope : Scope          -- namespaceMap of this element (empty = not created)
  emitted : List Use     -- the xmlns attributes written, in order

/-- `if (!isNamespaceBindingActive(prefix, uri)) { namespaceMap->put(prefix, uri); write xmlns[:prefix]="uri" }` -/
def step (stack : List Scope) (st : St) (x : Use) : St :=
  if isNamespaceBindingActive (st.scope :: stack) x.1 x.2 then st
  else { scope := scopePut st.scope x.1 x.2, emitted := st.emitted ++ [x] }

def fixup (stack : List Scope) (uses : List Use) : St := uses.foldl (step stack) ⟨[], []⟩

/-! ### whole trees (executable; used by the driver) -/
structure Attr where
  pfx : Name
  uri : Name
  qname : Name
  deriving Repr

inductive Elem
  | mk (pfx uri : Name) (attrs : List Attr) (kids : List Elem)
  deriving Repr

/-- attributes in the order of DOMAttrMapImpl (sorted by nodeName); only prefixed ones take part in the fix-up -/
def usesOf (pfx uri : Name) (attrs : List Attr) : List Use :=
  (pfx, uri) :: (attrs.filter (fun a => !a.pfx.isEmpty)).map (fun a => (a.pfx, a.uri))

/-- the declarations written on every element, in document order -/
def declsTree : Nat → List Scope → Elem → List (List Use)
  | 0, _, _ => []
  | f + 1, stack, .mk p u attrs kids =>
    let st := fixup stack (usesOf p u attrs)
    st.emitted :: kids.flatMap (declsTree f (st.scope :: stack))

end XV.Model.NsFixup
