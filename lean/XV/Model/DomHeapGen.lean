/- C18 — the arena and lifecycle models instantiated with what the translator read off the sources. No Mathlib. -/
import XV.Model.Arena
import XV.Model.Lifecycle
import XV.Gen.DomHeap
namespace XV.Model.DomHeapGen
open XV.Gen.DomHeap

def genConsts : XV.Model.Arena.Consts := ⟨alignment, sizeOfHeader, growFactor, recheckFit⟩
def genParams : XV.Model.Arena.Params := ⟨kInitialHeapAllocSize, kMaxHeapAllocSize, kMaxSubAllocationSize⟩
def genDefaults : XV.Model.Lifecycle.Heap := ⟨kInitialHeapAllocSize, kMaxHeapAllocSize, kMaxSubAllocationSize⟩
def genCfg : XV.Model.Lifecycle.Cfg := ⟨longMax, if termResetsHeap then some genDefaults else none⟩

end XV.Model.DomHeapGen
