/-
C17 — the model's table of guarded resources: which shared resource is accessed in which function and which
mutex the code protects it with.  Hand-written (this is the model's claim); tied to the current sources by
XV.Props.C17.all_guarded_resources_have_site / all_markers_guarded over the generated XV.Gen.LockSites.
-/
import XV.Gen.LockSites
namespace XV.Model.LockTable

structure Guarded where
  resource : String
  file : String
  func : String
  mutex : String
  deriving Repr, DecidableEq

def dt := "dom/impl/DOMDocumentTypeImpl.cpp"
def reg := "dom/impl/DOMImplementationRegistry.cpp"
def ssp := "util/SynchronizedStringPool.cpp"
def icu := "util/Transcoders/ICU/ICUTransService.cpp"
def rtm := "util/regx/RangeTokenMap.cpp"

def guardTable : List Guarded := [
  -- heap of the shared owner-less document `sDocument`
  ⟨"DOMDocumentTypeImpl.sDocument", dt, "DOMDocumentTypeImpl::DOMDocumentTypeImpl", "sDocumentMutex"⟩,
  ⟨"DOMDocumentTypeImpl.sDocument", dt, "DOMDocumentTypeImpl::cloneNode", "sDocumentMutex"⟩,
  ⟨"DOMDocumentTypeImpl.sDocument", dt, "DOMDocumentTypeImpl::setPublicId", "sDocumentMutex"⟩,
  ⟨"DOMDocumentTypeImpl.sDocument", dt, "DOMDocumentTypeImpl::setSystemId", "sDocumentMutex"⟩,
  ⟨"DOMDocumentTypeImpl.sDocument", dt, "DOMDocumentTypeImpl::setInternalSubset", "sDocumentMutex"⟩,
  -- registry of DOMImplementationSource objects, default source added on first use
  ⟨"DOMImplementationRegistry.sources", reg, "DOMImplementationRegistry::getDOMImplementation", "gDOMImplSrcVectorMutex"⟩,
  ⟨"DOMImplementationRegistry.defaultSource", reg, "DOMImplementationRegistry::getDOMImplementation", "gDOMImplSrcVectorMutex"⟩,
  ⟨"DOMImplementationRegistry.sources", reg, "DOMImplementationRegistry::getDOMImplementationList", "gDOMImplSrcVectorMutex"⟩,
  ⟨"DOMImplementationRegistry.defaultSource", reg, "DOMImplementationRegistry::getDOMImplementationList", "gDOMImplSrcVectorMutex"⟩,
  ⟨"DOMImplementationRegistry.sources", reg, "DOMImplementationRegistry::addSource", "gDOMImplSrcVectorMutex"⟩,
  -- scanner id counter
  ⟨"XMLScanner.gScannerId", "internal/XMLScanner.cpp", "XMLScanner::commonInit", "sScannerMutex"⟩,
  -- overflow pool of a synchronized string pool
  ⟨"SynchronizedStringPool.overflow", ssp, "XMLSynchronizedStringPool::addOrFind", "fMutex"⟩,
  ⟨"SynchronizedStringPool.overflow", ssp, "XMLSynchronizedStringPool::exists", "fMutex"⟩,
  ⟨"SynchronizedStringPool.overflow", ssp, "XMLSynchronizedStringPool::getId", "fMutex"⟩,
  ⟨"SynchronizedStringPool.overflow", ssp, "XMLSynchronizedStringPool::getValueForId", "fMutex"⟩,
  ⟨"SynchronizedStringPool.overflow", ssp, "XMLSynchronizedStringPool::getStringCount", "fMutex"⟩,
  -- the one converter of the local-code-page transcoder
  ⟨"ICULCPTranscoder.fConverter", icu, "ICULCPTranscoder::calcRequiredSize", "fMutex"⟩,
  ⟨"ICULCPTranscoder.fConverter", icu, "ICULCPTranscoder::transcode", "fMutex"⟩,
  -- regular-expression category tokens, complements created on first use
  ⟨"RangeTokenMap.registry", rtm, "RangeTokenMap::getRange", "fMutex"⟩,
  ⟨"RangeTokenMap.complement", rtm, "RangeTokenMap::getRange", "fMutex"⟩]

/-- How many `XMLMutexLock` sites on which mutex the model expects in the functions of a given name (overloads
counted together), and how many access markers of the resource.  A lock removed together with its marker leaves
every remaining marker guarded, but it lowers these counts: XV.Props.C17.all_guarded_site_counts.  Further locks
or markers may be added freely (the obligation is `≥`). -/
structure SiteCount where
  resource : String
  file : String
  func : String
  mutex : String
  sites : Nat
  deriving Repr, DecidableEq

def siteCounts : List SiteCount := [
  ⟨"DOMDocumentTypeImpl.sDocument", dt, "DOMDocumentTypeImpl::DOMDocumentTypeImpl", "sDocumentMutex", 2⟩,
  ⟨"DOMDocumentTypeImpl.sDocument", dt, "DOMDocumentTypeImpl::cloneNode", "sDocumentMutex", 1⟩,
  ⟨"DOMDocumentTypeImpl.sDocument", dt, "DOMDocumentTypeImpl::setPublicId", "sDocumentMutex", 1⟩,
  ⟨"DOMDocumentTypeImpl.sDocument", dt, "DOMDocumentTypeImpl::setSystemId", "sDocumentMutex", 1⟩,
  ⟨"DOMDocumentTypeImpl.sDocument", dt, "DOMDocumentTypeImpl::setInternalSubset", "sDocumentMutex", 1⟩,
  ⟨"DOMImplementationRegistry.sources", reg, "DOMImplementationRegistry::getDOMImplementation", "gDOMImplSrcVectorMutex", 1⟩,
  ⟨"DOMImplementationRegistry.sources", reg, "DOMImplementationRegistry::getDOMImplementationList", "gDOMImplSrcVectorMutex", 1⟩,
  ⟨"DOMImplementationRegistry.sources", reg, "DOMImplementationRegistry::addSource", "gDOMImplSrcVectorMutex", 1⟩,
  ⟨"XMLScanner.gScannerId", "internal/XMLScanner.cpp", "XMLScanner::commonInit", "sScannerMutex", 1⟩,
  ⟨"SynchronizedStringPool.overflow", ssp, "XMLSynchronizedStringPool::addOrFind", "fMutex", 1⟩,
  ⟨"SynchronizedStringPool.overflow", ssp, "XMLSynchronizedStringPool::exists", "fMutex", 2⟩,
  ⟨"SynchronizedStringPool.overflow", ssp, "XMLSynchronizedStringPool::getId", "fMutex", 1⟩,
  ⟨"SynchronizedStringPool.overflow", ssp, "XMLSynchronizedStringPool::getValueForId", "fMutex", 1⟩,
  ⟨"SynchronizedStringPool.overflow", ssp, "XMLSynchronizedStringPool::getStringCount", "fMutex", 1⟩,
  -- calcRequiredSize: XMLCh (two configuration branches) and char overloads; transcode: XMLCh -> char twice
  -- (first pass and the retry after a buffer overflow), char -> XMLCh, and the two bounded overloads
  ⟨"ICULCPTranscoder.fConverter", icu, "ICULCPTranscoder::calcRequiredSize", "fMutex", 3⟩,
  ⟨"ICULCPTranscoder.fConverter", icu, "ICULCPTranscoder::transcode", "fMutex", 5⟩,
  ⟨"RangeTokenMap.registry", rtm, "RangeTokenMap::getRange", "fMutex", 1⟩]

end XV.Model.LockTable
