/-
C17 — the model's table of guarded resources: which shared resource is accessed in which function and which
mutex the code protects it with.  Hand-written (this is the model's claim); tied to the current sources by
XV.Props.C17.all_guarded_resources_have_site / all_markers_guarded over the generated XV.Gen.LockSites.
-/
import XV.Gen.LockSites
namespace XV.Model.LockTable

structure Guarded where
  resource : String
  file : String
  func : String
  mutex : String
  deriving Repr, DecidableEq

def dt := "dom/impl/DOMDocumentTypeImpl.cpp"
def reg := "dom/impl/DOMImplementationRegistry.cpp"
def ssp := "util/SynchronizedStringPool.cpp"
def icu := "util/Transcoders/ICU/ICUTransService.cpp"
def rtm := "util/regx/RangeTokenMap.cpp"

def guardTable : List Guarded := [
  -- heap of the shared owner-less document `sDocument`
  ⟨"DOMDocumentTypeImpl.sDocument", dt, "DOMDocumentTypeImpl::DOMDocumentTypeImpl", "sDocumentMutex"⟩,
  ⟨"DOMDocumentTypeImpl.sDocument", dt, "DOMDocumentTypeImpl::cloneNode", "sDocumentMutex"⟩,
  ⟨"DOMDocumentTypeImpl.sDocument", dt, "DOMDocumentTypeImpl::setPublicId", "sDocumentMutex"⟩,
  ⟨"DOMDocumentTypeImpl.sDocument", dt, "DOMDocumentTypeImpl::setSystemId", "sDocumentMutex"⟩,
  ⟨"DOMDocumentTypeImpl.sDocument", dt, "DOMDocumentTypeImpl::setInternalSubset", "sDocumentMutex"⟩,
  -- registry of DOMImplementationSource objects, default source added on first use
  ⟨"DOMImplementationRegistry.sources", reg, "DOMImplementationRegistry::getDOMImplementation", "gDOMImplSrcVectorMutex"⟩,
  ⟨"DOMImplementationRegistry.defaultSource", reg, "DOMImplementationRegistry::getDOMImplementation", "gDOMImplSrcVectorMutex"⟩,
  ⟨"DOMImplementationRegistry.sources", reg, "DOMImplementationRegistry::getDOMImplementationList", "gDOMImplSrcVectorMutex"⟩,
  ⟨"DOMImplementationRegistry.defaultSource", reg, "DOMImplementationRegistry::getDOMImplementationList", "gDOMImplSrcVectorMutex"⟩,
  ⟨"DOMImplementationRegistry.sources", reg, "DOMImplementationRegistry::addSource", "gDOMImplSrcVectorMutex"⟩,
  -- scanner id counter
  ⟨"XMLScanner.gScannerId", "internal/XMLScanner.cpp", "XMLScanner::commonInit", "sScannerMutex"⟩,
  -- overflow pool of a synchronized string pool
  ⟨"SynchronizedStringPool.overflow", ssp, "XMLSynchronizedStringPool::addOrFind", "fMutex"⟩,
  ⟨"SynchronizedStringPool.overflow", ssp, "XMLSynchronizedStringPool::exists", "fMutex"⟩,
  ⟨"SynchronizedStringPool.overflow", ssp, "XMLSynchronizedStringPool::getId", "fMutex"⟩,
  ⟨"SynchronizedStringPool.overflow", ssp, "XMLSynchronizedStringPool::getValueForId", "fMutex"⟩,
  ⟨"SynchronizedStringPool.overflow", ssp, "XMLSynchronizedStringPool::getStringCount", "fMutex"⟩,
  -- the one converter of the local-code-page transcoder
  ⟨"ICULCPTranscoder.fConverter", icu, "ICULCPTranscoder::calcRequiredSize", "fMutex"⟩,
  ⟨"ICULCPTranscoder.fConverter", icu, "ICULCPTranscoder::transcode", "fMutex"⟩,
  -- regular-expression category tokens, complements created on first use
  ⟨"RangeTokenMap.registry", rtm, "RangeTokenMap::getRange", "fMutex"⟩,
  ⟨"RangeTokenMap.complement", rtm, "RangeTokenMap::getRange", "fMutex"⟩]

end XV.Model.LockTable
