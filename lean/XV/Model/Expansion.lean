/-!
Abstract entity-expansion machine (C01 e, shared idea with C19): the scanner reads from a work list of
tokens; a character is delivered, a reference replaces itself by the entity's replacement text and counts
one expansion.  With a SecurityManager limit `L` the `(L+1)`-th expansion raises the fatal
`EntityExpansionLimitExceeded` (`++fEntityExpansionCount > fEntityExpansionLimit`) and, with
exit-on-first-fatal, the parse stops.  The table may be recursive: the bound does not need the recursion check.
-/
namespace XV.Model.Expansion

inductive Tok where
  | ch
  | ref (n : Nat)
  deriving Repr, DecidableEq

inductive Outcome where
  | finished
  | limitExceeded
  | outOfFuel
  deriving Repr, DecidableEq

structure Res where
  outcome : Outcome
  delivered : Nat      -- characters handed to the document handler
  steps : Nat          -- tokens taken from the work list
  deriving Repr, DecidableEq

/-- `limit = none`: no SecurityManager -/
def run (table : Nat → List Tok) (limit : Option Nat) : Nat → List Tok → Nat → Nat → Nat → Res
  | 0, _, _, delivered, steps => ⟨.outOfFuel, delivered, steps⟩
  | _ + 1, [], _, delivered, steps => ⟨.finished, delivered, steps⟩
  | fuel + 1, .ch :: q, count, delivered, steps => run table limit fuel q count (delivered + 1) (steps + 1)
  | fuel + 1, .ref n :: q, count, delivered, steps =>
    match limit with
    | some l =>
      if count + 1 > l then ⟨.limitExceeded, delivered, steps + 1⟩
      else run table limit fuel (table n ++ q) (count + 1) delivered (steps + 1)
    | none => run table limit fuel (table n ++ q) (count + 1) delivered (steps + 1)

end XV.Model.Expansion
