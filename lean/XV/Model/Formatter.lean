/-
Code-shaped model of framework/XMLFormatter.cpp: inEscapeList, formatBuf, handleUnEscapedChars,
writeCharRef (both overloads), getCharRef, specialFormat — with the escape table, the standard
references, the XML 1.1 character classes and kTmpBufSize taken from the GENERATED `XV.Gen.Escapes`.

Strings are lists of UTF-16 code units.  The transcoder behind the formatter is abstracted at the
unit level (`Coder`): `rep` is `XMLTranscoder::canTranscodeTo`, and `xcode` is `transcodeTo` seen
through a decoder of the target encoding (what a reader of the bytes gets back, as UTF-16 units).
The byte level of the intrinsic transcoders is C05's subject (XV.Model.Utf8 / XV.Model.ByteCodec);
the instances below take `rep` from those models.  No Mathlib.
-/
import XV.Gen.Escapes
import XV.Model.ByteCodec
namespace XV.Model.Formatter
open XV.Gen.Escapes

inductive EscapeFlags | NoEscapes | StdEscapes | AttrEscapes | CharEscapes
  deriving DecidableEq, Repr
inductive UnRepFlags | UnRep_Fail | UnRep_CharRef | UnRep_Replace
  deriving DecidableEq, Repr

/-- how a call ends other than by returning -/
inductive Stop
  | exc (name : String)   -- TranscodingException
  | hang                  -- `while (count)` in handleUnEscapedChars makes no progress for ever
  deriving DecidableEq, Repr

abbrev Out := Except Stop (List Nat)

instance : DecidableEq Out := fun a b =>
  match a, b with
  | .ok x, .ok y => if h : x = y then isTrue (by rw [h]) else isFalse (fun e => by cases e; exact h rfl)
  | .error x, .error y => if h : x = y then isTrue (by rw [h]) else isFalse (fun e => by cases e; exact h rfl)
  | .ok _, .error _ => isFalse (fun e => by cases e)
  | .error _, .ok _ => isFalse (fun e => by cases e)

def inRanges (rs : List (Nat × Nat)) (c : Nat) : Bool := rs.any (fun r => r.1 ≤ c && c ≤ r.2)

def isHigh (c : Nat) : Bool := 0xD800 ≤ c && c ≤ 0xDBFF
def isLow (c : Nat) : Bool := 0xDC00 ≤ c && c ≤ 0xDFFF

/-! ### the transcoder, at unit level -/

structure Coder where
  /-- `canTranscodeTo` on one XMLCh -/
  rep : Nat → Bool
  /-- what a decoder of the encoding reads back for a representable unit (the identity, except for the
  "best fit" entries of the XML256TableTranscoder to-tables) -/
  back : Nat → Nat
  /-- what the replacement byte of `UnRep_RepChar` decodes to -/
  repChar : Nat
  /-- `transcodeTo` recombines surrogate pairs (XMLUTF8Transcoder); otherwise unit by unit -/
  pairs : Bool

/-- a unit the transcoder takes and a decoder gives back unchanged -/
def Coder.ok (cd : Coder) (u : Nat) : Prop := cd.rep u = true ∧ cd.back u = u

/-- unit-by-unit `transcodeTo` (ISO-8859-1, US-ASCII, XML256TableTranscoder, UTF-16) -/
def xcodeUnits (cd : Coder) (throwOnUnrep : Bool) : List Nat → Except String (List Nat)
  | [] => .ok []
  | c :: t =>
    if cd.rep c then (xcodeUnits cd throwOnUnrep t).map (cd.back c :: ·)
    else if throwOnUnrep then .error "Trans_Unrepresentable"
    else (xcodeUnits cd throwOnUnrep t).map (cd.repChar :: ·)

/-- `((curVal - 0xD800) << 10) + ((*(srcPtr + 1) - 0xDC00) + 0x10000)` in 32 bits (XMLUTF8Transcoder) -/
def pairVal32 (c next : Nat) : Nat :=
  ((c - 0xD800) * 1024 + ((next + 4294967296 - 0xDC00) % 4294967296 + 0x10000)) % 4294967296

def scalarUnits (v : Nat) : List Nat :=
  if v < 0x10000 then [v] else [0xD800 + (v - 0x10000) / 1024, 0xDC00 + (v - 0x10000) % 1024]

/-- XMLUTF8Transcoder::transcodeTo at unit level: result units and the units NOT eaten
(a high surrogate that is the last unit of the source is left for "the next call") -/
def xcodePairs (throwOnUnrep : Bool) : List Nat → Except String (List Nat × List Nat)
  | [] => .ok ([], [])
  | [c] => if isHigh c then .ok ([], [c]) else .ok ([c], [])
  | c :: n :: rest' =>
    if isHigh c then
      let v := pairVal32 c n
      if v ≥ 0x110000 then
        if throwOnUnrep then .error "Trans_Unrepresentable"
        else (xcodePairs throwOnUnrep rest').map (fun p => (0x20 :: p.1, p.2))
      else (xcodePairs throwOnUnrep rest').map (fun p => (scalarUnits v ++ p.1, p.2))
    else (xcodePairs throwOnUnrep (n :: rest')).map (fun p => (c :: p.1, p.2))

/-- `handleUnEscapedChars`: `while (count) { transcodeTo(≤ kTmpBufSize units); write; count -= charsEaten }`.
Every call of transcodeTo eats at least one unit unless all that is left is one high surrogate; the
split into kTmpBufSize blocks is therefore not observable and the model transcodes the run at once. -/
def handleUnEscapedChars (cd : Coder) (unrep : UnRepFlags) (src : List Nat) : Out :=
  if src.isEmpty then .ok [] else
  let thr := unrep != .UnRep_Replace
  if cd.pairs then
    match xcodePairs thr src with
    | .error e => .error (.exc e)
    | .ok (out, rem) => if rem.isEmpty then .ok out else .error .hang
  else
    match xcodeUnits cd thr src with
    | .error e => .error (.exc e)
    | .ok out => .ok out

/-! ### escape table -/

def escRow : EscapeFlags → List Nat
  | .NoEscapes => escNoEscapes
  | .StdEscapes => escStdEscapes
  | .AttrEscapes => escAttrEscapes
  | .CharEscapes => escCharEscapes

/-- `while (*escList) { if (*escList++ == toCheck) return true; }` -/
def scanRow : List Nat → Nat → Bool
  | [], _ => false
  | e :: t, c => if e = 0 then false else if e = c then true else scanRow t c

structure Cfg where
  /-- fIsXML11 -/
  xml11 : Bool
  /-- the repaired `inEscapeList` (fixes/c12-xml11-eol.diff): NEL and LSEP are escaped under XML 1.1 -/
  eolFix : Bool := false
  deriving DecidableEq, Repr

def inEscapeList (cfg : Cfg) (esc : EscapeFlags) (c : Nat) : Bool :=
  if scanRow (escRow esc) c then true
  else if cfg.xml11 then
    if cfg.eolFix && (c == 0x85 || c == 0x2028) then true
    else inRanges control11 c && !inRanges whitespace11 c
  else false

/-! ### character references -/

def hexChar (d : Nat) : Nat := if d < 10 then 48 + d else 55 + d

/-- `XMLString::binToText(v, …, 16)` / `sizeToText`: upper-case hex, no leading zeros, "0" for 0.
16 digits of fuel cover every XMLSize_t. -/
def hexFuel : Nat → Nat → List Nat
  | 0, _ => []
  | f + 1, n => if n < 16 then [hexChar n] else hexFuel f (n / 16) ++ [hexChar (n % 16)]

def hexDigits (n : Nat) : List Nat := hexFuel 16 n

def charRefText (v : Nat) : List Nat := [38, 35, 120] ++ hexDigits v ++ [59]

/-- `writeCharRef`: `formatBuf(tmpBuf, len, NoEscapes, UnRep_Fail)` -/
def writeCharRef (cd : Coder) (v : Nat) : Out :=
  handleUnEscapedChars cd .UnRep_Fail (charRefText v)

/-- `getCharRef`: one `transcodeTo(stdRef, …, UnRep_Throw)`, cached -/
def getCharRef (cd : Coder) (stdRef : List Nat) : Out :=
  if cd.pairs then
    match xcodePairs true stdRef with
    | .error e => .error (.exc e)
    | .ok (out, _) => .ok out
  else
    match xcodeUnits cd true stdRef with
    | .error e => .error (.exc e)
    | .ok out => .ok out

/-- the `switch (*srcPtr)` of formatBuf -/
def escapeOne (cd : Coder) (c : Nat) : Out :=
  if c = 38 then getCharRef cd gAmpRef
  else if c = 39 then getCharRef cd gAposRef
  else if c = 34 then getCharRef cd gQuoteRef
  else if c = 62 then getCharRef cd gGTRef
  else if c = 60 then getCharRef cd gLTRef
  else writeCharRef cd c

def flushRun (cd : Coder) (unrep : UnRepFlags) (run : List Nat) : Out :=
  if run.isEmpty then .ok [] else handleUnEscapedChars cd unrep run

def seq3 (a b c : Out) : Out :=
  match a with
  | .error e => .error e
  | .ok x => match b with
    | .error e => .error e
    | .ok y => match c with
      | .error e => .error e
      | .ok z => .ok (x ++ y ++ z)

/-- the escaping loop of `formatBuf` (`run` = the units between srcPtr and tmpPtr) -/
def escLoop (cd : Coder) (cfg : Cfg) (esc : EscapeFlags) (unrep : UnRepFlags) : List Nat → List Nat → Out
  | [], run => flushRun cd unrep run
  | c :: t, run =>
    if inEscapeList cfg esc c then
      seq3 (flushRun cd unrep run) (escapeOne cd c) (escLoop cd cfg esc unrep t [])
    else escLoop cd cfg esc unrep t (run ++ [c])

/-- `formatBuf` for actualUnRep ≠ UnRep_CharRef -/
def formatPlain (cd : Coder) (cfg : Cfg) (esc : EscapeFlags) (unrep : UnRepFlags) (src : List Nat) : Out :=
  if esc = .NoEscapes then handleUnEscapedChars cd unrep src
  else escLoop cd cfg esc unrep src []

/-- `0x10000+((*srcPtr-0xD800)<<10)+*tmpPtr-0xDC00` as XMLSize_t (64 bit) -/
def pairRef (c next : Nat) : Nat :=
  (0x10000 + (c - 0xD800) * 1024 + next + 18446744073709551616 - 0xDC00) % 18446744073709551616

def flushPlain (cd : Coder) (cfg : Cfg) (esc : EscapeFlags) (run : List Nat) : Out :=
  if run.isEmpty then .ok [] else formatPlain cd cfg esc .UnRep_Fail run

/-- `specialFormat`.  `(c & 0xFC00) == 0xD800` is `isHigh c`.  The unit after the last one (read by the
C++ when the string ends in a high surrogate) is taken to be the terminating 0 of the string. -/
def specialLoop (cd : Coder) (cfg : Cfg) (esc : EscapeFlags) : List Nat → List Nat → Out
  | [], run => flushPlain cd cfg esc run
  | [c], run =>
    if cd.rep c then specialLoop cd cfg esc [] (run ++ [c])
    else if isHigh c then
      seq3 (flushPlain cd cfg esc run) (writeCharRef cd (pairRef c 0)) (.ok [])
    else seq3 (flushPlain cd cfg esc run) (writeCharRef cd c) (specialLoop cd cfg esc [] [])
  | c :: n :: t', run =>
    if cd.rep c then specialLoop cd cfg esc (n :: t') (run ++ [c])
    else if isHigh c then
      seq3 (flushPlain cd cfg esc run) (writeCharRef cd (pairRef c n)) (specialLoop cd cfg esc t' [])
    else seq3 (flushPlain cd cfg esc run) (writeCharRef cd c) (specialLoop cd cfg esc (n :: t') [])

def formatBuf (cd : Coder) (cfg : Cfg) (esc : EscapeFlags) (unrep : UnRepFlags) (src : List Nat) : Out :=
  if unrep = .UnRep_CharRef then specialLoop cd cfg esc src []
  else formatPlain cd cfg esc unrep src

/-! ### instances: `rep` of the intrinsic transcoders (C05 models) -/

def utf8Coder : Coder := ⟨fun c => c ≤ 0x10FFFF, id, 0x20, true⟩
def utf16Coder : Coder := ⟨fun _ => true, id, 0xFFFD, false⟩
def latin1Coder : Coder := ⟨fun c => c < 256, id, 0x1A, false⟩
def asciiCoder : Coder := ⟨fun c => c < 128, id, 0x1A, false⟩
/-- XML256TableTranscoder: `canTranscodeTo` = `xlatOneTo ≠ 0`; a decoder reads `fromTable[xlatOneTo c]` back -/
def tableCoder (t : XV.Gen.ByteTables.Table) : Coder :=
  ⟨fun c => XV.Model.ByteCodec.canTranscodeTo t c,
   fun c => t.fromTable.getD (XV.Model.ByteCodec.xlatOneTo t (c % 65536)) 0xFFFF,
   t.fromTable.getD 0x3F 0x3F, false⟩

def coderOf (enc : String) : Option Coder :=
  match enc with
  | "UTF-8" => some utf8Coder
  | "UTF-16" | "UTF-16LE" | "UTF-16BE" => some utf16Coder
  | "ISO-8859-1" => some latin1Coder
  | "US-ASCII" => some asciiCoder
  | "windows-1252" => some (tableCoder XV.Gen.ByteTables.tblWin1252)
  | "IBM037" => some (tableCoder XV.Gen.ByteTables.tblEbcdic037)
  | "IBM1047" => some (tableCoder XV.Gen.ByteTables.tblIbm1047)
  | "IBM1140" => some (tableCoder XV.Gen.ByteTables.tblIbm1140)
  | _ => none

end XV.Model.Formatter
