/-
Model of util/XMLBigDecimal.cpp (parseDecimal, toCompare/compareValues, getCanonicalRepresentation) and
util/XMLBigInteger.cpp (parseBigInteger, compareValues, getCanonicalRepresentation), written after the C++.
XMLCh strings are `List Char`; pointers into the NUL-terminated buffer are the remaining suffix.

`repaired = true` adds the one check the C++ lacks (defect F10: "." "+." "-." are accepted as 0):
after the sign, a remaining string that is exactly "." is rejected (XMLNUM_Inv_chars).
`repaired = false` is the code as it stands in the pinned tree.
-/
namespace XV.Model.Decimal

inductive Exc
  | emptyString      -- XMLExcepts::XMLNUM_emptyString
  | wsString         -- XMLNUM_WSString
  | invChars         -- XMLNUM_Inv_chars
  | twoManyDecPoint  -- XMLNUM_2ManyDecPoint
  deriving DecidableEq, Repr

def Exc.name : Exc → String
  | .emptyString => "XMLNUM_emptyString" | .wsString => "XMLNUM_WSString"
  | .invChars => "XMLNUM_Inv_chars" | .twoManyDecPoint => "XMLNUM_2ManyDecPoint"

/-- fSign, fIntVal, fTotalDigits, fScale -/
structure BigDecimal where
  sign : Int
  intVal : List Char
  totalDigits : Nat
  scale : Nat
  deriving DecidableEq, Repr

/-- `XMLChar1_0::isWhitespace` -/
def isWhitespace (c : Char) : Bool := c == ' ' || c == '\t' || c == '\n' || c == '\r'

/-- `[startPtr, endPtr)` after both white-space loops (`startPtr` already at a non-space) -/
def stripTrailingWs (s : List Char) : List Char := (s.reverse.dropWhile isWhitespace).reverse

/-- The `while (startPtr < endPtr)` scan loop of `parseDecimal`.
`acc` is retBuffer so far (reversed), `fd` = fractDigits, `td` = totalDigits. -/
def scan : List Char → Bool → Nat → List Char → Nat → Except Exc (Nat × List Char × Nat)
  | [], _, fd, acc, td => .ok (fd, acc, td)
  | c :: rest, dot, fd, acc, td =>
    if c == '.' then
      if !dot then scan rest true rest.length acc td      -- fractDigits = endPtr - startPtr - 1
      else .error .twoManyDecPoint
    else if c.toNat < '0'.toNat || c.toNat > '9'.toNat then .error .invChars
    else scan rest dot fd (c :: acc) (td + 1)

/-- `while ((fractDigits > 0) && (*(retPtr-1) == chDigit_0)) { retPtr--; fractDigits--; totalDigits--; }` -/
def stripTrail : Nat → List Char → Nat → Nat × List Char × Nat
  | fd + 1, c :: acc, td => if c == '0' then stripTrail fd acc (td - 1) else (fd + 1, c :: acc, td)
  | fd, acc, td => (fd, acc, td)

/-- `*startPtr == chDigit_0` -/
def isZeroCh (c : Char) : Bool := c == '0'

/-- sign handling: returns (sign, rest, a sign character was consumed) -/
def takeSign : List Char → Int × List Char × Bool
  | '-' :: r => (-1, r, true)
  | '+' :: r => (1, r, true)
  | s => (1, s, false)

/-- `parseDecimal` from the sign on; `body` = `[startPtr, endPtr)` -/
def parseBody (repaired : Bool) (body : List Char) : Except Exc BigDecimal :=
  match takeSign body with
  | (sign, b1, signSeen) =>
    if signSeen && b1.isEmpty then .error .invChars              -- `if (startPtr == endPtr) throw`
    else if repaired && b1 == ['.'] then .error .invChars         -- the missing check (fix)
    else
      let b2 := b1.dropWhile isZeroCh                           -- strip leading zeros
      if b2.isEmpty then .ok ⟨0, [], 0, 0⟩                         -- `if (startPtr >= endPtr) { sign = 0; return; }`
      else match scan b2 false 0 [] 0 with
        | .error e => .error e
        | .ok (fd, acc, td) =>
          match stripTrail fd acc td with
          | (fd', acc', td') =>
            .ok ⟨if td' == 0 then 0 else sign, acc'.reverse, td', fd'⟩

/-- `XMLBigDecimal::XMLBigDecimal(strValue)` / `parseDecimal(toParse, retBuffer, sign, totalDigits, fractDigits)` -/
def parseDecimalG (repaired : Bool) (s : List Char) : Except Exc BigDecimal :=
  if s.isEmpty then .error .emptyString
  else
    let s1 := s.dropWhile isWhitespace
    if s1.isEmpty then .error .wsString
    else parseBody repaired (stripTrailingWs s1)

/-- the parser with the minimal fix -/
def parseDecimal (s : List Char) : Except Exc BigDecimal := parseDecimalG true s
/-- the parser as it stands -/
def parseDecimalOrig (s : List Char) : Except Exc BigDecimal := parseDecimalG false s

/-- `XMLString::compareString` on two strings: < 0, 0, > 0 as -1, 0, 1 -/
def compareString : List Char → List Char → Int
  | [], [] => 0
  | [], _ :: _ => -1
  | _ :: _, [] => 1
  | c :: x, d :: y =>
    if c.toNat < d.toNat then -1
    else if d.toNat < c.toNat then 1
    else compareString x y

/-- `XMLBigDecimal::toCompare` -/
def toCompare (l r : BigDecimal) : Int :=
  if l.sign ≠ r.sign then (if l.sign > r.sign then 1 else -1)
  else if l.sign = 0 then 0
  else
    let lIntDigit := l.totalDigits - l.scale
    let rIntDigit := r.totalDigits - r.scale
    if lIntDigit > rIntDigit then 1 * l.sign
    else if lIntDigit < rIntDigit then -1 * l.sign
    else
      let res := compareString l.intVal r.intVal
      if res > 0 then 1 * l.sign
      else if res < 0 then -1 * l.sign
      else 0

/-- body of `XMLBigDecimal::getCanonicalRepresentation` after a successful parse -/
def canonOf (d : BigDecimal) : List Char :=
  if d.sign = 0 || d.totalDigits = 0 then ['0', '.', '0']
  else
    let pre : List Char := if d.sign = -1 then ['-'] else []
    if d.scale = d.totalDigits then pre ++ ['0', '.'] ++ d.intVal
    else if d.scale = 0 then pre ++ d.intVal ++ ['.', '0']
    else
      let intLen := d.totalDigits - d.scale
      pre ++ d.intVal.take intLen ++ ['.'] ++ (d.intVal.drop intLen).take d.scale

/-- `XMLBigDecimal::getCanonicalRepresentation(rawData)`; `none` = returns 0 -/
def canonicalG (repaired : Bool) (s : List Char) : Option (List Char) :=
  match parseDecimalG repaired s with
  | .ok d => some (canonOf d)
  | .error _ => none

def canonical (s : List Char) : Option (List Char) := canonicalG true s

/-! ### XMLBigInteger -/

/-- `parseBigInteger` from the sign on; `body` = `[startPtr, endPtr)` -/
def parseIntBody (body : List Char) : Except Exc (Int × List Char) :=
  match takeSign body with
  | (sign, b1, signSeen) =>
    if signSeen && b1.isEmpty then .error .invChars
    else
      let b2 := b1.dropWhile isZeroCh
      if b2.isEmpty then .ok (0, [])
      else if b2.all (fun c => !(c.toNat < '0'.toNat || c.toNat > '9'.toNat)) then .ok (sign, b2)
      else .error .invChars

/-- `XMLBigInteger::parseBigInteger`: (signValue, retBuffer) -/
def parseBigInteger (s : List Char) : Except Exc (Int × List Char) :=
  if s.isEmpty then .error .emptyString
  else
    let s1 := s.dropWhile isWhitespace
    if s1.isEmpty then .error .wsString
    else parseIntBody (stripTrailingWs s1)

/-- `XMLBigInteger::compareValues(lString, lSign, rString, rSign)` -/
def compareValuesInt (l r : Int × List Char) : Int :=
  if l.1 ≠ r.1 then (if l.1 > r.1 then 1 else -1)
  else if l.1 = 0 then 0
  else if l.2.length > r.2.length then (if l.1 > 0 then 1 else -1)
  else if l.2.length < r.2.length then (if l.1 > 0 then -1 else 1)
  else
    let retVal := compareString l.2 r.2
    if retVal > 0 then (if l.1 > 0 then 1 else -1)
    else if retVal < 0 then (if l.1 > 0 then -1 else 1)
    else 0

/-- `XMLBigInteger::getCanonicalRepresentation` -/
def canonicalInt (s : List Char) : Option (List Char) :=
  match parseBigInteger s with
  | .ok (sign, mag) =>
    if sign = 0 then some ['0']
    else if sign = -1 then some ('-' :: mag)
    else some mag
  | .error _ => none

end XV.Model.Decimal
