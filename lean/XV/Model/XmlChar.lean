/- Code-shaped accessors of xerces-c's character tables over the GENERATED pages (util/XMLChar.hpp inline functions). -/
import XV.Gen.CharTables
namespace XV.Model.XmlChar
open XV.Gen.CharTables

/-- entry `i` (< 256) of a page literal -/
@[inline] def byteAt (page i : Nat) : Nat := (page >>> (8 * i)) % 256

/-- `fgCharCharsTable1_0[c]` -/
def tbl10 (c : Nat) : Nat := byteAt (pages10.getD (c / 256) 0) (c % 256)
/-- `fgCharCharsTable1_1[c]` -/
def tbl11 (c : Nat) : Nat := byteAt (pages11.getD (c / 256) 0) (c % 256)

/-- `(table[c] & mask) != 0` -/
@[inline] def flag (b mask : Nat) : Bool := (b &&& mask) != 0

end XV.Model.XmlChar
