/-
Model of util/XML256TableTranscoder.cpp (+ the generated tables of the Windows-1252 / IBM037 / IBM1047 /
IBM1140 transcoders), XML88591Transcoder, XMLASCIITranscoder, XMLUTF16Transcoder, XMLUCS4Transcoder.
-/
import XV.Gen.ByteTables
namespace XV.Model.ByteCodec
open XV.Gen.ByteTables

/-- `XML256TableTranscoder::xlatOneTo`: the do/while binary search over (intCh, extCh) records, 0 = not found -/
def bsearch (tbl : List (Nat × Nat)) (c : Nat) : Nat → Nat → Nat → Nat
  | 0, _, hi => if c = (tbl.getD hi (0, 0)).1 then (tbl.getD hi (0, 0)).2 else 0
  | fuel + 1, lo, hi =>
    let mid := (hi - lo) / 2 + lo
    let k := (tbl.getD mid (0, 0)).1
    if c > k then
      if mid + 1 < hi then bsearch tbl c fuel mid hi
      else if c = (tbl.getD hi (0, 0)).1 then (tbl.getD hi (0, 0)).2 else 0
    else if c < k then
      if lo + 1 < mid then bsearch tbl c fuel lo mid
      else if c = (tbl.getD mid (0, 0)).1 then (tbl.getD mid (0, 0)).2 else 0
    else (tbl.getD mid (0, 0)).2

def xlatOneTo (t : Table) (c : Nat) : Nat :=
  bsearch t.toTable c t.declaredToSize 0 (t.declaredToSize - 1)

inductive Res
  | ok (out : List Nat) (eaten : Nat)
  | unrepresentable
  deriving DecidableEq, Repr

/-- transcodeFrom: every byte is mapped through the from-table (0xFFFF entries would be skipped) -/
def transcodeFrom (t : Table) (src : List Nat) (maxChars : Nat) : Res :=
  let n := min src.length maxChars
  .ok ((src.take n).filterMap (fun b => let u := t.fromTable.getD b 0xFFFF; if u = 0xFFFF then none else some u)) n

def transcodeTo (t : Table) (src : List Nat) (maxBytes : Nat) (throwOnUnrep : Bool) : Res :=
  let n := min src.length maxBytes
  let rec go : List Nat → List Nat → Res
    | [], acc => .ok acc n
    | c :: rest, acc =>
      let b := if c < 65536 then xlatOneTo t c else 0
      if b ≠ 0 then go rest (acc ++ [b])
      else if throwOnUnrep then .unrepresentable
      else go rest (acc ++ [0x3F])
  go (src.take n) []

def canTranscodeTo (t : Table) (c : Nat) : Bool := xlatOneTo t (c % 65536) ≠ 0

/-- linear-search reference for the to-table -/
def lookup (tbl : List (Nat × Nat)) (c : Nat) : Nat :=
  match tbl.find? (fun p => p.1 = c) with
  | some p => p.2
  | none => 0

def strictSorted : List Nat → Bool
  | [] => true
  | [_] => true
  | a :: b :: t => a < b && strictSorted (b :: t)

/-! ### fixed-width transcoders (ISO-8859-1, US-ASCII, UTF-16 LE/BE, UCS-4 LE/BE) -/

inductive CRes
  | ok (out sizes : List Nat) (eaten : Nat)
  | exc (name : String)
  deriving DecidableEq, Repr

def latin1From (src : List Nat) (maxChars : Nat) : CRes :=
  let n := min src.length maxChars
  .ok (src.take n) (List.replicate n 1) n

/-- shared shape of XML88591Transcoder::transcodeTo / XMLASCIITranscoder::transcodeTo -/
def narrowTo (limit : Nat) (src : List Nat) (maxBytes : Nat) (throwOnUnrep : Bool) : CRes :=
  let n := min src.length maxBytes
  let rec go : List Nat → List Nat → CRes
    | [], acc => .ok acc [] n
    | c :: rest, acc =>
      if c < limit then go rest (acc ++ [c])
      else if throwOnUnrep then .exc "Trans_Unrepresentable"
      else go rest (acc ++ [0x1A])
  go (src.take n) []

def latin1To := narrowTo 256
def asciiTo := narrowTo 128

/-- XMLASCIITranscoder::transcodeFrom: a byte ≥ 0x80 throws, unless more than 32 chars are already done -/
def asciiFrom (src : List Nat) (maxChars : Nat) : CRes :=
  let n := min src.length maxChars
  let rec go : List Nat → List Nat → CRes
    | [], acc => .ok acc (List.replicate acc.length 1) acc.length
    | b :: rest, acc =>
      if b < 0x80 then go rest (acc ++ [b])
      else if acc.length > 32 then .ok acc (List.replicate acc.length 1) acc.length
      else .exc "Trans_Unrepresentable"
  go (src.take n) []

def unit16 (be : Bool) (b0 b1 : Nat) : Nat := if be then b0 * 256 + b1 else b1 * 256 + b0
def bytes16 (be : Bool) (u : Nat) : List Nat := if be then [u / 256 % 256, u % 256] else [u % 256, u / 256 % 256]
def val32 (be : Bool) (b0 b1 b2 b3 : Nat) : Nat :=
  if be then ((b0 * 256 + b1) * 256 + b2) * 256 + b3 else ((b3 * 256 + b2) * 256 + b1) * 256 + b0
def bytes32 (be : Bool) (v : Nat) : List Nat :=
  let l := [v % 256, v / 256 % 256, v / 65536 % 256, v / 16777216 % 256]
  if be then l.reverse else l

def units16 (be : Bool) : List Nat → List Nat
  | b0 :: b1 :: t => unit16 be b0 b1 :: units16 be t
  | _ => []

def utf16From (be : Bool) (src : List Nat) (maxChars : Nat) : CRes :=
  let n := min (src.length / 2) maxChars
  .ok ((units16 be src).take n) (List.replicate n 2) (2 * n)

def utf16To (be : Bool) (src : List Nat) (maxBytes : Nat) : CRes :=
  let n := min src.length (maxBytes / 2)
  .ok ((src.take n).flatMap (bytes16 be)) [] n

def vals32 (be : Bool) : List Nat → List Nat
  | b0 :: b1 :: b2 :: b3 :: t => val32 be b0 b1 b2 b3 :: vals32 be t
  | _ => []

/-- XMLUCS4Transcoder::transcodeFrom loop over complete 4-byte groups -/
def ucs4FromLoop : List Nat → Nat → List Nat → List Nat → Nat → CRes
  | [], _, out, sizes, eaten => .ok out sizes eaten
  | v :: rest, room, out, sizes, eaten =>
    if room = 0 then .ok out sizes eaten
    else if v ≥ 65536 then
      if v > 0x10FFFF then .exc "Trans_BadSrcSeq"
      else if room = 1 then .ok out sizes eaten
      else ucs4FromLoop rest (room - 2)
        (out ++ [(0xD800 - 64 + v / 1024) % 65536, (0xDC00 + v % 1024) % 65536]) (sizes ++ [4, 0]) (eaten + 4)
    else ucs4FromLoop rest (room - 1) (out ++ [v]) (sizes ++ [4]) (eaten + 4)

def ucs4From (be : Bool) (src : List Nat) (maxChars : Nat) : CRes :=
  ucs4FromLoop (vals32 be src) maxChars [] [] 0

/-- XMLUCS4Transcoder::transcodeTo (output values are byte-swapped when the encoding's order differs
from the host's — for BOTH branches: the repaired behaviour) -/
def ucs4ToLoop (be : Bool) : Nat → List Nat → Nat → List Nat → Nat → CRes
  | 0, _, _, out, eaten => .ok out [] eaten
  | _ + 1, [], _, out, eaten => .ok out [] eaten
  | fuel + 1, c :: rest, slots, out, eaten =>
    if slots = 0 then .ok out [] eaten
    else if 0xD800 ≤ c ∧ c ≤ 0xDBFF then
      match rest with
      | [] => .ok out [] eaten
      | tr :: rest' =>
        if ¬ (0xDC00 ≤ tr ∧ tr ≤ 0xDFFF) then .exc "Trans_BadTrailingSurrogate"
        else ucs4ToLoop be fuel rest' (slots - 1)
          (out ++ bytes32 be ((c - 0xD800) * 1024 + (tr - 0xDC00) + 0x10000)) (eaten + 2)
    else ucs4ToLoop be fuel rest (slots - 1) (out ++ bytes32 be c) (eaten + 1)

def ucs4To (be : Bool) (src : List Nat) (maxBytes : Nat) : CRes :=
  ucs4ToLoop be src.length src (maxBytes / 4) [] 0

end XV.Model.ByteCodec
