/-
Model of util/XMLDateTime.cpp at the level of the parsed fields: validateDateTime, normalize (time-zone carry chain),
compareOrder, compare (the 14-hour rule), written after the C++.  `fValue[]`, `fTimeZone[]` are `Int`s, `fMilliSecond`
(a double in the C++) is the digit string after the '.', `utc` is the `utcType` enum (0 UNKNOWN, 1 STD, 2 POS, 3 NEG).

NOT modelled code-shaped: the field parsers (getDate, getTime, getTimeZone, parseIntYear, …).  They are represented by
the Spec's lexical recogniser `XV.Spec.DateTime.parse` followed by `ofRaw` (the defaults the parse functions assign),
and tied to the code by the correspondence harness only.

`repaired = true` adds what the C++ lacks:
  * `24:00:00` is only brought to the next day when a time zone happens to be present, so 2000-01-01T24:00:00 ≠
    2000-01-02T00:00:00 and the canonical form loses a day.  Repaired: after validation, hour 24 becomes hour 0 of the
    following day (xs:time: hour 0).
  * `getRetVal` reports EQUAL / LESS / GREATER for a zoned and an unzoned value exactly 14 hours apart (§3.2.7.4 says
    indeterminate).  Repaired: determinate only when both ±14:00 comparisons agree.
-/
import XV.Spec.DateTime
namespace XV.Model.DateTime
open XV.Spec.DateTime

structure DT where
  year : Int
  month : Int
  day : Int
  hour : Int
  minute : Int
  second : Int
  ms : List Nat
  utc : Nat
  tzh : Int
  tzm : Int
  hasTime : Bool
  deriving DecidableEq, Repr

def UTC_UNKNOWN : Nat := 0
def UTC_STD : Nat := 1
def UTC_POS : Nat := 2
def UTC_NEG : Nat := 3

/-- the fields the parse functions leave in `fValue` / `fTimeZone` (defaults 2000-01-15 as in the C++) -/
def ofRaw (k : Kind) (r : Raw) : DT :=
  let (u, h, m) : Nat × Int × Int := match r.tz with
    | .none => (UTC_UNKNOWN, 0, 0)
    | .utc => (UTC_STD, 0, 0)
    | .pos h m => (UTC_POS, h, m)
    | .neg h m => (UTC_NEG, h, m)
  ⟨r.year, r.month, r.day, r.hour, r.minute, r.second, r.frac, u, h, m, k == .dateTime || k == .time⟩

def isLeapYear (year : Int) : Bool :=
  Int.tmod year 4 == 0 && (Int.tmod year 100 != 0 || Int.tmod year 400 == 0)

def maxDayInMonthFor (year month : Int) : Int :=
  if month == 4 || month == 6 || month == 9 || month == 11 then 30
  else if month == 2 then (if isLeapYear year then 29 else 28)
  else 31

/-- `validateDateTime`: true = no exception -/
def validateDateTime (d : DT) : Bool :=
  if d.year == 0 then false
  else if d.month < 1 || d.month > 12 then false
  else if d.day > maxDayInMonthFor d.year d.month || d.day == 0 then false
  else if d.hour < 0 || d.hour > 24 ||
          (d.hour == 24 && (d.minute != 0 || d.second != 0 || !(d.ms.all (· == 0)))) then false
  else if d.minute < 0 || d.minute > 59 then false
  else if d.second < 0 || d.second > 60 then false
  else if d.tzh.natAbs > 14 || (d.tzh.natAbs == 14 && d.tzm != 0) then false
  else if d.tzm.natAbs > 59 then false
  else true

/-- `fQuotient(a, b)`: C `div`, truncating -/
def fQuotient (a b : Int) : Int := Int.tdiv a b
def fQuotient3 (temp low high : Int) : Int := fQuotient (temp - low) (high - low)
def modC (a b quotient : Int) : Int := a - quotient * b
def modulo (temp low high : Int) : Int :=
  let a := temp - low
  let b := high - low
  modC a b (fQuotient a b) + low

/-- `temp` → (`fValue[Month]`, carry into the year):
`fValue[Month] = modulo(temp, 1, 13); carry = fQuotient(temp, 1, 13); if (fValue[Month] <= 0) { fValue[Month] += 12; carry--; }` -/
def monthNorm (temp : Int) : Int × Int :=
  let m := modulo temp 1 13
  let c := fQuotient3 temp 1 13
  if m ≤ 0 then (m + 12, c - 1) else (m, c)

/-- `carry = fQuotient(temp, b); v = mod(temp, b, carry); if (v < 0) { v += b; carry--; }` → (v, carry) -/
def carryFix (temp b : Int) : Int × Int :=
  let c := fQuotient temp b
  let v := modC temp b c
  if v < 0 then (v + b, c - 1) else (v, c)

/-- the `while (1)` loop of `normalize` -/
def dayLoop : Nat → DT → DT
  | 0, d => d
  | fuel + 1, d =>
    let temp := maxDayInMonthFor d.year d.month
    if d.day < 1 then
      let d1 := { d with day := d.day + maxDayInMonthFor d.year (d.month - 1) }
      let mc := monthNorm (d1.month + (-1))
      dayLoop fuel { d1 with month := mc.1, year := d1.year + mc.2 }
    else if d.day > temp then
      let d1 := { d with day := d.day - temp }
      let mc := monthNorm (d1.month + 1)
      dayLoop fuel { d1 with month := mc.1, year := d1.year + mc.2 }
    else d

/-- `XMLDateTime::normalize` -/
def normalize (d : DT) : DT :=
  if d.utc == UTC_UNKNOWN || d.utc == UTC_STD then d
  else
    let negate : Int := if d.utc == UTC_POS then -1 else 1
    let mc := monthNorm d.month                                  -- months, carry into years
    let mi := carryFix (d.minute + negate * d.tzm) 60            -- minutes
    let hr := carryFix (d.hour + negate * d.tzh + mi.2) 24       -- hours
    let d1 := { d with year := d.year + mc.2, month := mc.1, minute := mi.1, hour := hr.1, day := d.day + hr.2 }
    { dayLoop 4 d1 with utc := UTC_STD }

/-- the repair: 24:00:00 is the first instant of the following day (xs:time: 00:00:00) -/
def rollover24 (k : Kind) (d : DT) : DT :=
  if d.hour == 24 then
    if k == .time then { d with hour := 0 }
    else
      let d1 := { d with hour := 0, day := d.day + 1 }
      if d1.day > maxDayInMonthFor d1.year d1.month then
        if d1.month + 1 > 12 then { d1 with day := 1, month := 1, year := d1.year + 1 }
        else { d1 with day := 1, month := d1.month + 1 }
      else d1
  else d

/-- parseDateTime / parseDate / parseTime / … : lexical recogniser (Spec), defaults, validate, normalize -/
def parseK (repaired : Bool) (k : Kind) (s : List Nat) : Option DT :=
  match parse k s with
  | none => none
  | some r =>
    let d := ofRaw k r
    if !validateDateTime d then none
    else some (normalize (if repaired then rollover24 k d else d))

/-- comparison of two `fMilliSecond` values -/
def cmpMs (a b : List Nat) : Int :=
  match cmpFrac a b with
  | .lt => -1 | .eq => 0 | .gt => 1

/-- `compareOrder`: -1 LESS_THAN, 0 EQUAL, 1 GREATER_THAN -/
def compareOrder (l r : DT) : Int :=
  let lT := normalize l
  let rT := normalize r
  let fields (d : DT) : List Int := [d.year, d.month, d.day, d.hour, d.minute, d.second, 0, d.utc]
  let rec go : List Int → List Int → Int
    | a :: x, b :: y => if a < b then -1 else if a > b then 1 else go x y
    | _, _ => 0
  let c := go (fields lT) (fields rT)
  if c != 0 then c
  else if lT.hasTime then cmpMs lT.ms rT.ms
  else 0

def INDETERMINATE : Int := 2

/-- `getRetVal(c1, c2)`.  As it stands: indeterminate only for (LESS, GREATER) / (GREATER, LESS), otherwise `c1` — so
a pair exactly 14 hours apart (one result EQUAL) comes out EQUAL / GREATER / LESS.  Repaired: determinate only if both agree. -/
def getRetVal (repaired : Bool) (c1 c2 : Int) : Int :=
  if repaired then (if c1 == c2 then c1 else INDETERMINATE)
  else if (c1 == -1 && c2 == 1) || (c1 == 1 && c2 == -1) then INDETERMINATE
  else if c1 != INDETERMINATE then c1 else c2

/-- `compareResult(pDate1, pDate2, set2Left, utc_type)` -/
def compareResult (p1 p2 : DT) (set2Left : Bool) (utcType : Nat) : Int :=
  let tmp := if set2Left then p1 else p2
  let tmp := normalize { tmp with tzh := 14, tzm := 0, utc := utcType }
  if set2Left then compareOrder tmp p2 else compareOrder p1 tmp

/-- `XMLDateTime::compare(pDate1, pDate2)` (dateTime family) -/
def compare (repaired : Bool) (p1 p2 : DT) : Int :=
  if p1.utc == p2.utc then compareOrder p1 p2
  else if p1.utc == UTC_STD then
    getRetVal repaired (compareResult p1 p2 false UTC_POS) (compareResult p1 p2 false UTC_NEG)
  else if p2.utc == UTC_STD then
    getRetVal repaired (compareResult p1 p2 true UTC_POS) (compareResult p1 p2 true UTC_NEG)
  else INDETERMINATE

end XV.Model.DateTime
