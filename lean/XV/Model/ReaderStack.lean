/-!
Ownership ledger of `ReaderMgr` (src/xercesc/internal/ReaderMgr.cpp): the manager owns the current
`ReaderData` (`fCurReaderData`), the ones on `fReaderStack` and the adopted entities parked on `fEntityStack`.
A `ReaderData` owns its `XMLReader` and, when `fEntityAdopted`, its `XMLEntityDecl`.

The model records which objects were created and which were deleted; object identities are fresh numbers.
Operations are total: an exception (`EndOfEntityException`, `RuntimeException(RdrMgr_ReaderIdNotFound)`)
ends the operation early and leaves the state in which the C++ object is left.
-/
namespace XV.Model.ReaderStack

inductive Obj where
  | reader (n : Nat)
  | entity (n : Nat)
  deriving DecidableEq, Repr

def Obj.id : Obj → Nat
  | .reader n => n
  | .entity n => n

/-- `ReaderMgr::ReaderData` -/
structure RD where
  reader : Nat              -- reader number = identity of the XMLReader
  entName : Option Nat      -- name of the entity being expanded (none: not an entity)
  adopted : Option Nat      -- `some e`: entity object `e` is owned by this ReaderData
  deriving DecidableEq, Repr

/-- objects a `ReaderData` deletes in its destructor -/
def RD.owns (d : RD) : List Obj :=
  .reader d.reader :: (match d.adopted with | some e => [.entity e] | none => [])

structure St where
  cur : Option RD
  stack : List RD           -- fReaderStack, head = top
  ents : List Nat           -- fEntityStack
  next : Nat                -- source of fresh identities (fNextReaderNum)
  created : List Obj
  deleted : List Obj
  deriving Repr

def St.init : St := ⟨none, [], [], 1, [], []⟩

def curList (s : St) : List RD := match s.cur with | some d => [d] | none => []

/-- everything the manager still owns -/
def St.live (s : St) : List Obj :=
  (curList s).flatMap RD.owns ++ s.stack.flatMap RD.owns ++ s.ents.map Obj.entity

inductive Op where
  | push (entName : Option Nat) (adopt : Bool)   -- createReader + pushReader / pushReaderAdoptEntity
  | pop (throwEOE : Bool) (hasChars : List Bool) -- popReader; flags: does the exposed reader still have characters
  | cleanBackTo (readerNum : Nat)
  | reset
  deriving Repr

/-- is an entity of that name already on the reader *stack* (the current reader is not looked at, as in the code) -/
def onStack (name : Nat) (st : List RD) : Bool := st.any (fun d => d.entName == some name)

def isRecursive (entName : Option Nat) (st : List RD) : Bool :=
  match entName with
  | some n => onStack n st
  | none => false

def push (s : St) (entName : Option Nat) (adopt : Bool) : St :=
  let r := s.next
  let ad : Option Nat := if adopt && entName.isSome then some r else none
  let d : RD := ⟨r, entName, ad⟩
  let s1 : St := { s with next := s.next + 1, created := d.owns ++ s.created }
  if isRecursive entName s.stack then
    -- delete reader; if (adoptEntity) delete entity; return false;
    { s1 with deleted := d.owns ++ s1.deleted }
  else
    { s1 with cur := some d, stack := curList s ++ s.stack }

/-- the `while (true)` loop at the end of popReader -/
def popLoop (cur : RD) (stack : List RD) (deleted : List Obj) : List Bool → RD × List RD × List Obj
  | [] => (cur, stack, deleted)
  | true :: _ => (cur, stack, deleted)
  | false :: fl =>
    match stack with
    | [] => (cur, stack, deleted)                       -- return false
    | d :: st => popLoop d st (cur.owns ++ deleted) fl  -- delete fCurReaderData; pop

def pop (s : St) (throwEOE : Bool) (fl : List Bool) : St :=
  match s.cur, s.stack with
  | some prev, top :: st =>
    if prev.entName.isSome && throwEOE then
      -- adopted entity moves to fEntityStack; delete prevReaderData; throw EndOfEntityException
      match prev.adopted with
      | some e => { s with cur := some top, stack := st, ents := e :: s.ents, deleted := .reader prev.reader :: s.deleted }
      | none => { s with cur := some top, stack := st, deleted := prev.owns ++ s.deleted }
    else
      let r := popLoop top st (prev.owns ++ s.deleted) fl
      { s with cur := some r.1, stack := r.2.1, deleted := r.2.2 }
  | _, _ => s                                            -- if (fReaderStack->empty()) return false;

def cleanLoop (n : Nat) (cur : RD) : List RD → List Obj → RD × List RD × List Obj
  | [], del => (cur, [], del)                           -- found, or ThrowXML(RdrMgr_ReaderIdNotFound)
  | d :: st, del =>
    if cur.reader = n then (cur, d :: st, del)
    else cleanLoop n d st (cur.owns ++ del)

def cleanBackTo (s : St) (n : Nat) : St :=
  match s.cur with
  | some c =>
    let r := cleanLoop n c s.stack s.deleted
    { s with cur := some r.1, stack := r.2.1, deleted := r.2.2 }
  | none => s

def reset (s : St) : St :=
  { s with cur := none, stack := [],
           deleted := (curList s).flatMap RD.owns ++ s.stack.flatMap RD.owns ++ s.deleted }

/-- `~ReaderMgr` -/
def destroy (s : St) : St :=
  let s' := reset s
  { s' with ents := [], deleted := s.ents.map Obj.entity ++ s'.deleted }

def step (s : St) : Op → St
  | .push n a => push s n a
  | .pop t fl => pop s t fl
  | .cleanBackTo n => cleanBackTo s n
  | .reset => reset s

def run : St → List Op → St
  | s, [] => s
  | s, op :: ops => run (step s op) ops

end XV.Model.ReaderStack
