/-
C18 — `DOMDocumentImpl::allocate / release / setMemoryAllocationBlockSize / deleteHeap`
(dom/impl/DOMDocumentImpl.cpp), code-shaped over `Nat` addresses.  No Mathlib.
The system allocator (`fMemoryManager->allocate`) is an input: every `alloc` operation carries the
address `nb` the manager would return if a new raw block is needed.  `subs` is a ghost field: the
regions handed out to callers and not yet released.
XMLSize_t arithmetic is modelled in `Nat` (no wrap-around): see ASSUMPTIONS in tools/props/c18.py.
-/
namespace XV.Model.Arena

/-- Facts read off the sources by the translator (Gen/DomHeap). `recheck` = `allocate` routes a request that
would not fit in a fresh block of the current size to the single-block path (absent in the pinned code). -/
structure Consts where
  align : Nat
  header : Nat
  grow : Nat
  recheck : Bool
deriving DecidableEq, Repr, Inhabited

/-- The three sizes given to `XMLPlatformUtils::Initialize`. -/
structure Params where
  initial : Nat
  max : Nat
  maxSub : Nat
deriving DecidableEq, Repr, Inhabited

structure Blk where
  start : Nat
  size : Nat
deriving DecidableEq, Repr, Inhabited

structure Arena where
  blocks : List Blk := []      -- fCurrentBlock chain, newest first
  singles : List Blk := []     -- fCurrentSingletonBlock chain, in list order
  freePtr : Nat := 0           -- fFreePtr
  freeRem : Nat := 0           -- fFreeBytesRemaining
  heapSize : Nat               -- fHeapAllocSize
  subs : List (Nat × Nat) := []   -- ghost: (pointer, aligned size) of every region handed out and still valid
deriving DecidableEq, Repr, Inhabited

def init (P : Params) : Arena := { heapSize := P.initial }

/-- `XMLPlatformUtils::alignPointerForNewBlockAllocation` -/
def alignUp (a n : Nat) : Nat := if n % a = 0 then n else n + a - n % a

/-- largest multiple of `a` that is ≤ `n` -/
def alignDown (a n : Nat) : Nat := n / a * a

/-- Does this request take the "largish block" path? -/
def oversize (c : Consts) (P : Params) (a : Arena) (am : Nat) : Bool :=
  decide (am > P.maxSub) ||
    (c.recheck && decide (am > a.freeRem) && (decide (a.heapSize < c.header) || decide (am > a.heapSize - c.header)))

/-- `DOMDocumentImpl::allocate(amount)`; returns the new state and the pointer. -/
def allocate (c : Consts) (P : Params) (a : Arena) (amount nb : Nat) : Arena × Nat :=
  let am := alignUp c.align amount
  if oversize c P a am then
    let blk : Blk := ⟨nb, c.header + am⟩
    let singles := match a.singles with
      | [] => [blk]                      -- fCurrentSingletonBlock = newBlock
      | h :: t => h :: blk :: t          -- linked in behind the current head
    ({ a with singles := singles, subs := (nb + c.header, am) :: a.subs }, nb + c.header)
  else
    let a :=
      if am > a.freeRem then
        { a with blocks := ⟨nb, a.heapSize⟩ :: a.blocks, freePtr := nb + c.header,
                 freeRem := a.heapSize - c.header,
                 heapSize := if a.heapSize < P.max then a.heapSize * c.grow else a.heapSize }
      else a
    ({ a with freePtr := a.freePtr + am, freeRem := a.freeRem - am, subs := (a.freePtr, am) :: a.subs }, a.freePtr)

/-- remove the first block whose payload starts at `ptr` -/
def removeFirst (hdr ptr : Nat) : List Blk → Option (List Blk)
  | [] => none
  | b :: t => if b.start + hdr = ptr then some t else (removeFirst hdr ptr t).map (b :: ·)

/-- `DOMDocumentImpl::release(oldBuffer)`: only single-block regions are given back. -/
def release (c : Consts) (a : Arena) (ptr : Nat) : Arena :=
  match removeFirst c.header ptr a.singles with
  | some s' => { a with singles := s', subs := a.subs.filter (fun s => s.1 != ptr) }
  | none => a

/-- `DOMDocumentImpl::setMemoryAllocationBlockSize(size)` -/
def setBlockSize (P : Params) (a : Arena) (size : Nat) : Arena :=
  if size > P.maxSub then { a with heapSize := size } else a

/-- `DOMDocumentImpl::deleteHeap()`: the raw blocks passed to `deallocate`, in order, and the empty arena. -/
def deleteHeap (a : Arena) : List Blk × Arena :=
  (a.blocks ++ a.singles, { a with blocks := [], singles := [], subs := [] })

inductive Op where
  | alloc (amount nb : Nat)
  | release (ptr : Nat)
  | setBlock (size : Nat)
deriving DecidableEq, Repr, Inhabited

def step (c : Consts) (P : Params) (a : Arena) : Op → Arena
  | .alloc n nb => (allocate c P a n nb).1
  | .release p => release c a p
  | .setBlock n => setBlockSize P a n

def run (c : Consts) (P : Params) (a : Arena) (ops : List Op) : Arena := ops.foldl (step c P) a

/-- The raw block an `alloc` takes from the system allocator, if any. -/
def takes (c : Consts) (P : Params) (a : Arena) (amount nb : Nat) : Option Blk :=
  let am := alignUp c.align amount
  if oversize c P a am then some ⟨nb, c.header + am⟩
  else if am > a.freeRem then some ⟨nb, a.heapSize⟩ else none

end XV.Model.Arena
