/-
  Code-shaped model of the prefix-mapping bookkeeping of `SAX2XMLReaderImpl::startElement` / `endElement`
  (src/xercesc/parsers/SAX2XMLReaderImpl.cpp): the stacks `fPrefixes` / `fPrefixCounts`, the filtering of the
  declaration attributes when namespace-prefixes is off, the events sent to the ContentHandler; and of the scanner
  driving it over a document (start tag → reader.startElement(isEmpty) → children → reader.endElement).

  Representation: `fPrefixes` holds ids into the pool `fPrefixesStorage`, and `getValueForId` gives the string back; the
  model keeps the strings themselves (head of the list = top of the stack).  Popping an empty `ValueStackOf` throws
  in the C++; the model stops popping (the theorems show this never happens).  Core Lean only.
-/
import XV.Model.NsScan
namespace XV.Model.Sax2Prefix
open XV.Model.ElemStack XV.Model.NsScan
open XV.Spec.Namespace (Item Tag Node Decl)

/-- an attribute as the ContentHandler sees it through `VecAttributesImpl` -/
structure SaxAttr where
  uri : String
  local_ : String
  qname : String
deriving Repr, DecidableEq, Inhabited

inductive Event where
  | startPrefixMapping (pre uri : String)
  | endPrefixMapping (pre : String)
  | startElement (uri local_ qname : String) (attrs : List SaxAttr)
  | endElement (uri local_ qname : String)
deriving Repr, DecidableEq, Inhabited

structure Reader where
  fNamespacePrefix : Bool := false
  fPrefixes : List String := []
  fPrefixCounts : List Nat := []
  out : List Event := []         -- events delivered so far, oldest first
deriving Repr, Inhabited

def Reader.emit (r : Reader) (e : Event) : Reader := { r with out := r.out ++ [e] }

def qn (pre loc : String) : String := if pre = "" then loc else pre ++ ":" ++ loc

/-- the test at the head of the `for (i < attrCount)` loop: `(nsPrefix, nsURI)` if the attribute is `xmlns:…` or `xmlns`,
    else both stay 0 -/
def nsDeclOf (tempAttr : XMLAttr) : Option (String × String) :=
  if tempAttr.pre ≠ "" then
    (if tempAttr.pre = xmlnsString then some (tempAttr.name, tempAttr.value) else none)
  else if tempAttr.name = xmlnsString then some ("", tempAttr.value) else none

/-- the `for (i < attrCount)` loop of startElement: spot the declarations, announce them, push their prefixes;
    returns the reader, `numPrefix`, and `fTempAttrVec` (the non-declaration attributes) -/
def attrLoop (r : Reader) : List XMLAttr → Nat → List XMLAttr → Reader × Nat × List XMLAttr
  | [], numPrefix, temp => (r, numPrefix, temp)
  | tempAttr :: rest, numPrefix, temp =>
    match nsDeclOf tempAttr with
    | none => attrLoop r rest numPrefix (temp ++ [tempAttr])
    | some (nsPrefix, nsURI) =>
      let r := r.emit (.startPrefixMapping nsPrefix nsURI)
      let r := { r with fPrefixes := nsPrefix :: r.fPrefixes }
      attrLoop r rest (numPrefix + 1) temp

/-- `for (i < numPrefix) endPrefixMapping(fPrefixes->pop())` -/
def popPrefixes (r : Reader) : Nat → Reader
  | 0 => r
  | n + 1 =>
    match r.fPrefixes with
    | [] => r
    | p :: ps => popPrefixes (({ r with fPrefixes := ps }).emit (.endPrefixMapping p)) n

/-- `numPrefix = fPrefixCounts->pop(); …` -/
def closeScope (r : Reader) : Reader :=
  match r.fPrefixCounts with
  | [] => r
  | numPrefix :: cs => popPrefixes { r with fPrefixCounts := cs } numPrefix

def toSax (uriOf : Nat → String) (a : XMLAttr) : SaxAttr := ⟨uriOf a.uriId, a.name, qn a.pre a.name⟩

/-- `SAX2XMLReaderImpl::startElement` with namespaces on -/
def startElement (r : Reader) (uriOf : Nat → String) (elemURLId : Nat) (pre loc : String)
    (attrList : List XMLAttr) (isEmpty : Bool) : Reader :=
  let (r, numPrefix, temp) := attrLoop r attrList 0 []
  let r := { r with fPrefixCounts := numPrefix :: r.fPrefixCounts }
  let shown := if r.fNamespacePrefix then attrList else temp
  let r := r.emit (.startElement (uriOf elemURLId) loc (qn pre loc) (shown.map (toSax uriOf)))
  if isEmpty then closeScope (r.emit (.endElement (uriOf elemURLId) loc (qn pre loc))) else r

/-- `SAX2XMLReaderImpl::endElement` with namespaces on -/
def endElement (r : Reader) (uriOf : Nat → String) (uriId : Nat) (pre loc : String) : Reader :=
  closeScope (r.emit (.endElement (uriOf uriId) loc (qn pre loc)))

mutual
  /-- the scanner walking a subtree: `useEmpty t` says whether a childless element `t` is written `<t/>` -/
  def walk (useEmpty : Tag → Bool) (s : Scan) (r : Reader) : Node → Scan × Reader
    | .elem t kids =>
        let (s1, attrs, uriId, _) := startTagNS s t
        let isEmpty := kids.isEmpty && useEmpty t
        let r1 := startElement r (uriText s1) uriId t.pre t.loc attrs isEmpty
        if isEmpty then (endTagNS s1, r1) else
        let (s2, r2) := walkList useEmpty s1 r1 kids
        -- scanEndTag: the URI id remembered at the start tag (fElemStack.getCurrentURI())
        (endTagNS s2, endElement r2 (uriText s2) uriId t.pre t.loc)
    | _ => (s, r)
  def walkList (useEmpty : Tag → Bool) (s : Scan) (r : Reader) : List Node → Scan × Reader
    | [] => (s, r)
    | n :: ns =>
        let (s1, r1) := walk useEmpty s r n
        walkList useEmpty s1 r1 ns
end

def parseDocWith (useEmpty : Tag → Bool) (nsPrefixes v11 : Bool) (root : Node) : Reader :=
  (walk useEmpty (Scan.init v11) { fNamespacePrefix := nsPrefixes } root).2

def parseDoc (nsPrefixes v11 : Bool) (root : Node) : List Event :=
  (parseDocWith (fun _ => true) nsPrefixes v11 root).out

def showEvent : Event → List String
  | .startPrefixMapping p u => ["+" ++ p ++ "=" ++ u]
  | .endPrefixMapping p => ["-" ++ p]
  | .startElement u l q as => ("<{" ++ u ++ "}" ++ l ++ "|" ++ q) :: as.map (fun a => "@{" ++ a.uri ++ "}" ++ a.local_ ++ "|" ++ a.qname)
  | .endElement u l q => [">{" ++ u ++ "}" ++ l ++ "|" ++ q]

def showEvents (es : List Event) : List String := (es.map showEvent).flatten

end XV.Model.Sax2Prefix
