/-
Code-shaped models of
  * `XMLGrammarPoolImpl`  (src/xercesc/framework/XMLGrammarPoolImpl.cpp):
      cacheGrammar / retrieveGrammar / orphanGrammar / clear / lockPool / unlockPool / getXSModel / getURIStringPool
  * `GrammarResolver`     (src/xercesc/validators/common/GrammarResolver.cpp):
      getGrammar / putGrammar / cacheGrammars / reset / resetCachedGrammar / orphanGrammar /
      cacheGrammarFromParse / useCachedGrammarInParse
A grammar is identified by its key (target namespace for a schema grammar, system id for a DTD grammar; interned
as a number) and an identity `id` (which object it is).  The hash tables are association lists; their iteration
order is not part of the model (observations are sorted).                                   No Mathlib.
-/
namespace XV.Model.GrammarPool

structure Gram where
  key : Nat
  isSchema : Bool
  id : Nat
deriving DecidableEq, Repr, Inhabited

/-- `RefHashTableOf<Grammar>` operations used by the two classes -/
def tblGet (t : List Gram) (k : Nat) : Option Gram := t.find? (fun g => g.key == k)
def tblContains (t : List Gram) (k : Nat) : Bool := (tblGet t k).isSome
def tblRemove (t : List Gram) (k : Nat) : List Gram := t.filter (fun g => !(g.key == k))
/-- `put`: replaces the value of an existing key -/
def tblPut (t : List Gram) (g : Gram) : List Gram := tblRemove t g.key ++ [g]

structure Pool where
  registry : List Gram := []            -- fGrammarRegistry
  locked : Bool := false                -- fLocked
  xsModelValid : Bool := false          -- fXSModelIsValid
  hasXSModel : Bool := false            -- fXSModel != 0
  strings : List Nat := []              -- fStringPool (URI strings, in insertion order; id = position + 1)
  syncStrings : Option (List Nat) := none  -- fSynchronizedStringPool (exists only while locked)
deriving DecidableEq, Repr, Inhabited

/-- createXSModel(): delete fXSModel; fXSModel = new XSModel(this); fXSModelIsValid = true -/
def createXSModel (p : Pool) : Pool := { p with hasXSModel := true, xsModelValid := true }

/-- bool cacheGrammar(Grammar* const gramToCache)   (`none` = null pointer) -/
def cacheGrammar (p : Pool) (g : Option Gram) : Pool × Bool :=
  match g with
  | none => (p, false)
  | some g =>
    if p.locked then (p, false)
    else if tblContains p.registry g.key then (p, false)
    else
      let p1 := { p with registry := tblPut p.registry g }
      let p2 := if p1.xsModelValid && g.isSchema then { p1 with xsModelValid := false } else p1
      (p2, true)

/-- Grammar* retrieveGrammar(XMLGrammarDescription* const gramDesc): lookup by getGrammarKey() -/
def retrieveGrammar (p : Pool) (k : Nat) : Option Gram := tblGet p.registry k

/-- Grammar* orphanGrammar(const XMLCh* const nameSpaceKey) -/
def orphanGrammar (p : Pool) (k : Nat) : Pool × Option Gram :=
  if !p.locked then
    let g := tblGet p.registry k
    let p1 := { p with registry := tblRemove p.registry k }
    let p2 := match g with
      | some g => if p1.xsModelValid && g.isSchema then { p1 with xsModelValid := false } else p1
      | none => p1
    (p2, g)
  else (p, none)

/-- bool clear() -/
def clear (p : Pool) : Pool × Bool :=
  if !p.locked then ({ p with registry := [], xsModelValid := false, hasXSModel := false }, true)
  else (p, false)

/-- void lockPool() -/
def lockPool (p : Pool) : Pool :=
  if !p.locked then
    let p1 := { p with locked := true }
    let p2 := if p1.syncStrings.isNone then { p1 with syncStrings := some [] } else p1
    if !p2.xsModelValid then createXSModel p2 else p2
  else p

/-- void unlockPool() -/
def unlockPool (p : Pool) : Pool :=
  if p.locked then
    { p with locked := false, syncStrings := none, xsModelValid := false, hasXSModel := false }
  else p

/-- XSModel* getXSModel(bool& XSModelWasChanged): returns the new pool and the flag -/
def getXSModel (p : Pool) : Pool × Bool :=
  if p.locked || p.xsModelValid then (p, false) else (createXSModel p, true)

/-- getURIStringPool()->addOrFind(s): while locked the synchronized pool is used, which looks the string up in
the (constant) underlying pool first and otherwise adds it to its own table -/
def addOrFindURI (p : Pool) (s : Nat) : Pool :=
  if p.locked then
    if p.strings.contains s then p
    else match p.syncStrings with
      | some l => if l.contains s then p else { p with syncStrings := some (l ++ [s]) }
      | none => p
  else if p.strings.contains s then p else { p with strings := p.strings ++ [s] }

/-- number of strings visible through getURIStringPool() -/
def uriCount (p : Pool) : Nat :=
  if p.locked then p.strings.length + (p.syncStrings.getD []).length else p.strings.length

inductive PoolOp where
  | cache (g : Gram) | cacheNull | retrieve (k : Nat) | orphan (k : Nat) | clear | lock | unlock
  | xsModel | addURI (s : Nat)
deriving DecidableEq, Repr

def applyOp (p : Pool) : PoolOp → Pool
  | .cache g => (cacheGrammar p (some g)).1
  | .cacheNull => (cacheGrammar p none).1
  | .retrieve _ => p
  | .orphan k => (orphanGrammar p k).1
  | .clear => (clear p).1
  | .lock => lockPool p
  | .unlock => unlockPool p
  | .xsModel => (getXSModel p).1
  | .addURI s => addOrFindURI p s

def runOps (ops : List PoolOp) (p : Pool) : Pool := ops.foldl applyOp p

/-! ### GrammarResolver -/

structure Resolver where
  bucket : List Gram := []          -- fGrammarBucket (owned)
  fromPool : List Gram := []        -- fGrammarFromPool (references into the pool)
  cacheGrammar : Bool := false      -- fCacheGrammar
  useCached : Bool := false         -- fUseCachedGrammar
  pool : Pool := {}                 -- *fGrammarPool
deriving DecidableEq, Repr, Inhabited

/-- Grammar* getGrammar(key): bucket, then (only if fUseCachedGrammar) fGrammarFromPool, then the pool (memoised) -/
def getGrammar (r : Resolver) (k : Nat) : Resolver × Option Gram :=
  match tblGet r.bucket k with
  | some g => (r, some g)
  | none =>
    if r.useCached then
      match tblGet r.fromPool k with
      | some g => (r, some g)
      | none =>
        match retrieveGrammar r.pool k with
        | some g => ({ r with fromPool := tblPut r.fromPool g }, some g)
        | none => (r, none)
    else (r, none)

/-- void putGrammar(Grammar* const grammarToAdopt) -/
def putGrammar (r : Resolver) (g : Gram) : Resolver :=
  if r.cacheGrammar then
    let (p, ok) := GrammarPool.cacheGrammar r.pool (some g)
    if ok then { r with pool := p } else { r with pool := p, bucket := tblPut r.bucket g }
  else { r with bucket := tblPut r.bucket g }

/-- void reset() -/
def reset (r : Resolver) : Resolver := { r with bucket := [] }

/-- void resetCachedGrammar(): fGrammarPool->clear(); fGrammarFromPool->removeAll() -/
def resetCachedGrammar (r : Resolver) : Resolver :=
  { r with pool := (clear r.pool).1, fromPool := [] }

/-- void cacheGrammars(): offer every bucket grammar to the pool; orphan from the bucket those it accepts -/
def cacheOne (r : Resolver) (g : Gram) : Resolver :=
  let (p, ok) := GrammarPool.cacheGrammar r.pool (some g)
  if ok then { r with pool := p, bucket := tblRemove r.bucket g.key } else { r with pool := p }
def cacheGrammars (r : Resolver) : Resolver := r.bucket.foldl cacheOne r

/-- void cacheGrammarFromParse(const bool): reset(); fCacheGrammar = aValue -/
def cacheGrammarFromParse (r : Resolver) (v : Bool) : Resolver := { reset r with cacheGrammar := v }
def useCachedGrammarInParse (r : Resolver) (v : Bool) : Resolver := { r with useCached := v }

/-- Grammar* orphanGrammar(const XMLCh* const nameSpaceKey) -/
def resolverOrphan (r : Resolver) (k : Nat) : Resolver × Option Gram :=
  if r.cacheGrammar then
    let (p, g) := orphanGrammar r.pool k
    match g with
    | some g => ({ r with pool := p, fromPool := tblRemove r.fromPool k }, some g)
    | none =>
      if tblContains r.bucket k then ({ r with pool := p, bucket := tblRemove r.bucket k }, tblGet r.bucket k)
      else ({ r with pool := p }, none)
  else ({ r with bucket := tblRemove r.bucket k }, tblGet r.bucket k)

inductive ResOp where
  | get (k : Nat) | put (g : Gram) | reset | resetCached | cacheAll | setCache (v : Bool) | setUse (v : Bool)
  | orphan (k : Nat) | pool (op : PoolOp)
deriving DecidableEq, Repr

def applyResOp (r : Resolver) : ResOp → Resolver
  | .get k => (getGrammar r k).1
  | .put g => putGrammar r g
  | .reset => reset r
  | .resetCached => resetCachedGrammar r
  | .cacheAll => cacheGrammars r
  | .setCache v => cacheGrammarFromParse r v
  | .setUse v => useCachedGrammarInParse r v
  | .orphan k => (resolverOrphan r k).1
  | .pool op => { r with pool := applyOp r.pool op }

def runResOps (ops : List ResOp) (r : Resolver) : Resolver := ops.foldl applyResOp r

end XV.Model.GrammarPool
