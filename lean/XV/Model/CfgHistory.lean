/-
C19 — configuration histories (no Mathlib).

The parsers keep the user's settings IN the scanner object.  `useScanner(name)` (XercesDOMParser, SAXParser,
DOMLSParser) and the SAX2 property fgXercesScannerName create a NEW scanner object — every setting at its
constructor default — and copy the user's settings into it with

    void XMLScanner::setParseSettings(XMLScanner* const refScanner)
    {   setDocHandler(refScanner->getDocHandler()); … setDisableDefaultEntityResolution(refScanner->get…()); … }

(parsers/AbstractDOMParser.cpp useScanner, parsers/SAXParser.cpp useScanner, parsers/SAX2XMLReaderImpl.cpp setProperty).
A configuration is therefore an ordered history of `set` operations and scanner switches; a setting survives a
switch iff its setter is in the copy list (`XV.Gen.ScannerCopy.copied`, regenerated from the source every run).
-/
namespace XV.Model.CfgHistory

inductive Op where
  | set (setter : String) (value : Nat)     -- parser.setX(v): forwarded to the current scanner object
  | useScanner                              -- new scanner object + setParseSettings(old)
  deriving Repr, DecidableEq, Inhabited

/-- a scanner object's settings: `none` = still at the constructor default -/
abbrev Obj := String → Option Nat

def step (copied : List String) (o : Obj) : Op → Obj
  | .set n v => fun m => if m = n then some v else o m
  | .useScanner => fun m => if m ∈ copied then o m else none

/-- the scanner object that finally parses -/
def run (copied : List String) (h : List Op) : Obj := h.foldl (step copied) (fun _ => none)

/-- Spec: the effective value of a setting is the last value set, whatever scanner switches happened -/
def lastSet : List Op → String → Option Nat
  | [], _ => none
  | op :: rest, n =>
    match lastSet rest n with
    | some v => some v
    | none => match op with
      | .set m v => if m = n then some v else none
      | .useScanner => none

end XV.Model.CfgHistory
