
/-!
Length computation of error-message formatting: `InMemMsgLoader::loadMsg(id, toFill, maxChars)` followed by
`XMLString::replaceTokens(errText, maxChars, text1..text4)` into a caller buffer `XMLCh errText[maxChars + 1]`
(`XMLScanner::emitError`, `XMLValidator::emitError`, `XSDErrorReporter`, `XMLException::loadExceptText`, …).

Only indices matter, so the model tracks `curOutInd` and takes the replacement texts as their lengths.
-/
namespace XV.Model.MsgFormat

def cOpen : Nat := 0x7B
def cClose : Nat := 0x7D
def c0 : Nat := 0x30
def c3 : Nat := 0x33

/-- `{0}` … `{3}` -/
def isTok (d e : Nat) : Bool := decide (c0 ≤ d) && decide (d ≤ c3) && decide (e = cClose)

/-- `loadMsg`: `while (*srcPtr && outPtr < endPtr) *outPtr++ = *srcPtr++; *outPtr = 0;` — the text left in the buffer -/
def loadMsg (src : List Nat) (maxChars : Nat) : List Nat := src.take maxChars

/-- cells of `toFill` written by `loadMsg` (text + terminator) -/
def loadMsgCells (src : List Nat) (maxChars : Nat) : Nat := (loadMsg src maxChars).length + 1

/-- `replaceTokens` from the test of the *inner* copy loop onwards; result = final `curOutInd`.
`rep k` = length of the k-th replacement text (`gNullStr` when the pointer is null).
`guarded` = the copy of a brace that starts no token is protected by `curOutInd < maxChars`
(it is not in the code as extracted; the flag lets the same definition describe the repaired loop). -/
def bare (guarded : Bool) (maxChars out : Nat) (k : Nat → Nat) : Nat :=
  if guarded && decide (out ≥ maxChars) then out
  -- errText[curOutInd++] = *pszSrc++;      (no test of curOutInd in the code as extracted)
  else if out + 1 ≥ maxChars then out + 1 else k (out + 1)

def inner (guarded : Bool) (maxChars : Nat) (rep : Nat → Nat) : List Nat → Nat → Nat
  | [], out => out
  | c :: rest, out =>
    if c ≠ cOpen then
      -- while ((*pszSrc != chOpenCurly) && (curOutInd < maxChars)) errText[curOutInd++] = *pszSrc++;
      if out < maxChars then inner guarded maxChars rep rest (out + 1) else out
    else
      match rest with
      | [] => bare guarded maxChars out (fun o => inner guarded maxChars rep [] o)
      | [d] => bare guarded maxChars out (fun o => inner guarded maxChars rep [d] o)
      | d :: e :: rest' =>
        if isTok d e then
          -- while (*repText && (curOutInd < maxChars)) errText[curOutInd++] = *repText++;
          let out' := out + min (rep (d - c0)) (maxChars - out)
          -- back at `while (*pszSrc && (curOutInd < maxChars))`
          if out' ≥ maxChars then out' else inner guarded maxChars rep rest' out'
        else bare guarded maxChars out (fun o => inner guarded maxChars rep (d :: e :: rest') o)

/-- `XMLString::replaceTokens`: final `curOutInd` (the terminator is then stored at that index) -/
def replaceTokens (guarded : Bool) (maxChars : Nat) (rep : Nat → Nat) (src : List Nat) : Nat :=
  if maxChars = 0 then 0 else inner guarded maxChars rep src 0

/-- number of cells of `errText` the call touches: indices `0 .. curOutInd` -/
def replaceTokensCells (guarded : Bool) (maxChars : Nat) (rep : Nat → Nat) (src : List Nat) : Nat :=
  replaceTokens guarded maxChars rep src + 1

/-- the text contains a `{` that does not start a token -/
def hasBare : List Nat → Bool
  | [] => false
  | c :: rest =>
    if c ≠ cOpen then hasBare rest
    else
      match rest with
      | d :: e :: rest' => if isTok d e then hasBare rest' else true
      | _ => true

/-- … after a `{k}` token (the only shape that can reach the unguarded store with a full buffer) -/
def tokenThenBare : List Nat → Bool
  | [] => false
  | c :: rest =>
    if c ≠ cOpen then tokenThenBare rest
    else
      match rest with
      | d :: e :: rest' => if isTok d e then hasBare rest' else tokenThenBare rest
      | _ => tokenThenBare rest

/-- shipped message is harmless for the loop as written: short enough to be loaded untruncated with room to
spare, and no bare brace after a token -/
def msgSafe (dim : Nat) (m : List Nat) : Bool := decide (m.length < dim) && !tokenThenBare m

def tableSafe (t : String × Nat × Nat × List (List Nat)) : Bool := t.2.2.2.all (msgSafe t.2.1)

/-- array really is one larger than the limit handed to the loader -/
def siteSized (s : String × Nat × Nat × Nat) : Bool := decide (s.2.2.2 + 1 ≤ s.2.2.1)

end XV.Model.MsgFormat
