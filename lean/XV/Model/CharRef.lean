import XV.Gen.SafetyConsts
/-!
`XMLScanner::scanCharRef` / `DTDScanner::scanCharRef`: the numeric accumulator, on 32-bit `unsigned int`
(every arithmetic step reduced mod 2^32 explicitly), with the overflow guard as an *optional* parameter so
that the same definition describes the guarded loop (XMLScanner) and an unguarded one.

The list given to the model holds the digit *values* that reach the accumulator: a character that is not
a hex digit ends the reference with an error before it, and a digit `≥ radix` is reported and skipped.
-/
namespace XV.Model.CharRef

def W : Nat := 2^32

/-- one accepted digit: `value = (value * radix) + nextVal; if (value > guard) { error; return false; }` -/
def step (guard : Option Nat) (radix value d : Nat) : Option Nat :=
  let v := ((value * radix) % W + d) % W
  match guard with
  | some g => if v > g then none else some v
  | none => some v

/-- the loop; `none` = InvalidCharacterRef raised inside the loop -/
def scan (guard : Option Nat) (radix : Nat) : Nat → List Nat → Option Nat
  | v, [] => some v
  | v, d :: ds =>
    match step guard radix v d with
    | none => none
    | some v' => scan guard radix v' ds

/-- the un-reduced results `value * radix + d` seen while the loop runs (for the no-wrap statement) -/
def raws (guard : Option Nat) (radix : Nat) : Nat → List Nat → List Nat
  | _, [] => []
  | v, d :: ds =>
    (v * radix + d) ::
      match step guard radix v d with
      | none => []
      | some v' => raws guard radix v' ds

/-- mathematical value of the digit string -/
def numeral (radix : Nat) : Nat → List Nat → Nat
  | v, [] => v
  | v, d :: ds => numeral radix (v * radix + d) ds

inductive Out where
  | single (c : Nat)            -- one code unit (still subject to the XMLChar table test)
  | pair (hi lo : Nat)          -- surrogate pair
  | invalid                     -- InvalidCharacterRef
  deriving Repr, DecidableEq

/-- the code after the loop: `value >= 0x10000 && value <= 0x10FFFF` → pair; `value <= 0xFFFD` → single; else error.
`consts = [0x10000, 10, 0xD800, 0x3FF, 0xDC00]` as extracted. `>> k` is `/ 2^k`, `& (2^k - 1)` is `% 2^k`. -/
def finish (pairLo pairHi singleMax : Nat) (consts : List Nat) (v : Nat) : Out :=
  match consts with
  | [sub, sh, hiBase, mask, loBase] =>
    if pairLo ≤ v ∧ v ≤ pairHi then
      let w := v - sub
      .pair (w / 2^sh + hiBase) (w % (mask + 1) + loBase)
    else if v ≤ singleMax then .single v
    else .invalid
  | _ => .invalid

/-- whole reference: digits → outcome -/
def charRef (guard : Option Nat) (radix pairLo pairHi singleMax : Nat) (consts : List Nat) (ds : List Nat) : Out :=
  match scan guard radix 0 ds with
  | none => .invalid
  | some v => finish pairLo pairHi singleMax consts v

/-- what XML 1.0 §4.1 asks of the number itself (the XMLChar table test is applied on top) -/
def specOut (n : Nat) : Out :=
  if 0x10000 ≤ n ∧ n ≤ 0x10FFFF then .pair ((n - 0x10000) / 1024 + 0xD800) ((n - 0x10000) % 1024 + 0xDC00)
  else if n ≤ 0xFFFD then .single n
  else .invalid

end XV.Model.CharRef
