/- Code-shaped models of the identity-constraint machinery of xerces-c
   (src/xercesc/validators/schema/identity/): XPathMatcher (startElement / endElement with per-location-path step
   stacks, fNoMatchDepth, fMatched), SelectorMatcher, FieldMatcher, FieldActivator, ValueStore with
   ICValueHasher::isDuplicateOf, ValueStoreCache and IdentityConstraintHandler.  No Mathlib.

   Representation choices (not observable in the reported errors):
   * the RefHashTableOf<FieldValueMap, ICValueHasher> of a ValueStore is a list without `equals`-duplicates in
     insertion order; bucket count and rehashing do not appear (the hasher is consistent with `equals`, checked by the
     correspondence across table growth);
   * pointers are replaced by keys: a ValueStore is named by (constraint id, initial depth), a field by (constraint id, index);
   * `DatatypeValidator::compare` of the common ancestor type is equality of the values denoted at that type
     (XV.Spec.Identity.valueOfNorm) — the datatype validators themselves belong to property C09;
   * three places follow the code as it is after the proposed minimal fixes (fixes/c10-*.diff), because the unpatched
     code contradicts the Spec there (the check reports those inputs as concrete violations):
     ValueStoreCache::transplant hands a COPY of the store's tuples to the enclosing element's map (the unpatched code
     shares the object that the next sibling scope clears); SelectorMatcher records the depth for every matching member
     of a union; a keyref without complete references reports nothing when the key has no table in scope. -/
import XV.Spec.Identity
namespace XV.Model.Identity
open XV.Spec.Identity
open XV.Gen.ValidityCodes

/-! ## XPathMatcher -/

def XP_MATCHED : Nat := 1
def XP_MATCHED_A : Nat := 3
def XP_MATCHED_D : Nat := 5
def XP_MATCHED_DP : Nat := 13

/-- per-location-path state: fCurrentStep[i], fStepIndexes[i], fNoMatchDepth[i], fMatched[i] -/
structure PSt where
  cur : Nat := 0
  stack : List Nat := []
  noMatch : Nat := 0
  matched : Nat := 0
deriving DecidableEq, Repr, Inhabited

def isSelf : Step → Bool | .self => true | _ => false
def isDesc : Step → Bool | .desc => true | _ => false

/-- `while (cur < stepSize && step(cur).axis == ax) cur++` -/
def skipAxis (ax : Step → Bool) (steps : List Step) (cur : Nat) : Nat :=
  cur + ((steps.drop cur).takeWhile ax).length

/-- XPathMatcher::startElement, body of the loop for one location path.  Returns the new state and the value handed
    to `matched()` (attribute axis only). -/
def startPath (steps : List Step) (s0 : PSt) (name : QName) (attrs : List (QName × TV)) : PSt × Option TV :=
  let startStep := s0.cur
  let s := { s0 with stack := startStep :: s0.stack }
  if (s.matched &&& XP_MATCHED_D) == XP_MATCHED || s.noMatch > 0 then
    ({ s with noMatch := s.noMatch + 1 }, none)
  else
  let s := if (s.matched &&& XP_MATCHED_D) == XP_MATCHED_D then { s with matched := XP_MATCHED_DP } else s
  let size := steps.length
  let cur := skipAxis isSelf steps s.cur
  if cur == size then ({ s with cur := cur, matched := XP_MATCHED }, none) else
  let descStep := cur
  let cur := skipAxis isDesc steps cur
  let sawDesc := decide (cur > descStep)
  if cur == size then ({ s with cur := cur, noMatch := s.noMatch + 1 }, none) else
  -- match child::... step, if haven't consumed any self::node()
  let childRes : Option Nat ⊕ PSt :=          -- inl (some cur') proceed, inr: `continue`
    match steps[cur]? with
    | some (.child t) =>
      if cur == startStep || cur > descStep then
        if !t.ok name then
          if cur > descStep then .inr { s with cur := descStep }
          else .inr { s with cur := cur, noMatch := s.noMatch + 1 }
        else .inl (some (cur + 1))
      else .inl (some cur)
    | _ => .inl (some cur)
  match childRes with
  | .inr s' => (s', none)
  | .inl none => (s, none)
  | .inl (some cur) =>
  if cur == size then
    if sawDesc then ({ s with cur := descStep, matched := XP_MATCHED_D }, none)
    else ({ s with cur := cur, matched := XP_MATCHED }, none)
  else
  -- match attribute::... step
  match steps[cur]? with
  | some (.attr t) =>
    let hit := attrs.find? fun a => t.ok a.1
    let (cur, matched, val) :=
      match hit with
      | some a => if cur + 1 == size then (cur + 1, XP_MATCHED_A, some a.2) else (cur + 1, s.matched, none)
      | none => (cur, s.matched, none)
    if (matched &&& XP_MATCHED) != XP_MATCHED then
      if cur > descStep then ({ s with cur := descStep, matched := matched }, val)
      else ({ s with cur := cur, matched := matched, noMatch := s.noMatch + 1 }, val)
    else ({ s with cur := cur, matched := matched }, val)
  | _ => ({ s with cur := cur }, none)

/-- XPathMatcher::endElement, one location path.  The Boolean says whether `matched(content, dv, isNillable)` is called. -/
def endPath (s : PSt) : PSt × Bool :=
  let s := { s with cur := s.stack.headD 0, stack := s.stack.tail }
  if s.noMatch > 0 then ({ s with noMatch := s.noMatch - 1 }, false)
  else if s.matched == 0 then (s, false)
  else if (s.matched &&& XP_MATCHED_A) == XP_MATCHED_A then ({ s with matched := 0 }, false)
  else ({ s with matched := 0 }, true)

/-- the member of the union used by SelectorMatcher / isMatched(): matched, but not only through an ancestor -/
def pathFlag (s : PSt) : Nat :=
  if (s.matched &&& XP_MATCHED) == XP_MATCHED && (s.matched &&& XP_MATCHED_DP) != XP_MATCHED_DP then s.matched else 0

/-- XPathMatcher::isMatched -/
def isMatched (st : List PSt) : Nat :=
  match st.find? fun s => pathFlag s != 0 with
  | some s => s.matched
  | none => 0

/-! ## Values: ICValueHasher::isDuplicateOf -/

/-- getBaseValidator() chain of the built-in types used (normalizedString sits between token and string) -/
inductive DV where
  | string | normalizedString | token | decimal | integer | date | qname
deriving DecidableEq, Repr, Inhabited

def DV.base : DV → Option DV
  | .token => some .normalizedString
  | .normalizedString => some .string
  | .integer => some .decimal
  | _ => none

def DV.ofTy : Ty → DV
  | .string => .string | .token => .token | .integer => .integer | .decimal => .decimal
  | .date => .date | .qname => .qname

/-- the type at which `compare` is evaluated, as a Spec type -/
def DV.cmpTy : DV → Ty
  | .string => .string | .normalizedString => .string | .token => .token
  | .decimal => .decimal | .integer => .integer | .date => .date | .qname => .qname

/-- dv, dv->getBaseValidator(), … -/
def DV.chain (d : DV) : List DV :=
  match d with
  | .token => [.token, .normalizedString, .string]
  | .normalizedString => [.normalizedString, .string]
  | .integer => [.integer, .decimal]
  | d => [d]

/-- a value as stored in a FieldValueMap: datatype validator + whitespace-normalised lexical form
    (QName values are stored as Clark names: `ns` + local part) -/
structure SV where
  dv : DV
  lex : List Nat
  ns : Nat := 0
deriving DecidableEq, Repr, Inhabited

def SV.ofTV (v : TV) : SV := { dv := DV.ofTy v.ty, lex := wsNorm v.ty v.lex, ns := v.ns }

/-- `anc->compare(val1, val2) == 0` -/
def compareAt (anc : DV) (a b : SV) : Bool :=
  decide (valueOfNorm anc.cmpTy a.lex a.ns = valueOfNorm anc.cmpTy b.lex b.ns)

/-- the inner `for`: walk dv2's chain until it meets `t1` -/
def findIn (t1 : DV) : List DV → Option DV
  | [] => none
  | t2 :: r => if t2 = t1 then some t2 else findIn t1 r

/-- the outer `while(tempVal1)` -/
def commonAncestor : List DV → List DV → Option DV
  | [], _ => none
  | t1 :: r, c2 => match findIn t1 c2 with
                   | some t => some t
                   | none => commonAncestor r c2

/-- ICValueHasher::isDuplicateOf (both validators non-null) -/
def isDuplicateOf (a b : SV) : Bool :=
  let e1 := a.lex.isEmpty
  let e2 := b.lex.isEmpty
  if e1 && e2 then decide (a.dv = b.dv)
  else if e1 || e2 then false
  else match commonAncestor a.dv.chain b.dv.chain with
       | some anc => compareAt anc a b
       | none => false

/-- ICValueHasher::equals -/
def tupleEquals : List SV → List SV → Bool
  | [], [] => true
  | a :: r, b :: r' => isDuplicateOf a b && tupleEquals r r'
  | _, _ => false

/-! ## ValueStore -/

structure VStore where
  kind : Kind := .unique
  nFields : Nat := 0
  /-- fValues: one slot per field (`none` = dv and value both null); empty after clear() -/
  values : List (Option SV) := []
  count : Nat := 0
  /-- fValueTuples -/
  tuples : List (List SV) := []
deriving Repr, Inhabited

/-- ValueStore::contains -/
def containsTuple (tuples : List (List SV)) (t : List SV) : Bool := tuples.any fun u => tupleEquals u t

/-- RefHashTableOf::put: an `equals` key is replaced, otherwise added -/
def putTuple (tuples : List (List SV)) (t : List SV) : List (List SV) :=
  if containsTuple tuples t then tuples.map fun u => if tupleEquals u t then t else u else tuples ++ [t]

/-- ValueStore::startValueScope -/
def VStore.startValueScope (s : VStore) : VStore :=
  { s with count := 0, values := List.replicate s.nFields none }

def allPresent : List (Option SV) → Option (List SV)
  | [] => some []
  | none :: _ => none
  | some v :: r => (allPresent r).map (v :: ·)

/-- ValueStore::addValue; `mayMatch` is FieldActivator::getMayMatch(field) -/
def VStore.addValue (s : VStore) (mayMatch : Bool) (idx : Nat) (v : SV) : VStore × List Nat :=
  let e1 := if !mayMatch then [IC_FieldMultipleMatch] else []
  if idx ≥ s.values.length then (s, e1 ++ [IC_UnknownField]) else
  let count := if (s.values.getD idx none).isNone then s.count + 1 else s.count
  let values := s.values.set idx (some v)
  let s := { s with count := count, values := values }
  if count == values.length then
    match allPresent values with
    | none => (s, e1)
    | some t =>
      let e2 := if containsTuple s.tuples t then
                  (match s.kind with | .unique => [IC_DuplicateUnique] | .key => [IC_DuplicateKey] | .keyref _ => [])
                else []
      ({ s with tuples := putTuple s.tuples t }, e1 ++ e2)
  else (s, e1)

/-- ValueStore::endValueScope -/
def VStore.endValueScope (s : VStore) : List Nat :=
  if s.count == 0 then (if s.kind == .key then [IC_AbsentKeyValue] else [])
  else if s.count != s.nFields && s.kind == .key then [IC_KeyNotEnoughValues] else []

/-- ValueStore::append -/
def appendTuples (mine other : List (List SV)) : List (List SV) :=
  other.foldl (fun acc t => if containsTuple acc t then acc else acc ++ [t]) mine

/-- ValueStore::endDocumentFragment for a keyref store, given the key's global table (if any)
    (after fixes/c10-keyref-out-of-scope-without-reference.diff: nothing is reported without a complete reference) -/
def keyrefCheck (refs : List (List SV)) (keys : Option (List (List SV))) : List Nat :=
  match keys with
  | none => if refs.isEmpty then [] else [IC_KeyRefOutOfScope]
  | some ks => (refs.filter fun t => !containsTuple ks t).map fun _ => IC_KeyNotFound

/-! ## Matchers on the XPathMatcherStack -/

inductive MKind where
  | selector (ic : Nat) (depth : Nat)
  | field (ic : Nat) (fld : Nat) (depth : Nat)
deriving DecidableEq, Repr, Inhabited

structure Matcher where
  kind : MKind
  paths : List Path
  st : List PSt
  /-- SelectorMatcher::fElementDepth -/
  elemDepth : Nat := 0
  /-- SelectorMatcher::fMatchedDepth (`none` = -1) -/
  matchedDepth : List (Option Nat) := []
deriving Repr, Inhabited

/-- constructor + startDocumentFragment (XercesXPath keeps one copy of equal location paths) -/
def Matcher.fresh (kind : MKind) (xp0 : XPath) : Matcher :=
  let xp := xp0.eraseDups
  { kind := kind, paths := xp, st := xp.map fun _ => {}, elemDepth := 0, matchedDepth := xp.map fun _ => none }

/-- XPathMatcher::startElement over all location paths: new states and the `matched()` calls in order -/
def startAll (paths : List Path) (st : List PSt) (name : QName) (attrs : List (QName × TV)) : List PSt × List TV :=
  let rs := (paths.zip st).map fun p => startPath p.1 p.2 name attrs
  (rs.map (·.1), rs.filterMap (·.2))

/-- XPathMatcher::endElement over all location paths: new states and the number of `matched()` calls -/
def endAll (st : List PSt) : List PSt × Nat :=
  let rs := st.map endPath
  (rs.map (·.1), (rs.filter (·.2)).length)

/-- SelectorMatcher::startElement, the loop after the base call (after fixes/c10-selector-overlapping-union.diff):
    every location path that matches this element records the depth in fMatchedDepth; `some` = a value scope is opened
    (once).  The unpatched code records only the first such path and leaves the others' stale match flags to select
    the children. -/
def selectLoop (st : List PSt) (md : List (Option Nat)) (elemDepth : Nat) : Option (List (Option Nat)) :=
  let hit : PSt × Option Nat → Bool := fun p =>
    let matched := pathFlag p.1
    (p.2.isNone && (matched &&& XP_MATCHED) == XP_MATCHED) || (matched &&& XP_MATCHED_D) == XP_MATCHED_D
  let zs := st.zip md
  if zs.any hit then some (zs.map fun p => if hit p then some elemDepth else p.2) else none

/-- SelectorMatcher::endElement, the loop after the base call -/
def endScopeLoop (md : List (Option Nat)) (elemDepth : Nat) : Option (List (Option Nat)) :=
  if md.any (fun d => d == some elemDepth) then some (md.map fun d => if d == some elemDepth then none else d) else none

/-! ## ValueStoreCache, FieldActivator, IdentityConstraintHandler -/

abbrev GMap := List (Nat × List (List SV))

structure HSt where
  /-- fMatchers[0 .. fMatchersCount) -/
  matchers : List Matcher := []
  /-- XPathMatcherStack::fContextStack -/
  ctx : List Nat := []
  /-- fIC2ValueStoreMap -/
  stores : List ((Nat × Nat) × VStore) := []
  /-- fGlobalICMap -/
  gmap : GMap := []
  /-- fGlobalMapStack -/
  gstack : List GMap := []
  /-- FieldActivator::fMayMatch -/
  mayMatch : List ((Nat × Nat) × Bool) := []
  /-- emitted XMLValid codes, in order -/
  errs : List Nat := []
deriving Repr, Inhabited

def lookup {α β : Type} [DecidableEq α] (l : List (α × β)) (k : α) : Option β :=
  (l.find? fun p => decide (p.1 = k)).map (·.2)

def insert {α β : Type} [DecidableEq α] (l : List (α × β)) (k : α) (v : β) : List (α × β) :=
  if (l.any fun p => decide (p.1 = k)) then l.map fun p => if p.1 = k then (k, v) else p else l ++ [(k, v)]

def HSt.store (h : HSt) (ic depth : Nat) : VStore := (lookup h.stores (ic, depth)).getD {}
def HSt.setStore (h : HSt) (ic depth : Nat) (s : VStore) : HSt := { h with stores := insert h.stores (ic, depth) s }
def HSt.emit (h : HSt) (es : List Nat) : HSt := { h with errs := h.errs ++ es }

/-- FieldMatcher::matched -/
def fieldMatched (h : HSt) (ic fld depth : Nat) (kind : Kind) (v : SV) (isNil : Bool) : HSt :=
  let h := if isNil && kind == .key then h.emit [IC_KeyMatchesNillable] else h      -- ValueStore::reportNilError
  let may := (lookup h.mayMatch (ic, fld)).getD true
  let (s, es) := (h.store ic depth).addValue may fld v
  let h := (h.setStore ic depth s).emit es
  { h with mayMatch := insert h.mayMatch (ic, fld) false }

/-- the content handed to XPathMatcher::endElement for an element: its normalised text with its validator
    (empty for a nilled or empty element) -/
def contentSV (n : Node) : SV :=
  match n.text with
  | some t => SV.ofTV t
  | none => { dv := .string, lex := [] }

def icKind (cs : List IC) (id : Nat) : Kind := ((findIC cs id).map (·.kind)).getD .unique
def icFields (cs : List IC) (id : Nat) : List XPath := ((findIC cs id).map (·.fields)).getD []

/-- matcher->startElement(...) for the matcher at position `j`; a selector that opens a value scope activates its
    field matchers (added at the end of the stack and started on the same element) -/
def matcherStart (cs : List IC) (h : HSt) (j : Nat) (n : Node) : HSt :=
  match h.matchers[j]? with
  | none => h
  | some m =>
    let (st, vals) := startAll m.paths m.st n.name n.attrs
    match m.kind with
    | .field ic fld depth =>
      let h := { h with matchers := h.matchers.set j { m with st := st } }
      vals.foldl (fun h v => fieldMatched h ic fld depth (icKind cs ic) (SV.ofTV v) false) h
    | .selector ic depth =>
      let elemDepth := m.elemDepth + 1
      match selectLoop st m.matchedDepth elemDepth with
      | none => { h with matchers := h.matchers.set j { m with st := st, elemDepth := elemDepth } }
      | some md =>
        let h := { h with matchers := h.matchers.set j { m with st := st, elemDepth := elemDepth, matchedDepth := md } }
        -- FieldActivator::startValueScopeFor (one startValueScope per field, on the same store)
        let h := h.setStore ic depth ((h.store ic depth).startValueScope)
        -- activateField + startElement for every field
        (List.range (icFields cs ic).length).foldl (fun h i =>
          let fm := Matcher.fresh (.field ic i depth) ((icFields cs ic).getD i [])
          let h := { h with mayMatch := insert h.mayMatch (ic, i) true }
          let (fst, fvals) := startAll fm.paths fm.st n.name n.attrs
          let h := { h with matchers := h.matchers ++ [{ fm with st := fst }] }
          fvals.foldl (fun h v => fieldMatched h ic i depth (icKind cs ic) (SV.ofTV v) false) h) h

/-- matcher->endElement(...) for the matcher at position `j` -/
def matcherEnd (cs : List IC) (h : HSt) (j : Nat) (n : Node) : HSt :=
  match h.matchers[j]? with
  | none => h
  | some m =>
    let (st, calls) := endAll m.st
    match m.kind with
    | .field ic fld depth =>
      let h := { h with matchers := h.matchers.set j { m with st := st } }
      (List.range calls).foldl (fun h _ => fieldMatched h ic fld depth (icKind cs ic) (contentSV n) n.nillable) h
    | .selector ic depth =>
      match endScopeLoop m.matchedDepth m.elemDepth with
      | some md =>
        let h := { h with matchers := h.matchers.set j { m with st := st, matchedDepth := md, elemDepth := m.elemDepth - 1 } }
        h.emit ((h.store ic depth).endValueScope)          -- FieldActivator::endValueScopeFor
      | none => { h with matchers := h.matchers.set j { m with st := st, elemDepth := m.elemDepth - 1 } }

/-- ValueStoreCache::transplant -/
def transplant (h : HSt) (ic depth : Nat) : HSt :=
  let newVals := (h.store ic depth).tuples
  match lookup h.gmap ic with
  | some cur => { h with gmap := insert h.gmap ic (appendTuples cur newVals) }
  | none => { h with gmap := insert h.gmap ic newVals }

/-- ValueStoreCache::endElement: merge the enclosing element's map into the current one -/
def cacheEndElement (h : HSt) : HSt :=
  match h.gstack with
  | [] => h
  | old :: rest =>
    let g := old.foldl (fun g p =>
      match lookup g p.1 with
      | none => insert g p.1 p.2
      | some cur => insert g p.1 (appendTuples cur p.2)) h.gmap
    { h with gmap := g, gstack := rest }

/-- IdentityConstraintHandler::activateIdentityConstraint -/
def activate (cs : List IC) (h : HSt) (n : Node) (depth : Nat) : HSt :=
  let ics := cs.filter fun ic => decide (ic.scope = n.name)
  if ics.isEmpty && h.matchers.isEmpty then h else
  -- fValueStoreCache->startElement(); fMatcherStack->pushContext()
  let h := { h with gstack := h.gmap :: h.gstack, gmap := [], ctx := h.matchers.length :: h.ctx }
  -- initValueStoresFor: a fresh (or cleared) store per constraint of this element at this depth
  let h := ics.foldl (fun h ic => h.setStore ic.id depth { kind := ic.kind, nFields := ic.fields.length }) h
  -- activateSelectorFor
  let h := ics.foldl (fun h ic => { h with matchers := h.matchers ++ [Matcher.fresh (.selector ic.id depth) ic.sel] }) h
  let count := h.matchers.length
  (List.range count).foldl (fun h j => matcherStart cs h j n) h

/-- IdentityConstraintHandler::deactivateContext -/
def deactivate (cs : List IC) (h : HSt) (n : Node) : HSt :=
  let ics := cs.filter fun ic => decide (ic.scope = n.name)
  let oldCount := h.matchers.length
  if oldCount == 0 && ics.isEmpty then h else
  let h := (List.range oldCount).reverse.foldl (fun h j => matcherEnd cs h j n) h
  let newCount := h.ctx.headD 0
  let popped := (h.matchers.drop newCount).reverse
  let h := { h with ctx := h.ctx.tail, matchers := h.matchers.take newCount }
  -- everything but keyrefs: transplant
  let h := popped.foldl (fun h m =>
    match m.kind with
    | .selector ic depth => (match icKind cs ic with | .keyref _ => h | _ => transplant h ic depth)
    | _ => h) h
  -- keyrefs: endDocumentFragment
  let h := popped.foldl (fun h m =>
    match m.kind with
    | .selector ic depth =>
      (match icKind cs ic with
       | .keyref refer => h.emit (keyrefCheck (h.store ic depth).tuples (lookup h.gmap refer))
       | _ => h)
    | _ => h) h
  cacheEndElement h

mutual
/-- the scanner's traversal: start tag, content, end tag -/
def runNode (cs : List IC) (h : HSt) (depth : Nat) : Node → HSt
  | .mk i nm a b ats tx kids =>
      let n := Node.mk i nm a b ats tx kids
      let h := activate cs h n depth
      let h := runKids cs h (depth + 1) kids
      deactivate cs h n
def runKids (cs : List IC) (h : HSt) (depth : Nat) : List Node → HSt
  | [] => h
  | k :: ks => runKids cs (runNode cs h depth k) depth ks
end

/-- the XMLValid codes the handler emits for a document, in order -/
def icRun (cs : List IC) (root : Node) : List Nat := (runNode cs {} 0 root).errs

/-! ## A single matcher driven over a tree (the direct XPathMatcher correspondence and `matcher_eq_path`) -/

mutual
/-- drive one XPathMatcher over a tree: per element in document order the states of every location path after
    startElement; and the `matched()` calls (element id, and the attribute value for the attribute axis) in call order -/
def driveNode (paths : List Path) (st : List PSt) : Node → List PSt × List (List PSt) × List (Nat × Option TV)
  | .mk i nm _ _ ats _ kids =>
      let (st1, vals) := startAll paths st nm ats
      let (st2, fl, calls) := driveKids paths st1 kids
      let (st3, n) := endAll st2
      (st3, st1 :: fl, (vals.map fun v => (i, some v)) ++ calls ++ (List.replicate n (i, none)))
def driveKids (paths : List Path) (st : List PSt) : List Node → List PSt × List (List PSt) × List (Nat × Option TV)
  | [] => (st, [], [])
  | k :: ks =>
      let (st1, f1, c1) := driveNode paths st k
      let (st2, f2, c2) := driveKids paths st1 ks
      (st2, f1 ++ f2, c1 ++ c2)
end

mutual
/-- one location path of an XPathMatcher driven over a tree (the paths of a union do not interact):
    final state, state after every startElement in document order, `matched()` calls in call order -/
def run1 (steps : Path) (s : PSt) : Node → PSt × List PSt × List (Nat × Option TV)
  | .mk i nm _ _ ats _ kids =>
      let r := startPath steps s nm ats
      let r2 := run1s steps r.1 kids
      let e := endPath r2.1
      (e.1, r.1 :: r2.2.1,
       (match r.2 with | some v => [(i, some v)] | none => []) ++ r2.2.2 ++ (if e.2 then [(i, none)] else []))
def run1s (steps : Path) (s : PSt) : List Node → PSt × List PSt × List (Nat × Option TV)
  | [] => (s, [], [])
  | k :: ks =>
      let r := run1 steps s k
      let r2 := run1s steps r.1 ks
      (r2.1, r.2.1 ++ r2.2.1, r.2.2 ++ r2.2.2)
end

/-- a fresh matcher (after startDocumentFragment) driven over the tree rooted at the context element -/
def drive (xp : XPath) (ctx : Node) : List (List PSt) × List (Nat × Option TV) :=
  let r := driveNode xp (xp.map fun _ => {}) ctx
  (r.2.1, r.2.2)

end XV.Model.Identity
