/-
Model of the xs:duration path of util/XMLDateTime.cpp, written after the C++: parseDuration (index arithmetic on
fBuffer with indexOf / parseInt), addDuration (a duration added to one of the four reference dateTimes DATETIMES[]),
compareResult(resultA, resultB, strict) and compare(pDate1, pDate2, strict).  Reuses the field record, monthNorm,
carryFix, maxDayInMonthFor, normalize and compareOrder of XV.Model.DateTime.

`repaired = true` adds the one check parseDuration lacks: a designator must be preceded by at least one digit
(`parseInt(start, end)` returns 0 for the empty range, so "PY", "PT.5S", "P1YM" are accepted as they stand).
-/
import XV.Model.DateTime
namespace XV.Model.Duration
open XV.Model.DateTime

def chP : Nat := 0x50
def chDash : Nat := 0x2D
def chT : Nat := 0x54
def chY : Nat := 0x59
def chM : Nat := 0x4D
def chD : Nat := 0x44
def chH : Nat := 0x48
def chS : Nat := 0x53
def chPeriod : Nat := 0x2E

/-- `indexOf(start, end, ch)`; `none` = NOT_FOUND -/
def indexOf (buf : List Nat) (start end_ : Nat) (ch : Nat) : Option Nat :=
  (List.range (end_ - start)).findSome? (fun k => if buf.getD (start + k) 0 == ch then some (start + k) else none)

/-- `parseInt(start, end)`; `none` = NumberFormatException; the empty range gives 0 -/
def parseInt (buf : List Nat) (start end_ : Nat) : Option Nat :=
  (List.range (end_ - start)).foldl (fun acc k => match acc with
    | none => none
    | some v =>
      let c := buf.getD (start + k) 0
      if c < 0x30 || c > 0x39 then none else some (v * 10 + (c - 0x30))) (some 0)

/-- one `n X` component: (new fStart, value, seen); `none` = exception -/
def component (repaired : Bool) (buf : List Nat) (fStart limit : Nat) (ch : Nat) : Option (Nat × Nat × Bool) :=
  match indexOf buf fStart limit ch with
  | none => some (fStart, 0, false)
  | some e =>
    if repaired && e == fStart then none
    else match parseInt buf fStart e with
      | none => none
      | some v => some (e + 1, v, true)

/-- `XMLDateTime::parseDuration`; `none` = exception -/
def parseDuration (repaired : Bool) (buf : List Nat) : Option DT :=
  let fEnd := buf.length
  if fEnd == 0 then none else
  let c := buf.getD 0 0
  if c != chP && c != chDash then none else
  if c == chDash && buf.getD 1 0 != chP then none else
  let fStart := if c == chDash then 2 else 1
  let utc := if c == chDash then UTC_NEG else UTC_STD
  let negate : Int := if c == chDash then -1 else 1
  if (indexOf buf fStart fEnd chDash).isSome then none else
  let endDate := (indexOf buf fStart fEnd chT).getD fEnd
  match component repaired buf fStart endDate chY with
  | none => none
  | some (s1, y, d1) =>
  match component repaired buf s1 endDate chM with
  | none => none
  | some (s2, mo, d2) =>
  match component repaired buf s2 endDate chD with
  | none => none
  | some (s3, dd, d3) =>
  if fEnd == endDate && s3 != fEnd then none else
  let dateSeen := d1 || d2 || d3
  if fEnd != endDate then
    -- 'T' present: skip it
    match component repaired buf (s3 + 1) fEnd chH with
    | none => none
    | some (t1, h, e1) =>
    match component repaired buf t1 fEnd chM with
    | none => none
    | some (t2, mi, e2) =>
    -- seconds
    match indexOf buf t2 fEnd chS with
    | none =>
      if t2 != fEnd || buf.getD (t2 - 1) 0 == chT then none
      else if !(dateSeen || e1 || e2) then none
      else some ⟨negate * y, negate * mo, negate * dd, negate * h, negate * mi, 0, [], utc, 0, 0, false⟩
    | some e =>
      if repaired && e == t2 then none else
      match indexOf buf t2 e chPeriod with
      | some ml =>
        if ml + 1 == e then none
        else if repaired && ml == t2 then none
        else match parseInt buf t2 ml, parseInt buf (ml + 1) e with
          | some sec, some _ =>
            if e + 1 != fEnd then none
            else some ⟨negate * y, negate * mo, negate * dd, negate * h, negate * mi, negate * sec,
                       ((buf.drop (ml + 1)).take (e - ml - 1)).map (· - 0x30), utc, 0, 0, false⟩
          | _, _ => none
      | none =>
        match parseInt buf t2 e with
        | some sec =>
          if e + 1 != fEnd then none
          else some ⟨negate * y, negate * mo, negate * dd, negate * h, negate * mi, negate * sec, [], utc, 0, 0, false⟩
        | none => none
  else
    if !dateSeen then none
    else some ⟨negate * y, negate * mo, negate * dd, 0, 0, 0, [], utc, 0, 0, false⟩

/-- DATETIMES[index]: {CCYY, MM, DD, H, S, M, MS, utc} -/
def DATETIMES : List (Int × Int) := [(1696, 9), (1697, 2), (1903, 3), (1903, 7)]

/-- the `while (true)` loop of addDuration (same statements as in normalize); fuel bounds the number of months walked -/
def addLoop : Nat → DT → DT
  | 0, d => d
  | fuel + 1, d =>
    let temp := maxDayInMonthFor d.year d.month
    if d.day < 1 then
      let d1 := { d with day := d.day + maxDayInMonthFor d.year (d.month - 1) }
      let mc := monthNorm (d1.month + (-1))
      addLoop fuel { d1 with month := mc.1, year := d1.year + mc.2 }
    else if d.day > temp then
      let d1 := { d with day := d.day - temp }
      let mc := monthNorm (d1.month + 1)
      addLoop fuel { d1 with month := mc.1, year := d1.year + mc.2 }
    else d

/-- `addDuration(fNewDate, fDuration, index)` -/
def addDuration (dur : DT) (index : Nat) : DT :=
  let ref := DATETIMES.getD index (0, 0)
  let mc := monthNorm (ref.2 + dur.month)
  let year := ref.1 + dur.year + mc.2
  let se := carryFix (0 + dur.second) 60
  let mi := carryFix (0 + dur.minute + se.2) 60
  let hr := carryFix (0 + dur.hour + mi.2) 24
  let d0 : DT := ⟨year, mc.1, 1 + dur.day + hr.2, hr.1, mi.1, se.1, [], UTC_STD, 0, 0, false⟩
  addLoop (d0.day.natAbs / 28 + 4) d0

/-- `compareResult(resultA, resultB, strict)` -/
def compareResult (resultA resultB : Int) (strict : Bool) : Int :=
  if resultB == INDETERMINATE then INDETERMINATE
  else if resultA != resultB && strict then INDETERMINATE
  else if resultA != resultB && !strict then
    (if resultA != 0 && resultB != 0 then INDETERMINATE else (if resultA != 0 then resultA else resultB))
  else resultA

/-- `XMLDateTime::compare(pDate1, pDate2, strict)`; `steps` = how many of DATETIMES[1..] are consulted (3 in the code) -/
def compareDur (p1 p2 : DT) (strict : Bool) : Int :=
  if compareOrder p1 p2 == 0 then 0
  else
    let r0 := compareOrder (addDuration p1 0) (addDuration p2 0)
    if r0 == INDETERMINATE then INDETERMINATE else
    let r1 := compareResult r0 (compareOrder (addDuration p1 1) (addDuration p2 1)) strict
    if r1 == INDETERMINATE then INDETERMINATE else
    let r2 := compareResult r1 (compareOrder (addDuration p1 2) (addDuration p2 2)) strict
    if r2 == INDETERMINATE then INDETERMINATE else
    compareResult r2 (compareOrder (addDuration p1 3) (addDuration p2 3)) strict

end XV.Model.Duration
