/-
C19 — code-shaped model of the fetch decision logic (no Mathlib).

C++ under model (src/xercesc):
  internal/ReaderMgr.cpp          ReaderMgr::createReader(sysId, pubId, …, disableDefaultEntityResolution)
                                  ReaderMgr::createReader(baseURI, sysId, pubId, …)           -> `acquire`
  internal/IGXMLScanner.cpp       IGXMLScanner::scanDocTypeDecl   `if (fLoadExternalDTD || fValidate)`   (DGXMLScanner same)
  internal/WFXMLScanner.cpp       WFXMLScanner::scanDocTypeDecl   skips the DOCTYPE                      (SGXMLScanner same)
  internal/IGXMLScanner2.cpp      scanRawAttrListforNameSpaces `if (fDoSchema && fSeeXsi)`, parseSchemaLocation,
                                  resolveSchemaGrammar `if (fLoadSchema || ignoreLoadSchema)` … `if (fDisableDefaultEntityResolution) return;`
  validators/DTD/DTDScanner.cpp   scanEntityDecl (`decl.setBaseURI(lastInfo.systemId)`), expandPERef, scanEntityRef
  validators/schema/TraverseSchema.cpp  preprocessInclude / preprocessImport / openRedefinedSchema, resolveSchemaLocation

Every one of the five copies of the fetch logic has the same shape, `acquire`:
    expandSystemId (declined by the handlers)                     -> the literal system id is what the resolver sees
    srcToFill = fEntityHandler ? fEntityHandler->resolveEntity(&resourceIdentifier) : 0
    if (!srcToFill) { if (disableDefaultEntityResolution) return 0;
                      XMLURL urlTmp; if (!urlTmp.setURL(base, sysId, urlTmp) || urlTmp.isRelative()) LocalFileInputSource(base, sysId)
                      else URLInputSource(urlTmp) }                -> `World.defaultSource base sysId` (see XV.Model.Uri)
The *stream* of a default source is opened when the source is read (`Block.opened`); schema import/include/redefine and
xsi:schemaLocation first look the source's system id up in the list of schemas already seen (`want`).

The interpreter below walks an abstract description of the documents (which external identifiers occur where, in
document order) and logs one `Block` per fetch decision.  Its log type `Fetched` carries, for every block, the
proof that it was produced by `mkBlock` at a site the configuration permits (`XV.Spec.ExtGate.mayFetch`): the
interpreter cannot even be written down so as to fetch at a site without first testing that site's gate.

DEVIATION FROM THE CODE AS IT IS (deliberate, reported as a defect): schema documents are parsed by an inner
XSDDOMParser which in the unchanged tree does NOT inherit disableDefaultEntityResolution / loadExternalDTD (nor the
SecurityManager); a DOCTYPE inside a schema document is therefore fetched by default resolution whatever the
application configured.  The model lets the inner parser inherit them (fixes/c19-schema-parser-inherits-entity-settings.diff).
-/
import XV.Spec.ExtGate
namespace XV.Model.ExtGate
open XV.Spec.ExtGate

inductive RType where
  | schemaGrammar | schemaImport | schemaInclude | schemaRedefine | externalEntity
  deriving Repr, DecidableEq, Inhabited

/-- XMLResourceIdentifier as handed to XMLEntityResolver::resolveEntity -/
structure ResId where
  type : RType
  systemId : String
  baseURI : String
  publicId : String := ""
  ns : String := ""
  deriving Repr, DecidableEq, Inhabited

inductive Target where
  | file (path : String)      -- XMLPlatformUtils::fgFileMgr->fileOpen(path)
  | net (url : String)        -- XMLPlatformUtils::fgNetAccessor->makeNew(url)
  deriving Repr, DecidableEq, Inhabited

structure Source where
  sysId : String              -- InputSource::getSystemId(): base URI for the external identifiers read from it
  key : String                -- which content it delivers
  deriving Repr, DecidableEq, Inhabited

inductive DtdItem where
  | declGE (name sysId pubId : String)      -- <!ENTITY n PUBLIC "pubId" "sysId">
  | declPE (name sysId pubId : String)      -- <!ENTITY % n …>
  | refPE (name : String)                   -- %n;
  | declIntPE (name : String) (text : List DtdItem)
      -- <!ENTITY % n "…declarations…">: an INTERNAL parameter entity whose replacement text is itself DTD text
  deriving Repr, Inhabited

inductive BodyItem where
  | refGE (name : String)                               -- &n;
  | schemaLoc (pairs : List (String × String))          -- xsi:schemaLocation="ns loc ns loc"
  | noNsLoc (loc : String)                              -- xsi:noNamespaceSchemaLocation="loc"
  deriving Repr, DecidableEq, Inhabited

inductive XsItem where
  | imp (ns loc : String)
  | inc (loc : String)
  | redef (loc : String)
  deriving Repr, DecidableEq, Inhabited

structure Doctype where
  extId : Option (String × String)          -- (systemId, publicId) of the external subset
  intSubset : List DtdItem
  deriving Repr, Inhabited

inductive Content where
  | doc (dt : Option Doctype) (body : List BodyItem)                                  -- instance document
  | dtd (items : List DtdItem)                                                        -- external subset / external PE
  | ent (body : List BodyItem)                                                        -- external parsed general entity
  | schema (dt : Option Doctype) (targetNs : String) (items : List XsItem) (body : List BodyItem)
  | unreachable                                                                       -- the net accessor throws
  deriving Repr, Inhabited

structure World where
  answer : ResId → Option Source                        -- the application's resolver; `none` = declines
  defaultSource : String → String → Target × Source     -- (base, systemId) ↦ what default resolution opens
  content : String → Option Content                     -- `none` = the file cannot be opened

/-- one fetch decision -/
structure Block where
  ctx : Ctx
  site : Site
  rid : ResId                   -- the identifier the code builds
  container : String            -- system id of the entity in which the external identifier was read
  offered : Option ResId        -- what the resolver was shown (`none` = no resolver call)
  supplied : Option Source      -- the resolver's answer
  opened : Option Target        -- default resolution opened this
  used : Option Source          -- the source whose content is then parsed
  deriving Repr, Inhabited

/-- SAX2XMLReaderImpl::resolveEntity / AbstractDOMParser: a SAX EntityResolver sees (publicId, systemId) only -/
def saxView (r : ResId) : ResId := { r with type := .externalEntity, baseURI := "", ns := "" }

def offer (cfg : Cfg) (r : ResId) : Option ResId :=
  match cfg.resolver with
  | .none => none
  | .xml => some r
  | .sax => some (saxView r)

/-- resolver first; then, unless default resolution is disabled, the parser's own source:
      srcToFill = resolver's answer;
      if (!srcToFill) { if (disableDefaultEntityResolution) return 0; srcToFill = URLInputSource / LocalFileInputSource }
    the default source's stream is opened only if the caller goes on to read it (`want`) -/
def mkBlock (w : World) (cfg : Cfg) (ctx : Ctx) (site : Site) (rid : ResId) (container : String)
    (want : Source → Bool) : Block :=
  let offered := offer cfg rid
  let supplied := offered.bind w.answer
  let d := w.defaultSource rid.baseURI rid.systemId
  let openDefault : Bool := supplied.isNone && !cfg.disableDefault && want d.2
  { ctx, site, rid, container, offered, supplied,
    opened := if openDefault then some d.1 else none,
    used := match supplied with
      | some s => if want s then some s else none
      | none => if openDefault then some d.2 else none }

/-- what must hold of every fetch (the property, per block) -/
structure Block.WF (w : World) (cfg : Cfg) (b : Block) : Prop where
  permitted : mayFetch cfg b.ctx b.site = true
  base : b.rid.baseURI = b.container
  offered : b.offered = offer cfg b.rid
  supplied : b.supplied = b.offered.bind w.answer
  opened : ∀ t, b.opened = some t →
    b.supplied = none ∧ cfg.disableDefault = false ∧ t = (w.defaultSource b.rid.baseURI b.rid.systemId).1 ∧
    b.used = some (w.defaultSource b.rid.baseURI b.rid.systemId).2
  used : ∀ s, b.supplied = some s → b.opened = none ∧ (b.used = some s ∨ b.used = none)
  usedFrom : ∀ s, b.used = some s → b.supplied = some s ∨ ∃ t, b.opened = some t

theorem mkBlock_wf (w : World) (cfg : Cfg) (ctx : Ctx) (site : Site) (rid : ResId) (want : Source → Bool)
    (h : mayFetch cfg ctx site = true) : (mkBlock w cfg ctx site rid rid.baseURI want).WF w cfg := by
  refine ⟨h, rfl, rfl, rfl, ?_, ?_, ?_⟩
  · intro t ht
    simp only [mkBlock] at ht ⊢
    cases hs : (offer cfg rid).bind w.answer with
    | some s => simp [hs] at ht
    | none =>
      simp only [hs, Option.isNone_none, Bool.true_and] at ht ⊢
      by_cases hd : cfg.disableDefault = true
      · simp [hd] at ht
      · have hd' : cfg.disableDefault = false := by simpa using hd
        simp only [hd', Bool.not_false, Bool.true_and] at ht ⊢
        by_cases hw : want (w.defaultSource rid.baseURI rid.systemId).2 = true
        · simp only [hw, if_true, Option.some.injEq] at ht ⊢
          exact ⟨trivial, trivial, ht.symm, trivial⟩
        · simp [hw] at ht
  · intro s hs
    simp only [mkBlock] at hs ⊢
    simp only [hs, Option.isNone_some, Bool.false_and, Bool.false_eq_true, if_false, true_and]
    by_cases hw : want s = true <;> simp [hw]
  · intro s hu
    simp only [mkBlock] at hu ⊢
    cases hs : (offer cfg rid).bind w.answer with
    | some s' =>
      left
      simp only [hs] at hu
      by_cases hw : want s' = true
      · simp only [hw, if_true, Option.some.injEq] at hu; rw [hu]
      · simp [hw] at hu
    | none =>
      right
      simp only [hs, Option.isNone_none, Bool.true_and] at hu ⊢
      by_cases ho : (!cfg.disableDefault && want (w.defaultSource rid.baseURI rid.systemId).2) = true
      · simp [ho]
      · simp [ho] at hu

/-- a logged fetch: a block together with the evidence that it is well-formed -/
def Fetched (w : World) (cfg : Cfg) := { b : Block // b.WF w cfg }

structure Decl where
  sysId : String
  pubId : String
  baseURI : String          -- XMLEntityDecl::getBaseURI(): `decl.setBaseURI(lastInfo.systemId)` in scanEntityDecl
  declaredIn : String       -- (ghost) system id of the entity that contains the declaration
  deriving Repr, DecidableEq, Inhabited

def DeclOK := { d : Decl // d.baseURI = d.declaredIn }

structure St (w : World) (cfg : Cfg) where
  ge : List (String × DeclOK) := []
  pe : List (String × DeclOK) := []
  ipe : List (String × List DtdItem) := []   -- internal parameter entities (replacement text)
  sawExtOrPE : Bool := false                 -- !fHasNoDTD: an external subset or a PE reference was seen
  grammars : List String := []               -- namespaces for which the grammar resolver has a schema grammar
  seen : List (String × String) := []        -- fSchemaInfoList keys: (schema URL, namespace)
  log : List (Fetched w cfg) := []           -- newest first
  fatal : Option String := none              -- first fatal error (exit-on-first-fatal: the parse ends)

section interp
variable {w : World} {cfg : Cfg}

def St.fail (st : St w cfg) (why : String) : St w cfg :=
  if st.fatal.isSome then st else { st with fatal := some why }

def lookupDecl (l : List (String × DeclOK)) (n : String) : Option DeclOK :=
  match l with
  | [] => none
  | (m, d) :: rest => if m = n then some d else lookupDecl rest n

def lookupText (l : List (String × List DtdItem)) (n : String) : Option (List DtdItem) :=
  match l with
  | [] => none
  | (m, d) :: rest => if m = n then some d else lookupText rest n

/-- first declaration binds -/
def declare (l : List (String × DeclOK)) (n : String) (d : DeclOK) : List (String × DeclOK) :=
  match lookupDecl l n with
  | some _ => l
  | none => l ++ [(n, d)]

/-- log one fetch at a permitted site; returns the source to read, if any -/
def fetch (st : St w cfg) (ctx : Ctx) (site : Site) (h : mayFetch cfg ctx site = true) (rid : ResId)
    (want : Source → Bool) : St w cfg × Option Source :=
  let b := mkBlock w cfg ctx site rid rid.baseURI want
  ({ st with log := ⟨b, mkBlock_wf w cfg ctx site rid want h⟩ :: st.log }, b.used)

def mkDecl (sysId pubId cur : String) : DeclOK := ⟨{ sysId, pubId, baseURI := cur, declaredIn := cur }, rfl⟩

mutual

/-- DTDScanner over the declarations of the internal subset, the external subset or an external parameter entity;
    `cur` = system id of the entity being read (ReaderMgr::getLastExtEntityInfo) -/
def dtdItems : Nat → Ctx → String → List DtdItem → St w cfg → St w cfg
  | 0, _, _, _, st => st.fail "depth"
  | _ + 1, _, _, [], st => st
  | f + 1, ctx, cur, it :: rest, st =>
    if st.fatal.isSome then st else
    match it with
    | .declGE n s p => dtdItems f ctx cur rest { st with ge := declare st.ge n (mkDecl s p cur) }
    | .declPE n s p =>
      if (lookupText st.ipe n).isSome then dtdItems f ctx cur rest st        -- first declaration binds
      else dtdItems f ctx cur rest { st with pe := declare st.pe n (mkDecl s p cur) }
    | .declIntPE n text =>
      if (lookupText st.ipe n).isSome || (lookupDecl st.pe n).isSome then dtdItems f ctx cur rest st
      else dtdItems f ctx cur rest { st with ipe := st.ipe ++ [(n, text)] }
    | .refPE n =>
      -- DTDScanner::expandPERef: fScanner->setHasNoDTD(false)
      let st := { st with sawExtOrPE := true }
      match lookupText st.ipe n with
      | some text =>
        -- createIntEntReader: the replacement text is read by an in-memory reader WITHOUT a system id; declarations
        -- scanned from it take their base from ReaderMgr::getLastExtEntityInfo, which looks through internal
        -- entities: `cur` stays the system id of the innermost EXTERNAL entity being read
        dtdItems f ctx cur rest (dtdItems f ctx cur text st)
      | none =>
      match lookupDecl st.pe n with
      | none => dtdItems f ctx cur rest st       -- not declared: a validity error at most, scanning continues
      | some d =>
        if h : mayFetch cfg ctx .paramEntity = true then
          -- fReaderMgr->createReader(decl->getBaseURI(), decl->getSystemId(), decl->getPublicId(), …)
          let r := fetch st ctx .paramEntity h
            { type := .externalEntity, systemId := d.1.sysId, baseURI := d.1.baseURI, publicId := d.1.pubId } (fun _ => true)
          match r.2 with
          | none => r.1.fail "noopen"            -- ThrowXML Gen_CouldNotOpenExtEntity
          | some s =>
            match w.content s.key with
            | some (.dtd items) => dtdItems f ctx cur rest (dtdItems f ctx s.sysId items r.1)
            | some .unreachable => r.1.fail "netfail"
            | _ => r.1.fail "noopen"
        else st

/-- element content in document order (also the content of an external parsed entity) -/
def bodyItems : Nat → Ctx → String → List BodyItem → St w cfg → St w cfg
  | 0, _, _, _, st => st.fail "depth"
  | _ + 1, _, _, [], st => st
  | f + 1, ctx, cur, it :: rest, st =>
    if st.fatal.isSome then st else
    match it with
    | .refGE n =>
      match lookupDecl st.ge n with
      | none =>
        -- scanEntityRef: `if (fStandalone || fHasNoDTD) emitError(EntityNotFound)` (fatal), else a validity error at most
        if st.sawExtOrPE then bodyItems f ctx cur rest st else st.fail "notfound"
      | some d =>
        if h : mayFetch cfg ctx .generalEntity = true then
          let r := fetch st ctx .generalEntity h
            { type := .externalEntity, systemId := d.1.sysId, baseURI := d.1.baseURI, publicId := d.1.pubId } (fun _ => true)
          match r.2 with
          | none => r.1.fail "noopen"
          | some s =>
            match w.content s.key with
            | some (.ent body) => bodyItems f ctx cur rest (bodyItems f ctx s.sysId body r.1)
            | some .unreachable => r.1.fail "netfail"
            | _ => r.1.fail "noopen"
        else st
    | .schemaLoc pairs =>
      -- scanRawAttrListforNameSpaces: `if (fDoSchema && fSeeXsi)` … parseSchemaLocation
      if ctx = .instance && readsSchema cfg then bodyItems f ctx cur rest (schemaPairs f .schemaLocation cur pairs st)
      else bodyItems f ctx cur rest st
    | .noNsLoc loc =>
      if ctx = .instance && readsSchema cfg then bodyItems f ctx cur rest (schemaPairs f .noNsSchemaLocation cur [("", loc)] st)
      else bodyItems f ctx cur rest st

/-- IGXMLScanner::resolveSchemaGrammar(loc, uri) for each pair -/
def schemaPairs : Nat → Site → String → List (String × String) → St w cfg → St w cfg
  | 0, _, _, _, st => st.fail "depth"
  | _ + 1, _, _, [], st => st
  | f + 1, site, cur, (ns, loc) :: rest, st =>
    if st.fatal.isSome then st else
    if st.grammars.contains ns then schemaPairs f site cur rest st        -- fGrammarResolver->getGrammar(&description) found
    else
      if h : mayFetch cfg .instance site = true then                      -- `if (fLoadSchema || ignoreLoadSchema)`
        let r := fetch st .instance site h
          { type := .schemaGrammar, systemId := loc, baseURI := cur, ns := ns }
          (fun s => !(st.seen.contains (s.sysId, ns)))                    -- fSchemaInfoList->get(sysId, uriId)
        match r.2 with
        | none => schemaPairs f site cur rest r.1                         -- `return;` (disabled / already seen)
        | some s => schemaPairs f site cur rest (schemaDoc f s ns true r.1)
      else schemaPairs f site cur rest st

/-- parse a schema document with the inner XSDDOMParser and traverse it;
    `top` = loaded through xsi:schemaLocation (the document's own targetNamespace wins), else through import -/
def schemaDoc : Nat → Source → String → Bool → St w cfg → St w cfg
  | 0, _, _, _, st => st.fail "depth"
  | f + 1, s, ns, top, st =>
    match w.content s.key with
    | some (.schema dt tns items body) =>
      -- inner parser: its own entity tables; validation never
      let inner : St w cfg := { st with ge := [], pe := [], ipe := [], sawExtOrPE := false }
      let st1 := bodyItems f .schemaDoc s.sysId body (doctype f .schemaDoc s.sysId dt inner)
      let st2 : St w cfg := { st1 with ge := st.ge, pe := st.pe, ipe := st.ipe, sawExtOrPE := st.sawExtOrPE }
      if st2.fatal.isSome then st2                                        -- SchemaScanFatalError
      else
        let ns' := if top then tns else ns
        if !top && tns != ns then st2                                     -- ImportNamespaceDifference: not traversed
        else if top && tns != ns && st2.grammars.contains tns then st2    -- grammar for the real namespace already there
        else
          let st3 : St w cfg := { st2 with grammars := ns' :: st2.grammars, seen := (s.sysId, ns') :: st2.seen }
          xsItems f s.sysId ns' items st3
    | some .unreachable => st.fail "netfail"
    | _ => st                                                             -- not found: a warning, parsing goes on

/-- TraverseSchema::preprocessChildren over import / include / redefine; `cur` = fSchemaInfo->getCurrentSchemaURL() -/
def xsItems : Nat → String → String → List XsItem → St w cfg → St w cfg
  | 0, _, _, _, st => st.fail "depth"
  | _ + 1, _, _, [], st => st
  | f + 1, cur, tns, it :: rest, st =>
    if st.fatal.isSome then st else
    match it with
    | .inc loc =>
      if h : mayFetch cfg .schemaDoc .xsInclude = true then
        let r := fetch st .schemaDoc .xsInclude h { type := .schemaInclude, systemId := loc, baseURI := cur }
          (fun s => !(st.seen.contains (s.sysId, tns)))
        match r.2 with
        | none => xsItems f cur tns rest r.1
        | some s => xsItems f cur tns rest (included f s tns r.1)
      else xsItems f cur tns rest st
    | .redef loc =>
      if h : mayFetch cfg .schemaDoc .xsRedefine = true then
        let r := fetch st .schemaDoc .xsRedefine h { type := .schemaRedefine, systemId := loc, baseURI := cur }
          (fun s => s.sysId != cur && !(st.seen.contains (s.sysId, tns)))
        match r.2 with
        | none => xsItems f cur tns rest r.1
        | some s => xsItems f cur tns rest (included f s tns r.1)
      else xsItems f cur tns rest st
    | .imp ns loc =>
      if ns = tns then xsItems f cur tns rest st                          -- Import_1_1
      else
        if h : mayFetch cfg .schemaDoc .xsImport = true then
          let found := st.grammars.contains ns
          let r := fetch st .schemaDoc .xsImport h { type := .schemaImport, systemId := loc, baseURI := cur, ns := ns }
            (fun s => !(st.seen.contains (s.sysId, ns)) && !found)
          match r.2 with
          | none => xsItems f cur tns rest r.1
          | some s => xsItems f cur tns rest (schemaDoc f s ns false r.1)
        else xsItems f cur tns rest st

/-- an included / redefined schema document: same target namespace (or none: chameleon) -/
def included : Nat → Source → String → St w cfg → St w cfg
  | 0, _, _, st => st.fail "depth"
  | f + 1, s, tns, st =>
    match w.content s.key with
    | some (.schema dt tns' items body) =>
      let inner : St w cfg := { st with ge := [], pe := [], ipe := [], sawExtOrPE := false }
      let st1 := bodyItems f .schemaDoc s.sysId body (doctype f .schemaDoc s.sysId dt inner)
      let st2 : St w cfg := { st1 with ge := st.ge, pe := st.pe, ipe := st.ipe, sawExtOrPE := st.sawExtOrPE }
      if st2.fatal.isSome then st2
      else if tns' != "" && tns' != tns then st2                          -- IncludeNamespaceDifference
      else xsItems f s.sysId tns items { st2 with seen := (s.sysId, tns) :: st2.seen }
    | some .unreachable => st.fail "netfail"
    | _ => st

/-- the DOCTYPE declaration: internal subset first, then the external subset behind its gate -/
def doctype : Nat → Ctx → String → Option Doctype → St w cfg → St w cfg
  | 0, _, _, _, st => st.fail "depth"
  | _ + 1, _, _, none, st => st
  | f + 1, ctx, cur, some dt, st =>
    if ctx = .instance && !readsDTD cfg then st                           -- WF / SG scanners skip the DOCTYPE
    else
      let st0 : St w cfg := { st with sawExtOrPE := st.sawExtOrPE || dt.extId.isSome }
      let st1 := dtdItems f ctx cur dt.intSubset st0
      if st1.fatal.isSome then st1 else
      match dt.extId with
      | none => st1
      | some (sys, pub) =>
        if h : mayFetch cfg ctx .extSubset = true then                    -- `if (fLoadExternalDTD || fValidate)`
          -- fReaderMgr.createReader(sysId, pubId, …): base = getLastExtEntityInfo().systemId
          let r := fetch st1 ctx .extSubset h { type := .externalEntity, systemId := sys, baseURI := cur, publicId := pub }
            (fun _ => true)
          match r.2 with
          | none => r.1.fail "noopen"                                     -- ThrowXML Gen_CouldNotOpenDTD
          | some s =>
            match w.content s.key with
            | some (.dtd items) => dtdItems f ctx s.sysId items r.1
            | some .unreachable => r.1.fail "netfail"
            | _ => r.1.fail "noopen"
        else st1

end

end interp

/-- the whole parse of the document `key` known under system id `sysId` -/
def parse (w : World) (cfg : Cfg) (fuel : Nat) (sysId key : String) : St w cfg :=
  match w.content key with
  | some (.doc dt body) => bodyItems fuel .instance sysId body (doctype fuel .instance sysId dt {})
  | _ => ({} : St w cfg).fail "noopen"

inductive Event where
  | resolve (r : ResId)
  | openFile (p : String)
  | netAccess (u : String)
  deriving Repr, DecidableEq, Inhabited

def Target.event : Target → Event
  | .file p => .openFile p
  | .net u => .netAccess u

/-- the observable events of one fetch, in the order the code produces them -/
def Block.events (b : Block) : List Event :=
  (match b.offered with | some r => [Event.resolve r] | none => []) ++
  (match b.opened with | some t => [t.event] | none => [])

/-- the observable trace of a parse (after the opening of the document itself) -/
def trace {w : World} {cfg : Cfg} (st : St w cfg) : List Event :=
  (st.log.reverse.map (fun b => b.1.events)).flatten

end XV.Model.ExtGate
