/-
C20 — code-shaped model of the XInclude processor
  src/xercesc/xinclude/XIncludeUtils.cpp   parseDOMNodeDoingXInclude / doDOMNodeXInclude /
                                           doXIncludeXMLFileDOM / doXIncludeTEXTFileDOM / history stack
  src/xercesc/xinclude/XIncludeLocation.cpp  prependPath
  src/xercesc/xinclude/XIncludeDOMDocumentProcessor.cpp, parsers/AbstractDOMParser.cpp (entry points)
Error codes: XV.Gen.XIncludeErrs (regenerated from framework/XMLErrorCodes.hpp by tools/translate_more.py).

How the C++ is represented
* DOM tree + in-place replacement  ->  a function from the source nodes to the list of nodes that replace them.
  `includeParent->replaceChild(frag, xincludeNode)` followed by the `delayedProcessing` loop is "process the spliced
  nodes in the context of the include's parent".
* `DOMNode::getBaseURI()`  ->  the context argument `pb` (resolved base of the parent) and `resolveBase`.
  The `xml:base` attribute a fix-up writes on a spliced top-level node (`setAttribute(fgXIBaseAttrName, ...)`) is the
  argument `pre`; `applyPre pre b` is the attribute the node has afterwards (`getBaseAttrValue(node)==NULL` ? new :
  `XIncludeLocation(own).prependPath(new)`).  It is threaded as an argument instead of rewriting the nodes first so
  that the recursion stays structural.  The result lists every element with its RESOLVED base (`Base.abs`), which is
  what the harness observes (`getBaseURI()` of every element), so "modulo xml:base attributes" is built in.
* The inclusion history `fIncludeHistoryHead` (a singly linked list used as a stack: add = append at the tail,
  pop = remove the tail, isIn = linear search)  ->  the list argument `h` (most recent first).  `add` before processing
  the spliced nodes and `pop` afterwards is "pass `t :: h` to the recursive call, keep `h` for the siblings".
* The recursion into an included document goes through the argument `rec`; `procFuel` closes the knot by recursion on
  a fuel `n`, so everything is structural and kernel-reducible.  `process` starts with `fs.length + 1`; that this is
  never exhausted — because every nested level pushes a new, distinct, existing document onto the history stack — is
  `XV.Props.C20.process_total`.

Where the model states the behaviour the property demands rather than what the pinned code does (each reported by
tools/props/c20.py as a finding with a replay; see fixes/):
* D1  `AbstractDOMParser::endElement` runs the processor on every `xi:include` as soon as its end tag is seen, i.e.
      bottom-up, also inside an `xi:fallback` that will never be used and inside an `xi:include` that is itself
      unusable; the model (and the C++ processor itself for included documents) works top-down.
* D2  `doXIncludeXMLFileDOM`: an included document element that has an `xml:base` of its own gets
      `prependPath(xml:base of the xi:include)` instead of `prependPath(relativeHref)`; model: `inclPre`.
* D3  `doXIncludeTEXTFileDOM`: the refill loop mishandles a multi-byte sequence that straddles a 16 KiB read; the
      model returns the decoded characters of the whole file.
* D4  `XIncludeLocation::prependPath` leaves `d1/../a.xml` un-normalised, and the history stack / the self-inclusion test
      compare these strings: a loop through `..` is found one round late, and a document that includes itself, reached
      through `..`, is not reported at all (in the second round doXIncludeXMLFileDOM's "paths differ" test — which looks
      at the include's own base URI instead of the base of the place the content goes to — suppresses the fix-up, so
      the inner href silently resolves against the wrong directory).  The model compares resolved URIs.
The as-is behaviour of D1, D2, D4 is modelled in XV.Model.XIncludeAsIs (driver only) so that the check can attribute a
disagreement exactly.  The "paths differ" test before writing the fix-up attribute is unobservable once hrefs are
normalised (resolved bases are compared) and is omitted here.

Definitions only; no Mathlib.
-/
import XV.Spec.XInclude
import XV.Gen.XIncludeErrs

namespace XV.Model.XInclude
open XV.Spec.XInclude
open XV.Gen.XIncludeErrs

structure Res where
  nodes : List Node
  errs : List Nat          -- XMLErrs codes in the order of the `reportError` calls
  deriving Repr, Inhabited

/-- pseudo code for "recursion budget exhausted" (XMLErrs::NoError is never reported) -/
def outOfFuel : Nat := 0

/-- `XIncludeLocation(href).prependPath(baseToAdd)`: the base up to and including its last `/`, then href.
    (A base whose last segment is `.`/`..` is read as a directory; an empty href leaves the base.) -/
def prependPath (baseToAdd : Ref) (href : Ref) : Ref :=
  if href = [] then baseToAdd else dir (fixRef baseToAdd) ++ href

/-- the xml:base of a spliced top-level node after the fix-up `pre` has been applied to it -/
def applyPre : Base → Base → Base
  | .inherit, b => b
  | .rel p, .inherit => .rel p
  | .rel p, .rel r => .rel (prependPath p r)
  | .rel _, .abs u => .abs u
  | .abs u, .inherit => .abs u
  | .abs u, .rel r => .abs (resolve u r)
  | .abs _, .abs v => .abs v

/-- `relativeLocation` of doDOMNodeXInclude: href with the include's own xml:base prepended; this is what
    doXIncludeXMLFileDOM writes as xml:base on the included document element -/
def inclPre (ib : Base) (href : Ref) : Base :=
  match ib with
  | .inherit => .rel href
  | .rel r => .rel (prependPath r href)
  | .abs u => .abs (resolve u href)

def badCode : BadKind → Nat
  | .noHref => XIncludeNoHref
  | .xpointer => XIncludeXPointerNotSupported
  | .badParse => XIncludeInvalidParseVal
  | .multiFallback => XIncludeMultipleFallbackElems
  | .disallowedChild => XIncludeDisallowedChild

abbrev Rec := List URI → URI → Base → List Node → Res

/-- doXIncludeXMLFileDOM up to the parse: the history test, the self-inclusion test, then the parser's verdict;
    returns the included document (or NULL) and the codes reported on the way -/
def doXIncludeXMLFileDOM (fs : FS) (root : URI) (h : List URI) (hrefLoc : URI) : Fetched × List Nat :=
  if hrefLoc ∈ h then (.none, [XIncludeCircularInclusionLoop])                    -- isInCurrentInclusionHistoryStack(href)
  else if hrefLoc = root then (.none, [XIncludeCircularInclusionDocIncludesSelf])  -- equals(href, parsedDocument->getBaseURI())
  else match fs.doc hrefLoc with
    | some d => (.doc d, [])
    | none => (.none, [])           -- parser.parse(href) saw an error: includedNode stays NULL

/-- doXIncludeTEXTFileDOM: transcoder for the encoding, open, read everything, one text node -/
def doXIncludeTEXTFileDOM (fs : FS) (hrefLoc : URI) (enc : Option String) : Fetched × List Nat :=
  match (if encSupported enc then fs.chars hrefLoc else none) with
  | some cs => (.text cs, [])
  | none => (.none, [XIncludeCannotOpenFile])

/-- the `if (equals(parse, "xml")) … else if (equals(parse, "text")) …` of doDOMNodeXInclude -/
def fetchM (fs : FS) (root : URI) (h : List URI) (hrefLoc : URI) (parse : Parse) (enc : Option String) : Fetched × List Nat :=
  match parse with
  | .text => doXIncludeTEXTFileDOM fs hrefLoc enc
  | _ => doXIncludeXMLFileDOM fs root h hrefLoc

mutual
/-- parseDOMNodeDoingXInclude on one node that sits in a context with resolved base `pb`, after fix-up `pre` -/
def procNode (fs : FS) (root : URI) (rec : Rec) (h : List URI) (pb : URI) (pre : Base) : Node → Res
  | .elem n a b kids =>
      -- not an XInclude element: walk the children
      let eb := resolveBase pb (applyPre pre b)
      let r := procList fs root rec h eb .inherit kids
      ⟨[.elem n a (.abs eb) r.nodes], r.errs⟩
  | .leaf k t cs => ⟨[.leaf k t cs], []⟩
  | .fallback b kids =>
      -- isXIFallbackDOMNode(sourceNode): a fallback that is not a child of an include
      ⟨[annotate pb (.fallback (applyPre pre b) kids)], [XIncludeOrphanFallback]⟩
  | .bad k a b kids =>
      -- doDOMNodeXInclude returns false after reportError; the element stays
      ⟨[annotate pb (.bad k a (applyPre pre b) kids)], [badCode k]⟩
  | .incl href parse enc ib hasFb fb =>
      let ib' := applyPre pre ib
      let includeBase := resolveBase pb ib'               -- xincludeNode->getBaseURI()
      let hrefLoc := resolve includeBase href              -- hrefLoc.prependPath(includeBase)
      match fetchM fs root h hrefLoc parse enc with
      | (.doc d, _) =>
          -- addDocumentURIToCurrentInclusionHistoryStack(hrefLoc); the top-level nodes are spliced in with the base
          -- fix-up and processed in place (delayedProcessing); popFromCurrentInclusionHistoryStack
          rec (hrefLoc :: h) pb (inclPre ib' href) d
      | (.text cs, _) => ⟨[.leaf .text "" cs], []⟩         -- includeParent->replaceChild(includedText, xincludeNode)
      | (.none, errs0) =>
          -- includedDoc == NULL && includedText == NULL: a resource error; look for a fallback
          if hasFb then
            -- fallback children imported with the base fix-up, spliced, then processed in place; history untouched
            let r := procList fs root rec h pb ib' fb
            ⟨r.nodes, errs0 ++ [XIncludeIncludeFailedResourceError] ++ r.errs⟩
          else
            ⟨[annotate pb (.incl href parse enc ib' hasFb fb)],
             errs0 ++ [XIncludeIncludeFailedResourceError, XIncludeIncludeFailedNoFallback]⟩
def procList (fs : FS) (root : URI) (rec : Rec) (h : List URI) (pb : URI) (pre : Base) : List Node → Res
  | [] => ⟨[], []⟩
  | n :: ns =>
      let a := procNode fs root rec h pb pre n
      let b := procList fs root rec h pb pre ns
      ⟨a.nodes ++ b.nodes, a.errs ++ b.errs⟩
end

def procFuel (fs : FS) (root : URI) : Nat → Rec
  | 0 => fun _ _ _ _ => ⟨[], [outOfFuel]⟩
  | n + 1 => fun h pb pre ns => procList fs root (procFuel fs root n) h pb pre ns

/-- XInclude processing of the document at `root` (XercesDOMParser / DOMLSParser with XInclude on). -/
def process (fs : FS) (root : URI) : Res :=
  match fs.doc root with
  | some d => procFuel fs root (budget fs) [] root .inherit d
  | none => ⟨[], []⟩

/-- the error class of the recommendation a reported code belongs to (warnings: none) -/
def classOf (c : Nat) : Option ErrClass :=
  if c = XIncludeCircularInclusionLoop ∨ c = XIncludeCircularInclusionDocIncludesSelf then some .circular
  else if c = XIncludeIncludeFailedNoFallback then some .noFallback
  else if c = XIncludeOrphanFallback ∨ c = XIncludeNoHref ∨ c = XIncludeXPointerNotSupported ∨ c = XIncludeInvalidParseVal
          ∨ c = XIncludeMultipleFallbackElems ∨ c = XIncludeDisallowedChild then some .invalid
  else if c = outOfFuel then some .fuel
  else none

/-- severity letter as XMLErrs::errorType computes it from the bounds -/
def severity (c : Nat) : Char :=
  if W_LowBounds ≤ c ∧ c ≤ W_HighBounds then 'W'
  else if F_LowBounds ≤ c ∧ c ≤ F_HighBounds then 'F'
  else if E_LowBounds ≤ c ∧ c ≤ E_HighBounds then 'E'
  else '?'

end XV.Model.XInclude
