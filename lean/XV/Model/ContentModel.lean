/-
C07 — code-shaped models of the DTD content-model machinery (definitions only; no Mathlib).

  src/xercesc/validators/DTD/DTDScanner.cpp        scanChildren / scanMixed  -> `nodeOfCM`, `scanMixed`, `declOf`
  src/xercesc/validators/DTD/DTDElementDecl.cpp    makeContentModel / createChildModel -> `makeContentModel`, `createChildModel`
  src/xercesc/validators/DTD/DTDValidator.cpp      checkContent              -> `checkContent`
  src/xercesc/validators/common/SimpleContentModel.cpp  validateContent      -> `simpleValidate`
  src/xercesc/validators/common/MixedContentModel.cpp   ctor/buildChildList/validateContent -> `buildChildList`, `mixedValidate`
  src/xercesc/validators/common/DFAContentModel.cpp     buildDFA/buildSyntaxTree/validateContent
        + CMLeaf/CMUnaryOp/CMBinaryOp nullable/firstPos/lastPos          -> `buildSyntaxTree`, `buildDFA`, `dfaValidate`

Everything is the `fDTD == true` configuration (names compared by raw name; no wildcards, no `Loop`
nodes, hence `fCountingStates == 0` and `handleRepetitions` is the identity).  Children handed to
`validateContent` by the DTD scanners are element QNames (never the PCDATA pseudo element), so a child
sequence is a `List Name`.
-/
import XV.Spec.ContentModel
namespace XV.Model.ContentModel
open XV.Spec.ContentModel

/-- `ContentSpecNode::NodeTypes` (the values the DTD scanner produces) -/
inductive NodeType where
  | Leaf | ZeroOrOne | ZeroOrMore | OneOrMore | Choice | Sequence
  deriving Repr, DecidableEq, Inhabited

/-- the QName stored in a leaf `ContentSpecNode`: an element type, or the PCDATA pseudo element
    (URI `fgPCDataElemId`, empty raw name) that `scanMixed` creates -/
inductive QN where
  | pcdata
  | elem (n : Name)
  deriving Repr, DecidableEq, Inhabited

/-- `QName::getRawName()`: `none` is the empty string -/
def QN.rawName : QN → Option Name
  | .pcdata => none
  | .elem n => some n

inductive UnOp where
  | ZeroOrOne | ZeroOrMore | OneOrMore
  deriving Repr, DecidableEq, Inhabited

inductive BinOp where
  | Choice | Sequence
  deriving Repr, DecidableEq, Inhabited

def UnOp.type : UnOp → NodeType
  | .ZeroOrOne => .ZeroOrOne
  | .ZeroOrMore => .ZeroOrMore
  | .OneOrMore => .OneOrMore

def BinOp.type : BinOp → NodeType
  | .Choice => .Choice
  | .Sequence => .Sequence

/-- `ContentSpecNode` tree (binary; unary nodes have only `first`) -/
inductive Node where
  | leaf (q : QN)
  | unary (t : UnOp) (first : Node)
  | binary (t : BinOp) (first second : Node)
  deriving Repr, DecidableEq, Inhabited

def Node.type : Node → NodeType
  | .leaf _ => .Leaf
  | .unary t _ => t.type
  | .binary t _ _ => t.type

/-- `DTDElementDecl::ModelTypes` -/
inductive ModelType where
  | Empty | Any | Mixed_Simple | Children
  deriving Repr, DecidableEq, Inhabited

structure ElemDecl where
  modelType : ModelType
  contentSpec : Option Node
  deriving Repr, DecidableEq, Inhabited

/-! ### what DTDScanner builds -/

/-- `scanChildren`: the tree for a children content particle -/
def nodeOfCM : CM → Node
  | .leaf n => .leaf (.elem n)
  | .seq a b => .binary .Sequence (nodeOfCM a) (nodeOfCM b)
  | .choice a b => .binary .Choice (nodeOfCM a) (nodeOfCM b)
  | .opt a => .unary .ZeroOrOne (nodeOfCM a)
  | .star a => .unary .ZeroOrMore (nodeOfCM a)
  | .plus a => .unary .OneOrMore (nodeOfCM a)

/-- right-nested choice of element leaves: `a`, `(a|(b|c))` … (the part `scanMixed` weaves in) -/
def rightChoice : Name → List Name → Node
  | n, [] => .leaf (.elem n)
  | n, m :: ms => .binary .Choice (.leaf (.elem n)) (rightChoice m ms)

/-- `scanMixed`: `(#PCDATA)` gives the bare PCDATA leaf, `(#PCDATA)*` wraps it in ZeroOrMore (`star`),
    `(#PCDATA|a|b…)*` gives ZeroOrMore(Choice(PCDATA, a|(b|…))) -/
def scanMixed (ns : List Name) (star : Bool) : Node :=
  match ns with
  | [] => if star then .unary .ZeroOrMore (.leaf .pcdata) else .leaf .pcdata
  | n :: ms => .unary .ZeroOrMore (.binary .Choice (.leaf .pcdata) (rightChoice n ms))

/-- `scanContentSpec`: element declaration for a content spec (`star` only matters for `(#PCDATA)`) -/
def declOf (s : Spec) (star : Bool := false) : ElemDecl :=
  match s with
  | .empty => ⟨.Empty, none⟩
  | .any => ⟨.Any, none⟩
  | .mixed ns => ⟨.Mixed_Simple, some (scanMixed ns star)⟩
  | .children c => ⟨.Children, some (nodeOfCM c)⟩

/-! ### results -/

/-- outcome of `validateContent` / `checkContent`: success, failure with `*indexFailingChild`,
    or an exception / undefined behaviour (named) -/
inductive Res where
  | ok
  | fail (index : Nat)
  | exc (name : String)
  deriving Repr, DecidableEq, Inhabited

/-! ### SimpleContentModel -/

structure Simple where
  op : NodeType
  first : QN
  second : Option QN       -- `fSecondChild`, may be null
  deriving Repr, DecidableEq, Inhabited

/-- `XMLString::equals(children[i]->getRawName(), q->getRawName())` for an element child -/
def nameEq (child : Name) (q : QN) : Bool := q.rawName == some child

/-- the ZeroOrMore / OneOrMore loop: index of the first child that is not `q` -/
def firstMismatch (q : QN) : List Name → Nat → Option Nat
  | [], _ => none
  | c :: cs, index => if !nameEq c q then some index else firstMismatch q cs (index + 1)

/-- `SimpleContentModel::validateContent` (fDTD) -/
def simpleValidate (m : Simple) (children : List Name) : Res :=
  match m.op with
  | .Leaf =>
    match children with
    | [] => .fail 0                                   -- if (!childCount)
    | c0 :: rest =>
      if !nameEq c0 m.first then .fail 0
      else if rest.length > 0 then .fail 1            -- if (childCount > 1)
      else .ok
  | .ZeroOrOne =>
    match children with
    | [] => .ok
    | [c0] => if !nameEq c0 m.first then .fail 0 else .ok      -- childCount == 1
    | _ :: _ :: _ => .fail 1                                     -- childCount > 1
  | .ZeroOrMore =>
    match firstMismatch m.first children 0 with
    | some i => .fail i
    | none => .ok
  | .OneOrMore =>
    match children with
    | [] => .fail 0
    | _ :: _ =>
      match firstMismatch m.first children 0 with
      | some i => .fail i
      | none => .ok
  | .Choice =>
    match m.second with
    | none => .exc "null-fSecondChild"
    | some second =>
      match children with
      | [] => .fail 0
      | c0 :: rest =>
        if !nameEq c0 m.first && !nameEq c0 second then .fail 0
        else if rest.length > 0 then .fail 1
        else .ok
  | .Sequence =>
    match m.second with
    | none => .exc "null-fSecondChild"
    | some second =>
      match children with
      | [] => .fail 0
      | c0 :: rest =>
        if !nameEq c0 m.first then .fail 0
        else match rest with
          | [] => .fail 1                              -- missing second child
          | c1 :: rest2 =>
            if !nameEq c1 second then .fail 1
            else if rest2.length > 0 then .fail 2      -- childCount > 2
            else .ok

/-! ### MixedContentModel (fOrdered = false, fDTD = true) -/

/-- `MixedContentModel::buildChildList` -/
def buildChildList : Node → List QN
  | .leaf q => [q]
  | .unary _ first => buildChildList first
  | .binary _ first second => buildChildList first ++ buildChildList second

structure Mixed where
  children : List QN         -- fChildren (all of type Leaf under a DTD)
  deriving Repr, DecidableEq, Inhabited

/-- the unordered branch of `MixedContentModel::validateContent` -/
def mixedLoop (m : Mixed) : List Name → Nat → Res
  | [], _ => .ok
  | c :: cs, outIndex =>
    -- inner `for (; inIndex < fCount; inIndex++)` : is there a leaf with the same raw name?
    if m.children.any (fun q => nameEq c q) then mixedLoop m cs (outIndex + 1)
    else .fail outIndex

def mixedValidate (m : Mixed) (children : List Name) : Res := mixedLoop m children 0

/-! ### DFAContentModel -/

/-- `CMStateSet`: a bit set over leaf positions, as a `Nat` bit mask -/
abbrev StateSet := Nat

def bit (p : Nat) : StateSet := 1 <<< p

/-- what a `CMNode` caches: `isNullable`, `getFirstPos`, `getLastPos` -/
structure CMInfo where
  nullable : Bool
  firstPos : StateSet
  lastPos : StateSet
  deriving Repr, DecidableEq, Inhabited

/-- members threaded through `buildSyntaxTree`: `curIndex`, `fLeafList` (raw names), `fFollowList` -/
structure BState where
  curIndex : Nat
  leafList : List (Option Name)
  followList : List StateSet
  deriving Repr, DecidableEq, Inhabited

/-- `for p in last: *fFollowList[p] |= first` -/
def addFollow (fl : List StateSet) (last first : StateSet) : List StateSet :=
  fl.mapIdx (fun p f => if last.testBit p then f ||| first else f)

/-- `DFAContentModel::countLeafNodes` (no shared right nodes in DTD trees) -/
def countLeafNodes : Node → Nat
  | .leaf _ => 1
  | .unary _ first => countLeafNodes first
  | .binary _ first second => countLeafNodes first + countLeafNodes second

/-- `DFAContentModel::buildSyntaxTree` together with the CMLeaf/CMUnaryOp/CMBinaryOp constructors and
    `calcFirstPos`/`calcLastPos` -/
def buildSyntaxTree : Node → BState → CMInfo × BState
  | .leaf q, st =>
    ({ nullable := false, firstPos := bit st.curIndex, lastPos := bit st.curIndex },
     { st with curIndex := st.curIndex + 1, leafList := st.leafList ++ [q.rawName] })
  | .binary t first second, st =>
    let (l, st1) := buildSyntaxTree first st
    let (r, st2) := buildSyntaxTree second st1
    if t = .Sequence then
      ({ nullable := l.nullable && r.nullable,
         firstPos := if l.nullable then l.firstPos ||| r.firstPos else l.firstPos,
         lastPos := if r.nullable then r.lastPos ||| l.lastPos else r.lastPos },
       { st2 with followList := addFollow st2.followList l.lastPos r.firstPos })
    else   -- Choice
      ({ nullable := l.nullable || r.nullable,
         firstPos := l.firstPos ||| r.firstPos,
         lastPos := l.lastPos ||| r.lastPos }, st2)
  | .unary t first, st =>
    let (c, st1) := buildSyntaxTree first st
    let st2 := if t = .ZeroOrMore || t = .OneOrMore
               then { st1 with followList := addFollow st1.followList c.lastPos c.firstPos } else st1
    ({ nullable := if t = .OneOrMore then c.nullable else true, firstPos := c.firstPos, lastPos := c.lastPos }, st2)

/-- element map: distinct raw names of the leaves in order of first occurrence (`fElemMap`) -/
def elemMapOf : List (Option Name) → List (Option Name) → List (Option Name)
  | [], acc => acc
  | n :: ns, acc => if acc.contains n then elemMapOf ns acc else elemMapOf ns (acc ++ [n])

/-- `newSet`: union of the follow sets of the positions of `setT` that carry raw name `e`
    (`leafSorter[elemIndex]` restricted to the bits of `setT`) -/
def stepSet (leafList : List (Option Name)) (followList : List StateSet) (setT : StateSet) (e : Option Name) : StateSet :=
  (List.range leafList.length).foldl
    (fun acc p => if leafList[p]? == some e && setT.testBit p then acc ||| followList.getD p 0 else acc) 0

/-- `stateTable->get(newSet)`: the initial state (index 0) is never put into the hash table -/
def findState (states : List StateSet) (s : StateSet) : Option Nat :=
  match states with
  | [] => none
  | _ :: rest => (rest.findIdx? (· == s)).map (· + 1)

/-- one pass of `for (elemIndex …)` for the state `setT`: returns the grown `statesToDo` and the row -/
def buildRow (leafList : List (Option Name)) (followList : List StateSet) (setT : StateSet) :
    List (Option Name) → List StateSet → List (Option Nat) → List StateSet × List (Option Nat)
  | [], states, row => (states, row)
  | e :: es, states, row =>
    let newSet := stepSet leafList followList setT e
    if newSet = 0 then buildRow leafList followList setT es states (row ++ [none])     -- gInvalidTrans
    else match findState states newSet with
      | some j => buildRow leafList followList setT es states (row ++ [some j])
      | none => buildRow leafList followList setT es (states ++ [newSet]) (row ++ [some states.length])

/-- `while (unmarkedState < curState)`; `rows.length` is `unmarkedState`, `states.length` is `curState` -/
def dfaLoop (leafList : List (Option Name)) (followList : List StateSet) (elemMap : List (Option Name)) :
    Nat → List StateSet → List (List (Option Nat)) → Option (List StateSet × List (List (Option Nat)))
  | 0, _, _ => none
  | fuel + 1, states, rows =>
    match states[rows.length]? with
    | none => some (states, rows)
    | some setT =>
      let (states', row) := buildRow leafList followList setT elemMap states []
      dfaLoop leafList followList elemMap fuel states' (rows ++ [row])

structure DFA where
  emptyOk : Bool
  elemMap : List (Option Name)
  transTable : List (List (Option Nat))
  finalFlags : List Bool
  deriving Repr, DecidableEq, Inhabited

/-- `DFAContentModel::buildDFA`; `none` only if the fuel bound (more than the 2^leafCount + 1
    distinct state sets that can exist) were exceeded -/
def buildDFA (n : Node) : Option DFA :=
  let leafCount := countLeafNodes n + 1
  let eocPos := leafCount - 1
  let st0 : BState := { curIndex := 0, leafList := [], followList := List.replicate leafCount 0 }
  let (org, st1) := buildSyntaxTree n st0
  let leafList := st1.leafList ++ [none]                    -- the EOC leaf has an empty raw name
  let followList := addFollow st1.followList org.lastPos (bit eocPos)
  let headFirst := if org.nullable then org.firstPos ||| bit eocPos else org.firstPos
  let elemMap := elemMapOf leafList []
  match dfaLoop leafList followList elemMap (2 ^ leafCount + 2) [headFirst] [] with
  | none => none
  | some (states, rows) =>
    some { emptyOk := org.nullable, elemMap := elemMap, transTable := rows,
           finalFlags := states.map (fun s => s.testBit eocPos) }

/-- the `for (elemIndex …)` lookup of `validateContent`: first map entry with the child's raw name
    whose transition is valid; `none` = not found or invalid transition -/
def lookupTrans (elemMap : List (Option Name)) (row : List (Option Nat)) (child : Name) : Option Nat :=
  match elemMap, row with
  | e :: es, t :: ts =>
    if e == some child then
      match t with
      | some next => some next
      | none => lookupTrans es ts child
    else lookupTrans es ts child
  | _, _ => none

def dfaWalk (d : DFA) : List Name → Nat → Nat → Res
  | [], curState, childIndex =>
    if d.finalFlags.getD curState false then .ok else .fail childIndex
  | c :: cs, curState, childIndex =>
    match lookupTrans d.elemMap (d.transTable.getD curState []) c with
    | none => .fail childIndex
    | some next => dfaWalk d cs next (childIndex + 1)

/-- `DFAContentModel::validateContent` (fDTD, not mixed, no counting states) -/
def dfaValidate (d : DFA) (children : List Name) : Res :=
  match children with
  | [] => if d.emptyOk then .ok else .fail 0
  | _ => dfaWalk d children 0 0

/-! ### model selection and DTDValidator::checkContent -/

inductive Model where
  | simple (m : Simple)
  | mixed (m : Mixed)
  | dfa (n : Node)
  deriving Repr, DecidableEq, Inhabited

/-- `DTDElementDecl::createChildModel` -/
def createChildModel (spec : Option Node) : Except String Model :=
  match spec with
  | none => .error "CM_UnknownCMSpecType"
  | some specNode =>
    -- sanity check: a PCDATA leaf should have been taken by the mixed model
    match specNode with
    | .leaf .pcdata => .error "CM_NoPCDATAHere"
    | .leaf q => .ok (.simple ⟨.Leaf, q, none⟩)
    | .binary t first second =>
      match first, second with
      | .leaf q1, .leaf q2 => .ok (.simple ⟨t.type, q1, some q2⟩)
      | _, _ => .ok (.dfa specNode)
    | .unary t first =>
      match first with
      | .leaf q => .ok (.simple ⟨t.type, q, none⟩)
      | _ => .ok (.dfa specNode)

/-- `DTDElementDecl::makeContentModel` -/
def makeContentModel (d : ElemDecl) : Except String Model :=
  match d.modelType with
  | .Mixed_Simple =>
    match d.contentSpec with
    | none => .error "CM_NoParentCSN"
    | some n => .ok (.mixed ⟨buildChildList n⟩)
  | .Children => createChildModel d.contentSpec
  | _ => .error "CM_MustBeMixedOrChildren"

def Model.validate (m : Model) (children : List Name) : Res :=
  match m with
  | .simple s => simpleValidate s children
  | .mixed mm => mixedValidate mm children
  | .dfa n =>
    match buildDFA n with
    | some d => dfaValidate d children
    | none => .exc "dfa-fuel"

/-- `DTDValidator::checkContent` -/
def checkContent (d : ElemDecl) (children : List Name) : Res :=
  match d.modelType with
  | .Empty => if children.length > 0 then .fail 0 else .ok
  | .Any => .ok
  | _ =>
    match makeContentModel d with
    | .error e => .exc e
    | .ok m => m.validate children

/-! ### preconditions: which (model, spec) pairs the selection logic produces

These are the hypotheses of `simple_iff` / `mixed_iff` / `dfa_iff` in XV.Props.C07; `select_total` shows
that every content spec is routed to a branch whose hypothesis it meets. -/

/-- the (model, particle) pairs for which `createChildModel` picks SimpleContentModel -/
inductive SimpleFor : Simple → CM → Prop where
  | leaf (n : Name) : SimpleFor ⟨.Leaf, .elem n, none⟩ (.leaf n)
  | opt (n : Name) : SimpleFor ⟨.ZeroOrOne, .elem n, none⟩ (.opt (.leaf n))
  | star (n : Name) : SimpleFor ⟨.ZeroOrMore, .elem n, none⟩ (.star (.leaf n))
  | plus (n : Name) : SimpleFor ⟨.OneOrMore, .elem n, none⟩ (.plus (.leaf n))
  | choice (a b : Name) : SimpleFor ⟨.Choice, .elem a, some (.elem b)⟩ (.choice (.leaf a) (.leaf b))
  | seq (a b : Name) : SimpleFor ⟨.Sequence, .elem a, some (.elem b)⟩ (.seq (.leaf a) (.leaf b))

/-- the (model, name list) pairs `makeContentModel` creates for Mixed_Simple declarations -/
def MixedFor (m : Mixed) (ns : List Name) : Prop := m.children = QN.pcdata :: ns.map QN.elem

/-- routing of a content spec through `DTDValidator::checkContent` / `makeContentModel` /
    `createChildModel`, with the precondition each branch must meet (the DFA branch: the tree is
    exactly the element-only tree of the particle) -/
def Routed (s : Spec) (star : Bool) : Prop :=
  match s with
  | .empty => (declOf s star).modelType = .Empty
  | .any => (declOf s star).modelType = .Any
  | .mixed ns => ∃ m, makeContentModel (declOf s star) = .ok (.mixed m) ∧ MixedFor m ns
  | .children c =>
      (∃ m, makeContentModel (declOf s star) = .ok (.simple m) ∧ SimpleFor m c)
      ∨ makeContentModel (declOf s star) = .ok (.dfa (nodeOfCM c))

end XV.Model.ContentModel
