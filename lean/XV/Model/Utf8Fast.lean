/-
Linear-time evaluation of `XV.Model.Utf8.transcodeFrom` for the compiled driver.
`fromLoop` appends to the end of its accumulators (quadratic on a 16K-character block);
`fromLoopFast` conses and reverses once.  The `@[csimp]` equation below is PROVED, so the
compiler may replace one by the other; the logical definition used by every theorem stays
`transcodeFrom`.
-/
import XV.Model.Utf8
namespace XV.Model.Utf8

def fromLoopFast : Nat → List Nat → Nat → List Nat → List Nat → Nat → Res
  | 0, _, _, rc, rs, eaten => .ok rc.reverse rs.reverse eaten
  | fuel + 1, src, room, rc, rs, eaten =>
    if room = 0 then .ok rc.reverse rs.reverse eaten else
    match src with
    | [] => .ok rc.reverse rs.reverse eaten
    | b0 :: rest =>
      if b0 ≤ 127 then fromLoopFast fuel rest (room - 1) (b0 :: rc) (1 :: rs) (eaten + 1)
      else match decodeStep (b0 :: rest) with
        | .more => .ok rc.reverse rs.reverse eaten
        | .exc e => .exc e
        | .val v n =>
          if v < 65536 then
            fromLoopFast fuel ((b0 :: rest).drop n) (room - 1) (v :: rc) (n :: rs) (eaten + n)
          else if v > 0x10FFFF then
            if rc.length > 32 then .ok rc.reverse rs.reverse eaten else .exc .badSrcSeq
          else if room < 2 then .ok rc.reverse rs.reverse eaten
          else
            let w := v - 0x10000
            fromLoopFast fuel ((b0 :: rest).drop n) (room - 2)
              ((w % 1024 + 0xDC00) :: (w / 1024 + 0xD800) :: rc) (0 :: n :: rs) (eaten + n)

def transcodeFromFast (src : List Nat) (maxChars : Nat) : Res :=
  fromLoopFast src.length src maxChars [] [] 0

theorem fromLoopFast_eq : ∀ (fuel : Nat) (src : List Nat) (room : Nat) (rc rs : List Nat) (eaten : Nat),
    fromLoopFast fuel src room rc rs eaten = fromLoop fuel src room rc.reverse rs.reverse eaten := by
  intro fuel
  induction fuel with
  | zero => intros; simp [fromLoopFast, fromLoop]
  | succ fuel ih =>
    intro src room rc rs eaten
    unfold fromLoopFast fromLoop
    by_cases hr : room = 0
    · simp [hr]
    · simp only [hr, if_false]
      cases src with
      | nil => rfl
      | cons b0 rest =>
        simp only []
        by_cases hb : b0 ≤ 127
        · simp only [hb, if_true]; rw [ih]; simp
        · simp only [hb, if_false]
          cases hd : decodeStep (b0 :: rest) with
          | more => rfl
          | exc e => rfl
          | val v n =>
            simp only []
            by_cases h1 : v < 65536
            · simp only [h1, if_true]; rw [ih]; simp
            · simp only [h1, if_false]
              by_cases h2 : v > 0x10FFFF
              · simp only [h2, if_true, List.length_reverse]
              · simp only [h2, if_false]
                by_cases h3 : room < 2
                · simp only [h3, if_true]
                · simp only [h3, if_false]; rw [ih]; simp

@[csimp] theorem transcodeFrom_eq_fast : @transcodeFrom = @transcodeFromFast := by
  funext src m
  simp [transcodeFrom, transcodeFromFast, fromLoopFast_eq]

end XV.Model.Utf8
