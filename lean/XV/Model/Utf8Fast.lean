/-
Linear-time evaluation of `XV.Model.Utf8.transcodeFrom` for the compiled driver.
`fromLoop` appends to the end of its accumulators (quadratic on a 16K-character block);
`fromLoopFast` conses and reverses once.  The `@[csimp]` equation below is PROVED, so the
compiler may replace one by the other; the logical definition used by every theorem stays
`transcodeFrom`.
-/
import XV.Model.Utf8
namespace XV.Model.Utf8

/-- `l.length < t` without walking the whole list (the raw window is up to 48K bytes long and `decodeStep`
asks this once per multi-byte character) -/
def shorter : List Nat → Nat → Bool
  | _, 0 => false
  | [], _ + 1 => true
  | _ :: r, t + 1 => shorter r t

theorem shorter_eq : ∀ (l : List Nat) (t : Nat), shorter l t = decide (l.length < t) := by
  intro l
  induction l with
  | nil => intro t; cases t <;> simp [shorter]
  | cons a r ih => intro t; cases t with
    | zero => simp [shorter]
    | succ t => simp [shorter, ih]

/-- `decodeStep` with the bounded length test -/
def decodeStepFast : List Nat → Step
  | [] => .more
  | b0 :: rest =>
    let t := tb b0
    if shorter rest t then .more
    else if (indTest t &&& b0) != ind t then .exc .formatError
    else match t, rest with
      | 1, b1 :: _ =>
          if trailBad b1 then .exc .formatError
          else .val (sub32 (b0 * 64 + b1) (off 1)) 2
      | 2, b1 :: b2 :: _ =>
          if b0 == 0xE0 && b1 < 0xA0 then .exc .invalid3
          else if trailBad b1 then .exc .formatError
          else if trailBad b2 then .exc .formatError
          else if b0 == 0xED && b1 ≥ 0xA0 then .exc .irregular3
          else .val (sub32 ((b0 * 64 + b1) * 64 + b2) (off 2)) 3
      | 3, b1 :: b2 :: b3 :: _ =>
          if (b0 == 0xF0 && b1 < 0x90) || (b0 == 0xF4 && b1 > 0x8F) then .exc .invalid4
          else if trailBad b1 then .exc .formatError
          else if trailBad b2 then .exc .formatError
          else if trailBad b3 then .exc .formatError
          else .val (sub32 (((b0 * 64 + b1) * 64 + b2) * 64 + b3) (off 3)) 4
      | _, _ => .exc .exceedsLimit

@[csimp] theorem decodeStep_eq_fast : @decodeStep = @decodeStepFast := by
  funext bs
  cases bs with
  | nil => rfl
  | cons b0 rest =>
    unfold decodeStep decodeStepFast
    simp only [shorter_eq, decide_eq_true_eq]
    split
    · rfl
    · split
      · rfl
      · -- the two (identical) pattern matches are distinct auxiliary definitions: go through the cases
        generalize tb b0 = t
        by_cases h0 : t = 0
        · subst h0; cases rest <;> rfl
        by_cases h1 : t = 1
        · subst h1; rcases rest with _ | ⟨b1, r⟩ <;> rfl
        by_cases h2 : t = 2
        · subst h2; rcases rest with _ | ⟨b1, _ | ⟨b2, r⟩⟩ <;> rfl
        by_cases h3 : t = 3
        · subst h3; rcases rest with _ | ⟨b1, _ | ⟨b2, _ | ⟨b3, r⟩⟩⟩ <;> rfl
        split <;> first | omega | (split <;> first | omega | rfl)

def fromLoopFast : Nat → List Nat → Nat → List Nat → List Nat → Nat → Res
  | 0, _, _, rc, rs, eaten => .ok rc.reverse rs.reverse eaten
  | fuel + 1, src, room, rc, rs, eaten =>
    if room = 0 then .ok rc.reverse rs.reverse eaten else
    match src with
    | [] => .ok rc.reverse rs.reverse eaten
    | b0 :: rest =>
      if b0 ≤ 127 then fromLoopFast fuel rest (room - 1) (b0 :: rc) (1 :: rs) (eaten + 1)
      else match decodeStep (b0 :: rest) with
        | .more => .ok rc.reverse rs.reverse eaten
        | .exc e => .exc e
        | .val v n =>
          if v < 65536 then
            fromLoopFast fuel ((b0 :: rest).drop n) (room - 1) (v :: rc) (n :: rs) (eaten + n)
          else if v > 0x10FFFF then
            if rc.length > 32 then .ok rc.reverse rs.reverse eaten else .exc .badSrcSeq
          else if room < 2 then .ok rc.reverse rs.reverse eaten
          else
            let w := v - 0x10000
            fromLoopFast fuel ((b0 :: rest).drop n) (room - 2)
              ((w % 1024 + 0xDC00) :: (w / 1024 + 0xD800) :: rc) (0 :: n :: rs) (eaten + n)

def transcodeFromFast (src : List Nat) (maxChars : Nat) : Res :=
  fromLoopFast src.length src maxChars [] [] 0

theorem fromLoopFast_eq : ∀ (fuel : Nat) (src : List Nat) (room : Nat) (rc rs : List Nat) (eaten : Nat),
    fromLoopFast fuel src room rc rs eaten = fromLoop fuel src room rc.reverse rs.reverse eaten := by
  intro fuel
  induction fuel with
  | zero => intros; simp [fromLoopFast, fromLoop]
  | succ fuel ih =>
    intro src room rc rs eaten
    unfold fromLoopFast fromLoop
    by_cases hr : room = 0
    · simp [hr]
    · simp only [hr, if_false]
      cases src with
      | nil => rfl
      | cons b0 rest =>
        simp only []
        by_cases hb : b0 ≤ 127
        · simp only [hb, if_true]; rw [ih]; simp
        · simp only [hb, if_false]
          cases hd : decodeStep (b0 :: rest) with
          | more => rfl
          | exc e => rfl
          | val v n =>
            simp only []
            by_cases h1 : v < 65536
            · simp only [h1, if_true]; rw [ih]; simp
            · simp only [h1, if_false]
              by_cases h2 : v > 0x10FFFF
              · simp only [h2, if_true, List.length_reverse]
              · simp only [h2, if_false]
                by_cases h3 : room < 2
                · simp only [h3, if_true]
                · simp only [h3, if_false]; rw [ih]; simp

@[csimp] theorem transcodeFrom_eq_fast : @transcodeFrom = @transcodeFromFast := by
  funext src m
  simp [transcodeFrom, transcodeFromFast, fromLoopFast_eq]

end XV.Model.Utf8
