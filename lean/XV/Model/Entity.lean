/-
C19 — code-shaped model of entity expansion in the scanners (no Mathlib).

C++ under model (src/xercesc):
  internal/IGXMLScanner2.cpp  IGXMLScanner::scanEntityRef   (DGXMLScanner.cpp identical in the modelled part)
  internal/WFXMLScanner.cpp   WFXMLScanner::scanEntityRef   (SGXMLScanner.cpp identical): only the five predefined
                              entities exist and they DO go through the counter (`countSpecial`)
  validators/DTD/DTDScanner.cpp  DTDScanner::expandPERef, DTDScanner::scanEntityRef (attribute defaults)
  internal/ReaderMgr.cpp      ReaderMgr::pushReaderAdoptEntity  — the recursion test

    if (entity && fReaderStack) {
        // @@ Strangely, we don't check the entity at the top of the stack (fCurReaderData). Is it a bug?
        for (index = 0; index < fReaderStack->size(); index++)
            if (curDecl && equals(theName, curDecl->getName())) { delete reader; return false; }
    }
    if (fCurReaderData) fReaderStack->push(fCurReaderData);
    fCurReaderData = new ReaderData(reader, entity, adoptEntity);

  So the name being pushed is compared with the entries BELOW the current reader only (`below`), never with the
  current reader's own entity (`top`): `<!ENTITY a "&a;">` is pushed twice before it is reported.

  scanEntityRef, after a successful push:
    if (fSecurityManager != 0 && ++fEntityExpansionCount > fEntityExpansionLimit) emitError(EntityExpansionLimitExceeded)
  i.e. the (L+1)-th expansion is *performed* (reader pushed) and then the fatal error is raised.

The reader stack is represented by the recursion of `scan` (the text of the entity on top is processed to its end,
then the reader below continues): `below` = names in fReaderStack, `top` = entity of fCurReaderData.
`fuel` bounds the reader-stack depth; `XV.Props.C19.expansion_terminates` shows that `2·|table| + 1` is never
exceeded, for every table.  Fatal errors end the parse (exit-on-first-fatal-error, the default).

DEVIATION FROM THE CODE AS IT IS (deliberate, reported as a defect): in the unchanged tree DTDScanner::expandPERef and
DTDScanner::scanEntityRef do not touch the counter at all, so parameter-entity references and general-entity
references in attribute defaults are never limited.  The model counts every expansion, as the property demands
(fixes/c19-dtd-entity-expansion-count.diff makes the code do the same).
-/
import XV.Spec.Entity
namespace XV.Model.Entity
open XV.Spec.Entity

inductive Err where
  | notFound (n : Name)    -- XMLErrs::EntityNotFound
  | recursive (n : Name)   -- XMLErrs::RecursiveEntity
  | limit                  -- XMLErrs::EntityExpansionLimitExceeded
  | depth                  -- model artefact: reader-stack budget exhausted (proved unreachable)
  deriving Repr, DecidableEq, Inhabited

structure Cfg where
  limit : Option Nat       -- SecurityManager installed → getEntityExpansionLimit()
  countSpecial : Bool      -- WF/SG scanners: predefined entities are counted
  deriving Repr, DecidableEq

structure St where
  outRev : List Nat := []  -- characters delivered so far, newest first
  pushes : Nat := 0        -- successful pushReader calls for entities (= expansions performed)
  count : Nat := 0         -- fEntityExpansionCount (kept even without a SecurityManager, where nothing reads it)
  se : Nat := 0            -- startEntityReference callbacks (content only; suppressed in attribute values / DTD)
  err : Option Err := none
  deriving Repr, DecidableEq, Inhabited

/-- `fSecurityManager != 0 && count > fEntityExpansionLimit` (count already incremented) -/
def overLimit (cfg : Cfg) (count : Nat) : Bool :=
  match cfg.limit with
  | some l => decide (count > l)
  | none => false

/-- what `pushReader` leaves in fReaderStack: the previous current reader goes below -/
def pushBelow (below : List Name) (top : Option Name) : List Name :=
  match top with
  | some t => t :: below
  | none => below

/-- The scanning loop over the text of the current reader. `recur` processes the text of a pushed entity. -/
def scanItems (cfg : Cfg) (tbl : Table) (content : Bool)
    (recur : List Name → Option Name → Text → St → St)
    (below : List Name) (top : Option Name) : Text → St → St
  | [], st => st
  | it :: rest, st =>
    if st.err.isSome then st else
    match it with
    | .ch c => scanItems cfg tbl content recur below top rest { st with outRev := c :: st.outRev }
    | .special c =>
      if cfg.countSpecial then
        -- WFXMLScanner::scanEntityRef: counter first, then the character is returned
        let st1 := { st with count := st.count + 1 }
        if overLimit cfg st1.count then { st1 with err := some .limit }
        else scanItems cfg tbl content recur below top rest { st1 with outRev := c :: st1.outRev }
      else
        -- IG/DG: decl->getIsSpecialChar() → EntityExp_Returned, no reader, no counter
        scanItems cfg tbl content recur below top rest { st with outRev := c :: st.outRev }
    | .ref n =>
      match tbl.get n with
      | none => { st with err := some (.notFound n) }
      | some v =>
        -- createIntEntReader / createReader, then pushReader(reader, decl)
        if n ∈ below then { st with err := some (.recursive n) }
        else
          let st1 := { st with pushes := st.pushes + 1, count := st.count + 1 }
          if overLimit cfg st1.count then { st1 with err := some .limit }
          else
            let st2 := { st1 with se := st1.se + (if content then 1 else 0) }
            let st3 := recur (pushBelow below top) (some n) v st2
            scanItems cfg tbl content recur below top rest st3

/-- reader-stack recursion; `fuel` = remaining stack depth -/
def scan (cfg : Cfg) (tbl : Table) (content : Bool) : Nat → List Name → Option Name → Text → St → St
  | 0, _, _, _, st => { st with err := some .depth }
  | f + 1, below, top, t, st => scanItems cfg tbl content (scan cfg tbl content f) below top t st

/-- reader-stack depth that is never exceeded (see `expansion_terminates`) -/
def fuelFor (tbl : Table) : Nat := 2 * tbl.length + 1

/-- A document: segments of document-level text, each flagged "is element content" (the other sites are
    attribute values, attribute defaults in the DTD, and the DTD itself for parameter entities).  All segments
    are read by the document's own reader: empty stack, no current entity. -/
abbrev Doc := List (Bool × Text)

def scanDoc (cfg : Cfg) (tbl : Table) (fuel : Nat) : Doc → St → St
  | [], st => st
  | (content, t) :: rest, st => scanDoc cfg tbl fuel rest (scan cfg tbl content fuel [] none t st)

def run (cfg : Cfg) (tbl : Table) (d : Doc) : St := scanDoc cfg tbl (fuelFor tbl) d {}

def Doc.flatten : Doc → Text
  | [] => []
  | (_, t) :: rest => t ++ Doc.flatten rest

end XV.Model.Entity
