/-
Code-shaped model of DOMLSSerializerImpl::processNode / ensureValidString / processBOM (pretty printing off,
no filter, trees without namespaces): node-type dispatch, NoEscapes for markup, CharEscapes for text,
AttrEscapes for attribute values, TRY_CATCH_THROW (= UnRep_Fail) around markup, setURCharRef elsewhere.
Literals and character classes from the GENERATED XV.Gen.Escapes.  No Mathlib.
-/
import XV.Model.Cdata
namespace XV.Model.Serializer
open XV.Gen.Escapes XV.Model.Formatter XV.Model.Cdata

inductive Node
  | elem (name : List Nat) (attrs : List (List Nat × List Nat)) (kids : List Node)
  | text (v : List Nat)
  | cdata (v : List Nat)
  | comment (v : List Nat)
  | pi (target data : List Nat)
  | entref (name : List Nat)
  deriving Repr

structure Features where
  splitCdata : Bool := true
  xmlDecl : Bool := true
  bom : Bool := false
  /-- the proposed repair (fixes/c12-wellformed-checks.diff): `--` in comments and `?>` in PIs are fatal errors -/
  wfFix : Bool := false
  /-- the proposed repairs of the CDATA branch (fixes/c12-cdata-split.diff, c12-wellformed-checks.diff): split `]]>`
  between `]]` and `>`, and run ensureValidString before splitting -/
  cdataFix : Bool := false
  deriving Repr

structure Env where
  cd : Coder
  cfg : Cfg
  /-- fEncodingUsed, as written into the XML declaration -/
  encName : List Nat
  bomBytes : List Nat := []
  feat : Features

/-- `XMLChar1_x::isXMLChar(c)` on one unit (the generated gXMLCharMask ranges) -/
def isXMLChar (v11 : Bool) (c : Nat) : Bool := inRanges (if v11 then xmlChar11 else xmlChar10) c

/-- `ensureValidString`: true = no error reported.  A unit that is not an XMLChar is accepted only as the
high half of a surrogate pair (`isXMLChar(lead, trail)`: lead D800..DBFF, trail DC00..DFFF). -/
def ensureValidString (v11 : Bool) : List Nat → Bool
  | [] => true
  | [c] => isXMLChar v11 c
  | c :: n :: t =>
    if isXMLChar v11 c then ensureValidString v11 (n :: t)
    else if isHigh c then (isLow n && ensureValidString v11 t)
    else false

def invalid : Out := .error (.exc "INVALID_CHARACTER_ERR")

/-- `*fFormatter << NoEscapes << …` after `setURCharRef()` -/
def rawCR (e : Env) (us : List Nat) : Out := formatBuf e.cd e.cfg .NoEscapes .UnRep_CharRef us
/-- the same inside TRY_CATCH_THROW -/
def rawF (e : Env) (us : List Nat) : Out := formatBuf e.cd e.cfg .NoEscapes .UnRep_Fail us

def seqL : List Out → Out
  | [] => .ok []
  | a :: t => seq2 a (seqL t)

def containsSub (p : List Nat) : List Nat → Bool
  | [] => p.isEmpty
  | c :: t => p.isPrefixOf (c :: t) || containsSub p t

/-- one attribute: ` name="value"` — name and quotes NoEscapes but in char-ref mode (setURCharRef precedes the
attribute loop), value AttrEscapes -/
def attrOut (e : Env) (a : List Nat × List Nat) : Out :=
  if !ensureValidString e.cfg.xml11 a.2 then invalid else
  seqL [rawCR e ([32] ++ a.1 ++ [61, 34]), formatBuf e.cd e.cfg .AttrEscapes .UnRep_CharRef a.2, rawCR e [34]]

mutual
def node (e : Env) : Node → Out
  | .text v =>
    if !ensureValidString e.cfg.xml11 v then invalid
    else formatBuf e.cd e.cfg .CharEscapes .UnRep_CharRef v
  | .pi t d =>
    if !ensureValidString e.cfg.xml11 t || !ensureValidString e.cfg.xml11 d then invalid
    else if e.feat.wfFix && containsSub gEndPI d then .error (.exc "wf-invalid-character")
    else rawF e (gStartPI ++ t ++ (if d.isEmpty then [] else [32] ++ d) ++ gEndPI)
  | .elem name attrs kids =>
    seqL [rawF e ([60] ++ name), seqL (attrs.map (attrOut e)),
          if kids.isEmpty then rawF e [47, 62]
          else seqL [rawCR e [62], nodes e kids, rawF e (gEndElement ++ name ++ [62])]]
  | .entref name => rawF e ([38] ++ name ++ [59])
  | .cdata v =>
    if e.feat.splitCdata then
      if e.feat.cdataFix then (if !ensureValidString e.cfg.xml11 v then invalid else procCdataFixed e.cd v)
      else procCdataSection e.cd v
    else if !ensureValidString e.cfg.xml11 v then invalid
    else cdataNoSplit e.cd v
  | .comment v =>
    if !ensureValidString e.cfg.xml11 v then invalid
    else if e.feat.wfFix && (containsSub [45, 45] v || v.getLast? == some 45) then .error (.exc "wf-invalid-character")
    else rawF e (gStartComment ++ v ++ gEndComment)
def nodes (e : Env) : List Node → Out
  | [] => .ok []
  | n :: t => seq2 (node e n) (nodes e t)
end

/-- DOCUMENT_NODE: BOM (raw bytes, kept apart), XML declaration (char-ref mode), children -/
def document (e : Env) (standalone : Bool) (kids : List Node) : Out :=
  let ver := if e.cfg.xml11 then [49, 46, 49] else [49, 46, 48]
  let decl := if e.feat.xmlDecl then
      seqL [rawCR e gXMLDecl_VersionInfo, rawCR e ver, rawCR e gXMLDecl_separator,
            rawCR e gXMLDecl_EncodingDecl, rawCR e e.encName, rawCR e gXMLDecl_separator,
            rawCR e gXMLDecl_SDDecl, rawCR e (if standalone then [121, 101, 115] else [110, 111]), rawCR e gXMLDecl_separator,
            rawCR e gXMLDecl_endtag]
    else .ok []
  seq2 decl (nodes e kids)

end XV.Model.Serializer
