/-
Model of util/XMLUTF8Transcoder.cpp: transcodeFrom / transcodeTo, written after the C++.
Tables come from XV.Gen.Utf8Tables (regenerated from the source on every run).
Bytes / UTF-16 units / 32-bit temporaries are `Nat`; 32-bit wrap-around is explicit (`sub32`).
-/
import XV.Gen.Utf8Tables
namespace XV.Model.Utf8
open XV.Gen.Utf8

inductive Exc
  | formatError      -- XMLExcepts::UTF8_FormatError
  | invalid3         -- UTF8_Invalid_3BytesSeq
  | irregular3       -- UTF8_Irregular_3BytesSeq
  | invalid4         -- UTF8_Invalid_4BytesSeq
  | exceedsLimit     -- UTF8_Exceeds_BytesLimit
  | badSrcSeq        -- Trans_BadSrcSeq
  | unrepresentable  -- Trans_Unrepresentable (transcodeTo)
  deriving DecidableEq, Repr

def Exc.name : Exc → String
  | .formatError => "UTF8_FormatError" | .invalid3 => "UTF8_Invalid_3BytesSeq"
  | .irregular3 => "UTF8_Irregular_3BytesSeq" | .invalid4 => "UTF8_Invalid_4BytesSeq"
  | .exceedsLimit => "UTF8_Exceeds_BytesLimit" | .badSrcSeq => "Trans_BadSrcSeq"
  | .unrepresentable => "Trans_Unrepresentable"

inductive Step
  | more                        -- `if (srcPtr + trailingBytes >= srcEnd) break;`
  | exc (e : Exc)
  | val (v : Nat) (n : Nat)     -- tmpVal after `-= gUTFOffsets[..]`, bytes consumed
  deriving DecidableEq, Repr

def tb (b : Nat) : Nat := gUTFBytes.getD b 0
def ind (t : Nat) : Nat := gUTFByteIndicator.getD t 0
def indTest (t : Nat) : Nat := gUTFByteIndicatorTest.getD t 0
def off (t : Nat) : Nat := gUTFOffsets.getD t 0
def firstMark (n : Nat) : Nat := gFirstByteMark.getD n 0

/-- `checkTrailingBytes`: `(toCheck & 0xC0) != 0x80` throws. -/
def trailBad (b : Nat) : Bool := (b &&& 0xC0) != 0x80

/-- XMLUInt32 subtraction. -/
def sub32 (a b : Nat) : Nat := (a + 4294967296 - b % 4294967296) % 4294967296

/-- One pass through the body of the `while` loop for a lead byte > 127. -/
def decodeStep : List Nat → Step
  | [] => .more
  | b0 :: rest =>
    let t := tb b0
    if rest.length < t then .more
    else if (indTest t &&& b0) != ind t then .exc .formatError
    else match t, rest with
      | 1, b1 :: _ =>
          if trailBad b1 then .exc .formatError
          else .val (sub32 (b0 * 64 + b1) (off 1)) 2
      | 2, b1 :: b2 :: _ =>
          if b0 == 0xE0 && b1 < 0xA0 then .exc .invalid3
          else if trailBad b1 then .exc .formatError
          else if trailBad b2 then .exc .formatError
          else if b0 == 0xED && b1 ≥ 0xA0 then .exc .irregular3
          else .val (sub32 ((b0 * 64 + b1) * 64 + b2) (off 2)) 3
      | 3, b1 :: b2 :: b3 :: _ =>
          if (b0 == 0xF0 && b1 < 0x90) || (b0 == 0xF4 && b1 > 0x8F) then .exc .invalid4
          else if trailBad b1 then .exc .formatError
          else if trailBad b2 then .exc .formatError
          else if trailBad b3 then .exc .formatError
          else .val (sub32 (((b0 * 64 + b1) * 64 + b2) * 64 + b3) (off 3)) 4
      | _, _ => .exc .exceedsLimit

inductive Res
  | ok (chars sizes : List Nat) (eaten : Nat)
  | exc (e : Exc)
  deriving DecidableEq, Repr

/-- The `while ((srcPtr < srcEnd) && (outPtr < outEnd))` loop.  The ASCII run of the C++ is
taken one unit per iteration (same observable result).  `fuel` ≥ `src.length` always suffices. -/
def fromLoop : Nat → List Nat → Nat → List Nat → List Nat → Nat → Res
  | 0, _, _, chars, sizes, eaten => .ok chars sizes eaten
  | fuel + 1, src, room, chars, sizes, eaten =>
    if room = 0 then .ok chars sizes eaten else
    match src with
    | [] => .ok chars sizes eaten
    | b0 :: rest =>
      if b0 ≤ 127 then fromLoop fuel rest (room - 1) (chars ++ [b0]) (sizes ++ [1]) (eaten + 1)
      else match decodeStep (b0 :: rest) with
        | .more => .ok chars sizes eaten
        | .exc e => .exc e
        | .val v n =>
          if v < 65536 then
            fromLoop fuel ((b0 :: rest).drop n) (room - 1) (chars ++ [v]) (sizes ++ [n]) (eaten + n)
          else if v > 0x10FFFF then
            -- `if ((outPtr - toFill) > 32) { srcPtr -= (trailingBytes + 1); break; }`
            if chars.length > 32 then .ok chars sizes eaten else .exc .badSrcSeq
          else if room < 2 then .ok chars sizes eaten
          else
            let w := v - 0x10000
            fromLoop fuel ((b0 :: rest).drop n) (room - 2)
              (chars ++ [w / 1024 + 0xD800, w % 1024 + 0xDC00]) (sizes ++ [n, 0]) (eaten + n)

def transcodeFrom (src : List Nat) (maxChars : Nat) : Res :=
  fromLoop src.length src maxChars [] [] 0

/-! ### transcodeTo -/

inductive ToRes
  | ok (bytes : List Nat) (eaten : Nat)
  | exc (e : Exc)
  deriving DecidableEq, Repr

/-- bytes of one code point, written as the fall-through `switch(encodedBytes)` does. -/
def emit (curVal encodedBytes : Nat) : List Nat :=
  match encodedBytes with
  | 1 => [(curVal ||| firstMark 1) % 256]
  | 2 => [((curVal / 64) ||| firstMark 2) % 256, ((curVal ||| 0x80) &&& 0xBF) % 256]
  | 3 => [((curVal / 4096) ||| firstMark 3) % 256, (((curVal / 64) ||| 0x80) &&& 0xBF) % 256,
          ((curVal ||| 0x80) &&& 0xBF) % 256]
  | _ => [((curVal / 262144) ||| firstMark 4) % 256, (((curVal / 4096) ||| 0x80) &&& 0xBF) % 256,
          (((curVal / 64) ||| 0x80) &&& 0xBF) % 256, ((curVal ||| 0x80) &&& 0xBF) % 256]

/-- `((curVal - 0xD800) << 10) + ((*(srcPtr + 1) - 0xDC00) + 0x10000)`, in 32 bits. -/
def pairVal (c next : Nat) : Nat :=
  ((c - 0xD800) * 1024 + (sub32 next 0xDC00 + 0x10000)) % 4294967296

/-- `throwOnUnrep` = (options == UnRep_Throw). -/
def toLoop (throwOnUnrep : Bool) : Nat → List Nat → Nat → List Nat → Nat → ToRes
  | 0, _, _, out, eaten => .ok out eaten
  | fuel + 1, src, room, out, eaten =>
    match src with
    | [] => .ok out eaten
    | c :: rest =>
      let isHigh := 0xD800 ≤ c ∧ c ≤ 0xDBFF
      if isHigh ∧ rest = [] then .ok out eaten else
      let curVal := if isHigh then pairVal c (rest.headD 0) else c
      let srcUsed := if isHigh then 2 else 1
      if curVal ≥ 0x110000 then
        if throwOnUnrep then .exc .unrepresentable
        else toLoop throwOnUnrep fuel (src.drop srcUsed) (room - 1) (out ++ [0x20]) (eaten + srcUsed)
      else
        let n := if curVal < 0x80 then 1 else if curVal < 0x800 then 2
                 else if curVal < 0x10000 then 3 else 4
        if room < n then .ok out eaten
        else toLoop throwOnUnrep fuel (src.drop srcUsed) (room - n) (out ++ emit curVal n) (eaten + srcUsed)

def transcodeTo (src : List Nat) (maxBytes : Nat) (throwOnUnrep : Bool) : ToRes :=
  if src = [] ∨ maxBytes = 0 then .ok [] 0 else toLoop throwOnUnrep src.length src maxBytes [] 0

end XV.Model.Utf8
