/-
Model of validators/datatype/AbstractNumericFacetValidator.cpp (inspectFacet, inspectFacetBase, inheritFacet),
AbstractNumericValidator::boundsCheck, DecimalDatatypeValidator (totalDigits / fractionDigits inheritance and checks,
enumeration), AbstractStringValidator (length / minLength / maxLength: inspectFacet, inspectFacetBase, inheritFacet,
checkContent), ListDatatypeValidator / UnionDatatypeValidator::checkContent — written after the C++.

`fFacetsDefined & FACET_X` is `(field X).isSome`; `compareValues` is the abstract `cmp` (-1, 0, 1, 2 = INDETERMINATE).
Not modelled: the `fixed` attribute of facets, the pattern facet (checked level by level through the base chain in the
C++, outside the value-space model), the lexical side of FROM_BASE_VALUE_SPACE (only its value-space part).
-/
import XV.Spec.Facets
namespace XV.Model.Facets
open XV.Spec.Facets

variable {V : Type} (cmp : V → V → Int) (dg : V → Nat × Nat) (len : V → Nat)

def INDETERMINATE : Int := 2

/-- `AbstractNumericValidator::boundsCheck`: true = no exception -/
def boundsCheck (f : Step V) (v : V) : Bool :=
  (match f.maxExcl with | some m => cmp v m == -1 | none => true) &&        -- `if (result != -1) throw`
  (match f.maxIncl with | some m => cmp v m != 1 | none => true) &&         -- `if (result == 1) throw`
  (match f.minIncl with | some m => cmp v m != -1 | none => true) &&        -- `if (result == -1) throw`
  (match f.minExcl with | some m => cmp v m == 1 | none => true)            -- `if (result != 1) throw`

/-- `DecimalDatatypeValidator::checkContent` after the pattern: enumeration, boundsCheck, fractionDigits, totalDigits -/
def checkNumeric (f : Step V) (v : V) : Bool :=
  (match f.enumeration with | some es => es.any (fun e => cmp v e == 0) | none => true) &&
  boundsCheck cmp f v &&
  (match f.fractionDigits with | some n => !((dg v).2 > n) | none => true) &&
  (match f.totalDigits with | some n => !((dg v).1 > n) | none => true)

/-- `AbstractStringValidator::checkContent` after the pattern: maxLength, minLength, length, enumeration -/
def checkString (f : Step V) (v : V) : Bool :=
  (match f.maxLength with | some n => !(len v > n) | none => true) &&
  (match f.minLength with | some n => !(len v < n) | none => true) &&
  (match f.length with | some n => len v == n | none => true) &&          -- `length != getLength()` throws
  (match f.enumeration with | some es => es.any (fun e => cmp v e == 0) | none => true)

/-- `inspectFacet`: the step's own facets are consistent; true = no exception -/
def inspectFacet (t : Step V) : Bool :=
  !(t.maxExcl.isSome && t.maxIncl.isSome) &&
  !(t.minExcl.isSome && t.minIncl.isSome) &&
  (match t.minIncl, t.maxIncl with | some a, some b => !(cmp a b == 1 || cmp a b == INDETERMINATE) | _, _ => true) &&
  (match t.minExcl, t.maxExcl with | some a, some b => !(cmp a b == 1 || cmp a b == INDETERMINATE) | _, _ => true) &&
  (match t.minExcl, t.maxIncl with | some a, some b => cmp a b == -1 | _, _ => true) &&
  (match t.minIncl, t.maxExcl with | some a, some b => cmp a b == -1 | _, _ => true) &&
  (match t.fractionDigits, t.totalDigits with | some fd, some td => !(fd > td) | _, _ => true)

/-- `FROM_BASE_VALUE_SPACE(val, …)`: `numBase->checkContent(val, …, false)` does not throw (value-space part) -/
def fromBase (b : Step V) (val : V) : Bool := checkNumeric cmp dg b val

/-- `inspectFacetBase`, block "check 4.3.7.c2" (maxInclusive of the step against the base) -/
def inspMaxIncl (b t : Step V) : Bool :=
  match t.maxIncl with
  | some m =>
    (match b.maxIncl with | some x => !(cmp m x == 1 || cmp m x == INDETERMINATE) | none => true) &&
    (match b.maxExcl with | some x => cmp m x == -1 | none => true) &&
    (match b.minIncl with | some x => !(cmp m x == -1 || cmp m x == INDETERMINATE) | none => true) &&
    (match b.minExcl with | some x => cmp m x == 1 | none => true)
  | none => true

/-- block "check 4.3.8.c3" (maxExclusive) -/
def inspMaxExcl (b t : Step V) : Bool :=
  match t.maxExcl with
  | some m =>
    (match b.maxExcl with
     | some x => !(cmp m x == 1 || cmp m x == INDETERMINATE) && (cmp m x == 0 || fromBase cmp dg b m)
     | none => fromBase cmp dg b m) &&
    (match b.maxIncl with | some x => !(cmp m x == 1 || cmp m x == INDETERMINATE) | none => true) &&
    (match b.minExcl with | some x => cmp m x == 1 | none => true) &&
    (match b.minIncl with | some x => cmp m x == 1 | none => true)
  | none => true

/-- block "check 4.3.9.c3" (minExclusive) -/
def inspMinExcl (b t : Step V) : Bool :=
  match t.minExcl with
  | some m =>
    (match b.minExcl with
     | some x => !(cmp m x == -1 || cmp m x == INDETERMINATE) && (cmp m x == 0 || fromBase cmp dg b m)
     | none => fromBase cmp dg b m) &&
    (match b.maxIncl with | some x => !(cmp m x == 1 || cmp m x == INDETERMINATE) | none => true) &&
    (match b.minIncl with | some x => !(cmp m x == -1 || cmp m x == INDETERMINATE) | none => true) &&
    (match b.maxExcl with | some x => cmp m x == -1 | none => true)
  | none => true

/-- block "check 4.3.10.c2" (minInclusive) -/
def inspMinIncl (b t : Step V) : Bool :=
  match t.minIncl with
  | some m =>
    (match b.minIncl with | some x => !(cmp m x == -1 || cmp m x == INDETERMINATE) | none => true) &&
    (match b.maxIncl with | some x => !(cmp m x == 1 || cmp m x == INDETERMINATE) | none => true) &&
    (match b.minExcl with | some x => cmp m x == 1 | none => true) &&
    (match b.maxExcl with | some x => cmp m x == -1 | none => true)
  | none => true

/-- `DecimalDatatypeValidator::checkAdditionalFacetConstraintsBase` -/
def inspDigits (b t : Step V) : Bool :=
  (match t.totalDigits, b.totalDigits with | some n, some x => !(n > x) | _, _ => true) &&
  (match t.fractionDigits, b.fractionDigits with | some n, some x => !(n > x) | _, _ => true) &&
  (match t.fractionDigits, b.totalDigits with | some n, some x => !(n > x) | _, _ => true)

/-- `setEnumeration`: every value of the enumeration passes the base's checkContent -/
def inspEnum (b t : Step V) : Bool :=
  match t.enumeration with | some es => es.all (fun e => fromBase cmp dg b e) | none => true

/-- the trailing FROM_BASE_VALUE_SPACE(thisMaxInclusive) / (thisMinInclusive) -/
def inspFromBase (b t : Step V) : Bool :=
  (match t.maxIncl with | some m => fromBase cmp dg b m | none => true) &&
  (match t.minIncl with | some m => fromBase cmp dg b m | none => true)

/-- `inspectFacetBase`: each bound of the step against each bound in force in the base; true = no exception -/
def inspectFacetBase (b t : Step V) : Bool :=
  inspMaxIncl cmp b t && inspMaxExcl cmp dg b t && inspMinExcl cmp dg b t && inspMinIncl cmp b t &&
  inspDigits b t && inspEnum cmp dg b t && inspFromBase cmp dg b t

/-- `inheritFacet` (+ `DecimalDatatypeValidator::inheritAdditionalFacet`): the facets in force after the step -/
def inheritFacet (b t : Step V) : Step V :=
  { t with
    enumeration := if b.enumeration.isSome && !t.enumeration.isSome then b.enumeration else t.enumeration
    maxIncl := if b.maxIncl.isSome && !t.maxExcl.isSome && !t.maxIncl.isSome then b.maxIncl else t.maxIncl
    maxExcl := if b.maxExcl.isSome && !t.maxExcl.isSome && !t.maxIncl.isSome then b.maxExcl else t.maxExcl
    minIncl := if b.minIncl.isSome && !t.minExcl.isSome && !t.minIncl.isSome then b.minIncl else t.minIncl
    minExcl := if b.minExcl.isSome && !t.minExcl.isSome && !t.minIncl.isSome then b.minExcl else t.minExcl
    totalDigits := if b.totalDigits.isSome && !t.totalDigits.isSome then b.totalDigits else t.totalDigits
    fractionDigits := if b.fractionDigits.isSome && !t.fractionDigits.isSome then b.fractionDigits else t.fractionDigits }

/-- the facets in force at the end of a chain of restriction steps, starting from `base` -/
def effective (base : Step V) (steps : List (Step V)) : Step V := steps.foldl inheritFacet base

/-- every step passes inspectFacet and inspectFacetBase against what is in force before it -/
def validFrom (base : Step V) : List (Step V) → Bool
  | [] => true
  | t :: r => inspectFacet cmp t && inspectFacetBase cmp dg base t && validFrom (inheritFacet base t) r

/-! ### AbstractStringValidator: length facets -/

/-- `AbstractStringValidator::inspectFacet` -/
def inspectFacetS (t : Step V) : Bool :=
  !(t.length.isSome && (t.maxLength.isSome || t.minLength.isSome)) &&
  (match t.minLength, t.maxLength with | some a, some b => !(a > b) | _, _ => true)

/-- `AbstractStringValidator::inspectFacetBase` (length part) -/
def inspectFacetBaseS (b t : Step V) : Bool :=
  (match t.length, b.maxLength with | some l, some x => !(l > x) | _, _ => true) &&
  (match t.length, b.minLength with | some l, some x => !(l < x) | _, _ => true) &&
  (match b.length, t.maxLength with | some l, some x => !(l > x) | _, _ => true) &&
  (match b.length, t.minLength with | some l, some x => !(l < x) | _, _ => true) &&
  (match t.length, b.length with | some l, some x => l == x | _, _ => true) &&
  (match t.minLength, b.maxLength with | some l, some x => !(l > x) | _, _ => true) &&
  (match t.minLength, b.minLength with | some l, some x => !(l < x) | _, _ => true) &&
  (match b.minLength, t.maxLength with | some l, some x => !(l > x) | _, _ => true) &&
  (match t.maxLength, b.maxLength with | some l, some x => !(l > x) | _, _ => true) &&
  (match t.enumeration with | some es => es.all (fun e => checkString cmp len b e) | none => true)

/-- `AbstractStringValidator::inheritFacet` -/
def inheritFacetS (b t : Step V) : Step V :=
  { t with
    length := if b.length.isSome && !t.length.isSome then b.length else t.length
    minLength := if b.minLength.isSome && !t.minLength.isSome then b.minLength else t.minLength
    maxLength := if b.maxLength.isSome && !t.maxLength.isSome then b.maxLength else t.maxLength
    enumeration := if b.enumeration.isSome && !t.enumeration.isSome then b.enumeration else t.enumeration }

def effectiveS (base : Step V) (steps : List (Step V)) : Step V := steps.foldl inheritFacetS base

def validFromS (base : Step V) : List (Step V) → Bool
  | [] => true
  | t :: r => inspectFacetS t && inspectFacetBaseS cmp len base t && validFromS (inheritFacetS base t) r

/-! ### list and union -/

/-- `ListDatatypeValidator::checkContent(tokenVector, …)`: every token through the item validator, then the length
facets on the number of tokens -/
def listCheck (item : List Nat → Bool) (f : Step (List (List Nat))) (tokens : List (List Nat)) : Bool :=
  tokens.all item &&
  (match f.maxLength with | some n => !(tokens.length > n) | none => true) &&
  (match f.minLength with | some n => !(tokens.length < n) | none => true) &&
  (match f.length with | some n => tokens.length == n | none => true)

/-- `UnionDatatypeValidator::checkContent` (native union): the member loop; `some i` = the validating member -/
def unionCheck (members : List (List Nat → Bool)) (s : List Nat) : Option Nat :=
  let rec go : List (List Nat → Bool) → Nat → Option Nat
    | [], _ => none
    | m :: r, i => if m s then some i else go r (i + 1)
  go members 0

end XV.Model.Facets
