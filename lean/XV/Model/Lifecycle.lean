/-
C18 — `XMLPlatformUtils::Initialize / Terminate` as a counter machine (util/PlatformUtils.cpp).
Code-shaped; no Mathlib.  Statics modelled: `gInitFlag`, `fgMemoryManager`, `fgMemMgrAdopted`, the
three DOM heap sizes written by `XMLInitializer::initializeDOMHeap`, plus one Boolean `up` standing for
everything that is created after the manager has been chosen and destroyed before it is released
(mutex/file managers, transcoding service, string pool, static data).  Ghost fields: how many default
managers (`new MemoryManagerImpl`) were created and which managers `Terminate` deleted.
-/
namespace XV.Model.Lifecycle

/-- Identity of a memory manager object. -/
inductive Mgr where
  | dflt (k : Nat)     -- the k-th `new MemoryManagerImpl()` made by Initialize
  | user (id : Nat)    -- an application object passed to Initialize
deriving DecidableEq, Repr, Inhabited

structure Heap where
  initial : Nat
  max : Nat
  maxSub : Nat
deriving DecidableEq, Repr, Inhabited

structure St where
  flag : Nat := 0                 -- gInitFlag
  mgr : Option Mgr := none        -- fgMemoryManager (none = null)
  adopted : Bool := true          -- fgMemMgrAdopted
  up : Bool := false              -- subsystems alive
  heap : Heap                     -- kInitialHeapAllocSize, kMaxHeapAllocSize, kMaxSubAllocationSize
  made : Nat := 0                 -- ghost: default managers created so far
  deleted : List Mgr := []        -- ghost: managers deleted by Terminate, most recent first
deriving DecidableEq, Repr, Inhabited

inductive Op where
  | init (arg : Option Nat)                    -- Initialize(locale, nlsHome, panicHandler, memoryManager)
  | initHeap (h : Heap) (arg : Option Nat)     -- Initialize(initialDOMHeapAllocSize, max…, maxSub…, …, memoryManager)
  | term                                       -- Terminate()
deriving DecidableEq, Repr, Inhabited

/-- What the translator reads off the sources: LONG_MAX, and whether `Terminate` puts the DOM heap
sizes back to their defaults (`some defaults`) or leaves them as the last `Initialize` set them (`none`). -/
structure Cfg where
  longMax : Nat
  reset : Option Heap
deriving DecidableEq, Repr, Inhabited

/-- `XMLPlatformUtils::Initialize(locale, nlsHome, panicHandler, memoryManager)`. -/
def initLib (c : Cfg) (s : St) (arg : Option Nat) : St :=
  if s.flag = c.longMax then s else          -- if (gInitFlag == LONG_MAX) return;
  let s := { s with flag := s.flag + 1 }   -- gInitFlag++;
  if s.flag > 1 then s else                -- if (gInitFlag > 1) return;
  let s :=                                 -- if (!fgMemoryManager) { … }
    match s.mgr with
    | some _ => s
    | none =>
      match arg with
      | some u => { s with mgr := some (.user u), adopted := false }
      | none => { s with mgr := some (.dflt s.made), made := s.made + 1 }
  { s with up := true }                    -- mutex mgr, file mgr, trans service, … initializeStaticData()

/-- The seven-argument overload. -/
def initLibHeap (c : Cfg) (s : St) (h : Heap) (arg : Option Nat) : St :=
  let s := initLib c s arg
  if s.flag = 1 then { s with heap := h } else s     -- if (gInitFlag == 1) initializeDOMHeap(…)

/-- `XMLPlatformUtils::Terminate()`. -/
def termLib (c : Cfg) (s : St) : St :=
  if s.flag = 0 then s else                 -- if (gInitFlag == 0) return;
  let s := { s with flag := s.flag - 1 }    -- gInitFlag--;
  if s.flag > 0 then s else                 -- if (gInitFlag > 0) return;
  let s := { s with up := false,            -- terminateStaticData() … delete fgMutexMgr …
                    heap := match c.reset with | some d => d | none => s.heap }
  let s :=                                  -- if (fgMemMgrAdopted) delete fgMemoryManager; else fgMemMgrAdopted = true;
    if s.adopted then
      match s.mgr with
      | some m => { s with deleted := m :: s.deleted }
      | none => s
    else { s with adopted := true }
  { s with mgr := none, flag := 0 }         -- fgMemoryManager = 0; gInitFlag = 0;

def step (c : Cfg) (s : St) : Op → St
  | .init a => initLib c s a
  | .initHeap h a => initLibHeap c s h a
  | .term => termLib c s

def run (c : Cfg) (s : St) (ops : List Op) : St := ops.foldl (step c) s

/-- Balanced nesting: never more Terminates than Initializes so far, equal numbers at the end. -/
def balancedFrom : Nat → List Op → Bool
  | d, [] => d == 0
  | d, .term :: ops => d != 0 && balancedFrom (d - 1) ops
  | d, _ :: ops => balancedFrom (d + 1) ops

def balanced (ops : List Op) : Bool := balancedFrom 0 ops

end XV.Model.Lifecycle
