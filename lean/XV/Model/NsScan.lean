/-
  Model of the namespace part of a start tag as the scanners perform it
  (IGXMLScanner/SGXMLScanner::scanStartTagNS + updateNSMap + buildAttList, DGXMLScanner::scanAttrListforNameSpaces,
  XMLScanner::resolvePrefix), on top of the ElemStack model.  Code-shaped where it matters for namespaces; attribute
  values, DTD defaults and validation are not modelled.  The document type (`Tag`, `Item`, `Node`) is the Spec's; nothing
  else of the Spec is used here.  Core Lean only.
-/
import XV.Model.ElemStack
import XV.Spec.Namespace
namespace XV.Model.NsScan
open XV.Model.ElemStack XV.Gen.ElemStackConsts
open XV.Spec.Namespace (Item Tag Node Decl)

/-- an `XMLAttr` after `buildAttList`: URI id, prefix, local name, value -/
structure XMLAttr where
  uriId : Nat
  pre : String
  name : String
  value : String
deriving Repr, Inhabited, DecidableEq

/-- the raw attribute list of a tag as scanned (QName split at the colon); ordinary attributes get the value "v" -/
def rawOfItems : List Item → List RawAttr
  | [] => []
  | .decl d :: r => (if d.pre = "" then ⟨"", xmlnsString, d.uri⟩ else ⟨xmlnsString, d.pre, d.uri⟩) :: rawOfItems r
  | .attr p l :: r => ⟨p, l, "v"⟩ :: rawOfItems r

/-- `getURIText(id)` -/
def uriText (s : Scan) (id : Nat) : String := (valueForId s.uriPool id).getD ""

/-- the checks of `updateNSMap` (IGXMLScanner2.cpp / SGXMLScanner.cpp / DGXMLScanner.cpp) for one namespace
    declaration attribute; `true` = an error is emitted.
    DEFECT in /repo (reported, fixes/wfscanner-reserved-uri.diff): WFXMLScanner applies the NoUseOfxmlnsURI /
    XMLURINotMatchXMLPrefix checks only to `xmlns="…"`, not to `xmlns:p="…"`.  The model is the common, correct rule. -/
def updateNSMapErrors (s : Scan) (a : RawAttr) : Bool :=
  let namespaceURI := a.value
  let hasColon := a.pre ≠ ""
  let prefPtr := if hasColon then a.loc else ""
  -- if (colonOfs != -1) { xmlns:xmlns / xmlns:xml≠xmlURI / empty value in XML 1.0 }
  let e1 := hasColon && (prefPtr == xmlnsString)
  let e2 := hasColon && !(prefPtr == xmlnsString) && (prefPtr == xmlString) && !(namespaceURI == xmlURIName)
  let e3 := hasColon && (namespaceURI == "") && !s.xml11
  -- if (equals(namespaceURI, fgXMLNSURIName)) … else if (equals(namespaceURI, fgXMLURIName) && prefix != xml) …
  let e4 := namespaceURI == xmlnsURIName
  let e5 := !(namespaceURI == xmlnsURIName) && (namespaceURI == xmlURIName) && !(prefPtr == xmlString)
  e1 || e2 || e3 || e4 || e5

/-- `buildAttList` (namespace part): every attribute with a colon is resolved in attribute mode, one without gets the
    empty namespace id; returns the attributes and whether `resolvePrefix` emitted an error -/
def buildAttList (s : Scan) : List RawAttr → List XMLAttr × Bool
  | [] => ([], false)
  | a :: r =>
    let (uriId, err) := if a.pre ≠ "" then s.resolvePrefix a.pre .attribute else (s.fEmptyNamespaceId, false)
    let (rest, err') := buildAttList s r
    (⟨uriId, a.pre, a.loc, a.value⟩ :: rest, err || err')

/-- duplicate detection on expanded names: `loopAttr->getURIId() == curAttr->getURIId() && equals(names)` for some
    earlier attribute (DGXMLScanner::scanAttrListforNameSpaces; the other scanners use registries keyed the same way).
    DEFECT in /repo (reported, fixes/wfscanner-dupattr-hash.diff): WFXMLScanner's hash-table variant (more than
    `attrDupHashThreshold` attributes) never examines the last attribute. -/
def dupExpanded : List XMLAttr → Bool
  | [] => false
  | a :: r => r.any (fun b => b.uriId == a.uriId && b.name == a.name) || dupExpanded r

/-- the registry variant of the same check, used for more than `attrDupHashThreshold` attributes
    (DGXMLScanner::scanAttrListforNameSpaces: `if (fAttrDupChkRegistry->containsKey(name, uriId)) emitError(…);
    fAttrDupChkRegistry->put(name, uriId, attr)`; IG/SG: `fUndeclaredAttrRegistry->putIfNotPresent(name, uriId)`).
    The RefHash2KeysTableOf / Hash2KeysSetOf registry is modelled as an ABSTRACT SET of (name, uriId) keys: hashing,
    buckets and rehashing (cf. /repo fix 02e8075, `Hash2KeysSetOf::putIfNotPresent` after a rehash) are outside this
    model and covered by C02's hash-threshold correspondence. -/
def dupRegistry (seen : List (String × Nat)) : List XMLAttr → Bool
  | [] => false
  | a :: r => seen.contains (a.name, a.uriId) || dupRegistry ((a.name, a.uriId) :: seen) r

/-- `setAttrDupChkRegistry(attCount, toUseHashTable)` followed by the quadratic loop or the registry loop -/
def dupCheck (attrs : List XMLAttr) : Bool :=
  if attrs.length > attrDupHashThreshold then dupRegistry [] attrs else dupExpanded attrs

/-- the namespace work of one start tag: push a level, first pass over the declarations (with their checks), build the
    attribute list, resolve the element name.  Returns the new scanner state, the attribute list, the element's URI id
    and whether any namespace error was emitted. -/
def startTagNS (s : Scan) (t : Tag) : Scan × List XMLAttr × Nat × Bool :=
  let raw := rawOfItems t.items
  let s1 := s.startTag raw
  let declErr := raw.any (fun a => a.isNSDecl && updateNSMapErrors s a)
  let (attrs, attrErr) := buildAttList s1 raw
  let (uriId, elemErr) := s1.resolvePrefix t.pre .element
  (s1, attrs, uriId, declErr || attrErr || elemErr || dupCheck attrs)

/-- `scanEndTag`/empty element: pop the level -/
def endTagNS (s : Scan) : Scan := s.step .popTop

mutual
  /-- does the scan of this subtree emit a namespace error? (all of them are fatal: the parse stops at the first) -/
  def scanErrorsNode (s : Scan) : Node → Bool
    | .elem t kids =>
        let (s1, _, _, err) := startTagNS s t
        err || scanErrorsList s1 kids
    | _ => false
  def scanErrorsList (s : Scan) : List Node → Bool
    | [] => false
    | n :: ns => scanErrorsNode s n || scanErrorsList s ns
end

def scanErrors (v11 : Bool) (root : Node) : Bool := scanErrorsNode (Scan.init v11) root

end XV.Model.NsScan
