import XV.Gen.DomParserFields
/-!
Reset-completeness view of `AbstractDOMParser` (C01, reused parser): the parser object keeps raw pointers into the
document it is building (`fCurrentParent`, `fCurrentNode`, `fCurrentEntity`, `fDocument`, `fDocumentType`).  The application
may release that document between two parses (`resetDocumentPool`, `adoptDocument` + `release`), so none of these
pointers may survive the `reset()` that opens the next parse.  Member list, pointer classification and the set of
members nulled by `reset()`'s call closure are regenerated from the C++ text (`XV.Gen.DomParserFields`).
-/
namespace XV.Model.DomParserReset
open XV.Gen.DomParserFields

/-- abstract parser object: for each member, the document it points into (if any) -/
abbrev PState := String → Option Nat

/-- `AbstractDOMParser::reset()`: the members in `nulled` are set to 0, every other member keeps its value -/
def reset (nulled : List String) (st : PState) : PState := fun n => if n ∈ nulled then none else st n

/-- document-pointing members that still point into a released document -/
def stale (st : PState) (released : Nat → Bool) : List String :=
  ((members.filter (·.docPointer)).map (·.name)).filter
    (fun n => match st n with | some d => released d | none => false)

end XV.Model.DomParserReset
