/-
C08 — code-shaped models of the schema content-model machinery (definitions only; no Mathlib).

  src/xercesc/validators/schema/ComplexTypeInfo.cpp   useRepeatingLeafNodes / convertContentSpecTree /
                                                      expandContentModel / hasRepeatedLeaf (makeContentModel)
                                                                    -> `useRepeatingLeafNodes`, `convert`, `expand`, `hasRepeatedLeaf`, `makeTree`
  src/xercesc/validators/common/AllContentModel.cpp   ctor + buildChildList / validateContent -> `buildChildList`, `allValidate`
  src/xercesc/validators/common/DFAContentModel.cpp   the Leaf / Any / Any_NS / Any_Other branches of
        validateContent (and of handleRepetitions, SGXMLScanner::laxElementValidation)  -> `leafAccepts`
  src/xercesc/internal/SGXMLScanner.cpp (IGXMLScanner2.cpp)  anyAttributeValidation     -> `anyAttributeValidation`
  src/xercesc/validators/schema/SubstitutionGroupComparator.cpp  isEquivalentTo         -> `isEquivalentTo`
  src/xercesc/internal/SGXMLScanner.cpp  buildAttList (schema part: use lookup, wildcard, required /
        prohibited / fixed checks, defaulting)                                          -> `buildAttList`

The trees are polymorphic in the leaf type `α` like `XV.Spec.Particle.Particle`: neither the expansion nor the
all-model looks inside a leaf (the all-model compares leaves for equality: URI id + local part).
-/
import XV.Spec.Particle
namespace XV.Model.Particle
open XV.Spec.Particle

/-! ### ContentSpecNode trees -/

/-- the group node types TraverseSchema creates -/
inductive GroupType where
  | Sequence | Choice | All
  deriving Repr, DecidableEq, Inhabited

/-- `ContentSpecNode` tree as TraverseSchema leaves it in `ComplexTypeInfo::fContentSpec`: leaf particles
    (type Leaf, Any*, Any_NS*, Any_Other*) and binary group nodes whose second child may be null, each node
    carrying `fMinOccurs` / `fMaxOccurs` (`none` = -1 = unbounded) -/
inductive SNode (α : Type) where
  | leaf (a : α) (min : Nat) (max : Option Nat)
  | group1 (t : GroupType) (first : SNode α) (min : Nat) (max : Option Nat)              -- second == null
  | group2 (t : GroupType) (first second : SNode α) (min : Nat) (max : Option Nat)
  deriving Repr, DecidableEq, Inhabited

inductive UnOp where
  | ZeroOrOne | ZeroOrMore | OneOrMore
  deriving Repr, DecidableEq, Inhabited

/-- the tree after `convertContentSpecTree`: occurrence ranges have been turned into `?`, `*`, `+`, copies
    in `Sequence` nodes, or — compact syntax — a `Loop` node (min, max, first = the repeated leaf) wrapped in
    ZeroOrMore / OneOrMore (`loopRep outer min max first`; the pair is always created together) -/
inductive XNode (α : Type) where
  | leaf (a : α)
  | unary (t : UnOp) (first : XNode α)
  | bin (t : GroupType) (first second : XNode α)
  | loopRep (outer : UnOp) (min : Nat) (max : Option Nat) (first : XNode α)
  deriving Repr, DecidableEq, Inhabited

variable {α : Type}

def XNode.isLeaf : XNode α → Bool
  | .leaf _ => true
  | _ => false

/-- `f` applied `n` times -/
def iter (f : XNode α → XNode α) : Nat → XNode α → XNode α
  | 0, x => x
  | n + 1, x => iter f n (f x)

/-- `ComplexTypeInfo::expandContentModel(specNode, minOccurs, maxOccurs, bAllowCompactSyntax)` -/
def expand (specNode : XNode α) (min : Nat) (max : Option Nat) (compact : Bool) : XNode α :=
  if min = 1 ∧ max = some 1 then specNode
  else if min = 0 ∧ max = some 1 then .unary .ZeroOrOne specNode
  else if min = 0 ∧ max = none then .unary .ZeroOrMore specNode
  else if min = 1 ∧ max = none then .unary .OneOrMore specNode
  else if compact && specNode.isLeaf then
    -- if what is being repeated is a leaf avoid expanding the tree
    if min = 0 then .loopRep .ZeroOrMore min max specNode else .loopRep .OneOrMore min max specNode
  else
    match max with
    | none =>
      -- retNode = OneOrMore(retNode); for (i = 0; i < minOccurs-1; i++) retNode = Sequence(saveNode, retNode)
      iter (fun ret => .bin .Sequence specNode ret) (min - 1) (.unary .OneOrMore specNode)
    | some maxOccurs =>
      if min = 0 then
        -- optional = ZeroOrOne(saveNode); for (i = 0; i < maxOccurs-1; i++) retNode = Sequence(retNode, optional)
        let optional := XNode.unary .ZeroOrOne specNode
        iter (fun ret => .bin .Sequence ret optional) (maxOccurs - 1) optional
      else
        -- if (minOccurs > 1) { retNode = Sequence(retNode, saveNode); for (i = 1; i < minOccurs-1; i++) … }
        let ret1 := if min > 1 then iter (fun ret => .bin .Sequence ret specNode) (min - 2) (.bin .Sequence specNode specNode)
                    else specNode
        -- counter = maxOccurs - minOccurs; if (counter > 0) { Sequence(retNode, optional); for (j = 1; j < counter; j++) … }
        let counter := maxOccurs - min
        if counter > 0 then
          let optional := XNode.unary .ZeroOrOne specNode
          iter (fun ret => .bin .Sequence ret optional) (counter - 1) (.bin .Sequence ret1 optional)
        else ret1

/-- `ComplexTypeInfo::convertContentSpecTree` (without the UPA renaming of leaf URIs) -/
def convert (compact : Bool) : SNode α → XNode α
  | .leaf a min max => expand (.leaf a) min max compact
  | .group1 _ first min max => expand (convert compact first) min max compact       -- the group node is deleted
  | .group2 t first second min max => expand (.bin t (convert compact first) (convert compact second)) min max compact

/-- `ComplexTypeInfo::useRepeatingLeafNodes` -/
def useRepeatingLeafNodes : SNode α → Bool
  | .leaf _ _ _ => true
  | .group1 t first min max =>
    if t = .Choice ∨ t = .Sequence then
      if min ≠ 1 ∨ max ≠ some 1 then
        match first with
        | .leaf _ fmin fmax => fmin = 1 ∧ fmax = some 1
        | _ => false
      else useRepeatingLeafNodes first
    else true
  | .group2 t first second min max =>
    if t = .Choice ∨ t = .Sequence then
      if min ≠ 1 ∨ max ≠ some 1 then false
      else useRepeatingLeafNodes first && useRepeatingLeafNodes second
    else true

/-- `collectLeafNodes` (ComplexTypeInfo.cpp): the leaf particles (Leaf / Any* nodes) of the tree, left to right -/
def collectLeafNodes : SNode α → List α
  | .leaf a _ _ => [a]
  | .group1 _ first _ _ => collectLeafNodes first
  | .group2 _ first second _ _ => collectLeafNodes first ++ collectLeafNodes second

/-- the double loop of `hasRepeatedLeaf`: is some leaf equal (node type, URI, local part) to a later one -/
def hasRepeatedLeafIn [DecidableEq α] : List α → Bool
  | [] => false
  | a :: rest => rest.contains a || hasRepeatedLeafIn rest

/-- `hasRepeatedLeaf` (ComplexTypeInfo.cpp): DFAContentModel keeps ONE occurrence range per element-map entry,
    so the compact Loop syntax is only used when no element name / wildcard occurs in two leaves -/
def hasRepeatedLeaf [DecidableEq α] (s : SNode α) : Bool := hasRepeatedLeafIn (collectLeafNodes s)

/-- what `makeContentModel` hands to the content-model constructors:
    `convertContentSpecTree(aSpecNode, checkUPA, useRepeatingLeafNodes(aSpecNode) && !hasRepeatedLeaf(aSpecNode))` -/
def makeTree [DecidableEq α] (s : SNode α) : XNode α :=
  convert (useRepeatingLeafNodes s && !hasRepeatedLeaf s) s

/-! ### the particles these trees stand for -/

def UnOp.range : UnOp → Nat × Option Nat
  | .ZeroOrOne => (0, some 1)
  | .ZeroOrMore => (0, none)
  | .OneOrMore => (1, none)

/-- the members an all-group tree lists (what `AllContentModel::buildChildList` collects for the shapes
    `convert` produces below an `All` node: leaves, `ZeroOrOne(leaf)`, nested `All`) -/
def XNode.allMembers : XNode α → List (α × Bool)
  | .leaf a => [(a, false)]
  | .unary .ZeroOrOne (.leaf a) => [(a, true)]
  | .bin .All x y => x.allMembers ++ y.allMembers
  | _ => []

def XNode.toParticle : XNode α → Particle α
  | .leaf a => .leaf a
  | .unary t x => .rep t.range.1 t.range.2 x.toParticle
  | .bin .Sequence x y => .seq x.toParticle y.toParticle
  | .bin .Choice x y => .choice x.toParticle y.toParticle
  | .bin .All x y => .all (x.allMembers ++ y.allMembers)
  | .loopRep _ min max x => .rep min max x.toParticle

def SNode.allMembers : SNode α → List (α × Bool)
  | .leaf a min _ => [(a, min == 0)]
  | .group2 .All x y _ _ => x.allMembers ++ y.allMembers
  | _ => []

def SNode.toParticle : SNode α → Particle α
  | .leaf a min max => .rep min max (.leaf a)
  | .group1 _ first min max => .rep min max first.toParticle
  | .group2 .Sequence x y min max => .rep min max (.seq x.toParticle y.toParticle)
  | .group2 .Choice x y min max => .rep min max (.choice x.toParticle y.toParticle)
  | .group2 .All x y min max => .rep min max (.all (x.allMembers ++ y.allMembers))

/-- Schema Component Constraint "Particle Correct" (§3.9.6): min ≤ max and max ≥ 1 -/
def occOk (min : Nat) : Option Nat → Bool
  | none => true
  | some m => min ≤ m && 1 ≤ m

/-- the shape TraverseSchema guarantees for the members of an all-group ("All Group Limited", §3.8.6):
    element leaves with max = 1, or nested `All` nodes with {1,1} -/
def SNode.allShape : SNode α → Bool
  | .leaf _ min max => max = some 1 ∧ min ≤ 1
  | .group2 .All x y min max => min = 1 ∧ max = some 1 ∧ x.allShape ∧ y.allShape
  | _ => false

/-- well-formed input of `convertContentSpecTree`: every range is Particle Correct, all-groups have the
    limited shape -/
def SNode.wf : SNode α → Bool
  | .leaf _ min max => occOk min max
  | .group1 _ first min max => occOk min max && first.wf
  | .group2 .All x y min max => occOk min max && x.allShape && y.allShape
  | .group2 _ x y min max => occOk min max && x.wf && y.wf

/-! ### AllContentModel -/

structure AllModel (α : Type) where
  children : List α            -- fChildren
  childOptional : List Bool    -- fChildOptional
  numRequired : Nat            -- fNumRequired
  hasOptionalContent : Bool    -- fHasOptionalContent
  deriving Repr, DecidableEq, Inhabited

/-- `AllContentModel::buildChildList`; `none` = CM_UnknownCMSpecType.  The accumulator is
    (children, optional flags, fNumRequired). -/
def buildChildList : XNode α → List α × List Bool × Nat → Option (List α × List Bool × Nat)
  | .bin .All x y, acc =>
    match buildChildList x acc with
    | none => none
    | some acc' => buildChildList y acc'
  | .leaf a, (cs, os, n) => some (cs ++ [a], os ++ [false], n + 1)
  | .unary .ZeroOrOne x, (cs, os, n) =>
    match x with
    | .leaf a => some (cs ++ [a], os ++ [true], n)
    | _ => none
  | .loopRep .ZeroOrMore min max x, (cs, os, n) =>
    -- ZeroOrMore is only allowed as the father of a Loop; the Loop adds min required and max-min optional copies
    match x with
    | .leaf a =>
      some (cs ++ List.replicate min a ++ (match max with | none => [] | some m => List.replicate (m - min) a),
            os ++ List.replicate min false ++ (match max with | none => [] | some m => List.replicate (m - min) true),
            n + min)
    | _ => none
  | _, _ => none

/-- the constructor: `root` is the `All` node handed over by `makeContentModel`, `allMin` its `fMinOccurs` -/
def mkAllModel (root : XNode α) (allMinIsZero : Bool) : Option (AllModel α) :=
  match buildChildList root ([], [], 0) with
  | none => none
  | some (cs, os, n) => some { children := cs, childOptional := os, numRequired := n, hasOptionalContent := allMinIsZero }

/-- the inner `for (; inIndex < fCount; inIndex++)`: index of the first child declaration equal to `cur` -/
def findChild [DecidableEq α] (cur : α) : List α → Nat → Option Nat
  | [], _ => none
  | c :: cs, i => if c = cur then some i else findChild cur cs (i + 1)

/-- the outer loop of `AllContentModel::validateContent`; returns `numRequiredSeen` or the failing index -/
def allLoop [DecidableEq α] (m : AllModel α) : List α → Nat → List Bool → Nat → Except Nat Nat
  | [], _, _, numRequiredSeen => .ok numRequiredSeen
  | cur :: rest, outIndex, elementSeen, numRequiredSeen =>
    match findChild cur m.children 0 with
    | none => .error outIndex                                       -- not found: inIndex == fCount
    | some inIndex =>
      if elementSeen.getD inIndex false then .error outIndex        -- duplicate
      else
        allLoop m rest (outIndex + 1) (elementSeen.set inIndex true)
          (if m.childOptional.getD inIndex false then numRequiredSeen else numRequiredSeen + 1)

/-- `AllContentModel::validateContent` (not mixed: no PCDATA children); `none` = success,
    `some i` = `*indexFailingChild` -/
def allValidate [DecidableEq α] (m : AllModel α) (children : List α) : Option Nat :=
  if children.length = 0 ∧ (m.hasOptionalContent ∨ m.numRequired = 0) then none
  else
    match allLoop m children 0 (List.replicate m.children.length false) 0 with
    | .error i => some i
    | .ok numRequiredSeen => if numRequiredSeen ≠ m.numRequired then some children.length else none

/-! ### wildcard namespace tests (URI ids; the empty namespace has id 1) -/

/-- `ContentSpecNode::NodeTypes & 0x0f` of a leaf of the element map -/
inductive LeafType where
  | Leaf | Any | Any_NS | Any_Other
  deriving Repr, DecidableEq, Inhabited

/-- "Here we assume that empty string has id 1." -/
def emptyNsId : Nat := 1

/-- the test each branch of the `for (; elemIndex < fElemMapSize; elemIndex++)` loop of
    `DFAContentModel::validateContent` applies before looking at the transition table:
    `inURI`/`inLocal` are the element-map entry, `curURI`/`curLocal` the child -/
def leafAccepts (type : LeafType) (inURI inLocal curURI curLocal : Nat) : Bool :=
  match type with
  | .Leaf => inURI == curURI && inLocal == curLocal
  | .Any => true
  | .Any_NS => inURI == curURI
  | .Any_Other => curURI != emptyNsId && curURI != inURI

/-- `XMLAttDef::AttTypes` of an attribute wildcard -/
inductive AttWildType where
  | Any_Any | Any_Other | Any_List
  deriving Repr, DecidableEq, Inhabited

/-- `SGXMLScanner::anyAttributeValidation` / `IGXMLScanner::anyAttributeValidation`: `anyEncountered` -/
def anyAttributeValidation (t : AttWildType) (wildURI : Nat) (nsList : List Nat) (uriId : Nat) : Bool :=
  match t with
  | .Any_Any => true
  | .Any_Other => wildURI != uriId && uriId != emptyNsId
  | .Any_List => nsList.any (fun u => u == uriId)

/-- URI id of a Spec namespace (`absentNs = 0` ↦ the empty namespace id 1; ids are injective) -/
def uriId (ns : Nat) : Nat := ns + 1

/-- the leaves `TraverseSchema::traverseAny` creates for a {namespace constraint}: one `Any` leaf, one
    `Any_Other` leaf carrying the target namespace, or a choice of `Any_NS` leaves (one per list member;
    `##local` is the empty namespace, `##targetNamespace` the target namespace) -/
def wildLeaves : NsConstraint → List (LeafType × Nat)
  | .any => [(.Any, emptyNsId)]
  | .other tns => [(.Any_Other, uriId tns)]
  | .list nss => nss.map (fun n => (.Any_NS, uriId n))

/-- does some leaf of the wildcard accept the child (local parts play no role for wildcards) -/
def wildAccepts (c : NsConstraint) (x : QName) : Bool :=
  (wildLeaves c).any (fun l => leafAccepts l.1 l.2 0 (uriId x.ns) x.name)

/-- the `SchemaAttDef` `TraverseSchema::traverseAnyAttribute` creates: type, URI of the att name, namespace list -/
def attWildOf : NsConstraint → AttWildType × Nat × List Nat
  | .any => (.Any_Any, emptyNsId, [])
  | .other tns => (.Any_Other, uriId tns, [])
  | .list nss => (.Any_List, emptyNsId, nss.map uriId)

def attWildAccepts (c : NsConstraint) (x : QName) : Bool :=
  let w := attWildOf c
  anyAttributeValidation w.1 w.2.1 w.2.2 (uriId x.ns)

/-! ### SubstitutionGroupComparator::isEquivalentTo -/

/-- the walk `while (pElemDecl)` up the substitution-group heads looking for the exemplar; returns the head
    found (fuel: number of declarations; an affiliation chain cannot be longer) -/
def findHead (E : SubstEnv) : Nat → Option QName → QName → Option ElemDecl
  | 0, _, _ => none
  | _, none, _ => none
  | fuel + 1, some hq, exemplar =>
    match E.findElem hq with
    | none => none
    | some h => if h.name = exemplar then some h else findHead E fuel h.subst exemplar

/-- the `while (tempType != 0 && tempType != exemplarComplexType)` loop, statement by statement:
      devMethod |= tempType->getDerivedBy();                       -- the derivation method of the CURRENT type `t`
      tempType = tempType->getBaseComplexTypeInfo();               -- advance to the base `b`
      if (tempType) blockConstraint |= tempType->getBlockSet();    -- the block set of the type ARRIVED at (`bd.block`)
    so the block sets collected are those of the intermediate types and of the exemplar's type — never the one of
    `anElement`'s own type; `blockConstraint` starts as the exemplar ELEMENT's block set.  Returns `none` when the
    chain ends without reaching the exemplar's type.  Tied to the library by the correspondence `xsdsg`
    (tools/props/c08.py, harness line `Q`): the real comparator on real declarations, every (member, exemplar) pair. -/
def typeWalk (E : SubstEnv) : Nat → Nat → Nat → List Deriv → BlockSet → Option (List Deriv × BlockSet)
  | 0, t, ex, dev, blk => if t = ex then some (dev, blk) else none
  | fuel + 1, t, ex, dev, blk =>
    if t = ex then some (dev, blk) else
    match E.findType t with
    | none => none
    | some td =>
      match td.base with
      | none => none
      | some b =>
        match E.findType b with
        | none => none
        | some bd => typeWalk E fuel b ex (td.derivedBy :: dev) (blk.union bd.block)

/-- `SubstitutionGroupComparator::isEquivalentTo(anElement, exemplar)` for complex-typed declarations -/
def isEquivalentTo (E : SubstEnv) (anElement exemplar : QName) : Bool :=
  if anElement = exemplar then true else
  match E.findElem anElement with
  | none => false
  | some anElementDecl =>
    match findHead E E.elems.length anElementDecl.subst exemplar with
    | none => false
    | some pElemDecl =>
      if pElemDecl.block.substitution then false else
      match typeWalk E E.types.length anElementDecl.type pElemDecl.type [] pElemDecl.block with
      | none => false
      | some (devMethod, blockConstraint) => devMethod.all (fun m => !blockConstraint.has m)

/-! ### buildAttList (schema part) -/

inductive DefAttType where
  | Default | Fixed | Required | Required_And_Fixed | Implied | Prohibited
  deriving Repr, DecidableEq, Inhabited

/-- a `SchemaAttDef` of the type's attribute list -/
structure AttDef where
  name : QName
  defType : DefAttType
  value : Option Nat          -- default / fixed value
  deriving Repr, DecidableEq, Inhabited

def attDefOf (u : AttrUse) : AttDef :=
  match u.use, u.vc with
  | .prohibited, _ => ⟨u.name, .Prohibited, none⟩
  | .required, .fixed v => ⟨u.name, .Required_And_Fixed, some v⟩
  | .required, _ => ⟨u.name, .Required, none⟩
  | .optional, .fixed v => ⟨u.name, .Fixed, some v⟩
  | .optional, .default v => ⟨u.name, .Default, some v⟩
  | .optional, .none => ⟨u.name, .Implied, none⟩

def getAttDef (defs : List AttDef) (q : QName) : Option AttDef := defs.find? (fun d => d.name == q)

def isFixed (d : AttDef) : Bool := d.defType = .Fixed ∨ d.defType = .Required_And_Fixed

/-- does the type's attribute wildcard admit the attribute's namespace (`anyAttributeValidation` returns true) -/
def wildcardAdmits (wc : Option AttrWildcard) (q : QName) : Bool :=
  match wc with
  | some w => w.c.allows q.ns
  | none => false

/-- the attribute definition the first loop works with: `currType->getAttDef(...)`, except that a PROHIBITED
    definition is dropped when the type's wildcard admits the attribute — "a prohibited attribute use is no
    attribute use (Structures 3.4.2): if the type's wildcard admits the attribute, it is validated through the
    wildcard (3.4.4 clause 3.2)" -/
def lookupAttDef (defs : List AttDef) (wc : Option AttrWildcard) (q : QName) : Option AttDef :=
  match getAttDef defs q with
  | some d => if d.defType = .Prohibited && wildcardAdmits wc q then none else some d
  | none => none

/-- the first loop of `buildAttList` for one provided attribute: error class names (validation on) -/
def provided (defs : List AttDef) (wc : Option AttrWildcard) (globals : List AttrDecl) (a : Attr) : List String :=
  match lookupAttDef defs wc a.1 with
  | some d =>
    -- attDef found: validateAttrValue (fixed check); prohibited is reported in the second loop
    if isFixed d && d.value != some a.2 then ["NotSameAsFixedValue"] else []
  | none =>
    match wc with
    | none => ["AttNotDefinedForElement"]
    | some w =>
      let anyEncountered := w.c.allows a.1.ns
      if !anyEncountered then ["AttNotDefinedForElement"]
      else if w.pc = .skip then []
      else
        match findAttrDecl globals a.1 with
        | some g => (match g.vc with | .fixed f => if f != a.2 then ["NotSameAsFixedValue"] else [] | _ => [])
        | none => if w.pc = .lax then [] else ["AttNotDefinedForElement"]

/-- the second loop (`if (hasDefs)`): required / prohibited checks over the declared attribute list; a definition
    counts as provided when the first loop registered it (`fAttDefRegistry`), i.e. when `lookupAttDef` kept it -/
def declared (defs : List AttDef) (wc : Option AttrWildcard) (attrs : List Attr) : List String :=
  defs.filterMap (fun d =>
    let present := attrs.any (fun a => a.1 == d.name) && !(d.defType = .Prohibited && wildcardAdmits wc d.name)
    if !present then
      if d.defType = .Required ∨ d.defType = .Required_And_Fixed then some "RequiredAttrNotProvided" else none
    else if d.defType = .Prohibited then some "ProhibitedAttributePresent" else none)

def buildAttList (defs : List AttDef) (wc : Option AttrWildcard) (globals : List AttrDecl) (attrs : List Attr) : List String :=
  attrs.flatMap (provided defs wc globals) ++ declared defs wc attrs

end XV.Model.Particle
