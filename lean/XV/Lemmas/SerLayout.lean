/- The engine's stream equals the declarative layout, for every buffer size that is a multiple of 8. -/
import XV.Lemmas.SerEngine
import XV.Spec.SerStream
namespace XV.Lemmas.SerLayout
open XV.Model.SerEngine XV.Gen.SerConsts XV.Lemmas.SerEngine XV.Spec.SerStream

def Inv (s : SBuf) : Prop :=
  s.base % 8 = 0 ∧ s.bufSize % 8 = 0 ∧ 0 < s.bufSize ∧ s.out.length % 8 = 0 ∧ s.buf.length ≤ s.bufSize

theorem inv_wf {s : SBuf} (h : Inv s) : WF s := by
  obtain ⟨hb, hB, hp, _, hl⟩ := h
  refine ⟨hl, ?_⟩
  unfold minBuf alignAdjust
  simp [hb]; omega

theorem alignAdjust_spec (a n : Nat) (hn : 0 < n) : (a + alignAdjust a n) % n = 0 := by
  unfold alignAdjust
  by_cases h : a % n = 0
  · simp [h]
  · simp only [beq_iff_eq, h, if_false]
    have := Nat.mod_lt a hn
    rw [Nat.add_mod, show n - a % n = n - a % n from rfl]
    have e : (n - a % n) % n = n - a % n := Nat.mod_eq_of_lt (by omega)
    rw [e, show a % n + (n - a % n) = n by omega, Nat.mod_self]

theorem stream_prim (s : SBuf) (d : PrimDesc) (v : Nat) (hd : DescOK d) (hf : d.align ≠ 0 ∨ d.adv = 1) (hi : Inv s) :
    (s.putPrim d v).stream = layoutPrim s.stream d v ∧ Inv (s.putPrim d v) := by
  obtain ⟨hb, hB, hp, ho, hl⟩ := hi
  have hcong : padOf d (s.base + s.buf.length) = padOf d (s.out.length + s.buf.length) :=
    pad_congr d hd _ _ _ (by omega)
  have hlen : s.stream.length = s.out.length + s.buf.length := by simp [SBuf.stream]
  have hpad0 : padOf d s.base = 0 := by
    unfold padOf alignAdjust
    rcases hd.al with ⟨_, h2⟩ | ⟨_, h2⟩
    · rcases hd.size with e | e | e | e <;> simp [h2, e] <;> omega
    · simp [h2]
  have hB8 : 8 ≤ s.bufSize := by omega
  have hadv : d.adv ≤ 8 := by rcases hd.size with e | e | e | e <;> omega
  by_cases hfit : s.buf.length + (padOf d (s.base + s.buf.length) + d.adv) ≤ s.bufSize
  · rw [putPrim_noflush s d v hd hfit]
    refine ⟨?_, hb, hB, hp, ho, ?_⟩
    · simp only [SBuf.stream, layoutPrim, List.length_append, hcong, List.append_assoc]
    · simp only [List.length_append, zeros_length, toLE_length]; omega
  · have hfit' : s.buf.length + (padOf d (s.base + s.buf.length) + d.adv) > s.bufSize := by omega
    rw [putPrim_flush s d v hd hfit']
    have hkey : s.bufSize - s.buf.length = padOf d (s.out.length + s.buf.length) := by
      rw [← hcong]
      rcases hd.al with ⟨_, h2⟩ | ⟨_, h2⟩
      · have hsp := alignAdjust_spec (s.base + s.buf.length) d.adv (by omega)
        have hlt := alignAdjust_lt (s.base + s.buf.length) d.adv (by omega)
        have hpe : padOf d (s.base + s.buf.length) = alignAdjust (s.base + s.buf.length) d.adv := by
          unfold padOf; rw [h2]; have : d.adv ≠ 0 := by omega
          simp [this]
        rw [hpe] at hfit' ⊢
        rcases hd.size with e | e | e | e <;> rw [e] at hsp hlt hfit' ⊢ <;> omega
      · rcases hf with h | h
        · omega
        · have : padOf d (s.base + s.buf.length) = 0 := by unfold padOf; simp [h2]
          rw [this] at hfit' ⊢; omega
    refine ⟨?_, hb, hB, hp, ?_, ?_⟩
    · simp only [SBuf.stream, layoutPrim, List.length_append, hpad0, hkey, zeros, List.replicate_zero,
        List.nil_append, List.append_assoc]
    · simp only [List.length_append, zeros_length]; omega
    · simp only [List.length_append, zeros_length, toLE_length, hpad0]; omega


theorem stream_chunks : ∀ (f : Nat) (s : SBuf) (bs : List Nat), Inv s → s.buf = [] → bs.length < f →
    (s.putChunks f bs).stream = s.out ++ bs ∧ Inv (s.putChunks f bs) := by
  intro f
  induction f with
  | zero => intro s bs _ _ h; omega
  | succ f ih =>
    intro s bs hi hnil hf
    obtain ⟨hb, hB, hp, ho, hl⟩ := hi
    unfold SBuf.putChunks
    by_cases hge : bs.length ≥ s.bufSize
    · simp only [hge, if_true]
      have hz : s.bufSize - (bs.take s.bufSize).length = 0 := by simp; omega
      have hs2 : ({ s with buf := bs.take s.bufSize } : SBuf).flush =
          { s with out := s.out ++ bs.take s.bufSize, buf := [] } := by
        simp only [SBuf.flush, hz, zeros, List.replicate_zero, List.append_nil]
      rw [hs2]
      have := ih { s with out := s.out ++ bs.take s.bufSize, buf := [] } (bs.drop s.bufSize)
        ⟨hb, hB, hp, by simp only [List.length_append, List.length_take]; omega, by simp⟩ rfl (by simp; omega)
      refine ⟨?_, this.2⟩
      rw [this.1]; simp [List.append_assoc]
    · simp only [hge, if_false]
      exact ⟨rfl, hb, hB, hp, ho, by simp only; omega⟩

theorem stream_raw (s : SBuf) (bs : List Nat) (hi : Inv s) :
    (s.putRaw bs).stream = s.stream ++ bs ∧ Inv (s.putRaw bs) := by
  by_cases h0 : bs = []
  · subst h0; rw [putRaw_nil]; exact ⟨by simp, hi⟩
  obtain ⟨hb, hB, hp, ho, hl⟩ := hi
  by_cases h : bs.length ≤ s.bufSize - s.buf.length
  · rw [putRaw_direct s bs h0 h]
    exact ⟨by simp [SBuf.stream, List.append_assoc], hb, hB, hp, ho, by simp only [List.length_append]; omega⟩
  · rw [putRaw_split s bs h]
    have hz : s.bufSize - (s.buf ++ bs.take (s.bufSize - s.buf.length)).length = 0 := by
      simp only [List.length_append, List.length_take]; omega
    have hs2 : ({ s with buf := s.buf ++ bs.take (s.bufSize - s.buf.length) } : SBuf).flush =
        { s with out := s.out ++ s.buf ++ bs.take (s.bufSize - s.buf.length), buf := [] } := by
      simp only [SBuf.flush, hz, zeros, List.replicate_zero, List.append_nil, List.append_assoc]
    rw [hs2]
    have := stream_chunks (bs.length + 1) { s with out := s.out ++ s.buf ++ bs.take (s.bufSize - s.buf.length), buf := [] }
      (bs.drop (s.bufSize - s.buf.length))
      ⟨hb, hB, hp, by simp only [List.length_append, List.length_take]; omega, by simp⟩ rfl (by simp; omega)
    refine ⟨?_, this.2⟩
    rw [this.1]; simp [SBuf.stream, List.append_assoc]

theorem stream_ul (s : SBuf) (v : Nat) (hi : Inv s) :
    (s.putUL v).stream = layoutUL s.stream v ∧ Inv (s.putUL v) :=
  stream_prim s Ty.ulong.w v (desc_tables .ulong).1 (Or.inl (by decide)) hi

theorem stream_val (s : SBuf) (v : Val) (hf : flat v) (hi : Inv s) :
    (s.putVal v).stream = layoutVal s.stream v ∧ Inv (s.putVal v) := by
  cases v with
  | prim t x => exact stream_prim s t.w x (desc_tables t).1 hf hi
  | raw bs => exact stream_raw s bs hi
  | str o =>
    cases o with
    | none => exact stream_ul s _ hi
    | some us =>
      have a := stream_ul s us.length hi
      have b := stream_raw _ (unitsToBytes us) a.2
      exact ⟨by simp only [SBuf.putVal, layoutVal, b.1, a.1], b.2⟩
  | bstr o =>
    cases o with
    | none => exact stream_ul s _ hi
    | some bs =>
      have a := stream_ul s bs.length hi
      have b := stream_raw _ bs a.2
      exact ⟨by simp only [SBuf.putVal, layoutVal, b.1, a.1], b.2⟩
  | strL o =>
    cases o with
    | none => exact stream_ul s _ hi
    | some p =>
      obtain ⟨us, bl⟩ := p
      have a := stream_ul s bl hi
      have a2 := stream_ul _ us.length a.2
      have b := stream_raw _ (unitsToBytes us) a2.2
      exact ⟨by simp only [SBuf.putVal, layoutVal, b.1, a2.1, a.1], b.2⟩
  | bstrL o =>
    cases o with
    | none => exact stream_ul s _ hi
    | some p =>
      obtain ⟨bs, bl⟩ := p
      have a := stream_ul s bl hi
      have a2 := stream_ul _ bs.length a.2
      have b := stream_raw _ bs a2.2
      exact ⟨by simp only [SBuf.putVal, layoutVal, b.1, a2.1, a.1], b.2⟩

theorem stream_vals : ∀ (vs : List Val) (s : SBuf), (∀ v ∈ vs, flat v) → Inv s →
    (s.putVals vs).stream = vs.foldl layoutVal s.stream
  | [], _, _, _ => rfl
  | v :: vs, s, hf, hi => by
    have a := stream_val s v (hf v (by simp)) hi
    have b := stream_vals vs _ (fun x hx => hf x (by simp [hx])) a.2
    simp only [SBuf.putVals, List.foldl_cons, b, a.1]

theorem init_inv (base B : Nat) (hb : base % 8 = 0) (hB : B % 8 = 0) (hp : 0 < B) : Inv (SBuf.init base B) :=
  ⟨hb, hB, hp, by simp [SBuf.init], by simp [SBuf.init]⟩

end XV.Lemmas.SerLayout
