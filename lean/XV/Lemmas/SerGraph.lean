/- Lock-step simulation of the object-graph store and load machines (C16 graph_roundtrip).  Core Lean only. -/
import XV.Lemmas.SerEngine
namespace XV.Lemmas.SerGraph
open XV.Model.SerEngine XV.Gen.SerConsts XV.Lemmas.SerEngine

set_option maxRecDepth 4000

inductive All2 {α β : Type} (R : α → β → Prop) : List α → List β → Prop
  | nil : All2 R [] []
  | cons {a b as bs} : R a b → All2 R as bs → All2 R (a :: as) (b :: bs)

theorem All2.append {α β : Type} {R : α → β → Prop} {as bs cs ds} (h1 : All2 R as bs) (h2 : All2 R cs ds) :
    All2 R (as ++ cs) (bs ++ ds) := by
  induction h1 with
  | nil => exact h2
  | cons hr _ ih => exact All2.cons hr ih

theorem All2.map {α β γ δ : Type} {R : α → β → Prop} {S : γ → δ → Prop} (f : α → γ) (g : β → δ)
    (hfg : ∀ a b, R a b → S (f a) (g b)) {as bs} (h : All2 R as bs) : All2 S (as.map f) (bs.map g) := by
  induction h with
  | nil => exact All2.nil
  | cons hr _ ih => exact All2.cons (hfg _ _ hr) ih

-- ------------------------------------------------------------------ typing of heaps against the class table
def fmatch (h : Heap) : Fld → FldTy → Prop
  | .val v, .val sh => v.shape = sh ∧ v.ok
  | .ptr q, .ptr c => q = 0 ∨ ∃ n, heapLookup h q = some n ∧ n.cls = c
  | _, _ => False

/-- every object's fields have the layout its class's `serialize` follows, and every pointer field points to an object
of the field's static class (polymorphic fields go through helper pairs such as storeDV/loadDV, outside this model) -/
def HeapOK (sch : Schema) (h : Heap) : Prop :=
  ∀ p n, heapLookup h p = some n → All2 (fmatch h) n.flds (sch n.cls).flds

def WorkRel (h : Heap) : List (Nat × Nat × Fld) → List (Nat × FldTy) → Prop :=
  All2 (fun a b => b.1 = a.2.1 ∧ fmatch h a.2.2 b.2)

structure GInv (s : Store) (l : Load) (F : List Nat) : Prop where
  wf : WF s.b
  sync : Sync s.b l.b F
  cnt : l.count = s.count
  len : l.pool.length = s.count
  bound : ∀ k, poolLookup s.pool k ≤ s.count
  max : s.count ≤ fgMaxObjectCount

theorem c_mask : fgClassMask = 2147483648 := by decide
theorem c_new : fgNewClassTag = 4294967295 := by decide
theorem c_max : fgMaxObjectCount = 1073741821 := by decide
theorem c_null : fgNullObjectTag = 0 := by decide
theorem c_uint : 256 ^ Ty.uint.w.adv = 4294967296 := by decide

-- ------------------------------------------------------------------ store steps
theorem add_some {s s' : Store} {k : Key} (h : s.add k = some s') :
    s'.b = s.b ∧ s'.count = s.count + 1 ∧ s'.pool = (k, s.count + 1) :: s.pool ∧ s.count < fgMaxObjectCount := by
  unfold Store.add at h
  by_cases hc : s.count ≥ fgMaxObjectCount
  · simp [hc] at h
  · simp only [hc, if_false, Option.some.injEq] at h
    subst h; exact ⟨rfl, rfl, rfl, by omega⟩

theorem step_tag (s : Store) (t : Nat) (hwf : WF s.b) : Step s.b (s.putTag t).b :=
  step_prim s.b _ t (desc_tables .uint).1 hwf

theorem writeProto_cases {s s1 : Store} {c : Nat} {name : List Nat} (h : s.writeProto c name = some s1) :
    (s.lookup (.cls c) ≠ 0 ∧ s1 = s.putTag (fgClassMask + s.lookup (.cls c))) ∨
    (s.lookup (.cls c) = 0 ∧
      ({ (s.putTag fgNewClassTag) with b := ((s.putTag fgNewClassTag).b.putUL name.length).putRaw name } : Store).add (.cls c) = some s1) := by
  unfold Store.writeProto at h
  by_cases hz : s.lookup (.cls c) = 0
  · right; refine ⟨hz, ?_⟩; simpa [hz] using h
  · left; refine ⟨hz, ?_⟩
    have : (s.lookup (.cls c) != 0) = true := by simp [hz]
    simp only [this, if_true, Option.some.injEq] at h; exact h.symm

theorem step_writeProto {s s1 : Store} {c : Nat} {name : List Nat} (h : s.writeProto c name = some s1) (hwf : WF s.b) :
    Step s.b s1.b := by
  rcases writeProto_cases h with ⟨_, rfl⟩ | ⟨_, h2⟩
  · exact step_tag s _ hwf
  · obtain ⟨hb, _⟩ := add_some h2
    rw [hb]
    have a := step_tag s fgNewClassTag hwf
    have b := stepper_ul name.length _ a.2.2.1
    have c := step_raw _ name b.2.2.1
    exact (a.trans b).trans c

theorem storeRun_step (sch : Schema) (h : Heap) : ∀ (f : Nat) (ws : List (Nat × Nat × Fld)) (s : Store)
    (tp ti : List (Nat × Fld)) (sF : Store) (tpF tiF : List (Nat × Fld)),
    storeRun sch h f ws s tp ti = some (sF, tpF, tiF) → WF s.b → Step s.b sF.b := by
  intro f
  induction f with
  | zero =>
    intro ws s tp ti sF tpF tiF hr hwf
    cases ws with
    | nil => simp only [storeRun, Option.some.injEq, Prod.mk.injEq] at hr; rw [← hr.1]; exact Step.refl _ hwf
    | cons w ws => simp [storeRun] at hr
  | succ f ih =>
    intro ws s tp ti sF tpF tiF hr hwf
    cases ws with
    | nil => simp only [storeRun, Option.some.injEq, Prod.mk.injEq] at hr; rw [← hr.1]; exact Step.refl _ hwf
    | cons w ws =>
      obtain ⟨o, oi, fld⟩ := w
      cases fld with
      | val v =>
        simp only [storeRun] at hr
        have st := stepper_val v s.b hwf
        exact st.trans (ih _ _ _ _ _ _ _ hr st.2.2.1)
      | ptr p =>
        simp only [storeRun] at hr
        by_cases hp : p = 0
        · simp only [hp, if_true] at hr
          have st := step_tag s fgNullObjectTag hwf
          exact st.trans (ih _ _ _ _ _ _ _ hr st.2.2.1)
        · simp only [hp, if_false] at hr
          by_cases hs : (s.lookup (.obj p) != 0) = true
          · simp only [hs, if_true] at hr
            have st := step_tag s (s.lookup (.obj p)) hwf
            exact st.trans (ih _ _ _ _ _ _ _ hr st.2.2.1)
          · simp only [hs] at hr
            cases hn : heapLookup h p with
            | none => simp [hn] at hr
            | some n =>
              simp only [hn] at hr
              cases h1 : s.writeProto n.cls (sch n.cls).name with
              | none => simp [h1] at hr
              | some s1 =>
                simp only [h1] at hr
                cases h2 : s1.add (.obj p) with
                | none => simp [h2] at hr
                | some s2 =>
                  simp only [h2] at hr
                  have st1 := step_writeProto h1 hwf
                  have hb := (add_some h2).1
                  have st2 := ih _ _ _ _ _ _ _ hr (by rw [hb]; exact st1.2.2.1)
                  rw [hb] at st2
                  exact st1.trans st2


-- ------------------------------------------------------------------ load steps
theorem rt_tag (s : Store) (l : Load) (F : List Nat) (t : Nat) (ht : t < 4294967296) (hi : GInv s l F)
    (he : Ext (s.putTag t).b F) :
    ∃ l', l.getTag = .ok (t, l') ∧ GInv (s.putTag t) l' F ∧ l'.pool = l.pool ∧ l'.count = l.count := by
  obtain ⟨b', hg, hs⟩ := rt_prim s.b l.b F Ty.uint.w t (desc_tables .uint).1 (by rw [c_uint]; exact ht) hi.wf hi.sync he
  refine ⟨{ l with b := b' }, ?_, ⟨(step_tag s t hi.wf).2.2.1, hs, hi.cnt, hi.len, hi.bound, hi.max⟩, rfl, rfl⟩
  unfold Load.getTag
  rw [(desc_tables .uint).2, hg]; rfl

theorem rt_gval (s : Store) (l : Load) (F : List Nat) (v : Val) (hv : v.ok) (hi : GInv s l F)
    (he : Ext (s.putVal v).b F) :
    ∃ l', l.getVal v.shape = .ok (v, l') ∧ GInv (s.putVal v) l' F := by
  obtain ⟨b', hg, hs⟩ := rt_val v hv s.b l.b F hi.wf hi.sync he
  simp only at hg hs
  refine ⟨{ l with b := b' }, ?_, ⟨(stepper_val v s.b hi.wf).2.2.1, hs, hi.cnt, hi.len, hi.bound, hi.max⟩⟩
  unfold Load.getVal
  rw [hg]; rfl

theorem poolLookup_cons_le (pool : List (Key × Nat)) (k k' : Key) (c : Nat) (hb : ∀ k, poolLookup pool k ≤ c) :
    poolLookup ((k, c + 1) :: pool) k' ≤ c + 1 := by
  unfold poolLookup
  by_cases h : k = k'
  · simp [h]
  · simp only [h, if_false]; exact Nat.le_succ_of_le (hb k')

theorem load_add_ok (l : Load) (e : LEntry) (hl : l.pool.length = l.count) (hm : l.count < fgMaxObjectCount) :
    l.add e = .ok { l with pool := l.pool ++ [e], count := l.count + 1 } := by
  unfold Load.add
  have h1 : (l.pool.length != l.count) = false := by simp [hl]
  have h2 : ¬ (l.count ≥ fgMaxObjectCount) := by omega
  simp [h1, h2]

theorem ginv_add {s s' : Store} {l : Load} {F : List Nat} {k : Key} (e : LEntry) (hi : GInv s l F)
    (ha : s.add k = some s') :
    l.add e = .ok { l with pool := l.pool ++ [e], count := l.count + 1 } ∧
    GInv s' { l with pool := l.pool ++ [e], count := l.count + 1 } F := by
  obtain ⟨hb, hc, hp, hm⟩ := add_some ha
  refine ⟨load_add_ok l e (by rw [hi.len, hi.cnt]) (by rw [hi.cnt]; exact hm), ?_⟩
  refine ⟨by rw [hb]; exact hi.wf, by rw [hb]; exact hi.sync, by simp [hc, hi.cnt], by simp [hc, hi.len], ?_, by rw [hc]; omega⟩
  intro k'; rw [hp, hc]; exact poolLookup_cons_le _ _ _ _ hi.bound

theorem rt_proto (s s1 : Store) (l : Load) (F : List Nat) (c : Nat) (name : List Nat) (hn : name.length < noDataFollowed)
    (hi : GInv s l F) (hw : s.writeProto c name = some s1) (he : Ext s1.b F) :
    ∃ l1, l.readProto c name = .ok (none, l1) ∧ GInv s1 l1 F := by
  rcases writeProto_cases hw with ⟨hne, rfl⟩ | ⟨hz, h2⟩
  · have hb := hi.bound (.cls c)
    have hmax := hi.max
    have hidx : s.lookup (.cls c) = poolLookup s.pool (.cls c) := rfl
    rw [c_max] at hmax
    obtain ⟨l1, hg, hi1, hp1, hc1⟩ := rt_tag s l F (fgClassMask + s.lookup (.cls c)) (by rw [c_mask, hidx]; omega) hi he
    refine ⟨l1, ?_, hi1⟩
    unfold Load.readProto
    simp only [hg, bind, Except.bind]
    have e1 : ((fgClassMask + s.lookup (.cls c)) / fgClassMask % 2 == 0) = false := by
      rw [c_mask, hidx]; simp; omega
    have e2 : (fgClassMask + s.lookup (.cls c) == fgNewClassTag) = false := by
      rw [c_mask, c_new, hidx]; simp; omega
    have e3 : (fgClassMask + s.lookup (.cls c) - fgClassMask == 0 ||
        decide (fgClassMask + s.lookup (.cls c) - fgClassMask > l1.pool.length)) = false := by
      rw [hp1, hi.len, Nat.add_sub_cancel_left]
      simp only [Bool.or_eq_false_iff, beq_eq_false_iff_ne, ne_eq, decide_eq_false_iff_not, Nat.not_lt]
      exact ⟨hne, by rw [hidx]; exact hb⟩
    simp only [e1, e2, e3, Bool.false_eq_true, if_false]
  · obtain ⟨hb, hc, hp, hm⟩ := add_some h2
    simp only at hb hc hp hm
    have hwf := hi.wf
    have st1 := step_tag s fgNewClassTag hwf
    have st2 := stepper_ul name.length _ st1.2.2.1
    have st3 := step_raw _ name st2.2.2.1
    rw [hb] at he
    obtain ⟨l1, hg, hi1, hp1, hc1⟩ := rt_tag s l F fgNewClassTag (by rw [c_new]; omega) hi (st2.2.2.2 F (st3.2.2.2 F he))
    obtain ⟨b1, b2, hg1, hg2, hs2⟩ := rt_len_raw name.length name hn _ l1.b F hi1.wf hi1.sync he
    have hl1 : GInv ({ (s.putTag fgNewClassTag) with b := ((s.putTag fgNewClassTag).b.putUL name.length).putRaw name } : Store)
        { l1 with b := b2 } F :=
      ⟨st3.2.2.1, hs2, by simpa using hi1.cnt, by simpa using hi1.len, hi1.bound, hi1.max⟩
    obtain ⟨ha, hi3⟩ := ginv_add (.cls c) hl1 h2
    refine ⟨_, ?_, hi3⟩
    unfold Load.readProto
    simp only [hg, bind, Except.bind]
    have e1 : (fgNewClassTag / fgClassMask % 2 == 0) = false := by decide
    simp only [e1, Bool.false_eq_true, if_false, beq_self_eq_true, if_true]
    unfold Load.readProtoRecord
    simp only [hg1, bind, Except.bind, bne_self_eq_false, Bool.false_eq_true, if_false, hg2]
    simp only [ha]


-- ------------------------------------------------------------------ the simulation
theorem graph_sim (sch : Schema) (h : Heap) (hheap : HeapOK sch h)
    (hnames : ∀ c, (sch c).name.length < noDataFollowed) :
    ∀ (f : Nat) (ws : List (Nat × Nat × Fld)) (wl : List (Nat × FldTy)) (s : Store) (l : Load)
      (tp ti : List (Nat × Fld)) (F : List Nat) (sF : Store) (tpF tiF : List (Nat × Fld)),
      storeRun sch h f ws s tp ti = some (sF, tpF, tiF) → Ext sF.b F → GInv s l F → WorkRel h ws wl →
      ∃ lF, loadRun sch f wl l ti = .ok (lF, tiF) ∧ GInv sF lF F := by
  intro f
  induction f with
  | zero =>
    intro ws wl s l tp ti F sF tpF tiF hr _ hi hw
    cases hw with
    | nil =>
      simp only [storeRun, Option.some.injEq, Prod.mk.injEq] at hr
      obtain ⟨rfl, _, rfl⟩ := hr
      exact ⟨l, rfl, hi⟩
    | cons _ _ => simp [storeRun] at hr
  | succ f ih =>
    intro ws wl s l tp ti F sF tpF tiF hr hF hi hw
    cases hw with
    | nil =>
      simp only [storeRun, Option.some.injEq, Prod.mk.injEq] at hr
      obtain ⟨rfl, _, rfl⟩ := hr
      exact ⟨l, rfl, hi⟩
    | @cons w wt ws wl hhd htl =>
      obtain ⟨o, oi, fld⟩ := w
      obtain ⟨oi', ty⟩ := wt
      obtain ⟨hoi, hfm⟩ := hhd
      simp only at hoi hfm
      subst hoi
      cases fld with
      | val v =>
        cases ty with
        | ptr c => simp [fmatch] at hfm
        | val sh =>
          simp only [fmatch] at hfm
          obtain ⟨hsh, hok⟩ := hfm
          simp only [storeRun] at hr
          have stF := storeRun_step sch h _ _ _ _ _ _ _ _ hr (stepper_val v s.b hi.wf).2.2.1
          obtain ⟨l1, hg, hi1⟩ := rt_gval s l F v hok hi (stF.2.2.2 F hF)
          obtain ⟨lF, hlF, hiF⟩ := ih _ _ _ l1 _ _ F _ _ _ hr hF hi1 htl
          refine ⟨lF, ?_, hiF⟩
          simp only [loadRun, ← hsh, hg, bind, Except.bind]
          exact hlF
      | ptr p =>
        cases ty with
        | val sh => simp [fmatch] at hfm
        | ptr c =>
          simp only [fmatch] at hfm
          simp only [storeRun] at hr
          by_cases hp : p = 0
          · -- null pointer
            simp only [hp, if_true] at hr
            have stF := storeRun_step sch h _ _ _ _ _ _ _ _ hr (step_tag s fgNullObjectTag hi.wf).2.2.1
            obtain ⟨l1, hg, hi1, hp1, _⟩ := rt_tag s l F fgNullObjectTag (by rw [c_null]; omega) hi (stF.2.2.2 F hF)
            obtain ⟨lF, hlF, hiF⟩ := ih _ _ _ l1 _ _ F _ _ _ hr hF hi1 htl
            refine ⟨lF, ?_, hiF⟩
            simp only [loadRun, Load.readProto, hg, bind, Except.bind]
            have e1 : (fgNullObjectTag / fgClassMask % 2 == 0) = true := by decide
            simp only [e1, if_true, Load.lookup]
            have e2 : ¬ (fgNullObjectTag > l1.pool.length) := by rw [c_null]; omega
            simp only [e2, if_false]
            rw [c_null]
            exact hlF
          · simp only [hp, if_false] at hr
            by_cases hs : (s.lookup (.obj p) != 0) = true
            · -- object already stored: reference tag
              simp only [hs, if_true] at hr
              have hb := hi.bound (.obj p)
              have hmax := hi.max
              rw [c_max] at hmax
              have hidx : s.lookup (.obj p) = poolLookup s.pool (.obj p) := rfl
              have stF := storeRun_step sch h _ _ _ _ _ _ _ _ hr (step_tag s (s.lookup (.obj p)) hi.wf).2.2.1
              obtain ⟨l1, hg, hi1, hp1, _⟩ := rt_tag s l F (s.lookup (.obj p)) (by rw [hidx]; omega) hi (stF.2.2.2 F hF)
              obtain ⟨lF, hlF, hiF⟩ := ih _ _ _ l1 _ _ F _ _ _ hr hF hi1 htl
              refine ⟨lF, ?_, hiF⟩
              simp only [loadRun, Load.readProto, hg, bind, Except.bind]
              have e1 : (s.lookup (.obj p) / fgClassMask % 2 == 0) = true := by
                rw [c_mask, hidx]; simp; omega
              simp only [e1, if_true, Load.lookup]
              have e2 : ¬ (s.lookup (.obj p) > l1.pool.length) := by rw [hp1, hi.len, hidx]; omega
              simp only [e2, if_false]
              exact hlF
            · -- new object
              simp only [hs] at hr
              cases hn : heapLookup h p with
              | none => simp [hn] at hr
              | some n =>
                simp only [hn] at hr
                cases h1 : s.writeProto n.cls (sch n.cls).name with
                | none => simp [h1] at hr
                | some s1 =>
                  simp only [h1] at hr
                  cases h2 : s1.add (.obj p) with
                  | none => simp [h2] at hr
                  | some s2 =>
                    simp only [h2] at hr
                    have hcls : n.cls = c := by
                      rcases hfm with h0 | ⟨n', hn', hc'⟩
                      · exact absurd h0 hp
                      · rw [hn] at hn'; cases hn'; exact hc'
                    subst hcls
                    have st1 := step_writeProto h1 hi.wf
                    have hb2 := (add_some h2).1
                    have stF := storeRun_step sch h _ _ _ _ _ _ _ _ hr (by rw [hb2]; exact st1.2.2.1)
                    have he1 : Ext s1.b F := by rw [← hb2]; exact stF.2.2.2 F hF
                    obtain ⟨l1, hg1, hi1⟩ := rt_proto s s1 l F n.cls (sch n.cls).name (hnames _) hi h1 he1
                    obtain ⟨ha, hi2⟩ := ginv_add (.obj n.cls) hi1 h2
                    have hcnt : l1.count + 1 = s2.count := by rw [hi1.cnt, (add_some h2).2.1]
                    have hwr : WorkRel h (n.flds.map (fun x => (p, s2.count, x)) ++ ws)
                        ((sch n.cls).flds.map (fun t => (l1.count + 1, t)) ++ wl) := by
                      refine All2.append ?_ htl
                      exact All2.map _ _ (fun a b hab => ⟨by simp [hcnt], hab⟩) (hheap p n hn)
                    obtain ⟨lF, hlF, hiF⟩ := ih _ _ _ _ _ _ F _ _ _ hr hF hi2 hwr
                    refine ⟨lF, ?_, hiF⟩
                    simp only [loadRun, hg1, bind, Except.bind, ha]
                    rw [← hcnt] at hlF
                    exact hlF


theorem graph_roundtrip_lemma (sch : Schema) (h : Heap) (hheap : HeapOK sch h)
    (hnames : ∀ c, (sch c).name.length < noDataFollowed)
    (fuel root rootCls baseS baseL B : Nat) (hB : minBuf baseS ≤ B) (hbase : baseL % 8 = baseS % 8)
    (hroot : root = 0 ∨ ∃ n, heapLookup h root = some n ∧ n.cls = rootCls)
    (sF : Store) (tp ti : List (Nat × Fld))
    (hrun : storeRun sch h fuel [(0, 0, .ptr root)] (Store.init baseS B) [] [] = some (sF, tp, ti)) :
    ∃ lF, (Load.init baseL B sF.b.finish >>= fun l => loadRun sch fuel [(0, .ptr rootCls)] l []) = .ok (lF, ti) := by
  have hwf : WF (Store.init baseS B).b := wf_init baseS B hB
  have stF := storeRun_step sch h _ _ _ _ _ _ _ _ hrun hwf
  have hfin := finish_ext sF.b stF.2.2.1
  obtain ⟨lb, hlb, hs⟩ := init_sync baseS baseL B _ hbase (stF.2.2.2 _ hfin)
  have hi : GInv (Store.init baseS B) ⟨lb, [], 0, 0⟩ sF.b.finish :=
    ⟨hwf, hs, rfl, rfl, fun k => by simp [Store.init, poolLookup], by simp [Store.init]⟩
  obtain ⟨lF, hl, _⟩ := graph_sim sch h hheap hnames fuel _ [(0, .ptr rootCls)] _ _ _ _ _ _ _ _ hrun hfin hi
    (All2.cons ⟨rfl, hroot⟩ All2.nil)
  refine ⟨lF, ?_⟩
  unfold Load.init
  simp only [hlb, bind, Except.bind]
  exact hl

-- ------------------------------------------------------------------ what the index trace means (store side only)
def idx (pool : List (Key × Nat)) (p : Nat) : Nat := poolLookup pool (.obj p)

def renameFld (pool : List (Key × Nat)) : Fld → Fld
  | .val v => .val v
  | .ptr p => .ptr (idx pool p)

def rename (pool : List (Key × Nat)) (e : Nat × Fld) : Nat × Fld := (idx pool e.1, renameFld pool e.2)

/-- registered (or null) -/
def Reg (pool : List (Key × Nat)) (p : Nat) : Prop := p = 0 ∨ idx pool p ≠ 0

def RegFld (pool : List (Key × Nat)) : Fld → Prop
  | .val _ => True
  | .ptr p => Reg pool p

structure PoolOK (pool : List (Key × Nat)) (count : Nat) : Prop where
  bound : ∀ k, poolLookup pool k ≤ count
  inj : ∀ k1 k2, poolLookup pool k1 = poolLookup pool k2 → poolLookup pool k1 ≠ 0 → k1 = k2
  null : poolLookup pool (.obj 0) = 0

theorem poolLookup_cons (k k' : Key) (i : Nat) (r : List (Key × Nat)) :
    poolLookup ((k, i) :: r) k' = if k = k' then i else poolLookup r k' := rfl

theorem poolOK_cons {pool : List (Key × Nat)} {c : Nat} (k : Key) (h : PoolOK pool c) (hfresh : poolLookup pool k = 0)
    (hk : k ≠ .obj 0) : PoolOK ((k, c + 1) :: pool) (c + 1) := by
  refine ⟨fun k' => poolLookup_cons_le _ _ _ _ h.bound, ?_, ?_⟩
  · intro k1 k2 he hne
    rw [poolLookup_cons] at he hne
    rw [poolLookup_cons] at he
    by_cases h1 : k = k1 <;> by_cases h2 : k = k2
    · rw [← h1, ← h2]
    · simp only [h1, if_true] at he; rw [if_neg (by rw [← h1]; exact h2)] at he; have := h.bound k2; omega
    · simp only [h2, if_true] at he; rw [if_neg (by rw [← h2]; exact h1)] at he; have := h.bound k1; omega
    · rw [if_neg h1] at he hne; rw [if_neg h2] at he; exact h.inj k1 k2 he hne
  · rw [poolLookup_cons, if_neg hk]; exact h.null

theorem idx_cons_of_reg {pool : List (Key × Nat)} {c : Nat} {k : Key} (hfresh : poolLookup pool k = 0) {p : Nat}
    (hk0 : k ≠ .obj 0) (hr : Reg pool p) : idx ((k, c + 1) :: pool) p = idx pool p := by
  unfold idx
  rw [poolLookup_cons]
  by_cases hk : k = .obj p
  · rcases hr with rfl | hr
    · exact absurd hk hk0
    · exfalso; apply hr; unfold idx; rw [← hk]; exact hfresh
  · rw [if_neg hk]


/-- `pool'` extends `pool`: registered pointers keep their index -/
def Extends (pool pool' : List (Key × Nat)) : Prop := ∀ q, Reg pool q → idx pool' q = idx pool q

theorem Extends.refl (pool : List (Key × Nat)) : Extends pool pool := fun _ _ => rfl

theorem Extends.reg {pool pool' : List (Key × Nat)} (h : Extends pool pool') {q : Nat} (hq : Reg pool q) : Reg pool' q := by
  rcases hq with h0 | h1
  · exact Or.inl h0
  · exact Or.inr (by rw [h q (Or.inr h1)]; exact h1)

theorem Extends.trans {a b c : List (Key × Nat)} (h1 : Extends a b) (h2 : Extends b c) : Extends a c :=
  fun q hq => by rw [h2 q (h1.reg hq), h1 q hq]

theorem extends_cons {pool : List (Key × Nat)} (c : Nat) {k : Key} (hfresh : poolLookup pool k = 0) (hk0 : k ≠ .obj 0) :
    Extends pool ((k, c + 1) :: pool) := fun _ hq => idx_cons_of_reg hfresh hk0 hq

theorem rename_ext {pool pool' : List (Key × Nat)} (h : Extends pool pool') (e : Nat × Fld)
    (hr : Reg pool e.1 ∧ RegFld pool e.2) : rename pool' e = rename pool e := by
  obtain ⟨o, f⟩ := e
  cases f with
  | val v => simp only [rename, renameFld, h o hr.1]
  | ptr p => simp only [rename, renameFld, h o hr.1, h p hr.2]

theorem map_rename_ext {pool pool' : List (Key × Nat)} (h : Extends pool pool') (tp : List (Nat × Fld))
    (hr : ∀ e ∈ tp, Reg pool e.1 ∧ RegFld pool e.2) : tp.map (rename pool') = tp.map (rename pool) :=
  List.map_congr_left (fun e he => rename_ext h e (hr e he))

theorem regfld_ext {pool pool' : List (Key × Nat)} (h : Extends pool pool') {f : Fld} (hr : RegFld pool f) : RegFld pool' f := by
  cases f with
  | val v => trivial
  | ptr p => exact h.reg hr

theorem writeProto_pool {s s1 : Store} {c : Nat} {name : List Nat} (h : s.writeProto c name = some s1)
    (hp : PoolOK s.pool s.count) :
    PoolOK s1.pool s1.count ∧ Extends s.pool s1.pool ∧ (∀ p, poolLookup s.pool (.obj p) = 0 → poolLookup s1.pool (.obj p) = 0) := by
  rcases writeProto_cases h with ⟨_, rfl⟩ | ⟨hz, h2⟩
  · exact ⟨hp, Extends.refl _, fun _ h => h⟩
  · obtain ⟨_, hc, hpool, _⟩ := add_some h2
    simp only [Store.putTag] at hc hpool
    rw [hpool, hc]
    refine ⟨poolOK_cons _ hp hz (by simp), extends_cons _ hz (by simp), ?_⟩
    intro p h0
    rw [poolLookup_cons, if_neg (by simp)]; exact h0

structure SInv (s : Store) (ws : List (Nat × Nat × Fld)) (tp ti : List (Nat × Fld)) : Prop where
  pool : PoolOK s.pool s.count
  work : ∀ w ∈ ws, w.2.1 = idx s.pool w.1 ∧ Reg s.pool w.1
  tr : ti = tp.map (rename s.pool)
  reg : ∀ e ∈ tp, Reg s.pool e.1 ∧ RegFld s.pool e.2

theorem storeRun_sem (sch : Schema) (h : Heap) : ∀ (f : Nat) (ws : List (Nat × Nat × Fld)) (s : Store)
    (tp ti : List (Nat × Fld)) (sF : Store) (tpF tiF : List (Nat × Fld)),
    storeRun sch h f ws s tp ti = some (sF, tpF, tiF) → SInv s ws tp ti →
    PoolOK sF.pool sF.count ∧ tiF = tpF.map (rename sF.pool) ∧ ∀ e ∈ tpF, Reg sF.pool e.1 ∧ RegFld sF.pool e.2 := by
  intro f
  induction f with
  | zero =>
    intro ws s tp ti sF tpF tiF hr hi
    cases ws with
    | nil =>
      simp only [storeRun, Option.some.injEq, Prod.mk.injEq] at hr
      obtain ⟨rfl, rfl, rfl⟩ := hr
      exact ⟨hi.pool, hi.tr, hi.reg⟩
    | cons w ws => simp [storeRun] at hr
  | succ f ih =>
    intro ws s tp ti sF tpF tiF hr hi
    cases ws with
    | nil =>
      simp only [storeRun, Option.some.injEq, Prod.mk.injEq] at hr
      obtain ⟨rfl, rfl, rfl⟩ := hr
      exact ⟨hi.pool, hi.tr, hi.reg⟩
    | cons w ws =>
      obtain ⟨o, oi, fld⟩ := w
      obtain ⟨hoi, hro⟩ := hi.work (o, oi, fld) (by simp)
      simp only at hoi hro
      have hrest : ∀ w ∈ ws, w.2.1 = idx s.pool w.1 ∧ Reg s.pool w.1 := fun w hw => hi.work w (by simp [hw])
      cases fld with
      | val v =>
        simp only [storeRun] at hr
        refine ih _ _ _ _ _ _ _ hr ⟨hi.pool, hrest, ?_, ?_⟩
        · show ti ++ [(oi, Fld.val v)] = List.map (rename s.pool) (tp ++ [(o, Fld.val v)])
          rw [List.map_append, ← hi.tr]; simp [rename, renameFld, hoi]
        · intro e he; rcases List.mem_append.1 he with h1 | h1
          · exact hi.reg e h1
          · simp only [List.mem_singleton] at h1; subst h1; exact ⟨hro, trivial⟩
      | ptr p =>
        simp only [storeRun] at hr
        by_cases hp : p = 0
        · simp only [hp, if_true] at hr
          refine ih _ _ _ _ _ _ _ hr ⟨hi.pool, hrest, ?_, ?_⟩
          · show ti ++ [(oi, Fld.ptr 0)] = List.map (rename s.pool) (tp ++ [(o, Fld.ptr 0)])
            rw [List.map_append, ← hi.tr]; simp [rename, renameFld, hoi, idx, hi.pool.null]
          · intro e he; rcases List.mem_append.1 he with h1 | h1
            · exact hi.reg e h1
            · simp only [List.mem_singleton] at h1; subst h1; exact ⟨hro, Or.inl rfl⟩
        · simp only [hp, if_false] at hr
          by_cases hs : (s.lookup (.obj p) != 0) = true
          · simp only [hs, if_true] at hr
            refine ih _ _ _ _ _ _ _ hr ⟨hi.pool, hrest, ?_, ?_⟩
            · show ti ++ [(oi, Fld.ptr (s.lookup (Key.obj p)))] = List.map (rename s.pool) (tp ++ [(o, Fld.ptr p)])
              rw [List.map_append, ← hi.tr]; simp [rename, renameFld, hoi, idx, Store.lookup]
            · intro e he; rcases List.mem_append.1 he with h1 | h1
              · exact hi.reg e h1
              · simp only [List.mem_singleton] at h1; subst h1
                exact ⟨hro, Or.inr (show idx s.pool p ≠ 0 by simpa [idx, Store.lookup] using hs)⟩
          · simp only [hs] at hr
            have hfresh : poolLookup s.pool (.obj p) = 0 := by simpa [Store.lookup] using hs
            cases hn : heapLookup h p with
            | none => simp [hn] at hr
            | some n =>
              simp only [hn] at hr
              cases h1 : s.writeProto n.cls (sch n.cls).name with
              | none => simp [h1] at hr
              | some s1 =>
                simp only [h1] at hr
                cases h2 : s1.add (.obj p) with
                | none => simp [h2] at hr
                | some s2 =>
                  simp only [h2] at hr
                  obtain ⟨hp1, hx1, hf1⟩ := writeProto_pool h1 hi.pool
                  obtain ⟨_, hc2, hpool2, _⟩ := add_some h2
                  have hfresh1 := hf1 p hfresh
                  have hk0 : Key.obj p ≠ Key.obj 0 := by simp [hp]
                  have hp2 : PoolOK s2.pool s2.count := by rw [hpool2, hc2]; exact poolOK_cons _ hp1 hfresh1 hk0
                  have hx : Extends s.pool s2.pool := by rw [hpool2]; exact hx1.trans (extends_cons _ hfresh1 hk0)
                  have hidxp : idx s2.pool p = s2.count := by
                    rw [hpool2, hc2]; unfold idx; rw [poolLookup_cons, if_pos rfl]
                  have hregp : Reg s2.pool p := Or.inr (by rw [hidxp, hc2]; omega)
                  refine ih _ _ _ _ _ _ _ hr ⟨hp2, ?_, ?_, ?_⟩
                  · intro w hw
                    rcases List.mem_append.1 hw with h3 | h3
                    · obtain ⟨x, _, rfl⟩ := List.mem_map.1 h3
                      exact ⟨hidxp.symm, hregp⟩
                    · obtain ⟨a, b⟩ := hrest w h3
                      exact ⟨by rw [hx _ b]; exact a, hx.reg b⟩
                  · rw [List.map_append, map_rename_ext hx tp hi.reg, ← hi.tr]
                    simp [rename, renameFld, hidxp, hx o hro, hoi]
                  · intro e he; rcases List.mem_append.1 he with h3 | h3
                    · exact ⟨hx.reg (hi.reg e h3).1, regfld_ext hx (hi.reg e h3).2⟩
                    · simp only [List.mem_singleton] at h3; subst h3; exact ⟨hx.reg hro, hregp⟩


-- ------------------------------------------------------------------ executable heap typing (for concrete examples)
instance (u : Nat) : Decidable (unitOK u) := by unfold unitOK; infer_instance
instance (u : Nat) : Decidable (byteOK u) := by unfold byteOK; infer_instance
instance (v : Val) : Decidable v.ok := by
  cases v with
  | prim t x => unfold Val.ok; infer_instance
  | raw bs => unfold Val.ok; infer_instance
  | str o => cases o <;> unfold Val.ok <;> infer_instance
  | bstr o => cases o <;> unfold Val.ok <;> infer_instance
  | strL o => cases o with
    | none => unfold Val.ok; infer_instance
    | some p => obtain ⟨a, b⟩ := p; unfold Val.ok; infer_instance
  | bstrL o => cases o with
    | none => unfold Val.ok; infer_instance
    | some p => obtain ⟨a, b⟩ := p; unfold Val.ok; infer_instance

def fmatchb (h : Heap) : Fld → FldTy → Bool
  | .val v, .val sh => decide (v.shape = sh) && decide v.ok
  | .ptr q, .ptr c => q == 0 || (match heapLookup h q with | some n => n.cls == c | none => false)
  | _, _ => false

def all2b {α β : Type} (r : α → β → Bool) : List α → List β → Bool
  | [], [] => true
  | a :: as, b :: bs => r a b && all2b r as bs
  | _, _ => false

def heapOKb (sch : Schema) (h : Heap) : Bool := h.all (fun e => all2b (fmatchb h) e.2.flds (sch e.2.cls).flds)

theorem fmatchb_sound (h : Heap) (f : Fld) (t : FldTy) (hb : fmatchb h f t = true) : fmatch h f t := by
  cases f <;> cases t <;> simp [fmatchb, fmatch] at hb ⊢
  · exact hb
  · rcases hb with h0 | h1
    · exact Or.inl h0
    · right
      split at h1
      · next n hn => exact ⟨n, hn, by simpa using h1⟩
      · simp at h1

theorem all2b_sound {α β : Type} (r : α → β → Bool) (R : α → β → Prop) (hs : ∀ a b, r a b = true → R a b) :
    ∀ as bs, all2b r as bs = true → All2 R as bs
  | [], [], _ => All2.nil
  | a :: as, b :: bs, h => by
    simp only [all2b, Bool.and_eq_true] at h
    exact All2.cons (hs a b h.1) (all2b_sound r R hs as bs h.2)
  | [], _ :: _, h => by simp [all2b] at h
  | _ :: _, [], h => by simp [all2b] at h

theorem heapLookup_mem : ∀ (h : Heap) (p : Nat) (n : Node), heapLookup h p = some n → (p, n) ∈ h
  | [], _, _, hl => by simp [heapLookup] at hl
  | (q, m) :: r, p, n, hl => by
    unfold heapLookup at hl
    by_cases hq : q = p
    · simp only [hq, if_true, Option.some.injEq] at hl; subst hl; subst hq; simp
    · simp only [hq, if_false] at hl; exact List.mem_cons_of_mem _ (heapLookup_mem r p n hl)

theorem heapOKb_sound (sch : Schema) (h : Heap) (hb : heapOKb sch h = true) : HeapOK sch h := by
  intro p n hl
  have hm := heapLookup_mem h p n hl
  unfold heapOKb at hb
  rw [List.all_eq_true] at hb
  exact all2b_sound _ _ (fmatchb_sound h) _ _ (hb (p, n) hm)

end XV.Lemmas.SerGraph
