/- Lemmas for C12: the formatter model writes exactly the reference escaping (escUnits), and the XML reader
(XV.Spec.Unescape) reads it back.  Core Lean only. -/
import XV.Model.Formatter
import XV.Spec.Unescape
import XV.Spec.Escaping
namespace XV.Lemmas.Formatter
open XV.Model.Formatter XV.Gen.Escapes XV.Spec.Escaping
open XV.Spec.Unescape (numAcc hexDigit decodeRef readChars St refOK literalOK legalUnits)

/-! ### hex -/
theorem hexDigit_hexChar (d : Nat) (h : d < 16) : hexDigit (hexChar d) = some d := by
  have : ∀ d, d < 16 → hexDigit (hexChar d) = some d := by decide
  exact this d h

theorem numAcc_append (dg : Nat → Option Nat) (r : Nat) (l1 l2 : List Nat) (a : Nat) :
    numAcc dg r (l1 ++ l2) a = (numAcc dg r l1 a).bind (numAcc dg r l2) := by
  induction l1 generalizing a with
  | nil => simp [numAcc]
  | cons d t ih =>
    simp only [List.cons_append, numAcc]
    cases dg d with
    | none => simp
    | some v => simp [ih]

theorem numAcc_hexFuel (f : Nat) : ∀ n, n < 16 ^ f → numAcc hexDigit 16 (hexFuel f n) 0 = some n := by
  induction f with
  | zero => intro n h; simp at h; subst h; simp [hexFuel, numAcc]
  | succ f ih =>
    intro n h
    unfold hexFuel
    by_cases h16 : n < 16
    · simp [h16, numAcc, hexDigit_hexChar n h16]
    · have hm : n / 16 < 16 ^ f := by
        have : n < 16 * 16 ^ f := by rw [Nat.pow_succ] at h; omega
        exact Nat.div_lt_of_lt_mul this
      simp only [h16, if_false]
      rw [numAcc_append, ih _ hm]
      simp [numAcc, hexDigit_hexChar (n % 16) (Nat.mod_lt _ (by decide))]
      omega

theorem hexChar_range (d : Nat) (h : d < 16) : (48 ≤ hexChar d ∧ hexChar d ≤ 57) ∨ (65 ≤ hexChar d ∧ hexChar d ≤ 70) := by
  unfold hexChar; split <;> omega

theorem hexFuel_mem (f : Nat) : ∀ n c, c ∈ hexFuel f n → (48 ≤ c ∧ c ≤ 57) ∨ (65 ≤ c ∧ c ≤ 70) := by
  induction f with
  | zero => intro n c h; simp [hexFuel] at h
  | succ f ih =>
    intro n c h
    unfold hexFuel at h
    by_cases h16 : n < 16
    · simp [h16] at h; subst h; exact hexChar_range n h16
    · simp only [h16, if_false, List.mem_append, List.mem_singleton] at h
      rcases h with h | h
      · exact ih _ _ h
      · subst h; exact hexChar_range _ (Nat.mod_lt _ (by decide))

theorem hexFuel_ne_nil (f n : Nat) : hexFuel (f + 1) n ≠ [] := by
  unfold hexFuel; split <;> simp

theorem hexDigits_val (n : Nat) (h : n < 18446744073709551616) : numAcc hexDigit 16 (hexDigits n) 0 = some n :=
  numAcc_hexFuel 16 n (by simpa using h)


/-! ### well-formed UTF-16 -/
def wfUnits : List Nat → Bool
  | [] => true
  | [c] => !isHigh c && !isLow c
  | c :: n :: t => if isHigh c then isLow n && wfUnits t else !isLow c && wfUnits (n :: t)

theorem wf_cons_plain {c : Nat} {t : List Nat} (h1 : isHigh c = false) :
    wfUnits (c :: t) = (!isLow c && wfUnits t) := by
  cases t <;> simp [wfUnits, h1]

theorem wf_split : ∀ (n : Nat) (a : List Nat), a.length ≤ n → ∀ c b, isHigh c = false → isLow c = false →
    wfUnits (a ++ c :: b) = true → wfUnits a = true ∧ wfUnits (c :: b) = true := by
  intro n
  induction n with
  | zero =>
    intro a ha c b _ _ h
    have : a = [] := by cases a <;> simp_all
    subst this; exact ⟨rfl, by simpa using h⟩
  | succ n ih =>
    intro a ha c b hc hl h
    cases a with
    | nil => exact ⟨rfl, by simpa using h⟩
    | cons x a' =>
      by_cases hx : isHigh x = true
      · cases a' with
        | nil => simp [wfUnits, hx, hl] at h
        | cons y a'' =>
          simp only [List.cons_append, wfUnits, hx, if_true, Bool.and_eq_true] at h
          have := ih a'' (by simp at ha; omega) c b hc hl h.2
          cases a'' <;> simp_all [wfUnits]
      · have hx' : isHigh x = false := by simpa using hx
        rw [List.cons_append, wf_cons_plain hx'] at h
        simp only [Bool.and_eq_true] at h
        have := ih a' (by simp at ha; omega) c b hc hl h.2
        rw [wf_cons_plain hx']
        simp [h.1, this.1, this.2]

theorem wf_of_noSurr (l : List Nat) (h : ∀ u ∈ l, isHigh u = false ∧ isLow u = false) : wfUnits l = true := by
  induction l with
  | nil => rfl
  | cons c t ih =>
    have hc := h c (by simp)
    rw [wf_cons_plain hc.1]
    simp [hc.2, ih (fun u hu => h u (by simp [hu]))]

/-! ### the coder -/
structure Good (cd : Coder) : Prop where
  ascii : ∀ c, 32 ≤ c → c < 127 → cd.rep c = true
  asciiBack : ∀ c, 32 ≤ c → c < 127 → cd.back c = c
  surr : (∀ c, 0xD800 ≤ c → c ≤ 0xDFFF → cd.rep c = true) ∨ (∀ c, 0xD800 ≤ c → c ≤ 0xDFFF → cd.rep c = false)
  pairsAll : cd.pairs = true → ∀ c, c < 65536 → cd.rep c = true

theorem xcodeUnits_rep (cd : Coder) (thr : Bool) (run : List Nat) (h : ∀ u ∈ run, cd.ok u) :
    xcodeUnits cd thr run = .ok run := by
  induction run with
  | nil => rfl
  | cons c t ih =>
    simp [xcodeUnits, (h c (by simp)).1, (h c (by simp)).2, ih (fun u hu => h u (by simp [hu])), Except.map]

theorem pairVal32_eq (c n : Nat) (hc : 0xD800 ≤ c ∧ c ≤ 0xDBFF) (hn : 0xDC00 ≤ n ∧ n ≤ 0xDFFF) :
    pairVal32 c n = 0x10000 + (c - 0xD800) * 1024 + (n - 0xDC00) := by
  unfold pairVal32; omega

theorem pair_roundtrip (c n : Nat) (hc : isHigh c = true) (hn : isLow n = true) :
    pairVal32 c n < 0x110000 ∧ scalarUnits (pairVal32 c n) = [c, n] := by
  simp only [isHigh, isLow, Bool.and_eq_true, decide_eq_true_eq] at hc hn
  rw [pairVal32_eq c n hc hn]
  obtain ⟨v, hv⟩ : ∃ v, v = 0x10000 + (c - 0xD800) * 1024 + (n - 0xDC00) := ⟨_, rfl⟩
  rw [← hv]
  constructor
  · omega
  · unfold scalarUnits
    have : ¬ (v < 0x10000) := by omega
    simp only [this, if_false]
    have h1 : 0xD800 + (v - 0x10000) / 1024 = c := by omega
    have h2 : 0xDC00 + (v - 0x10000) % 1024 = n := by omega
    rw [h1, h2]

theorem xcodePairs_wf (thr : Bool) : ∀ (k : Nat) (run : List Nat), run.length ≤ k → wfUnits run = true →
    xcodePairs thr run = .ok (run, []) := by
  intro k
  induction k with
  | zero => intro run h _; have : run = [] := by cases run <;> simp_all
            subst this; rfl
  | succ k ih =>
    intro run hl hw
    match run, hl, hw with
    | [], _, _ => rfl
    | [c], _, hw =>
      simp only [wfUnits, Bool.and_eq_true, Bool.not_eq_true'] at hw
      simp [xcodePairs, hw.1]
    | c :: n :: t', hl, hw =>
      by_cases hc : isHigh c = true
      · simp only [wfUnits, hc, if_true, Bool.and_eq_true] at hw
        have hp := pair_roundtrip c n hc hw.1
        have hlt : ¬ (pairVal32 c n ≥ 0x110000) := by omega
        simp only [xcodePairs, hc, if_true, hlt, if_false]
        rw [ih t' (by simp at hl; omega) hw.2]
        simp [Except.map, hp.2]
      · have hc' : isHigh c = false := by simpa using hc
        simp only [wfUnits, hc', Bool.false_eq_true, if_false, Bool.and_eq_true] at hw
        simp only [xcodePairs, hc', Bool.false_eq_true, if_false]
        rw [ih (n :: t') (by simp at hl ⊢; omega) hw.2]
        simp [Except.map]

theorem handle_ok (cd : Coder) (unrep : UnRepFlags) (run : List Nat) (h : ∀ u ∈ run, cd.ok u)
    (hw : cd.pairs = true → wfUnits run = true) : handleUnEscapedChars cd unrep run = .ok run := by
  unfold handleUnEscapedChars
  cases run with
  | nil => rfl
  | cons c t =>
    simp only [List.isEmpty_cons, Bool.false_eq_true, if_false]
    by_cases hp : cd.pairs = true
    · simp [hp, xcodePairs_wf _ _ _ (Nat.le_refl _) (hw hp)]
    · simp [hp, xcodeUnits_rep cd _ _ h]


theorem escPlain_append (cfg : Cfg) (esc : EscapeFlags) (a b : List Nat) :
    escPlain cfg esc (a ++ b) = escPlain cfg esc a ++ escPlain cfg esc b := by
  simp [escPlain]

theorem charRefText_mem (v c : Nat) (h : c ∈ charRefText v) : 35 ≤ c ∧ c ≤ 120 := by
  unfold charRefText at h
  rw [List.mem_append, List.mem_append] at h
  rcases h with (h | h) | h
  · simp at h; omega
  · have := hexFuel_mem 16 v c h; omega
  · simp at h; omega

theorem stdRef_mem (r : List Nat) (hr : r = gAmpRef ∨ r = gAposRef ∨ r = gQuoteRef ∨ r = gGTRef ∨ r = gLTRef)
    (c : Nat) (h : c ∈ r) : 35 ≤ c ∧ c ≤ 120 := by
  rcases hr with rfl | rfl | rfl | rfl | rfl <;>
    simp [gAmpRef, gAposRef, gQuoteRef, gGTRef, gLTRef] at h <;> omega

theorem ascii_noSurr (l : List Nat) (h : ∀ c ∈ l, 35 ≤ c ∧ c ≤ 120) :
    ∀ u ∈ l, isHigh u = false ∧ isLow u = false := by
  intro u hu; have := h u hu
  simp [isHigh, isLow]; omega

theorem writeCharRef_ok (cd : Coder) (hg : Good cd) (v : Nat) : writeCharRef cd v = .ok (charRefText v) := by
  unfold writeCharRef
  apply handle_ok
  · intro u hu; have := charRefText_mem v u hu; exact ⟨hg.ascii u (by omega) (by omega), hg.asciiBack u (by omega) (by omega)⟩
  · intro _; exact wf_of_noSurr _ (ascii_noSurr _ (charRefText_mem v))

theorem getCharRef_ok (cd : Coder) (hg : Good cd) (r : List Nat)
    (hr : r = gAmpRef ∨ r = gAposRef ∨ r = gQuoteRef ∨ r = gGTRef ∨ r = gLTRef) : getCharRef cd r = .ok r := by
  unfold getCharRef
  have hrep : ∀ u ∈ r, cd.ok u := by
    intro u hu; have := stdRef_mem r hr u hu; exact ⟨hg.ascii u (by omega) (by omega), hg.asciiBack u (by omega) (by omega)⟩
  by_cases hp : cd.pairs = true
  · have := xcodePairs_wf true _ r (Nat.le_refl _) (wf_of_noSurr _ (ascii_noSurr _ (stdRef_mem r hr)))
    simp [hp, this]
  · simp [hp, xcodeUnits_rep cd _ _ hrep]

theorem escapeOne_ok (cd : Coder) (hg : Good cd) (c : Nat) : escapeOne cd c = .ok (refText c) := by
  unfold escapeOne refText
  by_cases h1 : c = 38
  · simp [h1, getCharRef_ok cd hg gAmpRef (by simp)]
  by_cases h2 : c = 39
  · simp [h2, getCharRef_ok cd hg gAposRef (by simp)]
  by_cases h3 : c = 34
  · simp [h3, getCharRef_ok cd hg gQuoteRef (by simp)]
  by_cases h4 : c = 62
  · simp [h4, getCharRef_ok cd hg gGTRef (by simp)]
  by_cases h5 : c = 60
  · simp [h5, getCharRef_ok cd hg gLTRef (by simp)]
  simp [h1, h2, h3, h4, h5, writeCharRef_ok cd hg]

/-- every unit the escape table (or the XML 1.1 rule) selects lies below the surrogates -/
theorem inEscapeList_lt (cfg : Cfg) (esc : EscapeFlags) (c : Nat) (h : inEscapeList cfg esc c = true) : c < 0x2029 := by
  unfold inEscapeList at h
  by_cases hs : scanRow (escRow esc) c = true
  · cases esc <;>
      simp [escRow, escNoEscapes, escStdEscapes, escAttrEscapes, escCharEscapes, scanRow] at hs <;> omega
  · simp only [hs, Bool.false_eq_true, if_false] at h
    by_cases hx : cfg.xml11 = true
    · simp only [hx, if_true] at h
      by_cases hf : (cfg.eolFix && (c == 0x85 || c == 0x2028)) = true
      · simp at hf; omega
      · simp only [hf, Bool.false_eq_true, if_false] at h
        simp [inRanges, control11] at h; omega
    · simp [hx] at h

theorem escLoop_ok (cd : Coder) (hg : Good cd) (cfg : Cfg) (esc : EscapeFlags) (hne : esc ≠ .NoEscapes)
    (unrep : UnRepFlags) :
    ∀ (src run : List Nat), (∀ u ∈ run ++ src, cd.ok u) → (cd.pairs = true → wfUnits (run ++ src) = true) →
      escLoop cd cfg esc unrep src run = .ok (run ++ escPlain cfg esc src) := by
  intro src
  induction src with
  | nil =>
    intro run hr hw
    simp only [List.append_nil] at hr hw
    simp only [escLoop, flushRun, escPlain, List.flatMap_nil, List.append_nil]
    cases run with
    | nil => rfl
    | cons x r => simp [handle_ok cd unrep _ hr hw]
  | cons c t ih =>
    intro run hr hw
    have hescd : escd cfg esc c = inEscapeList cfg esc c := by simp [escd, hne]
    by_cases he : inEscapeList cfg esc c = true
    · have hclt := inEscapeList_lt cfg esc c he
      have hcH : isHigh c = false := by simp [isHigh]; omega
      have hcL : isLow c = false := by simp [isLow]; omega
      have hrun : flushRun cd unrep run = .ok run := by
        unfold flushRun
        cases run with
        | nil => rfl
        | cons x r =>
          simp only [List.isEmpty_cons, Bool.false_eq_true, if_false]
          exact handle_ok cd unrep _ (fun u hu => hr u (List.mem_append.mpr (Or.inl hu)))
            (fun hp => (wf_split _ _ (Nat.le_refl _) c t hcH hcL (hw hp)).1)
      have hrest := ih [] (fun u hu => hr u (List.mem_append.mpr (Or.inr (List.mem_cons_of_mem _ (by simpa using hu)))))
        (fun hp => by
          have := (wf_split _ _ (Nat.le_refl _) c t hcH hcL (hw hp)).2
          rw [wf_cons_plain hcH] at this
          simp at this ⊢; exact this.2)
      simp only [escLoop, he, if_true, hrun, escapeOne_ok cd hg c, hrest, seq3]
      simp [escPlain, hescd, he]
    · have he' : inEscapeList cfg esc c = false := by simpa using he
      simp only [escLoop, he', Bool.false_eq_true, if_false]
      rw [ih (run ++ [c]) (by simpa using hr) (by simpa using hw)]
      simp [escPlain, hescd, he']

theorem formatPlain_ok (cd : Coder) (hg : Good cd) (cfg : Cfg) (esc : EscapeFlags) (unrep : UnRepFlags)
    (run : List Nat) (hr : ∀ u ∈ run, cd.ok u) (hw : cd.pairs = true → wfUnits run = true) :
    formatPlain cd cfg esc unrep run = .ok (escPlain cfg esc run) := by
  unfold formatPlain
  by_cases hne : esc = .NoEscapes
  · subst hne
    simp only [if_true]
    rw [handle_ok cd unrep run hr hw]
    simp [escPlain, escd]
  · simp only [hne, if_false]
    rw [escLoop_ok cd hg cfg esc hne unrep run [] (by simpa using hr) (by simpa using hw)]
    simp

theorem flushPlain_ok (cd : Coder) (hg : Good cd) (cfg : Cfg) (esc : EscapeFlags)
    (run : List Nat) (hr : ∀ u ∈ run, cd.ok u) (hw : cd.pairs = true → wfUnits run = true) :
    flushPlain cd cfg esc run = .ok (escPlain cfg esc run) := by
  unfold flushPlain
  cases run with
  | nil => simp [escPlain]
  | cons x r => simp [formatPlain_ok cd hg cfg esc .UnRep_Fail _ hr hw]


theorem escUnits_rep_cons (cd : Coder) (cfg : Cfg) (esc : EscapeFlags) (c : Nat) (t : List Nat) (h : cd.rep c = true) :
    escUnits cd cfg esc (c :: t) = (if escd cfg esc c then refText c else [c]) ++ escUnits cd cfg esc t := by
  cases t <;> simp [escUnits, h]

theorem escUnits_unrep_plain (cd : Coder) (cfg : Cfg) (esc : EscapeFlags) (c : Nat) (t : List Nat)
    (h : cd.rep c = false) (hh : isHigh c = false) :
    escUnits cd cfg esc (c :: t) = charRefText c ++ escUnits cd cfg esc t := by
  cases t <;> simp [escUnits, h, hh]

theorem specialLoop_ok (cd : Coder) (hg : Good cd) (cfg : Cfg) (esc : EscapeFlags) :
    ∀ (k : Nat) (src run : List Nat), src.length ≤ k → (∀ u ∈ run, cd.ok u) → (∀ u ∈ src, u < 65536) →
      (∀ u ∈ src, cd.rep u = true → cd.back u = u) →
      (cd.pairs = true → wfUnits (run ++ src) = true) →
      specialLoop cd cfg esc src run = .ok (escPlain cfg esc run ++ escUnits cd cfg esc src) := by
  intro k
  induction k with
  | zero =>
    intro src run hl hr _ _ hw
    have : src = [] := by cases src <;> simp_all
    subst this
    simp only [List.append_nil] at hw
    simp [specialLoop, escUnits, flushPlain_ok cd hg cfg esc run hr hw]
  | succ k ih =>
    intro src run hl hr hu hb hw
    match src, hl, hu, hb, hw with
    | [], _, _, _, hw =>
      simp only [List.append_nil] at hw
      simp [specialLoop, escUnits, flushPlain_ok cd hg cfg esc run hr hw]
    | [c], _, hu, hb, hw =>
      by_cases hc : cd.rep c = true
      · have hok : cd.ok c := ⟨hc, hb c (by simp) hc⟩
        have := ih [] (run ++ [c]) (by simp) (by intro u h; simp at h; rcases h with h | h; exact hr u h; exact h ▸ hok)
          (by simp) (by simp) (by simpa using hw)
        have e1 : specialLoop cd cfg esc [c] run = specialLoop cd cfg esc [] (run ++ [c]) := by
          simp [specialLoop, hc]
        rw [e1, this]
        simp [escUnits, hc, escPlain_append, escPlain]
      · have hc' : cd.rep c = false := by simpa using hc
        have hnp : ¬ cd.pairs = true := fun hp => hc (hg.pairsAll hp c (hu c (by simp)))
        have hfl := flushPlain_ok cd hg cfg esc run hr (fun hp => absurd hp hnp)
        have hnil : flushPlain cd cfg esc [] = .ok [] := by simp [flushPlain]
        by_cases hh : isHigh c = true
        · simp [specialLoop, hc', hh, hfl, writeCharRef_ok cd hg, seq3, escUnits]
        · simp [specialLoop, hc', hh, hfl, writeCharRef_ok cd hg, seq3, escUnits, hnil]
    | c :: n :: t', hl, hu, hb, hw =>
      by_cases hc : cd.rep c = true
      · have hok : cd.ok c := ⟨hc, hb c (by simp) hc⟩
        have := ih (n :: t') (run ++ [c]) (by simp at hl ⊢; omega)
          (by intro u h; simp at h; rcases h with h | h; exact hr u h; exact h ▸ hok)
          (fun u h => hu u (List.mem_cons_of_mem _ h)) (fun u h => hb u (List.mem_cons_of_mem _ h)) (by simpa using hw)
        have e1 : specialLoop cd cfg esc (c :: n :: t') run = specialLoop cd cfg esc (n :: t') (run ++ [c]) := by
          simp [specialLoop, hc]
        rw [e1, this]
        simp [escUnits, hc, escPlain_append, escPlain]
      · have hc' : cd.rep c = false := by simpa using hc
        have hnp : ¬ cd.pairs = true := fun hp => hc (hg.pairsAll hp c (hu c (by simp)))
        have hfl := flushPlain_ok cd hg cfg esc run hr (fun hp => absurd hp hnp)
        by_cases hh : isHigh c = true
        · have := ih t' [] (by simp at hl ⊢; omega) (by simp)
            (fun u h => hu u (List.mem_cons_of_mem _ (List.mem_cons_of_mem _ h)))
            (fun u h => hb u (List.mem_cons_of_mem _ (List.mem_cons_of_mem _ h))) (fun hp => absurd hp hnp)
          simp [specialLoop, hc', hh, hfl, writeCharRef_ok cd hg, seq3, escUnits, this, escPlain]
        · have := ih (n :: t') [] (by simp at hl ⊢; omega) (by simp)
            (fun u h => hu u (List.mem_cons_of_mem _ h)) (fun u h => hb u (List.mem_cons_of_mem _ h)) (fun hp => absurd hp hnp)
          simp [specialLoop, hc', hh, hfl, writeCharRef_ok cd hg, seq3, escUnits, this, escPlain]

/-- **What `formatBuf(…, UnRep_CharRef)` writes**, for every string of 16-bit units when the transcoder works
unit by unit, and for every well-formed UTF-16 string when it recombines surrogate pairs — provided the units the
transcoder accepts are read back unchanged (`hb`; this excludes the best-fit entries of the table transcoders). -/
theorem formatBuf_charRef_eq (cd : Coder) (hg : Good cd) (cfg : Cfg) (esc : EscapeFlags) (s : List Nat)
    (hu : ∀ u ∈ s, u < 65536) (hb : ∀ u ∈ s, cd.rep u = true → cd.back u = u)
    (hw : cd.pairs = true → wfUnits s = true) :
    formatBuf cd cfg esc .UnRep_CharRef s = .ok (escUnits cd cfg esc s) := by
  unfold formatBuf
  simp only [if_true]
  rw [specialLoop_ok cd hg cfg esc _ s [] (Nat.le_refl _) (by simp) hu hb (by simpa using hw)]
  simp [escPlain]


/-! ### reading the formatter's output back (XV.Spec.Unescape) -/
namespace Rd
open XV.Spec.Unescape

theorem read_ref_aux (v11 attr : Bool) (t : List Nat) : ∀ (body acc : List Nat), (∀ x ∈ body, x ≠ 59) →
    readChars v11 attr (body ++ 59 :: t) (.ref acc) =
      match decodeRef v11 (acc ++ body) with
      | some us => (readChars v11 attr t (.norm false 0)).map (us ++ ·)
      | none => none := by
  intro body
  induction body with
  | nil => intro acc _; simp [readChars]; cases decodeRef v11 acc <;> rfl
  | cons x r ih =>
    intro acc h
    have hx : x ≠ 59 := h x (by simp)
    simp only [List.cons_append, readChars, hx, if_false]
    rw [ih (acc ++ [x]) (fun y hy => h y (by simp [hy]))]
    simp

theorem read_ref (v11 attr : Bool) (b : Nat) (body us t : List Nat) (h59 : ∀ x ∈ body, x ≠ 59)
    (hd : decodeRef v11 body = some us) :
    readChars v11 attr (38 :: (body ++ 59 :: t)) (.norm false b) = (readChars v11 attr t (.norm false 0)).map (us ++ ·) := by
  simp only [readChars, Bool.false_and, Bool.false_eq_true, if_false, if_true]
  rw [read_ref_aux v11 attr t body [] h59]
  simp [hd]

theorem read_pair (v11 attr : Bool) (b h l : Nat) (t : List Nat) (hh : highSurr h = true) (hl : lowSurr l = true) :
    readChars v11 attr (h :: l :: t) (.norm false b) = (readChars v11 attr t (.norm false 0)).map ([h, l] ++ ·) := by
  have hh' := hh
  simp only [highSurr, Bool.and_eq_true, decide_eq_true_eq] at hh'
  have e1 : h ≠ 38 := by omega
  have e2 : h ≠ 60 := by omega
  have e3 : h ≠ 34 := by omega
  have e4 : h ≠ 62 := by omega
  have e5 : h ≠ 13 := by omega
  have e6 : h ≠ 10 := by omega
  have e7 : h ≠ 0x85 := by omega
  have e8 : h ≠ 0x2028 := by omega
  have e9 : h ≠ 9 := by omega
  simp [readChars, e1, e2, e3, e4, e5, e6, e7, e8, e9, hh, hl]

/-- a unit the reader takes as it stands -/
structure PlainFor (v11 attr : Bool) (c : Nat) : Prop where
  n38 : c ≠ 38
  n60 : c ≠ 60
  n13 : c ≠ 13
  hattr : attr = true → c ≠ 34 ∧ c ≠ 9 ∧ c ≠ 10
  htext : attr = false → c ≠ 62
  hv11 : v11 = true → c ≠ 0x85 ∧ c ≠ 0x2028
  lit : literalOK v11 c = true
  nh : highSurr c = false
  nl : lowSurr c = false

theorem read_plain (v11 attr : Bool) (b c : Nat) (t : List Nat) (p : PlainFor v11 attr c) :
    ∃ b', readChars v11 attr (c :: t) (.norm false b) = (readChars v11 attr t (.norm false b')).map (c :: ·) := by
  have ⟨n38, n60, n13, ha, ht, hv, lit, nh, nl⟩ := p
  cases attr with
  | true =>
    have ⟨a1, a2, a3⟩ := ha rfl
    cases v11 with
    | true =>
      have ⟨v1, v2⟩ := hv rfl
      exact ⟨_, by simp [readChars, n38, n60, n13, a1, a2, a3, v1, v2, lit, nh, nl]; rfl⟩
    | false => exact ⟨_, by simp [readChars, n38, n60, n13, a1, a2, a3, lit, nh, nl]; rfl⟩
  | false =>
    have t1 := ht rfl
    by_cases h10 : c = 10
    · subst h10
      exact ⟨0, by simp [readChars]⟩
    · cases v11 with
      | true =>
        have ⟨v1, v2⟩ := hv rfl
        exact ⟨_, by simp [readChars, n38, n60, n13, t1, h10, v1, v2, lit, nh, nl]; rfl⟩
      | false => exact ⟨_, by simp [readChars, n38, n60, n13, t1, h10, lit, nh, nl]; rfl⟩

theorem decodeRef_hex (v11 : Bool) (v : Nat) (hv : v < 18446744073709551616) (hok : refOK v11 v = true) :
    decodeRef v11 (35 :: 120 :: hexDigits v) = some (utf16 v) := by
  have hne : (hexDigits v).isEmpty = false := by
    have := hexFuel_ne_nil 15 v
    unfold hexDigits
    cases h : hexFuel 16 v with
    | nil => exact absurd h this
    | cons _ _ => rfl
  simp [decodeRef, hne, hexDigits_val v hv, hok]

theorem charRef_body_no59 (v : Nat) : ∀ x ∈ 35 :: 120 :: hexDigits v, x ≠ 59 := by
  intro x hx
  simp only [List.mem_cons] at hx
  rcases hx with h | h | h
  · omega
  · omega
  · have := hexFuel_mem 16 v x h; omega

theorem charRefText_shape (v : Nat) (t : List Nat) :
    charRefText v ++ t = 38 :: ((35 :: 120 :: hexDigits v) ++ 59 :: t) := by
  simp [charRefText]

theorem read_charRef (v11 attr : Bool) (b v : Nat) (t : List Nat) (hv : v < 18446744073709551616)
    (hok : refOK v11 v = true) :
    readChars v11 attr (charRefText v ++ t) (.norm false b) = (readChars v11 attr t (.norm false 0)).map (utf16 v ++ ·) := by
  rw [charRefText_shape, read_ref v11 attr b _ _ t (charRef_body_no59 v) (decodeRef_hex v11 v hv hok)]

theorem read_refText_std (v11 attr : Bool) (b c : Nat) (t : List Nat)
    (hc : c = 38 ∨ c = 39 ∨ c = 34 ∨ c = 62 ∨ c = 60) :
    readChars v11 attr (refText c ++ t) (.norm false b) = (readChars v11 attr t (.norm false 0)).map ([c] ++ ·) := by
  rcases hc with rfl | rfl | rfl | rfl | rfl
  · exact read_ref v11 attr b [97, 109, 112] [38] t (by decide) (by rfl)
  · exact read_ref v11 attr b [97, 112, 111, 115] [39] t (by decide) (by rfl)
  · exact read_ref v11 attr b [113, 117, 111, 116] [34] t (by decide) (by rfl)
  · exact read_ref v11 attr b [103, 116] [62] t (by decide) (by rfl)
  · exact read_ref v11 attr b [108, 116] [60] t (by decide) (by rfl)


/-- the escape table is sufficient for a reading context: every legal unit that the table does NOT select is
one the reader takes as it stands -/
structure Suff (attr : Bool) (cfg : Cfg) (esc : EscapeFlags) : Prop where
  ne : esc ≠ .NoEscapes
  plain : ∀ c, c < 0x10000 → highSurr c = false → lowSurr c = false → refOK cfg.xml11 c = true →
    inEscapeList cfg esc c = false → PlainFor cfg.xml11 attr c

theorem legal_cons_plain (v11 : Bool) (c : Nat) (t : List Nat) (h : highSurr c = false) :
    legalUnits v11 (c :: t) = (!lowSurr c && decide (c < 0x10000) && refOK v11 c && legalUnits v11 t) := by
  cases t <;> simp [legalUnits, h]

theorem surr_eq (c : Nat) : XV.Model.Formatter.isHigh c = highSurr c ∧ XV.Model.Formatter.isLow c = lowSurr c := by
  simp [XV.Model.Formatter.isHigh, XV.Model.Formatter.isLow, highSurr, lowSurr]

theorem pairRef_eq (c n : Nat) (hc : highSurr c = true) (hn : lowSurr n = true) :
    pairRef c n < 0x110000 ∧ 0x10000 ≤ pairRef c n ∧ utf16 (pairRef c n) = [c, n] := by
  simp only [highSurr, lowSurr, Bool.and_eq_true, decide_eq_true_eq] at hc hn
  have e : pairRef c n = 0x10000 + (c - 0xD800) * 1024 + (n - 0xDC00) := by unfold pairRef; omega
  rw [e]
  obtain ⟨v, hv⟩ : ∃ v, v = 0x10000 + (c - 0xD800) * 1024 + (n - 0xDC00) := ⟨_, rfl⟩
  rw [← hv]
  refine ⟨by omega, by omega, ?_⟩
  unfold utf16
  have : ¬ (v < 0x10000) := by omega
  simp only [this, if_false]
  have h1 : 0xD800 + (v - 0x10000) / 1024 = c := by omega
  have h2 : 0xDC00 + (v - 0x10000) % 1024 = n := by omega
  rw [h1, h2]

theorem refOK_supp (v11 : Bool) (v : Nat) (h1 : 0x10000 ≤ v) (h2 : v < 0x110000) : refOK v11 v = true := by
  cases v11 <;> simp [refOK, isChar10, isChar11] <;> omega

theorem utf16_bmp (c : Nat) (h : c < 0x10000) : utf16 c = [c] := by simp [utf16, h]

theorem read_escUnits (cd : Coder) (hg : Good cd) (cfg : Cfg) (esc : EscapeFlags) (attr : Bool)
    (hs : Suff attr cfg esc) :
    ∀ (k : Nat) (s : List Nat), s.length ≤ k → legalUnits cfg.xml11 s = true → ∀ b,
      readChars cfg.xml11 attr (escUnits cd cfg esc s) (.norm false b) = some s := by
  intro k
  induction k with
  | zero =>
    intro s hl _ b
    have : s = [] := by cases s <;> simp_all
    subst this; simp [escUnits, readChars]
  | succ k ih =>
    intro s hl hleg b
    cases s with
    | nil => simp [escUnits, readChars]
    | cons c t =>
      have hescd : escd cfg esc c = inEscapeList cfg esc c := by simp [escd, hs.ne]
      by_cases hh : highSurr c = true
      · -- a surrogate pair
        cases t with
        | nil => simp [legalUnits, hh] at hleg
        | cons n t' =>
          simp only [legalUnits, hh, if_true, Bool.and_eq_true] at hleg
          have hcr : 0xD800 ≤ c ∧ c ≤ 0xDFFF := by
            simp only [highSurr, Bool.and_eq_true, decide_eq_true_eq] at hh; omega
          have hnr : 0xD800 ≤ n ∧ n ≤ 0xDFFF := by
            have := hleg.1; simp only [lowSurr, Bool.and_eq_true, decide_eq_true_eq] at this; omega
          have iht := ih t' (by simp at hl; omega) hleg.2
          by_cases hc : cd.rep c = true
          · have hn : cd.rep n = true := by
              rcases hg.surr with h | h
              · exact h n hnr.1 hnr.2
              · have := h c hcr.1 hcr.2; simp [hc] at this
            have ec : inEscapeList cfg esc c = false := by
              cases h : inEscapeList cfg esc c with
              | false => rfl
              | true => have := inEscapeList_lt cfg esc c h; omega
            have en : inEscapeList cfg esc n = false := by
              cases h : inEscapeList cfg esc n with
              | false => rfl
              | true => have := inEscapeList_lt cfg esc n h; omega
            have hescdn : escd cfg esc n = false := by simp [escd, en]
            rw [escUnits_rep_cons cd cfg esc c _ hc, escUnits_rep_cons cd cfg esc n _ hn]
            simp only [hescd, ec, hescdn, Bool.false_eq_true, if_false, List.cons_append, List.nil_append]
            rw [read_pair cfg.xml11 attr b c n _ hh hleg.1, iht 0]
            simp
          · have hc' : cd.rep c = false := by simpa using hc
            have hmh : XV.Model.Formatter.isHigh c = true := by rw [(surr_eq c).1]; exact hh
            have hp := pairRef_eq c n hh hleg.1
            have e : escUnits cd cfg esc (c :: n :: t') = charRefText (pairRef c n) ++ escUnits cd cfg esc t' := by
              simp [escUnits, hc', hmh]
            rw [e, read_charRef cfg.xml11 attr b _ _ (by omega) (refOK_supp _ _ hp.2.1 hp.1), iht 0, hp.2.2]
            simp
      · have hh' : highSurr c = false := by simpa using hh
        rw [legal_cons_plain cfg.xml11 c t hh'] at hleg
        simp only [Bool.and_eq_true, Bool.not_eq_true', decide_eq_true_eq] at hleg
        obtain ⟨⟨⟨hlow, hlt⟩, hok⟩, hlegt⟩ := hleg
        have iht := ih t (by simp at hl; omega) hlegt
        by_cases hc : cd.rep c = true
        · rw [escUnits_rep_cons cd cfg esc c _ hc, hescd]
          by_cases he : inEscapeList cfg esc c = true
          · simp only [he, if_true]
            by_cases hstd : c = 38 ∨ c = 39 ∨ c = 34 ∨ c = 62 ∨ c = 60
            · rw [read_refText_std cfg.xml11 attr b c _ hstd, iht 0]; simp
            · have : refText c = charRefText c := by
                unfold refText; simp only [not_or] at hstd; simp [hstd.1, hstd.2.1, hstd.2.2.1, hstd.2.2.2.1, hstd.2.2.2.2]
              rw [this, read_charRef cfg.xml11 attr b c _ (by omega) hok, iht 0, utf16_bmp c hlt]; simp
          · have he' : inEscapeList cfg esc c = false := by simpa using he
            simp only [he', Bool.false_eq_true, if_false, List.cons_append, List.nil_append]
            obtain ⟨b', hb'⟩ := read_plain cfg.xml11 attr b c (escUnits cd cfg esc t) (hs.plain c hlt hh' hlow hok he')
            rw [hb', iht b']; simp
        · have hc' : cd.rep c = false := by simpa using hc
          have hmh : XV.Model.Formatter.isHigh c = false := by rw [(surr_eq c).1]; exact hh'
          rw [escUnits_unrep_plain cd cfg esc c t hc' hmh, read_charRef cfg.xml11 attr b c _ (by omega) hok, iht 0,
            utf16_bmp c hlt]
          simp

end Rd
end XV.Lemmas.Formatter
