/- Lemmas for C12 (whole trees): the concrete syntax tree of the serializer's output is well-formed (C02's `WF`). -/
import XV.Lemmas.TreeOut
import XV.Props.C02
namespace XV.Lemmas.TreeWF
open XV.Model.TreeSyntax XV.Model.Formatter XV.Model.Cdata XV.Spec.Escaping XV.Gen.Escapes
open XV.Lemmas.TreeUnits XV.Lemmas.TreeScan XV.Lemmas.TreeOut XV.Lemmas.Formatter
open XV.Spec.Xml

set_option maxRecDepth 8000

/-! ### what "not escaped" means for a character -/

theorem notEsc_char (cfg : Cfg) (k : Nat) (h : escd cfg .CharEscapes k = false) : k ≠ 38 ∧ k ≠ 60 ∧ k ≠ 62 ∧ k ≠ 13 := by
  simp [escd, inEscapeList, escRow, escCharEscapes, scanRow] at h
  omega

theorem notEsc_attr (cfg : Cfg) (k : Nat) (h : escd cfg .AttrEscapes k = false) :
    k ≠ 38 ∧ k ≠ 60 ∧ k ≠ 34 ∧ k ≠ 10 ∧ k ≠ 13 ∧ k ≠ 9 := by
  simp [escd, inEscapeList, escRow, escAttrEscapes, scanRow] at h
  omega

/-- with the repaired inEscapeList, NEL and LSEP are escaped under XML 1.1 (any escaping mode) -/
theorem notEsc_eol (esc : EscapeFlags) (hne : esc ≠ .NoEscapes) (k : Nat) (h : escd ⟨true, true⟩ esc k = false) :
    k ≠ 0x85 ∧ k ≠ 0x2028 := by
  simp [escd, hne, inEscapeList] at h
  omega

/-! ### hex digits -/

theorem hexChars_ok : ∀ x, x < 128 → ((48 ≤ x ∧ x ≤ 57) ∨ (65 ≤ x ∧ x ≤ 70)) → isHexC (Char.ofNat x) = true := by decide

theorem lex_hexRef (n : Nat) : lexCharRef ⟨true, hexStr n⟩ = true := by
  simp only [lexCharRef, hexStr, asciiStr, hexDigits, if_true, Bool.and_eq_true, Bool.not_eq_true', List.all_eq_true]
  constructor
  · have := hexFuel_ne_nil 15 n
    cases h : hexFuel 16 n with
    | nil => exact absurd h this
    | cons _ _ => rfl
  · intro c hc
    simp only [List.mem_map] at hc
    obtain ⟨x, hx, rfl⟩ := hc
    have := hexFuel_mem 16 n x hx
    exact hexChars_ok x (by omega) this

theorem lex_refLeaf (c : Char) : lexLeaf (refLeaf c) = true := by
  unfold refLeaf
  split
  · decide
  split
  · decide
  split
  · decide
  split
  · decide
  split
  · decide
  · exact lex_hexRef _

theorem lex_refPiece (q : Quote) (c : Char) : lexPiece q (refPiece c) = true := by
  unfold refPiece
  split
  · simp only [lexPiece]; decide
  split
  · simp only [lexPiece]; decide
  split
  · simp only [lexPiece]; decide
  split
  · simp only [lexPiece]; decide
  split
  · simp only [lexPiece]; decide
  · exact lex_hexRef _

theorem toNat_ne (c : Char) (k : Char) (h : c.toNat ≠ k.toNat) : (c != k) = true := by
  simp only [bne_iff_ne, ne_eq]
  intro e; exact h (by rw [e])

theorem lex_textLeaf (cfg : Cfg) (c : Char) : lexLeaf (textLeaf cfg c) = true := by
  unfold textLeaf
  cases h : escd cfg .CharEscapes c.toNat with
  | true => simp only [if_true]; exact lex_refLeaf c
  | false =>
    have := notEsc_char cfg _ h
    simp only [Bool.false_eq_true, if_false, lexLeaf, Bool.and_eq_true]
    exact ⟨toNat_ne c '<' this.2.1, toNat_ne c '&' this.1⟩

theorem lex_attPiece (cfg : Cfg) (c : Char) : lexPiece .dq (attPiece cfg c) = true := by
  unfold attPiece
  cases h : escd cfg .AttrEscapes c.toNat with
  | true => simp only [if_true]; exact lex_refPiece _ c
  | false =>
    have := notEsc_attr cfg _ h
    simp only [Bool.false_eq_true, if_false, lexPiece, Bool.and_eq_true, Quote.char]
    exact ⟨toNat_ne c '"' this.2.2.1, toNat_ne c '&' this.1⟩


/-! ### CDATA pieces contain no `]]>` (C02's `noEarly`) -/

open XV.Lemmas.Cdata in
theorem hasEnd_tail (c : Char) (t : Str) (h : hasEnd (U (c :: t)) = false) : hasEnd (U t) = false := by
  rw [U_cons] at h
  rcases units_cases c with ⟨_, h2, _, _⟩ | ⟨hh, l, h2, _, _, _, _⟩
  · rw [h2] at h; simp only [List.singleton_append] at h
    rw [hasEnd_cons] at h; simp at h; exact h.2
  · rw [h2] at h; simp only [List.cons_append, List.nil_append] at h
    rw [hasEnd_cons, hasEnd_cons] at h; simp at h; exact h.2.2

open XV.Lemmas.Cdata in
theorem noEarly_of_hasEnd : ∀ (p : Str), hasEnd (U p) = false → noEarly [']', ']', '>'] p = true := by
  intro p
  induction p with
  | nil => intro _; rfl
  | cons c t ih =>
    intro h
    have ht := hasEnd_tail c t h
    simp only [noEarly, Bool.and_eq_true, ih ht, and_true]
    by_cases hc : c = ']'
    · subst hc
      cases t with
      | nil => decide
      | cons d t' =>
        by_cases hd : d = ']'
        · subst hd
          cases t' with
          | nil => decide
          | cons d2 t'' =>
            by_cases hd2 : d2 = '>'
            · subst hd2
              exfalso
              have : U (']' :: ']' :: '>' :: t'') = 93 :: 93 :: 62 :: U t'' := by
                simp [U_cons, scalarUnits]
              rw [this, hasEnd_cons, sw3] at h
              simp at h
            · simp [stripPrefix, hd2]
              intro e; exact absurd e.symm hd2
        · simp [stripPrefix]
          intro e; exact absurd e.symm hd
    · simp [stripPrefix]
      intro e; exact absurd e.symm hc

open XV.Lemmas.Cdata in
theorem pieces_noEarly (v : Str) : ∀ p ∈ splitFixedC v [], noEarly [']', ']', '>'] p = true := by
  intro p hp
  apply noEarly_of_hasEnd
  have h1 := splitFixed_U v []
  rw [U_nil] at h1
  have : U p ∈ splitFixed (U v) [] := by rw [h1]; exact List.mem_map_of_mem hp
  exact splitFixed_noEnd (U v) [] (by decide) _ this

/-! ### lexical validity of the tree -/

theorem lex_toAttrs (cfg : Cfg) (v11 : Bool) : ∀ (as : List (Str × Str)), as.all (okAttr v11) = true →
    (toAttrs cfg as).all lexAttr = true := by
  intro as
  induction as with
  | nil => intro _; rfl
  | cons a t ih =>
    intro h
    simp only [List.all_cons, Bool.and_eq_true, okAttr] at h
    simp only [toAttrs, List.all_cons, Bool.and_eq_true, ih h.2, and_true]
    simp only [lexAttr, toAttr, sp1, eq0, lexEq, allS, Bool.and_eq_true, h.1.1]
    refine ⟨⟨⟨⟨by decide, by decide⟩, trivial⟩, by decide⟩, ?_⟩
    rw [List.all_eq_true]
    intro x hx
    simp only [List.mem_map] at hx
    obtain ⟨c, _, rfl⟩ := hx
    exact lex_attPiece cfg c

theorem lexNodes_append (a b : List Node) : lexNodes (a ++ b) = (lexNodes a && lexNodes b) := by
  induction a with
  | nil => simp [lexNodes]
  | cons n r ih => simp [lexNodes, ih, Bool.and_assoc]

theorem lexNodes_leaves (ls : List Leaf) (h : ∀ l ∈ ls, lexLeaf l = true) : lexNodes (ls.map Node.leaf) = true := by
  induction ls with
  | nil => rfl
  | cons l r ih =>
    simp only [List.map_cons, lexNodes, lexNode, Bool.and_eq_true]
    exact ⟨h l (by simp), ih (fun x hx => h x (by simp [hx]))⟩

mutual
theorem lex_toNodes (cfg : Cfg) (v11 : Bool) : (n : CNode) → okNode v11 n = true → lexNodes (toNodes cfg n) = true
  | .text v, _ => by
    have : v.map (fun c => Node.leaf (textLeaf cfg c)) = (v.map (textLeaf cfg)).map Node.leaf := by simp
    rw [toNodes, this]
    apply lexNodes_leaves
    intro l hl
    simp only [List.mem_map] at hl
    obtain ⟨c, _, rfl⟩ := hl
    exact lex_textLeaf cfg c
  | .cdata v, _ => by
    have : (splitFixedC v []).map (fun p => Node.leaf (.cdata p)) = ((splitFixedC v []).map Leaf.cdata).map Node.leaf := by simp
    rw [toNodes, this]
    apply lexNodes_leaves
    intro l hl
    simp only [List.mem_map] at hl
    obtain ⟨p, hp, rfl⟩ := hl
    exact pieces_noEarly v p hp
  | .comment v, h => by
    simp only [okNode, Bool.and_eq_true] at h
    simp [toNodes, lexNodes, lexNode, lexLeaf, h.2]
  | .pi t d, h => by
    simp only [okNode, Bool.and_eq_true] at h
    obtain ⟨⟨⟨⟨⟨hn, _⟩, _⟩, _⟩, he⟩, hh⟩ := h
    cases d with
    | nil => simp [toNodes, lexNodes, lexNode, lexLeaf, lexPI, hn, allS, noEarly]
    | cons c r => simp [toNodes, lexNodes, lexNode, lexLeaf, lexPI, hn, allS, sp1, he, hh]; decide
  | .elem n as kids, h => by
    simp only [okNode, Bool.and_eq_true] at h
    obtain ⟨⟨⟨hn, has⟩, _⟩, hk⟩ := h
    have ha := lex_toAttrs cfg v11 as has
    have ih := lex_toNodesL cfg v11 kids hk
    cases kids with
    | nil => simp [toNodes, mkElem, lexNodes, lexNode, lexTag, hn, ha, allS]
    | cons k ks => simp [toNodes, mkElem, lexNodes, lexNode, lexTag, hn, ha, allS, ih]
theorem lex_toNodesL (cfg : Cfg) (v11 : Bool) : (ns : List CNode) → okNodes v11 ns = true → lexNodes (toNodesL cfg ns) = true
  | [], _ => rfl
  | n :: t, h => by
    simp only [okNodes, Bool.and_eq_true] at h
    rw [toNodesL, lexNodes_append, lex_toNodes cfg v11 n h.1, lex_toNodesL cfg v11 t h.2]; rfl
end


/-! ### the value of a written character reference -/

theorem digitVal_hexChar : ∀ d, d < 16 → digitVal (Char.ofNat (hexChar d)) = d := by decide

theorem value_hexFuel (f : Nat) : ∀ n, n < 16 ^ f →
    ((hexFuel f n).map Char.ofNat).foldl (fun acc c => acc * 16 + digitVal c) 0 = n := by
  induction f with
  | zero => intro n h; simp at h; subst h; simp [hexFuel]
  | succ f ih =>
    intro n h
    unfold hexFuel
    by_cases h16 : n < 16
    · simp [h16, digitVal_hexChar n h16]
    · have hm : n / 16 < 16 ^ f := by
        have : n < 16 * 16 ^ f := by rw [Nat.pow_succ] at h; omega
        exact Nat.div_lt_of_lt_mul this
      simp only [h16, if_false, List.map_append, List.foldl_append, ih _ hm, List.map_cons, List.map_nil, List.foldl_cons,
        List.foldl_nil, digitVal_hexChar (n % 16) (Nat.mod_lt _ (by decide))]
      omega

theorem value_hexRef (k : Nat) (h : k < 18446744073709551616) : (⟨true, hexStr k⟩ : CharRef).value = k := by
  simp only [CharRef.value, hexStr, asciiStr, hexDigits, if_true]
  exact value_hexFuel 16 k (by simpa using h)

theorem legal_refChar (v11 : Bool) (k : Nat) (h : XV.Spec.XmlChar.isLiteralChar (ver v11) k = true) :
    XV.Spec.XmlChar.isRefChar (ver v11) k = true := by
  cases v11 <;>
  simp [ver, XV.Spec.XmlChar.isLiteralChar, XV.Spec.XmlChar.literalSet, XV.Spec.XmlChar.CSet.mem, XV.Spec.XmlChar.isRefChar,
    XV.Spec.XmlChar.isChar10, XV.Spec.XmlChar.isChar11] at h ⊢
  · exact h
  · exact h.1

theorem sem_hexRef (v11 : Bool) (c : Char) (h : legalC v11 c = true) : semCharRef (ver v11) ⟨true, hexStr c.toNat⟩ = true := by
  have hr := char_range c
  unfold semCharRef
  rw [value_hexRef _ (by omega)]
  exact legal_refChar v11 _ h

theorem sem_textLeaf (cfg : Cfg) (v11 : Bool) (c : Char) (h : legalC v11 c = true) : semLeaf (ver v11) (textLeaf cfg c) = true := by
  unfold textLeaf
  split
  · unfold refLeaf
    split
    · rfl
    split
    · rfl
    split
    · rfl
    split
    · rfl
    split
    · rfl
    · exact sem_hexRef v11 c h
  · rfl

theorem sem_attPiece (cfg : Cfg) (v11 : Bool) (c : Char) (h : legalC v11 c = true) : semPiece (ver v11) (attPiece cfg c) = true := by
  unfold attPiece
  cases he : escd cfg .AttrEscapes c.toNat with
  | true =>
    simp only [if_true]
    unfold refPiece
    split
    · rfl
    split
    · rfl
    split
    · rfl
    split
    · rfl
    split
    · rfl
    · exact sem_hexRef v11 c h
  | false =>
    simp only [Bool.false_eq_true, if_false, semPiece]
    exact toNat_ne c '<' (notEsc_attr cfg _ he).2.1

/-! ### `]]>` never appears as three literal characters: `>` is always written `&gt;` -/

def noGtLeaf : Node → Bool
  | .leaf (.ch c) => c != '>'
  | _ => true

theorem noCdataEnd_of_noGt : ∀ (ns : List Node), ns.all noGtLeaf = true → noCdataEnd ns = true := by
  intro ns
  induction ns with
  | nil => intro _; rfl
  | cons n r ih =>
    intro h
    simp only [List.all_cons, Bool.and_eq_true] at h
    have ihr := ih h.2
    unfold noCdataEnd
    split
    · rename_i a b c rest heq
      simp only [List.cons.injEq] at heq
      obtain ⟨_, hr⟩ := heq
      subst hr
      simp only [List.all_cons, Bool.and_eq_true, noGtLeaf] at h
      have hc : (c == '>') = false := by
        have := h.2.2.1
        simp only [bne_iff_ne, ne_eq] at this
        simpa using this
      simp only [hc, Bool.and_false, Bool.not_false, Bool.true_and]
      exact ihr
    · rename_i heq
      simp only [List.cons.injEq] at heq
      obtain ⟨_, hr⟩ := heq
      subst hr; exact ihr
    · rename_i heq; cases heq


theorem noGt_textLeaf (cfg : Cfg) (c : Char) : noGtLeaf (.leaf (textLeaf cfg c)) = true := by
  unfold textLeaf
  cases h : escd cfg .CharEscapes c.toNat with
  | true =>
    simp only [if_true]
    unfold refLeaf
    split
    · rfl
    split
    · rfl
    split
    · rfl
    split
    · rfl
    split
    · rfl
    · rfl
  | false =>
    simp only [Bool.false_eq_true, if_false, noGtLeaf]
    exact toNat_ne c '>' (notEsc_char cfg _ h).2.2.1

theorem noGt_toNodes (cfg : Cfg) (n : CNode) : (toNodes cfg n).all noGtLeaf = true := by
  cases n with
  | elem nm as kids => simp only [toNodes, mkElem]; split <;> rfl
  | text v =>
    rw [toNodes, List.all_eq_true]
    intro x hx
    simp only [List.mem_map] at hx
    obtain ⟨c, _, rfl⟩ := hx
    exact noGt_textLeaf cfg c
  | cdata v =>
    rw [toNodes, List.all_eq_true]
    intro x hx
    simp only [List.mem_map] at hx
    obtain ⟨p, _, rfl⟩ := hx
    rfl
  | comment v => rfl
  | pi t d => rfl

theorem noGt_toNodesL (cfg : Cfg) : ∀ (ns : List CNode), (toNodesL cfg ns).all noGtLeaf = true := by
  intro ns
  induction ns with
  | nil => rfl
  | cons n t ih => rw [toNodesL, List.all_append, noGt_toNodes, ih]; rfl

/-! ### the well-formedness constraints on the tree -/

theorem toAttrs_names (cfg : Cfg) (as : List (Str × Str)) : (toAttrs cfg as).map (·.name) = as.map (·.1) := by
  induction as with
  | nil => rfl
  | cons a t ih => simp [toAttrs, toAttr, ih]

theorem sem_toAttrs (cfg : Cfg) (v11 : Bool) : ∀ (as : List (Str × Str)), as.all (okAttr v11) = true →
    (toAttrs cfg as).all (fun a => a.val.all (semPiece (ver v11))) = true := by
  intro as
  induction as with
  | nil => intro _; rfl
  | cons a t ih =>
    intro h
    simp only [List.all_cons, Bool.and_eq_true, okAttr] at h
    simp only [toAttrs, List.all_cons, Bool.and_eq_true, ih h.2, and_true, toAttr]
    rw [List.all_eq_true]
    intro x hx
    simp only [List.mem_map] at hx
    obtain ⟨c, hc, rfl⟩ := hx
    exact sem_attPiece cfg v11 c (List.all_eq_true.mp h.1.2 c hc)

theorem semNodes_append (v : XV.Spec.XmlChar.Version) (a b : List Node) : semNodes v (a ++ b) = (semNodes v a && semNodes v b) := by
  induction a with
  | nil => simp [semNodes]
  | cons n r ih => simp [semNodes, ih, Bool.and_assoc]

theorem semNodes_leaves (v : XV.Spec.XmlChar.Version) (ls : List Leaf) (h : ∀ l ∈ ls, semLeaf v l = true) :
    semNodes v (ls.map Node.leaf) = true := by
  induction ls with
  | nil => rfl
  | cons l r ih =>
    simp only [List.map_cons, semNodes, semNode, Bool.and_eq_true]
    exact ⟨h l (by simp), ih (fun x hx => h x (by simp [hx]))⟩

mutual
theorem sem_toNodes (cfg : Cfg) (v11 : Bool) : (n : CNode) → okNode v11 n = true → semNodes (ver v11) (toNodes cfg n) = true
  | .text v, h => by
    simp only [okNode] at h
    have : v.map (fun c => Node.leaf (textLeaf cfg c)) = (v.map (textLeaf cfg)).map Node.leaf := by simp
    rw [toNodes, this]
    apply semNodes_leaves
    intro l hl
    simp only [List.mem_map] at hl
    obtain ⟨c, hc, rfl⟩ := hl
    exact sem_textLeaf cfg v11 c (List.all_eq_true.mp h c hc)
  | .cdata v, _ => by
    have : (splitFixedC v []).map (fun p => Node.leaf (.cdata p)) = ((splitFixedC v []).map Leaf.cdata).map Node.leaf := by simp
    rw [toNodes, this]
    apply semNodes_leaves
    intro l hl
    simp only [List.mem_map] at hl
    obtain ⟨p, _, rfl⟩ := hl
    rfl
  | .comment v, _ => by simp [toNodes, semNodes, semNode, semLeaf]
  | .pi t d, h => by
    simp only [okNode, Bool.and_eq_true] at h
    simp [toNodes, semNodes, semNode, semLeaf, h.1.1.1.1.2]
  | .elem n as kids, h => by
    simp only [okNode, Bool.and_eq_true] at h
    obtain ⟨⟨⟨_, has⟩, hd⟩, hk⟩ := h
    have ha := sem_toAttrs cfg v11 as has
    have ih := sem_toNodesL cfg v11 kids hk
    have hg := noCdataEnd_of_noGt _ (noGt_toNodesL cfg kids)
    have hnames : noDup ((toAttrs cfg as).map (·.name)) = true := by rw [toAttrs_names]; exact hd
    cases kids with
    | nil => simp [toNodes, mkElem, semNodes, semNode, semTag, hnames, ha]
    | cons k ks => simp [toNodes, mkElem, semNodes, semNode, semTag, hnames, ha, ih, hg]
theorem sem_toNodesL (cfg : Cfg) (v11 : Bool) : (ns : List CNode) → okNodes v11 ns = true → semNodes (ver v11) (toNodesL cfg ns) = true
  | [], _ => rfl
  | n :: t, h => by
    simp only [okNodes, Bool.and_eq_true] at h
    rw [toNodesL, semNodes_append, sem_toNodes cfg v11 n h.1, sem_toNodesL cfg v11 t h.2]; rfl
end


/-! ### only the predefined entities are referenced -/

def allPre (l : List Str) : Bool := l.all (fun n => predefined.contains n)

theorem contentRefsL_append (a b : List Node) : contentRefsL (a ++ b) = contentRefsL a ++ contentRefsL b := by
  induction a with
  | nil => rfl
  | cons n r ih => simp [contentRefsL, ih]

theorem attRefsL_append (a b : List Node) : attRefsL (a ++ b) = attRefsL a ++ attRefsL b := by
  induction a with
  | nil => rfl
  | cons n r ih => simp [attRefsL, ih]

theorem allPre_append (a b : List Str) : allPre (a ++ b) = (allPre a && allPre b) := by simp [allPre]

theorem refs_textLeaf (cfg : Cfg) (c : Char) : allPre (contentRefs (.leaf (textLeaf cfg c))) = true := by
  unfold textLeaf
  split
  · unfold refLeaf
    split
    · decide
    split
    · decide
    split
    · decide
    split
    · decide
    split
    · decide
    · rfl
  · rfl

theorem refs_leaves (ls : List Leaf) (h : ∀ l ∈ ls, allPre (contentRefs (.leaf l)) = true) :
    allPre (contentRefsL (ls.map Node.leaf)) = true ∧ attRefsL (ls.map Node.leaf) = [] := by
  induction ls with
  | nil => exact ⟨rfl, rfl⟩
  | cons l r ih =>
    have := ih (fun x hx => h x (by simp [hx]))
    simp only [List.map_cons, contentRefsL, attRefsL, attRefs, allPre_append, h l (by simp), this.1, this.2, Bool.and_self,
      List.append_nil, and_self]

theorem pieceRefs_cons (p : AttPiece) (ps : List AttPiece) : pieceRefs (p :: ps) = pieceRefs [p] ++ pieceRefs ps := by
  cases p <;> simp [pieceRefs]

theorem refs_attPiece (cfg : Cfg) (c : Char) : allPre (pieceRefs [attPiece cfg c]) = true := by
  unfold attPiece
  split
  · unfold refPiece
    split
    · decide
    split
    · decide
    split
    · decide
    split
    · decide
    split
    · decide
    · rfl
  · rfl

theorem refs_attPieces (cfg : Cfg) (v : Str) : allPre (pieceRefs (v.map (attPiece cfg))) = true := by
  induction v with
  | nil => rfl
  | cons c t ih =>
    rw [List.map_cons, pieceRefs_cons, allPre_append, refs_attPiece, ih]; rfl

theorem refs_toAttrs (cfg : Cfg) (as : List (Str × Str)) : allPre (tagAttRefs ⟨n, toAttrs cfg as, []⟩) = true := by
  induction as with
  | nil => rfl
  | cons a t ih =>
    simp only [tagAttRefs, toAttrs, List.flatMap_cons, allPre_append, Bool.and_eq_true] at ih ⊢
    exact ⟨refs_attPieces cfg a.2, ih⟩

mutual
theorem refs_toNodes (cfg : Cfg) : (n : CNode) →
    allPre (contentRefsL (toNodes cfg n)) = true ∧ allPre (attRefsL (toNodes cfg n)) = true
  | .text v => by
    have : v.map (fun c => Node.leaf (textLeaf cfg c)) = (v.map (textLeaf cfg)).map Node.leaf := by simp
    rw [toNodes, this]
    have := refs_leaves (v.map (textLeaf cfg)) (by
      intro l hl; simp only [List.mem_map] at hl; obtain ⟨c, _, rfl⟩ := hl; exact refs_textLeaf cfg c)
    exact ⟨this.1, by rw [this.2]; rfl⟩
  | .cdata v => by
    have : (splitFixedC v []).map (fun p => Node.leaf (.cdata p)) = ((splitFixedC v []).map Leaf.cdata).map Node.leaf := by simp
    rw [toNodes, this]
    have := refs_leaves ((splitFixedC v []).map Leaf.cdata) (by
      intro l hl; simp only [List.mem_map] at hl; obtain ⟨p, _, rfl⟩ := hl; rfl)
    exact ⟨this.1, by rw [this.2]; rfl⟩
  | .comment v => ⟨rfl, rfl⟩
  | .pi t d => ⟨rfl, rfl⟩
  | .elem n as kids => by
    have ih := refs_toNodesL cfg kids
    have ha := refs_toAttrs (n := n) cfg as
    cases kids with
    | nil => simp [toNodes, mkElem, contentRefsL, contentRefs, attRefsL, attRefs, allPre_append, ha]; rfl
    | cons k ks =>
      simp only [toNodes, mkElem, List.isEmpty_cons, Bool.false_eq_true, if_false, contentRefsL, contentRefs, attRefsL, attRefs,
        List.append_nil, allPre_append, ha, Bool.true_and]
      exact ih
theorem refs_toNodesL (cfg : Cfg) : (ns : List CNode) →
    allPre (contentRefsL (toNodesL cfg ns)) = true ∧ allPre (attRefsL (toNodesL cfg ns)) = true
  | [] => ⟨rfl, rfl⟩
  | n :: t => by
    have h1 := refs_toNodes cfg n
    have h2 := refs_toNodesL cfg t
    rw [toNodesL, contentRefsL_append, attRefsL_append, allPre_append, allPre_append, h1.1, h1.2, h2.1, h2.2]
    exact ⟨rfl, rfl⟩
end

theorem closure_predefined (env : EntEnv) (v : XV.Spec.XmlChar.Version) :
    ∀ (todo : List (Str × Use)) (fuel : Nat) (seen : List (Str × Use)) (edges : List ((Str × Use) × (Str × Use))),
      todo.all (fun x => predefined.contains x.1) = true → todo.length < fuel →
      entityClosure env v fuel todo seen edges = .ok edges := by
  intro todo
  induction todo with
  | nil =>
    intro fuel seen edges _ hf
    cases fuel with
    | zero => omega
    | succ f => rfl
  | cons x t ih =>
    intro fuel seen edges h hf
    cases fuel with
    | zero => omega
    | succ f =>
      obtain ⟨n, u⟩ := x
      simp only [List.all_cons, Bool.and_eq_true] at h
      simp only [entityClosure]
      by_cases hs : seen.contains (n, u) = true
      · simp only [hs, if_true]
        exact ih f seen edges h.2 (by simp at hf; omega)
      · simp only [hs, Bool.false_eq_true, if_false, h.1, if_true]
        exact ih f _ edges h.2 (by simp at hf; omega)

theorem semEntities_predefined (v : XV.Spec.XmlChar.Version) (root : Node)
    (h1 : allPre (contentRefs root) = true) (h2 : allPre (attRefs root) = true) : semEntities [] v root = .ok () := by
  unfold semEntities
  simp only
  split
  · rfl
  · have hall : ((contentRefs root).map (fun m => (m, Use.content)) ++ (attRefs root).map (fun m => (m, Use.attr))).all
        (fun x => predefined.contains x.1) = true := by
      simp only [allPre, List.all_eq_true] at h1 h2
      simp only [List.all_append, List.all_map, Bool.and_eq_true, List.all_eq_true]
      exact ⟨fun x hx => h1 x hx, fun x hx => h2 x hx⟩
    rw [closure_predefined [] v _ _ [] [] hall (by
      simp only [List.length_nil, Nat.zero_add]
      generalize ((contentRefs root).map (fun m => (m, Use.content)) ++ (attRefs root).map (fun m => (m, Use.attr))).length = L
      have : L < (6 * 2 + L) * (6 * 2 + L + 2) + 16 := by
        have : L ≤ (6 * 2 + L) * (6 * 2 + L + 2) := by
          calc L ≤ (6 * 2 + L) := by omega
            _ = (6 * 2 + L) * 1 := by omega
            _ ≤ (6 * 2 + L) * (6 * 2 + L + 2) := Nat.mul_le_mul_left _ (by omega)
        omega
      simpa using this)]
    simp [acyclic]


/-! ### every character of the rendering is a legal literal character -/

def allLegal (v11 : Bool) (s : Str) : Bool := s.all (legalC v11)

theorem allLegal_append (v11 : Bool) (a b : Str) : allLegal v11 (a ++ b) = (allLegal v11 a && allLegal v11 b) := by
  simp [allLegal]

theorem printable_legal (v11 : Bool) (c : Char) (h : 32 ≤ c.toNat ∧ c.toNat < 127) : legalC v11 c = true := by
  unfold legalC
  cases v11 <;>
  simp [ver, XV.Spec.XmlChar.isLiteralChar, XV.Spec.XmlChar.literalSet, XV.Spec.XmlChar.CSet.mem, XV.Spec.XmlChar.inRanges,
    XV.Spec.XmlChar.char10, XV.Spec.XmlChar.char11, XV.Spec.XmlChar.restricted11, XV.Spec.XmlChar.inR,
    ← Bool.not_eq_true, Nat.ble_eq] <;> omega

theorem asciiStr_legal (v11 : Bool) (l : List Nat) (h : ∀ x ∈ l, 32 ≤ x ∧ x < 127) : allLegal v11 (asciiStr l) = true := by
  simp only [allLegal, asciiStr, List.all_map, List.all_eq_true]
  intro x hx
  have := h x hx
  exact printable_legal v11 _ (by rw [ofNat_toNat_small x (by omega)]; exact this)

theorem escStr_legal (cfg : Cfg) (esc : EscapeFlags) (v11 : Bool) (v : Str) (h : v.all (legalC v11) = true) :
    allLegal v11 (escStr cfg esc v) = true := by
  induction v with
  | nil => rfl
  | cons c t ih =>
    simp only [List.all_cons, Bool.and_eq_true] at h
    have : escStr cfg esc (c :: t) = (if escd cfg esc c.toNat then asciiStr (refText c.toNat) else [c]) ++ escStr cfg esc t := by
      simp [escStr]
    rw [this, allLegal_append, ih h.2, Bool.and_true]
    split
    · exact asciiStr_legal v11 _ (fun x hx => by have := refText_mem c.toNat x hx; omega)
    · simp [allLegal, h.1]

theorem lit_legal (v11 : Bool) (s : Str) (h : s.all (fun c => decide (32 ≤ c.toNat) && decide (c.toNat < 127)) = true) :
    allLegal v11 s = true := by
  simp only [allLegal, List.all_eq_true] at h ⊢
  intro c hc
  have := h c hc
  simp only [Bool.and_eq_true, decide_eq_true_eq] at this
  exact printable_legal v11 c this

theorem flatten_splitFixedC : ∀ (v cur : Str), (splitFixedC v cur).flatten = cur ++ v := by
  intro v
  induction v with
  | nil => intro cur; simp [splitFixedC]
  | cons c t ih =>
    intro cur
    by_cases h : (c == '>' && endsWith2C cur) = true
    · simp only [splitFixedC, h, if_true, List.flatten_cons, ih]
      simp at h; simp [h.1]
    · have h' : (c == '>' && endsWith2C cur) = false := by simpa using h
      simp only [splitFixedC, h', Bool.false_eq_true, if_false, ih]; simp

theorem cdataLeaves_legal (v11 : Bool) (ps : List Str) (h : allLegal v11 ps.flatten = true) :
    allLegal v11 (renderLeaves (ps.map Leaf.cdata)) = true := by
  induction ps with
  | nil => rfl
  | cons p r ih =>
    simp only [List.flatten_cons, allLegal_append, Bool.and_eq_true] at h
    have hr : renderLeaf (.cdata p) = ['<', '!', '[', 'C', 'D', 'A', 'T', 'A', '['] ++ p ++ [']', ']', '>'] := rfl
    simp only [List.map_cons, renderLeaves, hr, allLegal_append, h.1, ih h.2, Bool.and_true, Bool.true_and, Bool.and_eq_true]
    exact ⟨lit_legal v11 _ (by decide), lit_legal v11 _ (by decide)⟩

theorem attrs_legal (cfg : Cfg) (v11 : Bool) : ∀ (as : List (Str × Str)), as.all (okAttr v11) = true →
    allLegal v11 (renderAttrs (toAttrs cfg as)) = true := by
  intro as
  induction as with
  | nil => intro _; rfl
  | cons a t ih =>
    intro h
    simp only [List.all_cons, Bool.and_eq_true, okAttr] at h
    have hr : renderAttr (toAttr cfg a) = [' '] ++ a.1 ++ ['=', '"'] ++ escStr cfg .AttrEscapes a.2 ++ ['"'] := by
      simp [renderAttr, toAttr, sp1, eq0, renderEq, renderQuoted, Quote.char, render_attval]
    simp only [toAttrs, renderAttrs, hr, allLegal_append, ih h.2, Bool.and_true, Bool.and_eq_true]
    refine ⟨⟨⟨⟨lit_legal v11 _ (by decide), ?_⟩, lit_legal v11 _ (by decide)⟩, escStr_legal cfg _ v11 _ h.1.2⟩, lit_legal v11 _ (by decide)⟩
    exact name_legal v11 a.1 h.1.1

mutual
theorem legal_toNodes (cfg : Cfg) (v11 : Bool) : (n : CNode) → okNode v11 n = true →
    allLegal v11 (renderNodes (toNodes cfg n)) = true
  | .text v, h => by
    simp only [okNode] at h
    have : v.map (fun c => Node.leaf (textLeaf cfg c)) = (v.map (textLeaf cfg)).map Node.leaf := by simp
    rw [toNodes, this, renderNodes_leaves, render_text]
    exact escStr_legal cfg _ v11 v h
  | .cdata v, h => by
    simp only [okNode, Bool.and_eq_true] at h
    have : (splitFixedC v []).map (fun p => Node.leaf (.cdata p)) = ((splitFixedC v []).map Leaf.cdata).map Node.leaf := by simp
    rw [toNodes, this, renderNodes_leaves]
    apply cdataLeaves_legal
    rw [flatten_splitFixedC]; simpa [allLegal] using h.1
  | .comment v, h => by
    simp only [okNode, Bool.and_eq_true] at h
    have hr : renderNodes (toNodes cfg (.comment v)) = ['<', '!', '-', '-'] ++ v ++ ['-', '-', '>'] := by
      simp [toNodes, renderNodes, Node.toksL, Node.toks, renderToks, renderTok, renderLeaf]
    rw [hr, allLegal_append, allLegal_append]
    simp only [Bool.and_eq_true]
    exact ⟨⟨lit_legal v11 _ (by decide), h.1.1⟩, lit_legal v11 _ (by decide)⟩
  | .pi t d, h => by
    simp only [okNode, Bool.and_eq_true] at h
    obtain ⟨⟨⟨⟨⟨hn, _⟩, hl⟩, _⟩, _⟩, _⟩ := h
    have hr : renderNodes (toNodes cfg (.pi t d)) = ['<', '?'] ++ t ++ (if d.isEmpty then [] else sp1) ++ d ++ ['?', '>'] := by
      simp [toNodes, renderNodes, Node.toksL, Node.toks, renderToks, renderTok, renderLeaf]
    rw [hr]
    simp only [allLegal_append, Bool.and_eq_true]
    refine ⟨⟨⟨⟨lit_legal v11 _ (by decide), name_legal v11 t hn⟩, ?_⟩, hl⟩, lit_legal v11 _ (by decide)⟩
    split
    · rfl
    · exact lit_legal v11 _ (by decide)
  | .elem n as kids, h => by
    simp only [okNode, Bool.and_eq_true] at h
    obtain ⟨⟨⟨hn, has⟩, _⟩, hk⟩ := h
    have ha := attrs_legal cfg v11 as has
    have ih := legal_toNodesL cfg v11 kids hk
    have hnl := name_legal v11 n hn
    cases kids with
    | nil =>
      have hr : renderNodes (toNodes cfg (.elem n as [])) = ['<'] ++ n ++ renderAttrs (toAttrs cfg as) ++ ['/', '>'] := by
        simp [toNodes, mkElem, renderNodes, Node.toksL, Node.toks, renderToks, renderTok, renderTagOpen]
      rw [hr]
      simp only [allLegal_append, Bool.and_eq_true]
      exact ⟨⟨⟨lit_legal v11 _ (by decide), hnl⟩, ha⟩, lit_legal v11 _ (by decide)⟩
    | cons k ks =>
      have hr : renderNodes (toNodes cfg (.elem n as (k :: ks))) =
          ['<'] ++ n ++ renderAttrs (toAttrs cfg as) ++ ['>'] ++ renderNodes (toNodesL cfg (k :: ks)) ++ ['<', '/'] ++ n ++ ['>'] := by
        simp [toNodes, mkElem, renderNodes, Node.toksL, Node.toks, renderToks, renderTok, renderTagOpen, renderETag, renderToks_append]
      rw [hr]
      simp only [allLegal_append, Bool.and_eq_true]
      exact ⟨⟨⟨⟨⟨⟨⟨lit_legal v11 _ (by decide), hnl⟩, ha⟩, lit_legal v11 _ (by decide)⟩, ih⟩, lit_legal v11 _ (by decide)⟩, hnl⟩,
        lit_legal v11 _ (by decide)⟩
theorem legal_toNodesL (cfg : Cfg) (v11 : Bool) : (ns : List CNode) → okNodes v11 ns = true →
    allLegal v11 (renderNodes (toNodesL cfg ns)) = true
  | [], _ => rfl
  | n :: t, h => by
    simp only [okNodes, Bool.and_eq_true] at h
    rw [toNodesL, renderNodes_append, allLegal_append, legal_toNodes cfg v11 n h.1, legal_toNodesL cfg v11 t h.2]; rfl
end


/-! ### the document is well-formed -/

/-- the side conditions on the document as a whole: an encoding name of the right shape when the declaration is
written, and the declaration IS written for an XML 1.1 document (the version must travel with the bytes) -/
def okDocCfg (cfg : Cfg) (xd : Bool) (enc : Str) : Bool := (!xd || lexEncName enc) && (!cfg.xml11 || xd)

theorem version_toDoc (cfg : Cfg) (xd : Bool) (enc n : Str) (as : List (Str × Str)) (kids : List CNode)
    (h : okDocCfg cfg xd enc = true) : (toDoc cfg xd enc n as kids).version = ver cfg.xml11 := by
  simp only [okDocCfg, Bool.and_eq_true, Bool.or_eq_true, Bool.not_eq_true'] at h
  cases xd with
  | true => cases hx : cfg.xml11 <;> simp [toDoc, Doc.version, XmlDecl.ver, toDecl, ver, hx]
  | false =>
    have : cfg.xml11 = false := by rcases h.2 with h | h; exact h; cases h
    simp [toDoc, Doc.version, ver, this]

theorem nameStart_not_q (c : Char) (h : isNameStartC c = true) : c ≠ '?' := by
  intro e; subst e; revert h; decide

theorem isElement_mkElem (cfg : Cfg) (n : Str) (as : List (Str × Str)) (ks : List Node) (b : Bool) :
    (mkElem cfg n as ks b).isElement = true := by
  cases b <;> rfl

theorem lexDoc_toDoc (cfg : Cfg) (xd : Bool) (enc n : Str) (as : List (Str × Str)) (kids : List CNode)
    (hc : okDocCfg cfg xd enc = true) (hok : okNode cfg.xml11 (.elem n as kids) = true) :
    lexDoc (toDoc cfg xd enc n as kids) = true := by
  rw [XV.Lemmas.Xml.lexDoc_E _ (by simp [XV.Lemmas.Xml.entOnlyDoc, toDoc])]
  have hl := lex_toNodes cfg cfg.xml11 (.elem n as kids) hok
  simp only [toNodes, lexNodes, Bool.and_true] at hl
  refine ⟨?_, rfl, trivial, isElement_mkElem _ _ _ _ _, hl, rfl⟩
  simp only [okDocCfg, Bool.and_eq_true, Bool.or_eq_true, Bool.not_eq_true'] at hc
  cases xd with
  | true =>
    have he : lexEncName enc = true := by rcases hc.1 with h | h; cases h; exact h
    cases hx : cfg.xml11 <;>
      simp [toDoc, lexXmlDecl, toDecl, pseudo, lexPseudo, sp1, eq0, lexEq, allS, he, hx] <;> decide
  | false =>
    simp only [toDoc, Bool.false_eq_true, if_false]
    simp only [okNode, Bool.and_eq_true] at hok
    have hn := hok.1.1.1
    cases n with
    | nil => simp [isName] at hn
    | cons c t =>
      simp only [isName, Bool.and_eq_true] at hn
      have hq := nameStart_not_q c hn.1
      have : renderToks (Doc.toks ⟨none, [], none, mkElem cfg (c :: t) as (toNodesL cfg kids) kids.isEmpty, []⟩) =
          '<' :: c :: (t ++ renderAttrs (toAttrs cfg as) ++
            (if kids.isEmpty then ['/', '>'] else '>' :: renderNodes (toNodesL cfg kids) ++ ['<', '/'] ++ (c :: t) ++ ['>'])) := by
        cases hk : kids.isEmpty <;>
          simp [Doc.toks, mkElem, Node.toks, renderToks, renderTok, renderTagOpen, renderETag, renderToks_append, renderNodes, hk]
      rw [this]
      have hq' : ¬ ('?' = c) := fun e => hq e.symm
      simp [startsWithDecl, stripPrefix, hq']

theorem semOk_toDoc (cfg : Cfg) (xd : Bool) (enc n : Str) (as : List (Str × Str)) (kids : List CNode)
    (hc : okDocCfg cfg xd enc = true) (hok : okNode cfg.xml11 (.elem n as kids) = true) :
    semOk (toDoc cfg xd enc n as kids) = true := by
  have hv := version_toDoc cfg xd enc n as kids hc
  have hs := sem_toNodes cfg cfg.xml11 (.elem n as kids) hok
  simp only [toNodes, semNodes, Bool.and_true] at hs
  have hr := refs_toNodes cfg (.elem n as kids)
  simp only [toNodes, contentRefsL, attRefsL, List.append_nil] at hr
  have hlegal : semLegal (toDoc cfg xd enc n as kids) = true := by
    unfold semLegal
    rw [hv, render_toDoc]
    have h1 := legal_toNodes cfg cfg.xml11 (.elem n as kids) hok
    have : ∀ s : Str, (s.all fun c => XV.Spec.XmlChar.isLiteralChar (ver cfg.xml11) c.toNat) = allLegal cfg.xml11 s := fun _ => rfl
    rw [this, allLegal_append, h1, Bool.and_true]
    simp only [okDocCfg, Bool.and_eq_true, Bool.or_eq_true, Bool.not_eq_true'] at hc
    cases xd with
    | false => rfl
    | true =>
      have he : lexEncName enc = true := by rcases hc.1 with h | h; cases h; exact h
      simp only [if_true, render_toDecl, allLegal_append, Bool.and_eq_true]
      have henc : allLegal cfg.xml11 enc = true := by
        cases enc with
        | nil => simp [lexEncName] at he
        | cons c t =>
          simp only [lexEncName, Bool.and_eq_true] at he
          apply lit_legal
          simp only [List.all_cons, List.all_eq_true]
          have hA : ∀ x : Char, isAlphaC x = true → (decide (32 ≤ x.toNat) && decide (x.toNat < 127)) = true := by
            intro x hx; simp [isAlphaC, XV.Spec.XmlChar.inR] at hx; simp; omega
          have hE : ∀ x : Char, isEncNameC x = true → (decide (32 ≤ x.toNat) && decide (x.toNat < 127)) = true := by
            intro x hx
            simp only [isEncNameC, Bool.or_eq_true] at hx
            rcases hx with (((hx | hx) | hx) | hx) | hx
            · exact hA x hx
            · simp [isDigitC, XV.Spec.XmlChar.inR] at hx; simp; omega
            · simp at hx; subst hx; decide
            · simp at hx; subst hx; decide
            · simp at hx; subst hx; decide
          rw [hA c he.1, Bool.true_and, List.all_eq_true]
          exact fun x hx => hE x (List.all_eq_true.mp he.2 x hx)
      refine ⟨⟨⟨⟨⟨⟨⟨⟨⟨lit_legal _ _ (by decide), ?_⟩, lit_legal _ _ (by decide)⟩, lit_legal _ _ (by decide)⟩, henc⟩,
        lit_legal _ _ (by decide)⟩, lit_legal _ _ (by decide)⟩, lit_legal _ _ (by decide)⟩, lit_legal _ _ (by decide)⟩,
        lit_legal _ _ (by decide)⟩
      split <;> exact lit_legal _ _ (by decide)
  have hbool : semDocBool (toDoc cfg xd enc n as kids) = true := by
    unfold semDocBool
    rw [hlegal, hv]
    simp [toDoc, hs]
  unfold semOk semDoc
  simp only [hbool, Bool.not_true, Bool.false_eq_true, if_false]
  have henv : (toDoc cfg xd enc n as kids).env = [] := by simp [Doc.env, toDoc]
  have hdt : (toDoc cfg xd enc n as kids).doctype = none := rfl
  rw [hdt, henv, hv]
  simp only
  have hroot : (toDoc cfg xd enc n as kids).root = mkElem cfg n as (toNodesL cfg kids) kids.isEmpty := rfl
  rw [hroot, semEntities_predefined _ _ hr.1 hr.2]

/-- **the concrete syntax tree of the serializer's output is a well-formed document** -/
theorem wf_toDoc (cfg : Cfg) (xd : Bool) (enc n : Str) (as : List (Str × Str)) (kids : List CNode)
    (hc : okDocCfg cfg xd enc = true) (hok : okNode cfg.xml11 (.elem n as kids) = true) :
    WF (toDoc cfg xd enc n as kids) := ⟨lexDoc_toDoc cfg xd enc n as kids hc hok, semOk_toDoc cfg xd enc n as kids hc hok⟩

end XV.Lemmas.TreeWF
