/-
Helper lemmas for C09, decimal / integer part: digit strings and their numbers, `compareString` on digit
strings, the normal form of a parsed decimal, the scan / strip loops of `parseDecimal`, the value order.
-/
import XV.Model.Decimal
import XV.Spec.Decimal
set_option linter.unusedVariables false
namespace XV.Lemmas.Decimal
open XV.Spec.Decimal XV.Model.Decimal

theorem char_eq_iff (c d : Char) : c = d ↔ c.toNat = d.toNat := by
  constructor
  · intro h; rw [h]
  · intro h
    apply Char.ext
    apply UInt32.toNat_inj.mp
    exact h

theorem isDigit_iff (c : Char) : isDigit c = true ↔ 48 ≤ c.toNat ∧ c.toNat ≤ 57 := by
  simp [isDigit]

theorem eq_zero_iff (c : Char) : c = '0' ↔ c.toNat = 48 := by
  rw [char_eq_iff]; rfl

theorem beq_zero_iff (c : Char) : (c == '0') = true ↔ c.toNat = 48 := by
  rw [beq_iff_eq, eq_zero_iff]

theorem isDigit_zero : isDigit '0' = true := by decide
theorem digitVal_zero : digitVal '0' = 0 := by decide

theorem digitVal_lt (c : Char) (h : isDigit c = true) : digitVal c < 10 := by
  rw [isDigit_iff] at h; unfold digitVal; omega

theorem digitVal_eq_zero (c : Char) (h : isDigit c = true) : digitVal c = 0 ↔ c = '0' := by
  rw [isDigit_iff] at h; rw [eq_zero_iff]; unfold digitVal; omega

/-- the scan loop's "not a digit" test is the negation of `isDigit` -/
theorem scan_test (c : Char) : (c.toNat < '0'.toNat || c.toNat > '9'.toNat) = !isDigit c := by
  have h0 : '0'.toNat = 48 := by decide
  have h9 : '9'.toNat = 57 := by decide
  rw [h0, h9]
  unfold isDigit
  by_cases a : c.toNat < 48 <;> by_cases b : c.toNat > 57 <;> simp [a, b] <;> omega

theorem not_digit_dot : isDigit '.' = false := by decide
theorem not_digit_plus : isDigit '+' = false := by decide
theorem not_digit_minus : isDigit '-' = false := by decide

def AllDigits (l : List Char) : Prop := ∀ c ∈ l, isDigit c = true

theorem natOf_nil : natOf [] = 0 := rfl

theorem foldl_shift (l : List Char) (a : Nat) :
    l.foldl (fun a c => a * 10 + digitVal c) a = a * 10 ^ l.length + natOf l := by
  induction l generalizing a with
  | nil => simp [natOf]
  | cons c r ih =>
    simp only [List.foldl_cons, List.length_cons, natOf]
    rw [ih, ih (0 * 10 + digitVal c)]
    simp only [Nat.pow_succ]
    grind

theorem natOf_cons (c : Char) (r : List Char) : natOf (c :: r) = digitVal c * 10 ^ r.length + natOf r := by
  simp only [natOf, List.foldl_cons]
  rw [foldl_shift]; simp [natOf]

theorem natOf_append (x y : List Char) : natOf (x ++ y) = natOf x * 10 ^ y.length + natOf y := by
  simp only [natOf, List.foldl_append]
  rw [foldl_shift]; rfl

theorem natOf_replicate_zero (k : Nat) : natOf (List.replicate k '0') = 0 := by
  induction k with
  | zero => rfl
  | succ k ih => rw [List.replicate_succ, natOf_cons, ih, digitVal_zero]; simp

theorem natOf_pad (x : List Char) (k : Nat) : natOf (x ++ List.replicate k '0') = natOf x * 10 ^ k := by
  rw [natOf_append, natOf_replicate_zero]; simp

theorem natOf_lt (l : List Char) (h : AllDigits l) : natOf l < 10 ^ l.length := by
  induction l with
  | nil => simp [natOf]
  | cons c r ih =>
    rw [natOf_cons]
    have hc := digitVal_lt c (h c (by simp))
    have hr := ih (fun d hd => h d (by simp [hd]))
    simp only [List.length_cons, Nat.pow_succ]
    have : digitVal c * 10 ^ r.length ≤ 9 * 10 ^ r.length := Nat.mul_le_mul_right _ (by omega)
    omega

def zeros (k : Nat) : List Char := List.replicate k '0'

/-- order of two naturals as `compareString`-style -1/0/1 -/
def natCmp (a b : Nat) : Int := if a < b then -1 else if b < a then 1 else 0

theorem lex_step_lt (a b P nx ny : Nat) (h : a < b) (hx : nx < P) : a * P + nx < b * P + ny := by
  have h1 : (a + 1) * P ≤ b * P := Nat.mul_le_mul_right _ h
  rw [Nat.add_mul, Nat.one_mul] at h1
  omega

theorem digit_toNat (c : Char) (h : isDigit c = true) : c.toNat = digitVal c + 48 := by
  rw [isDigit_iff] at h; unfold digitVal; omega

theorem allDigits_cons {c : Char} {r : List Char} (h : AllDigits (c :: r)) : isDigit c = true ∧ AllDigits r :=
  ⟨h c (by simp), fun d hd => h d (by simp [hd])⟩

/-- equal length digit strings: `compareString` is the numeric order -/
theorem cs_eqlen (x y : List Char) (hl : x.length = y.length) (hx : AllDigits x) (hy : AllDigits y) :
    compareString x y = natCmp (natOf x) (natOf y) := by
  induction x generalizing y with
  | nil =>
    cases y with
    | nil => simp [compareString, natCmp, natOf]
    | cons d y => simp at hl
  | cons c x ih =>
    cases y with
    | nil => simp at hl
    | cons d y =>
      obtain ⟨hc, hx'⟩ := allDigits_cons hx
      obtain ⟨hd, hy'⟩ := allDigits_cons hy
      have hl' : x.length = y.length := by simpa using hl
      have ih' := ih y hl' hx' hy'
      have bx := natOf_lt x hx'
      have by' := natOf_lt y hy'
      rw [natOf_cons, natOf_cons, hl']
      rw [hl'] at bx
      have tc := digit_toNat c hc
      have td := digit_toNat d hd
      unfold compareString
      by_cases h1 : c.toNat < d.toNat
      · simp only [h1, if_true]
        have : digitVal c < digitVal d := by omega
        have := lex_step_lt _ _ _ _ (natOf y) this bx
        unfold natCmp; simp [this]
      · by_cases h2 : d.toNat < c.toNat
        · simp only [h1, h2, if_true, if_false]
          have : digitVal d < digitVal c := by omega
          have := lex_step_lt _ _ _ _ (natOf x) this by'
          unfold natCmp
          have h3 : ¬ (digitVal c * 10 ^ y.length + natOf x < digitVal d * 10 ^ y.length + natOf y) := by omega
          simp [h3, this]
        · simp only [h1, h2, if_false]
          have : digitVal c = digitVal d := by omega
          rw [ih', this]
          unfold natCmp
          by_cases h4 : natOf x < natOf y
          · simp [h4]
          · by_cases h5 : natOf y < natOf x
            · simp [h4, h5]
            · simp [h4, h5]

theorem cs_zeros_lt (t : List Char) (ht : AllDigits t) (hne : t ≠ []) (hl : t.getLast? ≠ some '0') :
    compareString (zeros t.length) t = -1 := by
  induction t with
  | nil => exact absurd rfl hne
  | cons d r ih =>
    obtain ⟨hd, hr⟩ := allDigits_cons ht
    have td := digit_toNat d hd
    have z : '0'.toNat = 48 := by decide
    simp only [zeros, List.length_cons, List.replicate_succ]
    unfold compareString
    by_cases h0 : d = '0'
    · subst h0
      cases r with
      | nil => simp at hl
      | cons d2 r2 =>
        have : compareString (zeros (d2 :: r2).length) (d2 :: r2) = -1 := by
          apply ih hr (by simp)
          simpa [List.getLast?_cons_cons] using hl
        simpa [zeros] using this
    · have : digitVal d ≠ 0 := fun h => h0 ((digitVal_eq_zero d hd).mp h)
      have h1 : '0'.toNat < d.toNat := by omega
      rw [if_pos h1]

theorem cs_zeros_gt (t : List Char) (ht : AllDigits t) (hne : t ≠ []) (hl : t.getLast? ≠ some '0') :
    compareString t (zeros t.length) = 1 := by
  induction t with
  | nil => exact absurd rfl hne
  | cons d r ih =>
    obtain ⟨hd, hr⟩ := allDigits_cons ht
    have td := digit_toNat d hd
    have z : '0'.toNat = 48 := by decide
    simp only [zeros, List.length_cons, List.replicate_succ]
    unfold compareString
    by_cases h0 : d = '0'
    · subst h0
      cases r with
      | nil => simp at hl
      | cons d2 r2 =>
        have : compareString (d2 :: r2) (zeros (d2 :: r2).length) = 1 := by
          apply ih hr (by simp)
          simpa [List.getLast?_cons_cons] using hl
        simpa [zeros] using this
    · have : digitVal d ≠ 0 := fun h => h0 ((digitVal_eq_zero d hd).mp h)
      have h1 : '0'.toNat < d.toNat := by omega
      have h2 : ¬ d.toNat < '0'.toNat := by omega
      rw [if_neg h2, if_pos h1]

/-- padding the shorter string with zeros does not change `compareString`, provided the longer one does
not end in '0' -/
theorem cs_pad (x y : List Char) (hx : AllDigits x) (hy : AllDigits y)
    (h1 : x.length < y.length → y.getLast? ≠ some '0')
    (h2 : y.length < x.length → x.getLast? ≠ some '0') :
    compareString x y = compareString (x ++ zeros (y.length - x.length)) (y ++ zeros (x.length - y.length)) := by
  induction x generalizing y with
  | nil =>
    cases y with
    | nil => simp [zeros]
    | cons d y =>
      have := cs_zeros_lt (d :: y) hy (by simp) (h1 (by simp))
      simp only [List.length_nil, Nat.sub_zero, List.nil_append, Nat.zero_sub, zeros, List.replicate_zero,
        List.append_nil] at this ⊢
      rw [this]; simp [compareString]
  | cons c x ih =>
    cases y with
    | nil =>
      have := cs_zeros_gt (c :: x) hx (by simp) (h2 (by simp))
      simp only [List.length_nil, Nat.sub_zero, List.nil_append, Nat.zero_sub, zeros, List.replicate_zero,
        List.append_nil] at this ⊢
      rw [this]; simp [compareString]
    | cons d y =>
      obtain ⟨_, hx'⟩ := allDigits_cons hx
      obtain ⟨_, hy'⟩ := allDigits_cons hy
      have ih' := ih y hx' hy'
        (fun h => by
          have := h1 (by simpa using h)
          cases y with
          | nil => simp at h
          | cons e y => simpa [List.getLast?_cons_cons] using this)
        (fun h => by
          have := h2 (by simpa using h)
          cases x with
          | nil => simp at h
          | cons e x => simpa [List.getLast?_cons_cons] using this)
      simp only [List.length_cons, Nat.add_sub_add_right, List.cons_append]
      unfold compareString
      rw [ih']

structure Normal (d : BigDecimal) : Prop where
  digits : AllDigits d.intVal
  len : d.intVal.length = d.totalDigits
  scale_le : d.scale ≤ d.totalDigits
  sign : (d.sign = 0 ∧ d.totalDigits = 0) ∨ ((d.sign = 1 ∨ d.sign = -1) ∧ 0 < d.totalDigits)
  lead : d.scale < d.totalDigits → d.intVal.head? ≠ some '0'
  trail : 0 < d.scale → d.intVal.getLast? ≠ some '0'

/-- the value held by a parsed decimal: sign · intVal · 10^-scale -/
def decVal (d : BigDecimal) : Int × Nat := (d.sign * ((natOf d.intVal : Nat) : Int), d.scale)

theorem natOf_ge_of_head (l : List Char) (hne : l ≠ []) (hd : AllDigits l) (hh : l.head? ≠ some '0') :
    10 ^ (l.length - 1) ≤ natOf l := by
  cases l with
  | nil => exact absurd rfl hne
  | cons c r =>
    obtain ⟨hc, _⟩ := allDigits_cons hd
    rw [natOf_cons]
    have : digitVal c ≠ 0 := fun h => hh (by simp [(digitVal_eq_zero c hc).mp h])
    have h1 : 1 * 10 ^ r.length ≤ digitVal c * 10 ^ r.length := Nat.mul_le_mul_right _ (by omega)
    simp only [List.length_cons, Nat.add_sub_cancel]
    omega

theorem natOf_pos_of_last (l : List Char) (hne : l ≠ []) (hd : AllDigits l) (hl : l.getLast? ≠ some '0') :
    0 < natOf l := by
  induction l with
  | nil => exact absurd rfl hne
  | cons c r ih =>
    obtain ⟨hc, hr⟩ := allDigits_cons hd
    rw [natOf_cons]
    cases r with
    | nil =>
      have : digitVal c ≠ 0 := fun h => hl (by simp [(digitVal_eq_zero c hc).mp h])
      simp; omega
    | cons e r =>
      have := ih (by simp) hr (by simpa [List.getLast?_cons_cons] using hl)
      omega

theorem Normal.pos {d : BigDecimal} (h : Normal d) (hs : d.sign ≠ 0) : 0 < natOf d.intVal := by
  have ht : 0 < d.totalDigits := by
    rcases h.sign with ⟨h0, _⟩ | ⟨_, h1⟩
    · exact absurd h0 hs
    · exact h1
  have hne : d.intVal ≠ [] := by
    intro he; have := h.len; rw [he] at this; simp at this; omega
  by_cases hc : d.scale < d.totalDigits
  · have := natOf_ge_of_head _ hne h.digits (h.lead hc)
    have : 0 < 10 ^ (d.intVal.length - 1) := Nat.pow_pos (by omega)
    omega
  · have : 0 < d.scale := by have := h.scale_le; omega
    exact natOf_pos_of_last _ hne h.digits (h.trail this)

theorem natCmp_mul_right (x y c : Nat) (hc : 0 < c) : natCmp (x * c) (y * c) = natCmp x y := by
  unfold natCmp
  have h1 : x * c < y * c ↔ x < y := Nat.mul_lt_mul_right hc
  have h2 : y * c < x * c ↔ y < x := Nat.mul_lt_mul_right hc
  simp [h1, h2]

theorem natCmp_scale (a b i j : Nat) : natCmp (a * 10 ^ (i - j)) (b * 10 ^ (j - i)) = natCmp (a * 10 ^ i) (b * 10 ^ j) := by
  by_cases h : j ≤ i
  · have e1 : j - i = 0 := by omega
    have e2 : 10 ^ i = 10 ^ (i - j) * 10 ^ j := by rw [← Nat.pow_add]; congr 1; omega
    rw [e1, e2, ← Nat.mul_assoc, natCmp_mul_right _ _ _ (Nat.pow_pos (by omega))]
    simp
  · have e1 : i - j = 0 := by omega
    have e2 : 10 ^ j = 10 ^ (j - i) * 10 ^ i := by rw [← Nat.pow_add]; congr 1; omega
    rw [e1, e2, ← Nat.mul_assoc, natCmp_mul_right _ _ _ (Nat.pow_pos (by omega))]
    simp

/-- the magnitude part of `toCompare` (same non-zero sign) -/
def magCmp (l r : BigDecimal) : Int :=
  if l.totalDigits - l.scale > r.totalDigits - r.scale then 1
  else if l.totalDigits - l.scale < r.totalDigits - r.scale then -1
  else compareString l.intVal r.intVal

theorem int_digits_gt (l r : BigDecimal) (hl : Normal l) (hr : Normal r)
    (h : l.totalDigits - l.scale > r.totalDigits - r.scale) :
    natOf r.intVal * 10 ^ l.scale < natOf l.intVal * 10 ^ r.scale := by
  have hlt : l.scale < l.totalDigits := by omega
  have hne : l.intVal ≠ [] := by
    intro he; have := hl.len; rw [he] at this; simp at this; omega
  have h1 := natOf_ge_of_head _ hne hl.digits (hl.lead hlt)
  have h2 := natOf_lt _ hr.digits
  rw [hl.len] at h1; rw [hr.len] at h2
  have hA : 10 ^ (l.totalDigits - 1) * 10 ^ r.scale ≤ natOf l.intVal * 10 ^ r.scale := Nat.mul_le_mul_right _ h1
  have hB : natOf r.intVal * 10 ^ l.scale < 10 ^ r.totalDigits * 10 ^ l.scale :=
    (Nat.mul_lt_mul_right (Nat.pow_pos (by omega))).mpr h2
  rw [← Nat.pow_add] at hA hB
  have := hr.scale_le
  have hC : 10 ^ (r.totalDigits + l.scale) ≤ 10 ^ (l.totalDigits - 1 + r.scale) :=
    Nat.pow_le_pow_right (by omega) (by omega)
  omega

theorem magCmp_spec (l r : BigDecimal) (hl : Normal l) (hr : Normal r) :
    magCmp l r = natCmp (natOf l.intVal * 10 ^ r.scale) (natOf r.intVal * 10 ^ l.scale) := by
  unfold magCmp
  by_cases h1 : l.totalDigits - l.scale > r.totalDigits - r.scale
  · have := int_digits_gt l r hl hr h1
    rw [if_pos h1]; unfold natCmp
    rw [if_neg (by omega), if_pos this]
  · rw [if_neg h1]
    by_cases h2 : l.totalDigits - l.scale < r.totalDigits - r.scale
    · have := int_digits_gt r l hr hl h2
      rw [if_pos h2]; unfold natCmp
      rw [if_pos this]
    · rw [if_neg h2]
      have hls := hl.scale_le
      have hrs := hr.scale_le
      rw [cs_pad _ _ hl.digits hr.digits
            (fun h => hr.trail (by rw [hl.len, hr.len] at h; omega))
            (fun h => hl.trail (by rw [hl.len, hr.len] at h; omega))]
      rw [cs_eqlen _ _ (by simp [zeros, hl.len, hr.len]; omega)
            (by intro c hc; rcases List.mem_append.mp hc with h | h
                · exact hl.digits c h
                · rw [zeros, List.mem_replicate] at h; rw [h.2]; exact isDigit_zero)
            (by intro c hc; rcases List.mem_append.mp hc with h | h
                · exact hr.digits c h
                · rw [zeros, List.mem_replicate] at h; rw [h.2]; exact isDigit_zero)]
      simp only [zeros]
      rw [natOf_pad, natOf_pad, hl.len, hr.len]
      have e1 : r.totalDigits - l.totalDigits = r.scale - l.scale := by omega
      have e2 : l.totalDigits - r.totalDigits = l.scale - r.scale := by omega
      rw [e1, e2, natCmp_scale]

theorem compareString_range (x y : List Char) :
    compareString x y = -1 ∨ compareString x y = 0 ∨ compareString x y = 1 := by
  induction x generalizing y with
  | nil => cases y <;> simp [compareString]
  | cons c x ih =>
    cases y with
    | nil => simp [compareString]
    | cons d y =>
      unfold compareString
      by_cases p : c.toNat < d.toNat
      · simp [p]
      · by_cases q : d.toNat < c.toNat
        · simp [p, q]
        · simp only [p, q, if_false]; exact ih y

theorem toCompare_ne (l r : BigDecimal) (h : l.sign ≠ r.sign) :
    toCompare l r = if l.sign > r.sign then 1 else -1 := by
  unfold toCompare; rw [if_pos h]

theorem toCompare_zero (l r : BigDecimal) (h : l.sign = r.sign) (h0 : l.sign = 0) : toCompare l r = 0 := by
  unfold toCompare; rw [if_neg (by simpa using h), if_pos h0]

theorem toCompare_same (l r : BigDecimal) (h : l.sign = r.sign) (h0 : l.sign ≠ 0) :
    toCompare l r = l.sign * magCmp l r := by
  unfold toCompare magCmp
  rw [if_neg (by simpa using h), if_neg h0]
  by_cases a : l.totalDigits - l.scale > r.totalDigits - r.scale
  · simp [a]
  · simp only [a, if_false]
    by_cases b : l.totalDigits - l.scale < r.totalDigits - r.scale
    · simp [b]
    · simp only [b, if_false]
      rcases compareString_range l.intVal r.intVal with h | h | h <;> simp [h]

theorem toCompare_spec (l r : BigDecimal) (hl : Normal l) (hr : Normal r) :
    toCompare l r = ordInt (cmpSpec (decVal l) (decVal r)) := by
  obtain ⟨A, hA⟩ : ∃ A : Nat, A = natOf l.intVal * 10 ^ r.scale := ⟨_, rfl⟩
  obtain ⟨B, hB⟩ : ∃ B : Nat, B = natOf r.intVal * 10 ^ l.scale := ⟨_, rfl⟩
  have hX : (decVal l).1 * 10 ^ (decVal r).2 = l.sign * (A : Int) := by
    simp only [decVal]; rw [hA, Int.mul_assoc]; push_cast; rfl
  have hY : (decVal r).1 * 10 ^ (decVal l).2 = r.sign * (B : Int) := by
    simp only [decVal]; rw [hB, Int.mul_assoc]; push_cast; rfl
  have pA : l.sign ≠ 0 → 0 < A := fun h => by
    rw [hA]; exact Nat.mul_pos (hl.pos h) (Nat.pow_pos (by omega))
  have pB : r.sign ≠ 0 → 0 < B := fun h => by
    rw [hB]; exact Nat.mul_pos (hr.pos h) (Nat.pow_pos (by omega))
  have hm : magCmp l r = natCmp A B := by rw [hA, hB]; exact magCmp_spec l r hl hr
  unfold cmpSpec
  rw [hX, hY]
  have sl : l.sign = 0 ∨ l.sign = 1 ∨ l.sign = -1 := by
    rcases hl.sign with ⟨h, _⟩ | ⟨h | h, _⟩ <;> simp [h]
  have sr : r.sign = 0 ∨ r.sign = 1 ∨ r.sign = -1 := by
    rcases hr.sign with ⟨h, _⟩ | ⟨h | h, _⟩ <;> simp [h]
  rcases sl with h1 | h1 | h1 <;> rcases sr with h2 | h2 | h2
  · rw [toCompare_zero l r (by rw [h1, h2]) h1, h1, h2]; simp [ordInt]
  · have := pB (by rw [h2]; decide)
    rw [toCompare_ne l r (by rw [h1, h2]; decide), h1, h2]
    rw [if_neg (by decide), if_pos (by omega)]; rfl
  · have := pB (by rw [h2]; decide)
    rw [toCompare_ne l r (by rw [h1, h2]; decide), h1, h2]
    rw [if_pos (by decide), if_neg (by omega), if_pos (by omega)]; rfl
  · have := pA (by rw [h1]; decide)
    rw [toCompare_ne l r (by rw [h1, h2]; decide), h1, h2]
    rw [if_pos (by decide), if_neg (by omega), if_pos (by omega)]; rfl
  · have a := pA (by rw [h1]; decide)
    have b := pB (by rw [h2]; decide)
    rw [toCompare_same l r (by rw [h1, h2]) (by rw [h1]; decide), hm, h1, h2]
    unfold natCmp
    by_cases p : A < B
    · rw [if_pos p, if_pos (by omega)]; rfl
    · by_cases q : B < A
      · rw [if_neg p, if_pos q, if_neg (by omega), if_pos (by omega)]; rfl
      · rw [if_neg p, if_neg q, if_neg (by omega), if_neg (by omega)]; rfl
  · have a := pA (by rw [h1]; decide)
    have b := pB (by rw [h2]; decide)
    rw [toCompare_ne l r (by rw [h1, h2]; decide), h1, h2]
    rw [if_pos (by decide), if_neg (by omega), if_pos (by omega)]; rfl
  · have := pA (by rw [h1]; decide)
    rw [toCompare_ne l r (by rw [h1, h2]; decide), h1, h2]
    rw [if_neg (by decide), if_pos (by omega)]; rfl
  · have a := pA (by rw [h1]; decide)
    have b := pB (by rw [h2]; decide)
    rw [toCompare_ne l r (by rw [h1, h2]; decide), h1, h2]
    rw [if_neg (by decide), if_pos (by omega)]; rfl
  · have a := pA (by rw [h1]; decide)
    have b := pB (by rw [h2]; decide)
    rw [toCompare_same l r (by rw [h1, h2]) (by rw [h1]; decide), hm, h1, h2]
    unfold natCmp
    by_cases p : A < B
    · rw [if_pos p, if_neg (by omega), if_pos (by omega)]; rfl
    · by_cases q : B < A
      · rw [if_neg p, if_pos q, if_pos (by omega)]; rfl
      · rw [if_neg p, if_neg q, if_neg (by omega), if_neg (by omega)]; rfl

theorem scan_digit (c : Char) (rest : List Char) (dot : Bool) (fd : Nat) (acc : List Char) (td : Nat)
    (hc : isDigit c = true) : scan (c :: rest) dot fd acc td = scan rest dot fd (c :: acc) (td + 1) := by
  have h1 : (c == '.') = false := by
    apply Bool.eq_false_iff.mpr; intro h; rw [beq_iff_eq] at h; subst h; simp [isDigit] at hc
  have h2 := scan_test c
  rw [hc] at h2
  simp only [scan, h1, h2]; simp

theorem scan_digits (ds rest : List Char) (dot : Bool) (fd : Nat) (acc : List Char) (td : Nat)
    (h : AllDigits ds) : scan (ds ++ rest) dot fd acc td = scan rest dot fd (ds.reverse ++ acc) (td + ds.length) := by
  induction ds generalizing acc td with
  | nil => simp
  | cons c r ih =>
    obtain ⟨hc, hr⟩ := allDigits_cons h
    rw [List.cons_append, scan_digit _ _ _ _ _ _ hc, ih _ _ hr]
    simp [Nat.add_assoc, Nat.add_comm 1]

theorem scan_bad (c : Char) (rest : List Char) (dot : Bool) (fd : Nat) (acc : List Char) (td : Nat)
    (hc : isDigit c = false) (hd : c ≠ '.') : scan (c :: rest) dot fd acc td = .error .invChars := by
  have h1 : (c == '.') = false := by
    apply Bool.eq_false_iff.mpr; intro h; rw [beq_iff_eq] at h; exact hd h
  have h2 := scan_test c
  rw [hc] at h2
  simp only [scan, h1, h2]; simp

theorem scan_dot_first (rest : List Char) (fd : Nat) (acc : List Char) (td : Nat) :
    scan ('.' :: rest) false fd acc td = scan rest true rest.length acc td := by
  simp [scan]

theorem scan_dot_second (rest : List Char) (fd : Nat) (acc : List Char) (td : Nat) :
    scan ('.' :: rest) true fd acc td = .error .twoManyDecPoint := by
  simp [scan]

theorem allDigits_iff_all (l : List Char) : AllDigits l ↔ l.all isDigit = true := by
  simp [AllDigits, List.all_eq_true]

theorem takeWhile_all {α} (p : α → Bool) (l : List α) : ∀ c ∈ l.takeWhile p, p c = true := by
  induction l with
  | nil => simp
  | cons a r ih =>
    intro c hc
    by_cases h : p a = true
    · rw [List.takeWhile_cons_of_pos h] at hc
      rcases List.mem_cons.mp hc with e | e
      · rw [e]; exact h
      · exact ih c e
    · rw [List.takeWhile_cons_of_neg h] at hc; cases hc

theorem dropWhile_head {α} (p : α → Bool) (l : List α) (c : α) (r : List α) (h : l.dropWhile p = c :: r) :
    p c = false := by
  induction l with
  | nil => simp at h
  | cons a t ih =>
    by_cases hp : p a = true
    · rw [List.dropWhile_cons_of_pos hp] at h; exact ih h
    · rw [List.dropWhile_cons_of_neg hp] at h
      injection h with h1 _; rw [← h1]; simpa using hp

theorem split_digits (l : List Char) :
    l = l.takeWhile isDigit ++ l.dropWhile isDigit ∧ AllDigits (l.takeWhile isDigit) ∧
      (∀ c r, l.dropWhile isDigit = c :: r → isDigit c = false) :=
  ⟨List.takeWhile_append_dropWhile.symm, takeWhile_all isDigit l, fun c r h => dropWhile_head isDigit l c r h⟩

/-- after the decimal point: digits only -/
theorem scan_after_dot (f : List Char) (fd : Nat) (acc : List Char) (td : Nat) :
    (f.all isDigit = true → scan f true fd acc td = .ok (fd, f.reverse ++ acc, td + f.length)) ∧
    (f.all isDigit = false → ∃ e, scan f true fd acc td = .error e) := by
  obtain ⟨hs, hd, hn⟩ := split_digits f
  constructor
  · intro h
    have := scan_digits f [] true fd acc td ((allDigits_iff_all f).mpr h)
    simpa [scan] using this
  · intro h
    cases hdw : f.dropWhile isDigit with
    | nil =>
      rw [hdw, List.append_nil] at hs
      rw [hs] at h
      have := (allDigits_iff_all _).mp hd
      rw [this] at h; cases h
    | cons c r =>
      rw [hdw] at hs
      rw [hs, scan_digits _ _ _ _ _ _ hd]
      by_cases hc : c = '.'
      · subst hc; exact ⟨_, scan_dot_second _ _ _ _⟩
      · exact ⟨_, scan_bad _ _ _ _ _ _ (hn c r hdw) hc⟩

/-- the shape `digits* ('.' digits*)?` -/
def lexBody (l : List Char) : Bool :=
  match l.dropWhile isDigit with
  | [] => true
  | '.' :: f => f.all isDigit
  | _ => false

theorem scan_spec (l : List Char) (fd : Nat) (acc : List Char) (td : Nat) :
    (lexBody l = true →
      scan l false fd acc td = .ok
        (match l.dropWhile isDigit with | '.' :: f => f.length | _ => fd,
         (match l.dropWhile isDigit with | '.' :: f => f.reverse | _ => []) ++ (l.takeWhile isDigit).reverse ++ acc,
         td + (l.takeWhile isDigit).length + (match l.dropWhile isDigit with | '.' :: f => f.length | _ => 0))) ∧
    (lexBody l = false → ∃ e, scan l false fd acc td = .error e) := by
  obtain ⟨hs, hd, hn⟩ := split_digits l
  unfold lexBody
  cases hdw : l.dropWhile isDigit with
  | nil =>
    simp only [true_implies]
    constructor
    · have := scan_digits (l.takeWhile isDigit) [] false fd acc td hd
      rw [hdw, List.append_nil] at hs
      rw [← hs] at this ⊢
      simpa [scan] using this
    · intro h; cases h
  | cons c r =>
    have hc := hn c r hdw
    by_cases hdot : c = '.'
    · subst hdot
      simp only
      have e : scan l false fd acc td = scan r true r.length ((l.takeWhile isDigit).reverse ++ acc) (td + (l.takeWhile isDigit).length) := by
        conv => lhs; rw [hs, hdw]
        rw [scan_digits _ _ _ _ _ _ hd, scan_dot_first]
      rw [e]
      obtain ⟨h1, h2⟩ := scan_after_dot r r.length ((l.takeWhile isDigit).reverse ++ acc) (td + (l.takeWhile isDigit).length)
      constructor
      · intro h; rw [h1 h]; simp
      · intro h; exact h2 h
    · have e : scan l false fd acc td = .error .invChars := by
        conv => lhs; rw [hs, hdw]
        rw [scan_digits _ _ _ _ _ _ hd, scan_bad _ _ _ _ _ _ hc hdot]
      constructor
      · intro h
        split at h
        · rename_i heq; cases heq
        · rename_i heq; injection heq with h1 _; exact absurd h1 hdot
        · cases h
      · intro _; exact ⟨_, e⟩

theorem stripTrail_spec (fd : Nat) (acc : List Char) (td : Nat) :
    ∃ t acc', t ≤ fd ∧ acc = zeros t ++ acc' ∧ stripTrail fd acc td = (fd - t, acc', td - t) ∧
      (fd - t = 0 ∨ acc' = [] ∨ acc'.head? ≠ some '0') := by
  induction fd generalizing acc td with
  | zero => exact ⟨0, acc, Nat.le_refl _, by simp [zeros], by simp [stripTrail], Or.inl rfl⟩
  | succ fd ih =>
    cases acc with
    | nil => exact ⟨0, [], by omega, by simp [zeros], by simp [stripTrail], Or.inr (Or.inl rfl)⟩
    | cons c acc =>
      by_cases hc : c = '0'
      · subst hc
        obtain ⟨t, acc', h1, h2, h3, h4⟩ := ih acc (td - 1)
        refine ⟨t + 1, acc', by omega, ?_, ?_, ?_⟩
        · rw [h2]; simp [zeros, List.replicate_succ]
        · simp only [stripTrail, beq_self_eq_true, if_true]
          rw [h3]; congr 1
          · omega
          · congr 1; omega
        · rcases h4 with h | h | h
          · left; omega
          · right; left; exact h
          · right; right; exact h
      · refine ⟨0, c :: acc, by omega, by simp [zeros], ?_, ?_⟩
        · have : (c == '0') = false := by
            apply Bool.eq_false_iff.mpr; intro h; rw [beq_iff_eq] at h; exact hc h
          simp [stripTrail, this]
        · right; right; simp [hc]

theorem takeSign_minus (r : List Char) : takeSign ('-' :: r) = (-1, r, true) := rfl
theorem takeSign_plus (r : List Char) : takeSign ('+' :: r) = (1, r, true) := rfl
theorem takeSign_nil : takeSign [] = (1, [], false) := rfl
theorem takeSign_other (c : Char) (r : List Char) (h1 : c ≠ '-') (h2 : c ≠ '+') :
    takeSign (c :: r) = (1, c :: r, false) := by
  unfold takeSign
  split
  · rename_i heq; injection heq with a _; exact absurd a h1
  · rename_i heq; injection heq with a _; exact absurd a h2
  · rfl

theorem unsigned_minus (r : List Char) : unsigned ('-' :: r) = r := rfl
theorem unsigned_plus (r : List Char) : unsigned ('+' :: r) = r := rfl
theorem unsigned_other (c : Char) (r : List Char) (h1 : c ≠ '-') (h2 : c ≠ '+') : unsigned (c :: r) = c :: r := by
  unfold unsigned
  split
  · rename_i heq; injection heq with a _; exact absurd a h2
  · rename_i heq; injection heq with a _; exact absurd a h1
  · rfl
theorem isNeg_minus (r : List Char) : isNeg ('-' :: r) = true := rfl
theorem isNeg_other (c : Char) (r : List Char) (h1 : c ≠ '-') : isNeg (c :: r) = false := by
  unfold isNeg
  split
  · rename_i heq; injection heq with a _; exact absurd a h1
  · rfl

/-- what `takeSign` returns, in Spec terms -/
theorem takeSign_spec (b : List Char) :
    ∃ sg seen, takeSign b = (sg, unsigned b, seen) ∧ (sg = 1 ∨ sg = -1) ∧ (sg = -1 ↔ isNeg b = true) ∧
      (seen = false → (b = [] ∨ ∃ c r, b = c :: r ∧ c ≠ '-' ∧ c ≠ '+' ∧ unsigned b = b)) := by
  cases b with
  | nil => exact ⟨1, false, rfl, Or.inl rfl, by simp [isNeg], fun _ => Or.inl rfl⟩
  | cons c r =>
    by_cases h1 : c = '-'
    · subst h1; exact ⟨-1, true, rfl, Or.inr rfl, by simp [isNeg_minus], fun h => by cases h⟩
    · by_cases h2 : c = '+'
      · subst h2
        exact ⟨1, true, rfl, Or.inl rfl, by simp [isNeg_other _ _ h1], fun h => by cases h⟩
      · refine ⟨1, false, ?_, Or.inl rfl, by simp [isNeg_other _ _ h1], fun _ => Or.inr ⟨c, r, rfl, h1, h2, unsigned_other c r h1 h2⟩⟩
        rw [takeSign_other c r h1 h2, unsigned_other c r h1 h2]

/-- leading zeros -/
theorem dropZeros_split (l : List Char) :
    ∃ k, l = zeros k ++ l.dropWhile isZeroCh ∧ (l.dropWhile isZeroCh).head? ≠ some '0' := by
  induction l with
  | nil => exact ⟨0, by simp [zeros], by simp⟩
  | cons c r ih =>
    by_cases hc : c = '0'
    · subst hc
      obtain ⟨k, h1, h2⟩ := ih
      refine ⟨k + 1, ?_, ?_⟩
      · rw [List.dropWhile_cons_of_pos (by simp [isZeroCh])]
        conv => lhs; rw [h1]
        simp [zeros, List.replicate_succ]
      · rw [List.dropWhile_cons_of_pos (by simp [isZeroCh])]; exact h2
    · have : ¬ (isZeroCh c = true) := by unfold isZeroCh; rw [beq_iff_eq]; exact hc
      refine ⟨0, ?_, ?_⟩
      · rw [List.dropWhile_cons_of_neg this]; simp [zeros]
      · rw [List.dropWhile_cons_of_neg this]; simp [hc]

theorem takeWhile_zeros (k : Nat) (l : List Char) :
    (zeros k ++ l).takeWhile isDigit = zeros k ++ l.takeWhile isDigit := by
  induction k with
  | zero => simp [zeros]
  | succ k ih =>
    simp only [zeros, List.replicate_succ, List.cons_append] at ih ⊢
    rw [List.takeWhile_cons_of_pos isDigit_zero, ih]

theorem dropWhile_zeros (k : Nat) (l : List Char) :
    (zeros k ++ l).dropWhile isDigit = l.dropWhile isDigit := by
  induction k with
  | zero => simp [zeros]
  | succ k ih =>
    simp only [zeros, List.replicate_succ, List.cons_append] at ih ⊢
    rw [List.dropWhile_cons_of_pos isDigit_zero, ih]

theorem natOf_zeros_append (k : Nat) (l : List Char) : natOf (zeros k ++ l) = natOf l := by
  rw [natOf_append, zeros, natOf_replicate_zero]; simp

theorem scan_ok_shape (l : List Char) (h : lexBody l = true) :
    ∃ f, AllDigits f ∧ ((l.dropWhile isDigit = [] ∧ f = []) ∨ l.dropWhile isDigit = '.' :: f) ∧
      scan l false 0 [] 0 = .ok (f.length, f.reverse ++ (l.takeWhile isDigit).reverse,
        (l.takeWhile isDigit).length + f.length) := by
  have hs := (scan_spec l 0 [] 0).1 h
  unfold lexBody at h
  cases hdw : l.dropWhile isDigit with
  | nil =>
    rw [hdw] at hs
    exact ⟨[], (fun c hc => by cases hc), Or.inl ⟨rfl, rfl⟩, by simpa using hs⟩
  | cons c r =>
    rw [hdw] at h hs
    by_cases hc : c = '.'
    · subst hc
      simp only at h hs
      exact ⟨r, (allDigits_iff_all r).mpr h, Or.inr rfl, by simpa using hs⟩
    · split at h
      · rename_i heq; cases heq
      · rename_i heq; injection heq with a _; exact absurd a hc
      · cases h

theorem fracPart_of (s f : List Char) (h : (afterInt s = [] ∧ f = []) ∨ afterInt s = '.' :: f) : fracPart s = f := by
  unfold fracPart
  rcases h with ⟨h1, h2⟩ | h1
  · rw [h1, h2]
  · rw [h1]; rfl

theorem neg_cast_zero : -((0 : Nat) : Int) = ((0 : Nat) : Int) := by simp

theorem parseBody_form (rep : Bool) (b : List Char) :
    ∃ sg seen, (sg = 1 ∨ sg = -1) ∧ (sg = -1 ↔ isNeg b = true) ∧
      (seen = false → (b = [] ∨ ∃ c r, b = c :: r ∧ c ≠ '-' ∧ c ≠ '+' ∧ unsigned b = b)) ∧
      (seen = true → ∃ c r, b = c :: r ∧ (c = '-' ∨ c = '+') ∧ unsigned b = r) ∧
      parseBody rep b =
        if seen && (unsigned b).isEmpty then .error .invChars
        else if rep && unsigned b == ['.'] then .error .invChars
        else if ((unsigned b).dropWhile isZeroCh).isEmpty then .ok ⟨0, [], 0, 0⟩
        else match scan ((unsigned b).dropWhile isZeroCh) false 0 [] 0 with
          | .error e => .error e
          | .ok (fd, acc, td) =>
            .ok ⟨if (stripTrail fd acc td).2.2 == 0 then 0 else sg, (stripTrail fd acc td).2.1.reverse,
                 (stripTrail fd acc td).2.2, (stripTrail fd acc td).1⟩ := by
  cases b with
  | nil =>
    refine ⟨1, false, Or.inl rfl, by simp [isNeg], fun _ => Or.inl rfl, (fun h => by cases h), ?_⟩
    simp [parseBody, takeSign, unsigned]
  | cons c r =>
    by_cases h1 : c = '-'
    · subst h1
      refine ⟨-1, true, Or.inr rfl, by simp [isNeg_minus], (fun h => by cases h), fun _ => ⟨'-', r, rfl, Or.inl rfl, rfl⟩, ?_⟩
      simp only [parseBody, takeSign_minus, unsigned_minus]
      rfl
    · by_cases h2 : c = '+'
      · subst h2
        refine ⟨1, true, Or.inl rfl, by simp [isNeg_other _ _ h1], (fun h => by cases h), fun _ => ⟨'+', r, rfl, Or.inr rfl, rfl⟩, ?_⟩
        simp only [parseBody, takeSign_plus, unsigned_plus]
        rfl
      · refine ⟨1, false, Or.inl rfl, by simp [isNeg_other _ _ h1], fun _ => Or.inr ⟨c, r, rfl, h1, h2, unsigned_other c r h1 h2⟩,
          (fun h => by cases h), ?_⟩
        simp only [parseBody, takeSign_other c r h1 h2, unsigned_other c r h1 h2]
        rfl

theorem normal_zero : Normal ⟨0, [], 0, 0⟩ where
  digits := fun c hc => by cases hc
  len := rfl
  scale_le := Nat.le_refl _
  sign := Or.inl ⟨rfl, rfl⟩
  lead := fun h => by simp at h
  trail := fun h => by simp at h

theorem allDigits_append {x y : List Char} : AllDigits (x ++ y) ↔ AllDigits x ∧ AllDigits y := by
  simp [AllDigits, or_imp, forall_and]

theorem allDigits_zeros (k : Nat) : AllDigits (zeros k) := by
  intro c hc; rw [zeros, List.mem_replicate] at hc; rw [hc.2]; exact isDigit_zero

/-- Everything `parseBody` does on a body whose zero-stripped rest is not empty and has the lexical shape. -/
theorem parseBody_main (sg : Int) (hsg : sg = 1 ∨ sg = -1) (b2 : List Char) (hne : b2 ≠ [])
    (hhead : b2.head? ≠ some '0') (hlex : lexBody b2 = true) :
    ∃ f iv t fd acc td, AllDigits f ∧ ((b2.dropWhile isDigit = [] ∧ f = []) ∨ b2.dropWhile isDigit = '.' :: f) ∧
      scan b2 false 0 [] 0 = .ok (fd, acc, td) ∧
      b2.takeWhile isDigit ++ f = iv ++ zeros t ∧ t ≤ f.length ∧
      Normal ⟨if (stripTrail fd acc td).2.2 == 0 then 0 else sg, (stripTrail fd acc td).2.1.reverse,
              (stripTrail fd acc td).2.2, (stripTrail fd acc td).1⟩ ∧
      (stripTrail fd acc td).2.1.reverse = iv ∧ (stripTrail fd acc td).1 + t = f.length ∧
      ((stripTrail fd acc td).2.2 = 0 → iv = []) := by
  obtain ⟨f, hf, hshape, hscan⟩ := scan_ok_shape b2 hlex
  obtain ⟨hs, hd, hn⟩ := split_digits b2
  obtain ⟨ds1, hds1⟩ : ∃ ds1, ds1 = b2.takeWhile isDigit := ⟨_, rfl⟩
  rw [← hds1] at hscan hd hs
  obtain ⟨t, acc', ht, hacc, hst, hstop⟩ := stripTrail_spec f.length (f.reverse ++ ds1.reverse) (ds1.length + f.length)
  -- ds1 ++ f = acc'.reverse ++ zeros t
  have hrev : ds1 ++ f = acc'.reverse ++ zeros t := by
    have := congrArg List.reverse hacc
    simp only [List.reverse_append, List.reverse_reverse] at this
    rw [this]; simp [zeros]
  have hlen : ds1.length + f.length = acc'.length + t := by
    have := congrArg List.length hrev
    simpa [zeros] using this
  have hdig : AllDigits acc'.reverse := by
    have : AllDigits (ds1 ++ f) := allDigits_append.mpr ⟨hd, hf⟩
    rw [hrev] at this; exact (allDigits_append.mp this).1
  refine ⟨f, acc'.reverse, t, _, _, _, hf, hshape, hscan, ?_, ht, ?_, ?_, ?_, ?_⟩
  · rw [← hds1]; exact hrev
  · rw [hst]
    simp only
    refine { digits := hdig, len := ?_, scale_le := ?_, sign := ?_, lead := ?_, trail := ?_ }
    · simp only [List.length_reverse]; omega
    · dsimp only; omega
    · dsimp only
      by_cases h0 : ds1.length + f.length - t = 0
      · left; simp [h0]
      · right
        have : (ds1.length + f.length - t == 0) = false := by simpa using h0
        rw [this]
        exact ⟨by simpa using hsg, by omega⟩
    · dsimp only
      intro hlt
      -- ds1 ≠ [], so the head of iv is the head of b2
      have hds : ds1 ≠ [] := by intro e; rw [e] at hlt; simp at hlt
      have hl1 : 0 < ds1.length := List.length_pos_iff.mpr hds
      have hacc' : acc'.reverse ≠ [] := by
        intro e; have := congrArg List.length e; simp at this; rw [this] at hlen; simp only [List.length_nil] at hlen; omega
      have h1 : (acc'.reverse ++ zeros t).head? = acc'.reverse.head? := by
        cases hr : acc'.reverse with
        | nil => exact absurd hr hacc'
        | cons a r => simp
      have h2 : (ds1 ++ f).head? = b2.head? := by
        cases hr : ds1 with
        | nil => exact absurd hr hds
        | cons a r =>
          have : b2 = a :: r ++ b2.dropWhile isDigit := by rw [← hr]; exact hs
          rw [this]; simp
      rw [← h1, ← hrev, h2]; exact hhead
    · dsimp only
      intro hpos
      rcases hstop with h | h | h
      · omega
      · -- acc' = [] : then td' = 0 ≥ scale' > 0 impossible
        rw [h] at hlen; simp at hlen; omega
      · rw [List.getLast?_reverse]; exact h
  · rw [hst]
  · rw [hst]; simp only; omega
  · rw [hst]; simp only
    intro h0
    have : acc'.length = 0 := by omega
    simpa using this

theorem spec_parts (b : List Char) :
    ∃ k, unsigned b = zeros k ++ (unsigned b).dropWhile isZeroCh ∧
      ((unsigned b).dropWhile isZeroCh).head? ≠ some '0' ∧
      intPart b = zeros k ++ ((unsigned b).dropWhile isZeroCh).takeWhile isDigit ∧
      afterInt b = ((unsigned b).dropWhile isZeroCh).dropWhile isDigit := by
  obtain ⟨k, h1, h2⟩ := dropZeros_split (unsigned b)
  refine ⟨k, h1, h2, ?_, ?_⟩
  · unfold intPart; conv => lhs; rw [h1]
    exact takeWhile_zeros k _
  · unfold afterInt; conv => lhs; rw [h1]
    exact dropWhile_zeros k _

theorem scaleUp_zero_val : scaleUp (decVal ⟨0, [], 0, 0⟩) 0 = (0, 0) := by
  simp [scaleUp, decVal, natOf]

theorem parseBody_ok (rep : Bool) (b : List Char) (d : BigDecimal) (h : parseBody rep b = .ok d) :
    Normal d ∧ ∃ t, val b = scaleUp (decVal d) t := by
  obtain ⟨sg, seen, hsg, hneg, _, _, hform⟩ := parseBody_form rep b
  obtain ⟨k, hk, hhead, hip, haf⟩ := spec_parts b
  rw [hform] at h
  obtain ⟨b2, hb2⟩ : ∃ b2, b2 = (unsigned b).dropWhile isZeroCh := ⟨_, rfl⟩
  rw [← hb2] at h hk hhead hip haf
  split at h
  · cases h
  · split at h
    · cases h
    · split at h
      · -- zero
        rename_i hz
        injection h with h; subst h
        refine ⟨normal_zero, 0, ?_⟩
        have e : b2 = [] := by simpa using hz
        rw [e] at hip haf
        rw [scaleUp_zero_val]
        have hf : fracPart b = [] := fracPart_of b [] (Or.inl ⟨by simpa using haf, rfl⟩)
        unfold val
        rw [hf, hip]
        simp only [List.takeWhile_nil, List.append_nil, List.length_nil]
        rw [zeros, natOf_replicate_zero]
        simp
      · rename_i hz
        have hne : b2 ≠ [] := by simpa using hz
        cases hl : lexBody b2 with
        | false =>
          obtain ⟨e, he⟩ := (scan_spec b2 0 [] 0).2 hl
          rw [he] at h; cases h
        | true =>
          obtain ⟨f, iv, t, fd, acc, td, hf, hshape, hscan, hsplit, ht, hnorm, hiv, hfd, hz0⟩ :=
            parseBody_main sg hsg b2 hne hhead hl
          rw [hscan] at h
          simp only at h
          injection h with h
          rw [← h]
          refine ⟨hnorm, t, ?_⟩
          have hfr : fracPart b = f := fracPart_of b f (by rw [haf]; exact hshape)
          unfold val
          rw [hfr, hip, List.append_assoc, natOf_zeros_append, hsplit, zeros, natOf_pad]
          unfold scaleUp decVal
          simp only
          rw [hiv, hfd]
          congr 1
          by_cases h0 : (stripTrail fd acc td).2.2 = 0
          · have := hz0 h0
            rw [this]; simp [natOf]
          · have h0' : ((stripTrail fd acc td).2.2 == 0) = false := by simpa using h0
            rw [h0']
            simp only [Bool.false_eq_true, if_false]
            rcases hsg with hs | hs
            · have : isNeg b = false := by
                cases hn : isNeg b with
                | false => rfl
                | true => have := hneg.mpr hn; rw [hs] at this; cases this
              rw [this, hs]; push_cast; simp
            · have : isNeg b = true := hneg.mp hs
              rw [this, hs]; push_cast; simp [Int.neg_mul]

theorem isDecimalLex_eq (b : List Char) (k : Nat) (b2 : List Char)
    (hip : intPart b = zeros k ++ b2.takeWhile isDigit) (haf : afterInt b = b2.dropWhile isDigit) :
    isDecimalLex b =
      match b2.dropWhile isDigit with
      | [] => !(zeros k ++ b2.takeWhile isDigit).isEmpty
      | '.' :: f => f.all isDigit && (!(zeros k ++ b2.takeWhile isDigit).isEmpty || !f.isEmpty)
      | _ => false := by
  unfold isDecimalLex
  rw [hip, haf]
  rfl

theorem parseBody_lex (b : List Char) (hb : b ≠ []) :
    (∃ d, parseBody true b = .ok d) ↔ isDecimalLex b = true := by
  obtain ⟨sg, seen, hsg, hneg, hunseen, hseen, hform⟩ := parseBody_form true b
  obtain ⟨k, hk, hhead, hip, haf⟩ := spec_parts b
  obtain ⟨b2, hb2⟩ : ∃ b2, b2 = (unsigned b).dropWhile isZeroCh := ⟨_, rfl⟩
  rw [← hb2] at hk hhead hip haf
  rw [isDecimalLex_eq b k b2 hip haf, hform, ← hb2]
  obtain ⟨hs, hd, hn⟩ := split_digits b2
  by_cases c1 : (seen && (unsigned b).isEmpty) = true
  · rw [if_pos c1]
    have e1 : unsigned b = [] := by simp at c1; exact c1.2
    have : zeros k ++ b2 = [] := by rw [← hk, e1]
    have ek : zeros k = [] := (List.append_eq_nil_iff.mp this).1
    have eb : b2 = [] := (List.append_eq_nil_iff.mp this).2
    rw [eb, ek]; simp
  · rw [if_neg c1]
    by_cases c2 : (true && unsigned b == ['.']) = true
    · rw [if_pos c2]
      have e1 : unsigned b = ['.'] := by simpa using c2
      have eb : b2 = ['.'] := by rw [hb2, e1]; decide
      have ek : zeros k = [] := by
        have : zeros k ++ ['.'] = ['.'] := by rw [← eb, ← hk, e1, eb]
        cases k with
        | zero => rfl
        | succ k => simp [zeros, List.replicate_succ] at this
      rw [eb, ek]
      have : List.dropWhile isDigit ['.'] = ['.'] := by decide
      rw [this]; simp
      decide
    · rw [if_neg c2]
      by_cases c3 : b2.isEmpty = true
      · rw [if_pos c3]
        have eb : b2 = [] := by simpa using c3
        have hk' : unsigned b = zeros k := by rw [hk, eb]; simp
        have : zeros k ≠ [] := by
          intro ez
          rw [ez] at hk'
          cases hsn : seen with
          | true => rw [hsn, hk'] at c1; simp at c1
          | false =>
            rcases hunseen hsn with h | ⟨c, r, hbc, _, _, hu⟩
            · exact hb h
            · rw [hu] at hk'; exact hb hk'
        rw [eb]; simp [this]
      · rw [if_neg c3]
        have hne : b2 ≠ [] := by simpa using c3
        cases hl : lexBody b2 with
        | false =>
          obtain ⟨e, he⟩ := (scan_spec b2 0 [] 0).2 hl
          rw [he]
          unfold lexBody at hl
          constructor
          · rintro ⟨d, h⟩; cases h
          · intro h
            exfalso
            split at hl
            · cases hl
            · rename_i f heq
              rw [heq] at h; simp only at h
              rw [hl] at h; simp at h
            · rename_i h1 h2
              split at h
              · rename_i heq; exact h1 heq
              · rename_i f heq; exact h2 f heq
              · cases h
        | true =>
          obtain ⟨f, iv, t, fd, acc, td, hf, hshape, hscan, _⟩ := parseBody_main sg hsg b2 hne hhead hl
          rw [hscan]
          constructor
          · intro _
            rcases hshape with ⟨h1, h2⟩ | h1
            · rw [h1]; simp only
              rw [h1, List.append_nil] at hs
              rw [← hs]; simp [hne]
            · rw [h1]; simp only
              have hfa : f.all isDigit = true := (allDigits_iff_all f).mp hf
              rw [hfa]
              simp only [Bool.true_and]
              -- zeros k ++ ds1 = [] and f = [] would make unsigned b = "."
              cases hz : (zeros k ++ b2.takeWhile isDigit).isEmpty with
              | false => simp
              | true =>
                cases hfe : f.isEmpty with
                | false => simp
                | true =>
                  exfalso
                  have e0 : zeros k ++ b2.takeWhile isDigit = [] := by simpa using hz
                  have ef : f = [] := by simpa using hfe
                  have ek : zeros k = [] := (List.append_eq_nil_iff.mp e0).1
                  have ed : b2.takeWhile isDigit = [] := (List.append_eq_nil_iff.mp e0).2
                  rw [ed, h1, ef] at hs
                  rw [ek, hs] at hk
                  rw [hk] at c2; simp at c2
          · intro _; exact ⟨_, rfl⟩

/-! ### trimming -/
theorem isWhitespace_eq : isWhitespace = isWs := rfl

theorem dropWhile_snoc_ne {α} (p : α → Bool) (l : List α) (c : α) (hc : p c = false) :
    (l ++ [c]).dropWhile p ≠ [] := by
  induction l with
  | nil => simp [hc]
  | cons a r ih =>
    by_cases h : p a = true
    · rw [List.cons_append, List.dropWhile_cons_of_pos h]; exact ih
    · rw [List.cons_append, List.dropWhile_cons_of_neg h]; simp

theorem trim_ne_nil (s : List Char) (h : s.dropWhile isWs ≠ []) : trimWs s ≠ [] := by
  unfold trimWs
  cases hs : s.dropWhile isWs with
  | nil => exact absurd hs h
  | cons c r =>
    have hc : isWs c = false := dropWhile_head isWs s c r hs
    rw [List.reverse_cons]
    intro e
    have := congrArg List.reverse e
    simp only [List.reverse_reverse, List.reverse_nil] at this
    exact dropWhile_snoc_ne isWs r.reverse c hc this

theorem parseG_unfold (rep : Bool) (s : List Char) :
    parseDecimalG rep s =
      if s.isEmpty then .error .emptyString
      else if (s.dropWhile isWs).isEmpty then .error .wsString
      else parseBody rep (trimWs s) := rfl

theorem parseG_ok (rep : Bool) (s : List Char) (d : BigDecimal) (h : parseDecimalG rep s = .ok d) :
    parseBody rep (trimWs s) = .ok d ∧ trimWs s ≠ [] := by
  rw [parseG_unfold] at h
  split at h
  · cases h
  · split at h
    · cases h
    · rename_i h2
      exact ⟨h, trim_ne_nil s (by simpa using h2)⟩

theorem parseG_of_body (rep : Bool) (s : List Char) (ht : trimWs s ≠ []) :
    parseDecimalG rep s = parseBody rep (trimWs s) := by
  rw [parseG_unfold]
  have h1 : s ≠ [] := by intro e; rw [e] at ht; exact ht rfl
  have h2 : s.dropWhile isWs ≠ [] := by
    intro e; unfold trimWs at ht; rw [e] at ht; exact ht rfl
  rw [if_neg (by simpa using h1), if_neg (by simpa using h2)]

/-! ### algebra of the value order -/
theorem cmpSpec_refl (a : Int × Nat) : cmpSpec a a = .eq := by
  unfold cmpSpec; simp

theorem pow10_pos (n : Nat) : (0 : Int) < 10 ^ n := Int.pow_pos (by decide)

theorem cmpSpec_scaleUp (a b : Int × Nat) (t u : Nat) : cmpSpec (scaleUp a t) (scaleUp b u) = cmpSpec a b := by
  unfold cmpSpec scaleUp
  simp only
  have e1 : a.1 * 10 ^ t * 10 ^ (b.2 + u) = (a.1 * 10 ^ b.2) * (10 ^ t * 10 ^ u) := by
    rw [Int.pow_add]; ac_rfl
  have e2 : b.1 * 10 ^ u * 10 ^ (a.2 + t) = (b.1 * 10 ^ a.2) * (10 ^ t * 10 ^ u) := by
    rw [Int.pow_add]; ac_rfl
  rw [e1, e2]
  have hK : (0 : Int) < 10 ^ t * 10 ^ u := Int.mul_pos (pow10_pos t) (pow10_pos u)
  have l1 : a.1 * 10 ^ b.2 * (10 ^ t * 10 ^ u) < b.1 * 10 ^ a.2 * (10 ^ t * 10 ^ u) ↔ a.1 * 10 ^ b.2 < b.1 * 10 ^ a.2 :=
    Int.mul_lt_mul_right hK
  have l2 : b.1 * 10 ^ a.2 * (10 ^ t * 10 ^ u) < a.1 * 10 ^ b.2 * (10 ^ t * 10 ^ u) ↔ b.1 * 10 ^ a.2 < a.1 * 10 ^ b.2 :=
    Int.mul_lt_mul_right hK
  simp only [l1, l2]

theorem cmpSpec_swap (a b : Int × Nat) : cmpSpec b a = (cmpSpec a b).swap := by
  unfold cmpSpec
  by_cases h1 : a.1 * 10 ^ b.2 < b.1 * 10 ^ a.2
  · have : ¬ b.1 * 10 ^ a.2 < a.1 * 10 ^ b.2 := by omega
    simp [h1, this]
  · by_cases h2 : b.1 * 10 ^ a.2 < a.1 * 10 ^ b.2
    · simp [h1, h2]
    · simp [h1, h2]

theorem cmpSpec_lt_iff (a b : Int × Nat) : cmpSpec a b = .lt ↔ a.1 * 10 ^ b.2 < b.1 * 10 ^ a.2 := by
  unfold cmpSpec
  by_cases h1 : a.1 * 10 ^ b.2 < b.1 * 10 ^ a.2
  · simp [h1]
  · by_cases h2 : b.1 * 10 ^ a.2 < a.1 * 10 ^ b.2 <;> simp [h1, h2]

theorem cmpSpec_eq_iff (a b : Int × Nat) : cmpSpec a b = .eq ↔ a.1 * 10 ^ b.2 = b.1 * 10 ^ a.2 := by
  unfold cmpSpec
  by_cases h1 : a.1 * 10 ^ b.2 < b.1 * 10 ^ a.2
  · simp [h1]; omega
  · by_cases h2 : b.1 * 10 ^ a.2 < a.1 * 10 ^ b.2
    · simp [h1, h2]; omega
    · simp [h1, h2]; omega

/-- cross-multiplication is transitive (the common factor 10^b.2 is positive) -/
theorem cross_lt_trans (a b c : Int × Nat)
    (h1 : a.1 * 10 ^ b.2 ≤ b.1 * 10 ^ a.2) (h2 : b.1 * 10 ^ c.2 < c.1 * 10 ^ b.2) :
    a.1 * 10 ^ c.2 < c.1 * 10 ^ a.2 := by
  have p1 : a.1 * 10 ^ b.2 * 10 ^ c.2 ≤ b.1 * 10 ^ a.2 * 10 ^ c.2 :=
    Int.mul_le_mul_of_nonneg_right h1 (Int.le_of_lt (pow10_pos _))
  have p2 : b.1 * 10 ^ c.2 * 10 ^ a.2 < c.1 * 10 ^ b.2 * 10 ^ a.2 :=
    Int.mul_lt_mul_of_pos_right h2 (pow10_pos _)
  have e1 : b.1 * 10 ^ a.2 * 10 ^ c.2 = b.1 * 10 ^ c.2 * 10 ^ a.2 := by ac_rfl
  have e2 : a.1 * 10 ^ b.2 * 10 ^ c.2 = a.1 * 10 ^ c.2 * 10 ^ b.2 := by ac_rfl
  have e3 : c.1 * 10 ^ b.2 * 10 ^ a.2 = c.1 * 10 ^ a.2 * 10 ^ b.2 := by ac_rfl
  rw [e1, e2] at p1
  rw [e3] at p2
  have : a.1 * 10 ^ c.2 * 10 ^ b.2 < c.1 * 10 ^ a.2 * 10 ^ b.2 := Int.lt_of_le_of_lt p1 p2
  exact (Int.mul_lt_mul_right (pow10_pos _)).mp this

theorem cross_lt_trans' (a b c : Int × Nat)
    (h1 : a.1 * 10 ^ b.2 < b.1 * 10 ^ a.2) (h2 : b.1 * 10 ^ c.2 ≤ c.1 * 10 ^ b.2) :
    a.1 * 10 ^ c.2 < c.1 * 10 ^ a.2 := by
  have p1 : a.1 * 10 ^ b.2 * 10 ^ c.2 < b.1 * 10 ^ a.2 * 10 ^ c.2 :=
    Int.mul_lt_mul_of_pos_right h1 (pow10_pos _)
  have p2 : b.1 * 10 ^ c.2 * 10 ^ a.2 ≤ c.1 * 10 ^ b.2 * 10 ^ a.2 :=
    Int.mul_le_mul_of_nonneg_right h2 (Int.le_of_lt (pow10_pos _))
  have e1 : b.1 * 10 ^ a.2 * 10 ^ c.2 = b.1 * 10 ^ c.2 * 10 ^ a.2 := by ac_rfl
  have e2 : a.1 * 10 ^ b.2 * 10 ^ c.2 = a.1 * 10 ^ c.2 * 10 ^ b.2 := by ac_rfl
  have e3 : c.1 * 10 ^ b.2 * 10 ^ a.2 = c.1 * 10 ^ a.2 * 10 ^ b.2 := by ac_rfl
  rw [e1, e2] at p1
  rw [e3] at p2
  have : a.1 * 10 ^ c.2 * 10 ^ b.2 < c.1 * 10 ^ a.2 * 10 ^ b.2 := Int.lt_of_lt_of_le p1 p2
  exact (Int.mul_lt_mul_right (pow10_pos _)).mp this

theorem cross_eq_trans (a b c : Int × Nat)
    (h1 : a.1 * 10 ^ b.2 = b.1 * 10 ^ a.2) (h2 : b.1 * 10 ^ c.2 = c.1 * 10 ^ b.2) :
    a.1 * 10 ^ c.2 = c.1 * 10 ^ a.2 := by
  have e : a.1 * 10 ^ c.2 * 10 ^ b.2 = c.1 * 10 ^ a.2 * 10 ^ b.2 := by
    calc a.1 * 10 ^ c.2 * 10 ^ b.2 = a.1 * 10 ^ b.2 * 10 ^ c.2 := by ac_rfl
      _ = b.1 * 10 ^ a.2 * 10 ^ c.2 := by rw [h1]
      _ = b.1 * 10 ^ c.2 * 10 ^ a.2 := by ac_rfl
      _ = c.1 * 10 ^ b.2 * 10 ^ a.2 := by rw [h2]
      _ = c.1 * 10 ^ a.2 * 10 ^ b.2 := by ac_rfl
  exact Int.eq_of_mul_eq_mul_right (Int.ne_of_gt (pow10_pos _)) e

theorem compareString_eq_zero (x y : List Char) (h : compareString x y = 0) : x = y := by
  induction x generalizing y with
  | nil => cases y with
    | nil => rfl
    | cons d y => simp [compareString] at h
  | cons c x ih =>
    cases y with
    | nil => simp [compareString] at h
    | cons d y =>
      unfold compareString at h
      by_cases p : c.toNat < d.toNat
      · simp [p] at h
      · by_cases q : d.toNat < c.toNat
        · simp [p, q] at h
        · simp only [p, q, if_false] at h
          have : c = d := (char_eq_iff c d).mpr (by omega)
          rw [this, ih y h]

theorem toCompare_eq_zero (l r : BigDecimal) (hl : Normal l) (hr : Normal r) (h : toCompare l r = 0) : l = r := by
  by_cases hs : l.sign = r.sign
  · by_cases h0 : l.sign = 0
    · -- both zero
      have hl0 : l.totalDigits = 0 := by
        rcases hl.sign with ⟨_, h⟩ | ⟨h | h, _⟩
        · exact h
        · rw [h] at h0; cases h0
        · rw [h] at h0; cases h0
      have hr0 : r.totalDigits = 0 := by
        rcases hr.sign with ⟨_, h⟩ | ⟨h | h, _⟩
        · exact h
        · rw [← hs, h0] at h; cases h
        · rw [← hs, h0] at h; cases h
      have a1 := hl.len; have a2 := hr.len; have a3 := hl.scale_le; have a4 := hr.scale_le
      rw [hl0] at a1 a3; rw [hr0] at a2 a4
      cases l; cases r
      simp only [BigDecimal.mk.injEq] at *
      refine ⟨hs, ?_, by omega, by omega⟩
      rw [List.length_eq_zero_iff.mp a1, List.length_eq_zero_iff.mp a2]
    · rw [toCompare_same l r hs h0] at h
      have hm : magCmp l r = 0 := by
        rcases Int.mul_eq_zero.mp h with h | h
        · exact absurd h h0
        · exact h
      unfold magCmp at hm
      split at hm
      · cases hm
      · split at hm
        · cases hm
        · rename_i n1 n2
          have e := compareString_eq_zero _ _ hm
          have a1 := hl.len; have a2 := hr.len; have a3 := hl.scale_le; have a4 := hr.scale_le
          rw [e] at a1
          cases l; cases r
          simp only [BigDecimal.mk.injEq] at *
          exact ⟨hs, e, by omega, by omega⟩
  · rw [toCompare_ne l r hs] at h
    split at h <;> cases h

/-! ### shape of the canonical form -/

theorem takeWhile_digits_dot (I F : List Char) (h : AllDigits I) :
    (I ++ '.' :: F).takeWhile isDigit = I ∧ (I ++ '.' :: F).dropWhile isDigit = '.' :: F := by
  induction I with
  | nil => simp [not_digit_dot]
  | cons c r ih =>
    obtain ⟨hc, hr⟩ := allDigits_cons h
    rw [List.cons_append, List.takeWhile_cons_of_pos hc, List.dropWhile_cons_of_pos hc]
    exact ⟨by rw [(ih hr).1], (ih hr).2⟩

theorem digit_not_sign (c : Char) (h : isDigit c = true) : c ≠ '-' ∧ c ≠ '+' := by
  constructor <;> (intro e; subst e; simp [isDigit] at h)

/-- Spec reading of `pre ++ I ++ "." ++ F` -/
theorem shape_spec (neg : Bool) (I F : List Char) (hI : AllDigits I) (hne : I ≠ []) :
    let c := (if neg then ['-'] else []) ++ I ++ '.' :: F
    unsigned c = I ++ '.' :: F ∧ isNeg c = neg ∧ intPart c = I ∧ afterInt c = '.' :: F ∧ fracPart c = F ∧
      startsWithPlus c = false := by
  intro c
  have hu : unsigned c = I ++ '.' :: F ∧ isNeg c = neg ∧ startsWithPlus c = false := by
    cases neg with
    | true => exact ⟨rfl, rfl, rfl⟩
    | false =>
      cases hI' : I with
      | nil => exact absurd hI' hne
      | cons i0 I' =>
        have hd := digit_not_sign i0 (hI i0 (by rw [hI']; simp))
        have hc : c = i0 :: (I' ++ '.' :: F) := by simp [c, hI']
        rw [hc]
        refine ⟨unsigned_other _ _ hd.1 hd.2, isNeg_other _ _ hd.1, ?_⟩
        unfold startsWithPlus
        split
        · rename_i heq; injection heq with a _; exact absurd a hd.2
        · rfl
  obtain ⟨h1, h2, h3⟩ := hu
  obtain ⟨t1, t2⟩ := takeWhile_digits_dot I F hI
  have hai : afterInt c = '.' :: F := by unfold afterInt; rw [h1, t2]
  refine ⟨h1, h2, ?_, hai, ?_, h3⟩
  · unfold intPart; rw [h1, t1]
  · exact fracPart_of c F (Or.inr hai)

structure CanonShape (d : BigDecimal) (neg : Bool) (I F : List Char) (u : Nat) : Prop where
  eq : canonOf d = (if neg then ['-'] else []) ++ I ++ '.' :: F
  dI : AllDigits I
  dF : AllDigits F
  neI : I ≠ []
  neF : F ≠ []
  leadI : I.length = 1 ∨ I.head? ≠ some '0'
  trailF : F.length = 1 ∨ F.getLast? ≠ some '0'
  negIff : neg = true ↔ d.sign = -1
  value : natOf (I ++ F) = natOf d.intVal * 10 ^ u
  scale : F.length = d.scale + u
  nz : neg = true → 0 < natOf (I ++ F)

theorem canon_shape (d : BigDecimal) (hd : Normal d) : ∃ neg I F u, CanonShape d neg I F u := by
  rcases hd.sign with ⟨hs, ht⟩ | ⟨hs, ht⟩
  · -- zero
    have hiv : d.intVal = [] := List.length_eq_zero_iff.mp (by rw [hd.len, ht])
    have hsc : d.scale = 0 := by have := hd.scale_le; omega
    refine ⟨false, ['0'], ['0'], 1, ?_⟩
    refine { eq := ?_, dI := ?_, dF := ?_, neI := by simp, neF := by simp, leadI := Or.inl rfl, trailF := Or.inl rfl,
             negIff := ?_, value := ?_, scale := ?_, nz := fun h => by cases h }
    · unfold canonOf; simp [hs]
    · intro c hc; simp at hc; rw [hc]; exact isDigit_zero
    · intro c hc; simp at hc; rw [hc]; exact isDigit_zero
    · rw [hs]; simp
    · rw [hiv]; decide
    · rw [hsc]; rfl
  · have hs0 : d.sign ≠ 0 := by rcases hs with h | h <;> rw [h] <;> decide
    have hcond : (decide (d.sign = 0) || decide (d.totalDigits = 0)) = false := by
      simp [hs0]; omega
    have hne : d.intVal ≠ [] := by
      intro e; have := hd.len; rw [e] at this; simp at this; omega
    have hpos := hd.pos hs0
    obtain ⟨neg, hneg⟩ : ∃ neg : Bool, neg = decide (d.sign = -1) := ⟨_, rfl⟩
    have hpre : (if d.sign = -1 then ['-'] else ([] : List Char)) = (if neg then ['-'] else []) := by
      rw [hneg]; by_cases h : d.sign = -1 <;> simp [h]
    have hnegIff : neg = true ↔ d.sign = -1 := by rw [hneg]; simp
    by_cases c1 : d.scale = d.totalDigits
    · refine ⟨neg, ['0'], d.intVal, 0, ?_⟩
      refine { eq := ?_, dI := ?_, dF := hd.digits, neI := by simp, neF := hne, leadI := Or.inl rfl,
               trailF := Or.inr (hd.trail (by omega)), negIff := hnegIff, value := ?_, scale := ?_, nz := ?_ }
      · unfold canonOf; rw [hcond]; simp only [Bool.false_eq_true, if_false]
        rw [if_pos c1, hpre]; simp
      · intro c hc; simp at hc; rw [hc]; exact isDigit_zero
      · rw [List.singleton_append, natOf_cons, digitVal_zero]; simp
      · rw [hd.len, c1]; rfl
      · intro _; rw [List.singleton_append, natOf_cons, digitVal_zero]; simpa using hpos
    · by_cases c2 : d.scale = 0
      · refine ⟨neg, d.intVal, ['0'], 1, ?_⟩
        refine { eq := ?_, dI := hd.digits, dF := ?_, neI := hne, neF := by simp,
                 leadI := Or.inr (hd.lead (by have := hd.scale_le; omega)), trailF := Or.inl rfl,
                 negIff := hnegIff, value := ?_, scale := ?_, nz := ?_ }
        · unfold canonOf; rw [hcond]; simp only [Bool.false_eq_true, if_false]
          rw [if_neg c1, if_pos c2, hpre]
        · intro c hc; simp at hc; rw [hc]; exact isDigit_zero
        · have := natOf_pad d.intVal 1; simpa using this
        · rw [c2]; rfl
        · intro _
          have := natOf_pad d.intVal 1
          simp only [List.replicate_one] at this
          rw [this]; omega
      · have hsl := hd.scale_le
        obtain ⟨n, hn⟩ : ∃ n, n = d.totalDigits - d.scale := ⟨_, rfl⟩
        have hn1 : 0 < n := by omega
        have hn2 : n < d.intVal.length := by rw [hd.len]; omega
        have hdrop : (d.intVal.drop n).take d.scale = d.intVal.drop n := by
          apply List.take_of_length_le; rw [List.length_drop, hd.len]; omega
        have hIF : d.intVal.take n ++ d.intVal.drop n = d.intVal := List.take_append_drop n _
        have hdig : AllDigits (d.intVal.take n) ∧ AllDigits (d.intVal.drop n) := by
          have := hd.digits; rw [← hIF] at this; exact allDigits_append.mp this
        have hneI : d.intVal.take n ≠ [] := by
          intro e; have := congrArg List.length e; simp only [List.length_take, List.length_nil] at this; omega
        have hneF : d.intVal.drop n ≠ [] := by
          intro e; have := congrArg List.length e; simp only [List.length_drop, List.length_nil] at this; omega
        refine ⟨neg, d.intVal.take n, d.intVal.drop n, 0, ?_⟩
        refine { eq := ?_, dI := hdig.1, dF := hdig.2, neI := hneI, neF := hneF, leadI := Or.inr ?_, trailF := Or.inr ?_,
                 negIff := hnegIff, value := ?_, scale := ?_, nz := ?_ }
        · unfold canonOf; rw [hcond]; simp only [Bool.false_eq_true, if_false]
          rw [if_neg c1, if_neg c2, hpre, ← hn, hdrop]; simp
        · have : (d.intVal.take n).head? = d.intVal.head? := by
            cases hv : d.intVal with
            | nil => exact absurd hv hne
            | cons a r =>
              cases n with
              | zero => omega
              | succ m => simp
          rw [this]; exact hd.lead (by omega)
        · have : (d.intVal.drop n).getLast? = d.intVal.getLast? := by
            rw [List.getLast?_drop]; simp; omega
          rw [this]; exact hd.trail (by omega)
        · rw [hIF]; simp
        · rw [List.length_drop, hd.len]; omega
        · intro _; rw [hIF]; exact hpos

theorem digit_not_ws (c : Char) (h : isDigit c = true) : isWs c = false := by
  rw [isDigit_iff] at h
  unfold isWs
  have e1 : (c == ' ') = false := by
    apply Bool.eq_false_iff.mpr; intro e; rw [beq_iff_eq] at e; subst e; revert h; decide
  have e2 : (c == '\t') = false := by
    apply Bool.eq_false_iff.mpr; intro e; rw [beq_iff_eq] at e; subst e; revert h; decide
  have e3 : (c == '\n') = false := by
    apply Bool.eq_false_iff.mpr; intro e; rw [beq_iff_eq] at e; subst e; revert h; decide
  have e4 : (c == '\r') = false := by
    apply Bool.eq_false_iff.mpr; intro e; rw [beq_iff_eq] at e; subst e; revert h; decide
  simp [e1, e2, e3, e4]

theorem dropWhile_id_of_head {α} (p : α → Bool) (c : α) (r : List α) (h : p c = false) :
    (c :: r).dropWhile p = c :: r := by
  rw [List.dropWhile_cons_of_neg (by simp [h])]

/-- a string that starts and ends with a non-space is its own trim -/
theorem trim_id (c0 : Char) (mid : List Char) (cl : Char) (h0 : isWs c0 = false) (hl : isWs cl = false) :
    trimWs (c0 :: (mid ++ [cl])) = c0 :: (mid ++ [cl]) := by
  unfold trimWs
  rw [dropWhile_id_of_head isWs c0 _ h0]
  have : (c0 :: (mid ++ [cl])).reverse = cl :: (mid.reverse ++ [c0]) := by simp
  rw [this, dropWhile_id_of_head isWs cl _ hl]
  simp

theorem canon_trim (d : BigDecimal) (neg : Bool) (I F : List Char) (u : Nat) (h : CanonShape d neg I F u) :
    trimWs (canonOf d) = canonOf d ∧ canonOf d ≠ [] := by
  rw [h.eq]
  -- last element
  obtain ⟨F', fl, hF⟩ : ∃ F' fl, F = F' ++ [fl] := by
    have := List.dropLast_concat_getLast h.neF
    exact ⟨_, _, this.symm⟩
  have hfl : isWs fl = false := digit_not_ws fl (h.dF fl (by rw [hF]; simp))
  cases neg with
  | true =>
    have : (if true = true then ['-'] else []) ++ I ++ '.' :: F = '-' :: ((I ++ '.' :: F') ++ [fl]) := by
      rw [hF]; simp
    rw [this]
    exact ⟨trim_id '-' _ fl (by decide) hfl, by simp⟩
  | false =>
    cases hI : I with
    | nil => exact absurd hI h.neI
    | cons i0 I' =>
      have hi0 : isWs i0 = false := digit_not_ws i0 (h.dI i0 (by rw [hI]; simp))
      have : (if false = true then ['-'] else []) ++ (i0 :: I') ++ '.' :: F = i0 :: ((I' ++ '.' :: F') ++ [fl]) := by
        rw [hF]; simp
      rw [this]
      exact ⟨trim_id i0 _ fl hi0 hfl, by simp⟩

theorem canon_val (d : BigDecimal) (hd : Normal d) (neg : Bool) (I F : List Char) (u : Nat)
    (h : CanonShape d neg I F u) : val (canonOf d) = scaleUp (decVal d) u := by
  have hs := shape_spec neg I F h.dI h.neI
  simp only at hs
  rw [← h.eq] at hs
  obtain ⟨_, hneg, hip, _, hfp, _⟩ := hs
  unfold val scaleUp decVal
  rw [hneg, hip, hfp, h.value, h.scale]
  simp only
  congr 1
  cases neg with
  | true =>
    have := h.negIff.mp rfl
    rw [this]; push_cast; simp [Int.neg_mul]
  | false =>
    have hn : d.sign ≠ -1 := fun e => by have := h.negIff.mpr e; cases this
    rcases hd.sign with ⟨h0, ht⟩ | ⟨h1 | h1, _⟩
    · have hiv : d.intVal = [] := List.length_eq_zero_iff.mp (by rw [hd.len, ht])
      rw [h0, hiv]; simp [natOf]
    · rw [h1]; push_cast; simp
    · exact absurd h1 hn

theorem canon_lex (d : BigDecimal) (neg : Bool) (I F : List Char) (u : Nat) (h : CanonShape d neg I F u) :
    isDecimalLex (canonOf d) = true ∧ isCanonicalDecimal (canonOf d) = true := by
  have hs := shape_spec neg I F h.dI h.neI
  simp only at hs
  rw [← h.eq] at hs
  obtain ⟨_, hneg, hip, haf, hfp, hplus⟩ := hs
  have hl : isDecimalLex (canonOf d) = true := by
    unfold isDecimalLex
    rw [haf]; simp only
    rw [(allDigits_iff_all F).mp h.dF, hip]
    simp [h.neI]
  refine ⟨hl, ?_⟩
  unfold isCanonicalDecimal
  simp only
  have hpt : hasPoint (canonOf d) = true := by unfold hasPoint; rw [haf]; rfl
  rw [hl, hplus, hpt, hip, hfp, hneg]
  simp only [Bool.true_and, Bool.not_false, Bool.and_eq_true, Bool.not_eq_true', Bool.or_eq_true, beq_iff_eq, bne_iff_ne, ne_eq]
  refine ⟨⟨⟨⟨by simp [h.neI], by simp [h.neF]⟩, h.leadI⟩, h.trailF⟩, ?_⟩
  cases neg with
  | false => simp
  | true =>
    have := h.nz rfl
    simp; omega

/-- parsing the canonical form gives back the same decimal -/
theorem parse_canon (d : BigDecimal) (hd : Normal d) : parseDecimalG true (canonOf d) = .ok d := by
  obtain ⟨neg, I, F, u, h⟩ := canon_shape d hd
  obtain ⟨ht, hne⟩ := canon_trim d neg I F u h
  rw [parseG_of_body true _ (by rw [ht]; exact hne), ht]
  obtain ⟨d', hd'⟩ := (parseBody_lex (canonOf d) hne).mpr (canon_lex d neg I F u h).1
  obtain ⟨hn', t', hv'⟩ := parseBody_ok true _ d' hd'
  have hv := canon_val d hd neg I F u h
  have : cmpSpec (decVal d') (decVal d) = .eq := by
    rw [← cmpSpec_scaleUp (decVal d') (decVal d) t' u, ← hv', ← hv]; exact cmpSpec_refl _
  have h0 : toCompare d' d = 0 := by rw [toCompare_spec d' d hn' hd, this]; rfl
  rw [hd', toCompare_eq_zero d' d hn' hd h0]

theorem all_scan_test (l : List Char) :
    l.all (fun c => !(c.toNat < '0'.toNat || c.toNat > '9'.toNat)) = l.all isDigit := by
  congr 1; funext c; rw [scan_test]; simp

theorem all_digits_split (l : List Char) (h : l.all isDigit = true) :
    l.takeWhile isDigit = l ∧ l.dropWhile isDigit = [] := by
  induction l with
  | nil => simp
  | cons c r ih =>
    simp only [List.all_cons, Bool.and_eq_true] at h
    rw [List.takeWhile_cons_of_pos h.1, List.dropWhile_cons_of_pos h.1]
    exact ⟨by rw [(ih h.2).1], (ih h.2).2⟩

theorem not_all_digits (l : List Char) (h : l.all isDigit = false) : l.dropWhile isDigit ≠ [] := by
  induction l with
  | nil => simp at h
  | cons c r ih =>
    by_cases hc : isDigit c = true
    · rw [List.dropWhile_cons_of_pos hc]
      apply ih
      simpa [hc] using h
    · rw [List.dropWhile_cons_of_neg hc]; simp

/-- normal form of a parsed integer: sign and magnitude without leading zeros -/
structure NormalInt (r : Int × List Char) : Prop where
  digits : AllDigits r.2
  sign : (r.1 = 0 ∧ r.2 = []) ∨ ((r.1 = 1 ∨ r.1 = -1) ∧ r.2 ≠ [])
  lead : r.2.head? ≠ some '0'

theorem parseIntBody_spec (b : List Char) (hb : b ≠ []) :
    ((∃ r, parseIntBody b = .ok r) ↔ isIntegerLex b = true) ∧
    (∀ r, parseIntBody b = .ok r → NormalInt r ∧ intVal b = r.1 * ((natOf r.2 : Nat) : Int)) := by
  obtain ⟨sg, seen, hts, hsg, hneg, hunseen⟩ := takeSign_spec b
  obtain ⟨k, hk, hhead, hip, haf⟩ := spec_parts b
  obtain ⟨b2, hb2⟩ : ∃ b2, b2 = (unsigned b).dropWhile isZeroCh := ⟨_, rfl⟩
  rw [← hb2] at hk hhead hip haf
  have hform : parseIntBody b =
      if seen && (unsigned b).isEmpty then .error .invChars
      else if b2.isEmpty then .ok (0, [])
      else if b2.all isDigit then .ok (sg, b2) else .error .invChars := by
    unfold parseIntBody; rw [hts]; simp only; rw [← hb2, all_scan_test]
  unfold isIntegerLex
  rw [hform, hip, haf]
  by_cases c1 : (seen && (unsigned b).isEmpty) = true
  · rw [if_pos c1]
    have e1 : unsigned b = [] := by simp at c1; exact c1.2
    have : zeros k ++ b2 = [] := by rw [← hk, e1]
    have ek : zeros k = [] := (List.append_eq_nil_iff.mp this).1
    have eb : b2 = [] := (List.append_eq_nil_iff.mp this).2
    rw [eb, ek]
    exact ⟨by simp, fun r h => by cases h⟩
  · rw [if_neg c1]
    by_cases c3 : b2.isEmpty = true
    · rw [if_pos c3]
      have eb : b2 = [] := by simpa using c3
      have hk' : unsigned b = zeros k := by rw [hk, eb]; simp
      have hz : zeros k ≠ [] := by
        intro ez
        rw [ez] at hk'
        cases hsn : seen with
        | true => rw [hsn, hk'] at c1; simp at c1
        | false =>
          rcases hunseen hsn with h | ⟨c, r, hbc, _, _, hu⟩
          · exact hb h
          · rw [hu] at hk'; exact hb hk'
      rw [eb]
      refine ⟨by simp [hz], ?_⟩
      intro r h; injection h with h; subst h
      refine ⟨⟨(fun c hc => by cases hc), Or.inl ⟨rfl, rfl⟩, (by simp)⟩, ?_⟩
      unfold intVal; rw [hip, eb]
      simp only [List.takeWhile_nil, List.append_nil]
      rw [zeros, natOf_replicate_zero]; simp
    · rw [if_neg c3]
      have hne : b2 ≠ [] := by simpa using c3
      cases hall : b2.all isDigit with
      | true =>
        obtain ⟨t1, t2⟩ := all_digits_split b2 hall
        rw [t1, t2]
        simp only [if_true]
        refine ⟨by simp [hne], ?_⟩
        intro r h; injection h with h; subst h
        refine ⟨⟨(allDigits_iff_all b2).mpr hall, Or.inr ⟨hsg, hne⟩, hhead⟩, ?_⟩
        unfold intVal; rw [hip, t1, natOf_zeros_append]
        simp only
        rcases hsg with hs | hs
        · have : isNeg b = false := by
            cases hn : isNeg b with
            | false => rfl
            | true => have := hneg.mpr hn; rw [hs] at this; cases this
          rw [this, hs]; simp
        · rw [hneg.mp hs, hs]; simp
      | false =>
        have := not_all_digits b2 hall
        simp only [Bool.false_eq_true, if_false]
        refine ⟨?_, fun r h => by cases h⟩
        constructor
        · rintro ⟨r, h⟩; cases h
        · intro h; simp [this] at h

theorem parseInt_unfold (s : List Char) :
    parseBigInteger s =
      if s.isEmpty then .error .emptyString
      else if (s.dropWhile isWs).isEmpty then .error .wsString
      else parseIntBody (trimWs s) := rfl

theorem parseInt_ok (s : List Char) (r : Int × List Char) (h : parseBigInteger s = .ok r) :
    parseIntBody (trimWs s) = .ok r ∧ trimWs s ≠ [] := by
  rw [parseInt_unfold] at h
  split at h
  · cases h
  · split at h
    · cases h
    · rename_i h2
      exact ⟨h, trim_ne_nil s (by simpa using h2)⟩

theorem parseInt_of_body (s : List Char) (ht : trimWs s ≠ []) : parseBigInteger s = parseIntBody (trimWs s) := by
  rw [parseInt_unfold]
  have h1 : s ≠ [] := by intro e; rw [e] at ht; exact ht rfl
  have h2 : s.dropWhile isWs ≠ [] := by
    intro e; unfold trimWs at ht; rw [e] at ht; exact ht rfl
  rw [if_neg (by simpa using h1), if_neg (by simpa using h2)]

/-- a parsed integer as a decimal with scale 0 -/
def asDec (r : Int × List Char) : BigDecimal := ⟨r.1, r.2, r.2.length, 0⟩

theorem asDec_normal (r : Int × List Char) (h : NormalInt r) : Normal (asDec r) where
  digits := h.digits
  len := rfl
  scale_le := Nat.zero_le _
  sign := by
    rcases h.sign with ⟨h1, h2⟩ | ⟨h1, h2⟩
    · left; exact ⟨h1, by simp [asDec, h2]⟩
    · right; exact ⟨h1, by simp only [asDec]; exact List.length_pos_iff.mpr h2⟩
  lead := fun _ => h.lead
  trail := fun h0 => by simp [asDec] at h0

theorem compareValuesInt_eq (l r : Int × List Char) (hl : NormalInt l) :
    compareValuesInt l r = toCompare (asDec l) (asDec r) := by
  unfold compareValuesInt toCompare asDec
  simp only [Nat.sub_zero]
  have sl : l.1 = 0 ∨ l.1 = 1 ∨ l.1 = -1 := by
    rcases hl.sign with ⟨h, _⟩ | ⟨h | h, _⟩ <;> simp [h]
  by_cases h1 : l.1 ≠ r.1
  · rw [if_pos h1, if_pos h1]
  · rw [if_neg h1, if_neg h1]
    by_cases h2 : l.1 = 0
    · rw [if_pos h2, if_pos h2]
    · rw [if_neg h2, if_neg h2]
      rcases sl with h | h | h
      · exact absurd h h2
      · rw [h]; simp
      · rw [h]; simp

/-! ### digits facets -/

theorem natOf_mod10 (l : List Char) (hne : l ≠ []) (hd : AllDigits l) (hl : l.getLast? ≠ some '0') :
    natOf l % 10 ≠ 0 := by
  have hsplit := List.dropLast_concat_getLast hne
  have hlast : isDigit (l.getLast hne) = true := hd _ (List.getLast_mem hne)
  have hnz : l.getLast hne ≠ '0' := by
    intro e; apply hl; rw [List.getLast?_eq_some_getLast hne, e]
  rw [← hsplit, natOf_append]
  have h1 := digitVal_lt _ hlast
  have h2 : digitVal (l.getLast hne) ≠ 0 := fun e => hnz ((digitVal_eq_zero _ hlast).mp e)
  simp only [List.length_singleton, Nat.pow_one]
  have : natOf [l.getLast hne] = digitVal (l.getLast hne) := by simp [natOf]
  rw [this]; omega

/-- a normal decimal cannot be written with fewer fraction digits -/
theorem scale_minimal (d : BigDecimal) (hd : Normal d) (i : Int) (n : Nat)
    (h : valEq (decVal d) (i, n)) : d.scale ≤ n := by
  by_cases hk : d.scale ≤ n
  · exact hk
  · exfalso
    have hpos : 0 < d.scale := by omega
    obtain ⟨j, hj⟩ : ∃ j, d.scale = n + (j + 1) := ⟨d.scale - n - 1, by omega⟩
    unfold valEq decVal at h
    simp only at h
    -- m * 10^n = i * 10^(n+j+1)  ⇒  m = i * 10^j * 10
    have e : i * 10 ^ d.scale = (i * 10 ^ j * 10) * 10 ^ n := by
      rw [hj, Int.pow_add, Int.pow_succ]; ac_rfl
    rw [e] at h
    have hm := Int.eq_of_mul_eq_mul_right (Int.ne_of_gt (pow10_pos n)) h
    have hne : d.intVal ≠ [] := by
      intro e; have := hd.len; rw [e] at this; have := hd.scale_le; simp at *; omega
    have hmod := natOf_mod10 _ hne hd.digits (hd.trail hpos)
    have hs : d.sign = 1 ∨ d.sign = -1 := by
      rcases hd.sign with ⟨_, h0⟩ | ⟨h1, _⟩
      · have := hd.scale_le; omega
      · exact h1
    obtain ⟨P, hP⟩ : ∃ P : Int, P = i * 10 ^ j := ⟨_, rfl⟩
    rw [← hP] at hm
    rcases hs with h1 | h1 <;> rw [h1] at hm <;> omega

theorem valEq_scaleUp (a : Int × Nat) (t : Nat) (i : Int) (n : Nat) :
    valEq (scaleUp a t) (i, n) ↔ valEq a (i, n) := by
  unfold valEq scaleUp
  simp only
  have e1 : a.1 * 10 ^ t * 10 ^ n = (a.1 * 10 ^ n) * 10 ^ t := by ac_rfl
  have e2 : i * 10 ^ (a.2 + t) = (i * 10 ^ a.2) * 10 ^ t := by rw [Int.pow_add]; ac_rfl
  rw [e1, e2]
  constructor
  · intro h; exact Int.eq_of_mul_eq_mul_right (Int.ne_of_gt (pow10_pos t)) h
  · intro h; rw [h]

theorem fractionDigits_spec (d : BigDecimal) (hd : Normal d) (t fd : Nat) :
    d.scale ≤ fd ↔ fractionDigitsOk (scaleUp (decVal d) t) fd := by
  constructor
  · intro h
    refine ⟨(decVal d).1, d.scale, ?_, h⟩
    rw [valEq_scaleUp]; unfold valEq decVal; rfl
  · rintro ⟨i, n, hv, hn⟩
    rw [valEq_scaleUp] at hv
    have := scale_minimal d hd i n hv
    omega

theorem totalDigits_spec (d : BigDecimal) (hd : Normal d) (t td : Nat) :
    d.totalDigits ≤ td ↔ totalDigitsOk (scaleUp (decVal d) t) td := by
  constructor
  · intro h
    refine ⟨(decVal d).1, d.scale, ?_, ?_, ?_⟩
    · rw [valEq_scaleUp]; unfold valEq decVal; rfl
    · have h1 := natOf_lt _ hd.digits
      rw [hd.len] at h1
      have h2 : 10 ^ d.totalDigits ≤ 10 ^ td := Nat.pow_le_pow_right (by omega) h
      unfold decVal; simp only
      have h3 : (d.sign * ((natOf d.intVal : Nat) : Int)).natAbs ≤ natOf d.intVal := by
        rcases hd.sign with ⟨h0, _⟩ | ⟨h0 | h0, _⟩ <;> rw [h0] <;> simp
      omega
    · have := hd.scale_le; omega
  · rintro ⟨i, n, hv, hi, hn⟩
    rw [valEq_scaleUp] at hv
    have hk := scale_minimal d hd i n hv
    by_cases hc : d.scale < d.totalDigits
    · -- integer digits present: |i| = natOf iv * 10^(n-k) ≥ 10^(total-1)
      obtain ⟨j, hj⟩ : ∃ j, n = d.scale + j := ⟨n - d.scale, by omega⟩
      unfold valEq decVal at hv
      simp only at hv
      have e : d.sign * ((natOf d.intVal : Nat) : Int) * 10 ^ n = (d.sign * ((natOf d.intVal : Nat) : Int) * 10 ^ j) * 10 ^ d.scale := by
        rw [hj, Int.pow_add]; ac_rfl
      rw [e] at hv
      have hi' := Int.eq_of_mul_eq_mul_right (Int.ne_of_gt (pow10_pos d.scale)) hv
      have hne : d.intVal ≠ [] := by
        intro e; have := hd.len; rw [e] at this; simp at this; omega
      have hge := natOf_ge_of_head _ hne hd.digits (hd.lead hc)
      rw [hd.len] at hge
      have hs : d.sign = 1 ∨ d.sign = -1 := by
        rcases hd.sign with ⟨_, h0⟩ | ⟨h1, _⟩
        · omega
        · exact h1
      have habs : natOf d.intVal ≤ i.natAbs := by
        rw [← hi']
        have hp : 1 ≤ 10 ^ j := Nat.pow_pos (by omega)
        have : natOf d.intVal * 1 ≤ natOf d.intVal * 10 ^ j := Nat.mul_le_mul_left _ hp
        rcases hs with h1 | h1 <;> rw [h1] <;> simp [Int.natAbs_mul, Int.natAbs_pow] <;> omega
      have : 10 ^ (d.totalDigits - 1) < 10 ^ td := by omega
      have := (Nat.pow_lt_pow_iff_right (by omega : 1 < 10)).mp this
      omega
    · have := hd.scale_le; omega


/-! ### canonical form of integers -/

theorem trim_id' (l : List Char) (hne : l ≠ []) (hh : ∀ c, l.head? = some c → isWs c = false)
    (hl : ∀ c, l.getLast? = some c → isWs c = false) : trimWs l = l := by
  unfold trimWs
  cases h1 : l with
  | nil => exact absurd h1 hne
  | cons a r =>
    rw [dropWhile_id_of_head isWs a r (hh a (by rw [h1]; rfl))]
    cases h2 : (a :: r).reverse with
    | nil => simp at h2
    | cons z r' =>
      have hz : (a :: r).getLast? = some z := by
        rw [← List.head?_reverse, h2]; rfl
      rw [dropWhile_id_of_head isWs z r' (hl z (by rw [h1]; exact hz)), ← h2, List.reverse_reverse]

theorem dropZeros_id (m : List Char) (h : m.head? ≠ some '0') : m.dropWhile isZeroCh = m := by
  cases m with
  | nil => rfl
  | cons a r =>
    have : a ≠ '0' := fun e => h (by rw [e]; rfl)
    rw [List.dropWhile_cons_of_neg (by unfold isZeroCh; rw [beq_iff_eq]; exact this)]

theorem parseInt_canon (sg : Int) (m : List Char) (hn : NormalInt (sg, m)) (hs : sg ≠ 0) :
    parseBigInteger ((if sg = -1 then ['-'] else []) ++ m) = .ok (sg, m) := by
  have hm : m ≠ [] := by
    rcases hn.sign with ⟨h, _⟩ | ⟨_, h⟩
    · exact absurd h hs
    · exact h
  have hsg : sg = 1 ∨ sg = -1 := by
    rcases hn.sign with ⟨h, _⟩ | ⟨h, _⟩
    · exact absurd h hs
    · exact h
  have hall : m.all isDigit = true := (allDigits_iff_all m).mp hn.digits
  have hlastws : ∀ c, m.getLast? = some c → isWs c = false := fun c hc =>
    digit_not_ws c (hn.digits c (List.mem_of_getLast? hc))
  have hz := dropZeros_id m hn.lead
  rcases hsg with h | h
  · subst h
    simp only [show ¬ ((1 : Int) = -1) by decide, if_false, List.nil_append]
    have ht : trimWs m = m := trim_id' m hm
      (fun c hc => digit_not_ws c (hn.digits c (List.mem_of_mem_head? hc))) hlastws
    rw [parseInt_of_body m (by rw [ht]; exact hm), ht]
    cases hm' : m with
    | nil => exact absurd hm' hm
    | cons a r =>
      have ha := digit_not_sign a (hn.digits a (by rw [hm']; simp))
      unfold parseIntBody
      rw [takeSign_other a r ha.1 ha.2, ← hm']
      simp only [Bool.false_and, Bool.false_eq_true, if_false]
      rw [hz, all_scan_test, hall]
      simp [hm]
  · subst h
    simp only [if_true, List.singleton_append]
    have ht : trimWs ('-' :: m) = '-' :: m := trim_id' _ (by simp)
      (fun c hc => by simp at hc; rw [← hc]; decide)
      (fun c hc => by
        have : ('-' :: m).getLast? = m.getLast? := by
          cases hm' : m with
          | nil => exact absurd hm' hm
          | cons a r => simp [List.getLast?_cons_cons]
        rw [this] at hc; exact hlastws c hc)
    rw [parseInt_of_body _ (by rw [ht]; simp), ht]
    unfold parseIntBody
    rw [takeSign_minus]
    simp only
    rw [hz, all_scan_test, hall]
    simp [hm]


end XV.Lemmas.Decimal
