/-
C19 — lemmas about the entity-expansion model (XV.Model.Entity) and its Spec (XV.Spec.Entity).
-/
import XV.Model.Entity
namespace XV.Lemmas.Entity
open XV.Spec.Entity XV.Model.Entity

/-! ### Spec facts -/

theorem get_mem_names {tbl : Table} {n : Name} {v : Text} (h : tbl.get n = some v) : n ∈ names tbl := by
  induction tbl with
  | nil => simp [Table.get] at h
  | cons p rest ih =>
    obtain ⟨m, w⟩ := p
    simp only [Table.get] at h
    by_cases hm : m = n
    · simp [names, hm]
    · simp only [hm, if_false] at h
      have := ih h
      simp [names] at this ⊢
      exact Or.inr this

theorem expands_det {tbl : Table} {cs : Bool} {t : Text} {o o' : List Nat} {k k' : Nat}
    (h : Expands tbl cs t o k) (h' : Expands tbl cs t o' k') : o = o' ∧ k = k' := by
  induction h generalizing o' k' with
  | nil => cases h'; exact ⟨rfl, rfl⟩
  | ch _ ih => cases h' with | ch h2 => obtain ⟨a, b⟩ := ih h2; exact ⟨by rw [a], b⟩
  | special _ ih => cases h' with | special h2 => obtain ⟨a, b⟩ := ih h2; exact ⟨by rw [a], by rw [b]⟩
  | ref hg _ _ ih1 ih2 =>
    cases h' with
    | ref hg' h1' h2' =>
      rw [hg] at hg'; cases hg'
      obtain ⟨a1, b1⟩ := ih1 h1'
      obtain ⟨a2, b2⟩ := ih2 h2'
      exact ⟨by rw [a1, a2], by rw [b1, b2]⟩

theorem expands_append {tbl : Table} {cs : Bool} {t1 t2 : Text} {o1 o2 : List Nat} {k1 k2 : Nat}
    (h1 : Expands tbl cs t1 o1 k1) (h2 : Expands tbl cs t2 o2 k2) :
    Expands tbl cs (t1 ++ t2) (o1 ++ o2) (k1 + k2) := by
  induction h1 with
  | nil => simpa using h2
  | ch _ ih => exact .ch ih
  | @special c t o k _ ih =>
    have := Expands.special (c := c) ih
    rw [show k + spw cs + k2 = k + k2 + spw cs by omega]
    exact this
  | @ref n v t oa ka ob kb hg ha _ _ ih2 =>
    have := Expands.ref hg ha ih2
    rw [show ka + kb + 1 + k2 = ka + (kb + k2) + 1 by omega, List.append_assoc]
    exact this

theorem expands_split {tbl : Table} {cs : Bool} {t1 t2 : Text} {o : List Nat} {k : Nat}
    (h : Expands tbl cs (t1 ++ t2) o k) :
    ∃ o1 k1 o2 k2, Expands tbl cs t1 o1 k1 ∧ Expands tbl cs t2 o2 k2 ∧ o = o1 ++ o2 ∧ k = k1 + k2 := by
  induction t1 generalizing o k with
  | nil => exact ⟨[], 0, o, k, .nil, by simpa using h, by simp, by simp⟩
  | cons it rest ih =>
    cases it with
    | ch c =>
      cases h with
      | ch h' =>
        obtain ⟨o1, k1, o2, k2, a, b, c1, d⟩ := ih h'
        exact ⟨c :: o1, k1, o2, k2, .ch a, b, by simp [c1], d⟩
    | special c =>
      cases h with
      | special h' =>
        obtain ⟨o1, k1, o2, k2, a, b, c1, d⟩ := ih h'
        exact ⟨c :: o1, k1 + spw cs, o2, k2, .special a, b, by simp [c1], by omega⟩
    | ref n =>
      cases h with
      | ref hg hv h' =>
        obtain ⟨o1, k1, o2, k2, a, b, c1, d⟩ := ih h'
        exact ⟨_, _, o2, k2, .ref hg hv a, b, by simp [c1], by omega⟩

/-- every entity referenced in an expandable text is declared and expandable with a strictly smaller count -/
theorem expands_ref_mem {tbl : Table} {cs : Bool} {t : Text} {o : List Nat} {k : Nat} {n : Name}
    (h : Expands tbl cs t o k) (hn : n ∈ refs t) :
    ∃ v o' k', tbl.get n = some v ∧ Expands tbl cs v o' k' ∧ k' < k := by
  induction h with
  | nil => simp [refs] at hn
  | ch _ ih => exact ih (by simpa [refs] using hn)
  | special _ ih =>
    obtain ⟨v, o', k', a, b, c⟩ := ih (by simpa [refs] using hn)
    exact ⟨v, o', k', a, b, by omega⟩
  | @ref m v t o1 k1 o2 k2 hg h1 _ _ ih2 =>
    simp only [refs, List.mem_cons] at hn
    rcases hn with rfl | hn
    · exact ⟨v, o1, k1, hg, h1, by omega⟩
    · obtain ⟨v', o', k', a, b, c⟩ := ih2 hn
      exact ⟨v', o', k', a, b, by omega⟩

theorem chain_count {tbl : Table} {cs : Bool} {t : Text} {c : List Name} (hc : Chain tbl t c) :
    ∀ {o : List Nat} {k : Nat}, Expands tbl cs t o k →
      ∀ n ∈ c, ∃ v o' k', tbl.get n = some v ∧ Expands tbl cs v o' k' ∧ k' < k := by
  induction hc with
  | one hn =>
    intro o k h n hmem
    simp only [List.mem_singleton] at hmem
    subst hmem
    exact expands_ref_mem h hn
  | @cons t m v c hn hg _ ih =>
    intro o k h n hmem
    obtain ⟨v', o', k', a, b, lt⟩ := expands_ref_mem h hn
    rw [hg] at a; cases a
    simp only [List.mem_cons] at hmem
    rcases hmem with rfl | hmem
    · exact ⟨v, o', k', hg, b, lt⟩
    · obtain ⟨v2, o2, k2, a2, b2, lt2⟩ := ih b n hmem
      exact ⟨v2, o2, k2, a2, b2, by omega⟩

/-- a text from which a self-referential entity is reachable has no finite expansion -/
theorem selfRef_not_expands {tbl : Table} {cs : Bool} {t : Text} {n : Name} (h : SelfRef tbl t n) :
    ¬ ∃ o k, Expands tbl cs t o k := by
  rintro ⟨o, k, he⟩
  obtain ⟨p, q, v, c1, hg, c2⟩ := h
  obtain ⟨v1, o1, k1, a1, b1, _⟩ := chain_count c1 he n (by simp)
  rw [hg] at a1; cases a1
  obtain ⟨v2, o2, k2, a2, b2, lt2⟩ := chain_count c2 b1 n (by simp)
  rw [hg] at a2; cases a2
  have := (expands_det b1 b2).2
  omega

/-! ### generic facts about the scanning loop -/

theorem scanItems_stuck (cfg : Cfg) (tbl : Table) (content : Bool) (recur) (below top) (t : Text) (st : St)
    (h : st.err.isSome = true) : scanItems cfg tbl content recur below top t st = st := by
  cases t with
  | nil => rfl
  | cons it rest => simp [scanItems, h]

theorem scan_stuck (cfg : Cfg) (tbl : Table) (content : Bool) (f : Nat) (below top) (t : Text) (st : St)
    (h : st.err.isSome = true) : scan cfg tbl content (f + 1) below top t st = st := by
  simp only [scan]; exact scanItems_stuck _ _ _ _ _ _ _ _ h

theorem isSome_of_ne_none {α} {o : Option α} (h : o ≠ none) : o.isSome = true := by
  cases o with
  | none => exact absurd rfl h
  | some _ => rfl

section eqs
variable (cfg : Cfg) (tbl : Table) (content : Bool) (recur : List Name → Option Name → Text → St → St)
  (below : List Name) (top : Option Name)

theorem scanItems_ch {st : St} (h : st.err = none) (c : Nat) (rest : Text) :
    scanItems cfg tbl content recur below top (.ch c :: rest) st =
      scanItems cfg tbl content recur below top rest { st with outRev := c :: st.outRev } := by
  simp [scanItems, h]

theorem scanItems_special_cs {st : St} (h : st.err = none) (hcs : cfg.countSpecial = true) (c : Nat) (rest : Text) :
    scanItems cfg tbl content recur below top (.special c :: rest) st =
      if overLimit cfg (st.count + 1) = true then { st with count := st.count + 1, err := some .limit }
      else scanItems cfg tbl content recur below top rest { st with count := st.count + 1, outRev := c :: st.outRev } := by
  simp [scanItems, h, hcs]

theorem scanItems_special_ncs {st : St} (h : st.err = none) (hcs : cfg.countSpecial = false) (c : Nat) (rest : Text) :
    scanItems cfg tbl content recur below top (.special c :: rest) st =
      scanItems cfg tbl content recur below top rest { st with outRev := c :: st.outRev } := by
  simp [scanItems, h, hcs]

theorem scanItems_ref_none {st : St} (h : st.err = none) {n : Name} (hg : tbl.get n = none) (rest : Text) :
    scanItems cfg tbl content recur below top (.ref n :: rest) st = { st with err := some (.notFound n) } := by
  simp [scanItems, h, hg]

theorem scanItems_ref_rec {st : St} (h : st.err = none) {n : Name} {v : Text} (hg : tbl.get n = some v)
    (hb : n ∈ below) (rest : Text) :
    scanItems cfg tbl content recur below top (.ref n :: rest) st = { st with err := some (.recursive n) } := by
  simp [scanItems, h, hg, hb]

theorem scanItems_ref_push {st : St} (h : st.err = none) {n : Name} {v : Text} (hg : tbl.get n = some v)
    (hb : n ∉ below) (rest : Text) :
    scanItems cfg tbl content recur below top (.ref n :: rest) st =
      if overLimit cfg (st.count + 1) = true then
        { st with pushes := st.pushes + 1, count := st.count + 1, err := some .limit }
      else scanItems cfg tbl content recur below top rest
        (recur (pushBelow below top) (some n) v
          { st with pushes := st.pushes + 1, count := st.count + 1, se := st.se + (if content then 1 else 0) }) := by
  simp [scanItems, h, hg, hb]
end eqs

theorem err_cases (st : St) : st.err = none ∨ st.err.isSome = true := by
  cases st.err with
  | none => exact Or.inl rfl
  | some _ => exact Or.inr rfl

/-- Induction principle for `scanItems`: a predicate on (state before, state after) that is reflexive, transitive
    through each kind of step, and holds for the recursive call. -/
theorem scanItems_rel (cfg : Cfg) (tbl : Table) (content : Bool) (recur) (below top)
    (R : St → St → Prop) (hrefl : ∀ s, R s s) (htrans : ∀ a b c, R a b → R b c → R a c)
    (hout : ∀ (s : St) (c : Nat), R s { s with outRev := c :: s.outRev })
    (hcnt : ∀ (s : St), R s { s with count := s.count + 1 })
    (hpush : ∀ (s : St), R s { s with pushes := s.pushes + 1, count := s.count + 1 })
    (hse : ∀ (s : St) (d : Nat), R s { s with se := s.se + d })
    (herr : ∀ (s : St) (e : Err), R s { s with err := some e })
    (hrec : ∀ b tp v s, s.err = none → R s (recur b tp v s)) :
    ∀ (t : Text) (st : St), R st (scanItems cfg tbl content recur below top t st) := by
  intro t
  induction t with
  | nil => intro st; exact hrefl st
  | cons it rest ih =>
    intro st
    rcases err_cases st with hnone | he
    · cases it with
      | ch c => rw [scanItems_ch _ _ _ _ _ _ hnone]; exact htrans _ _ _ (hout st c) (ih _)
      | special c =>
        cases hcs : cfg.countSpecial with
        | true =>
          rw [scanItems_special_cs _ _ _ _ _ _ hnone hcs]
          split
          · exact htrans _ _ _ (hcnt st) (herr _ _)
          · exact htrans _ _ _ (htrans _ _ _ (hcnt st) (hout _ c)) (ih _)
        | false =>
          rw [scanItems_special_ncs _ _ _ _ _ _ hnone hcs]
          exact htrans _ _ _ (hout st c) (ih _)
      | ref n =>
        cases hg : tbl.get n with
        | none => rw [scanItems_ref_none _ _ _ _ _ _ hnone hg]; exact herr _ _
        | some v =>
          by_cases hb : n ∈ below
          · rw [scanItems_ref_rec _ _ _ _ _ _ hnone hg hb]; exact herr _ _
          · rw [scanItems_ref_push _ _ _ _ _ _ hnone hg hb]
            split
            · exact htrans _ _ _ (hpush st) (herr _ _)
            · exact htrans _ _ _ (htrans _ _ _ (htrans _ _ _ (hpush st) (hse _ _))
                (hrec _ _ _ _ hnone)) (ih _)
    · rw [scanItems_stuck _ _ _ _ _ _ _ _ he]; exact hrefl st

theorem scan_rel (cfg : Cfg) (tbl : Table) (content : Bool)
    (R : St → St → Prop) (hrefl : ∀ s, R s s) (htrans : ∀ a b c, R a b → R b c → R a c)
    (hout : ∀ (s : St) (c : Nat), R s { s with outRev := c :: s.outRev })
    (hcnt : ∀ (s : St), R s { s with count := s.count + 1 })
    (hpush : ∀ (s : St), R s { s with pushes := s.pushes + 1, count := s.count + 1 })
    (hse : ∀ (s : St) (d : Nat), R s { s with se := s.se + d })
    (herr : ∀ (s : St) (e : Err), R s { s with err := some e }) :
    ∀ (fuel : Nat) (below top) (t : Text) (st : St), R st (scan cfg tbl content fuel below top t st) := by
  intro fuel
  induction fuel with
  | zero => intro below top t st; exact herr st .depth
  | succ f ih =>
    intro below top t st
    exact scanItems_rel cfg tbl content _ below top R hrefl htrans hout hcnt hpush hse herr
      (fun b tp v s _ => ih b tp v s) t st

/-- counters only grow, and every reader push is counted -/
def Grow (s s' : St) : Prop := s.count ≤ s'.count ∧ s.pushes ≤ s'.pushes ∧ s'.pushes + s.count ≤ s'.count + s.pushes

theorem scan_grow (cfg : Cfg) (tbl : Table) (content : Bool) (fuel : Nat) (below top) (t : Text) (st : St) :
    Grow st (scan cfg tbl content fuel below top t st) := by
  apply scan_rel cfg tbl content Grow
  · intro s; refine ⟨?_, ?_, ?_⟩ <;> omega
  · intro a b c ⟨h1, h2, h3⟩ ⟨g1, g2, g3⟩; exact ⟨by omega, by omega, by omega⟩
  · intro s c; refine ⟨?_, ?_, ?_⟩ <;> simp only [] <;> omega
  · intro s; refine ⟨?_, ?_, ?_⟩ <;> simp only [] <;> omega
  · intro s; refine ⟨?_, ?_, ?_⟩ <;> simp only [] <;> omega
  · intro s d; refine ⟨?_, ?_, ?_⟩ <;> simp only [] <;> omega
  · intro s e; refine ⟨?_, ?_, ?_⟩ <;> simp only [] <;> omega

/-! ### termination: the reader stack never gets deeper than `2·|table| + 1` -/

/-- declared names (with multiplicity) that are not on the stack -/
def cnt : List Name → List Name → Nat
  | [], _ => 0
  | d :: rest, S => (if d ∈ S then 0 else 1) + cnt rest S

theorem cnt_nil (D : List Name) : cnt D [] = D.length := by
  induction D with
  | nil => rfl
  | cons d rest ih => simp [cnt, ih]; omega

theorem cnt_cons_mem {D S : List Name} {n : Name} (h : n ∈ S) : cnt D (n :: S) = cnt D S := by
  induction D with
  | nil => rfl
  | cons d rest ih =>
    simp only [cnt, ih, List.mem_cons]
    by_cases hd : d = n
    · subst hd; simp [h]
    · simp [hd]

theorem cnt_cons_le (D S : List Name) (n : Name) : cnt D (n :: S) ≤ cnt D S := by
  induction D with
  | nil => simp [cnt]
  | cons d rest ih =>
    simp only [cnt, List.mem_cons]
    by_cases h1 : d = n <;> by_cases h2 : d ∈ S <;> simp [h1, h2] <;> omega

theorem cnt_cons_lt {D S : List Name} {n : Name} (hD : n ∈ D) (hS : n ∉ S) : cnt D (n :: S) < cnt D S := by
  induction D with
  | nil => simp at hD
  | cons d rest ih =>
    simp only [cnt, List.mem_cons]
    by_cases hd : d = n
    · subst hd
      have := cnt_cons_le rest S d
      simp [hS]; omega
    · have hmem : n ∈ rest := by
        simp only [List.mem_cons] at hD
        rcases hD with h | h
        · exact absurd h.symm hd
        · exact h
      have ih' := ih hmem
      by_cases h2 : d ∈ S <;> simp [hd, h2] <;> omega

/-- the measure: twice the number of declared names not on the stack, plus one if the current reader's own
    entity is not below itself (such a "fresh" top can still be pushed once more: the skipped top-of-stack test) -/
def measure (tbl : Table) (below : List Name) (top : Option Name) : Nat :=
  2 * cnt (names tbl) (pushBelow below top) +
    (match top with
     | some t => if t ∈ below then 0 else 1
     | none => 0)

theorem measure_push {tbl : Table} {below : List Name} {top : Option Name} {n : Name} {v : Text}
    (hg : tbl.get n = some v) (hb : n ∉ below) :
    measure tbl (pushBelow below top) (some n) < measure tbl below top := by
  have hD := get_mem_names hg
  unfold measure
  cases top with
  | none =>
    simp only [pushBelow, hb, if_false]
    have := cnt_cons_lt hD hb
    omega
  | some t =>
    simp only [pushBelow]
    by_cases ht : t ∈ below
    · have hnt : n ≠ t := fun h => hb (h ▸ ht)
      have hS : n ∉ t :: below := by simp [hnt, hb]
      have := cnt_cons_lt hD hS
      simp only [hS, ht, if_true, if_false]
      omega
    · simp only [ht, if_false]
      by_cases hnt : n = t
      · have hS : n ∈ t :: below := by simp [hnt]
        rw [cnt_cons_mem hS]
        simp only [hS, if_true]
        omega
      · have hS : n ∉ t :: below := by simp [hnt, hb]
        have := cnt_cons_lt hD hS
        simp only [hS, if_false]
        omega

theorem scanItems_no_depth (cfg : Cfg) (tbl : Table) (content : Bool) (recur) (below top)
    (hrec : ∀ n v s, tbl.get n = some v → n ∉ below → s.err ≠ some .depth →
      (recur (pushBelow below top) (some n) v s).err ≠ some .depth) :
    ∀ (t : Text) (st : St), st.err ≠ some .depth →
      (scanItems cfg tbl content recur below top t st).err ≠ some .depth := by
  intro t
  induction t with
  | nil => intro st h; exact h
  | cons it rest ih =>
    intro st h
    rcases err_cases st with hnone | he
    · cases it with
      | ch c => rw [scanItems_ch _ _ _ _ _ _ hnone]; exact ih _ (by simpa using h)
      | special c =>
        cases hcs : cfg.countSpecial with
        | true =>
          rw [scanItems_special_cs _ _ _ _ _ _ hnone hcs]
          split
          · simp
          · exact ih _ (by simpa using h)
        | false =>
          rw [scanItems_special_ncs _ _ _ _ _ _ hnone hcs]
          exact ih _ (by simpa using h)
      | ref n =>
        cases hg : tbl.get n with
        | none => rw [scanItems_ref_none _ _ _ _ _ _ hnone hg]; simp
        | some v =>
          by_cases hb : n ∈ below
          · rw [scanItems_ref_rec _ _ _ _ _ _ hnone hg hb]; simp
          · rw [scanItems_ref_push _ _ _ _ _ _ hnone hg hb]
            split
            · simp
            · exact ih _ (hrec n v _ hg hb (by simp [hnone]))
    · rw [scanItems_stuck _ _ _ _ _ _ _ _ he]; exact h

theorem scan_no_depth (cfg : Cfg) (tbl : Table) (content : Bool) :
    ∀ (fuel : Nat) (below top) (t : Text) (st : St), measure tbl below top < fuel → st.err ≠ some .depth →
      (scan cfg tbl content fuel below top t st).err ≠ some .depth := by
  intro fuel
  induction fuel with
  | zero => intro below top t st h; omega
  | succ f ih =>
    intro below top t st hm hst
    simp only [scan]
    apply scanItems_no_depth
    · intro n v s hg hb hs
      exact ih _ _ _ _ (by have := measure_push (top := top) hg hb; omega) hs
    · exact hst

theorem measure_doc (tbl : Table) : measure tbl [] none < fuelFor tbl := by
  simp [measure, pushBelow, cnt_nil, names, fuelFor]

/-! ### the model computes the declarative expansion -/

theorem overLimit_none {cfg : Cfg} (h : cfg.limit = none) (c : Nat) : overLimit cfg c = false := by
  simp [overLimit, h]

theorem overLimit_some {cfg : Cfg} {l : Nat} (h : cfg.limit = some l) (c : Nat) : overLimit cfg c = decide (c > l) := by
  simp [overLimit, h]

/-- every entity on the reader stack is declared and has an expansion needing at least `k` steps -/
def OnStack (tbl : Table) (cs : Bool) (S : List Name) (k : Nat) : Prop :=
  ∀ m ∈ S, ∃ v o' k', tbl.get m = some v ∧ Expands tbl cs v o' k' ∧ k ≤ k'

theorem OnStack.mono {tbl cs S k k'} (h : OnStack tbl cs S k) (hk : k' ≤ k) : OnStack tbl cs S k' := by
  intro m hm
  obtain ⟨v, o, k2, a, b, c⟩ := h m hm
  exact ⟨v, o, k2, a, b, by omega⟩

theorem scan_succ (cfg : Cfg) (tbl : Table) (content : Bool) (f : Nat) (below top) (t : Text) (st : St) :
    scan cfg tbl content (f + 1) below top t st = scanItems cfg tbl content (scan cfg tbl content f) below top t st := rfl

theorem scan_of_expands {tbl : Table} {cs : Bool} {t : Text} {o : List Nat} {k : Nat} (h : Expands tbl cs t o k) :
    ∀ (cfg : Cfg) (content : Bool) (fuel : Nat) (below : List Name) (top : Option Name) (st : St),
      cfg.limit = none → cfg.countSpecial = cs → st.err = none → OnStack tbl cs (pushBelow below top) k →
      (scan cfg tbl content fuel below top t st).err = some .depth ∨
      ((scan cfg tbl content fuel below top t st).err = none ∧
       (scan cfg tbl content fuel below top t st).outRev = o.reverse ++ st.outRev ∧
       (scan cfg tbl content fuel below top t st).count = st.count + k) := by
  induction h with
  | nil =>
    intro cfg content fuel below top st _ _ hst _
    cases fuel with
    | zero => left; rfl
    | succ f => right; simp [scan, scanItems, hst]
  | @ch c t o k _ ih =>
    intro cfg content fuel below top st hl hc hst hon
    cases fuel with
    | zero => left; rfl
    | succ f =>
      rw [scan_succ, scanItems_ch _ _ _ _ _ _ hst, ← scan_succ]
      rcases ih cfg content (f + 1) below top { st with outRev := c :: st.outRev } hl hc hst hon with h1 | ⟨h1, h2, h3⟩
      · left; exact h1
      · right; refine ⟨h1, ?_, h3⟩
        rw [h2]; simp
  | @special c t o k _ ih =>
    intro cfg content fuel below top st hl hc hst hon
    cases fuel with
    | zero => left; rfl
    | succ f =>
      cases cs with
      | true =>
        rw [scan_succ, scanItems_special_cs _ _ _ _ _ _ hst hc, overLimit_none hl]
        simp only [Bool.false_eq_true, if_false]
        rw [← scan_succ]
        rcases ih cfg content (f + 1) below top { st with count := st.count + 1, outRev := c :: st.outRev } hl hc hst
          (hon.mono (by omega)) with h1 | ⟨h1, h2, h3⟩
        · left; exact h1
        · right; refine ⟨h1, ?_, ?_⟩
          · rw [h2]; simp
          · rw [h3]; simp [spw]; omega
      | false =>
        rw [scan_succ, scanItems_special_ncs _ _ _ _ _ _ hst hc, ← scan_succ]
        rcases ih cfg content (f + 1) below top { st with outRev := c :: st.outRev } hl hc hst
          (hon.mono (by omega)) with h1 | ⟨h1, h2, h3⟩
        · left; exact h1
        · right; refine ⟨h1, ?_, ?_⟩
          · rw [h2]; simp
          · rw [h3]; simp [spw]
  | @ref n v t o1 k1 o2 k2 hg h1 _ ih1 ih2 =>
    intro cfg content fuel below top st hl hc hst hon
    cases fuel with
    | zero => left; rfl
    | succ f =>
      have hb : n ∉ below := by
        intro hmem
        have hmem' : n ∈ pushBelow below top := by
          cases top with
          | none => exact hmem
          | some tp => exact List.mem_cons_of_mem _ hmem
        obtain ⟨v', o', k', a, b, c⟩ := hon n hmem'
        rw [hg] at a; cases a
        have := (expands_det h1 b).2
        omega
      rw [scan_succ, scanItems_ref_push _ _ _ _ _ _ hst hg hb, overLimit_none hl]
      simp only [Bool.false_eq_true, if_false]
      have hon1 : OnStack tbl cs (pushBelow (pushBelow below top) (some n)) k1 := by
        intro m hm
        simp only [pushBelow, List.mem_cons] at hm
        rcases hm with rfl | hm
        · exact ⟨v, o1, k1, hg, h1, Nat.le_refl _⟩
        · obtain ⟨v', o', k', a, b, c⟩ := hon m hm
          exact ⟨v', o', k', a, b, by omega⟩
      rcases ih1 cfg content f (pushBelow below top) (some n)
          { st with pushes := st.pushes + 1, count := st.count + 1, se := st.se + (if content then 1 else 0) }
          hl hc hst hon1 with e1 | ⟨e1, e2, e3⟩
      · left
        rw [scanItems_stuck _ _ _ _ _ _ _ _ (by rw [e1]; rfl)]
        exact e1
      · rw [← scan_succ]
        rcases ih2 cfg content (f + 1) below top _ hl hc e1 (hon.mono (by omega)) with g1 | ⟨g1, g2, g3⟩
        · left; exact g1
        · right; refine ⟨g1, ?_, ?_⟩
          · rw [g2, e2]; simp
          · rw [g3, e3]; simp only []; omega

theorem scanItems_expands (cfg : Cfg) (tbl : Table) (content : Bool) (recur) (below top)
    (hrec : ∀ b tp v s, s.err = none → (recur b tp v s).err = none → ∃ o k, Expands tbl cfg.countSpecial v o k) :
    ∀ (t : Text) (st : St), st.err = none → (scanItems cfg tbl content recur below top t st).err = none →
      ∃ o k, Expands tbl cfg.countSpecial t o k := by
  intro t
  induction t with
  | nil => intro st _ _; exact ⟨[], 0, .nil⟩
  | cons it rest ih =>
    intro st hst hr
    cases it with
    | ch c =>
      rw [scanItems_ch _ _ _ _ _ _ hst] at hr
      obtain ⟨o, k, h⟩ := ih _ (by simpa using hst) hr
      exact ⟨_, _, .ch h⟩
    | special c =>
      cases hcs : cfg.countSpecial with
      | true =>
        rw [scanItems_special_cs _ _ _ _ _ _ hst hcs] at hr
        split at hr
        · simp at hr
        · obtain ⟨o, k, h⟩ := ih _ (by simpa using hst) hr
          rw [hcs] at h
          exact ⟨_, _, .special h⟩
      | false =>
        rw [scanItems_special_ncs _ _ _ _ _ _ hst hcs] at hr
        obtain ⟨o, k, h⟩ := ih _ (by simpa using hst) hr
        rw [hcs] at h
        exact ⟨_, _, .special h⟩
    | ref n =>
      cases hg : tbl.get n with
      | none => rw [scanItems_ref_none _ _ _ _ _ _ hst hg] at hr; simp at hr
      | some v =>
        by_cases hb : n ∈ below
        · rw [scanItems_ref_rec _ _ _ _ _ _ hst hg hb] at hr; simp at hr
        · rw [scanItems_ref_push _ _ _ _ _ _ hst hg hb] at hr
          split at hr
          · simp at hr
          · rcases err_cases (recur (pushBelow below top) (some n) v
                { st with pushes := st.pushes + 1, count := st.count + 1, se := st.se + (if content then 1 else 0) })
              with e3 | e3
            · obtain ⟨o1, k1, h1⟩ := hrec _ _ _ _ (by simpa using hst) e3
              obtain ⟨o2, k2, h2⟩ := ih _ e3 hr
              exact ⟨_, _, .ref hg h1 h2⟩
            · rw [scanItems_stuck _ _ _ _ _ _ _ _ e3] at hr
              rw [hr] at e3; simp at e3

theorem expands_of_scan (cfg : Cfg) (tbl : Table) (content : Bool) :
    ∀ (fuel : Nat) (below top) (t : Text) (st : St), st.err = none →
      (scan cfg tbl content fuel below top t st).err = none → ∃ o k, Expands tbl cfg.countSpecial t o k := by
  intro fuel
  induction fuel with
  | zero => intro below top t st _ h; simp [scan] at h
  | succ f ih =>
    intro below top t st hst h
    exact scanItems_expands cfg tbl content _ below top (fun b tp v s hs hr => ih b tp v s hs hr) t st hst h

/-! ### the limit only cuts the run short -/

/-- `a` = state reached without a limit, `b` = state reached with limit `l` from the same start -/
def Sim (l : Nat) (a b : St) : Prop :=
  (a.count ≤ l → b = a) ∧ (l < a.count → b.err = some .limit ∧ b.count = l + 1 ∧ b.pushes ≤ a.pushes)

theorem sim_same {l : Nat} {s : St} (h : s.count ≤ l) : Sim l s s := ⟨fun _ => rfl, fun h' => by omega⟩

theorem scanItems_grow (cfg : Cfg) (tbl : Table) (content : Bool) (recur) (below top)
    (hrec : ∀ b tp v s, Grow s (recur b tp v s)) (t : Text) (st : St) :
    Grow st (scanItems cfg tbl content recur below top t st) := by
  apply scanItems_rel cfg tbl content recur below top Grow
  · intro s; refine ⟨?_, ?_, ?_⟩ <;> omega
  · intro a b c ⟨h1, h2, h3⟩ ⟨g1, g2, g3⟩; exact ⟨by omega, by omega, by omega⟩
  · intro s c; refine ⟨?_, ?_, ?_⟩ <;> simp only [] <;> omega
  · intro s; refine ⟨?_, ?_, ?_⟩ <;> simp only [] <;> omega
  · intro s; refine ⟨?_, ?_, ?_⟩ <;> simp only [] <;> omega
  · intro s d; refine ⟨?_, ?_, ?_⟩ <;> simp only [] <;> omega
  · intro s e; refine ⟨?_, ?_, ?_⟩ <;> simp only [] <;> omega
  · intro b tp v s _; exact hrec b tp v s

theorem scanItems_sim (cs : Bool) (l : Nat) (tbl : Table) (content : Bool) (recurA recurB) (below top)
    (hsim : ∀ b tp v s, s.err = none → s.count ≤ l → Sim l (recurA b tp v s) (recurB b tp v s))
    (hgrow : ∀ b tp v s, Grow s (recurA b tp v s)) :
    ∀ (t : Text) (st : St), st.count ≤ l →
      Sim l (scanItems ⟨none, cs⟩ tbl content recurA below top t st)
            (scanItems ⟨some l, cs⟩ tbl content recurB below top t st) := by
  intro t
  induction t with
  | nil => intro st h; exact sim_same h
  | cons it rest ih =>
    intro st hle
    rcases err_cases st with hst | he
    · cases it with
      | ch c =>
        rw [scanItems_ch _ _ _ _ _ _ hst, scanItems_ch _ _ _ _ _ _ hst]
        exact ih _ hle
      | special c =>
        cases cs with
        | false =>
          rw [scanItems_special_ncs _ _ _ _ _ _ hst rfl, scanItems_special_ncs _ _ _ _ _ _ hst rfl]
          exact ih _ hle
        | true =>
          rw [scanItems_special_cs _ _ _ _ _ _ hst rfl, scanItems_special_cs _ _ _ _ _ _ hst rfl,
            overLimit_none rfl, overLimit_some rfl]
          simp only [Bool.false_eq_true, if_false, decide_eq_true_eq]
          by_cases ho : st.count + 1 > l
          · simp only [ho, if_true]
            have g := scanItems_grow ⟨none, true⟩ tbl content recurA below top hgrow rest
              { st with count := st.count + 1, outRev := c :: st.outRev }
            obtain ⟨g1, g2, _⟩ := g
            simp only [] at g1 g2
            refine ⟨fun h => by omega, fun _ => ⟨rfl, by simp only []; omega, by simp only []; omega⟩⟩
          · simp only [ho, if_false]
            exact ih _ (by simp only []; omega)
      | ref n =>
        cases hg : tbl.get n with
        | none =>
          rw [scanItems_ref_none _ _ _ _ _ _ hst hg, scanItems_ref_none _ _ _ _ _ _ hst hg]
          exact sim_same hle
        | some v =>
          by_cases hb : n ∈ below
          · rw [scanItems_ref_rec _ _ _ _ _ _ hst hg hb, scanItems_ref_rec _ _ _ _ _ _ hst hg hb]
            exact sim_same hle
          · rw [scanItems_ref_push _ _ _ _ _ _ hst hg hb, scanItems_ref_push _ _ _ _ _ _ hst hg hb,
              overLimit_none rfl, overLimit_some rfl]
            simp only [Bool.false_eq_true, if_false, decide_eq_true_eq]
            by_cases ho : st.count + 1 > l
            · simp only [ho, if_true]
              have g3 := hgrow (pushBelow below top) (some n) v
                { st with pushes := st.pushes + 1, count := st.count + 1, se := st.se + (if content then 1 else 0) }
              have g := scanItems_grow ⟨none, cs⟩ tbl content recurA below top hgrow rest
                (recurA (pushBelow below top) (some n) v
                  { st with pushes := st.pushes + 1, count := st.count + 1, se := st.se + (if content then 1 else 0) })
              obtain ⟨a1, a2, _⟩ := g3
              obtain ⟨g1, g2, _⟩ := g
              simp only [] at a1 a2
              refine ⟨fun h => by omega, fun _ => ⟨rfl, by simp only []; omega, by simp only []; omega⟩⟩
            · simp only [ho, if_false]
              have hs := hsim (pushBelow below top) (some n) v
                { st with pushes := st.pushes + 1, count := st.count + 1, se := st.se + (if content then 1 else 0) }
                (by simpa using hst) (by simp only []; omega)
              by_cases h3 : (recurA (pushBelow below top) (some n) v
                  { st with pushes := st.pushes + 1, count := st.count + 1, se := st.se + (if content then 1 else 0) }).count ≤ l
              · rw [hs.1 h3]
                exact ih _ h3
              · obtain ⟨b1, b2, b3⟩ := hs.2 (by omega)
                rw [scanItems_stuck ⟨some l, cs⟩ _ _ _ _ _ _ _ (by rw [b1]; rfl)]
                have g := scanItems_grow ⟨none, cs⟩ tbl content recurA below top hgrow rest
                  (recurA (pushBelow below top) (some n) v
                    { st with pushes := st.pushes + 1, count := st.count + 1, se := st.se + (if content then 1 else 0) })
                obtain ⟨g1, g2, _⟩ := g
                refine ⟨fun h => by omega, fun _ => ⟨b1, b2, by omega⟩⟩
    · rw [scanItems_stuck _ _ _ _ _ _ _ _ he, scanItems_stuck _ _ _ _ _ _ _ _ he]
      exact sim_same hle

theorem scan_sim (cs : Bool) (l : Nat) (tbl : Table) (content : Bool) :
    ∀ (fuel : Nat) (below top) (t : Text) (st : St), st.count ≤ l →
      Sim l (scan ⟨none, cs⟩ tbl content fuel below top t st) (scan ⟨some l, cs⟩ tbl content fuel below top t st) := by
  intro fuel
  induction fuel with
  | zero => intro below top t st h; exact sim_same (by simpa [scan] using h)
  | succ f ih =>
    intro below top t st h
    exact scanItems_sim cs l tbl content _ _ below top (fun b tp v s _ hs => ih b tp v s hs)
      (fun b tp v s => scan_grow _ _ _ _ _ _ _ _) t st h

/-! ### where an error comes from -/

/-- `n` is referenced in `t` or in the replacement text of some declared entity -/
def Referenced (tbl : Table) (t : Text) (n : Name) : Prop :=
  n ∈ refs t ∨ ∃ m v, tbl.get m = some v ∧ n ∈ refs v

def Origin (cfg : Cfg) (tbl : Table) (t : Text) : Err → Prop
  | .limit => cfg.limit ≠ none
  | .notFound n => tbl.get n = none ∧ Referenced tbl t n
  | .recursive n => tbl.get n ≠ none
  | .depth => True

theorem Origin.weaken {cfg tbl it rest e} (h : Origin cfg tbl rest e) : Origin cfg tbl (it :: rest) e := by
  cases e with
  | limit => exact h
  | recursive n => exact h
  | depth => trivial
  | notFound n =>
    refine ⟨h.1, ?_⟩
    rcases h.2 with h2 | h2
    · left; cases it <;> simp [refs, h2]
    · right; exact h2

theorem Origin.ofValue {cfg tbl t m v e} (hg : tbl.get m = some v) (h : Origin cfg tbl v e) : Origin cfg tbl t e := by
  cases e with
  | limit => exact h
  | recursive n => exact h
  | depth => trivial
  | notFound n =>
    refine ⟨h.1, ?_⟩
    rcases h.2 with h2 | h2
    · right; exact ⟨m, v, hg, h2⟩
    · right; exact h2

theorem scanItems_origin (cfg : Cfg) (tbl : Table) (content : Bool) (recur) (below top)
    (hrec : ∀ b tp v s e, s.err = none → (recur b tp v s).err = some e → Origin cfg tbl v e) :
    ∀ (t : Text) (st : St) (e : Err), st.err = none →
      (scanItems cfg tbl content recur below top t st).err = some e → Origin cfg tbl t e := by
  intro t
  induction t with
  | nil => intro st e hst h; simp [scanItems, hst] at h
  | cons it rest ih =>
    intro st e hst hr
    cases it with
    | ch c =>
      rw [scanItems_ch _ _ _ _ _ _ hst] at hr
      exact (ih _ e (by simpa using hst) hr).weaken
    | special c =>
      cases hcs : cfg.countSpecial with
      | true =>
        rw [scanItems_special_cs _ _ _ _ _ _ hst hcs] at hr
        split at hr
        · rename_i ho
          simp only [Option.some.injEq] at hr
          subst hr
          intro hl
          rw [overLimit_none hl] at ho
          exact absurd ho (by simp)
        · exact (ih _ e (by simpa using hst) hr).weaken
      | false =>
        rw [scanItems_special_ncs _ _ _ _ _ _ hst hcs] at hr
        exact (ih _ e (by simpa using hst) hr).weaken
    | ref n =>
      cases hg : tbl.get n with
      | none =>
        rw [scanItems_ref_none _ _ _ _ _ _ hst hg] at hr
        simp only [Option.some.injEq] at hr
        subst hr
        exact ⟨hg, Or.inl (by simp [refs])⟩
      | some v =>
        by_cases hb : n ∈ below
        · rw [scanItems_ref_rec _ _ _ _ _ _ hst hg hb] at hr
          simp only [Option.some.injEq] at hr
          subst hr
          simp [Origin, hg]
        · rw [scanItems_ref_push _ _ _ _ _ _ hst hg hb] at hr
          split at hr
          · rename_i ho
            simp only [Option.some.injEq] at hr
            subst hr
            intro hl
            rw [overLimit_none hl] at ho
            exact absurd ho (by simp)
          · rcases err_cases (recur (pushBelow below top) (some n) v
                { st with pushes := st.pushes + 1, count := st.count + 1, se := st.se + (if content then 1 else 0) })
              with e3 | e3
            · exact (ih _ e e3 hr).weaken
            · rw [scanItems_stuck _ _ _ _ _ _ _ _ e3] at hr
              exact Origin.ofValue hg (hrec _ _ _ _ e (by simpa using hst) hr)

theorem scan_origin (cfg : Cfg) (tbl : Table) (content : Bool) :
    ∀ (fuel : Nat) (below top) (t : Text) (st : St) (e : Err), st.err = none →
      (scan cfg tbl content fuel below top t st).err = some e → Origin cfg tbl t e := by
  intro fuel
  induction fuel with
  | zero =>
    intro below top t st e _ h
    simp only [scan, Option.some.injEq] at h
    subst h; trivial
  | succ f ih =>
    intro below top t st e hst h
    exact scanItems_origin cfg tbl content _ below top (fun b tp v s e hs hr => ih b tp v s e hs hr) t st e hst h

/-! ### documents (segments read by the document's own reader) -/

theorem scanDoc_stuck (cfg : Cfg) (tbl : Table) (f : Nat) (d : Doc) (st : St) (h : st.err.isSome = true) :
    scanDoc cfg tbl (f + 1) d st = st := by
  induction d with
  | nil => rfl
  | cons seg rest ih =>
    obtain ⟨c, t⟩ := seg
    simp only [scanDoc]
    rw [scan_stuck _ _ _ _ _ _ _ _ h]
    exact ih

theorem scanDoc_grow (cfg : Cfg) (tbl : Table) (fuel : Nat) (d : Doc) : ∀ (st : St), Grow st (scanDoc cfg tbl fuel d st) := by
  induction d with
  | nil => intro st; refine ⟨?_, ?_, ?_⟩ <;> simp only [scanDoc] <;> omega
  | cons seg rest ih =>
    intro st
    obtain ⟨c, t⟩ := seg
    simp only [scanDoc]
    obtain ⟨a1, a2, a3⟩ := scan_grow cfg tbl c fuel [] none t st
    obtain ⟨b1, b2, b3⟩ := ih (scan cfg tbl c fuel [] none t st)
    exact ⟨by omega, by omega, by omega⟩

theorem scanDoc_no_depth (cfg : Cfg) (tbl : Table) (fuel : Nat) (hf : fuelFor tbl ≤ fuel) (d : Doc) :
    ∀ (st : St), st.err ≠ some .depth → (scanDoc cfg tbl fuel d st).err ≠ some .depth := by
  induction d with
  | nil => intro st h; exact h
  | cons seg rest ih =>
    intro st h
    obtain ⟨c, t⟩ := seg
    simp only [scanDoc]
    exact ih _ (scan_no_depth cfg tbl c fuel [] none t st (by have := measure_doc tbl; omega) h)

theorem scanDoc_of_expands (cfg : Cfg) (tbl : Table) (cs : Bool) (f : Nat) (hl : cfg.limit = none)
    (hc : cfg.countSpecial = cs) (d : Doc) :
    ∀ (o : List Nat) (k : Nat) (st : St), Expands tbl cs d.flatten o k → st.err = none →
      (scanDoc cfg tbl (f + 1) d st).err = some .depth ∨
      ((scanDoc cfg tbl (f + 1) d st).err = none ∧ (scanDoc cfg tbl (f + 1) d st).outRev = o.reverse ++ st.outRev ∧
       (scanDoc cfg tbl (f + 1) d st).count = st.count + k) := by
  induction d with
  | nil =>
    intro o k st h hst
    cases h
    right; simp [scanDoc, hst]
  | cons seg rest ih =>
    intro o k st h hst
    obtain ⟨c, t⟩ := seg
    simp only [Doc.flatten] at h
    obtain ⟨o1, k1, o2, k2, h1, h2, ho, hk⟩ := expands_split h
    simp only [scanDoc]
    rcases scan_of_expands h1 cfg c (f + 1) [] none st hl hc hst (by intro m hm; simp [pushBelow] at hm)
      with e1 | ⟨e1, e2, e3⟩
    · left
      rw [scanDoc_stuck _ _ _ _ _ (by rw [e1]; rfl)]
      exact e1
    · rcases ih o2 k2 _ h2 e1 with g1 | ⟨g1, g2, g3⟩
      · left; exact g1
      · right
        refine ⟨g1, ?_, ?_⟩
        · rw [g2, e2, ho]; simp
        · rw [g3, e3, hk]; omega

theorem expands_of_scanDoc (cfg : Cfg) (tbl : Table) (f : Nat) (d : Doc) :
    ∀ (st : St), st.err = none → (scanDoc cfg tbl (f + 1) d st).err = none →
      ∃ o k, Expands tbl cfg.countSpecial d.flatten o k := by
  induction d with
  | nil => intro st _ _; exact ⟨[], 0, .nil⟩
  | cons seg rest ih =>
    intro st hst hr
    obtain ⟨c, t⟩ := seg
    simp only [scanDoc] at hr
    rcases err_cases (scan cfg tbl c (f + 1) [] none t st) with e1 | e1
    · obtain ⟨o1, k1, h1⟩ := expands_of_scan cfg tbl c (f + 1) [] none t st hst e1
      obtain ⟨o2, k2, h2⟩ := ih _ e1 hr
      exact ⟨_, _, expands_append h1 h2⟩
    · rw [scanDoc_stuck _ _ _ _ _ e1] at hr
      rw [hr] at e1; simp at e1

theorem scanDoc_sim (cs : Bool) (l : Nat) (tbl : Table) (f : Nat) (d : Doc) :
    ∀ (st : St), st.count ≤ l →
      Sim l (scanDoc ⟨none, cs⟩ tbl (f + 1) d st) (scanDoc ⟨some l, cs⟩ tbl (f + 1) d st) := by
  induction d with
  | nil => intro st h; exact sim_same h
  | cons seg rest ih =>
    intro st h
    obtain ⟨c, t⟩ := seg
    simp only [scanDoc]
    have hs := scan_sim cs l tbl c (f + 1) [] none t st h
    by_cases h3 : (scan ⟨none, cs⟩ tbl c (f + 1) [] none t st).count ≤ l
    · rw [hs.1 h3]; exact ih _ h3
    · obtain ⟨b1, b2, b3⟩ := hs.2 (by omega)
      rw [scanDoc_stuck ⟨some l, cs⟩ _ _ _ _ (by rw [b1]; rfl)]
      obtain ⟨g1, g2, _⟩ := scanDoc_grow ⟨none, cs⟩ tbl (f + 1) rest (scan ⟨none, cs⟩ tbl c (f + 1) [] none t st)
      exact ⟨fun h => by omega, fun _ => ⟨b1, b2, by omega⟩⟩

theorem Referenced.append_left {tbl t1 t2 n} (h : Referenced tbl t1 n) : Referenced tbl (t1 ++ t2) n := by
  rcases h with h | h
  · left
    induction t1 with
    | nil => simp [refs] at h
    | cons it rest ih =>
      cases it <;> simp only [refs, List.cons_append, List.mem_cons] at h ⊢
      · exact ih h
      · exact ih h
      · rcases h with h | h
        · exact Or.inl h
        · exact Or.inr (ih h)
  · right; exact h

theorem Referenced.append_right {tbl t1 t2 n} (h : Referenced tbl t2 n) : Referenced tbl (t1 ++ t2) n := by
  rcases h with h | h
  · left
    induction t1 with
    | nil => simpa using h
    | cons it rest ih => cases it <;> simp [refs, ih]
  · right; exact h

theorem Origin.append_left {cfg tbl t1 t2 e} (h : Origin cfg tbl t1 e) : Origin cfg tbl (t1 ++ t2) e := by
  cases e with
  | limit => exact h
  | recursive n => exact h
  | depth => trivial
  | notFound n => exact ⟨h.1, h.2.append_left⟩

theorem Origin.append_right {cfg tbl t1 t2 e} (h : Origin cfg tbl t2 e) : Origin cfg tbl (t1 ++ t2) e := by
  cases e with
  | limit => exact h
  | recursive n => exact h
  | depth => trivial
  | notFound n => exact ⟨h.1, h.2.append_right⟩

theorem scanDoc_origin (cfg : Cfg) (tbl : Table) (f : Nat) (d : Doc) :
    ∀ (st : St) (e : Err), st.err = none → (scanDoc cfg tbl (f + 1) d st).err = some e →
      Origin cfg tbl d.flatten e := by
  induction d with
  | nil => intro st e hst h; simp [scanDoc, hst] at h
  | cons seg rest ih =>
    intro st e hst hr
    obtain ⟨c, t⟩ := seg
    simp only [scanDoc] at hr
    simp only [Doc.flatten]
    rcases err_cases (scan cfg tbl c (f + 1) [] none t st) with e1 | e1
    · exact (ih _ e e1 hr).append_right
    · rw [scanDoc_stuck _ _ _ _ _ e1] at hr
      exact (scan_origin cfg tbl c (f + 1) [] none t st e hst hr).append_left

end XV.Lemmas.Entity
