import XV.Lemmas.Ascii
import XV.Model.Reader
namespace XV.Lemmas.AsciiReader
open XV.Model.ByteCodec XV.Lemmas.Ascii

/-- the C04 reader model's rendering of a transcoder result in the C05 codec vocabulary -/
def ofReader : XV.Model.Utf8.Res → CRes
  | .ok c s e => .ok c s e
  | .exc e => .exc e.name

theorem go_eq_asciiLoop : ∀ (l : List Nat) (room : Nat) (acc : List Nat),
    asciiFrom.go (l.take room) acc =
      match XV.Model.Reader.asciiLoop l room acc.length with
      | none => .exc "Trans_Unrepresentable"
      | some cs => .ok (acc ++ cs) (List.replicate (acc ++ cs).length 1) (acc ++ cs).length := by
  intro l
  induction l with
  | nil => intro room acc; simp [XV.Model.Reader.asciiLoop, asciiFrom.go]
  | cons b t ih =>
    intro room acc
    cases room with
    | zero => simp [XV.Model.Reader.asciiLoop, asciiFrom.go]
    | succ k =>
      rw [List.take_succ_cons]
      unfold XV.Model.Reader.asciiLoop
      by_cases hb : b < 0x80
      · simp only [asciiFrom.go, hb, if_true, Nat.succ_ne_zero, if_false, Nat.add_sub_cancel]
        have := ih k (acc ++ [b])
        rw [List.length_append, List.length_singleton] at this
        rw [this]
        cases XV.Model.Reader.asciiLoop t k (acc.length + 1) <;> simp
      · simp only [asciiFrom.go, hb, if_false, Nat.succ_ne_zero]
        by_cases h32 : acc.length > 32 <;> simp [h32]

/-- The US-ASCII block function of the C04 reader model (`XV.Model.Reader.decAscii`) and the C05 codec model
(`asciiFrom`) are the same function. -/
theorem decAscii_eq_asciiFrom (src : List Nat) (m : Nat) :
    ofReader (XV.Model.Reader.decAscii src m) = asciiFrom src m := by
  rw [asciiFrom_eq, go_eq_asciiLoop src m []]
  unfold XV.Model.Reader.decAscii
  cases XV.Model.Reader.asciiLoop src m 0 <;> simp [ofReader, XV.Model.Utf8.Exc.name]

end XV.Lemmas.AsciiReader
