/- Helper lemmas for C06: the SAX2 reader's prefix stacks (stack discipline, event skeleton, well-nestedness). -/
import XV.Model.Sax2Prefix
import XV.Model.DomLookup
import XV.Lemmas.ElemStack
namespace XV.Lemmas.NsViews
open XV.Model.ElemStack XV.Model.NsScan XV.Model.Sax2Prefix XV.Spec.Namespace XV.Lemmas.ElemStack
open XV.Model.DomLookup (DAttr DElem xeq nonEmpty lnsAttrs lookupNamespaceURIElem lookupNamespaceURI lpAttrs
  lookupPrefixFrom lookupPrefix isDefaultNamespace nullIfEmpty leName)

-- ------------------------------------------------------------------------------------------ trees that describe documents
/-- the tree is a faithful description of a start tag: what it lists as an ordinary attribute is not a namespace
    declaration in disguise, and a declaration's prefix is not itself written with a colon-less `xmlns` clash -/
def ItemsOK : List Item → Prop
  | [] => True
  | .decl _ :: r => ItemsOK r
  | .attr p l :: r => p ≠ "xmlns" ∧ ¬ (p = "" ∧ l = "xmlns") ∧ ItemsOK r

mutual
  def TreeOK : Node → Prop
    | .elem t kids => ItemsOK t.items ∧ TreesOK kids
    | _ => True
  def TreesOK : List Node → Prop
    | [] => True
    | n :: ns => TreeOK n ∧ TreesOK ns
end

-- ------------------------------------------------------------------------------------------ the prefix stack of the SAX2 reader
theorem attrLoop_spec (as : List XMLAttr) : ∀ (r : Reader) (n : Nat) (temp : List XMLAttr),
    attrLoop r as n temp =
      ({ r with fPrefixes := ((as.filterMap nsDeclOf).map (·.1)).reverse ++ r.fPrefixes
                out := r.out ++ (as.filterMap nsDeclOf).map (fun d => Event.startPrefixMapping d.1 d.2) },
       n + (as.filterMap nsDeclOf).length,
       temp ++ as.filter (fun a => (nsDeclOf a).isNone)) := by
  induction as with
  | nil => intro r n temp; simp [attrLoop]
  | cons a as ih =>
    intro r n temp
    unfold attrLoop
    cases h : nsDeclOf a with
    | none => simp [ih, h]
    | some d =>
      obtain ⟨p, u⟩ := d
      simp only [ih, Reader.emit, List.filterMap_cons, h, List.map_cons, List.reverse_cons, List.append_assoc,
        List.cons_append, List.nil_append, List.length_cons, List.filter_cons, Option.isNone_some]
      simp; omega

theorem popPrefixes_spec (ps : List String) : ∀ (r : Reader) (rest : List String), r.fPrefixes = ps ++ rest →
    popPrefixes r ps.length = { r with fPrefixes := rest, out := r.out ++ ps.map Event.endPrefixMapping } := by
  induction ps with
  | nil => intro r rest h; cases r; simp_all [popPrefixes]
  | cons p ps ih =>
    intro r rest h
    simp only [List.length_cons, popPrefixes, h, List.cons_append]
    rw [ih _ rest (by simp [Reader.emit])]
    simp [Reader.emit]

theorem closeScope_spec (r : Reader) (ps rest : List String) (cs : List Nat)
    (hc : r.fPrefixCounts = ps.length :: cs) (hp : r.fPrefixes = ps ++ rest) :
    closeScope r = { r with fPrefixCounts := cs, fPrefixes := rest, out := r.out ++ ps.map Event.endPrefixMapping } := by
  unfold closeScope
  rw [hc]
  simp only
  rw [popPrefixes_spec ps _ rest (by simpa using hp)]

/-- the skeleton of an event: prefix-mapping events and element brackets, without namespace names and attributes -/
inductive Sk where
  | spm (p u : String) | epm (p : String) | se (q : String) | ee (q : String)
deriving DecidableEq, Repr

def skM : Event → Sk
  | .startPrefixMapping p u => .spm p u
  | .endPrefixMapping p => .epm p
  | .startElement _ _ q _ => .se q
  | .endElement _ _ q => .ee q

def skS : Ev → Sk
  | .startPrefixMapping p u => .spm p u
  | .endPrefixMapping p => .epm p
  | .startElement _ p l _ => .se (qname p l)
  | .endElement _ p l => .ee (qname p l)

/-- the declarations the reader finds in the attribute list `buildAttList` made from a tag are the tag's declarations -/
theorem nsDecls_buildAttList (s : Scan) (items : List Item) (h : ItemsOK items) :
    ((buildAttList s (rawOfItems items)).1.filterMap nsDeclOf) = (declsOf items).map (fun d => (d.pre, d.uri)) := by
  have hx : xmlnsString = "xmlns" := by decide
  induction items with
  | nil => simp [rawOfItems, buildAttList, declsOf]
  | cons it r ih =>
    cases it with
    | decl d =>
      have ih' := ih h
      by_cases e : d.pre = ""
      · simp only [rawOfItems, e, ↓reduceIte, buildAttList, declsOf, List.filterMap_cons, List.map_cons]
        simp [nsDeclOf, ih']
      · simp only [rawOfItems, e, ↓reduceIte, buildAttList, declsOf, List.filterMap_cons, List.map_cons]
        have : xmlnsString ≠ "" := by decide
        simp [nsDeclOf, ih', this]
    | attr p l =>
      obtain ⟨h1, h2, h3⟩ := h
      have ih' := ih h3
      simp only [rawOfItems, buildAttList, declsOf, List.filterMap_cons]
      have hn : nsDeclOf ⟨(if p ≠ "" then s.resolvePrefix p .attribute else (s.fEmptyNamespaceId, false)).1, p, l, "v"⟩ = none := by
        unfold nsDeclOf
        by_cases e : p = ""
        · subst e; simp [hx]; intro hl; exact h2 ⟨rfl, hl⟩
        · simp [e, hx, h1]
      simp only [hn, ih']

theorem sk_sax2Events_path (b : Bool) : (∀ (n : Node), (∀ (p1 p2 : Path), (sax2Events b p1 n).map skS = (sax2Events b p2 n).map skS)) := by
  intro n
  induction n using Node.rec (motive_2 := fun ns => ∀ p1 p2 : Path, (sax2EventsL b p1 ns).map skS = (sax2EventsL b p2 ns).map skS) with
  | elem t kids ih =>
    intro p1 p2
    simp only [sax2Events, List.map_append, List.map_cons, List.map_nil, List.map_map, skS]
    rw [ih]
  | text => intro _ _; rfl
  | comment => intro _ _; rfl
  | pi => intro _ _; rfl
  | cdata => intro _ _; rfl
  | nil => rfl
  | cons n ns ih1 ih2 =>
    rename_i p1 p2
    simp only [sax2EventsL, List.map_append]
    rw [ih1 p1 p2, ih2 p1 p2]


theorem sk_sax2EventsL_path (b : Bool) (ns : List Node) (p1 p2 : Path) :
    (sax2EventsL b p1 ns).map skS = (sax2EventsL b p2 ns).map skS := by
  induction ns with
  | nil => rfl
  | cons n ns ih => simp only [sax2EventsL, List.map_append, ih, sk_sax2Events_path b n p1 p2]

theorem startElement_nonEmpty (r : Reader) (uriOf : Nat → String) (uriId : Nat) (pre loc : String) (attrs : List XMLAttr) :
    ∃ e, skM e = .se (qn pre loc) ∧
    startElement r uriOf uriId pre loc attrs false =
      { r with fPrefixes := ((attrs.filterMap nsDeclOf).map (·.1)).reverse ++ r.fPrefixes
               fPrefixCounts := (attrs.filterMap nsDeclOf).length :: r.fPrefixCounts
               out := r.out ++ (attrs.filterMap nsDeclOf).map (fun d => Event.startPrefixMapping d.1 d.2) ++ [e] } := by
  unfold startElement
  rw [attrLoop_spec]
  simp only [Nat.zero_add, Bool.false_eq_true, ↓reduceIte, Reader.emit]
  exact ⟨_, rfl, rfl⟩

theorem endElement_spec (r : Reader) (uriOf : Nat → String) (uriId : Nat) (pre loc : String)
    (ps rest : List String) (cs : List Nat) (hc : r.fPrefixCounts = ps.length :: cs) (hp : r.fPrefixes = ps ++ rest) :
    ∃ e, skM e = .ee (qn pre loc) ∧
    endElement r uriOf uriId pre loc =
      { r with fPrefixCounts := cs, fPrefixes := rest, out := r.out ++ [e] ++ ps.map Event.endPrefixMapping } := by
  unfold endElement
  rw [closeScope_spec _ ps rest cs (by simpa [Reader.emit] using hc) (by simpa [Reader.emit] using hp)]
  refine ⟨Event.endElement (uriOf uriId) loc (qn pre loc), rfl, ?_⟩
  simp [Reader.emit]

theorem startElement_empty (r : Reader) (uriOf : Nat → String) (uriId : Nat) (pre loc : String) (attrs : List XMLAttr) :
    ∃ e1 e2, skM e1 = .se (qn pre loc) ∧ skM e2 = .ee (qn pre loc) ∧
    startElement r uriOf uriId pre loc attrs true =
      { r with out := r.out ++ (attrs.filterMap nsDeclOf).map (fun d => Event.startPrefixMapping d.1 d.2) ++ [e1, e2] ++
                      (((attrs.filterMap nsDeclOf).map (·.1)).reverse).map Event.endPrefixMapping } := by
  unfold startElement
  rw [attrLoop_spec]
  simp only [Nat.zero_add, ↓reduceIte, Reader.emit]
  rw [closeScope_spec _ (((attrs.filterMap nsDeclOf).map (·.1)).reverse) r.fPrefixes r.fPrefixCounts (by simp) (by simp)]
  refine ⟨Event.startElement (uriOf uriId) loc (qn pre loc) (List.map (toSax uriOf)
      (if r.fNamespacePrefix = true then attrs else List.filter (fun a => (nsDeclOf a).isNone) attrs)),
    Event.endElement (uriOf uriId) loc (qn pre loc), rfl, rfl, ?_⟩
  simp


@[simp] theorem skM_spm (p u : String) : skM (.startPrefixMapping p u) = .spm p u := rfl
@[simp] theorem skM_epm (p : String) : skM (.endPrefixMapping p) = .epm p := rfl

@[simp] theorem skS_spm (p u : String) : skS (.startPrefixMapping p u) = .spm p u := rfl
@[simp] theorem skS_epm (p : String) : skS (.endPrefixMapping p) = .epm p := rfl

theorem qn_eq_qname (p l : String) : qn p l = qname p l := rfl

/-- **stack discipline of the SAX2 reader**: walking any subtree leaves `fPrefixes`/`fPrefixCounts` exactly as they
    were and appends events whose skeleton is the Spec's event word for that subtree -/
theorem walk_spec (b : Bool) (ue : Tag → Bool) : ∀ (n : Node), TreeOK n → ∀ (s : Scan) (r : Reader),
    ∃ es, (walk ue s r n).2 = { r with out := r.out ++ es } ∧ es.map skM = (sax2Events b [] n).map skS := by
  intro n
  induction n using Node.rec (motive_2 := fun ns => TreesOK ns → ∀ (s : Scan) (r : Reader),
      ∃ es, (walkList ue s r ns).2 = { r with out := r.out ++ es } ∧ es.map skM = (sax2EventsL b [] ns).map skS) with
  | elem t kids ih =>
    intro hok s r
    obtain ⟨hitems, hkids⟩ := hok
    -- name the pieces of the start tag
    obtain ⟨s1, hs1⟩ : ∃ s1, s1 = s.startTag (rawOfItems t.items) := ⟨_, rfl⟩
    obtain ⟨attrs, hattrs⟩ : ∃ attrs, attrs = (buildAttList s1 (rawOfItems t.items)).1 := ⟨_, rfl⟩
    have hD : attrs.filterMap nsDeclOf = (declsOf t.items).map (fun d => (d.pre, d.uri)) := by
      rw [hattrs]; exact nsDecls_buildAttList s1 t.items hitems
    have hsk : (sax2Events b [] (.elem t kids)).map skS =
        (declsOf t.items).map (fun d => Sk.spm d.pre d.uri) ++ [Sk.se (qname t.pre t.loc)] ++
        (sax2EventsL b [] kids).map skS ++ [Sk.ee (qname t.pre t.loc)] ++
        (declsOf t.items).reverse.map (fun d => Sk.epm d.pre) := by
      simp only [sax2Events, List.map_append, List.map_cons, List.map_nil, List.map_map, skS, List.nil_append]
      have := sk_sax2EventsL_path b kids ([] ++ [declsOf t.items]) []
      simp only [List.nil_append] at this
      rw [this]
      rfl
    rw [hsk]
    unfold walk
    simp only [startTagNS, ← hs1, ← hattrs]
    by_cases hemp : (kids.isEmpty && ue t) = true
    · -- <t/>
      have hk : kids = [] := by
        simp only [Bool.and_eq_true, List.isEmpty_iff] at hemp; exact hemp.1
      obtain ⟨e1, e2, h1, h2, hst⟩ := startElement_empty r (uriText s1) (s1.resolvePrefix t.pre .element).1 t.pre t.loc attrs
      simp only [hemp, ↓reduceIte, hst, hD]
      refine ⟨List.map (fun d => Event.startPrefixMapping d.fst d.snd) (List.map (fun d => (d.pre, d.uri)) (declsOf t.items)) ++
          [e1, e2] ++ List.map Event.endPrefixMapping
            (List.map (fun x => x.fst) (List.map (fun d => (d.pre, d.uri)) (declsOf t.items))).reverse, ?_, ?_⟩
      · simp
      · simp [hk, sax2EventsL, h1, h2, qn_eq_qname, List.map_reverse, Function.comp_def]
    · simp only [hemp, Bool.false_eq_true, ↓reduceIte]
      obtain ⟨e1, h1, hst⟩ := startElement_nonEmpty r (uriText s1) (s1.resolvePrefix t.pre .element).1 t.pre t.loc attrs
      rw [hst]
      obtain ⟨es, hw, hes⟩ := ih hkids s1 { r with
        fPrefixes := ((attrs.filterMap nsDeclOf).map (·.1)).reverse ++ r.fPrefixes
        fPrefixCounts := (attrs.filterMap nsDeclOf).length :: r.fPrefixCounts
        out := r.out ++ (attrs.filterMap nsDeclOf).map (fun d => Event.startPrefixMapping d.1 d.2) ++ [e1] }
      obtain ⟨e2, h2, hend⟩ := endElement_spec (walkList ue s1 _ kids).2 (uriText (walkList ue s1 _ kids).1)
        (s1.resolvePrefix t.pre .element).1 t.pre t.loc (((attrs.filterMap nsDeclOf).map (·.1)).reverse) r.fPrefixes
        r.fPrefixCounts (by rw [hw]; simp) (by rw [hw])
      refine ⟨(attrs.filterMap nsDeclOf).map (fun d => Event.startPrefixMapping d.1 d.2) ++ [e1] ++ es ++ [e2] ++
        (((attrs.filterMap nsDeclOf).map (·.1)).reverse).map Event.endPrefixMapping, ?_, ?_⟩
      · show (endElement (walkList ue s1 _ kids).2 _ _ _ _) = _
        rw [hend, hw]
        simp
      · simp [hD, hes, h1, h2, qn_eq_qname, List.map_reverse, Function.comp_def]
  | text => intro _ s r; exact ⟨[], by simp [walk], rfl⟩
  | comment => intro _ s r; exact ⟨[], by simp [walk], rfl⟩
  | pi => intro _ s r; exact ⟨[], by simp [walk], rfl⟩
  | cdata => intro _ s r; exact ⟨[], by simp [walk], rfl⟩
  | nil => exact ⟨[], by simp [walkList], rfl⟩
  | cons n ns ih1 ih2 =>
    rename_i hok s r
    obtain ⟨es1, hw1, he1⟩ := ih1 hok.1 s r
    obtain ⟨es2, hw2, he2⟩ := ih2 hok.2 (walk ue s r n).1 (walk ue s r n).2
    refine ⟨es1 ++ es2, ?_, ?_⟩
    · simp only [walkList]
      rw [hw2, hw1]; simp
    · simp [sax2EventsL, he1, he2]


/-- Well-nested event words: every element opens its scopes right before its start, nests well-nested content, and
    closes exactly those scopes, innermost first, right after its end. -/
inductive WellNested : List Sk → Prop where
  | nil : WellNested []
  | elem (ds : List (String × String)) (q : String) (inner rest : List Sk) :
      WellNested inner → WellNested rest →
      WellNested (ds.map (fun d => Sk.spm d.1 d.2) ++ [Sk.se q] ++ inner ++ [Sk.ee q] ++
                  ds.reverse.map (fun d => Sk.epm d.1) ++ rest)

theorem WellNested.append {a b : List Sk} (ha : WellNested a) (hb : WellNested b) : WellNested (a ++ b) := by
  induction ha with
  | nil => simpa using hb
  | elem ds q inner rest _ _ _ ih2 =>
    have := WellNested.elem ds q inner (rest ++ b) (by assumption) ih2
    simpa [List.append_assoc] using this

theorem spec_wellNested (b : Bool) : ∀ (n : Node) (path : Path), WellNested ((sax2Events b path n).map skS) := by
  intro n
  induction n using Node.rec (motive_2 := fun ns => ∀ path : Path, WellNested ((sax2EventsL b path ns).map skS)) with
  | elem t kids ih =>
    intro path
    have := WellNested.elem ((declsOf t.items).map (fun d => (d.pre, d.uri))) (qname t.pre t.loc)
      ((sax2EventsL b (path ++ [declsOf t.items]) kids).map skS) [] (ih _) WellNested.nil
    simp only [sax2Events, List.map_append, List.map_cons, List.map_nil, List.map_map, skS]
    simpa [Function.comp_def, List.map_reverse] using this
  | text => intro _; exact WellNested.nil
  | comment => intro _; exact WellNested.nil
  | pi => intro _; exact WellNested.nil
  | cdata => intro _; exact WellNested.nil
  | nil => exact WellNested.nil
  | cons n ns ih1 ih2 =>
    rename_i path
    simp only [sax2EventsL, List.map_append]
    exact (ih1 path).append (ih2 path)

/-- executable check of well-nestedness (for examples): a stack of open elements with their scopes -/
def nestedCheck : List Sk → List (String × String) → List (String × List String) → Option (List String) → Bool
  | [], pend, stack, closing => pend.isEmpty && stack.isEmpty && (closing.getD []).isEmpty
  | .spm p u :: r, pend, stack, closing =>
      (closing.getD []).isEmpty && nestedCheck r (pend ++ [(p, u)]) stack none
  | .se q :: r, pend, stack, closing =>
      (closing.getD []).isEmpty && nestedCheck r [] ((q, (pend.map (·.1)).reverse) :: stack) none
  | .ee q :: r, pend, stack, closing =>
      pend.isEmpty && (closing.getD []).isEmpty &&
      (match stack with
       | (q', ps) :: st => q == q' && nestedCheck r [] st (some ps)
       | [] => false)
  | .epm p :: r, pend, stack, closing =>
      pend.isEmpty &&
      (match closing with
       | some (p' :: ps) => p == p' && nestedCheck r [] stack (some ps)
       | _ => false)


-- ------------------------------------------------------------------------------------------ DOM Level 3 lookups
theorem colon_name_ne_xmlns (p l : String) : p ++ ":" ++ l ≠ "xmlns" := by
  intro h
  have h2 := congrArg String.toList h
  simp only [String.toList_append] at h2
  have : ':' ∈ "xmlns".toList := by
    rw [← h2]; simp
  revert this
  decide

-- ------------------------------------------------------------------------------------------ DOM nodes of a parsed document, Spec side
/-- the attribute node the parser creates for one attribute specification, namespaces resolved by the Spec -/
def specAttr (path' : Path) : Item → DAttr
  | .decl d => if d.pre = "" then ⟨some xmlnsURIName, none, xmlnsString, xmlnsString, d.uri⟩
               else ⟨some xmlnsURIName, some xmlnsString, d.pre, XV.Model.DomLookup.qn xmlnsString d.pre, d.uri⟩
  | .attr p l => ⟨attrNS path' p, nullIfEmpty p, l, XV.Model.DomLookup.qn p l, "v"⟩

/-- the element node for tag `t` whose in-scope chain (own declarations included) is `path'` -/
def specElem (path' : Path) (t : Tag) : DElem :=
  let as := (t.items.map (specAttr path')).mergeSort leName
  match elemNS path' t.pre with
  | some u => ⟨some u, nullIfEmpty t.pre, t.loc, XV.Model.DomLookup.qn t.pre t.loc, as⟩
  | none => ⟨none, none, t.loc, t.loc, as⟩

/-- `rtags` = the element and its ancestors, innermost first -/
def levelsOf (rtags : List Tag) : List Level := rtags.map (fun t => declsOf t.items)
def pathOf (rtags : List Tag) : Path := (levelsOf rtags).reverse

def chainOf : List Tag → List DElem
  | [] => []
  | t :: outer => specElem (pathOf (t :: outer)) t :: chainOf outer

def ItemOK : Item → Prop
  | .decl _ => True
  | .attr p l => p ≠ "xmlns" ∧ ¬ (p = "" ∧ l = "xmlns")

theorem ItemsOK.mem {items : List Item} (h : ItemsOK items) : ∀ it ∈ items, ItemOK it := by
  induction items with
  | nil => intro it hit; simp at hit
  | cons x r ih =>
    intro it hit
    cases x with
    | decl d =>
      rcases List.mem_cons.mp hit with h1 | h1
      · subst h1; trivial
      · exact ih h it h1
    | attr p l =>
      rcases List.mem_cons.mp hit with h1 | h1
      · subst h1; exact ⟨h.1, h.2.1⟩
      · exact ih h.2.2 it h1

/-- the condition under which the attribute loop of lookupNamespaceURI returns at `attr` -/
def isDeclFor (sp : Option String) (attr : DAttr) : Bool :=
  attr.ns.isSome && xeq attr.ns (some xmlnsURIName) &&
  ((sp.isNone && attr.nodeName == xmlnsString) ||
   (attr.pre.isSome && xeq attr.pre (some xmlnsString) && xeq (some attr.loc) sp))

theorem lnsAttrs_eq_find (sp : Option String) (L : List DAttr) :
    lnsAttrs sp L = (L.find? (isDeclFor sp)).map (fun a => nonEmpty a.value) := by
  induction L with
  | nil => rfl
  | cons a L ih =>
    unfold lnsAttrs
    simp only [List.find?_cons, isDeclFor]
    by_cases hA : (a.ns.isSome && xeq a.ns (some xmlnsURIName)) = true
    · by_cases hB1 : (sp.isNone && a.nodeName == xmlnsString) = true
      · simp [hA, hB1]
      · by_cases hB2 : (a.pre.isSome && xeq a.pre (some xmlnsString) && xeq (some a.loc) sp) = true
        · simp [hA, hB1, hB2]
        · simp only [hA, hB1, hB2, Bool.false_eq_true, ↓reduceIte, Bool.or_self, Bool.and_false]
          exact ih
    · simp only [hA, Bool.false_eq_true, ↓reduceIte, Bool.false_and]
      exact ih

theorem find?_perm_unique {α : Type} (p : α → Bool) {l l' : List α} (h : l.Perm l')
    (hu : ∀ a ∈ l, ∀ b ∈ l, p a = true → p b = true → a = b) : l.find? p = l'.find? p := by
  induction h with
  | nil => rfl
  | cons x _ ih =>
    simp only [List.find?_cons]
    cases p x with
    | true => rfl
    | false => exact ih (fun a ha b hb => hu a (by simp [ha]) b (by simp [hb]))
  | swap x y l =>
    simp only [List.find?_cons]
    cases hx : p x <;> cases hy : p y <;> simp
    exact (hu x (by simp) y (by simp) hx hy).symm
  | trans h1 _ ih1 ih2 =>
    rw [ih1 hu, ih2 (fun a ha b hb => hu a (h1.mem_iff.mpr ha) b (h1.mem_iff.mpr hb))]

/-- which attribute specification answers a lookup of `sp` -/
def declMatch (sp : Option String) : Item → Bool
  | .decl d => d.pre == sp.getD ""
  | .attr _ _ => false

theorem isDeclFor_specAttr (path' : Path) (sp : Option String) (hsp : sp ≠ some "") (it : Item) (hok : ItemOK it) :
    isDeclFor sp (specAttr path' it) = declMatch sp it := by
  have hx : xmlnsString = "xmlns" := by decide
  have hx0 : xmlnsString ≠ "" := by decide
  cases it with
  | decl d =>
    by_cases e : d.pre = ""
    · cases sp with
      | none => simp [specAttr, e, isDeclFor, declMatch, xeq]
      | some q =>
        have : q ≠ "" := fun h => hsp (by rw [h])
        simp [specAttr, e, isDeclFor, declMatch, xeq, Ne.symm this]
    · have hq : XV.Model.DomLookup.qn xmlnsString d.pre ≠ xmlnsString := by
        simp only [XV.Model.DomLookup.qn, hx0, ↓reduceIte, hx]
        exact colon_name_ne_xmlns _ _
      cases sp with
      | none => simp [specAttr, e, isDeclFor, declMatch, xeq, hq]
      | some q => simp [specAttr, e, isDeclFor, declMatch, xeq, hq]
  | attr p l =>
    obtain ⟨h1, h2⟩ := hok
    have hq : XV.Model.DomLookup.qn p l ≠ xmlnsString := by
      unfold XV.Model.DomLookup.qn
      by_cases e : p = ""
      · simp only [e, ↓reduceIte, hx]; exact fun hl => h2 ⟨e, hl⟩
      · simp only [e, ↓reduceIte, hx]; exact colon_name_ne_xmlns _ _
    have hp : ¬ (p ≠ "" ∧ p = xmlnsString) := by rw [hx]; exact fun h => h1 h.2
    simp only [specAttr, isDeclFor, declMatch, xeq, nullIfEmpty]
    by_cases e : p = ""
    · subst e
      simp
      intros
      exact hq
    · have : p ≠ xmlnsString := by rw [hx]; exact h1
      simp [e, hq, this]


theorem specAttr_decl_value (path' : Path) (d : Decl) : (specAttr path' (.decl d)).value = d.uri := by
  simp only [specAttr]; split <;> rfl

theorem find_specAttrs (path' : Path) (sp : Option String) (hsp : sp ≠ some "") (items : List Item)
    (hok : ∀ it ∈ items, ItemOK it) :
    ((items.map (specAttr path')).find? (isDeclFor sp)).map (fun a => nonEmpty a.value)
      = (declOf (declsOf items) (sp.getD "")).map nonEmpty := by
  induction items with
  | nil => rfl
  | cons it r ih =>
    have ih' := ih (fun x hx => hok x (by simp [hx]))
    simp only [List.map_cons, List.find?_cons, isDeclFor_specAttr path' sp hsp it (hok it (by simp))]
    cases it with
    | decl d =>
      by_cases e : d.pre = sp.getD ""
      · simp [declMatch, e, declsOf, declOf, specAttr_decl_value]
      · have e' : (d.pre == sp.getD "") = false := by simpa using e
        simp only [declMatch, e', declsOf, declOf, e, ↓reduceIte]
        exact ih'
    | attr p l =>
      simp only [declMatch, declsOf]
      exact ih'

theorem mem_declsOf {items : List Item} {d : Decl} : Item.decl d ∈ items → d ∈ declsOf items := by
  induction items with
  | nil => intro h; simp at h
  | cons it r ih =>
    intro h
    cases it with
    | decl d' =>
      rcases List.mem_cons.mp h with h1 | h1
      · simp only [Item.decl.injEq] at h1; subst h1; simp [declsOf]
      · simp [declsOf, ih h1]
    | attr p l =>
      rcases List.mem_cons.mp h with h1 | h1
      · simp at h1
      · simp [declsOf, ih h1]

theorem nodup_map_inj {α β : Type} (f : α → β) {l : List α} (h : (l.map f).Nodup) {a b : α}
    (ha : a ∈ l) (hb : b ∈ l) (e : f a = f b) : a = b := by
  induction l with
  | nil => simp at ha
  | cons x r ih =>
    simp only [List.map_cons, List.nodup_cons, List.mem_map, not_exists, not_and] at h
    rcases List.mem_cons.mp ha with h1 | h1 <;> rcases List.mem_cons.mp hb with h2 | h2
    · rw [h1, h2]
    · subst h1; exact absurd e.symm (h.1 b h2)
    · subst h2; exact absurd e (h.1 a h1)
    · exact ih h.2 h1 h2

theorem specAttrs_unique (path' : Path) (sp : Option String) (hsp : sp ≠ some "") (items : List Item)
    (hok : ∀ it ∈ items, ItemOK it) (hnd : ((declsOf items).map (·.pre)).Nodup) :
    ∀ a ∈ items.map (specAttr path'), ∀ b ∈ items.map (specAttr path'),
      isDeclFor sp a = true → isDeclFor sp b = true → a = b := by
  intro a ha b hb pa pb
  obtain ⟨ia, hia, rfl⟩ := List.mem_map.mp ha
  obtain ⟨ib, hib, rfl⟩ := List.mem_map.mp hb
  rw [isDeclFor_specAttr path' sp hsp ia (hok ia hia)] at pa
  rw [isDeclFor_specAttr path' sp hsp ib (hok ib hib)] at pb
  cases ia with
  | attr p l => simp [declMatch] at pa
  | decl da =>
    cases ib with
    | attr p l => simp [declMatch] at pb
    | decl db =>
      simp only [declMatch, beq_iff_eq] at pa pb
      have : da = db := nodup_map_inj (·.pre) hnd (mem_declsOf hia) (mem_declsOf hib) (pa.trans pb.symm)
      rw [this]

/-- the attribute loop of lookupNamespaceURI on a parsed element finds the element's own declaration of the prefix -/
theorem lnsAttrs_specElem (path' : Path) (sp : Option String) (hsp : sp ≠ some "") (t : Tag)
    (hok : ItemsOK t.items) (hnd : ((declsOf t.items).map (·.pre)).Nodup) :
    lnsAttrs sp (specElem path' t).attrs = (declOf (declsOf t.items) (sp.getD "")).map nonEmpty := by
  have hattrs : (specElem path' t).attrs = (t.items.map (specAttr path')).mergeSort leName := by
    unfold specElem; split <;> rfl
  rw [hattrs, lnsAttrs_eq_find,
    ← find?_perm_unique (isDeclFor sp) (List.mergeSort_perm _ leName).symm
      (specAttrs_unique path' sp hsp t.items hok.mem hnd)]
  exact find_specAttrs path' sp hsp t.items hok.mem


def TagOK (t : Tag) : Prop := ItemsOK t.items ∧ ((declsOf t.items).map (·.pre)).Nodup

/-- nearest declaration, with the empty namespace name read as "none" -/
def R (ls : List Level) (p : String) : Option String :=
  match nearest (ls ++ [[]]) p with
  | some u => nonEmpty u
  | none => none

theorem R_cons (ds : Level) (ls : List Level) (p : String) :
    R (ds :: ls) p = match declOf ds p with | some u => nonEmpty u | none => R ls p := by
  unfold R
  simp only [List.cons_append, nearest]
  cases declOf ds p <;> rfl

theorem inScope_eq_R (rtags : List Tag) (p : String) (h1 : p ≠ "xml") (h2 : p ≠ "xmlns") :
    inScope (pathOf rtags) p = R (levelsOf rtags) p := by
  unfold inScope inScopeG R pathOf
  simp only [h1, h2, ↓reduceIte, List.reverse_reverse]
  cases nearest (levelsOf rtags ++ [[]]) p with
  | none => rfl
  | some u => simp [nonEmpty]

theorem specElem_attrs (path' : Path) (t : Tag) :
    (specElem path' t).attrs = (t.items.map (specAttr path')).mergeSort leName := by
  unfold specElem; split <;> rfl

theorem lnsElem_chainOf (rtags : List Tag) (hok : ∀ t ∈ rtags, TagOK t) (sp : Option String) (hsp : sp ≠ some "")
    (h1 : sp.getD "" ≠ "xml") (h2 : sp.getD "" ≠ "xmlns") :
    lookupNamespaceURIElem (chainOf rtags) sp = R (levelsOf rtags) (sp.getD "") := by
  induction rtags with
  | nil => simp [chainOf, lookupNamespaceURIElem, R, levelsOf, nearest, declOf]
  | cons t outer ih =>
    have ih' := ih (fun x hx => hok x (by simp [hx]))
    have htag := hok t (by simp)
    have hattr := lnsAttrs_specElem (pathOf (t :: outer)) sp hsp t htag.1 htag.2
    have hR : R (levelsOf (t :: outer)) (sp.getD "") =
        match declOf (declsOf t.items) (sp.getD "") with | some u => nonEmpty u | none => R (levelsOf outer) (sp.getD "") := by
      simp only [levelsOf, List.map_cons]; exact R_cons _ _ _
    -- what the loop over the attributes and the walk to the ancestors give
    have hrest : (match lnsAttrs sp (specElem (pathOf (t :: outer)) t).attrs with
          | some r => r
          | none => lookupNamespaceURIElem (chainOf outer) sp) = R (levelsOf (t :: outer)) (sp.getD "") := by
      rw [hattr, hR, ih']
      cases declOf (declsOf t.items) (sp.getD "") <;> rfl
    simp only [chainOf, lookupNamespaceURIElem]
    cases hns : elemNS (pathOf (t :: outer)) t.pre with
    | none =>
      have he : (specElem (pathOf (t :: outer)) t).ns = none := by unfold specElem; rw [hns]
      simp only [he, Option.isSome_none, Bool.false_and, Bool.false_eq_true, ↓reduceIte]
      exact hrest
    | some u =>
      have he : (specElem (pathOf (t :: outer)) t).ns = some u := by unfold specElem; rw [hns]
      have hp : (specElem (pathOf (t :: outer)) t).pre = nullIfEmpty t.pre := by unfold specElem; rw [hns]
      simp only [he, hp, Option.isSome_some, Bool.true_and]
      by_cases e : t.pre = sp.getD ""
      · -- the element itself carries the prefix asked for: its namespace is the in-scope binding
        have hcond : ((sp.isNone && (nullIfEmpty t.pre).isNone) ||
            ((nullIfEmpty t.pre).isSome && xeq (nullIfEmpty t.pre) sp)) = true := by
          cases sp with
          | none => simp at e; simp [nullIfEmpty, e]
          | some q =>
            simp only [Option.getD_some] at e
            have : q ≠ "" := fun h => hsp (by rw [h])
            simp [nullIfEmpty, e, this, xeq]
        simp only [hcond, ↓reduceIte]
        rw [← inScope_eq_R (t :: outer) _ h1 h2, ← e]
        exact hns.symm
      · have hcond : ((sp.isNone && (nullIfEmpty t.pre).isNone) ||
            ((nullIfEmpty t.pre).isSome && xeq (nullIfEmpty t.pre) sp)) = false := by
          cases sp with
          | none =>
            simp only [Option.getD_none] at e
            simp [nullIfEmpty, e, xeq]
          | some q =>
            simp only [Option.getD_some] at e
            by_cases e0 : t.pre = ""
            · simp [nullIfEmpty, e0]
            · simp [nullIfEmpty, e0, xeq, e]
        simp only [hcond, Bool.false_eq_true, ↓reduceIte]
        exact hrest

/-- **lookupNamespaceURI on a node of a parsed tree answers according to the declarations in scope.** -/
theorem lookupNS_chainOf (rtags : List Tag) (hok : ∀ t ∈ rtags, TagOK t) (sp : Option String) (hsp : sp ≠ some "") :
    lookupNamespaceURI (chainOf rtags) sp = inScope (pathOf rtags) (sp.getD "") := by
  have hx : xmlString = "xml" := by decide
  have hn : xmlnsString = "xmlns" := by decide
  have hxu : xmlURIName = xmlURI := by decide
  have hnu : xmlnsURIName = xmlnsURI := by decide
  unfold lookupNamespaceURI
  rw [hx, hn, hxu, hnu]
  by_cases e1 : sp = some "xml"
  · simp [e1, inScope, inScopeG]
  · by_cases e2 : sp = some "xmlns"
    · simp [e2, inScope, inScopeG]
    · simp only [e1, e2, ↓reduceIte]
      have h1 : sp.getD "" ≠ "xml" := by
        cases sp with
        | none => simp
        | some q => simp only [Option.getD_some]; exact fun h => e1 (by rw [h])
      have h2 : sp.getD "" ≠ "xmlns" := by
        cases sp with
        | none => simp
        | some q => simp only [Option.getD_some]; exact fun h => e2 (by rw [h])
      rw [lnsElem_chainOf rtags hok sp hsp h1 h2, inScope_eq_R rtags _ h1 h2]


-- ------------------------------------------------------------------------------------------ lookupPrefix
theorem lpAttrs_sound (u : String) (original : List DElem) (L : List DAttr) (p : String)
    (h : lpAttrs u original L = some p) : lookupNamespaceURI original (some p) = some u := by
  induction L with
  | nil => simp [lpAttrs] at h
  | cons a L ih =>
    unfold lpAttrs at h
    split at h
    · simp only [] at h
      split at h
      · rename_i found hf
        split at h
        · rename_i hfu
          simp only [Option.some.injEq] at h
          subst h
          rw [hf]; simp only [beq_iff_eq] at hfu; rw [hfu]
        · exact ih h
      · exact ih h
    · exact ih h

/-- **soundness of lookupPrefix on ANY tree**: an answer is a prefix that `lookupNamespaceURI`, asked at the original
    element, maps back to the namespace name (the algorithm re-checks every candidate) -/
theorem lookupPrefixFrom_sound (u : String) (original : List DElem) (chain : List DElem) (p : String)
    (h : lookupPrefixFrom u original chain = some p) : lookupNamespaceURI original (some p) = some u := by
  induction chain with
  | nil => simp [lookupPrefixFrom] at h
  | cons e rest ih =>
    unfold lookupPrefixFrom at h
    simp only at h
    split at h
    · rename_i q hown
      simp only [Option.some.injEq] at h
      subst h
      -- the element's own prefix, re-checked
      split at hown
      · rename_i ns pre _ _
        split at hown
        · split at hown
          · rename_i found hf
            split at hown
            · rename_i hfu
              simp only [Option.some.injEq] at hown
              subst hown
              rw [hf]; simp only [beq_iff_eq] at hfu; rw [hfu]
            · simp at hown
          · simp at hown
        · simp at hown
      · simp at hown
    · split at h
      · rename_i q hq
        simp only [Option.some.injEq] at h
        subst h
        exact lpAttrs_sound u original e.attrs _ hq
      · exact ih h

theorem isDeclFor_empty (path' : Path) (it : Item) (hok : ItemOK it) :
    isDeclFor (some "") (specAttr path' it) = false := by
  have hx : xmlnsString = "xmlns" := by decide
  cases it with
  | decl d =>
    by_cases e : d.pre = ""
    · simp [specAttr, e, isDeclFor]
    · simp [specAttr, e, isDeclFor, xeq]
  | attr p l =>
    have : p ≠ xmlnsString := by rw [hx]; exact hok.1
    simp only [specAttr, isDeclFor, xeq, nullIfEmpty]
    by_cases e : p = ""
    · simp [e]
    · simp [e, this]

theorem lnsElem_empty (rtags : List Tag) (hok : ∀ t ∈ rtags, TagOK t) :
    lookupNamespaceURIElem (chainOf rtags) (some "") = none := by
  induction rtags with
  | nil => rfl
  | cons t outer ih =>
    have ih' := ih (fun x hx => hok x (by simp [hx]))
    have htag := hok t (by simp)
    have hattr : lnsAttrs (some "") (specElem (pathOf (t :: outer)) t).attrs = none := by
      rw [lnsAttrs_eq_find, List.find?_eq_none.mpr]
      · rfl
      · intro a ha
        rw [specElem_attrs] at ha
        have ha' := (List.mergeSort_perm _ leName).mem_iff.mp ha
        obtain ⟨it, hit, rfl⟩ := List.mem_map.mp ha'
        simp [isDeclFor_empty _ it (htag.1.mem it hit)]
    have hpre : ∀ q, (specElem (pathOf (t :: outer)) t).pre = some q → q ≠ "" := by
      intro q hq
      unfold specElem at hq
      split at hq
      · simp only [nullIfEmpty] at hq
        split at hq
        · simp at hq
        · simp only [Option.some.injEq] at hq; rw [← hq]; assumption
      · simp at hq
    simp only [chainOf, lookupNamespaceURIElem, hattr, ih']
    cases hp : (specElem (pathOf (t :: outer)) t).pre with
    | none => simp
    | some q => have := hpre q hp; simp [xeq, this]

/-- **lookupPrefix_sound** for nodes of a parsed tree -/
theorem lookupPrefix_chainOf_sound (rtags : List Tag) (hok : ∀ t ∈ rtags, TagOK t) (u p : String)
    (h : lookupPrefix (chainOf rtags) (some u) = some p) : inScope (pathOf rtags) p = some u := by
  have h1 := lookupPrefixFrom_sound u (chainOf rtags) (chainOf rtags) p h
  by_cases e : p = ""
  · subst e
    have hx : (some "" : Option String) ≠ some xmlString := by decide
    have hn : (some "" : Option String) ≠ some xmlnsString := by decide
    simp only [lookupNamespaceURI, hx, hn, ↓reduceIte, lnsElem_empty rtags hok] at h1
    simp at h1
  · rw [lookupNS_chainOf rtags hok (some p) (by simpa using e)] at h1
    simpa using h1


-- ------------------------------------------------------------------------------------------ isDefaultNamespace
/-- the chain belongs to a namespace-well-formed document: prefixes of elements are bound, `xmlns` is not declared as a
    prefix and no ordinary attribute lives in the xmlns namespace (nothing may be bound to it) -/
def ChainWF : List Tag → Prop
  | [] => True
  | t :: outer =>
      TagOK t ∧ (t.pre ≠ "" → elemNS (pathOf (t :: outer)) t.pre ≠ none) ∧
      (∀ d ∈ declsOf t.items, d.pre ≠ "xmlns") ∧
      (∀ p l, Item.attr p l ∈ t.items → attrNS (pathOf (t :: outer)) p ≠ some xmlnsURI) ∧ ChainWF outer

def isDefaultDecl (a : DAttr) : Bool := xeq a.ns (some xmlnsURIName) && a.loc == xmlnsString

def isDefaultItem : Item → Bool
  | .decl d => d.pre == ""
  | .attr _ _ => false

theorem isDefaultDecl_specAttr (path' : Path) (it : Item) (h1 : ∀ d, it = .decl d → d.pre ≠ "xmlns")
    (h2 : ∀ p l, it = .attr p l → attrNS path' p ≠ some xmlnsURI) :
    isDefaultDecl (specAttr path' it) = isDefaultItem it := by
  have hx : xmlnsString = "xmlns" := by decide
  have hnu : xmlnsURIName = xmlnsURI := by decide
  cases it with
  | decl d =>
    by_cases e : d.pre = ""
    · simp [specAttr, e, isDefaultDecl, isDefaultItem, xeq]
    · have := h1 d rfl
      have a : (d.pre == "xmlns") = false := by simpa using this
      have b : (d.pre == "") = false := by simpa using e
      simp [specAttr, e, isDefaultDecl, isDefaultItem, xeq, hx, a, b]
  | attr p l =>
    have := h2 p l rfl
    simp only [specAttr, isDefaultDecl, isDefaultItem, xeq, hnu]
    cases ha : attrNS path' p with
    | none =>
      have : ("" == xmlnsURI) = false := by decide
      simp [this]
    | some w =>
      have : w ≠ xmlnsURI := fun hh => this (by rw [ha, hh])
      simp [this]

theorem find_default (path' : Path) (items : List Item)
    (h1 : ∀ d, Item.decl d ∈ items → d.pre ≠ "xmlns")
    (h2 : ∀ p l, Item.attr p l ∈ items → attrNS path' p ≠ some xmlnsURI) :
    ((items.map (specAttr path')).find? isDefaultDecl).map (·.value) = declOf (declsOf items) "" := by
  induction items with
  | nil => rfl
  | cons it r ih =>
    have ih' := ih (fun d hd => h1 d (by simp [hd])) (fun p l hp => h2 p l (by simp [hp]))
    have hit := isDefaultDecl_specAttr path' it (fun d hd => h1 d (by simp [hd])) (fun p l hp => h2 p l (by simp [hp]))
    simp only [List.map_cons, List.find?_cons, hit]
    cases it with
    | decl d =>
      by_cases e : d.pre = ""
      · simp [isDefaultItem, e, declsOf, declOf, specAttr_decl_value]
      · have e' : (d.pre == "") = false := by simpa using e
        simp only [isDefaultItem, e', declsOf, declOf, e, ↓reduceIte]
        exact ih'
    | attr p l =>
      simp only [isDefaultItem, declsOf]
      exact ih'

theorem default_unique (path' : Path) (items : List Item)
    (h1 : ∀ d, Item.decl d ∈ items → d.pre ≠ "xmlns")
    (h2 : ∀ p l, Item.attr p l ∈ items → attrNS path' p ≠ some xmlnsURI)
    (hnd : ((declsOf items).map (·.pre)).Nodup) :
    ∀ a ∈ items.map (specAttr path'), ∀ b ∈ items.map (specAttr path'),
      isDefaultDecl a = true → isDefaultDecl b = true → a = b := by
  intro a ha b hb pa pb
  obtain ⟨ia, hia, rfl⟩ := List.mem_map.mp ha
  obtain ⟨ib, hib, rfl⟩ := List.mem_map.mp hb
  rw [isDefaultDecl_specAttr path' ia (fun d hd => h1 d (hd ▸ hia)) (fun p l hp => h2 p l (hp ▸ hia))] at pa
  rw [isDefaultDecl_specAttr path' ib (fun d hd => h1 d (hd ▸ hib)) (fun p l hp => h2 p l (hp ▸ hib))] at pb
  cases ia with
  | attr p l => simp [isDefaultItem] at pa
  | decl da =>
    cases ib with
    | attr p l => simp [isDefaultItem] at pb
    | decl db =>
      simp only [isDefaultItem, beq_iff_eq] at pa pb
      have : da = db := nodup_map_inj (·.pre) hnd (mem_declsOf hia) (mem_declsOf hib) (pa.trans pb.symm)
      rw [this]

theorem decl_mem_of_declsOf {items : List Item} {d : Decl} : d ∈ declsOf items → Item.decl d ∈ items := by
  induction items with
  | nil => intro h; simp [declsOf] at h
  | cons it r ih =>
    intro h
    cases it with
    | decl d' =>
      simp only [declsOf, List.mem_cons] at h
      rcases h with h1 | h1
      · subst h1; simp
      · simp [ih h1]
    | attr p l =>
      simp only [declsOf] at h
      simp [ih h]

/-- **isDefaultNamespace on a node of a parsed, namespace-well-formed tree** says whether `u` is the default namespace
    in scope -/
theorem isDefaultNamespace_chainOf (rtags : List Tag) (hwf : ChainWF rtags) (u : String) (hu : u ≠ "") :
    isDefaultNamespace (chainOf rtags) (some u) = decide (inScope (pathOf rtags) "" = some u) := by
  have hne1 : ("" : String) ≠ "xml" := by decide
  have hne2 : ("" : String) ≠ "xmlns" := by decide
  induction rtags with
  | nil => simp [chainOf, isDefaultNamespace, inScope, inScopeG, pathOf, levelsOf, nearest, declOf]
  | cons t outer ih =>
    obtain ⟨htag, hbound, hnox, hnoattr, hrest⟩ := hwf
    have ih' := ih hrest
    simp only [chainOf, isDefaultNamespace]
    by_cases e0 : t.pre = ""
    · -- unprefixed element: its own namespace IS the default namespace in scope
      have hpre : (specElem (pathOf (t :: outer)) t).pre = none := by
        unfold specElem; split <;> simp [nullIfEmpty, e0]
      have hns : (specElem (pathOf (t :: outer)) t).ns = inScope (pathOf (t :: outer)) "" := by
        unfold specElem elemNS; rw [e0]; split <;> simp_all
      simp only [hpre, Option.isNone_none, Bool.true_or, ↓reduceIte, hns]
      cases hi : inScope (pathOf (t :: outer)) "" with
      | none => simp [xeq, hu]
      | some w =>
        simp only [xeq, Option.getD_some, Option.some.injEq]
        by_cases h : u = w
        · simp [h]
        · simp [h, Ne.symm h]
    · obtain ⟨w, hw⟩ := Option.ne_none_iff_exists'.mp (hbound e0)
      have hpre : (specElem (pathOf (t :: outer)) t).pre = some t.pre := by
        unfold specElem; rw [hw]; simp [nullIfEmpty, e0]
      have hcond : ((some t.pre : Option String).isNone || (some t.pre : Option String) == some "") = false := by simp [e0]
      simp only [hpre, hcond, Bool.false_eq_true, ↓reduceIte]
      have h1 : ∀ d, Item.decl d ∈ t.items → d.pre ≠ "xmlns" := fun d hd => hnox d (mem_declsOf hd)
      have hfind : ((specElem (pathOf (t :: outer)) t).attrs.find? (fun a => xeq a.ns (some xmlnsURIName) && a.loc == xmlnsString))
          = (t.items.map (specAttr (pathOf (t :: outer)))).find? isDefaultDecl := by
        rw [specElem_attrs]
        exact (find?_perm_unique isDefaultDecl (List.mergeSort_perm _ leName).symm
          (default_unique _ t.items h1 hnoattr htag.2)).symm
      rw [hfind]
      have hval := find_default (pathOf (t :: outer)) t.items h1 hnoattr
      rw [inScope_eq_R (t :: outer) "" hne1 hne2]
      have hR : R (levelsOf (t :: outer)) "" =
          match declOf (declsOf t.items) "" with | some u => nonEmpty u | none => R (levelsOf outer) "" := by
        simp only [levelsOf, List.map_cons]; exact R_cons _ _ _
      rw [hR]
      cases hf : (t.items.map (specAttr (pathOf (t :: outer)))).find? isDefaultDecl with
      | none =>
        rw [hf] at hval; simp only [Option.map_none] at hval
        rw [← hval]
        simp only [ih', inScope_eq_R outer "" hne1 hne2]
      | some a =>
        rw [hf] at hval; simp only [Option.map_some] at hval
        rw [← hval]
        simp only [xeq, Option.getD_some, nonEmpty]
        by_cases ev : a.value = ""
        · simp [ev, hu]
        · simp only [ev, ↓reduceIte, Option.some.injEq]
          by_cases h : u = a.value
          · simp [h]
          · simp [h, Ne.symm h]


end XV.Lemmas.NsViews
