/-
Inductive invariant of the lazy-initialisation protocol (any number of threads, any schedule).
-/
import XV.Model.LazyInit
namespace XV.Lemmas.LazyInit
open XV.Model.LazyInit

@[simp] theorem upd_same (f : Thread → PC) (t : Thread) (p : PC) : upd f t p t = p := by simp [upd]
theorem upd_other (f : Thread → PC) {t t' : Thread} (p : PC) (h : t' ≠ t) : upd f t p t' = f t' := by
  simp [upd, h]

/-- inside the critical section -/
def inCS : PC → Prop
  | .recheck | .build | .publish | .unlock => True
  | _ => False

structure Inv (val : Nat) (s : State) : Prop where
  flagT : s.flag = true → s.data = val ∧ s.inits = 1
  flagF : s.flag = false → s.inits = 0
  cs : ∀ t, inCS (s.pc t) → s.lock = some t
  holder : ∀ t, s.lock = some t → inCS (s.pc t)
  building : ∀ t, s.pc t = .build ∨ s.pc t = .publish → s.flag = false
  built : ∀ t, s.pc t = .publish → s.data = val
  unlocking : ∀ t, s.pc t = .unlock → s.flag = true
  atUse : ∀ t, s.pc t = .use → s.flag = true
  finished : ∀ t v, s.pc t = .done v → v = val ∧ s.flag = true

theorem inv_init (val : Nat) (entry : Thread → Bool) : Inv val (init entry) := by
  constructor <;> simp [init] <;> intro t <;> cases entry t <;> simp [inCS]

/-- facts about the other threads' program counters after `t` moved -/
theorem pc_cases (f : Thread → PC) (t t' : Thread) (p : PC) :
    (t' = t ∧ upd f t p t' = p) ∨ (t' ≠ t ∧ upd f t p t' = f t') := by
  by_cases h : t' = t
  · subst h; exact Or.inl ⟨rfl, upd_same _ _ _⟩
  · exact Or.inr ⟨h, upd_other _ _ h⟩

theorem inv_step (val : Nat) (t : Thread) (s : State) (hi : Inv val s) : Inv val (step val t s) := by
  unfold step stepV
  have hexcl : ∀ t', t' ≠ t → inCS (s.pc t) → ¬ inCS (s.pc t') := by
    intro t' hne h1 h2
    have a := hi.cs t h1; have b := hi.cs t' h2
    rw [a] at b; cases b; exact hne rfl
  cases hpc : s.pc t with
  | check =>
    by_cases hf : s.flag = true
    · rw [if_pos hf]
      refine ⟨hi.flagT, hi.flagF, ?_, ?_, ?_, ?_, ?_, ?_, ?_⟩ <;> intro t' <;>
        rcases pc_cases s.pc t t' .use with ⟨rfl, h⟩ | ⟨hne, h⟩ <;> simp only [h]
      · simp [inCS]
      · exact hi.cs t'
      · intro hl; have := hi.holder _ hl; rw [hpc] at this; exact this.elim
      · exact hi.holder t'
      · simp
      · exact hi.building t'
      · simp
      · exact hi.built t'
      · simp
      · exact hi.unlocking t'
      · intro _; exact hf
      · exact hi.atUse t'
      · simp
      · exact hi.finished t'
    · rw [if_neg hf]
      refine ⟨hi.flagT, hi.flagF, ?_, ?_, ?_, ?_, ?_, ?_, ?_⟩ <;> intro t' <;>
        rcases pc_cases s.pc t t' .lock with ⟨rfl, h⟩ | ⟨hne, h⟩ <;> simp only [h]
      · simp [inCS]
      · exact hi.cs t'
      · intro hl; have := hi.holder _ hl; rw [hpc] at this; exact this.elim
      · exact hi.holder t'
      · simp
      · exact hi.building t'
      · simp
      · exact hi.built t'
      · simp
      · exact hi.unlocking t'
      · simp
      · exact hi.atUse t'
      · simp
      · exact hi.finished t'
  | lock =>
    by_cases hl : s.lock = none
    · rw [if_pos (Or.inl hl)]
      have hnocs : ∀ t', ¬ inCS (s.pc t') := fun t' h => by have := hi.cs t' h; rw [hl] at this; cases this
      refine ⟨hi.flagT, hi.flagF, ?_, ?_, ?_, ?_, ?_, ?_, ?_⟩ <;> intro t' <;>
        rcases pc_cases s.pc t t' .recheck with ⟨rfl, h⟩ | ⟨hne, h⟩ <;> simp only [h]
      · simp
      · intro hc; exact (hnocs t' hc).elim
      · simp [inCS]
      · intro h'; cases h'; exact (hne rfl).elim
      · simp
      · exact hi.building t'
      · simp
      · exact hi.built t'
      · simp
      · exact hi.unlocking t'
      · simp
      · exact hi.atUse t'
      · simp
      · exact hi.finished t'
    · have : ¬ (s.lock = none ∨ good.excl = false) := by simp [hl, good]
      rw [if_neg this]; exact hi
  | recheck =>
    have hcs : inCS (s.pc t) := by rw [hpc]; trivial
    by_cases hf : s.flag = true
    · have hc : (s.flag && good.recheck) = true := by simp [hf, good]
      simp only []
      rw [if_pos hc]
      refine ⟨hi.flagT, hi.flagF, ?_, ?_, ?_, ?_, ?_, ?_, ?_⟩ <;> intro t' <;>
        rcases pc_cases s.pc t t' .unlock with ⟨rfl, h⟩ | ⟨hne, h⟩ <;> simp only [h]
      · intro _; exact hi.cs _ hcs
      · exact hi.cs t'
      · simp [inCS]
      · exact hi.holder t'
      · simp
      · exact hi.building t'
      · simp
      · exact hi.built t'
      · intro _; exact hf
      · exact hi.unlocking t'
      · simp
      · exact hi.atUse t'
      · simp
      · exact hi.finished t'
    · have hf' : s.flag = false := by simpa using hf
      have hc : ¬ (s.flag && good.recheck) = true := by simp [hf']
      simp only []
      rw [if_neg hc]
      refine ⟨hi.flagT, hi.flagF, ?_, ?_, ?_, ?_, ?_, ?_, ?_⟩ <;> intro t' <;>
        rcases pc_cases s.pc t t' .build with ⟨rfl, h⟩ | ⟨hne, h⟩ <;> simp only [h]
      · intro _; exact hi.cs _ hcs
      · exact hi.cs t'
      · simp [inCS]
      · exact hi.holder t'
      · intro _; exact hf'
      · exact hi.building t'
      · simp
      · exact hi.built t'
      · simp
      · exact hi.unlocking t'
      · simp
      · exact hi.atUse t'
      · simp
      · exact hi.finished t'
  | build =>
    have hcs : inCS (s.pc t) := by rw [hpc]; trivial
    have hff : s.flag = false := hi.building t (Or.inl hpc)
    have hc : ¬ good.flagFirst = true := by simp [good]
    simp only []
    rw [if_neg hc]
    refine ⟨?_, hi.flagF, ?_, ?_, ?_, ?_, ?_, ?_, ?_⟩
    · intro h; simp only at h; rw [hff] at h; cases h
    all_goals intro t'; rcases pc_cases s.pc t t' .publish with ⟨rfl, h⟩ | ⟨hne, h⟩ <;> simp only [h]
    · intro _; exact hi.cs _ hcs
    · exact hi.cs t'
    · simp [inCS]
    · exact hi.holder t'
    · intro _; exact hff
    · exact hi.building t'
    · simp
    · simp
    · simp
    · exact hi.unlocking t'
    · simp
    · exact hi.atUse t'
    · simp
    · intro v hv; have := hi.finished t' v hv; rw [hff] at this; cases this.2
  | publish =>
    have hcs : inCS (s.pc t) := by rw [hpc]; trivial
    have hff : s.flag = false := hi.building t (Or.inr hpc)
    have hd : s.data = val := hi.built t hpc
    have hin : s.inits = 0 := hi.flagF hff
    have hc : ¬ good.flagFirst = true := by simp [good]
    simp only []
    rw [if_neg hc]
    refine ⟨?_, ?_, ?_, ?_, ?_, ?_, ?_, ?_, ?_⟩
    · intro _; exact ⟨hd, by simp [hin]⟩
    · intro h; cases h
    all_goals intro t'; rcases pc_cases s.pc t t' .unlock with ⟨rfl, h⟩ | ⟨hne, h⟩ <;> simp only [h]
    · intro _; exact hi.cs _ hcs
    · exact hi.cs t'
    · simp [inCS]
    · exact hi.holder t'
    · simp
    · intro hb
      have : inCS (s.pc t') := by rcases hb with hb | hb <;> rw [hb] <;> trivial
      exact (hexcl t' hne hcs this).elim
    · simp
    · intro _; exact hd
    · simp
    · simp
    · simp
    · simp
    · simp
    · intro v hv; exact ⟨(hi.finished t' v hv).1, trivial⟩
  | unlock =>
    have hcs : inCS (s.pc t) := by rw [hpc]; trivial
    have hft : s.flag = true := hi.unlocking t hpc
    refine ⟨hi.flagT, hi.flagF, ?_, ?_, ?_, ?_, ?_, ?_, ?_⟩ <;> intro t' <;>
      rcases pc_cases s.pc t t' .use with ⟨rfl, h⟩ | ⟨hne, h⟩ <;> simp only [h]
    · simp [inCS]
    · intro hc; exact (hexcl t' hne hcs hc).elim
    · simp
    · simp
    · simp
    · exact hi.building t'
    · simp
    · exact hi.built t'
    · simp
    · exact hi.unlocking t'
    · intro _; exact hft
    · exact hi.atUse t'
    · simp
    · exact hi.finished t'
  | use =>
    have hft : s.flag = true := hi.atUse t hpc
    refine ⟨hi.flagT, hi.flagF, ?_, ?_, ?_, ?_, ?_, ?_, ?_⟩ <;> intro t' <;>
      rcases pc_cases s.pc t t' (.done s.data) with ⟨rfl, h⟩ | ⟨hne, h⟩ <;> simp only [h]
    · simp [inCS]
    · exact hi.cs t'
    · intro hl; have := hi.holder _ hl; rw [hpc] at this; exact this.elim
    · exact hi.holder t'
    · simp
    · exact hi.building t'
    · simp
    · exact hi.built t'
    · simp
    · exact hi.unlocking t'
    · simp
    · exact hi.atUse t'
    · intro v hv; cases hv; exact ⟨(hi.flagT hft).1, hft⟩
    · exact hi.finished t'
  | done v => exact hi

theorem inv_run (val : Nat) (sched : List Thread) (s : State) (hi : Inv val s) : Inv val (run val sched s) := by
  unfold run runV
  induction sched generalizing s with
  | nil => exact hi
  | cons t ts ih => exact ih _ (inv_step val t s hi)

/-- a thread is enabled when a step changes its program counter -/
def Enabled (val : Nat) (t : Thread) (s : State) : Prop := (step val t s).pc t ≠ s.pc t

theorem enabled_of_not_blocked (val : Nat) (t : Thread) (s : State)
    (h1 : ∀ v, s.pc t ≠ .done v) (h2 : s.pc t = .lock → s.lock = none) : Enabled val t s := by
  unfold Enabled step stepV
  cases hpc : s.pc t with
  | check => by_cases hf : s.flag = true <;> simp [hf]
  | lock => simp [h2 hpc]
  | recheck => by_cases hf : s.flag = true <;> simp [hf, good]
  | build => simp [good]
  | publish => simp [good]
  | unlock => simp
  | use => simp
  | done v => exact absurd hpc (h1 v)

end XV.Lemmas.LazyInit
