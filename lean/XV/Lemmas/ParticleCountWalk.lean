/-
C08 — counting states: the table walk with loop counter (`validateContent` + `handleRepetitions`) accepts exactly
the children the plain table walk accepts and whose blocks of `Loop` leaves respect the occurrence ranges (`chk`).

  cwalk_iff : Ctx … → Inv prev cur loop →
     (walk ⟨d, some cs⟩ (==) w cur loop idx = .ok ↔ dfaWalk d w cur idx = .ok ∧ chk r prev loop w = true)

Core Lean only.
-/
import XV.Lemmas.ParticleCountCs
namespace XV.Lemmas.ParticleCount
open XV.Spec.ContentModel XV.Model.ContentModel XV.Lemmas.DfaRun XV.Lemmas.DfaTable XV.Model.ParticleDfa
open XV.Model.Particle (occOk)

section
variable {L : Nat} {N : List Nat} {fl states : List StateSet} {rows : List (List (Option Nat))}
variable (infos : List (Nat × Option (Nat × Option Nat))) (emptyOk : Bool) (eoc : Nat)

/-- what is known between two children: `prev` is the previous child (`none`: at the start), `cur` the state -/
def Inv (N : List Nat) (fl states : List StateSet) (rows : List (List (Option Nat))) (prev : Option Nat) (cur loop : Nat) : Prop :=
  match prev with
  | none => cur = 0 ∧ 0 < states.length
  | some x => ∃ p, N[p]? = some x ∧ 1 ≤ cur ∧ states[cur]? = some (fl.getD p 0) ∧
      (rngOf infos x = none → (csOf infos emptyOk eoc N states rows).getD cur none ≠ none → loop = 0)

theorem lt_of_get {states : List StateSet} {i : Nat} {S : StateSet} (h : states[i]? = some S) : i < states.length := by
  by_cases hl : i < states.length
  · exact hl
  · rw [List.getElem?_eq_none (by omega)] at h; cases h

theorem testBit_ne_zero {S : StateSet} {j : Nat} (h : S.testBit j = true) : S ≠ 0 := by
  intro h0; subst h0; simp at h

/-- the state entered by a `Loop` leaf is a counting state with that leaf's occurrence; a counting state entered
    by another leaf belongs to a different element-map entry -/
theorem enter_spec (C : Ctx L N fl states rows (rngOf infos)) {i q y : Nat} (hi : 1 ≤ i)
    (hS : states[i]? = some (fl.getD q 0)) (hy : N[q]? = some y) :
    (∀ mn mx, rngOf infos y = some (mn, mx) →
        (csOf infos emptyOk eoc N states rows).getD i none = some ⟨mn, mx, q⟩) ∧
    (rngOf infos y = none → ∀ o, (csOf infos emptyOk eoc N states rows).getD i none = some o → o.elemIndex ≠ q) := by
  obtain ⟨row, hrow⟩ := C.row_of (lt_of_get hS)
  constructor
  · intro mn mx hr
    obtain ⟨hbit, _, _⟩ := C.loopLeaf q y mn mx hy hr
    have hll : (llOf N)[q]? = some (some y) := (llOf_get N q y).2 hy
    obtain ⟨_, hget⟩ := rowOK_get (C.tbl i row hrow)
    obtain ⟨t, ht, hE⟩ := hget q (some y) hll
    have hstep : stepSet (llOf N) fl (fl.getD q 0) (some y) = fl.getD q 0 := by
      rw [stepSet_nodup (llOf N) fl (llOf_nodup N C.nodup) _ q _ hll, if_pos hbit]
    rw [getD_of_get hS] at hE
    have hq : row[q]? = some (some i) := by
      cases t with
      | none =>
        simp only [EntryOK, hstep] at hE
        exact absurd hE (testBit_ne_zero hbit)
      | some t' =>
        simp only [EntryOK, hstep] at hE
        have hpos : 1 ≤ t' := C.pos row (List.mem_of_getElem? hrow) t' (List.mem_of_getElem? ht)
        have := state_index_inj C.bnd hpos hi hE.1 hS
        subst this
        exact ht
    have huniq : ∀ j, row[j]? = some (some i) → j = q := by
      intro j hj
      obtain ⟨b1, b2⟩ := C.self_col hrow hS hj
      have h1 := C.mono q j b1
      have h2 := C.mono j q (by rw [b2]; exact hbit)
      omega
    rw [cs_complete infos emptyOk eoc i row hrow q hq huniq, eo_get infos q y hll, hr]
  · intro hr o ho heq
    obtain ⟨a, h1, h2, _⟩ := cs_sound infos emptyOk eoc i row hrow o ho
    rw [heq, hy] at h1
    simp only [Option.some.injEq] at h1
    subst h1
    rw [hr] at h2
    cases h2

theorem enter_inv (C : Ctx L N fl states rows (rngOf infos)) {next q y : Nat} (L0 : Nat) (hn : 1 ≤ next)
    (hS : states[next]? = some (fl.getD q 0)) (hy : N[q]? = some y) :
    Inv infos emptyOk eoc N fl states rows (some y) next (enterLoop (csOf infos emptyOk eoc N states rows) next q L0) ∧
    (∀ mn mx, rngOf infos y = some (mn, mx) → enterLoop (csOf infos emptyOk eoc N states rows) next q L0 = 1) := by
  obtain ⟨e1, e2⟩ := enter_spec infos emptyOk eoc C hn hS hy
  constructor
  · refine ⟨q, hy, hn, hS, ?_⟩
    intro hr hne
    unfold enterLoop
    cases hcs : (csOf infos emptyOk eoc N states rows).getD next none with
    | none => exact absurd hcs hne
    | some o =>
      simp only
      rw [if_neg (fun h => e2 hr o hcs h.symm)]
  · intro mn mx hr
    unfold enterLoop
    rw [e1 mn mx hr]
    simp

/-- the initial state is no counting state -/
theorem cs_zero (C : Ctx L N fl states rows (rngOf infos)) (h0 : 0 < states.length) :
    (csOf infos emptyOk eoc N states rows).getD 0 none = none := by
  obtain ⟨row, hrow⟩ := C.row_of h0
  cases hcs : (csOf infos emptyOk eoc N states rows).getD 0 none with
  | none => rfl
  | some o =>
    obtain ⟨a, _, _, h3⟩ := cs_sound infos emptyOk eoc 0 row hrow o hcs
    have := C.pos row (List.mem_of_getElem? hrow) 0 (List.mem_of_getElem? h3)
    omega

/-- the state entered by a `Loop` leaf is a counting state -/
theorem cs_none_case (C : Ctx L N fl states rows (rngOf infos)) {cur p x : Nat} (hp : N[p]? = some x) (hc1 : 1 ≤ cur)
    (hSt : states[cur]? = some (fl.getD p 0))
    (hcs : (csOf infos emptyOk eoc N states rows).getD cur none = none) : rngOf infos x = none := by
  cases hrx : rngOf infos x with
  | none => rfl
  | some mm =>
    obtain ⟨mn, mx⟩ := mm
    have := (enter_spec infos emptyOk eoc C hc1 hSt hp).1 mn mx hrx
    rw [hcs] at this
    cases this

/-- a counting state entered by child `x` (position `p`): either `x` is the `Loop` leaf of the state, or the state
    set coincides with the one the `Loop` leaf enters, which then has minOccurs = 0 -/
theorem cs_some_case (C : Ctx L N fl states rows (rngOf infos)) {cur p x loop : Nat} (hp : N[p]? = some x)
    (hSt : states[cur]? = some (fl.getD p 0))
    (hz : rngOf infos x = none → (csOf infos emptyOk eoc N states rows).getD cur none ≠ none → loop = 0)
    {o : Occ} (hcs : (csOf infos emptyOk eoc N states rows).getD cur none = some o) :
    (∃ a, N[o.elemIndex]? = some a ∧ rngOf infos a = some (o.min, o.max)) ∧
    (fl.getD p 0).testBit o.elemIndex = true ∧ fl.getD o.elemIndex 0 = fl.getD p 0 ∧
    ((rngOf infos x = some (o.min, o.max) ∧ o.elemIndex = p) ∨
     (rngOf infos x = none ∧ o.elemIndex ≠ p ∧ o.min = 0 ∧ loop = 0 ∧ occOk 0 o.max = true)) := by
  obtain ⟨row, hrow⟩ := C.row_of (lt_of_get hSt)
  obtain ⟨a, ha, hra, hself⟩ := cs_sound infos emptyOk eoc cur row hrow o hcs
  obtain ⟨b1, b2⟩ := C.self_col hrow hSt hself
  refine ⟨⟨a, ha, hra⟩, b1, b2, ?_⟩
  have hle : p ≤ o.elemIndex := C.mono p _ b1
  cases hrx : rngOf infos x with
  | some mm =>
    obtain ⟨mn, mx⟩ := mm
    left
    obtain ⟨hbit, _, _⟩ := C.loopLeaf p x mn mx hp hrx
    have h2 := C.mono o.elemIndex p (by rw [b2]; exact hbit)
    have hj : o.elemIndex = p := by omega
    rw [hj, hp] at ha
    simp only [Option.some.injEq] at ha
    subst ha
    rw [hrx] at hra
    exact ⟨hra, hj⟩
  | none =>
    right
    have hne : o.elemIndex ≠ p := by
      intro hj
      rw [hj, hp] at ha
      simp only [Option.some.injEq] at ha
      subst ha
      rw [hrx] at hra
      cases hra
    obtain ⟨_, hocc, hsep⟩ := C.loopLeaf o.elemIndex a o.min o.max ha hra
    have hmin : o.min = 0 := by
      cases hm : o.min with
      | zero => rfl
      | succ k =>
        exfalso
        exact hsep (by omega) p (by omega) b2.symm
    rw [hmin] at hocc
    exact ⟨rfl, hne, hmin, hz hrx (by rw [hcs]; simp), hocc⟩

end
end XV.Lemmas.ParticleCount
