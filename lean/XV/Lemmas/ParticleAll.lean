/-
C08 — lemmas behind `all_iff_permutation`: the code-shaped `AllContentModel::validateContent`
(`allValidate`: first-match lookup, `elementSeen` flags, `numRequiredSeen` counter) accepts exactly the
all-group language (`PLang` of `.all ms`: some order of the members, optional ones may be missing), for member
lists with distinct names.  Core Lean only.
-/
import XV.Lemmas.Particle
import XV.Model.Particle
namespace XV.Lemmas.ParticleAll
open XV.Spec.Particle XV.Model.Particle XV.Lemmas.Particle

variable {α : Type} [DecidableEq α]

/-- a child matches a member when the names are equal (URI id and local part) -/
def EqM : α → α → Prop := fun x a => x = a

/-! ### the all-group language by first child -/

theorem all_nil_iff (rs : List (α × Bool)) : PLang EqM (.all rs) ([] : List α) ↔ rs.all (fun m => m.2) = true := by
  rw [← nullable_iff]; rfl

theorem all_cons_iff (rs : List (α × Bool)) (x : α) (w : List α) :
    PLang EqM (.all rs) (x :: w) ↔ ∃ m, m ∈ rs ∧ m.1 = x ∧ PLang EqM (.all (rs.erase m)) w := by
  rw [← deriv_iff_cons (M := EqM) (fun a => decide (x = a)) x (by intro a; simp [EqM])]
  simp only [Particle.deriv, allDeriv_iff]
  constructor
  · rintro ⟨m, hm, ha, h⟩; exact ⟨m, hm, by simpa using (of_decide_eq_true ha).symm, h⟩
  · rintro ⟨m, hm, ha, h⟩; exact ⟨m, hm, by simp [ha], h⟩

/-! ### the loop state -/

/-- the members whose `elementSeen` flag is still false -/
def unseen : List α → List Bool → List Bool → List (α × Bool)
  | c :: cs, o :: os, s :: ss => if s then unseen cs os ss else (c, o) :: unseen cs os ss
  | _, _, _ => []

/-- number of required members already seen -/
def reqSeen : List Bool → List Bool → Nat
  | o :: os, s :: ss => (if s && !o then 1 else 0) + reqSeen os ss
  | _, _ => 0

theorem findChild_none (x : α) (cs : List α) (k : Nat) (h : findChild x cs k = none) : x ∉ cs := by
  induction cs generalizing k with
  | nil => simp
  | cons c cs ih =>
    unfold findChild at h
    by_cases e : c = x
    · simp [e] at h
    · simp only [e, if_false] at h
      simp only [List.mem_cons, not_or]
      exact ⟨fun e' => e e'.symm, ih _ h⟩

theorem unseen_names (cs : List α) (os ss : List Bool) (m : α × Bool) (h : m ∈ unseen cs os ss) : m.1 ∈ cs := by
  induction cs generalizing os ss with
  | nil => simp [unseen] at h
  | cons c cs ih =>
    cases os with
    | nil => simp [unseen] at h
    | cons o os =>
      cases ss with
      | nil => simp [unseen] at h
      | cons s ss =>
        simp only [unseen] at h
        by_cases hs : s = true
        · simp only [hs, if_true] at h
          exact List.mem_cons_of_mem _ (ih os ss h)
        · simp only [hs] at h
          simp only [Bool.false_eq_true, if_false, List.mem_cons] at h
          rcases h with rfl | h
          · simp
          · exact List.mem_cons_of_mem _ (ih os ss h)

/-- what the lookup of one child finds, in terms of the unseen members -/
theorem findChild_spec (x : α) (cs : List α) (os ss : List Bool) (k : Nat) (hnd : cs.Nodup)
    (hlo : os.length = cs.length) (hls : ss.length = cs.length) :
    match findChild x cs k with
    | none => ∀ m, m ∈ unseen cs os ss → m.1 ≠ x
    | some j => ∃ i, j = k + i ∧
        (ss.getD i false = true → ∀ m, m ∈ unseen cs os ss → m.1 ≠ x) ∧
        (ss.getD i false = false →
          (x, os.getD i false) ∈ unseen cs os ss ∧
          (∀ m, m ∈ unseen cs os ss → m.1 = x → m = (x, os.getD i false)) ∧
          unseen cs os (ss.set i true) = (unseen cs os ss).erase (x, os.getD i false) ∧
          reqSeen os (ss.set i true) = reqSeen os ss + (if os.getD i false then 0 else 1)) := by
  induction cs generalizing os ss k with
  | nil => simp [findChild, unseen]
  | cons c cs ih =>
    cases os with
    | nil => simp at hlo
    | cons o os =>
      cases ss with
      | nil => simp at hls
      | cons s ss =>
        simp only [List.length_cons, Nat.add_right_cancel_iff] at hlo hls
        simp only [List.nodup_cons] at hnd
        unfold findChild
        by_cases e : c = x
        · subst e
          simp only [if_true]
          refine ⟨0, rfl, ?_, ?_⟩
          · intro hs m hm
            simp only [List.getD_cons_zero] at hs
            subst hs
            simp only [unseen, if_true] at hm
            intro e
            exact hnd.1 (e ▸ unseen_names cs os ss m hm)
          · intro hs
            simp only [List.getD_cons_zero] at hs ⊢
            subst hs
            simp only [unseen, Bool.false_eq_true, if_false, List.set_cons_zero, if_true]
            refine ⟨by simp, ?_, by simp, by cases o <;> simp [reqSeen] <;> omega⟩
            intro m hm e
            simp only [List.mem_cons] at hm
            rcases hm with rfl | hm
            · rfl
            · exact absurd (e ▸ unseen_names cs os ss m hm) hnd.1
        · simp only [e, if_false]
          have := ih os ss (k + 1) hnd.2 hlo hls
          cases hf : findChild x cs (k + 1) with
          | none =>
            rw [hf] at this
            intro m hm
            simp only [unseen] at hm
            by_cases hs : s = true
            · simp only [hs, if_true] at hm; exact this m hm
            · simp only [hs, Bool.false_eq_true, if_false, List.mem_cons] at hm
              rcases hm with rfl | hm
              · exact e
              · exact this m hm
          | some j =>
            rw [hf] at this
            obtain ⟨i, rfl, h1, h2⟩ := this
            refine ⟨i + 1, by omega, ?_, ?_⟩
            · intro hs m hm
              simp only [List.getD_cons_succ] at hs
              simp only [unseen] at hm
              by_cases hs' : s = true
              · simp only [hs', if_true] at hm; exact h1 hs m hm
              · simp only [hs', Bool.false_eq_true, if_false, List.mem_cons] at hm
                rcases hm with rfl | hm
                · exact e
                · exact h1 hs m hm
            · intro hs
              simp only [List.getD_cons_succ] at hs ⊢
              obtain ⟨g1, g2, g3, g4⟩ := h2 hs
              simp only [List.set_cons_succ, unseen]
              by_cases hs' : s = true
              · simp only [hs', if_true]
                refine ⟨g1, g2, g3, ?_⟩
                simp [reqSeen, g4]; omega
              · simp only [hs', Bool.false_eq_true, if_false]
                refine ⟨List.mem_cons_of_mem _ g1, ?_, ?_, ?_⟩
                · intro m hm em
                  simp only [List.mem_cons] at hm
                  rcases hm with rfl | hm
                  · exact absurd em e
                  · exact g2 m hm em
                · rw [List.erase_cons_tail (by simp; intro e'; exact absurd e' e), g3]
                · simp [reqSeen, g4]

theorem unseen_all_false (ms : List (α × Bool)) :
    unseen (ms.map (·.1)) (ms.map (·.2)) (List.replicate (ms.map (·.1)).length false) = ms := by
  induction ms with
  | nil => rfl
  | cons m ms ih =>
    simp only [List.map_cons, List.length_cons, List.replicate_succ, unseen, Bool.false_eq_true, if_false]
    rw [ih]

theorem reqSeen_all_false (os : List Bool) (n : Nat) : reqSeen os (List.replicate n false) = 0 := by
  induction os generalizing n with
  | nil => simp [reqSeen]
  | cons o os ih =>
    cases n with
    | zero => simp [reqSeen]
    | succ n => simp [List.replicate_succ, reqSeen, ih]

/-- required members = required seen + required unseen -/
theorem req_split (cs : List α) (os ss : List Bool) (hlo : os.length = cs.length) (hls : ss.length = cs.length) :
    (os.filter (fun o => !o)).length = reqSeen os ss + ((unseen cs os ss).filter (fun m => !m.2)).length := by
  induction cs generalizing os ss with
  | nil =>
    cases os with
    | nil => simp [reqSeen, unseen]
    | cons _ _ => simp at hlo
  | cons c cs ih =>
    cases os with
    | nil => simp at hlo
    | cons o os =>
      cases ss with
      | nil => simp at hls
      | cons s ss =>
        simp only [List.length_cons, Nat.add_right_cancel_iff] at hlo hls
        have := ih os ss hlo hls
        cases o <;> cases s <;> simp [reqSeen, unseen, List.filter_cons, this] <;> omega

theorem all_snd_iff_filter (rs : List (α × Bool)) :
    rs.all (fun m => m.2) = true ↔ (rs.filter (fun m => !m.2)).length = 0 := by
  induction rs with
  | nil => simp
  | cons m rs ih =>
    cases hm : m.2 <;> simp [List.filter_cons, hm, ih]

/-- the model of an all-group with member list `ms` (what the constructor builds, see `buildChildList_members`) -/
def allModelOf (ms : List (α × Bool)) (hasOptionalContent : Bool) : AllModel α :=
  { children := ms.map (·.1), childOptional := ms.map (·.2),
    numRequired := (ms.filter (fun m => !m.2)).length, hasOptionalContent := hasOptionalContent }

/-- the loop invariant: starting from flags `ss` with `n` required members seen, the loop ends with all required
    members seen iff the remaining children are a word of the all-group of the unseen members -/
theorem allLoop_iff (ms : List (α × Bool)) (hoc : Bool) (hnd : (ms.map (·.1)).Nodup) (w : List α)
    (out : Nat) (ss : List Bool) (hls : ss.length = (ms.map (·.1)).length) :
    (match allLoop (allModelOf ms hoc) w out ss (reqSeen (ms.map (·.2)) ss) with
     | .error _ => False
     | .ok n' => n' = (allModelOf ms hoc).numRequired)
    ↔ PLang EqM (.all (unseen (ms.map (·.1)) (ms.map (·.2)) ss)) w := by
  have hlo : (ms.map (·.2)).length = (ms.map (·.1)).length := by simp
  induction w generalizing out ss with
  | nil =>
    simp only [allLoop, allModelOf]
    rw [all_nil_iff, all_snd_iff_filter]
    have := req_split (ms.map (·.1)) (ms.map (·.2)) ss hlo hls
    have e : ((ms.map (·.2)).filter (fun o => !o)).length = (ms.filter (fun m => !m.2)).length := by
      rw [List.filter_map, List.length_map]; rfl
    omega
  | cons x w ih =>
    rw [all_cons_iff]
    have spec := findChild_spec x (ms.map (·.1)) (ms.map (·.2)) ss 0 hnd hlo hls
    unfold allLoop
    simp only [allModelOf] at spec ⊢
    cases hf : findChild x (ms.map (·.1)) 0 with
    | none =>
      rw [hf] at spec
      simp only
      constructor
      · intro h; cases h
      · rintro ⟨m, hm, e, _⟩; exact absurd e (spec m hm)
    | some j =>
      rw [hf] at spec
      obtain ⟨i, rfl, h1, h2⟩ := spec
      simp only [Nat.zero_add]
      by_cases hs : ss.getD i false = true
      · simp only [hs, if_true]
        constructor
        · intro h; cases h
        · rintro ⟨m, hm, e, _⟩; exact absurd e (h1 hs m hm)
      · have hs' : ss.getD i false = false := by simpa using hs
        obtain ⟨g1, g2, g3, g4⟩ := h2 hs'
        simp only [hs', Bool.false_eq_true, if_false]
        have ih' := ih (out + 1) (ss.set i true) (by simpa using hls)
        rw [g4] at ih'
        have ecount : (if (ms.map (·.2)).getD i false = true then reqSeen (ms.map (·.2)) ss
            else reqSeen (ms.map (·.2)) ss + 1)
            = reqSeen (ms.map (·.2)) ss + (if (ms.map (·.2)).getD i false = true then 0 else 1) := by
          split <;> rfl
        rw [ecount]
        refine ih'.trans ?_
        rw [g3]
        constructor
        · intro h; exact ⟨_, g1, rfl, h⟩
        · rintro ⟨m, hm, e, h⟩
          rw [g2 m hm e] at h
          exact h

/-- `AllContentModel::validateContent` accepts exactly: the empty content of an all-group with minOccurs = 0,
    or a word of the all-group — some order of the members in which only optional members are missing. -/
theorem allValidate_iff (ms : List (α × Bool)) (hoc : Bool) (hnd : (ms.map (·.1)).Nodup) (w : List α) :
    allValidate (allModelOf ms hoc) w = none ↔ (w = [] ∧ hoc = true) ∨ PLang EqM (.all ms) w := by
  have key := allLoop_iff ms hoc hnd w 0 (List.replicate (ms.map (·.1)).length false) (by simp)
  rw [unseen_all_false, reqSeen_all_false] at key
  have ech : (allModelOf ms hoc).children.length = (ms.map (·.1)).length := rfl
  unfold allValidate
  rw [ech]
  cases w with
  | nil =>
    simp only [allLoop] at key
    by_cases h : (allModelOf ms hoc).hasOptionalContent = true ∨ (allModelOf ms hoc).numRequired = 0
    · rw [if_pos ⟨rfl, h⟩]
      refine ⟨fun _ => ?_, fun _ => rfl⟩
      rcases h with h | h
      · exact .inl ⟨rfl, h⟩
      · exact .inr (key.1 h.symm)
    · rw [if_neg (fun hh => h hh.2)]
      simp only [allLoop]
      have h' := not_or.1 h
      have h2 : (0 : Nat) ≠ (allModelOf ms hoc).numRequired := fun e => h'.2 e.symm
      rw [if_pos h2]
      refine ⟨fun hh => (by cases hh), ?_⟩
      rintro (⟨_, hh⟩ | hh)
      · exact absurd hh h'.1
      · exact absurd (key.2 hh) h2
  | cons x w =>
    rw [if_neg (by simp)]
    cases hl : allLoop (allModelOf ms hoc) (x :: w) 0 (List.replicate (ms.map (·.1)).length false) 0 with
    | error i =>
      simp only [hl] at key
      refine ⟨fun h => (by cases h), ?_⟩
      rintro (⟨h, _⟩ | h)
      · cases h
      · exact (key.2 h).elim
    | ok n' =>
      simp only [hl] at key
      by_cases hn : n' = (allModelOf ms hoc).numRequired
      · refine ⟨fun _ => .inr (key.1 hn), fun _ => ?_⟩
        simp [hn]
      · refine ⟨fun h => ?_, ?_⟩
        · simp [hn] at h
        · rintro (⟨h, _⟩ | h)
          · cases h
          · exact absurd (key.2 h) hn


/-! ### the constructor collects the members -/

/-- the trees `convertContentSpecTree` produces below (and including) an `All` node -/
def xAllShape : XNode α → Bool
  | .leaf _ => true
  | .unary .ZeroOrOne (.leaf _) => true
  | .bin .All x y => xAllShape x && xAllShape y
  | _ => false

omit [DecidableEq α] in
theorem buildChildList_members (x : XNode α) (h : xAllShape x = true) (cs : List α) (os : List Bool) (n : Nat) :
    buildChildList x (cs, os, n) =
      some (cs ++ x.allMembers.map (·.1), os ++ x.allMembers.map (·.2), n + (x.allMembers.filter (fun m => !m.2)).length) := by
  induction x generalizing cs os n with
  | leaf a => simp [buildChildList, XNode.allMembers]
  | unary t y _ =>
    cases t <;> cases y <;> simp_all [xAllShape, buildChildList, XNode.allMembers]
  | bin t x y ihx ihy =>
    cases t with
    | All =>
      simp only [xAllShape, Bool.and_eq_true] at h
      simp only [buildChildList, ihx h.1, ihy h.2, XNode.allMembers, List.map_append, List.filter_append,
        List.length_append, List.append_assoc, Nat.add_assoc]
    | Sequence => simp [xAllShape] at h
    | Choice => simp [xAllShape] at h
  | loopRep o mn mx y _ => simp [xAllShape] at h

omit [DecidableEq α] in
/-- the constructor builds exactly the model of the member list -/
theorem mkAllModel_eq (root : XNode α) (h : xAllShape root = true) (hoc : Bool) :
    mkAllModel root hoc = some (allModelOf root.allMembers hoc) := by
  unfold mkAllModel
  rw [buildChildList_members root h]
  simp [allModelOf]

end XV.Lemmas.ParticleAll
