/-
C07 — `buildSyntaxTree` (code-shaped, bit masks, threaded `curIndex`/`fLeafList`/`fFollowList`) computes exactly the
pure nullable/first/last/fol of XV.Lemmas.Glushkov: `buildSyntaxTree_spec`.  Core Lean only.
-/
import XV.Lemmas.Glushkov
import XV.Model.ContentModel
namespace XV.Lemmas.DfaTree
open XV.Spec.ContentModel XV.Model.ContentModel XV.Lemmas.Glushkov

/-! ### bit sets -/

theorem testBit_bit (p q : Nat) : (bit p).testBit q = decide (p = q) := by
  unfold bit; rw [Nat.one_shiftLeft, Nat.testBit_two_pow]

theorem getD_addFollow (fl : List StateSet) (l f : StateSet) (p : Nat) :
    (addFollow fl l f).getD p 0 = if l.testBit p then fl.getD p 0 ||| (if p < fl.length then f else 0) else fl.getD p 0 := by
  unfold addFollow
  simp only [List.getD_eq_getElem?_getD, List.getElem?_mapIdx]
  by_cases hp : p < fl.length
  · rw [List.getElem?_eq_getElem hp]; simp [hp]
  · rw [List.getElem?_eq_none (by omega)]; simp [hp]

theorem length_addFollow (fl : List StateSet) (l f : StateSet) : (addFollow fl l f).length = fl.length := by
  unfold addFollow; simp

theorem testBit_addFollow (fl : List StateSet) (l f : StateSet) (p q : Nat) :
    ((addFollow fl l f).getD p 0).testBit q =
      ((fl.getD p 0).testBit q || (decide (p < fl.length) && l.testBit p && f.testBit q)) := by
  rw [getD_addFollow]
  by_cases hl : l.testBit p = true
  · by_cases hp : p < fl.length <;> simp [hl, hp, Nat.testBit_or]
  · simp [hl]

/-- what `buildSyntaxTree` returns for the tree of a particle -/
structure TreeSpec (c : CM) (st : BState) (info : CMInfo) (st' : BState) : Prop where
  nullable : info.nullable = nullable c
  first : ∀ p, info.firstPos.testBit p = first c st.curIndex p
  last : ∀ p, info.lastPos.testBit p = last c st.curIndex p
  cur : st'.curIndex = st.curIndex + size c
  leaves : st'.leafList = st.leafList ++ (names c).map some
  len : st'.followList.length = st.followList.length
  follow : ∀ p q, (st'.followList.getD p 0).testBit q =
    ((st.followList.getD p 0).testBit q || (decide (p < st.followList.length) && fol c st.curIndex p q))

theorem buildSyntaxTree_spec (c : CM) : ∀ (st : BState),
    TreeSpec c st (buildSyntaxTree (nodeOfCM c) st).1 (buildSyntaxTree (nodeOfCM c) st).2 := by
  induction c with
  | leaf n =>
    intro st
    simp only [nodeOfCM, buildSyntaxTree]
    have hb : ∀ p : Nat, (p == st.curIndex) = decide (st.curIndex = p) := by
      intro p
      by_cases h : p = st.curIndex
      · subst h; simp
      · have h' : ¬ st.curIndex = p := fun e => h e.symm
        simp [h, h']
    constructor <;> simp [nullable, first, last, size, names, fol, QN.rawName, testBit_bit, hb]
  | seq a b iha ihb =>
    intro st
    have ha := iha st
    have hb := ihb (buildSyntaxTree (nodeOfCM a) st).2
    simp only [nodeOfCM, buildSyntaxTree, if_true]
    generalize buildSyntaxTree (nodeOfCM a) st = ra at ha hb
    obtain ⟨l, st1⟩ := ra
    generalize buildSyntaxTree (nodeOfCM b) st1 = rb at hb
    obtain ⟨r, st2⟩ := rb
    simp only at ha hb ⊢
    have hcur : st1.curIndex = st.curIndex + size a := ha.cur
    constructor
    · simp [nullable, ha.nullable, hb.nullable]
    · intro p
      simp only [first, ← ha.nullable]
      cases hn : l.nullable <;> simp [Nat.testBit_or, ha.first, hb.first, hcur]
    · intro p
      simp only [last, ← hb.nullable]
      cases hn : r.nullable <;> simp [Nat.testBit_or, ha.last, hb.last, hcur]
    · simp only [size, hb.cur, hcur]; omega
    · simp [names, hb.leaves, ha.leaves]
    · simp [length_addFollow, hb.len, ha.len]
    · intro p q
      rw [testBit_addFollow, hb.follow, ha.follow, hb.len, ha.len, ha.last, hb.first, hcur]
      simp only [fol]
      cases decide (p < st.followList.length) <;> simp [Bool.or_assoc]
  | choice a b iha ihb =>
    intro st
    have ha := iha st
    have hb := ihb (buildSyntaxTree (nodeOfCM a) st).2
    simp only [nodeOfCM, buildSyntaxTree]
    generalize buildSyntaxTree (nodeOfCM a) st = ra at ha hb
    obtain ⟨l, st1⟩ := ra
    generalize buildSyntaxTree (nodeOfCM b) st1 = rb at hb
    obtain ⟨r, st2⟩ := rb
    simp only at ha hb ⊢
    have hcur : st1.curIndex = st.curIndex + size a := ha.cur
    rw [if_neg (by decide)]
    constructor
    · simp [nullable, ha.nullable, hb.nullable]
    · intro p; simp [first, Nat.testBit_or, ha.first, hb.first, hcur]
    · intro p; simp [last, Nat.testBit_or, ha.last, hb.last, hcur]
    · simp only [size, hb.cur, hcur]; omega
    · simp [names, hb.leaves, ha.leaves]
    · simp [hb.len, ha.len]
    · intro p q
      rw [hb.follow, ha.follow, ha.len, hcur]
      simp only [fol]
      cases decide (p < st.followList.length) <;> simp [Bool.or_assoc]
  | opt a iha =>
    intro st
    have ha := iha st
    simp only [nodeOfCM, buildSyntaxTree]
    generalize buildSyntaxTree (nodeOfCM a) st = ra at ha
    obtain ⟨l, st1⟩ := ra
    simp only at ha ⊢
    constructor
    · simp [nullable]
    · exact ha.first
    · exact ha.last
    · simpa [size] using ha.cur
    · simpa [names] using ha.leaves
    · simpa using ha.len
    · intro p q; simpa [fol] using ha.follow p q
  | star a iha =>
    intro st
    have ha := iha st
    simp only [nodeOfCM, buildSyntaxTree]
    generalize buildSyntaxTree (nodeOfCM a) st = ra at ha
    obtain ⟨l, st1⟩ := ra
    simp only at ha ⊢
    constructor
    · simp [nullable]
    · exact ha.first
    · exact ha.last
    · simpa [size] using ha.cur
    · simpa [names] using ha.leaves
    · simp [length_addFollow, ha.len]
    · intro p q
      simp only [decide_true, Bool.true_or, if_true]
      rw [testBit_addFollow, ha.follow, ha.len, ha.last, ha.first]
      simp only [fol]
      cases decide (p < st.followList.length) <;> simp [Bool.or_assoc]
  | plus a iha =>
    intro st
    have ha := iha st
    simp only [nodeOfCM, buildSyntaxTree]
    generalize buildSyntaxTree (nodeOfCM a) st = ra at ha
    obtain ⟨l, st1⟩ := ra
    simp only at ha ⊢
    constructor
    · simp [nullable, ha.nullable]
    · exact ha.first
    · exact ha.last
    · simpa [size] using ha.cur
    · simpa [names] using ha.leaves
    · simp [length_addFollow, ha.len]
    · intro p q
      simp only [decide_true, Bool.or_true, if_true]
      rw [testBit_addFollow, ha.follow, ha.len, ha.last, ha.first]
      simp only [fol]
      cases decide (p < st.followList.length) <;> simp [Bool.or_assoc]

end XV.Lemmas.DfaTree
