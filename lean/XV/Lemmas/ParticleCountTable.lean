/-
C08 — counting states: additional facts about the table `buildDFA` constructs (C07 model):
  * transitions never lead to the initial state, the state sets after the initial one are pairwise different
    (`dfaLoop_extra`), hence equal state sets mean equal state indices (`state_index_inj`);
  * with pairwise different leaf names one subset-construction step is "follow set of the one position carrying
    the name" (`stepSet_nodup`), the element map is the leaf list (`elemMapOf_nodup`) and the element-map search
    of `validateContent` / `handleRepetitions` can only stop at that position (`findTransGo_sound`).
Core Lean only.
-/
import XV.Lemmas.DfaFinal
import XV.Model.ParticleDfa
namespace XV.Lemmas.ParticleCount
open XV.Spec.ContentModel XV.Model.ContentModel XV.Lemmas.DfaRun XV.Lemmas.DfaTable XV.Model.ParticleDfa

/-! ### transitions never target state 0; state sets stay pairwise different -/

def PosRow (row : List (Option Nat)) : Prop := ∀ t, some t ∈ row → 1 ≤ t

theorem findState_pos {states : List StateSet} {s : StateSet} {j : Nat} (h : findState states s = some j) : 1 ≤ j := by
  cases states with
  | nil => simp [findState] at h
  | cons s0 rest =>
    simp only [findState, Option.map_eq_some_iff] at h
    obtain ⟨i, _, rfl⟩ := h
    omega

theorem buildRow_pos (ll : List (Option Name)) (fl : List StateSet) (S : StateSet) :
    ∀ (es : List (Option Name)) (states : List StateSet) (row : List (Option Nat)), states ≠ [] → PosRow row →
      PosRow (buildRow ll fl S es states row).2 := by
  intro es
  induction es with
  | nil => intro states row _ hr; simpa [buildRow] using hr
  | cons e es ih =>
    intro states row hne hr
    simp only [buildRow]
    by_cases h0 : stepSet ll fl S e = 0
    · rw [if_pos h0]
      apply ih states _ hne
      intro t ht
      simp only [List.mem_append, List.mem_singleton] at ht
      rcases ht with ht | ht
      · exact hr t ht
      · cases ht
    · rw [if_neg h0]
      cases hf : findState states (stepSet ll fl S e) with
      | some j =>
        simp only
        apply ih states _ hne
        intro t ht
        simp only [List.mem_append, List.mem_singleton, Option.some.injEq] at ht
        rcases ht with ht | ht
        · exact hr t ht
        · subst ht; exact findState_pos hf
      | none =>
        simp only
        apply ih _ _ (by simp)
        intro t ht
        simp only [List.mem_append, List.mem_singleton, Option.some.injEq] at ht
        rcases ht with ht | ht
        · exact hr t ht
        · subst ht
          cases states with
          | nil => exact absurd rfl hne
          | cons s0 rest => simp

theorem dfaLoop_extra (ll : List (Option Name)) (fl : List StateSet) (L : Nat) (hb : ∀ S e, stepSet ll fl S e < 2 ^ L)
    (em : List (Option Name)) :
    ∀ (fuel : Nat) (states : List StateSet) (rows : List (List (Option Nat))) (st' : List StateSet)
      (rows' : List (List (Option Nat))),
      Bounded L states → (∀ row, row ∈ rows → PosRow row) → dfaLoop ll fl em fuel states rows = some (st', rows') →
      Bounded L st' ∧ ∀ row, row ∈ rows' → PosRow row := by
  intro fuel
  induction fuel with
  | zero => intro states rows st' rows' _ _ h; simp [dfaLoop] at h
  | succ fuel ih =>
    intro states rows st' rows' hB hP h
    simp only [dfaLoop] at h
    cases hs : states[rows.length]? with
    | none =>
      rw [hs] at h
      simp only [Option.some.injEq, Prod.mk.injEq] at h
      obtain ⟨rfl, rfl⟩ := h
      exact ⟨hB, hP⟩
    | some setT =>
      rw [hs] at h
      simp only at h
      obtain ⟨ext, r, h1, _, h3⟩ := buildRow_spec ll fl L hb setT em states [] hB
      have hpos := buildRow_pos ll fl setT em states [] hB.1 (by intro t ht; cases ht)
      rw [h1] at h hpos
      simp only [List.nil_append] at h hpos
      refine ih (states ++ ext) (rows ++ [r]) st' rows' h3 ?_ h
      intro row hrow
      simp only [List.mem_append, List.mem_singleton] at hrow
      rcases hrow with hrow | rfl
      · exact hP row hrow
      · exact hpos

/-- state indices ≥ 1 are determined by the state set -/
theorem state_index_inj {L : Nat} {states : List StateSet} (hB : Bounded L states) {i j : Nat} {s : StateSet}
    (hi : 1 ≤ i) (hj : 1 ≤ j) (h1 : states[i]? = some s) (h2 : states[j]? = some s) : i = j := by
  cases states with
  | nil => exact absurd rfl hB.1
  | cons s0 rest =>
    have hnd : rest.Nodup := hB.2.1
    obtain ⟨i', rfl⟩ : ∃ i', i = i' + 1 := ⟨i - 1, by omega⟩
    obtain ⟨j', rfl⟩ : ∃ j', j = j' + 1 := ⟨j - 1, by omega⟩
    simp only [List.getElem?_cons_succ] at h1 h2
    have hi' : i' < rest.length := by
      by_cases h : i' < rest.length
      · exact h
      · rw [List.getElem?_eq_none (by omega)] at h1; cases h1
    have := (List.getElem?_inj hi' hnd).1 (h1.trans h2.symm)
    omega

/-! ### rows -/

theorem rowOK_get {ll : List (Option Name)} {fl : List StateSet} {states : List StateSet} {S : StateSet} :
    ∀ {es : List (Option Name)} {row : List (Option Nat)}, RowOK ll fl states S es row →
      row.length = es.length ∧
      ∀ (j : Nat) (e : Option Name), es[j]? = some e → ∃ t, row[j]? = some t ∧ EntryOK ll fl states S e t := by
  intro es
  induction es with
  | nil =>
    intro row h
    cases row with
    | nil => exact ⟨rfl, by intro j e h; simp at h⟩
    | cons => exact h.elim
  | cons e es ih =>
    intro row h
    cases row with
    | nil => exact h.elim
    | cons t ts =>
      obtain ⟨h1, h2⟩ := ih h.2
      refine ⟨by simp [h1], ?_⟩
      intro j e' hj
      cases j with
      | zero =>
        simp only [List.getElem?_cons_zero, Option.some.injEq] at hj
        subst hj
        exact ⟨t, by simp, h.1⟩
      | succ j =>
        simp only [List.getElem?_cons_succ] at hj ⊢
        exact h2 j e' hj

/-! ### pairwise different leaf names -/

theorem stepSet_nodup (ll : List (Option Name)) (fl : List StateSet) (hn : ll.Nodup) (S : StateSet) (j : Nat)
    (e : Option Name) (hj : ll[j]? = some e) :
    stepSet ll fl S e = if S.testBit j then fl.getD j 0 else 0 := by
  have hjl : j < ll.length := by
    by_cases h : j < ll.length
    · exact h
    · rw [List.getElem?_eq_none (by omega)] at hj; cases hj
  apply Nat.eq_of_testBit_eq
  intro q
  cases hq : (stepSet ll fl S e).testBit q with
  | true =>
    obtain ⟨p, h1, h2, h3⟩ := (testBit_stepSet ll fl S e q).1 hq
    have hpj : j = p := (List.getElem?_inj hjl hn).1 (hj.trans h1.symm)
    subst hpj
    rw [if_pos h2]; exact h3.symm
  | false =>
    by_cases hS : S.testBit j = true
    · rw [if_pos hS]
      cases hf : (fl.getD j 0).testBit q with
      | false => rfl
      | true =>
        have := (testBit_stepSet ll fl S e q).2 ⟨j, hj, hS, hf⟩
        rw [hq] at this; cases this
    · rw [if_neg hS]; simp

theorem elemMapOf_nodup_acc : ∀ (l acc : List (Option Name)), (acc ++ l).Nodup → elemMapOf l acc = acc ++ l := by
  intro l
  induction l with
  | nil => intro acc _; simp [elemMapOf]
  | cons n ns ih =>
    intro acc h
    simp only [elemMapOf]
    have hn : ¬ acc.contains n = true := by
      intro hc
      have hm : n ∈ acc := by simpa using hc
      rw [List.nodup_append] at h
      exact h.2.2 n hm n (by simp) rfl
    rw [if_neg hn]
    have h' : (acc ++ [n] ++ ns).Nodup := by simpa using h
    rw [ih (acc ++ [n]) h']
    simp

theorem elemMapOf_nodup (l : List (Option Name)) (h : l.Nodup) : elemMapOf l [] = l := by
  simpa using elemMapOf_nodup_acc l [] (by simpa using h)

/-- where the element-map search can stop -/
theorem findTransGo_sound (y : Nat) :
    ∀ (es : List (Option Nat)) (ts : List (Option Nat)) (idx from_ e t : Nat),
      findTransGo (fun x a => x == a) y es ts idx from_ = some (e, t) →
      from_ ≤ e ∧ idx ≤ e ∧ es[e - idx]? = some (some y) ∧ ts[e - idx]? = some (some t) := by
  intro es
  induction es with
  | nil => intro ts idx from_ e t h; simp [findTransGo] at h
  | cons e0 es ih =>
    intro ts idx from_ e t h
    cases ts with
    | nil => simp [findTransGo] at h
    | cons t0 ts =>
      have rec_ : findTransGo (fun x a => x == a) y es ts (idx + 1) from_ = some (e, t) →
          from_ ≤ e ∧ idx ≤ e ∧ (e0 :: es)[e - idx]? = some (some y) ∧ (t0 :: ts)[e - idx]? = some (some t) := by
        intro h'
        obtain ⟨a1, a2, a3, a4⟩ := ih ts (idx + 1) from_ e t h'
        have he : e - idx = (e - (idx + 1)) + 1 := by omega
        refine ⟨a1, by omega, ?_, ?_⟩
        · rw [he]; simpa using a3
        · rw [he]; simpa using a4
      unfold findTransGo at h
      by_cases hlt : idx < from_
      · rw [if_pos hlt] at h; exact rec_ h
      · rw [if_neg hlt] at h
        cases e0 with
        | none => exact rec_ h
        | some a =>
          simp only at h
          by_cases hya : (y == a) = true
          · rw [if_pos hya] at h
            cases t0 with
            | none => exact rec_ h
            | some next =>
              simp only [Option.some.injEq, Prod.mk.injEq] at h
              obtain ⟨rfl, rfl⟩ := h
              have : y = a := by simpa using hya
              subst this
              exact ⟨by omega, by omega, by simp, by simp⟩
          · rw [if_neg hya] at h; exact rec_ h

end XV.Lemmas.ParticleCount
