/- Helper lemmas for C06: string pool facts, the encoded lookup, the representation invariant `Rep` that ties an
   `ElemStack` state to the abstract chain of declaration lists, and its preservation by every operation. -/
import XV.Model.ElemStack
import XV.Spec.Namespace
namespace XV.Lemmas.ElemStack
open XV.Model.ElemStack XV.Spec.Namespace XV.Gen.ElemStackConsts

-- ------------------------------------------------------------------------------------------ pools
theorem getId_ne_zero_iff {pool : Pool} {s : String} : getId pool s ≠ 0 ↔ s ∈ pool := by
  unfold getId
  constructor
  · intro h
    by_cases hl : List.idxOf s pool < pool.length
    · exact List.idxOf_lt_length_iff.mp hl
    · simp [hl] at h
  · intro h
    have hl := List.idxOf_lt_length_iff.mpr h
    simp [hl, poolFirstId]

theorem getId_eq_zero_iff {pool : Pool} {s : String} : getId pool s = 0 ↔ s ∉ pool := by
  rw [← getId_ne_zero_iff]; simp

theorem getId_of_mem {pool : Pool} {s : String} (h : s ∈ pool) : getId pool s = List.idxOf s pool + 1 := by
  unfold getId
  simp [List.idxOf_lt_length_iff.mpr h, poolFirstId]

theorem getId_inj {pool : Pool} {s t : String} (hs : s ∈ pool) (ht : t ∈ pool)
    (h : getId pool s = getId pool t) : s = t := by
  rw [getId_of_mem hs, getId_of_mem ht] at h
  have h' : List.idxOf s pool = List.idxOf t pool := by omega
  have e1 := List.getElem_idxOf (List.idxOf_lt_length_iff.mpr hs)
  have e2 := List.getElem_idxOf (List.idxOf_lt_length_iff.mpr ht)
  rw [← e1, ← e2]
  simp [h']

theorem valueForId_getId {pool : Pool} {s : String} (h : s ∈ pool) : valueForId pool (getId pool s) = some s := by
  rw [getId_of_mem h]
  unfold valueForId
  have hl := List.idxOf_lt_length_iff.mpr h
  simp [poolFirstId, List.getElem?_eq_getElem hl, List.getElem_idxOf hl]

theorem getId_append {pool l : Pool} {s : String} (h : s ∈ pool) : getId (pool ++ l) s = getId pool s := by
  rw [getId_of_mem h, getId_of_mem (List.mem_append_left l h), List.idxOf_append]
  simp [h]

theorem addOrFind_fst (pool : Pool) (s : String) :
    (addOrFind pool s).1 = pool ++ (if s ∈ pool then [] else [s]) := by
  unfold addOrFind
  by_cases h : s ∈ pool
  · simp [getId_ne_zero_iff.mpr h, h]
  · simp [getId_eq_zero_iff.mpr h, h]

theorem addOrFind_mem (pool : Pool) (s : String) : s ∈ (addOrFind pool s).1 := by
  rw [addOrFind_fst]
  by_cases h : s ∈ pool <;> simp [h]

theorem addOrFind_snd (pool : Pool) (s : String) : (addOrFind pool s).2 = getId (addOrFind pool s).1 s := by
  by_cases h : s ∈ pool
  · have h0 := getId_ne_zero_iff.mpr h
    simp [addOrFind, h0]
  · have h0 := getId_eq_zero_iff.mpr h
    have hm : s ∈ pool ++ [s] := by simp
    simp only [addOrFind, h0, ne_eq, not_true_eq_false, ↓reduceIte]
    rw [getId_of_mem hm, List.idxOf_append]
    simp [h, poolFirstId]

theorem getId_addOrFind {pool : Pool} {s t : String} (h : s ∈ pool) :
    getId (addOrFind pool t).1 s = getId pool s := by
  rw [addOrFind_fst]; exact getId_append h

theorem mem_addOrFind {pool : Pool} {s t : String} (h : s ∈ pool) : s ∈ (addOrFind pool t).1 := by
  rw [addOrFind_fst]; exact List.mem_append_left _ h


-- ------------------------------------------------------------------------------------------ encoded lookups
/-- the valid part of a row's map -/
def valid (r : StackElem) : List PrefMapElem := r.fMap.take r.fMapCount

def findE (l : List PrefMapElem) (pid : Nat) : Option Nat :=
  (l.find? (fun e => e.fPrefId == pid)).map (·.fURIId)

def nearestE : List (List PrefMapElem) → Nat → Option Nat
  | [], _ => none
  | l :: outer, pid => match findE l pid with
      | some u => some u
      | none => nearestE outer pid

theorem searchRow_eq (r : StackElem) (pid : Nat) : searchRow r pid = findE (valid r) pid := rfl

theorem nearestE_append (a b : List (List PrefMapElem)) (pid : Nat) :
    nearestE (a ++ b) pid = match nearestE a pid with | some u => some u | none => nearestE b pid := by
  induction a with
  | nil => simp [nearestE]
  | cons l a ih =>
    simp only [List.cons_append, nearestE]
    cases findE l pid with
    | some u => rfl
    | none => simpa using ih

theorem searchStack_eq (rows : List StackElem) (pid : Nat) :
    ∀ n, n ≤ rows.length → searchStack rows pid n = nearestE ((rows.take n).map valid).reverse pid := by
  intro n
  induction n with
  | zero => intro _; simp [searchStack, nearestE]
  | succ n ih =>
    intro hn
    have hlt : n < rows.length := by omega
    rw [searchStack, List.getElem?_eq_getElem hlt]
    simp only [List.take_add_one, List.getElem?_eq_getElem hlt, Option.toList_some, List.map_append,
      List.map_cons, List.map_nil, List.reverse_append, List.reverse_cons, List.reverse_nil, List.nil_append,
      List.cons_append, nearestE, searchRow_eq]
    cases findE (valid rows[n]) pid with
    | some u => rfl
    | none => exact ih (by omega)

/-- a declaration as stored in a row -/
def enc (pp up : Pool) (d : Decl) : PrefMapElem := ⟨getId pp d.pre, getId up d.uri⟩

theorem findE_enc (pp up : Pool) (l : Level) (p : String) (hl : ∀ d ∈ l, d.pre ∈ pp) (hp : p ∈ pp) :
    findE (l.map (enc pp up)) (getId pp p) = (declOf l p).map (getId up) := by
  induction l with
  | nil => simp [findE, declOf]
  | cons d ds ih =>
    have hd : d.pre ∈ pp := hl d (by simp)
    have ih' := ih (fun x hx => hl x (by simp [hx]))
    by_cases e : d.pre = p
    · simp [findE, declOf, enc, e]
    · have ne : ((enc pp up d).fPrefId == getId pp p) = false := by
        simp only [enc, beq_eq_false_iff_ne, ne_eq]
        exact fun h => e (getId_inj hd hp h)
      have h1 : findE (List.map (enc pp up) (d :: ds)) (getId pp p)
          = findE (List.map (enc pp up) ds) (getId pp p) := by
        simp only [findE, List.map_cons, List.find?_cons, ne]
      rw [h1, ih']
      simp [declOf, e]

theorem nearestE_enc (pp up : Pool) (ls : List Level) (p : String) (hl : ∀ l ∈ ls, ∀ d ∈ l, d.pre ∈ pp)
    (hp : p ∈ pp) :
    nearestE (ls.map (·.map (enc pp up))) (getId pp p) = (nearest ls p).map (getId up) := by
  induction ls with
  | nil => simp [nearestE, nearest]
  | cons l ls ih =>
    have ih' := ih (fun x hx => hl x (by simp [hx]))
    simp only [List.map_cons, nearestE, nearest, findE_enc pp up l p (hl l (by simp)) hp]
    cases declOf l p with
    | some u => simp
    | none => simpa using ih'

theorem findE_none_of_not_mem (l : List PrefMapElem) (pid : Nat) (h : ∀ e ∈ l, e.fPrefId ≠ pid) :
    findE l pid = none := by
  unfold findE
  rw [List.find?_eq_none.mpr]
  · rfl
  · intro x hx; simpa using h x hx

theorem declOf_none_of_not_mem (l : Level) (p : String) (h : ∀ d ∈ l, d.pre ≠ p) : declOf l p = none := by
  induction l with
  | nil => rfl
  | cons d ds ih =>
    have := h d (by simp)
    simp [declOf, this, ih (fun x hx => h x (by simp [hx]))]

theorem nearest_none_of_not_mem (ls : List Level) (p : String) (h : ∀ l ∈ ls, ∀ d ∈ l, d.pre ≠ p) :
    nearest ls p = none := by
  induction ls with
  | nil => rfl
  | cons l ls ih =>
    simp [nearest, declOf_none_of_not_mem l p (h l (by simp)), ih (fun x hx => h x (by simp [hx]))]

theorem enc_append {pp up : Pool} (l1 l2 : Pool) {d : Decl} (hp : d.pre ∈ pp) (hu : d.uri ∈ up) :
    enc (pp ++ l1) (up ++ l2) d = enc pp up d := by
  simp [enc, getId_append hp, getId_append hu]


theorem map_enc_append {pp up : Pool} (l1 l2 : Pool) (l : Level)
    (h : ∀ d ∈ l, d.pre ∈ pp ∧ d.uri ∈ up) :
    l.map (enc (pp ++ l1) (up ++ l2)) = l.map (enc pp up) :=
  List.map_congr_left (fun d hd => enc_append l1 l2 (h d hd).1 (h d hd).2)

theorem map_map_enc_append {pp up : Pool} (l1 l2 : Pool) (ls : List Level)
    (h : ∀ l ∈ ls, ∀ d ∈ l, d.pre ∈ pp ∧ d.uri ∈ up) :
    ls.map (·.map (enc (pp ++ l1) (up ++ l2))) = ls.map (·.map (enc pp up)) :=
  List.map_congr_left (fun l hl => map_enc_append l1 l2 l (h l hl))

-- ------------------------------------------------------------------------------------------ abstract meaning of the operations
/-- What the operations mean on the Spec side: `g` = application-supplied global bindings, `stack` = the
    declaration lists of the open elements, innermost FIRST (so the Spec's `Path` is `stack.reverse`). -/
structure Abs where
  g : Level := []
  stack : List Level := []
deriving Repr

def Abs.step (a : Abs) : Op → Abs
  | .addLevel => { a with stack := [] :: a.stack }
  | .popTop => { a with stack := a.stack.tail }
  | .addPrefix p u => match a.stack with
      | [] => a                                         -- EmptyStackException: nothing changes
      | l :: r => { a with stack := (l ++ [⟨p, u⟩]) :: r }
  | .addGlobalPrefix p u => { a with g := a.g ++ [⟨p, u⟩] }

def Abs.run (a : Abs) : List Op → Abs
  | [] => a
  | o :: os => (a.step o).run os

def Abs.path (a : Abs) : Path := a.stack.reverse

-- ------------------------------------------------------------------------------------------ representation invariant
def RowOK (r : StackElem) : Prop :=
  r.fMap.length = r.fMapCapacity ∧ r.fMapCount ≤ r.fMapCapacity ∧ (r.fMapCapacity = 0 ∨ esMapInitCap ≤ r.fMapCapacity)

def GlobOK (S : Scan) (g : Level) : Prop :=
  match S.es.fGlobalNamespaces with
  | none => g = []
  | some r => RowOK r ∧ valid r = g.map (enc S.es.fPrefixPool S.uriPool)

structure Rep (S : Scan) (a : Abs) : Prop where
  top : S.es.fStackTop = a.stack.length
  top_le : S.es.fStackTop ≤ S.es.fStack.length
  len_le : S.es.fStack.length ≤ S.es.fStackCapacity
  cap_ge : esStackInitCap ≤ S.es.fStackCapacity
  rows : ((S.es.fStack.take S.es.fStackTop).map valid).reverse
           = a.stack.map (·.map (enc S.es.fPrefixPool S.uriPool))
  rowOK : ∀ r ∈ S.es.fStack, RowOK r
  glob : GlobOK S a.g
  memS : ∀ l ∈ a.stack, ∀ d ∈ l, d.pre ∈ S.es.fPrefixPool ∧ d.uri ∈ S.uriPool
  memG : ∀ d ∈ a.g, d.pre ∈ S.es.fPrefixPool ∧ d.uri ∈ S.uriPool
  gpool : "" ∈ S.es.fPrefixPool ∧ S.es.fGlobalPoolId = getId S.es.fPrefixPool ""
  xpool : xmlString ∈ S.es.fPrefixPool ∧ S.es.fXMLPoolId = getId S.es.fPrefixPool xmlString
  npool : xmlnsString ∈ S.es.fPrefixPool ∧ S.es.fXMLNSPoolId = getId S.es.fPrefixPool xmlnsString
  eid : "" ∈ S.uriPool ∧ S.es.fEmptyNamespaceId = getId S.uriPool ""
  xid : xmlURIName ∈ S.uriPool ∧ S.es.fXMLNamespaceId = getId S.uriPool xmlURIName
  nid : xmlnsURIName ∈ S.uriPool ∧ S.es.fXMLNSNamespaceId = getId S.uriPool xmlnsURIName
  sE : S.fEmptyNamespaceId = S.es.fEmptyNamespaceId
  sX : S.fXMLNamespaceId = S.es.fXMLNamespaceId
  sN : S.fXMLNSNamespaceId = S.es.fXMLNSNamespaceId

theorem mapGrow_strict (cap : Nat) (_h0 : cap ≠ 0) (h : esMapInitCap ≤ cap) :
    cap < cap * esMapGrowNum / esMapGrowDen := by
  simp only [esMapInitCap, esMapGrowNum, esMapGrowDen] at *
  omega

theorem stackGrow_strict (cap : Nat) (h : esStackInitCap ≤ cap) :
    cap < cap * esStackGrowNum / esStackGrowDen := by
  simp only [esStackInitCap, esStackGrowNum, esStackGrowDen] at *
  omega

theorem mapInit_pos : 0 < esMapInitCap := by decide

/-- after the "grow if full" step there is room for one more pair, and the valid part is untouched -/
theorem expandMap_spec (r : StackElem) (h : RowOK r) (hfull : r.fMapCount = r.fMapCapacity) :
    RowOK (expandMap r) ∧ (expandMap r).fMapCount = r.fMapCount ∧ r.fMapCount < (expandMap r).fMapCapacity ∧
    (expandMap r).fMap.take r.fMapCount = r.fMap.take r.fMapCount := by
  obtain ⟨hlen, hle, hcap⟩ := h
  have hgrow : r.fMapCapacity < (if r.fMapCapacity ≠ 0 then r.fMapCapacity * esMapGrowNum / esMapGrowDen else esMapInitCap) := by
    by_cases h0 : r.fMapCapacity = 0
    · simp [h0, mapInit_pos]
    · have : esMapInitCap ≤ r.fMapCapacity := by cases hcap with | inl h => exact absurd h h0 | inr h => exact h
      simp only [ne_eq, h0, not_false_eq_true, ↓reduceIte]
      exact mapGrow_strict _ h0 this
  have hinit : esMapInitCap ≤ (if r.fMapCapacity ≠ 0 then r.fMapCapacity * esMapGrowNum / esMapGrowDen else esMapInitCap) := by
    by_cases h0 : r.fMapCapacity = 0
    · simp [h0]
    · have : esMapInitCap ≤ r.fMapCapacity := by cases hcap with | inl h => exact absurd h h0 | inr h => exact h
      omega
  refine ⟨⟨?_, ?_, Or.inr ?_⟩, rfl, ?_, ?_⟩
  · simp only [expandMap, List.length_append, List.length_take, List.length_replicate]
    omega
  · simp only [expandMap]; omega
  · simpa only [expandMap] using hinit
  · simp only [expandMap]; omega
  · simp only [expandMap]
    rw [List.take_append_of_le_length (by simp; omega), List.take_take]
    congr 1; omega

/-- the row operation behind `addPrefix`/`addGlobalPrefix` appends exactly one pair to the valid part -/
theorem rowAdd_spec (s : ElemStack) (r : StackElem) (h : RowOK r) (prefId uriId : Nat) :
    RowOK (rowAdd s r prefId uriId) ∧ valid (rowAdd s r prefId uriId) = valid r ++ [⟨prefId, uriId⟩] := by
  have huri : (if prefId = s.fGlobalPoolId ∧ uriId = s.fEmptyNamespaceId then s.fEmptyNamespaceId else uriId) = uriId := by
    by_cases hc : prefId = s.fGlobalPoolId ∧ uriId = s.fEmptyNamespaceId
    · simp [hc]
    · simp [hc]
  obtain ⟨r', hr', hcnt, hroom, htake⟩ : ∃ r', RowOK r' ∧ r'.fMapCount = r.fMapCount ∧ r.fMapCount < r'.fMapCapacity ∧
      r'.fMap.take r.fMapCount = r.fMap.take r.fMapCount ∧
      r' = (if r.fMapCount = r.fMapCapacity then expandMap r else r) := by
    by_cases hfull : r.fMapCount = r.fMapCapacity
    · obtain ⟨a, b, c, d⟩ := expandMap_spec r h hfull
      exact ⟨expandMap r, a, b, c, d, by simp [hfull]⟩
    · refine ⟨r, h, rfl, ?_, rfl, by simp [hfull]⟩
      have := h.2.1; omega
  obtain ⟨htake, hdef⟩ := htake
  have hlen := hr'.1
  unfold rowAdd
  simp only [huri, ← hdef]
  refine ⟨⟨?_, ?_, hr'.2.2⟩, ?_⟩
  · simp only [List.length_set]; exact hlen
  · simp only; omega
  · simp only [valid, hcnt]
    rw [List.take_add_one, List.take_set_of_le (Nat.le_refl _), htake]
    have : r.fMapCount < r'.fMap.length := by omega
    simp [this]


-- ------------------------------------------------------------------------------------------ initial state, preservation, main lemma
theorem xmlString_eq : xmlString = "xml" := by decide
theorem xmlnsString_eq : xmlnsString = "xmlns" := by decide
theorem xmlURIName_eq : xmlURIName = xmlURI := by decide
theorem xmlnsURIName_eq : xmlnsURIName = xmlnsURI := by decide

theorem init_facts (v : Bool) :
    let S := Scan.init v
    S.uriPool = ["", unknownURIName, xmlURIName, xmlnsURIName] ∧
    S.es.fPrefixPool = ["", xmlString, xmlnsString] ∧
    S.es.fStackTop = 0 ∧ S.es.fStack = [] ∧ S.es.fStackCapacity = esStackInitCap ∧
    S.es.fGlobalNamespaces.isNone = true ∧
    S.es.fGlobalPoolId = 1 ∧ S.es.fXMLPoolId = 2 ∧ S.es.fXMLNSPoolId = 3 ∧
    S.es.fEmptyNamespaceId = 1 ∧ S.es.fUnknownNamespaceId = 2 ∧ S.es.fXMLNamespaceId = 3 ∧ S.es.fXMLNSNamespaceId = 4 ∧
    S.fEmptyNamespaceId = 1 ∧ S.fXMLNamespaceId = 3 ∧ S.fXMLNSNamespaceId = 4 ∧ S.xml11 = v := by
  cases v <;> decide

theorem init_rep (v : Bool) : Rep (Scan.init v) {} := by
  obtain ⟨h1, h2, h3, h4, h5, h6, h7, h8, h9, h10, h11, h12, h13, h14, h15, h16, _⟩ := init_facts v
  have g1 : getId ["", xmlString, xmlnsString] "" = 1 := by decide
  have g2 : getId ["", xmlString, xmlnsString] xmlString = 2 := by decide
  have g3 : getId ["", xmlString, xmlnsString] xmlnsString = 3 := by decide
  have u1 : getId ["", unknownURIName, xmlURIName, xmlnsURIName] "" = 1 := by decide
  have u3 : getId ["", unknownURIName, xmlURIName, xmlnsURIName] xmlURIName = 3 := by decide
  have u4 : getId ["", unknownURIName, xmlURIName, xmlnsURIName] xmlnsURIName = 4 := by decide
  constructor
  · simp [h3]
  · simp [h3]
  · simp [h4]
  · simp [h5]
  · simp [h3, h4]
  · simp [h4]
  · unfold GlobOK
    cases hg : (Scan.init v).es.fGlobalNamespaces with
    | none => rfl
    | some r => simp [hg] at h6
  · intro l hl; simp at hl
  · intro d hd; simp at hd
  · rw [h2, h7, g1]; simp
  · rw [h2, h8, g2]; simp
  · rw [h2, h9, g3]; simp
  · rw [h1, h10, u1]; simp
  · rw [h1, h12, u3]; simp
  · rw [h1, h13, u4]; simp
  · rw [h14, h10]
  · rw [h15, h12]
  · rw [h16, h13]


theorem take_succ_map_reverse (rows : List StackElem) (n : Nat) (h : n < rows.length) :
    ((rows.take (n + 1)).map valid).reverse = valid rows[n] :: ((rows.take n).map valid).reverse := by
  rw [List.take_add_one, List.getElem?_eq_getElem h]
  simp only [Option.toList_some, List.map_append, List.map_cons, List.map_nil, List.reverse_append,
    List.reverse_cons, List.reverse_nil, List.nil_append, List.cons_append]

theorem rep_addLevel {S : Scan} {a : Abs} (h : Rep S a) : Rep (S.step .addLevel) (a.step .addLevel) := by
  have htl := h.top_le
  -- the rows after the optional allocation
  obtain ⟨rows, hrows⟩ : ∃ rows, rows = (if S.es.fStackTop < S.es.fStack.length then S.es.fStack
      else S.es.fStack ++ [({} : StackElem)]) := ⟨_, rfl⟩
  have hlt : S.es.fStackTop < rows.length := by
    rw [hrows]; split
    · assumption
    · simp; omega
  have htake : rows.take S.es.fStackTop = S.es.fStack.take S.es.fStackTop := by
    rw [hrows]; split
    · rfl
    · rw [List.take_append_of_le_length htl]
  have hrowsOK : ∀ r ∈ rows, RowOK r := by
    intro r hr; rw [hrows] at hr; split at hr
    · exact h.rowOK r hr
    · rcases List.mem_append.mp hr with h1 | h1
      · exact h.rowOK r h1
      · simp at h1; subst h1; exact ⟨rfl, Nat.le_refl _, Or.inl rfl⟩
  have hlen : rows.length ≤ (if S.es.fStackTop = S.es.fStackCapacity then (expandStack S.es).fStackCapacity else S.es.fStackCapacity) := by
    have := h.len_le; have hc := h.cap_ge
    have hg := stackGrow_strict S.es.fStackCapacity hc
    rw [hrows]; simp only [expandStack]
    split <;> split <;> simp <;> omega
  have hcap : esStackInitCap ≤ (if S.es.fStackTop = S.es.fStackCapacity then (expandStack S.es).fStackCapacity else S.es.fStackCapacity) := by
    have hc := h.cap_ge
    have hg := stackGrow_strict S.es.fStackCapacity hc
    simp only [expandStack]; split <;> omega
  have hget : rows[S.es.fStackTop]? = some rows[S.es.fStackTop] := List.getElem?_eq_getElem hlt
  simp only [Scan.step, Abs.step, addLevel, ← hrows, hget, Option.getD_some]
  refine { top := ?_, top_le := ?_, len_le := ?_, cap_ge := ?_, rows := ?_, rowOK := ?_, glob := ?_,
           memS := ?_, memG := h.memG, gpool := h.gpool, xpool := h.xpool, npool := h.npool, eid := h.eid, xid := h.xid,
           nid := h.nid, sE := h.sE, sX := h.sX, sN := h.sN }
  · simp [h.top]
  · simp only [List.length_set]; omega
  · simpa only [List.length_set] using hlen
  · exact hcap
  · have hlt' : S.es.fStackTop < (rows.set S.es.fStackTop { rows[S.es.fStackTop] with fMapCount := 0 }).length := by
      simpa only [List.length_set] using hlt
    show ((List.take (S.es.fStackTop + 1) (rows.set S.es.fStackTop _)).map valid).reverse = _
    rw [take_succ_map_reverse _ _ hlt', List.take_set_of_le (Nat.le_refl _), htake, h.rows]
    simp [valid]
  · intro r hr
    rcases List.mem_or_eq_of_mem_set hr with h1 | h1
    · exact hrowsOK r h1
    · subst h1
      have := hrowsOK _ (List.getElem_mem hlt)
      exact ⟨this.1, Nat.zero_le _, this.2.2⟩
  · exact h.glob
  · intro l hl d hd
    simp only [List.mem_cons] at hl
    rcases hl with h1 | h1
    · subst h1; simp at hd
    · exact h.memS l h1 d hd

theorem rep_popTop {S : Scan} {a : Abs} (h : Rep S a) : Rep (S.step .popTop) (a.step .popTop) := by
  by_cases h0 : S.es.fStackTop = 0
  · -- EmptyStackException: nothing changes, and the abstract stack is empty
    have : a.stack = [] := List.eq_nil_of_length_eq_zero (by rw [← h.top]; exact h0)
    have ha : a.step .popTop = a := by
      cases a with | mk g st => simp only at this; subst this; rfl
    have hs : S.step .popTop = S := by simp [Scan.step, popTop, h0]
    rw [ha, hs]; exact h
  · obtain ⟨n, hn⟩ : ∃ n, S.es.fStackTop = n + 1 := ⟨S.es.fStackTop - 1, by omega⟩
    have hlt : n < S.es.fStack.length := by have := h.top_le; omega
    have hrows := h.rows
    rw [hn, take_succ_map_reverse _ _ hlt] at hrows
    cases hst : a.stack with
    | nil => have := h.top; rw [hst] at this; simp at this; omega
    | cons l r =>
      rw [hst] at hrows
      simp only [List.map_cons, List.cons.injEq] at hrows
      simp only [Scan.step, popTop, h0, ↓reduceIte, Abs.step, hst, List.tail_cons]
      refine { top := ?_, top_le := ?_, len_le := h.len_le, cap_ge := h.cap_ge, rows := ?_, rowOK := h.rowOK,
               glob := h.glob, memS := ?_, memG := h.memG, gpool := h.gpool, xpool := h.xpool, npool := h.npool,
               eid := h.eid, xid := h.xid, nid := h.nid, sE := h.sE, sX := h.sX, sN := h.sN }
      · have := h.top; rw [hst] at this; simp at this ⊢; omega
      · have := h.top_le; simp; omega
      · simp only [hn, Nat.add_sub_cancel]; exact hrows.2
      · intro l' hl' d hd
        exact h.memS l' (by rw [hst]; simp [hl']) d hd

/-- growing the two string pools does not disturb the representation -/
theorem rep_ext {S : Scan} {a : Abs} (h : Rep S a) (l1 l2 : Pool) :
    Rep { S with es := { S.es with fPrefixPool := S.es.fPrefixPool ++ l1 }, uriPool := S.uriPool ++ l2 } a := by
  have hrows := h.rows
  refine { top := h.top, top_le := h.top_le, len_le := h.len_le, cap_ge := h.cap_ge, rows := ?_, rowOK := h.rowOK,
           glob := ?_, memS := ?_, memG := ?_, gpool := ?_, xpool := ?_, npool := ?_, eid := ?_, xid := ?_, nid := ?_,
           sE := h.sE, sX := h.sX, sN := h.sN }
  · show _ = a.stack.map (·.map (enc (S.es.fPrefixPool ++ l1) (S.uriPool ++ l2)))
    rw [map_map_enc_append l1 l2 a.stack h.memS]; exact hrows
  · have hg := h.glob
    unfold GlobOK at hg ⊢
    show match S.es.fGlobalNamespaces with
      | none => a.g = []
      | some r => RowOK r ∧ valid r = a.g.map (enc (S.es.fPrefixPool ++ l1) (S.uriPool ++ l2))
    cases hgn : S.es.fGlobalNamespaces with
    | none => simpa [hgn] using hg
    | some r =>
      rw [hgn] at hg
      simp only at hg ⊢
      rw [map_enc_append l1 l2 a.g h.memG]; exact hg
  · intro l hl d hd
    exact ⟨List.mem_append_left _ (h.memS l hl d hd).1, List.mem_append_left _ (h.memS l hl d hd).2⟩
  · intro d hd
    exact ⟨List.mem_append_left _ (h.memG d hd).1, List.mem_append_left _ (h.memG d hd).2⟩
  · exact ⟨List.mem_append_left _ h.gpool.1, by show S.es.fGlobalPoolId = _; rw [getId_append h.gpool.1]; exact h.gpool.2⟩
  · exact ⟨List.mem_append_left _ h.xpool.1, by show S.es.fXMLPoolId = _; rw [getId_append h.xpool.1]; exact h.xpool.2⟩
  · exact ⟨List.mem_append_left _ h.npool.1, by show S.es.fXMLNSPoolId = _; rw [getId_append h.npool.1]; exact h.npool.2⟩
  · exact ⟨List.mem_append_left _ h.eid.1, by show S.es.fEmptyNamespaceId = _; rw [getId_append h.eid.1]; exact h.eid.2⟩
  · exact ⟨List.mem_append_left _ h.xid.1, by show S.es.fXMLNamespaceId = _; rw [getId_append h.xid.1]; exact h.xid.2⟩
  · exact ⟨List.mem_append_left _ h.nid.1, by show S.es.fXMLNSNamespaceId = _; rw [getId_append h.nid.1]; exact h.nid.2⟩

/-- the pools after `addOrFind`-ing a prefix and a URI -/
def extPools (S : Scan) (p u : String) : Scan :=
  { S with es := { S.es with fPrefixPool := (addOrFind S.es.fPrefixPool p).1 }, uriPool := (addOrFind S.uriPool u).1 }

theorem rep_extPools {S : Scan} {a : Abs} (h : Rep S a) (p u : String) : Rep (extPools S p u) a := by
  unfold extPools
  rw [addOrFind_fst, addOrFind_fst]
  exact rep_ext h _ _

/-- storing one more pair in the top row -/
theorem rep_rowAdd {S : Scan} {g : Level} {l : Level} {rest : List Level} (h : Rep S ⟨g, l :: rest⟩)
    (p u : String) (hp : p ∈ S.es.fPrefixPool) (hu : u ∈ S.uriPool) (s0 : ElemStack) (curRow : StackElem)
    (hcur : S.es.fStack[S.es.fStackTop - 1]? = some curRow) :
    Rep { S with es := { S.es with fStack := (S.es.fStack.set (S.es.fStackTop - 1)
                            (rowAdd s0 curRow (getId S.es.fPrefixPool p) (getId S.uriPool u))) } }
        ⟨g, (l ++ [⟨p, u⟩]) :: rest⟩ := by
  obtain ⟨n, hn⟩ : ∃ n, S.es.fStackTop = n + 1 := ⟨rest.length, by rw [h.top]; simp⟩
  have hlt : n < S.es.fStack.length := by have := h.top_le; omega
  have hrows := h.rows
  have hidx : S.es.fStackTop - 1 = n := by omega
  rw [hidx] at hcur ⊢
  have hcur' : curRow = S.es.fStack[n] := by
    rw [List.getElem?_eq_getElem hlt] at hcur; exact (Option.some.inj hcur).symm
  rw [hn, take_succ_map_reverse _ _ hlt] at hrows
  simp only [List.map_cons, List.cons.injEq] at hrows
  have hok : RowOK curRow := by rw [hcur']; exact h.rowOK _ (List.getElem_mem hlt)
  obtain ⟨hok', hval⟩ := rowAdd_spec s0 curRow hok (getId S.es.fPrefixPool p) (getId S.uriPool u)
  refine { top := ?_, top_le := ?_, len_le := ?_, cap_ge := h.cap_ge, rows := ?_, rowOK := ?_,
           glob := h.glob, memS := ?_, memG := h.memG, gpool := h.gpool, xpool := h.xpool, npool := h.npool,
           eid := h.eid, xid := h.xid, nid := h.nid, sE := h.sE, sX := h.sX, sN := h.sN }
  · exact h.top
  · have := h.top_le; simpa using this
  · have := h.len_le; simpa using this
  · show ((List.take S.es.fStackTop (S.es.fStack.set n _)).map valid).reverse = _
    have hlt' : n < (S.es.fStack.set n (rowAdd s0 curRow (getId S.es.fPrefixPool p) (getId S.uriPool u))).length := by
      simpa using hlt
    rw [hn, take_succ_map_reverse _ _ hlt', List.take_set_of_le (Nat.le_refl _)]
    simp only [List.getElem_set_self, List.map_cons, List.cons.injEq]
    refine ⟨?_, hrows.2⟩
    rw [hval, hcur', hrows.1]
    simp [enc]
  · intro r hr
    rcases List.mem_or_eq_of_mem_set hr with h1 | h1
    · exact h.rowOK r h1
    · subst h1; exact hok'
  · intro l' hl' d hd
    simp only [List.mem_cons] at hl'
    rcases hl' with h1 | h1
    · subst h1
      rcases List.mem_append.mp hd with h2 | h2
      · exact h.memS l (by simp) d h2
      · simp at h2; subst h2; exact ⟨hp, hu⟩
    · exact h.memS l' (by simp [h1]) d hd

theorem rep_addPrefix {S : Scan} {a : Abs} (h : Rep S a) (p u : String) :
    Rep (S.step (.addPrefix p u)) (a.step (.addPrefix p u)) := by
  cases a with | mk g st =>
  cases st with
  | nil =>
    have h0 : S.es.fStackTop = 0 := by have := h.top; simpa using this
    have hs : S.step (.addPrefix p u) =
        { S with es := { S.es with fPrefixPool := S.es.fPrefixPool ++ [] }, uriPool := S.uriPool ++ (if u ∈ S.uriPool then [] else [u]) } := by
      simp only [Scan.step, addPrefix, if_pos h0, addOrFind_fst, List.append_nil]
    rw [hs]
    exact rep_ext h _ _
  | cons l rest =>
    have hn : S.es.fStackTop = rest.length + 1 := by have := h.top; simpa using this
    have h0 : S.es.fStackTop ≠ 0 := by omega
    have hlt : S.es.fStackTop - 1 < S.es.fStack.length := by have := h.top_le; omega
    have hcur : S.es.fStack[S.es.fStackTop - 1]? = some S.es.fStack[S.es.fStackTop - 1] := List.getElem?_eq_getElem hlt
    have h1 := rep_extPools h p u
    have h2 := rep_rowAdd h1 p u (addOrFind_mem _ _) (addOrFind_mem _ _) S.es S.es.fStack[S.es.fStackTop - 1] hcur
    have hs : S.step (.addPrefix p u) = { extPools S p u with es := { (extPools S p u).es with
        fStack := ((extPools S p u).es.fStack.set ((extPools S p u).es.fStackTop - 1)
          (rowAdd S.es S.es.fStack[S.es.fStackTop - 1] (getId (extPools S p u).es.fPrefixPool p)
            (getId (extPools S p u).uriPool u))) } } := by
      simp only [Scan.step, addPrefix, if_neg h0, hcur, extPools]
      rw [addOrFind_snd S.es.fPrefixPool p, addOrFind_snd S.uriPool u]
    rw [hs]
    exact h2

theorem rep_addGlobal {S : Scan} {a : Abs} (h : Rep S a) (p u : String) :
    Rep (S.step (.addGlobalPrefix p u)) (a.step (.addGlobalPrefix p u)) := by
  have h1 := rep_extPools h p u
  obtain ⟨g0, hg0, hok0, hval0⟩ : ∃ g0, g0 = globalRow S.es ∧
      RowOK g0 ∧ valid g0 = a.g.map (enc (extPools S p u).es.fPrefixPool (extPools S p u).uriPool) := by
    have hg := h1.glob
    unfold GlobOK at hg
    have e : (extPools S p u).es.fGlobalNamespaces = S.es.fGlobalNamespaces := rfl
    rw [e] at hg
    cases hgn : S.es.fGlobalNamespaces with
    | none =>
      rw [hgn] at hg
      simp only at hg
      exact ⟨{}, by simp [globalRow, hgn], ⟨rfl, Nat.le_refl _, Or.inl rfl⟩, by rw [hg]; rfl⟩
    | some r =>
      rw [hgn] at hg
      exact ⟨r, by simp [globalRow, hgn], hg.1, hg.2⟩
  obtain ⟨hok', hval⟩ := rowAdd_spec S.es g0 hok0 (getId (extPools S p u).es.fPrefixPool p) (getId (extPools S p u).uriPool u)
  have hs : S.step (.addGlobalPrefix p u) = { extPools S p u with es := { (extPools S p u).es with
      fGlobalNamespaces := some (rowAdd S.es g0 (getId (extPools S p u).es.fPrefixPool p) (getId (extPools S p u).uriPool u)) } } := by
    simp only [Scan.step, addGlobalPrefix, extPools]
    rw [addOrFind_snd S.es.fPrefixPool p, addOrFind_snd S.uriPool u, hg0]
  rw [hs]
  simp only [Abs.step]
  refine { top := h1.top, top_le := h1.top_le, len_le := h1.len_le, cap_ge := h1.cap_ge, rows := h1.rows,
           rowOK := h1.rowOK, glob := ?_, memS := h1.memS, memG := ?_, gpool := h1.gpool, xpool := h1.xpool,
           npool := h1.npool, eid := h1.eid, xid := h1.xid, nid := h1.nid, sE := h1.sE, sX := h1.sX, sN := h1.sN }
  · unfold GlobOK
    refine ⟨hok', ?_⟩
    rw [hval, hval0]
    simp [enc]
  · intro d hd
    rcases List.mem_append.mp hd with h2 | h2
    · exact h1.memG d h2
    · simp at h2; subst h2; exact ⟨addOrFind_mem _ _, addOrFind_mem _ _⟩

theorem rep_step {S : Scan} {a : Abs} (h : Rep S a) (o : Op) : Rep (S.step o) (a.step o) := by
  cases o with
  | addLevel => exact rep_addLevel h
  | popTop => exact rep_popTop h
  | addPrefix p u => exact rep_addPrefix h p u
  | addGlobalPrefix p u => exact rep_addGlobal h p u

theorem rep_run {S : Scan} {a : Abs} (h : Rep S a) (ops : List Op) : Rep (S.run ops) (a.run ops) := by
  induction ops generalizing S a with
  | nil => exact h
  | cons o os ih => exact ih (rep_step h o)

theorem declOf_some_mem {l : Level} {p u : String} (h : declOf l p = some u) : ∃ d ∈ l, d.pre = p ∧ d.uri = u := by
  induction l with
  | nil => simp [declOf] at h
  | cons d ds ih =>
    by_cases e : d.pre = p
    · simp [declOf, e] at h; exact ⟨d, by simp, e, h⟩
    · simp [declOf, e] at h
      obtain ⟨d', hd', h1, h2⟩ := ih h
      exact ⟨d', by simp [hd'], h1, h2⟩

theorem nearest_some_mem {ls : List Level} {p u : String} (h : nearest ls p = some u) :
    ∃ l ∈ ls, ∃ d ∈ l, d.pre = p ∧ d.uri = u := by
  induction ls with
  | nil => simp [nearest] at h
  | cons l ls ih =>
    simp only [nearest] at h
    cases hd : declOf l p with
    | some u' =>
      rw [hd] at h; simp only [Option.some.injEq] at h; subst h
      obtain ⟨d, hd1, hd2⟩ := declOf_some_mem hd
      exact ⟨l, by simp, d, hd1, hd2⟩
    | none =>
      rw [hd] at h
      obtain ⟨l', hl', r⟩ := ih h
      exact ⟨l', by simp [hl'], r⟩

/-- the two search loops of `mapPrefixToURI` (stack rows from the top, then the global row) compute the nearest
    enclosing declaration, in encoded form -/
theorem lookup_eq {S : Scan} {a : Abs} (h : Rep S a) (p : String) (hp : p ∈ S.es.fPrefixPool) :
    (match searchStack S.es.fStack (getId S.es.fPrefixPool p) S.es.fStackTop with
     | some u => some u
     | none => S.es.fGlobalNamespaces.bind (searchRow · (getId S.es.fPrefixPool p)))
      = (nearest (a.stack ++ [a.g]) p).map (getId S.uriPool) := by
  have hall : ∀ l ∈ a.stack ++ [a.g], ∀ d ∈ l, d.pre ∈ S.es.fPrefixPool := by
    intro l hl d hd
    rcases List.mem_append.mp hl with h1 | h1
    · exact (h.memS l h1 d hd).1
    · simp at h1; subst h1; exact (h.memG d hd).1
  rw [← nearestE_enc S.es.fPrefixPool S.uriPool _ p hall hp, List.map_append, nearestE_append,
    searchStack_eq _ _ _ h.top_le, h.rows]
  have hglob : S.es.fGlobalNamespaces.bind (searchRow · (getId S.es.fPrefixPool p))
      = nearestE (List.map (fun x => List.map (enc S.es.fPrefixPool S.uriPool) x) [a.g]) (getId S.es.fPrefixPool p) := by
    have hg := h.glob
    unfold GlobOK at hg
    cases hgn : S.es.fGlobalNamespaces with
    | none =>
      rw [hgn] at hg; simp only at hg
      simp [hg, nearestE, findE]
    | some r =>
      rw [hgn] at hg
      simp only [Option.bind_some, searchRow_eq, hg.2, List.map_cons, List.map_nil, nearestE]
      cases findE (List.map (enc S.es.fPrefixPool S.uriPool) a.g) (getId S.es.fPrefixPool p) <;> rfl
  rw [hglob]
  all_goals
    generalize nearestE (List.map (fun x => List.map (enc S.es.fPrefixPool S.uriPool) x) a.stack) (getId S.es.fPrefixPool p) = x
    cases x <;> rfl

theorem mapPrefix_of_rep {S : Scan} {a : Abs} (h : Rep S a) (p : String) :
    S.decode (mapPrefixToURI S.es p) = inScopeG a.g a.path p := by
  have hx : xmlString = "xml" := by decide
  have hn : xmlnsString = "xmlns" := by decide
  have hxu : xmlURIName = xmlURI := by decide
  have hnu : xmlnsURIName = xmlnsURI := by decide
  have hxne : xmlURIName ≠ "" := by decide
  have hnne : xmlnsURIName ≠ "" := by decide
  have hpath : a.path.reverse ++ [a.g] = a.stack ++ [a.g] := by simp [Abs.path]
  -- the prefix id the C++ computes is simply the pool id
  have hpid : (if p = "" then S.es.fGlobalPoolId else getId S.es.fPrefixPool p) = getId S.es.fPrefixPool p := by
    by_cases e : p = ""
    · simp [e, h.gpool.2]
    · simp [e]
  unfold mapPrefixToURI
  simp only [hpid]
  by_cases hp : p ∈ S.es.fPrefixPool
  · have h0 : getId S.es.fPrefixPool p ≠ 0 := getId_ne_zero_iff.mpr hp
    by_cases e1 : p = xmlString
    · -- 'xml' is pre-bound
      subst e1
      simp only [h0, ↓reduceIte, h.xpool.2]
      unfold Scan.decode inScopeG
      have hne : getId S.uriPool xmlURIName ≠ getId S.uriPool "" := fun hh => hxne (getId_inj h.xid.1 h.eid.1 hh)
      simp [h.sE, h.xid.2, h.eid.2, hne, valueForId_getId h.xid.1, hx]
      exact hxu
    · have n1 : getId S.es.fPrefixPool p ≠ S.es.fXMLPoolId := by
        rw [h.xpool.2]; exact fun hh => e1 (getId_inj hp h.xpool.1 hh)
      by_cases e2 : p = xmlnsString
      · subst e2
        simp only [h0, ↓reduceIte, n1, h.npool.2]
        unfold Scan.decode inScopeG
        have hne : getId S.uriPool xmlnsURIName ≠ getId S.uriPool "" := fun hh => hnne (getId_inj h.nid.1 h.eid.1 hh)
        have : xmlnsString ≠ "xml" := by decide
        simp [h.sE, h.nid.2, h.eid.2, hne, valueForId_getId h.nid.1, hn]
        exact hnu
      · have n2 : getId S.es.fPrefixPool p ≠ S.es.fXMLNSPoolId := by
          rw [h.npool.2]; exact fun hh => e2 (getId_inj hp h.npool.1 hh)
        have hl := lookup_eq h p hp
        have px : p ≠ "xml" := hx ▸ e1
        have pn : p ≠ "xmlns" := hn ▸ e2
        simp only [h0, ↓reduceIte, n1, n2]
        unfold inScopeG
        simp only [px, pn, ↓reduceIte, hpath]
        cases hs : searchStack S.es.fStack (getId S.es.fPrefixPool p) S.es.fStackTop with
        | some u' =>
          rw [hs] at hl; simp only at hl
          cases hnr : nearest (a.stack ++ [a.g]) p with
          | none => rw [hnr] at hl; simp at hl
          | some u =>
            rw [hnr] at hl; simp only [Option.map_some, Option.some.injEq] at hl
            obtain ⟨l, hlm, d, hd, _, hdu⟩ := nearest_some_mem hnr
            have hu : u ∈ S.uriPool := by
              rcases List.mem_append.mp hlm with h1 | h1
              · exact hdu ▸ (h.memS l h1 d hd).2
              · simp at h1; subst h1; exact hdu ▸ (h.memG d hd).2
            subst hl
            unfold Scan.decode
            by_cases eu : u = ""
            · subst eu; simp [h.sE, h.eid.2]
            · have : getId S.uriPool u ≠ getId S.uriPool "" := fun hh => eu (getId_inj hu h.eid.1 hh)
              simp [h.sE, h.eid.2, this, valueForId_getId hu, eu]
        | none =>
          rw [hs] at hl; simp only at hl
          cases hg : S.es.fGlobalNamespaces.bind (searchRow · (getId S.es.fPrefixPool p)) with
          | some u' =>
            rw [hg] at hl
            cases hnr : nearest (a.stack ++ [a.g]) p with
            | none => rw [hnr] at hl; simp at hl
            | some u =>
              rw [hnr] at hl; simp only [Option.map_some, Option.some.injEq] at hl
              obtain ⟨l, hlm, d, hd, _, hdu⟩ := nearest_some_mem hnr
              have hu : u ∈ S.uriPool := by
                rcases List.mem_append.mp hlm with h1 | h1
                · exact hdu ▸ (h.memS l h1 d hd).2
                · simp at h1; subst h1; exact hdu ▸ (h.memG d hd).2
              subst hl
              unfold Scan.decode
              by_cases eu : u = ""
              · subst eu; simp [h.sE, h.eid.2]
              · have : getId S.uriPool u ≠ getId S.uriPool "" := fun hh => eu (getId_inj hu h.eid.1 hh)
                simp [h.sE, h.eid.2, this, valueForId_getId hu, eu]
          | none =>
            rw [hg] at hl
            cases hnr : nearest (a.stack ++ [a.g]) p with
            | some u => rw [hnr] at hl; simp at hl
            | none =>
              unfold Scan.decode
              by_cases e : p = ""
              · simp [e, h.sE]
              · simp [e]
  · -- a prefix the pool has never seen: no declaration can mention it
    have h0 : getId S.es.fPrefixPool p = 0 := getId_eq_zero_iff.mpr hp
    have px : p ≠ "xml" := fun e => hp (e ▸ hx ▸ h.xpool.1)
    have pn : p ≠ "xmlns" := fun e => hp (e ▸ hn ▸ h.npool.1)
    have hnone : nearest (a.stack ++ [a.g]) p = none := by
      apply nearest_none_of_not_mem
      intro l hl d hd e
      rcases List.mem_append.mp hl with h1 | h1
      · exact hp (e ▸ (h.memS l h1 d hd).1)
      · simp at h1; subst h1; exact hp (e ▸ (h.memG d hd).1)
    simp only [h0, ↓reduceIte]
    unfold Scan.decode inScopeG
    simp [px, pn, hpath, hnone]


-- ------------------------------------------------------------------------------------------ building a stack from a path
/-- the operations a scanner performs on the way down to the element at the end of `path` -/
def opsOfLevel (l : Level) : List Op := .addLevel :: l.map (fun d => .addPrefix d.pre d.uri)
def opsOfPath (path : Path) : List Op := (path.map opsOfLevel).flatten

theorem Abs.run_append (a : Abs) (o1 o2 : List Op) : a.run (o1 ++ o2) = (a.run o1).run o2 := by
  induction o1 generalizing a with
  | nil => rfl
  | cons o os ih => simp [Abs.run, ih]

theorem Scan.run_append (s : Scan) (o1 o2 : List Op) : s.run (o1 ++ o2) = (s.run o1).run o2 := by
  induction o1 generalizing s with
  | nil => rfl
  | cons o os ih => simp [Scan.run, ih]

theorem run_addPrefixes (g : Level) (l : Level) (rest : List Level) (ds : Level) :
    (Abs.mk g (l :: rest)).run (ds.map (fun d => .addPrefix d.pre d.uri)) = ⟨g, (l ++ ds) :: rest⟩ := by
  induction ds generalizing l with
  | nil => simp [Abs.run]
  | cons d ds ih =>
    simp only [List.map_cons, Abs.run, Abs.step]
    rw [ih]; simp

theorem run_opsOfLevel (g : Level) (st : List Level) (l : Level) :
    (Abs.mk g st).run (opsOfLevel l) = ⟨g, l :: st⟩ := by
  simp only [opsOfLevel, Abs.run, Abs.step]
  rw [run_addPrefixes]; simp

theorem run_opsOfPath (g : Level) (st : List Level) (path : Path) :
    (Abs.mk g st).run (opsOfPath path) = ⟨g, path.reverse ++ st⟩ := by
  induction path generalizing st with
  | nil => simp [opsOfPath, Abs.run]
  | cons l ls ih =>
    have : opsOfPath (l :: ls) = opsOfLevel l ++ opsOfPath ls := by simp [opsOfPath]
    rw [this, Abs.run_append, run_opsOfLevel, ih]; simp

-- ------------------------------------------------------------------------------------------ balanced bodies
/-- depth bookkeeping relative to a frame: `d ≥ 1` levels of the frame are open; a body may push and pop inside
    the frame but never pops the frame's own bottom level, and does not touch the global bindings -/
def relDepth : Nat → List Op → Option Nat
  | d, [] => some d
  | d, .addLevel :: r => relDepth (d + 1) r
  | d, .popTop :: r => if d ≤ 1 then none else relDepth (d - 1) r
  | d, .addPrefix _ _ :: r => relDepth d r
  | _, .addGlobalPrefix _ _ :: _ => none

theorem run_relDepth (g : Level) (base : List Level) :
    ∀ (ops : List Op) (top : List Level) (d' : Nat), 1 ≤ top.length → relDepth top.length ops = some d' →
      ∃ top', top'.length = d' ∧ 1 ≤ d' ∧ (Abs.mk g (top ++ base)).run ops = ⟨g, top' ++ base⟩ := by
  intro ops
  induction ops with
  | nil => intro top d' h1 h; simp [relDepth] at h; exact ⟨top, h, h ▸ h1, rfl⟩
  | cons o os ih =>
    intro top d' h1 h
    cases o with
    | addLevel =>
      simp only [relDepth] at h
      obtain ⟨t', a, b, c⟩ := ih ([] :: top) d' (by simp) (by simpa using h)
      exact ⟨t', a, b, by simpa [Abs.run, Abs.step] using c⟩
    | popTop =>
      simp only [relDepth] at h
      split at h
      · simp at h
      · cases top with
        | nil => simp at h1
        | cons l r =>
          have hr : 1 ≤ r.length := by simp only [List.length_cons] at *; omega
          obtain ⟨t', a, b, c⟩ := ih r d' hr (by simpa using h)
          exact ⟨t', a, b, by simpa [Abs.run, Abs.step] using c⟩
    | addPrefix p u =>
      simp only [relDepth] at h
      cases top with
      | nil => simp at h1
      | cons l r =>
        obtain ⟨t', a, b, c⟩ := ih ((l ++ [⟨p, u⟩]) :: r) d' (by simp) (by simpa using h)
        exact ⟨t', a, b, by simpa [Abs.run, Abs.step] using c⟩
    | addGlobalPrefix p u => simp [relDepth] at h

/-- a balanced element body, framed by its addLevel … popTop, leaves the abstract state as it was -/
theorem abs_frame (a : Abs) (body : List Op) (hb : relDepth 1 body = some 1) :
    a.run ([.addLevel] ++ body ++ [.popTop]) = a := by
  cases a with | mk g st =>
  rw [Abs.run_append, Abs.run_append]
  have h1 : (Abs.mk g st).run [.addLevel] = ⟨g, [[]] ++ st⟩ := rfl
  rw [h1]
  obtain ⟨t', hl, _, hr⟩ := run_relDepth g st body [[]] 1 (by simp) (by simpa using hb)
  rw [hr]
  match t', hl with
  | [l], _ => rfl

-- ------------------------------------------------------------------------------------------ two-pass start tag
/-- the declarations of a raw attribute list, in document order -/
def declsOfRaw : List RawAttr → Level
  | [] => []
  | a :: r => if a.isNSDecl then ⟨if a.pre = "" then "" else a.loc, a.value⟩ :: declsOfRaw r else declsOfRaw r

theorem rep_scanRaw {S : Scan} {g : Level} {l : Level} {rest : List Level} (h : Rep S ⟨g, l :: rest⟩)
    (attrs : List RawAttr) :
    Rep (S.scanRawAttrListforNameSpaces attrs) ⟨g, (l ++ declsOfRaw attrs) :: rest⟩ := by
  induction attrs generalizing S l with
  | nil => simpa [Scan.scanRawAttrListforNameSpaces, declsOfRaw] using h
  | cons a r ih =>
    unfold Scan.scanRawAttrListforNameSpaces declsOfRaw
    by_cases hd : a.isNSDecl = true
    · simp only [hd, ↓reduceIte]
      have := ih (rep_step h (.addPrefix (if a.pre = "" then "" else a.loc) a.value))
      simpa [Abs.step] using this
    · simp only [hd]
      exact ih h

theorem rep_startTag {S : Scan} {a : Abs} (h : Rep S a) (attrs : List RawAttr) :
    Rep (S.startTag attrs) ⟨a.g, declsOfRaw attrs :: a.stack⟩ := by
  unfold Scan.startTag
  have := rep_scanRaw (rep_step h .addLevel) attrs
  simpa [Abs.step] using this

-- ------------------------------------------------------------------------------------------ order of declarations
theorem declOf_perm {l l' : Level} (hp : l.Perm l') (hn : (l.map (·.pre)).Nodup) (p : String) :
    declOf l p = declOf l' p := by
  induction hp with
  | nil => rfl
  | cons x _ ih =>
    simp only [List.map_cons, List.nodup_cons] at hn
    simp [declOf, ih hn.2]
  | swap x y l =>
    simp only [List.map_cons, List.nodup_cons, List.mem_cons, not_or] at hn
    have hne : y.pre ≠ x.pre := hn.1.1
    simp only [declOf]
    by_cases h1 : x.pre = p <;> by_cases h2 : y.pre = p
    · exact absurd (h2.trans h1.symm) hne
    · simp [h1, h2]
    · simp [h1, h2]
    · simp [h1, h2]
  | trans h1 _ ih1 ih2 =>
    have hn2 := (h1.map (·.pre)).nodup_iff.mp hn
    rw [ih1 hn, ih2 hn2]

theorem declsOfRaw_perm {as as' : List RawAttr} (hp : as.Perm as') : (declsOfRaw as).Perm (declsOfRaw as') := by
  induction hp with
  | nil => exact List.Perm.refl _
  | cons x _ ih => unfold declsOfRaw; split <;> simp [ih]
  | swap x y l =>
    simp only [declsOfRaw]
    by_cases hx : x.isNSDecl = true <;> by_cases hy : y.isNSDecl = true <;> simp only [hx, hy, ↓reduceIte]
    · exact List.Perm.swap _ _ _
    · exact List.Perm.refl _
    · exact List.Perm.refl _
    · exact List.Perm.refl _
  | trans _ _ ih1 ih2 => exact ih1.trans ih2


end XV.Lemmas.ElemStack
