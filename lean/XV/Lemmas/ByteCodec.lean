import XV.Model.ByteCodec
namespace XV.Lemmas.ByteCodec
open XV.Model.ByteCodec XV.Gen.ByteTables

def key (tbl : List (Nat × Nat)) (i : Nat) : Nat := (tbl.getD i (0, 0)).1
def val (tbl : List (Nat × Nat)) (i : Nat) : Nat := (tbl.getD i (0, 0)).2

def Sorted (tbl : List (Nat × Nat)) : Prop := ∀ i j, i < j → j < tbl.length → key tbl i < key tbl j

theorem sorted_of_strict : ∀ tbl : List (Nat × Nat), strictSorted (tbl.map (·.1)) = true → Sorted tbl := by
  intro tbl
  induction tbl with
  | nil => intro _ i j _ hj; simp at hj
  | cons p t ih =>
    intro h i j hij hj
    cases t with
    | nil => simp at hj; omega
    | cons q t' =>
      simp only [List.map, strictSorted, Bool.and_eq_true, decide_eq_true_eq] at h
      have iht := ih h.2
      cases i with
      | zero =>
        cases j with
        | zero => omega
        | succ j' =>
          have hq : key (p :: q :: t') 0 < key (p :: q :: t') 1 := by simp [key]; exact h.1
          cases j' with
          | zero => exact hq
          | succ j'' =>
            have := iht 0 (j'' + 1) (by omega) (by simp at hj ⊢; omega)
            simp [key] at this hq ⊢; omega
      | succ i' =>
        cases j with
        | zero => omega
        | succ j' =>
          have := iht i' j' (by omega) (by simp at hj ⊢; omega)
          simpa [key] using this

theorem find_first (c : Nat) : ∀ (tbl : List (Nat × Nat)) (i : Nat), i < tbl.length → key tbl i = c →
    (∀ j, j < i → key tbl j ≠ c) → tbl.find? (fun p => decide (p.1 = c)) = some (tbl.getD i (0, 0)) := by
  intro tbl
  induction tbl with
  | nil => intro i h; simp at h
  | cons p t ih =>
    intro i hi hk hj
    cases i with
    | zero =>
      have : p.1 = c := by simpa [key] using hk
      simp [List.find?, this]
    | succ i' =>
      have h0 : p.1 ≠ c := by simpa [key] using hj 0 (by omega)
      have := ih i' (by simp at hi; omega) (by simpa [key] using hk)
        (fun j hjl => by have := hj (j + 1) (by omega); simpa [key] using this)
      simp [List.find?, h0, this]

theorem find_none (c : Nat) : ∀ (tbl : List (Nat × Nat)), (∀ i, i < tbl.length → key tbl i ≠ c) →
    tbl.find? (fun p => decide (p.1 = c)) = none := by
  intro tbl
  induction tbl with
  | nil => intro _; rfl
  | cons p t ih =>
    intro h
    have h0 : p.1 ≠ c := by simpa [key] using h 0 (by simp)
    have := ih (fun i hi => by have := h (i + 1) (by simp; omega); simpa [key] using this)
    simp [List.find?, h0, this]

/-- what the search must return: the value of the (unique) record with key c, else 0 -/
theorem lookup_spec (tbl : List (Nat × Nat)) (hs : Sorted tbl) (c : Nat) :
    (∀ i, i < tbl.length → key tbl i = c → lookup tbl c = val tbl i) ∧
    ((∀ i, i < tbl.length → key tbl i ≠ c) → lookup tbl c = 0) := by
  constructor
  · intro i hi hk
    have := find_first c tbl i hi hk (fun j hj heq => by
      have := hs j i hj hi; omega)
    simp [lookup, this, val]
  · intro h
    simp [lookup, find_none c tbl h]

/-- the do/while binary search finds exactly what a linear search finds, except that the record at
index 0 is never examined (harmless in the shipped tables, whose first record is (0, 0)) -/
theorem bsearch_correct (tbl : List (Nat × Nat)) (hs : Sorted tbl) (c : Nat) (hc0 : key tbl 0 ≠ c ∨ val tbl 0 = 0) :
    ∀ (fuel lo hi : Nat), lo ≤ hi → hi < tbl.length → hi - lo ≤ fuel →
      (∀ i, i < tbl.length → key tbl i = c → (lo ≤ i ∧ i ≤ hi) ) →
      (lo = 0 ∨ key tbl lo ≠ c) →
      bsearch tbl c fuel lo hi = lookup tbl c := by
  obtain ⟨ls1, ls2⟩ := lookup_spec tbl hs c
  have final : ∀ lo h, lo ≤ h → h < tbl.length → (∀ i, i < tbl.length → key tbl i = c → (lo ≤ i ∧ i ≤ h)) →
      (lo = 0 ∨ key tbl lo ≠ c) → (∀ i, lo < i → i < h → key tbl i ≠ c) →
      (if c = key tbl h then val tbl h else 0) = lookup tbl c := by
    intro lo h hlh hh hcand hlo hmid
    by_cases he : c = key tbl h
    · rw [if_pos he]; exact (ls1 h hh he.symm).symm
    · rw [if_neg he]
      by_cases hex : ∃ i, i < tbl.length ∧ key tbl i = c
      · obtain ⟨i, hi, hk⟩ := hex
        obtain ⟨h1, h2⟩ := hcand i hi hk
        have hil : i = lo := by
          by_cases h3 : i = lo
          · exact h3
          · by_cases h4 : i = h
            · subst h4; exact absurd hk.symm he
            · exact absurd hk (hmid i (by omega) (by omega))
        subst hil
        rcases hlo with h0 | h0
        · subst h0
          rw [ls1 0 hi hk]
          rcases hc0 with h5 | h5
          · exact absurd hk h5
          · exact h5.symm
        · exact absurd hk h0
      · exact (ls2 (fun i hi hk => hex ⟨i, hi, hk⟩)).symm
  intro fuel
  induction fuel with
  | zero =>
    intro lo hi hlh hh hf hcand hlo
    have : lo = hi := by omega
    subst this
    simp only [bsearch]
    exact final lo lo (Nat.le_refl _) hh hcand hlo (fun i h1 h2 => by omega)
  | succ fuel ih =>
    intro lo hi hlh hh hf hcand hlo
    simp only [bsearch]
    simp only [key, val, Sorted] at *
    have hmid_lo : lo ≤ (hi - lo) / 2 + lo := by omega
    have hmid_hi : (hi - lo) / 2 + lo ≤ hi := by omega
    generalize hm : (hi - lo) / 2 + lo = mid at *
    have hmlt : mid < tbl.length := by omega
    by_cases h1 : c > (tbl.getD mid (0, 0)).1
    · rw [if_pos h1]
      have hc' : ∀ i, i < tbl.length → (tbl.getD i (0, 0)).1 = c → (mid ≤ i ∧ i ≤ hi) := by
        intro i hi' hk
        obtain ⟨a, b⟩ := hcand i hi' hk
        refine ⟨?_, b⟩
        by_cases hlt : i < mid
        · have := hs i mid hlt hmlt; omega
        · omega
      have hmne : (tbl.getD mid (0, 0)).1 ≠ c := by omega
      by_cases h2 : mid + 1 < hi
      · rw [if_pos h2]
        exact ih mid hi (by omega) hh (by omega) hc' (Or.inr hmne)
      · rw [if_neg h2]
        exact final mid hi hmid_hi hh hc' (Or.inr hmne) (fun i h3 h4 => by omega)
    · rw [if_neg h1]
      by_cases h2 : c < (tbl.getD mid (0, 0)).1
      · rw [if_pos h2]
        have hc' : ∀ i, i < tbl.length → (tbl.getD i (0, 0)).1 = c → (lo ≤ i ∧ i ≤ mid) := by
          intro i hi' hk
          obtain ⟨a, b⟩ := hcand i hi' hk
          refine ⟨a, ?_⟩
          by_cases hgt : mid < i
          · have := hs mid i hgt hi'; omega
          · omega
        by_cases h3 : lo + 1 < mid
        · rw [if_pos h3]
          exact ih lo mid hmid_lo hmlt (by omega) hc' hlo
        · rw [if_neg h3]
          exact final lo mid hmid_lo hmlt hc' hlo (fun i h4 h5 => by omega)
      · rw [if_neg h2]
        have : (tbl.getD mid (0, 0)).1 = c := by omega
        exact (ls1 mid hmlt this).symm

/-- `xlatOneTo` on a table that is strictly sorted, whose first record is (0,0) and whose declared size is its
length, is a plain dictionary lookup -/
theorem xlatOneTo_eq_lookup (t : Table) (hs : strictSorted (t.toTable.map (·.1)) = true)
    (hsz : t.declaredToSize = t.toTable.length) (hpos : 0 < t.toTable.length)
    (h0 : t.toTable.getD 0 (1, 1) = (0, 0)) (c : Nat) :
    xlatOneTo t c = lookup t.toTable c := by
  unfold xlatOneTo
  have hsorted := sorted_of_strict t.toTable hs
  have hv0 : val t.toTable 0 = 0 := by
    unfold val
    cases hl : t.toTable with
    | nil => rw [hl] at hpos; simp at hpos
    | cons p r => rw [hl] at h0; simp at h0; simp [h0]
  rw [hsz]
  exact bsearch_correct t.toTable hsorted c (Or.inr hv0) t.toTable.length 0 (t.toTable.length - 1)
    (Nat.zero_le _) (by omega) (by omega) (fun i hi _ => ⟨Nat.zero_le _, by omega⟩) (Or.inl rfl)

end XV.Lemmas.ByteCodec
