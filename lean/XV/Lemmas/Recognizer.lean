import XV.Model.Recognizer
import XV.Model.ByteCodec
namespace XV.Lemmas.Recognizer
open XV.Model.Recognizer XV.Gen.Recognizer XV.Model.ByteCodec XV.Gen.ByteTables

/-- `<?xml ` -/
def declText : List Nat := [0x3C, 0x3F, 0x78, 0x6D, 0x6C, 0x20]

/-- the recogniser's prefixes are the encodings of `<?xml ` in each family (the EBCDIC one through the
IBM037 table of another source file) -/
theorem prefixes_are_encodings :
    fgASCIIPre = declText ∧
    fgUTF16BPre = declText.flatMap (bytes16 true) ∧ fgUTF16LPre = declText.flatMap (bytes16 false) ∧
    fgUCS4BPre = declText.flatMap (bytes32 true) ∧ fgUCS4LPre = declText.flatMap (bytes32 false) ∧
    fgEBCDICPre = declText.map (lookup toEbcdic037) ∧ fgUTF8BOM = [0xEF, 0xBB, 0xBF] := by decide +kernel

theorem isPrefixOf_append (p r : List Nat) : p.isPrefixOf (p ++ r) = true := by
  induction p with
  | nil => simp
  | cons a t ih => simp [List.isPrefixOf, ih]

theorem probe_decl_utf8 (rest : List Nat) : basicEncodingProbe (fgASCIIPre ++ rest) = .UTF_8 := by
  unfold basicEncodingProbe hasPrefix
  simp [isPrefixOf_append]

theorem probe_decl_utf16b (rest : List Nat) : basicEncodingProbe (fgUTF16BPre ++ rest) = .UTF_16B := by
  simp [basicEncodingProbe, hasPrefix, fgUTF16BPre, fgASCIIPre, fgUCS4BPre, fgUCS4LPre, b, List.isPrefixOf]
  all_goals ((repeat' split) <;> (first | rfl | omega | (intros; omega)))

theorem probe_decl_utf16l (rest : List Nat) : basicEncodingProbe (fgUTF16LPre ++ rest) = .UTF_16L := by
  simp [basicEncodingProbe, hasPrefix, fgUTF16LPre, fgUTF16BPre, fgASCIIPre, fgUCS4BPre, fgUCS4LPre, b, List.isPrefixOf]
  all_goals ((repeat' split) <;> (first | rfl | omega | (intros; omega)))

theorem probe_decl_ucs4b (rest : List Nat) : basicEncodingProbe (fgUCS4BPre ++ rest) = .UCS_4B := by
  simp [basicEncodingProbe, hasPrefix, fgASCIIPre, fgUCS4BPre, b, List.isPrefixOf]
  all_goals ((repeat' split) <;> (first | rfl | omega | (intros; omega)))

theorem probe_decl_ucs4l (rest : List Nat) : basicEncodingProbe (fgUCS4LPre ++ rest) = .UCS_4L := by
  simp [basicEncodingProbe, hasPrefix, fgASCIIPre, fgUCS4BPre, fgUCS4LPre, b, List.isPrefixOf]
  all_goals ((repeat' split) <;> (first | rfl | omega | (intros; omega)))

theorem probe_decl_ebcdic (rest : List Nat) (h : rest ≠ []) : basicEncodingProbe (fgEBCDICPre ++ rest) = .EBCDIC := by
  have : 0 < rest.length := by cases rest <;> simp_all
  simp [basicEncodingProbe, hasPrefix, fgEBCDICPre, fgASCIIPre, fgUCS4BPre, fgUCS4LPre, fgUTF16BPre, fgUTF16LPre, b, List.isPrefixOf]
  all_goals ((repeat' split) <;> (first | rfl | omega | (intros; omega)))

theorem probe_bom_ucs4b (rest : List Nat) : basicEncodingProbe ([0x00, 0x00, 0xFE, 0xFF] ++ rest) = .UCS_4B := by
  simp [basicEncodingProbe, hasPrefix, fgASCIIPre, b, List.isPrefixOf]
  all_goals ((repeat' split) <;> (first | rfl | omega | (intros; omega)))

theorem probe_bom_ucs4l (rest : List Nat) : basicEncodingProbe ([0xFF, 0xFE, 0x00, 0x00] ++ rest) = .UCS_4L := by
  simp [basicEncodingProbe, hasPrefix, fgASCIIPre, b, List.isPrefixOf]
  all_goals ((repeat' split) <;> (first | rfl | omega | (intros; omega)))

theorem probe_bom_utf16b (x y : Nat) (rest : List Nat) : basicEncodingProbe ([0xFE, 0xFF, x, y] ++ rest) = .UTF_16B := by
  simp [basicEncodingProbe, hasPrefix, fgASCIIPre, b, List.isPrefixOf]
  all_goals ((repeat' split) <;> (first | rfl | omega | (intros; omega)))

theorem probe_bom_utf16l (x y : Nat) (rest : List Nat) (h : ¬ (x = 0 ∧ y = 0)) :
    basicEncodingProbe ([0xFF, 0xFE, x, y] ++ rest) = .UTF_16L := by
  simp [basicEncodingProbe, hasPrefix, fgASCIIPre, b, List.isPrefixOf]
  all_goals ((repeat' split) <;> (first | rfl | omega | (intros; omega)))

theorem probe_bom_utf8 (rest : List Nat) : basicEncodingProbe ([0xEF, 0xBB, 0xBF] ++ rest) = .UTF_8 := by
  cases rest with
  | nil => simp [basicEncodingProbe, hasPrefix, fgASCIIPre, b, List.isPrefixOf]
  | cons r t =>
    simp [basicEncodingProbe, hasPrefix, fgASCIIPre, fgUCS4BPre, fgUCS4LPre, fgUTF16BPre, fgUTF16LPre, fgEBCDICPre, b, List.isPrefixOf]
    all_goals ((repeat' split) <;> (first | rfl | omega | (intros; omega)))

end XV.Lemmas.Recognizer
