/- Helper lemmas for XV.Props.C10 (identity constraints). -/
import XV.Spec.Identity
import XV.Model.Identity
namespace XV.Lemmas.Identity
open XV.Spec.Identity XV.Model.Identity XV.Gen.ValidityCodes

/-! ## Decimal value space -/

/-- normal form: no trailing fractional zero -/
def DecNF (m : Int) (s : Nat) : Prop := s = 0 ∨ m % 10 ≠ 0

theorem normDec_nf (m : Int) (s : Nat) : DecNF (normDec m s).1 (normDec m s).2 := by
  induction s generalizing m with
  | zero => simp [normDec, DecNF]
  | succ s ih =>
    unfold normDec
    by_cases h : m % 10 = 0
    · simp [h]; exact ih _
    · simp [h, DecNF]

theorem normDec_val (m : Int) (s : Nat) : (normDec m s).1 * 10 ^ s = m * 10 ^ (normDec m s).2 := by
  induction s generalizing m with
  | zero => simp [normDec]
  | succ s ih =>
    unfold normDec
    by_cases h : m % 10 = 0
    · simp only [h, if_true]
      have this := ih (m / 10)
      have hm : m = (m / 10) * 10 := by omega
      generalize normDec (m / 10) s = n at this ⊢
      generalize m / 10 = q at this hm
      subst hm
      rw [Int.pow_succ, ← Int.mul_assoc, this, Int.mul_assoc, Int.mul_assoc, Int.mul_comm (10 ^ n.2)]
    · simp [h]

theorem nf_unique {m1 m2 : Int} {s1 s2 : Nat} (h1 : DecNF m1 s1) (h2 : DecNF m2 s2)
    (h : m1 * 10 ^ s2 = m2 * 10 ^ s1) : m1 = m2 ∧ s1 = s2 := by
  induction s1 generalizing s2 with
  | zero =>
    cases s2 with
    | zero => simp at h; exact ⟨h, rfl⟩
    | succ s2 =>
      exfalso
      rcases h2 with h2 | h2
      · omega
      · simp at h
        rw [Int.pow_succ, ← Int.mul_assoc] at h
        omega
  | succ s1 ih =>
    cases s2 with
    | zero =>
      exfalso
      rcases h1 with h1 | h1
      · omega
      · simp at h
        rw [Int.pow_succ, ← Int.mul_assoc] at h
        omega
    | succ s2 =>
      rw [Int.pow_succ, Int.pow_succ, ← Int.mul_assoc, ← Int.mul_assoc] at h
      have h' : m1 * 10 ^ s2 = m2 * 10 ^ s1 := by omega
      have n1 : DecNF m1 s1 := by
        rcases h1 with h1 | h1
        · omega
        · exact Or.inr h1
      have n2 : DecNF m2 s2 := by
        rcases h2 with h2 | h2
        · omega
        · exact Or.inr h2
      have := ih n1 n2 h'
      exact ⟨this.1, by omega⟩

theorem pow10_ne (k : Nat) : (10 : Int) ^ k ≠ 0 := Int.ne_of_gt (Int.pow_pos (by decide))

theorem normDec_eq_iff (m1 : Int) (s1 : Nat) (m2 : Int) (s2 : Nat) :
    normDec m1 s1 = normDec m2 s2 ↔ decValEq m1 s1 m2 s2 := by
  unfold decValEq
  have v1 := normDec_val m1 s1
  have v2 := normDec_val m2 s2
  constructor
  · intro h
    rw [h] at v1
    generalize normDec m2 s2 = n at v1 v2
    have e : (m1 * 10 ^ s2) * 10 ^ n.2 = (m2 * 10 ^ s1) * 10 ^ n.2 := by
      calc (m1 * 10 ^ s2) * 10 ^ n.2 = (m1 * 10 ^ n.2) * 10 ^ s2 := by
              rw [Int.mul_assoc, Int.mul_assoc, Int.mul_comm (10 ^ s2)]
        _ = (n.1 * 10 ^ s1) * 10 ^ s2 := by rw [v1]
        _ = (n.1 * 10 ^ s2) * 10 ^ s1 := by rw [Int.mul_assoc, Int.mul_assoc, Int.mul_comm (10 ^ s1)]
        _ = (m2 * 10 ^ n.2) * 10 ^ s1 := by rw [v2]
        _ = (m2 * 10 ^ s1) * 10 ^ n.2 := by rw [Int.mul_assoc, Int.mul_assoc, Int.mul_comm (10 ^ s1)]
    exact Int.eq_of_mul_eq_mul_right (pow10_ne _) e
  · intro h
    have nf1 := normDec_nf m1 s1
    have nf2 := normDec_nf m2 s2
    generalize normDec m1 s1 = a at v1 nf1 ⊢
    generalize normDec m2 s2 = b at v2 nf2 ⊢
    have e : (a.1 * 10 ^ b.2) * (10 ^ s1 * 10 ^ s2) = (b.1 * 10 ^ a.2) * (10 ^ s1 * 10 ^ s2) := by
      calc (a.1 * 10 ^ b.2) * (10 ^ s1 * 10 ^ s2) = (a.1 * 10 ^ s1) * (10 ^ b.2 * 10 ^ s2) := by
              simp only [Int.mul_assoc, Int.mul_comm, Int.mul_left_comm]
        _ = (m1 * 10 ^ a.2) * (10 ^ b.2 * 10 ^ s2) := by rw [v1]
        _ = (m1 * 10 ^ s2) * (10 ^ a.2 * 10 ^ b.2) := by simp only [Int.mul_assoc, Int.mul_comm, Int.mul_left_comm]
        _ = (m2 * 10 ^ s1) * (10 ^ a.2 * 10 ^ b.2) := by rw [h]
        _ = (m2 * 10 ^ b.2) * (10 ^ a.2 * 10 ^ s1) := by simp only [Int.mul_assoc, Int.mul_comm, Int.mul_left_comm]
        _ = (b.1 * 10 ^ s2) * (10 ^ a.2 * 10 ^ s1) := by rw [v2]
        _ = (b.1 * 10 ^ a.2) * (10 ^ s1 * 10 ^ s2) := by simp only [Int.mul_assoc, Int.mul_comm, Int.mul_left_comm]
    have e' := Int.eq_of_mul_eq_mul_right (Int.mul_ne_zero (pow10_ne _) (pow10_ne _)) e
    have := nf_unique nf1 nf2 e'
    exact Prod.ext this.1 this.2

/-! ## XPathMatcher: blocked subtrees -/

/-- the location path ignores the subtree: an ancestor is the match (`fMatched` = XP_MATCHED / XP_MATCHED_A) or
    `fNoMatchDepth > 0` -/
def Blocked (s : PSt) : Prop := (s.matched &&& XP_MATCHED_D) = XP_MATCHED ∨ s.noMatch > 0

theorem startPath_blocked (steps : Path) (s : PSt) (nm : QName) (ats : List (QName × TV)) (h : Blocked s) :
    startPath steps s nm ats = ({ s with stack := s.cur :: s.stack, noMatch := s.noMatch + 1 }, none) := by
  unfold startPath
  have : ((s.matched &&& XP_MATCHED_D) == XP_MATCHED || decide (s.noMatch > 0)) = true := by
    rcases h with h | h
    · simp [h]
    · simp [h]
  simp only [this, if_true]

mutual
theorem run1_blocked (steps : Path) (s : PSt) (h : Blocked s) :
    ∀ t : Node, (run1 steps s t).1 = s ∧ (run1 steps s t).2.2 = []
  | .mk i nm a b ats tx kids => by
      unfold run1
      rw [startPath_blocked steps s nm ats h]
      simp only []
      have ih := run1s_blocked steps { s with stack := s.cur :: s.stack, noMatch := s.noMatch + 1 }
        (Or.inr (by simp)) kids
      rw [ih.1, ih.2]
      simp [endPath]
theorem run1s_blocked (steps : Path) (s : PSt) (h : Blocked s) :
    ∀ ts : List Node, (run1s steps s ts).1 = s ∧ (run1s steps s ts).2.2 = []
  | [] => by simp [run1s]
  | k :: ks => by
      unfold run1s
      have ih1 := run1_blocked steps s h k
      simp only []
      rw [ih1.1, ih1.2]
      have ih2 := run1s_blocked steps s h ks
      rw [ih2.1, ih2.2]
      simp
end

/-! ## XPathMatcher on `./t1/…/tn` -/

/-- `./t1/t2/…/tn` as XercesXPath stores it -/
def simplePath (ts : List NameTest) : Path := .self :: ts.map .child

theorem takeWhile_self_child (l : List NameTest) : (l.map Step.child).takeWhile isSelf = [] := by
  cases l <;> simp [isSelf]
theorem takeWhile_desc_child (l : List NameTest) : (l.map Step.child).takeWhile isDesc = [] := by
  cases l <;> simp [isDesc]

theorem simplePath_length (ts : List NameTest) : (simplePath ts).length = ts.length + 1 := by simp [simplePath]

theorem skipSelf_zero (ts : List NameTest) : skipAxis isSelf (simplePath ts) 0 = 1 := by
  simp [skipAxis, simplePath, List.takeWhile, isSelf, takeWhile_self_child]

theorem skipSelf_succ (ts : List NameTest) (j : Nat) : skipAxis isSelf (simplePath ts) (j + 1) = j + 1 := by
  simp [skipAxis, simplePath, ← List.map_drop, takeWhile_self_child]

theorem skipDesc_succ (ts : List NameTest) (j : Nat) : skipAxis isDesc (simplePath ts) (j + 1) = j + 1 := by
  simp [skipAxis, simplePath, ← List.map_drop, takeWhile_desc_child]

theorem simplePath_get (ts : List NameTest) (j : Nat) : (simplePath ts)[j + 1]? = (ts[j]?).map Step.child := by
  simp [simplePath]

/-- start of an element below the context while the path is still being followed (`j` tests consumed) -/
theorem startPath_alive (ts : List NameTest) (j : Nat) (t : NameTest) (stk : List Nat) (nm : QName)
    (ats : List (QName × TV)) (hj : ts[j]? = some t) :
    startPath (simplePath ts) ⟨j + 1, stk, 0, 0⟩ nm ats =
      if t.ok nm then (⟨j + 2, (j + 1) :: stk, 0, if j + 1 = ts.length then 1 else 0⟩, none)
      else (⟨j + 1, (j + 1) :: stk, 1, 0⟩, none) := by
  have hlt : j < ts.length := by
    rcases Nat.lt_or_ge j ts.length with h | h
    · exact h
    · rw [List.getElem?_eq_none h] at hj; cases hj
  unfold startPath
  simp only [XP_MATCHED, XP_MATCHED_D, XP_MATCHED_DP, XP_MATCHED_A]
  simp [simplePath_length, skipSelf_succ, skipDesc_succ, simplePath_get, hj]
  have hne : ¬ j = ts.length := by omega
  by_cases hok : t.ok nm = true
  · simp [hok, hne]
    by_cases hn : j + 1 = ts.length
    · simp [hn]
    · have hj2 : j + 1 < ts.length := by omega
      simp [hn, simplePath_get, List.getElem?_eq_getElem hj2]
  · simp [hok, hne]

/-- start of the context element -/
theorem startPath_ctx (ts : List NameTest) (nm : QName) (ats : List (QName × TV)) :
    startPath (simplePath ts) {} nm ats = (⟨1, [0], 0, if ts = [] then 1 else 0⟩, none) := by
  unfold startPath
  simp only [XP_MATCHED, XP_MATCHED_D, XP_MATCHED_DP, XP_MATCHED_A]
  simp [simplePath_length, skipSelf_zero]
  cases ts with
  | nil => simp
  | cons t r =>
    have this : skipAxis isDesc (simplePath (t :: r)) 1 = 1 := skipDesc_succ (t :: r) 0
    simp only [simplePath, List.map_cons] at this
    simp [this, simplePath]

mutual
/-- the elements selected below a node when the tests `rest` remain (`rest` non-empty, the first one is for the node) -/
def hits : List NameTest → Node → List Nat
  | rest, .mk i nm _ _ _ _ kids =>
    match rest with
    | [] => []
    | t :: r => if t.ok nm then (if r.isEmpty then [i] else hitsKids r kids) else []
def hitsKids : List NameTest → List Node → List Nat
  | _, [] => []
  | rest, k :: ks => hits rest k ++ hitsKids rest ks
end

theorem drop_of_get {α : Type} (l : List α) (j : Nat) (x : α) (h : l[j]? = some x) : l.drop j = x :: l.drop (j + 1) := by
  have hlt : j < l.length := by
    rcases Nat.lt_or_ge j l.length with h' | h'
    · exact h'
    · rw [List.getElem?_eq_none h'] at h; cases h
  rw [List.getElem?_eq_getElem hlt] at h
  cases h
  exact List.drop_eq_getElem_cons hlt

mutual
theorem run1_alive (ts : List NameTest) : ∀ (node : Node) (j : Nat) (t : NameTest) (stk : List Nat), ts[j]? = some t →
    (run1 (simplePath ts) ⟨j + 1, stk, 0, 0⟩ node).1 = ⟨j + 1, stk, 0, 0⟩ ∧
    (run1 (simplePath ts) ⟨j + 1, stk, 0, 0⟩ node).2.2 = (hits (ts.drop j) node).map fun i => (i, none)
  | .mk i nm a b ats tx kids, j, t, stk, hj => by
      have hlt : j < ts.length := by
        rcases Nat.lt_or_ge j ts.length with h' | h'
        · exact h'
        · rw [List.getElem?_eq_none h'] at hj; cases hj
      unfold run1
      rw [startPath_alive ts j t stk nm ats hj, drop_of_get ts j t hj]
      unfold hits
      by_cases hok : t.ok nm = true
      · simp only [hok, if_true]
        by_cases hn : j + 1 = ts.length
        · have hb : Blocked ⟨j + 2, (j + 1) :: stk, 0, 1⟩ := Or.inl (by show (1 &&& XP_MATCHED_D) = XP_MATCHED; decide)
          have ih := run1s_blocked (simplePath ts) _ hb kids
          have hd : ts.drop (j + 1) = [] := by simp [hn]
          simp only [hn, if_true] at ih ⊢
          rw [ih.1, ih.2]
          simp [endPath, XP_MATCHED_A]
        · have hj2 : j + 1 < ts.length := by omega
          have hg : ts[j + 1]? = some ts[j + 1] := List.getElem?_eq_getElem hj2
          have ih := run1s_alive ts kids (j + 1) ts[j + 1] ((j + 1) :: stk) hg
          have hd : (ts.drop (j + 1)).isEmpty = false := by
            rw [drop_of_get ts (j + 1) _ hg]; rfl
          simp only [hn, if_false] at ih ⊢
          rw [ih.1, ih.2]
          simp [endPath, hd]
      · have hb : Blocked ⟨j + 1, (j + 1) :: stk, 1, 0⟩ := Or.inr (by simp)
        have ih := run1s_blocked (simplePath ts) _ hb kids
        simp only [hok] at ih ⊢
        simp only [Bool.false_eq_true, if_false]
        rw [ih.1, ih.2]
        simp [endPath]
theorem run1s_alive (ts : List NameTest) : ∀ (nodes : List Node) (j : Nat) (t : NameTest) (stk : List Nat), ts[j]? = some t →
    (run1s (simplePath ts) ⟨j + 1, stk, 0, 0⟩ nodes).1 = ⟨j + 1, stk, 0, 0⟩ ∧
    (run1s (simplePath ts) ⟨j + 1, stk, 0, 0⟩ nodes).2.2 = (hitsKids (ts.drop j) nodes).map fun i => (i, none)
  | [], j, t, stk, hj => by simp [run1s, hitsKids]
  | k :: ks, j, t, stk, hj => by
      unfold run1s hitsKids
      have ih1 := run1_alive ts k j t stk hj
      simp only []
      rw [ih1.1, ih1.2]
      have ih2 := run1s_alive ts ks j t stk hj
      rw [ih2.1, ih2.2]
      simp
end

/-- the matcher started at a context element: the state is restored and `matched()` is called exactly for `ctxHits` -/
def ctxHits (ts : List NameTest) (ctx : Node) : List Nat :=
  if ts.isEmpty then [ctx.id] else hitsKids ts ctx.kids

theorem run1_ctx (ts : List NameTest) (ctx : Node) :
    (run1 (simplePath ts) {} ctx).1 = {} ∧
    (run1 (simplePath ts) {} ctx).2.2 = (ctxHits ts ctx).map fun i => (i, none) := by
  cases ctx with
  | mk i nm a b ats tx kids =>
    unfold run1
    rw [startPath_ctx]
    cases ts with
    | nil =>
      have hb : Blocked ⟨1, [0], 0, 1⟩ := Or.inl (by show (1 &&& XP_MATCHED_D) = XP_MATCHED; decide)
      have ih := run1s_blocked (simplePath []) _ hb kids
      simp only [if_true] at ih ⊢
      rw [ih.1, ih.2]
      simp [endPath, ctxHits, Node.id, XP_MATCHED_A]
    | cons t r =>
      have ih := run1s_alive (t :: r) kids 0 t [0] (by simp)
      simp only [List.cons_ne_nil, if_false] at ih ⊢
      rw [ih.1, ih.2]
      simp [endPath, ctxHits, Node.kids]

theorem pathMatches_children_nil (ts : List NameTest) (tgt : Option QName) :
    pathMatches (ts.map Step.child) [] tgt = (ts.isEmpty && tgt.isNone) := by
  cases ts <;> simp [pathMatches]

theorem pathMatches_nil_cons (q : QName) (c : List QName) (tgt : Option QName) : pathMatches [] (q :: c) tgt = false := by
  simp [pathMatches]

theorem pathMatches_child_cons (t : NameTest) (p : Path) (q : QName) (c : List QName) (tgt : Option QName) :
    pathMatches (Step.child t :: p) (q :: c) tgt = (t.ok q && pathMatches p c tgt) := by
  simp [pathMatches]

/-- every chain in `descsKids` is non-empty -/
theorem descsKids_chain_ne (ks : List Node) : ∀ p ∈ descsKids ks, p.1 ≠ [] := by
  induction ks with
  | nil => simp [descsKids]
  | cons k ks ih =>
    intro p hp
    unfold descsKids at hp
    rcases List.mem_append.mp hp with h | h
    · rcases List.mem_map.mp h with ⟨x, _, rfl⟩
      simp
    · exact ih p h

theorem filter_nil_path_kids (ks : List Node) :
    (descsKids ks).filter (fun p => pathMatches [] p.1 none) = [] := by
  apply List.filter_eq_nil_iff.mpr
  intro p hp
  have := descsKids_chain_ne ks p hp
  cases h : p.1 with
  | nil => exact absurd h this
  | cons q c => simp [pathMatches]

theorem filter_prefix (l : List (List QName × Node)) (q : QName) (t : NameTest) (rest : Path) :
    ((l.map fun p => (q :: p.1, p.2)).filter fun p => pathMatches (Step.child t :: rest) p.1 none)
      = if t.ok q then (l.filter fun p => pathMatches rest p.1 none).map (fun p => (q :: p.1, p.2)) else [] := by
  induction l with
  | nil => simp
  | cons x l ih =>
    simp only [List.map_cons, List.filter_cons, pathMatches_child_cons, ih]
    by_cases hok : t.ok q = true
    · simp only [hok, Bool.true_and, if_true]
      by_cases hp : pathMatches rest x.1 none = true
      · simp [hp]
      · simp [hp]
    · simp [hok]

mutual
theorem hits_spec : ∀ (k : Node) (t : NameTest) (r : List NameTest),
    (((k.descs.map fun p => (k.name :: p.1, p.2)).filter fun p => pathMatches ((t :: r).map Step.child) p.1 none).map fun p => p.2.id)
      = hits (t :: r) k
  | .mk i nm a b ats tx kids, t, r => by
      rw [List.map_cons, filter_prefix]
      unfold hits Node.descs
      simp only [Node.name]
      by_cases hok : t.ok nm = true
      · simp only [hok, if_true, List.filter_cons, pathMatches_children_nil]
        cases r with
        | nil =>
          have := filter_nil_path_kids kids
          simp only [List.map_nil] at this ⊢
          simp [this, Node.id]
        | cons t' r' =>
          have ih := hitsKids_spec kids t' r'
          simp [List.map_map, Function.comp_def]
          exact ih
      · simp [hok]
theorem hitsKids_spec : ∀ (ks : List Node) (t : NameTest) (r : List NameTest),
    (((descsKids ks).filter fun p => pathMatches ((t :: r).map Step.child) p.1 none).map fun p => p.2.id)
      = hitsKids (t :: r) ks
  | [], t, r => by simp [descsKids, hitsKids]
  | k :: ks, t, r => by
      unfold descsKids hitsKids
      rw [List.filter_append, List.map_append, hits_spec k t r, hitsKids_spec ks t r]
end

theorem ctxHits_spec (ts : List NameTest) (ctx : Node) :
    ((ctx.descs.filter fun p => pathMatches (simplePath ts) p.1 none).map fun p => p.2.id) = ctxHits ts ctx := by
  cases ctx with
  | mk i nm a b ats tx kids =>
    unfold Node.descs ctxHits simplePath
    simp only [pathMatches, List.filter_cons, pathMatches_children_nil, Node.id, Node.kids]
    cases ts with
    | nil =>
      have := filter_nil_path_kids kids
      simp only [List.map_nil] at this ⊢
      simp [this]
    | cons t r =>
      have := hitsKids_spec kids t r
      simp
      exact this

/-! ## XPathMatcher on `.//t` -/

/-- `.//t` as XercesXPath stores it -/
def descPath (t : NameTest) : Path := [.self, .desc, .child t]

/-- the states a `.//t` location path is in between elements -/
def DState (s : PSt) : Prop := s.cur = 1 ∧ s.noMatch = 0 ∧ (s.matched = 0 ∨ s.matched = 5 ∨ s.matched = 13)

theorem skipSelf_desc1 (t : NameTest) : skipAxis isSelf (descPath t) 1 = 1 := rfl
theorem skipDesc_desc1 (t : NameTest) : skipAxis isDesc (descPath t) 1 = 2 := rfl
theorem skipSelf_desc0 (t : NameTest) : skipAxis isSelf (descPath t) 0 = 1 := rfl
theorem descPath_length (t : NameTest) : (descPath t).length = 3 := rfl
theorem descPath_get2 (t : NameTest) : (descPath t)[2]? = some (.child t) := rfl

theorem startPath_desc (t : NameTest) (s : PSt) (nm : QName) (ats : List (QName × TV)) (h : DState s) :
    startPath (descPath t) s nm ats =
      (⟨1, 1 :: s.stack, 0, if t.ok nm then 5 else (if s.matched = 0 then 0 else 13)⟩, none) := by
  obtain ⟨hc, hn, hm⟩ := h
  cases s with
  | mk cur stack noMatch matched =>
    simp only at hc hn hm
    subst hc hn
    unfold startPath
    simp only [XP_MATCHED, XP_MATCHED_D, XP_MATCHED_DP, XP_MATCHED_A]
    rcases hm with hm | hm | hm <;> subst hm <;>
      by_cases hok : t.ok nm = true <;>
      simp [skipSelf_desc1, skipDesc_desc1, descPath_length, descPath_get2, hok]

theorem startPath_desc_ctx (t : NameTest) (nm : QName) (ats : List (QName × TV)) :
    startPath (descPath t) {} nm ats = (⟨1, [0], 0, if t.ok nm then 5 else 0⟩, none) := by
  unfold startPath
  simp only [XP_MATCHED, XP_MATCHED_D, XP_MATCHED_DP, XP_MATCHED_A]
  by_cases hok : t.ok nm = true <;>
    simp [skipSelf_desc0, skipDesc_desc1, descPath_length, descPath_get2, hok]

theorem endPath_desc (s : PSt) (k : Nat) (stk : List Nat) (hs : s.stack = k :: stk) (hn : s.noMatch = 0)
    (hm : s.matched = 0 ∨ s.matched = 5 ∨ s.matched = 13) :
    (endPath s).1 = ⟨k, stk, 0, 0⟩ := by
  cases s with
  | mk cur stack noMatch matched =>
    simp only at hs hn hm
    subst hs hn
    unfold endPath
    simp only [XP_MATCHED_A]
    rcases hm with hm | hm | hm <;> subst hm <;> simp

mutual
theorem run1_desc (t : NameTest) : ∀ (node : Node) (s : PSt), DState s →
    (run1 (descPath t) s node).1 = ⟨1, s.stack, 0, 0⟩ ∧
    (run1 (descPath t) s node).2.1.map (fun x => x.matched == 5) = node.descs.map (fun p => t.ok p.2.name)
  | .mk i nm a b ats tx kids, s, hs => by
      unfold run1 Node.descs
      rw [startPath_desc t s nm ats hs]
      have hs1 : DState ⟨1, 1 :: s.stack, 0, if t.ok nm then 5 else (if s.matched = 0 then 0 else 13)⟩ := by
        refine ⟨rfl, rfl, ?_⟩
        by_cases hok : t.ok nm = true
        · simp [hok]
        · by_cases hm : s.matched = 0 <;> simp [hok, hm]
      have ih := run1s_desc t kids _ hs1
      obtain ⟨⟨hc, hst, hn, hm⟩, hf⟩ := ih
      simp only []
      refine ⟨?_, ?_⟩
      · exact endPath_desc _ 1 s.stack hst hn hm
      · simp only [List.map_cons, hf, Node.name]
        congr 1
        by_cases hok : t.ok nm = true
        · simp [hok]
        · by_cases hm0 : s.matched = 0 <;> simp [hok, hm0]
theorem run1s_desc (t : NameTest) : ∀ (nodes : List Node) (s : PSt), DState s →
    ((run1s (descPath t) s nodes).1.cur = 1 ∧ (run1s (descPath t) s nodes).1.stack = s.stack ∧
      (run1s (descPath t) s nodes).1.noMatch = 0 ∧
      ((run1s (descPath t) s nodes).1.matched = 0 ∨ (run1s (descPath t) s nodes).1.matched = 5 ∨
        (run1s (descPath t) s nodes).1.matched = 13)) ∧
    (run1s (descPath t) s nodes).2.1.map (fun x => x.matched == 5) = (descsKids nodes).map (fun p => t.ok p.2.name)
  | [], s, hs => by
      obtain ⟨hc, hn, hm⟩ := hs
      simp [run1s, descsKids, hc, hn, hm]
  | k :: ks, s, hs => by
      unfold run1s descsKids
      have ih1 := run1_desc t k s hs
      have hs2 : DState ⟨1, s.stack, 0, 0⟩ := ⟨rfl, rfl, Or.inl rfl⟩
      have ih2 := run1s_desc t ks _ hs2
      simp only []
      rw [ih1.1]
      refine ⟨ih2.1, ?_⟩
      rw [List.map_append, ih1.2, ih2.2, List.map_append, List.map_map]
      rfl
end

theorem anySuffix_last (t : NameTest) : ∀ c : List QName,
    anySuffix (fun c' => pathMatches [Step.child t] c' none) c = (match c.getLast? with | some q => t.ok q | none => false)
  | [] => by simp [anySuffix, pathMatches]
  | [q] => by simp [anySuffix, pathMatches]
  | q :: q' :: c => by
      have ih := anySuffix_last t (q' :: c)
      unfold anySuffix
      rw [ih]
      simp [pathMatches, List.getLast?_cons_cons]

theorem pathMatches_desc (t : NameTest) (c : List QName) :
    pathMatches (descPath t) c none = (match c.getLast? with | some q => t.ok q | none => false) := by
  unfold descPath
  simp only [pathMatches]
  exact anySuffix_last t c

mutual
theorem descs_last : ∀ (k : Node), ∀ p ∈ k.descs, (k.name :: p.1).getLast? = some p.2.name
  | .mk i nm a b ats tx kids, p, hp => by
      unfold Node.descs at hp
      rcases List.mem_cons.mp hp with h | h
      · subst h; simp [Node.name]
      · have := descsKids_last kids p h
        obtain ⟨hne, hl⟩ := this
        cases hc : p.1 with
        | nil => exact absurd hc hne
        | cons q c => rw [hc] at hl; simp [List.getLast?_cons_cons, hl]
theorem descsKids_last : ∀ (ks : List Node), ∀ p ∈ descsKids ks, p.1 ≠ [] ∧ p.1.getLast? = some p.2.name
  | [], p, hp => by simp [descsKids] at hp
  | k :: ks, p, hp => by
      unfold descsKids at hp
      rcases List.mem_append.mp hp with h | h
      · rcases List.mem_map.mp h with ⟨x, hx, rfl⟩
        exact ⟨by simp, descs_last k x hx⟩
      · exact descsKids_last ks p h
end

theorem run1_desc_ctx (t : NameTest) (ctx : Node) (h : t.ok ctx.name = false) :
    (run1 (descPath t) {} ctx).1 = {} ∧
    (run1 (descPath t) {} ctx).2.1.map (fun x => x.matched == 5)
      = ctx.descs.map (fun p => pathMatches (descPath t) p.1 none) := by
  cases ctx with
  | mk i nm a b ats tx kids =>
    simp only [Node.name] at h
    unfold run1 Node.descs
    rw [startPath_desc_ctx]
    have hs1 : DState ⟨1, [0], 0, if t.ok nm then 5 else 0⟩ := by
      refine ⟨rfl, rfl, ?_⟩
      simp [h]
    obtain ⟨⟨hc, hst, hn, hm⟩, hf⟩ := run1s_desc t kids _ hs1
    simp only []
    refine ⟨?_, ?_⟩
    · exact endPath_desc _ 0 [] hst hn hm
    · simp only [List.map_cons, hf, pathMatches_desc]
      congr 1
      · simp [h]
      · apply List.map_congr_left
        intro p hp
        obtain ⟨_, hl⟩ := descsKids_last kids p hp
        simp [hl]

/-! ## ValueStore: one scope element -/

/-- the calls a FieldMatcher makes inside one value scope when every field matches at most once:
    `addValue` for the fields that are present, in field order -/
def addRow (s : VStore) : Nat → List (Option SV) → VStore × List Nat
  | _, [] => (s, [])
  | idx, none :: r => addRow s (idx + 1) r
  | idx, some v :: r =>
      let a := s.addValue true idx v
      let b := addRow a.1 (idx + 1) r
      (b.1, a.2 ++ b.2)

/-- startValueScope … addValue* … endValueScope for one selected node -/
def scopeRun (s : VStore) (row : List (Option SV)) : VStore × List Nat :=
  let r := addRow s.startValueScope 0 row
  (r.1, r.2 ++ r.1.endValueScope)

/-- all selected nodes of one scope element, in document order -/
def storeRun (s : VStore) : List (List (Option SV)) → VStore × List Nat
  | [] => (s, [])
  | row :: rows =>
      let a := scopeRun s row
      let b := storeRun a.1 rows
      (b.1, a.2 ++ b.2)

def somes (l : List (Option SV)) : Nat := (l.filter Option.isSome).length

def dupCode : Kind → List Nat
  | .unique => [IC_DuplicateUnique]
  | .key => [IC_DuplicateKey]
  | .keyref _ => []

theorem allPresent_append_none (d r : List (Option SV)) : allPresent (d ++ none :: r) = none := by
  induction d with
  | nil => rfl
  | cons x d ih => cases x <;> simp [allPresent, ih]

theorem somes_le (l : List (Option SV)) : somes l ≤ l.length := List.length_filter_le _ _

theorem allPresent_some_iff (l : List (Option SV)) : (∃ t, allPresent l = some t) ↔ somes l = l.length := by
  induction l with
  | nil => simp [allPresent, somes]
  | cons x l ih =>
    cases x with
    | none =>
      simp [allPresent, somes]
      have := somes_le l
      unfold somes at this
      omega
    | some v =>
      simp only [allPresent, somes, List.filter_cons, Option.isSome_some, if_true, List.length_cons]
      constructor
      · rintro ⟨t, ht⟩
        cases h : allPresent l with
        | none => simp [h] at ht
        | some u =>
          have := ih.mp ⟨u, h⟩
          unfold somes at this
          omega
      · intro h
        have h' : somes l = l.length := by unfold somes; omega
        obtain ⟨u, hu⟩ := ih.mpr h'
        exact ⟨v :: u, by simp [hu]⟩

/-- processing the fields `rest` after the fields `done` -/
theorem addRow_spec (kind : Kind) (tuples : List (List SV)) :
    ∀ (rest done : List (Option SV)) (n : Nat), n = done.length + rest.length →
    let s : VStore := { kind := kind, nFields := n, values := done ++ List.replicate rest.length none,
                        count := somes done, tuples := tuples }
    (match allPresent (done ++ rest) with
     | some t => rest ≠ [] →
         (addRow s done.length rest).1.tuples = putTuple tuples t ∧
         (addRow s done.length rest).2 = (if containsTuple tuples t then dupCode kind else []) ∧
         (addRow s done.length rest).1.count = n
     | none => (addRow s done.length rest).1.tuples = tuples ∧ (addRow s done.length rest).2 = [] ∧
         (addRow s done.length rest).1.count = somes (done ++ rest)) ∧
    (addRow s done.length rest).1.kind = kind ∧ (addRow s done.length rest).1.nFields = n := by
  intro rest
  induction rest with
  | nil =>
    intro done n hn
    simp only [addRow, List.append_nil]
    cases h : allPresent done <;> simp
  | cons x rest ih =>
    intro done n hn
    cases x with
    | none =>
      have ih' := ih (done ++ [none]) n (by simp at hn ⊢; omega)
      simp only [List.length_append, List.length_cons, List.length_nil, List.append_assoc, List.cons_append,
        List.nil_append] at ih'
      have e1 : somes (done ++ [none]) = somes done := by simp [somes]
      rw [e1] at ih'
      simp only [addRow, List.length_cons, List.replicate_succ]
      rw [allPresent_append_none] at ih' ⊢
      simp only at ih' ⊢
      have e2 : somes (done ++ none :: rest) = somes (done ++ none :: rest) := rfl
      exact ih'
    | some v =>
      have ih' := ih (done ++ [some v]) n (by simp at hn ⊢; omega)
      simp only [List.length_append, List.length_cons, List.length_nil, List.append_assoc, List.cons_append,
        List.nil_append] at ih'
      have e1 : somes (done ++ [some v]) = somes done + 1 := by simp [somes]
      rw [e1] at ih'
      have hle := somes_le done
      -- the addValue call
      have hget : (done ++ List.replicate (rest.length + 1) (none : Option SV)).getD done.length none = none := by
        simp [List.getD, List.replicate_succ]
      have hset : (done ++ List.replicate (rest.length + 1) (none : Option SV)).set done.length (some v)
          = done ++ some v :: List.replicate rest.length none := by
        simp [List.set_append_right, List.replicate_succ]
      have hlen : ¬ (done.length ≥ (done ++ List.replicate (rest.length + 1) (none : Option SV)).length) := by
        simp
      simp only [addRow, List.length_cons]
      unfold VStore.addValue
      simp only [hlen, if_false, hget, Option.isNone_none, if_true, hset, Bool.not_true, Bool.false_eq_true]
      by_cases hfull : somes done + 1 = (done ++ some v :: List.replicate rest.length (none : Option SV)).length
      · -- the last field completes the tuple
        have hr : rest = [] := by
          simp at hfull
          cases rest with
          | nil => rfl
          | cons y ys => simp at hfull; omega
        subst hr
        have hd : somes done = done.length := by simp at hfull; omega
        have hall : somes (done ++ [some v]) = (done ++ [some v]).length := by simp [e1, hd]
        obtain ⟨t, ht⟩ := (allPresent_some_iff _).mpr hall
        simp only [List.replicate_zero, List.length_nil] at hfull ⊢
        have hbeq : (somes done + 1 == (done ++ [some v]).length) = true := by simpa using hfull
        simp only [hbeq, if_true, ht, addRow]
        simp
        refine ⟨?_, ?_⟩
        · cases kind <;> simp [dupCode]
        · simp at hn; omega
      · have hbeq : (somes done + 1 == (done ++ some v :: List.replicate rest.length (none : Option SV)).length) = false := by
          simpa using hfull
        simp only [hbeq, Bool.false_eq_true, if_false, List.nil_append]
        -- the state is the induction hypothesis' state
        cases hall : allPresent (done ++ some v :: rest) with
        | none =>
          rw [hall] at ih'
          exact ih'
        | some t =>
          rw [hall] at ih'
          simp only at ih' ⊢
          refine ⟨fun _ => ?_, ih'.2⟩
          cases rest with
          | nil =>
            -- impossible: all present but the count test failed
            exfalso
            have := (allPresent_some_iff _).mp ⟨t, hall⟩
            simp [e1] at this hfull
            omega
          | cons y ys => exact ih'.1 (by simp)

/-- what one selected node contributes, as a function of the tuples stored so far -/
def rowErrs (kind : Kind) (T : List (List SV)) (row : List (Option SV)) : List Nat :=
  match allPresent row with
  | some t => if containsTuple T t then dupCode kind else []
  | none => if kind = .key then (if somes row = 0 then [IC_AbsentKeyValue] else [IC_KeyNotEnoughValues]) else []

def rowTuples (T : List (List SV)) (row : List (Option SV)) : List (List SV) :=
  match allPresent row with
  | some t => putTuple T t
  | none => T

theorem scopeRun_spec (s : VStore) (row : List (Option SV)) (h : row.length = s.nFields) (hpos : 0 < s.nFields) :
    (scopeRun s row).2 = rowErrs s.kind s.tuples row ∧ (scopeRun s row).1.tuples = rowTuples s.tuples row ∧
    (scopeRun s row).1.kind = s.kind ∧ (scopeRun s row).1.nFields = s.nFields := by
  have sp := addRow_spec s.kind s.tuples row [] s.nFields (by simp [h])
  simp only [List.nil_append, List.length_nil] at sp
  have hs : s.startValueScope = { kind := s.kind, nFields := s.nFields, values := List.replicate row.length none,
                                  count := somes [], tuples := s.tuples } := by
    cases s; simp [VStore.startValueScope, somes, h]
  unfold scopeRun
  rw [hs]
  have hne : row ≠ [] := by intro e; subst e; simp at h; omega
  obtain ⟨sp1, sp2, sp3⟩ := sp
  simp only []
  refine ⟨?_, ?_, sp2, sp3⟩
  · unfold rowErrs
    cases hall : allPresent row with
    | some t =>
      rw [hall] at sp1
      obtain ⟨_, he, hc⟩ := sp1 hne
      rw [he]
      unfold VStore.endValueScope
      rw [hc, sp3]
      have : (s.nFields == 0) = false := by simp; omega
      simp [this]
    | none =>
      rw [hall] at sp1
      obtain ⟨_, he, hc⟩ := sp1
      rw [he]
      unfold VStore.endValueScope
      rw [hc, sp2, sp3]
      have hlt : somes row ≠ s.nFields := by
        intro e
        have := (allPresent_some_iff row).mpr (by omega)
        rw [hall] at this
        obtain ⟨t, ht⟩ := this
        cases ht
      by_cases hk : s.kind = .key
      · by_cases h0 : somes row = 0
        · simp [hk, h0]
        · simp [hk, h0, hlt]
      · have hk' : (s.kind == Kind.key) = false := by simpa using hk
        simp [hk, hk']
  · unfold rowTuples
    cases hall : allPresent row with
    | some t =>
      rw [hall] at sp1
      exact (sp1 hne).1
    | none =>
      rw [hall] at sp1
      exact sp1.1

/-- errors and stored tuples of a whole scope, as a fold -/
def foldErrs (kind : Kind) : List (List SV) → List (List (Option SV)) → List Nat
  | _, [] => []
  | T, row :: rows => rowErrs kind T row ++ foldErrs kind (rowTuples T row) rows

def foldTuples : List (List SV) → List (List (Option SV)) → List (List SV)
  | T, [] => T
  | T, row :: rows => foldTuples (rowTuples T row) rows

theorem storeRun_spec : ∀ (rows : List (List (Option SV))) (s : VStore), (∀ r ∈ rows, r.length = s.nFields) → 0 < s.nFields →
    (storeRun s rows).2 = foldErrs s.kind s.tuples rows ∧ (storeRun s rows).1.tuples = foldTuples s.tuples rows
  | [], s, _, _ => by simp [storeRun, foldErrs, foldTuples]
  | row :: rows, s, hl, hpos => by
      obtain ⟨h1, h2, h3, h4⟩ := scopeRun_spec s row (hl row (by simp)) hpos
      have ih := storeRun_spec rows (scopeRun s row).1 (by intro r hr; rw [h4]; exact hl r (by simp [hr])) (by rw [h4]; exact hpos)
      unfold storeRun foldErrs foldTuples
      simp only []
      rw [ih.1, ih.2, h1, h2, h3]
      exact ⟨rfl, rfl⟩

/-! ### duplicates, keys, references in terms of tuple equality -/

section keys
variable {β : Type} (P : List SV → Prop) (f : List SV → β)

/-- on the tuples satisfying `P`, ICValueHasher::equals is equality of `f` (for `f` = the sequence of denoted values
    this is `tupleEquals_iff_vals`) -/
def EqVia : Prop := ∀ t u, P t → P u → (tupleEquals t u = true ↔ f t = f u)

theorem containsTuple_iff (hf : EqVia P f) (T : List (List SV)) (hT : ∀ u ∈ T, P u) (t : List SV) (ht : P t) :
    containsTuple T t = true ↔ f t ∈ T.map f := by
  unfold containsTuple
  simp only [List.any_eq_true, List.mem_map]
  constructor
  · rintro ⟨u, hu, he⟩
    exact ⟨u, hu, ((hf u t (hT u hu) ht).mp he)⟩
  · rintro ⟨u, hu, he⟩
    exact ⟨u, hu, (hf u t (hT u hu) ht).mpr he⟩

theorem putTuple_mem (hf : EqVia P f) (T : List (List SV)) (hT : ∀ u ∈ T, P u) (t : List SV) (ht : P t) :
    (∀ u ∈ putTuple T t, P u) ∧ ∀ x, x ∈ (putTuple T t).map f ↔ (x = f t ∨ x ∈ T.map f) := by
  unfold putTuple
  by_cases hc : containsTuple T t = true
  · simp only [hc, if_true]
    have hin := (containsTuple_iff P f hf T hT t ht).mp hc
    refine ⟨?_, ?_⟩
    · intro u hu
      rcases List.mem_map.mp hu with ⟨w, hw, rfl⟩
      by_cases he : tupleEquals w t = true
      · simp [he, ht]
      · simp [he, hT w hw]
    · intro x
      simp only [List.mem_map]
      constructor
      · rintro ⟨u, ⟨w, hw, rfl⟩, rfl⟩
        by_cases he : tupleEquals w t = true
        · simp [he]
        · simp only [he]; exact Or.inr ⟨w, hw, by simp⟩
      · rintro (rfl | ⟨w, hw, rfl⟩)
        · rcases List.mem_map.mp hin with ⟨w, hw, he⟩
          refine ⟨t, ⟨w, hw, ?_⟩, rfl⟩
          have := (hf w t (hT w hw) ht).mpr he
          simp [this]
        · by_cases he : tupleEquals w t = true
          · refine ⟨t, ⟨w, hw, by simp [he]⟩, ?_⟩
            exact ((hf w t (hT w hw) ht).mp he).symm
          · exact ⟨w, ⟨w, hw, by simp [he]⟩, rfl⟩
  · simp only [hc, Bool.false_eq_true, if_false]
    refine ⟨?_, ?_⟩
    · intro u hu
      rcases List.mem_append.mp hu with h | h
      · exact hT u h
      · simp at h; subst h; exact ht
    · intro x
      simp only [List.map_append, List.mem_append, List.map_cons, List.map_nil, List.mem_singleton]
      constructor
      · rintro (h | h)
        · exact Or.inr h
        · exact Or.inl h
      · rintro (h | h)
        · exact Or.inr h
        · exact Or.inl h

/-- the complete tuples of the rows, in document order -/
def fullTuples (rows : List (List (Option SV))) : List (List SV) := rows.filterMap allPresent

theorem foldTuples_mem (hf : EqVia P f) : ∀ (rows : List (List (Option SV))) (T : List (List SV)), (∀ u ∈ T, P u) →
    (∀ t ∈ fullTuples rows, P t) →
    (∀ u ∈ foldTuples T rows, P u) ∧
    ∀ x, x ∈ (foldTuples T rows).map f ↔ (x ∈ T.map f ∨ x ∈ (fullTuples rows).map f)
  | [], T, hT, _ => ⟨by simpa [foldTuples] using hT, by simp [foldTuples, fullTuples]⟩
  | row :: rows, T, hT, hR => by
      unfold foldTuples
      cases hall : allPresent row with
      | none =>
        have hR' : ∀ t ∈ fullTuples rows, P t := by
          intro t ht; apply hR; simp [fullTuples, hall] at ht ⊢; exact ht
        have ih := foldTuples_mem hf rows T hT hR'
        simp only [rowTuples, hall]
        refine ⟨ih.1, ?_⟩
        intro x
        rw [ih.2 x]
        simp [fullTuples, hall]
      | some t =>
        have ht : P t := hR t (by simp [fullTuples, hall])
        have hR' : ∀ u ∈ fullTuples rows, P u := by
          intro u hu; apply hR; simp [fullTuples, hall] at hu ⊢; exact Or.inr hu
        obtain ⟨hp1, hp2⟩ := putTuple_mem P f hf T hT t ht
        have ih := foldTuples_mem hf rows (putTuple T t) hp1 hR'
        simp only [rowTuples, hall]
        refine ⟨ih.1, ?_⟩
        intro x
        rw [ih.2 x, hp2 x]
        simp only [fullTuples, List.filterMap_cons, hall, List.map_cons, List.mem_cons]
        constructor
        · rintro ((h | h) | h)
          · exact Or.inr (Or.inl h)
          · exact Or.inl h
          · exact Or.inr (Or.inr h)
        · rintro (h | h | h)
          · exact Or.inl (Or.inr h)
          · exact Or.inl (Or.inl h)
          · exact Or.inr h

/-- a duplicate is reported iff some complete tuple equals an earlier one (or one already stored) -/
theorem foldErrs_dup (hf : EqVia P f) (kind : Kind) (c : Nat) (hc : dupCode kind = [c])
    (hca : c ≠ IC_AbsentKeyValue) (hcn : c ≠ IC_KeyNotEnoughValues) :
    ∀ (rows : List (List (Option SV))) (T : List (List SV)), (∀ u ∈ T, P u) → (∀ t ∈ fullTuples rows, P t) →
    (c ∈ foldErrs kind T rows ↔ (∃ t ∈ fullTuples rows, f t ∈ T.map f) ∨ ¬ ((fullTuples rows).map f).Nodup)
  | [], T, _, _ => by simp [foldErrs, fullTuples]
  | row :: rows, T, hT, hR => by
      unfold foldErrs
      cases hall : allPresent row with
      | none =>
        have hR' : ∀ t ∈ fullTuples rows, P t := by
          intro t ht; apply hR; simp [fullTuples, hall] at ht ⊢; exact ht
        have ih := foldErrs_dup hf kind c hc hca hcn rows T hT hR'
        have hno : c ∉ rowErrs kind T row := by
          unfold rowErrs
          simp only [hall]
          by_cases hk : kind = .key
          · by_cases h0 : somes row = 0 <;> simp [hk, h0, hca, hcn]
          · simp [hk]
        have hft : fullTuples (row :: rows) = fullTuples rows := by simp [fullTuples, hall]
        simp only [rowTuples, hall, List.mem_append, hno, false_or, hft]
        exact ih
      | some t =>
        have ht : P t := hR t (by simp [fullTuples, hall])
        have hR' : ∀ u ∈ fullTuples rows, P u := by
          intro u hu; apply hR; simp [fullTuples, hall] at hu ⊢; exact Or.inr hu
        obtain ⟨hp1, hp2⟩ := putTuple_mem P f hf T hT t ht
        have ih := foldErrs_dup hf kind c hc hca hcn rows (putTuple T t) hp1 hR'
        have hct := containsTuple_iff P f hf T hT t ht
        have hft : fullTuples (row :: rows) = t :: fullTuples rows := by simp [fullTuples, hall]
        have hrow : c ∈ rowErrs kind T row ↔ f t ∈ T.map f := by
          unfold rowErrs
          simp only [hall]
          by_cases hcon : containsTuple T t = true
          · simp [hcon, hc, hct.mp hcon]
          · have : f t ∉ T.map f := fun h => hcon (hct.mpr h)
            simp [hcon, this]
        simp only [rowTuples, hall, List.mem_append, hrow, ih, hft, List.map_cons, List.nodup_cons]
        constructor
        · rintro (h | ⟨u, hu, h⟩ | h)
          · exact Or.inl ⟨t, by simp, h⟩
          · rcases (hp2 (f u)).mp h with h | h
            · right
              intro hnd
              exact hnd.1 (List.mem_map.mpr ⟨u, hu, h⟩)
            · exact Or.inl ⟨u, by simp [hu], h⟩
          · right
            intro hnd
            exact h hnd.2
        · rintro (⟨u, hu, h⟩ | h)
          · rcases List.mem_cons.mp hu with rfl | hu
            · exact Or.inl h
            · exact Or.inr (Or.inl ⟨u, hu, (hp2 (f u)).mpr (Or.inr h)⟩)
          · by_cases hin : f t ∈ (fullTuples rows).map f
            · rcases List.mem_map.mp hin with ⟨u, hu, he⟩
              exact Or.inr (Or.inl ⟨u, hu, (hp2 (f u)).mpr (Or.inl he)⟩)
            · right; right
              intro hnd
              exact h ⟨hin, hnd⟩
end keys

/-- a code that only `endValueScope` emits is reported iff some row triggers it -/
theorem foldErrs_missing (kind : Kind) (c : Nat) (hcd : c ∉ dupCode kind) :
    ∀ (rows : List (List (Option SV))) (T : List (List SV)),
    (c ∈ foldErrs kind T rows ↔ kind = .key ∧ ∃ r ∈ rows, allPresent r = none ∧
        ((somes r = 0 ∧ c = IC_AbsentKeyValue) ∨ (somes r ≠ 0 ∧ c = IC_KeyNotEnoughValues)))
  | [], T => by simp [foldErrs]
  | row :: rows, T => by
      unfold foldErrs
      have ih := foldErrs_missing kind c hcd rows (rowTuples T row)
      simp only [List.mem_append, ih, List.mem_cons, exists_eq_or_imp]
      have hrow : c ∈ rowErrs kind T row ↔ kind = .key ∧ allPresent row = none ∧
          ((somes row = 0 ∧ c = IC_AbsentKeyValue) ∨ (somes row ≠ 0 ∧ c = IC_KeyNotEnoughValues)) := by
        unfold rowErrs
        cases hall : allPresent row with
        | some t =>
          by_cases hcon : containsTuple T t = true
          · simp [hcon, hcd]
          · simp [hcon]
        | none =>
          by_cases hk : kind = .key
          · by_cases h0 : somes row = 0 <;> simp [hk, h0]
          · simp [hk]
      rw [hrow]
      constructor
      · rintro (⟨hk, h⟩ | ⟨hk, h⟩)
        · exact ⟨hk, Or.inl h⟩
        · exact ⟨hk, Or.inr h⟩
      · rintro ⟨hk, h | h⟩
        · exact Or.inl ⟨hk, h⟩
        · exact Or.inr ⟨hk, h⟩

/-! ## isDuplicateOf = equality in the value space -/

theorem int_as_dec (l : List Nat) (ns : Nat) (h : valueOfNorm .integer l ns ≠ none) :
    valueOfNorm .decimal l ns = valueOfNorm .integer l ns := by
  unfold valueOfNorm parseInteger at *
  cases hp : parseDecimal l with
  | none => simp [hp] at h
  | some p =>
    obtain ⟨m, s⟩ := p
    cases s with
    | zero =>
      simp only [hp] at h ⊢
      by_cases hd : (l.all fun c => c != 46) = true
      · simp [hd]
      · simp [hd] at h
    | succ s => simp [hp] at h

def valSort : Val → Nat
  | .str _ => 0 | .dec _ _ => 1 | .date _ _ => 2 | .qname _ _ => 3 | .nilled => 4
def tySort : Ty → Nat
  | .string => 0 | .token => 0 | .integer => 1 | .decimal => 1 | .date => 2 | .qname => 3

theorem valueOfNorm_sort (ty : Ty) (x : List Nat) (ns : Nat) (v : Val) (h : valueOfNorm ty x ns = some v) :
    valSort v = tySort ty := by
  cases ty <;> simp only [valueOfNorm] at h
  · cases h; rfl
  · cases h; rfl
  · obtain ⟨p, _, rfl⟩ := Option.map_eq_some_iff.mp h; rfl
  · obtain ⟨p, _, rfl⟩ := Option.map_eq_some_iff.mp h; rfl
  · obtain ⟨p, _, rfl⟩ := Option.map_eq_some_iff.mp h; rfl
  · cases h; rfl

theorem valueOfNorm_ne_of_sort (ta tb : Ty) (xa xb : List Nat) (na nb : Nat) (ha : valueOfNorm ta xa na ≠ none)
    (hs : tySort ta ≠ tySort tb) : decide (valueOfNorm ta xa na = valueOfNorm tb xb nb) = false := by
  apply decide_eq_false
  intro h
  cases hv : valueOfNorm ta xa na with
  | none => exact ha hv
  | some v =>
    have h1 := valueOfNorm_sort ta xa na v hv
    have h2 := valueOfNorm_sort tb xb nb v (h ▸ hv)
    exact hs (h1.symm.trans h2)

theorem isDuplicateOf_core (ta tb : Ty) (xa xb : List Nat) (na nb : Nat)
    (ha : valueOfNorm ta xa na ≠ none) (hb : valueOfNorm tb xb nb ≠ none) (hxa : xa ≠ []) (hxb : xb ≠ []) :
    isDuplicateOf ⟨DV.ofTy ta, xa, na⟩ ⟨DV.ofTy tb, xb, nb⟩ = decide (valueOfNorm ta xa na = valueOfNorm tb xb nb) := by
  have ea : xa.isEmpty = false := by cases xa <;> simp_all
  have eb : xb.isEmpty = false := by cases xb <;> simp_all
  unfold isDuplicateOf
  simp only [ea, eb, Bool.false_and, Bool.or_self, Bool.false_eq_true, if_false]
  cases ta <;> cases tb <;>
    simp only [DV.ofTy, DV.chain, commonAncestor, findIn, compareAt, DV.cmpTy, reduceCtorEq, if_false, if_true]
  all_goals first
    | rfl
    | (simp only [int_as_dec _ _ ha]; done)
    | (simp only [int_as_dec _ _ hb]; done)
    | (exact (valueOfNorm_ne_of_sort _ _ _ _ _ _ ha (by decide)).symm)

theorem isDuplicateOf_tv (a b : TV) (ha : a.val ≠ none) (hb : b.val ≠ none)
    (hna : wsNorm a.ty a.lex ≠ []) (hnb : wsNorm b.ty b.lex ≠ []) :
    isDuplicateOf (SV.ofTV a) (SV.ofTV b) = decide (a.val = b.val) :=
  isDuplicateOf_core a.ty b.ty _ _ a.ns b.ns ha hb hna hnb


/-! ## executable judge = declarative validity -/

theorem hasDup_false_iff : ∀ l : List (List Val), hasDup l = false ↔ Distinct l
  | [] => by simp [hasDup, Distinct]
  | t :: r => by
      have ih := hasDup_false_iff r
      unfold Distinct at ih ⊢
      simp only [hasDup, Bool.or_eq_false_iff, ih, List.pairwise_cons]
      constructor
      · rintro ⟨h1, h2⟩
        refine ⟨?_, h2⟩
        intro u hu he
        subst he
        simp [hu] at h1
      · rintro ⟨h1, h2⟩
        refine ⟨?_, h2⟩
        cases hc : r.contains t with
        | false => rfl
        | true =>
          have : t ∈ r := by simpa using hc
          exact absurd rfl (h1 t this)

theorem append_eq_nil4 {α : Type} (a b c d : List α) : a ++ b ++ c ++ d = [] ↔ a = [] ∧ b = [] ∧ c = [] ∧ d = [] := by
  simp [List.append_eq_nil_iff]

theorem ite_list_nil {α : Type} (c : Bool) (x : α) : (if c = true then [x] else []) = [] ↔ c = false := by
  cases c <;> simp

theorem vals_complete_iff (l : List (Option Val)) (hl : l ≠ []) :
    (l.all Option.isNone = false ∧ (l.any Option.isNone && l.any Option.isSome) = false) ↔ ∀ v ∈ l, v ≠ none := by
  constructor
  · rintro ⟨h1, h2⟩ v hv hn
    subst hn
    have hany : l.any Option.isNone = true := List.any_eq_true.mpr ⟨none, hv, rfl⟩
    rw [hany, Bool.true_and] at h2
    have : l.all Option.isNone = true := by
      apply List.all_eq_true.mpr
      intro x hx
      cases x with
      | none => rfl
      | some y =>
        have : l.any Option.isSome = true := List.any_eq_true.mpr ⟨some y, hx, rfl⟩
        rw [this] at h2; cases h2
    rw [this] at h1; cases h1
  · intro h
    have hno : l.any Option.isNone = false := by
      apply List.any_eq_false.mpr
      intro x hx
      cases x with
      | none => exact absurd rfl (h none hx)
      | some y => simp
    refine ⟨?_, by simp [hno]⟩
    cases l with
    | nil => exact absurd rfl hl
    | cons x r =>
      cases x with
      | none => exact absurd rfl (h none (by simp))
      | some y => simp

theorem rows_vals_ne (ic : IC) (e : Node) (hf : ic.fields ≠ []) : ∀ r ∈ rows ic e, r.vals ≠ [] := by
  intro r hr
  unfold rows at hr
  rcases List.mem_map.mp hr with ⟨t, _, rfl⟩
  simp [Row.vals, hf]

theorem violationsAt_nil_iff (cs : List IC) (ic : IC) (e : Node) (hf : ic.fields ≠ []) :
    violationsAt cs ic e = [] ↔ HoldsAt cs ic e := by
  unfold violationsAt HoldsAt
  simp only [List.append_eq_nil_iff, ite_list_nil]
  have hmulti : ((rows ic e).any Row.multi = false) ↔ ∀ r ∈ rows ic e, ∀ h ∈ r.hits, h.length ≤ 1 := by
    simp only [List.any_eq_false, Row.multi, List.any_eq_true, not_exists, not_and, decide_eq_true_eq]
    constructor
    · intro h r hr x hx
      have := h r hr x hx
      omega
    · intro h r hr x hx
      have := h r hr x hx
      omega
  rw [hmulti]
  apply and_congr_right
  intro hm
  cases hk : ic.kind with
  | unique =>
    simp only [ite_list_nil]
    exact hasDup_false_iff _
  | key =>
    simp only [List.append_eq_nil_iff, ite_list_nil, and_assoc]
    have hne := rows_vals_ne ic e hf
    have hmf : ∀ r ∈ rows ic e, r.multi = false := by
      intro r hr
      simp only [Row.multi, List.any_eq_false, decide_eq_true_eq]
      intro x hx
      have := hm r hr x hx
      omega
    rw [hasDup_false_iff]
    constructor
    · rintro ⟨h1, h2, h3, h4⟩
      refine ⟨?_, h4⟩
      intro r hr
      have e1 := List.any_eq_false.mp h1 r hr
      have e2 := List.any_eq_false.mp h2 r hr
      have e3 := List.any_eq_false.mp h3 r hr
      simp only [hmf r hr, Bool.not_false, Bool.true_and] at e1 e2
      refine ⟨(vals_complete_iff r.vals (hne r hr)).mp ⟨by simpa using e1, ?_⟩, by simpa using e3⟩
      cases h : (r.vals.any Option.isNone && r.vals.any Option.isSome) with
      | false => rfl
      | true =>
        simp at e2 h
        obtain ⟨hn, x, hx, hs⟩ := h
        have := e2 hn x hx
        subst this
        cases hs
    · rintro ⟨h1, h4⟩
      refine ⟨?_, ?_, ?_, h4⟩
      · apply List.any_eq_false.mpr
        intro r hr
        have := (vals_complete_iff r.vals (hne r hr)).mpr (h1 r hr).1
        simp [hmf r hr, this.1]
      · apply List.any_eq_false.mpr
        intro r hr
        have := (vals_complete_iff r.vals (hne r hr)).mpr (h1 r hr).1
        have h2 := this.2
        simp only [Bool.and_eq_false_iff] at h2 ⊢
        rcases h2 with h2 | h2
        · simp [h2]
        · simp [h2]
      · apply List.any_eq_false.mpr
        intro r hr
        simp [(h1 r hr).2]
  | keyref refer =>
    simp only []
    cases hfi : findIC cs refer with
    | none =>
      simp only [ite_eq_left_iff, reduceCtorEq, imp_false, Bool.not_eq_true, List.isEmpty_eq_false_iff,
        Decidable.not_not]
      constructor
      · intro h t ht
        rw [h] at ht; cases ht
      · intro h
        cases hl : List.map (fun x => x.fst) (entries ic e) with
        | nil => rfl
        | cons t r =>
          obtain ⟨k, hk', _⟩ := h t (by simp [hl])
          cases hk'
    | some k =>
      generalize List.map (fun x => x.fst) (entries ic e) = L
      by_cases hemp : L.isEmpty = true
      · have : L = [] := by simpa using hemp
        subst this
        simp
      · have hne : ∃ t, t ∈ L := by
          cases L with
          | nil => simp at hemp
          | cons t r => exact ⟨t, by simp⟩
        simp only [hemp, if_false]
        by_cases hte : tableExists k e = true
        · simp only [hte, Bool.not_true, Bool.false_eq_true, if_false]
          by_cases hany : (L.any fun t => !(List.map (fun x => x.fst) (table k e)).contains t) = true
          · simp only [hany, if_true]
            constructor
            · intro h; cases h
            · intro h
              exfalso
              obtain ⟨t, ht, hc⟩ := List.any_eq_true.mp hany
              obtain ⟨k', hk', _, ent, he, rfl⟩ := h t ht
              cases hk'
              have : ent.1 ∈ List.map (fun x => x.fst) (table k e) := List.mem_map.mpr ⟨ent, he, rfl⟩
              simp [this] at hc
          · have hany' : (L.any fun t => !(List.map (fun x => x.fst) (table k e)).contains t) = false := by simpa using hany
            simp only [hany', Bool.false_eq_true, if_false, true_iff]
            intro t ht
            have hc := List.any_eq_false.mp hany' t ht
            have : t ∈ List.map (fun x => x.fst) (table k e) := by simpa using hc
            rcases List.mem_map.mp this with ⟨ent, he, rfl⟩
            exact ⟨k, rfl, hte, ent, he, rfl⟩
        · simp only [hte, Bool.not_false, if_true]
          constructor
          · intro h; cases h
          · intro h
            exfalso
            obtain ⟨t, ht⟩ := hne
            obtain ⟨k', hk', hte', _⟩ := h t ht
            cases hk'
            exact hte hte'

/-- the executable judge reports nothing iff the instance satisfies every identity-constraint definition -/
theorem icCheck_nil_iff (cs : List IC) (root : Node) (hf : ∀ ic ∈ cs, ic.fields ≠ []) :
    icCheck cs root = [] ↔ ICValid cs root := by
  unfold icCheck ICValid
  simp only [List.flatMap_eq_nil_iff]
  constructor
  · intro h p hp ic hic hsc
    have := h p hp ic hic
    simp only [hsc, if_true, List.map_eq_nil_iff] at this
    exact (violationsAt_nil_iff cs ic p.2 (hf ic hic)).mp this
  · intro h p hp ic hic
    by_cases hsc : ic.scope = p.2.name
    · simp only [hsc, if_true, List.map_eq_nil_iff]
      exact (violationsAt_nil_iff cs ic p.2 (hf ic hic)).mpr (h p hp ic hic hsc)
    · simp [hsc]


/-! ## tuples of valid values -/

/-- a value that can be stored for a field: valid lexical form of its type, non-empty after normalisation -/
abbrev ValidTV (a : TV) : Prop := a.val ≠ none ∧ wsNorm a.ty a.lex ≠ []

/-- tuples of such values -/
def ValidTuple (t : List SV) : Prop := ∃ tvs : List TV, t = tvs.map SV.ofTV ∧ ∀ a ∈ tvs, ValidTV a

/-- the key-sequence as members of the value spaces -/
def tupleVals (t : List SV) : List (Option Val) := t.map fun v => valueOfNorm v.dv.cmpTy v.lex v.ns

theorem vals_ofTV (a : TV) : valueOfNorm (SV.ofTV a).dv.cmpTy (SV.ofTV a).lex (SV.ofTV a).ns = a.val := by
  obtain ⟨t, l, n⟩ := a
  cases t <;> rfl

theorem tupleEquals_tvs : ∀ (as bs : List TV), (∀ a ∈ as, ValidTV a) → (∀ b ∈ bs, ValidTV b) →
    (tupleEquals (as.map SV.ofTV) (bs.map SV.ofTV) = true ↔ as.map TV.val = bs.map TV.val)
  | [], [], _, _ => by simp [tupleEquals]
  | [], b :: bs, _, _ => by simp [tupleEquals]
  | a :: as, [], _, _ => by simp [tupleEquals]
  | a :: as, b :: bs, ha, hb => by
      have ih := tupleEquals_tvs as bs (fun x hx => ha x (by simp [hx])) (fun x hx => hb x (by simp [hx]))
      have h1 := isDuplicateOf_tv a b (ha a (by simp)).1 (hb b (by simp)).1 (ha a (by simp)).2 (hb b (by simp)).2
      simp only [List.map_cons, tupleEquals, Bool.and_eq_true, h1, decide_eq_true_eq, ih, List.cons.injEq]

theorem tupleEquals_value' : EqVia ValidTuple tupleVals := by
  rintro t u ⟨as, rfl, ha⟩ ⟨bs, rfl, hb⟩
  rw [tupleEquals_tvs as bs ha hb]
  simp only [tupleVals, List.map_map, Function.comp_def, vals_ofTV]

/-! ## keys and references interleaved -/

/-- keys and references arriving interleaved in one scope: each event goes to its own store -/
def interleavedRun (ks rs : VStore) : List (Bool × List (Option SV)) → VStore × VStore
  | [] => (ks, rs)
  | (true, row) :: evs => interleavedRun (scopeRun ks row).1 rs evs
  | (false, row) :: evs => interleavedRun ks (scopeRun rs row).1 evs

theorem interleavedRun_eq (ks rs : VStore) (evs : List (Bool × List (Option SV))) :
    interleavedRun ks rs evs =
      ((storeRun ks (evs.filterMap fun e => if e.1 then some e.2 else none)).1,
       (storeRun rs (evs.filterMap fun e => if e.1 then none else some e.2)).1) := by
  induction evs generalizing ks rs with
  | nil => rfl
  | cons e evs ih =>
    obtain ⟨b, row⟩ := e
    cases b <;> simp [interleavedRun, storeRun, ih]


/-! ## misc -/

theorem not_nodup_iff {α : Type} (l : List α) :
    ¬ l.Nodup ↔ ∃ i j, ∃ (hi : i < l.length) (hj : j < l.length), i < j ∧ l[i] = l[j] := by
  unfold List.Nodup
  rw [List.pairwise_iff_getElem]
  constructor
  · intro h
    apply Classical.byContradiction
    intro hn
    apply h
    intro i j hi hj hij he
    exact hn ⟨i, j, hi, hj, hij, he⟩
  · rintro ⟨i, j, hi, hj, hij, he⟩ h
    exact h i j hi hj hij he

theorem dupCode_ne (kind : Kind) (c : Nat) (hc : dupCode kind = [c]) : c ≠ IC_AbsentKeyValue ∧ c ≠ IC_KeyNotEnoughValues := by
  cases kind <;> simp [dupCode] at hc <;> subst hc <;> decide

mutual
theorem table_no_scope (k : IC) : ∀ (n : Node), (∀ p ∈ n.descs, p.2.name ≠ k.scope) → table k n = []
  | .mk i nm a b ats tx kids, h => by
      unfold table
      have h0 : ¬ (k.scope = nm) := by
        have := h ([], .mk i nm a b ats tx kids) (by simp [Node.descs])
        simpa [Node.name, eq_comm] using this
      have hk : tableKids k kids = [] := tableKids_no_scope k kids (by
        intro p hp
        exact h p (by unfold Node.descs; exact List.mem_cons_of_mem _ hp))
      simp [h0, hk]
theorem tableKids_no_scope (k : IC) : ∀ (ns : List Node), (∀ p ∈ descsKids ns, p.2.name ≠ k.scope) → tableKids k ns = []
  | [], _ => by simp [tableKids]
  | c :: cs, h => by
      unfold tableKids
      rw [table_no_scope k c (by
        intro p hp
        exact h (c.name :: p.1, p.2) (by unfold descsKids; exact List.mem_append.mpr (Or.inl (List.mem_map.mpr ⟨p, hp, rfl⟩)))),
        tableKids_no_scope k cs (by
        intro p hp
        exact h p (by unfold descsKids; exact List.mem_append.mpr (Or.inr hp)))]
      rfl
end

/-- single scope: when no descendant of the scope element declares the key, the key's node table at that element is
    exactly its own qualified node set -/
theorem table_single_scope' (k : IC) (e : Node) (hs : k.scope = e.name)
    (hd : ∀ p ∈ descsKids e.kids, p.2.name ≠ k.scope) : table k e = entries k e := by
  cases e with
  | mk i nm a b ats tx kids =>
    unfold table
    simp only [Node.name] at hs
    simp only [Node.kids] at hd
    simp [hs, tableKids_no_scope k kids hd]

end XV.Lemmas.Identity
