import XV.Model.ParserState
import XV.Lemmas.GrammarPool
namespace XV.Lemmas.ParserState
open XV.Model.GrammarPool XV.Model.ParserState XV.Lemmas.GrammarPool

variable {w : World}

/-! ### exec basics -/
theorem exec_append (b : Bool) (h1 h2 : List Op) (p : Parser w) :
    exec b (h1 ++ h2) p = exec b h2 (exec b h1 p) := by
  simp [exec, List.foldl_append]

theorem exec_snoc (b : Bool) (h : List Op) (op : Op) (p : Parser w) :
    exec b (h ++ [op]) p = step b (exec b h p) op := by
  simp [exec, List.foldl_append]

/-! ### the real machine and the reference machine coincide when scanReset is complete -/
theorem startScan_ref (rc : ResetComplete w) (p : Parser w) (d : Doc) (m : Mode) :
    startScan false p d m = startScan true p d m := by
  unfold startScan
  simp only [Bool.false_eq_true, if_false, if_true]
  rw [rc.perParse]

theorem step_ref (rc : ResetComplete w) (p : Parser w) (op : Op) : step false p op = step true p op := by
  cases op <;> simp only [step, startScan_ref rc]

theorem exec_ref (rc : ResetComplete w) (h : List Op) (p : Parser w) : exec false h p = exec true h p := by
  induction h generalizing p with
  | nil => rfl
  | cons op h ih => simp only [exec, List.foldl_cons] at ih ⊢; rw [step_ref rc]; exact ih _

/-! ### configuration -/
theorem startScan_cfg (b : Bool) (p : Parser w) (d : Doc) (m : Mode) :
    (startScan b p d m).1.cfg = w.resetCfg p.cfg := by
  simp [startScan, bump]

theorem step_cfg (rc : ResetComplete w) (b : Bool) (p : Parser w) (op : Op) (c : Config)
    (hc : w.resetCfg p.cfg = w.resetCfg c) :
    w.resetCfg (step b p op).cfg = w.resetCfg (match op with | .set k v => w.setter k v c | _ => c) := by
  cases op with
  | set k v =>
    simp only [step]
    rw [← rc.absorbed k v p.cfg, hc, rc.absorbed]
  | parse d => simp only [step, startScan_cfg, rc.idem, hc]
  | parseThrow d k => simp only [step, startScan_cfg, rc.idem, hc]
  | parseFirst d => simp only [step, startScan_cfg, rc.idem, hc]
  | parseNext t =>
    simp only [step]
    split
    · exact hc
    · split <;> exact hc
  | parseReset t =>
    simp only [step]
    split
    · exact hc
    · split
      · exact hc
      · simpa [bump] using hc
  | loadGrammar g c => simpa [step] using hc
  | resetDocPool => simpa [step] using hc
  | resetGrammarPool => simpa [step] using hc
  | adopt => simpa [step] using hc
  | lock => simpa [step] using hc
  | unlock => simpa [step] using hc
  | useScanner => simpa [step] using hc

theorem exec_cfg (rc : ResetComplete w) (b : Bool) (h : List Op) (p : Parser w) (c : Config)
    (hc : w.resetCfg p.cfg = w.resetCfg c) :
    w.resetCfg (exec b h p).cfg =
      w.resetCfg (h.foldl (fun c op => match op with | .set k v => w.setter k v c | _ => c) c) := by
  induction h generalizing p c with
  | nil => exact hc
  | cons op h ih =>
    simp only [exec, List.foldl_cons] at ih ⊢
    exact ih _ _ (step_cfg rc b p op c hc)

theorem run_cfg (rc : ResetComplete w) (b : Bool) (h : List Op) :
    w.resetCfg (exec b h (fresh w)).cfg = w.resetCfg (cfgOf w h) :=
  exec_cfg rc b h (fresh w) w.cfg0 rfl

theorem lastObs_snoc (p : Parser w) (o : Obs w.Outcome) : lastObs { p with log := p.log ++ [o] } = o := by
  simp [lastObs]

theorem lastObs_of_log (p : Parser w) (l : List (Obs w.Outcome)) (o : Obs w.Outcome) (h : p.log = l ++ [o]) :
    lastObs p = o := by
  simp [lastObs, h]

theorem history_independent_mode (rc : ResetComplete w) (h : List Op) (d : Doc) (m : Mode) :
    (startScan false (run w h) d m).2.1 = freshOutcome w (cfgOf w h) (poolOf w h) d m := by
  have hc := run_cfg rc false h
  have hp : (run w h).res = (poolOf w h) := by unfold poolOf run runRef; rw [exec_ref rc]
  unfold startScan freshOutcome
  simp only [Bool.false_eq_true, if_false, bump]
  unfold run at hc hp ⊢
  rw [rc.perParse, hc, hp]

/-! ### tokens -/
def invalidates : Op → Bool
  | .parse _ | .parseThrow _ _ | .parseFirst _ | .useScanner => true
  | _ => false

def TokInv (p : Parser w) : Prop := 0 < p.scannerId ∧ p.scannerId < p.nextScannerId ∧ p.seq = p.bumps % seqMod

theorem fresh_tokInv (w : World) : TokInv (fresh w) := by simp [TokInv, fresh, seqMod]

/-- effect of one operation on the identity members -/
theorem step_ids (b : Bool) (p : Parser w) (op : Op) :
    (op = .useScanner ∧ (step b p op).scannerId = p.nextScannerId ∧ (step b p op).nextScannerId = p.nextScannerId + 1 ∧
      (step b p op).seq = 0 ∧ (step b p op).bumps = 0 ∧ (step b p op).tokens = p.tokens) ∨
    (op ≠ .useScanner ∧ (step b p op).scannerId = p.scannerId ∧ (step b p op).nextScannerId = p.nextScannerId ∧
      (((step b p op).bumps = p.bumps ∧ (step b p op).seq = p.seq ∧ invalidates op = false) ∨
       ((step b p op).bumps = p.bumps + 1 ∧ (step b p op).seq = (p.seq + 1) % seqMod)) ∧
      ∃ l, (step b p op).tokens = p.tokens ++ l) := by
  cases op with
  | useScanner => left; simp [step]
  | set k v => right; simp [step, invalidates]
  | parse d => right; simp [step, startScan, bump]
  | parseThrow d k => right; simp [step, startScan, bump]
  | parseFirst d =>
    right
    refine ⟨by simp, ?_⟩
    simp [step, startScan, bump]
  | parseNext t =>
    right
    refine ⟨by simp, ?_⟩
    simp only [step]
    split
    · simp [invalidates]
    · split <;> simp [invalidates]
  | parseReset t =>
    right
    refine ⟨by simp, ?_⟩
    simp only [step]
    split
    · simp [invalidates]
    · split
      · simp [invalidates]
      · simp [bump]
  | loadGrammar g c => right; simp [step, invalidates]
  | resetDocPool => right; simp [step, invalidates]
  | resetGrammarPool => right; simp [step, invalidates]
  | adopt => right; simp [step, invalidates]
  | lock => right; simp [step, invalidates]
  | unlock => right; simp [step, invalidates]

theorem step_tokInv (b : Bool) (p : Parser w) (op : Op) (hi : TokInv p) : TokInv (step b p op) := by
  obtain ⟨h0, h1, h2⟩ := hi
  rcases step_ids b p op with ⟨_, a1, a2, a3, a4, _⟩ | ⟨_, a1, a2, a3, _⟩
  · refine ⟨by omega, by omega, ?_⟩
    rw [a3, a4]; simp [seqMod]
  · refine ⟨by omega, by omega, ?_⟩
    rcases a3 with ⟨e1, e2, _⟩ | ⟨e1, e2⟩
    · rw [e1, e2]; exact h2
    · rw [e1, e2, h2]; simp only [seqMod]; omega

/-- how the identity members of `q` relate to an earlier state `p`, `n` operations and (if `strict`) at least one
invalidating operation later -/
structure Evolves (p q : Parser w) (n : Nat) (strict : Bool) : Prop where
  inv : TokInv q
  toks : ∃ l, q.tokens = p.tokens ++ l
  ids : (q.scannerId = p.scannerId ∧ p.bumps ≤ q.bumps ∧ q.bumps ≤ p.bumps + n ∧ (strict = true → p.bumps < q.bumps)) ∨
        p.scannerId < q.scannerId

theorem Evolves.step {p q : Parser w} {n : Nat} {s : Bool} (b : Bool) (e : Evolves p q n s) (op : Op) :
    Evolves p (step b q op) (n + 1) (s || invalidates op) := by
  obtain ⟨l, hl⟩ := e.toks
  obtain ⟨q0, q1, q2⟩ := e.inv
  refine ⟨step_tokInv b q op e.inv, ?_, ?_⟩
  · rcases step_ids b q op with ⟨_, _, _, _, _, a5⟩ | ⟨_, _, _, _, l', a5⟩
    · exact ⟨l, by rw [a5, hl]⟩
    · exact ⟨l ++ l', by rw [a5, hl, List.append_assoc]⟩
  · rcases step_ids b q op with ⟨_, a1, _, _, _, _⟩ | ⟨hne, a1, a2, a3, _⟩
    · right
      rcases e.ids with ⟨i1, _⟩ | i1 <;> omega
    · rcases e.ids with ⟨i1, i2, i3, i4⟩ | i1
      · left
        refine ⟨by omega, ?_⟩
        rcases a3 with ⟨e1, _, e3⟩ | ⟨e1, _⟩
        · refine ⟨by omega, by omega, ?_⟩
          intro hs; rw [e3, Bool.or_false] at hs; have := i4 hs; omega
        · exact ⟨by omega, by omega, fun _ => by omega⟩
      · right; omega

theorem Evolves.many {p q : Parser w} {n : Nat} {s : Bool} (b : Bool) (e : Evolves p q n s) (h : List Op) :
    Evolves p (exec b h q) (n + h.length) (s || h.any invalidates) := by
  induction h generalizing q n s with
  | nil => simpa [exec] using e
  | cons op h ih =>
    have := ih (e.step b op)
    simp only [exec, List.foldl_cons, List.length_cons, List.any_cons] at this ⊢
    have e1 : n + 1 + h.length = n + (h.length + 1) := by omega
    rw [e1, Bool.or_assoc] at this
    exact this

theorem Evolves.refl (p : Parser w) (hi : TokInv p) : Evolves p p 0 false :=
  ⟨hi, ⟨[], by simp⟩, Or.inl ⟨rfl, Nat.le_refl _, by omega, by simp⟩⟩

theorem exec_tokInv (b : Bool) (h : List Op) (p : Parser w) (hi : TokInv p) : TokInv (exec b h p) :=
  ((Evolves.refl p hi).many b h).inv

/-- the token a parseFirst hands out (last of the list) -/
theorem parseFirst_token (b : Bool) (p : Parser w) (d : Doc) :
    ∃ tok, (step b p (.parseFirst d)).tokens = p.tokens ++ [tok] ∧
      (tok = ⟨(step b p (.parseFirst d)).scannerId, (step b p (.parseFirst d)).seq⟩ ∨ tok = ⟨0, 0⟩) := by
  simp only [step, startScan, bump]
  refine ⟨_, rfl, ?_⟩
  cases b <;> simp only [Bool.false_eq_true, if_false, if_true] <;> split <;> simp

theorem stale_rejected_core (b : Bool) (p1 : Parser w) (hi : TokInv p1) (toks : List Token) (tok : Token)
    (ht : p1.tokens = toks ++ [tok]) (hk : tok = ⟨p1.scannerId, p1.seq⟩ ∨ tok = ⟨0, 0⟩)
    (h2 : List Op) (hinv : h2.any invalidates = true) (hlen : h2.length < seqMod) :
    lastObs (step b (exec b h2 p1) (.parseNext toks.length)) = .rejected ∧
    lastObs (step b (exec b h2 p1) (.parseReset toks.length)) = .rejected := by
  have ev := (Evolves.refl p1 hi).many b h2
  obtain ⟨l, hl⟩ := ev.toks
  obtain ⟨q0, q1, q2⟩ := ev.inv
  obtain ⟨_, _, p2⟩ := hi
  have hget : (exec b h2 p1).tokens[toks.length]? = some tok := by
    rw [hl, ht]; simp
  have hill : isLegalToken (exec b h2 p1) tok = false := by
    unfold isLegalToken
    rcases hk with hk | hk
    · rcases ev.ids with ⟨i1, i2, i3, i4⟩ | i1
      · have hs := i4 (by simp [hinv])
        have : (exec b h2 p1).seq ≠ p1.seq := by
          rw [q2, p2]; simp only [seqMod] at hlen ⊢; omega
        rw [hk]; simp [this]
      · rw [hk]; simp; intro e; omega
    · rw [hk]; simp; intro e; omega
  constructor
  · simp only [step, hget, hill]; simp [lastObs]
  · simp only [step, hget, hill]; simp [lastObs]

/-! ### adopted documents -/
structure DocInv (p : DocPool) : Prop where
  adopted : ∀ d ∈ p.adopted, d ∉ p.released ∧ d ∉ p.vector ∧ d < p.nextId
  current : ∀ d, p.current = some d → d ∉ p.released ∧ d ∉ p.vector ∧ d < p.nextId ∧ (d ∈ p.adopted → p.adoptedByUser = true)
  bound : (∀ d ∈ p.released, d < p.nextId) ∧ (∀ d ∈ p.vector, d < p.nextId)

theorem docInv_init : DocInv {} := ⟨by simp, by simp, by simp⟩

theorem DocInv.startParse {p : DocPool} (h : DocInv p) : DocInv p.startParse := by
  obtain ⟨ha, hc, hb1, hb2⟩ := h
  cases hcur : p.current with
  | none =>
    refine ⟨?_, ?_, ?_, ?_⟩
    · intro d hd; simp only [DocPool.startParse, hcur] at hd ⊢
      have := ha d hd; exact ⟨this.1, this.2.1, by omega⟩
    · intro d hd; simp only [DocPool.startParse, hcur, Option.some.injEq] at hd ⊢
      subst hd
      refine ⟨fun h => by have := hb1 _ h; omega, fun h => by have := hb2 _ h; omega, by omega, ?_⟩
      intro h; have := (ha _ h).2.2; omega
    · intro d hd; simp only [DocPool.startParse, hcur] at hd ⊢; have := hb1 d hd; omega
    · intro d hd; simp only [DocPool.startParse, hcur] at hd ⊢; have := hb2 d hd; omega
  | some c =>
    have hcc := hc c hcur
    cases hab : p.adoptedByUser with
    | true =>
      refine ⟨?_, ?_, ?_, ?_⟩
      · intro d hd; simp only [DocPool.startParse, hcur, hab] at hd ⊢
        have := ha d hd; exact ⟨this.1, by simpa using this.2.1, by omega⟩
      · intro d hd; simp only [DocPool.startParse, hcur, hab, Option.some.injEq] at hd ⊢
        subst hd
        refine ⟨fun h => by have := hb1 _ h; omega, ?_, by omega, ?_⟩
        · intro h; have := hb2 _ (by simpa using h); omega
        · intro h; have := (ha _ h).2.2; omega
      · intro d hd; simp only [DocPool.startParse, hcur] at hd ⊢; have := hb1 d hd; omega
      · intro d hd; simp only [DocPool.startParse, hcur, hab] at hd ⊢
        have := hb2 d (by simpa using hd); omega
    | false =>
      have hnotad : c ∉ p.adopted := fun h => by have := hcc.2.2.2 h; rw [hab] at this; cases this
      refine ⟨?_, ?_, ?_, ?_⟩
      · intro d hd; simp only [DocPool.startParse, hcur, hab] at hd ⊢
        have := ha d hd
        refine ⟨this.1, ?_, by omega⟩
        simp only [Bool.not_false, if_true, List.mem_append, List.mem_singleton, not_or]
        exact ⟨this.2.1, fun e => hnotad (e ▸ hd)⟩
      · intro d hd; simp only [DocPool.startParse, hcur, hab, Option.some.injEq] at hd ⊢
        subst hd
        refine ⟨fun h => by have := hb1 _ h; omega, ?_, by omega, ?_⟩
        · simp only [Bool.not_false, if_true, List.mem_append, List.mem_singleton, not_or]
          exact ⟨fun h => by have := hb2 _ h; omega, by omega⟩
        · intro h; have := (ha _ h).2.2; omega
      · intro d hd; simp only [DocPool.startParse, hcur] at hd ⊢; have := hb1 d hd; omega
      · intro d hd; simp only [DocPool.startParse, hcur, hab, Bool.not_false, if_true, List.mem_append, List.mem_singleton] at hd ⊢
        rcases hd with hd | hd
        · have := hb2 d hd; omega
        · subst hd; omega

theorem DocInv.abandon {p : DocPool} (h : DocInv p) : DocInv p.abandon := by
  obtain ⟨ha, hc, hb1, hb2⟩ := h
  cases hcur : p.current with
  | none =>
    exact ⟨by simpa [DocPool.abandon, hcur] using ha, by simp [DocPool.abandon], by simpa [DocPool.abandon] using hb1,
      by simpa [DocPool.abandon, hcur] using hb2⟩
  | some c =>
    have hcc := hc c hcur
    cases hab : p.adoptedByUser with
    | true =>
      exact ⟨by simpa [DocPool.abandon, hcur, hab] using ha, by simp [DocPool.abandon], by simpa [DocPool.abandon] using hb1,
        by simpa [DocPool.abandon, hcur, hab] using hb2⟩
    | false =>
      have hnotad : c ∉ p.adopted := fun h => by have := hcc.2.2.2 h; rw [hab] at this; cases this
      refine ⟨?_, by simp [DocPool.abandon], by simpa [DocPool.abandon] using hb1, ?_⟩
      · intro d hd; simp only [DocPool.abandon, hcur, hab] at hd ⊢
        have := ha d hd
        refine ⟨this.1, ?_, this.2.2⟩
        simp only [Bool.not_false, if_true, List.mem_append, List.mem_singleton, not_or]
        exact ⟨this.2.1, fun e => hnotad (e ▸ hd)⟩
      · intro d hd; simp only [DocPool.abandon, hcur, hab, Bool.not_false, if_true, List.mem_append, List.mem_singleton] at hd ⊢
        rcases hd with hd | hd
        · exact hb2 d hd
        · subst hd; exact hcc.2.2.1

theorem DocInv.adopt {p : DocPool} (h : DocInv p) : DocInv p.adopt := by
  obtain ⟨ha, hc, hb1, hb2⟩ := h
  cases hcur : p.current with
  | none =>
    exact ⟨by simpa [DocPool.adopt, hcur] using ha, by simp [DocPool.adopt, hcur], by simpa [DocPool.adopt] using hb1,
      by simpa [DocPool.adopt] using hb2⟩
  | some c =>
    have hcc := hc c hcur
    refine ⟨?_, ?_, by simpa [DocPool.adopt] using hb1, by simpa [DocPool.adopt] using hb2⟩
    · intro d hd; simp only [DocPool.adopt, hcur, List.mem_cons] at hd ⊢
      rcases hd with hd | hd
      · subst hd; exact ⟨hcc.1, hcc.2.1, hcc.2.2.1⟩
      · exact ha d hd
    · intro d hd; simp only [DocPool.adopt, hcur, Option.some.injEq] at hd ⊢
      subst hd; exact ⟨hcc.1, hcc.2.1, hcc.2.2.1, fun _ => trivial⟩

theorem DocInv.resetPool {p : DocPool} (h : DocInv p) : DocInv p.resetPool := by
  obtain ⟨ha, hc, hb1, hb2⟩ := h
  refine ⟨?_, by simp [DocPool.resetPool], ?_, by simp [DocPool.resetPool]⟩
  · intro d hd
    have hd' : d ∈ p.adopted := by simpa [DocPool.resetPool] using hd
    have := ha d hd'
    refine ⟨?_, by simp [DocPool.resetPool], by simpa [DocPool.resetPool] using this.2.2⟩
    simp only [DocPool.resetPool]
    cases hcur : p.current with
    | none => simp [this.1, this.2.1]
    | some c =>
      have hcc := hc c hcur
      cases hab : p.adoptedByUser with
      | true => simp [this.1, this.2.1]
      | false =>
        simp only [Bool.not_false, if_true, List.mem_append, List.mem_singleton, not_or]
        refine ⟨⟨this.1, this.2.1⟩, ?_⟩
        intro e; subst e
        have := hcc.2.2.2 hd'; rw [hab] at this; cases this
  · intro d hd
    simp only [DocPool.resetPool] at hd ⊢
    cases hcur : p.current with
    | none => rw [hcur] at hd; simp at hd; rcases hd with hd | hd; exact hb1 d hd; exact hb2 d hd
    | some c =>
      rw [hcur] at hd
      have hcc := hc c hcur
      cases hab : p.adoptedByUser with
      | true => rw [hab] at hd; simp at hd; rcases hd with hd | hd; exact hb1 d hd; exact hb2 d hd
      | false =>
        rw [hab] at hd; simp at hd
        rcases hd with hd | hd | hd
        · exact hb1 d hd
        · exact hb2 d hd
        · subst hd; exact hcc.2.2.1

theorem startScan_docs (b : Bool) (p : Parser w) (d : Doc) (m : Mode) :
    (startScan b p d m).1.docs = p.docs.startParse := by
  simp [startScan, bump]

theorem step_docInv (b : Bool) (p : Parser w) (op : Op) (h : DocInv p.docs) : DocInv (step b p op).docs := by
  cases op with
  | set k v => simpa [step] using h
  | parse d => simp only [step, startScan_docs]; exact h.startParse
  | parseThrow d k => simp only [step, startScan_docs]; exact h.startParse
  | parseFirst d => simp only [step, startScan_docs]; exact h.startParse
  | parseNext t =>
    simp only [step]
    split
    · exact h
    · split <;> exact h
  | parseReset t =>
    simp only [step]
    split
    · exact h
    · split
      · exact h
      · simp only [bump]; exact h.abandon
  | loadGrammar g c => simp only [step]; exact h.abandon
  | resetDocPool => simp only [step]; exact h.resetPool
  | resetGrammarPool => simpa [step] using h
  | adopt => simp only [step]; exact h.adopt
  | lock => simpa [step] using h
  | unlock => simpa [step] using h
  | useScanner => simpa [step] using h

theorem exec_docInv (b : Bool) (h : List Op) (p : Parser w) (hi : DocInv p.docs) : DocInv (exec b h p).docs := by
  induction h generalizing p with
  | nil => exact hi
  | cons op h ih => simp only [exec, List.foldl_cons] at ih ⊢; exact ih _ (step_docInv b p op hi)

/-! ### a locked pool seen through the parser -/
theorem applyDelta_frozen (r : Resolver) (δ : PoolDelta) (hl : r.pool.locked = true) : (applyDelta r δ).pool = r.pool := by
  unfold applyDelta
  induction δ generalizing r with
  | nil => rfl
  | cons g δ ih =>
    simp only [List.foldl_cons]
    rw [ih (putGrammar r g) (by rw [putGrammar_frozen r g hl]; exact hl), putGrammar_frozen r g hl]

theorem resolverForScan_pool (r : Resolver) (c : Config) : (resolverForScan r c).pool = r.pool := rfl

theorem startScan_frozen (b : Bool) (p : Parser w) (d : Doc) (m : Mode) (hl : p.res.pool.locked = true) :
    (startScan b p d m).1.res.pool = p.res.pool := by
  simp only [startScan, bump]
  rw [applyDelta_frozen _ _ (by rw [resolverForScan_pool]; exact hl), resolverForScan_pool]

theorem step_frozen (b : Bool) (p : Parser w) (op : Op) (hl : p.res.pool.locked = true) (hu : op ≠ .unlock) :
    (step b p op).res.pool = p.res.pool := by
  cases op with
  | set k v => simp [step]
  | parse d => simp only [step, startScan_frozen b p d _ hl]
  | parseThrow d k => simp only [step, startScan_frozen b p d _ hl]
  | parseFirst d => simp only [step, startScan_frozen b p d _ hl]
  | parseNext t =>
    simp only [step]
    split
    · rfl
    · split
      · rfl
      · simp only [applyDelta_frozen _ _ hl]
  | parseReset t =>
    simp only [step]
    split
    · rfl
    · split
      · rfl
      · simp [bump]
  | loadGrammar g c =>
    simp only [step]
    have h1 : (useCachedGrammarInParse (cacheGrammarFromParse p.res false) c).pool = p.res.pool := rfl
    cases c with
    | false => simp [h1]
    | true =>
      simp only [if_true, Bool.true_and]
      have h2 := putGrammar_frozen (useCachedGrammarInParse (cacheGrammarFromParse p.res false) true) g (by rw [h1]; exact hl)
      split
      · rw [cacheGrammars_frozen _ (by rw [h2, h1]; exact hl), h2, h1]
      · rw [h2, h1]
  | resetDocPool => simp [step]
  | resetGrammarPool => simp [step, resetCachedGrammar, clear_noop_when_locked _ hl]
  | adopt => simp [step]
  | lock => simp [step, lockPool, hl]
  | unlock => exact absurd rfl hu
  | useScanner => simp [step]

theorem exec_frozen (b : Bool) (h : List Op) (p : Parser w) (hl : p.res.pool.locked = true)
    (hu : ∀ op ∈ h, op ≠ .unlock) : (exec b h p).res.pool = p.res.pool := by
  induction h generalizing p with
  | nil => rfl
  | cons op h ih =>
    simp only [exec, List.foldl_cons] at ih ⊢
    have h1 := step_frozen b p op hl (hu op (by simp))
    rw [ih _ (by rw [h1]; exact hl) (fun o ho => hu o (by simp [ho])), h1]

end XV.Lemmas.ParserState
