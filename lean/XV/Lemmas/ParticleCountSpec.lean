/-
C08 — counting states, specification side.

For a converted tree in *compact* shape (what `convertContentSpecTree` yields when `useRepeatingLeafNodes`
holds: atoms `a`, `a?`, `a*`, `a+`, `Loop a{m,n}` combined by {1,1} sequence / choice groups) whose leaves are
pairwise different, the particle language is the language of the *skeleton* (every `Loop` read as the `*` / `+`
wrapped around it) restricted by a block check: every maximal block of consecutive occurrences of a `Loop`
leaf has a length within the leaf's occurrence range (`chk`).

  compact_lang : Compact x → (names (sk x)).Nodup →
                 (PLang SymM x.toParticle w ↔ CM.Lang (sk x) w ∧ chk (rng x) none 0 w = true)

Core Lean only.
-/
import XV.Lemmas.ParticleDfa
import XV.Lemmas.Glushkov
namespace XV.Lemmas.ParticleCount
open XV.Spec.Particle XV.Model.Particle XV.Model.ParticleDfa XV.Lemmas.Particle XV.Lemmas.ParticleExpand
open XV.Spec.ContentModel (CM)
open XV.Lemmas.Glushkov (names size)

/-! ### the block check -/

/-- occurrence range of the `Loop` leaf with a given id, if there is one -/
abbrev Rng := Nat → Option (Nat × Option Nat)

def maxOk : Option Nat → Nat → Bool
  | none, _ => true
  | some m, k => decide (k ≤ m)

/-- leaving a block (or the end of the children): the block of a `Loop` leaf must have reached `minOccurs` -/
def endOk (rng : Rng) : Option Nat → Nat → Bool
  | none, _ => true
  | some a, loop =>
    match rng a with
    | some (mn, _) => decide (mn ≤ loop)
    | none => true

/-- `chk rng prev loop rest`: `prev` is the previous child, `loop` the length of the block of `prev`s read so far -/
def chk (rng : Rng) : Option Nat → Nat → List Nat → Bool
  | prev, loop, [] => endOk rng prev loop
  | prev, loop, y :: rest =>
    if prev = some y then
      (match rng y with
       | some (_, mx) => maxOk mx (loop + 1)
       | none => true) && chk rng (some y) (loop + 1) rest
    else endOk rng prev loop && chk rng (some y) 1 rest

def lastOf : Option Nat → List Nat → Option Nat
  | prev, [] => prev
  | _, y :: r => lastOf (some y) r

theorem chk_congr (rng rng' : Rng) (w : List Nat) :
    ∀ (prev : Option Nat) (loop : Nat), (∀ y, y ∈ w → rng y = rng' y) → (∀ a, prev = some a → rng a = rng' a) →
      chk rng prev loop w = chk rng' prev loop w := by
  induction w with
  | nil =>
    intro prev loop _ hp
    cases prev with
    | none => rfl
    | some a => simp only [chk, endOk, hp a rfl]
  | cons y rest ih =>
    intro prev loop hw hp
    have hy : rng y = rng' y := hw y (by simp)
    have hrest : ∀ z, z ∈ rest → rng z = rng' z := fun z hz => hw z (by simp [hz])
    have he : endOk rng prev loop = endOk rng' prev loop := by
      cases prev with
      | none => rfl
      | some a => simp only [endOk, hp a rfl]
    simp only [chk, hy, he]
    rw [ih (some y) (loop + 1) hrest (by intro a ha; cases ha; exact hy),
        ih (some y) 1 hrest (by intro a ha; cases ha; exact hy)]

theorem chk_none (w : List Nat) : ∀ (prev : Option Nat) (loop : Nat), chk (fun _ => none) prev loop w = true := by
  induction w with
  | nil => intro prev loop; cases prev <;> rfl
  | cons y rest ih =>
    intro prev loop
    have he : endOk (fun _ => none) prev loop = true := by cases prev <;> rfl
    simp only [chk, he, ih]
    split <;> rfl

/-- the check of a concatenation splits where two different children meet -/
theorem chk_append (rng : Rng) (y : Nat) (v : List Nat) (u : List Nat) :
    ∀ (prev : Option Nat) (loop : Nat), lastOf prev u ≠ some y →
      chk rng prev loop (u ++ y :: v) = (chk rng prev loop u && chk rng none 0 (y :: v)) := by
  induction u with
  | nil =>
    intro prev loop h
    simp only [lastOf] at h
    simp only [List.nil_append, chk, if_neg h, endOk]
    simp
  | cons z r ih =>
    intro prev loop h
    simp only [lastOf] at h
    simp only [List.cons_append, chk]
    rw [ih (some z) (loop + 1) h, ih (some z) 1 h]
    split <;> simp [Bool.and_assoc, chk, endOk]

theorem lastOf_mem (u : List Nat) : ∀ (prev : Option Nat) (z : Nat), lastOf prev u = some z → prev = some z ∨ z ∈ u := by
  induction u with
  | nil => intro prev z h; exact .inl h
  | cons y r ih =>
    intro prev z h
    rcases ih (some y) z h with h' | h'
    · cases h'; exact .inr (by simp)
    · exact .inr (by simp [h'])

/-- a block of `k` more `a`s -/
theorem chk_replicate (rng : Rng) (a : Nat) (k : Nat) :
    ∀ loop, chk rng (some a) loop (List.replicate k a) =
      match rng a with
      | some (mn, mx) => (k == 0 || maxOk mx (loop + k)) && decide (mn ≤ loop + k)
      | none => true := by
  induction k with
  | zero =>
    intro loop
    simp only [List.replicate, chk, endOk]
    cases rng a with
    | none => rfl
    | some r => simp
  | succ k ih =>
    intro loop
    simp only [List.replicate, chk, if_true]
    rw [ih (loop + 1)]
    cases hr : rng a with
    | none => rfl
    | some r =>
      obtain ⟨mn, mx⟩ := r
      simp only
      have e : loop + 1 + k = loop + (k + 1) := by omega
      rw [e]
      cases mx with
      | none => simp [maxOk]
      | some m =>
        simp only [maxOk]
        cases k with
        | zero => simp
        | succ k =>
          by_cases h1 : loop + (k + 1 + 1) ≤ m
          · have : loop + 1 ≤ m := by omega
            simp [h1, this]
          · simp [h1]

/-! ### compact trees, skeleton -/

/-- the shape `convertContentSpecTree(…, bAllowCompactSyntax = true)` yields when `useRepeatingLeafNodes` holds -/
def Compact : XNode Nat → Bool
  | .leaf _ => true
  | .unary _ (.leaf _) => true
  | .loopRep .ZeroOrMore mn mx (.leaf _) => mn == 0 && occOk mn mx
  | .loopRep .OneOrMore mn mx (.leaf _) => decide (1 ≤ mn) && occOk mn mx
  | .bin .Sequence x y => Compact x && Compact y
  | .bin .Choice x y => Compact x && Compact y
  | _ => false

/-- the skeleton: what `buildSyntaxTree` sees (`toNode x = nodeOfCM (sk x)`) -/
def sk : XNode Nat → CM
  | .leaf a => .leaf a
  | .unary .ZeroOrOne x => .opt (sk x)
  | .unary .ZeroOrMore x => .star (sk x)
  | .unary .OneOrMore x => .plus (sk x)
  | .bin .Choice x y => .choice (sk x) (sk y)
  | .bin _ x y => .seq (sk x) (sk y)
  | .loopRep .ZeroOrOne _ _ x => .opt (sk x)
  | .loopRep .ZeroOrMore _ _ x => .star (sk x)
  | .loopRep .OneOrMore _ _ x => .plus (sk x)

/-- the occurrence range `elemOccurenceMap` records for the element-map entry of leaf id `a` -/
def rngOf (infos : List (Nat × Option (Nat × Option Nat))) : Rng := fun a =>
  match infos.find? (fun i => i.1 == a) with
  | some (_, r) => r
  | none => none

def rng (x : XNode Nat) : Rng := rngOf (leafInfos x)

theorem toNode_sk (x : XNode Nat) : toNode x = XV.Model.ContentModel.nodeOfCM (sk x) := by
  induction x with
  | leaf a => rfl
  | unary t x ih => cases t <;> simp [toNode, sk, XV.Model.ContentModel.nodeOfCM, ih]
  | bin t x y ihx ihy => cases t <;> simp [toNode, sk, XV.Model.ContentModel.nodeOfCM, ihx, ihy]
  | loopRep o mn mx x ih => cases o <;> simp [toNode, sk, XV.Model.ContentModel.nodeOfCM, ih]

theorem leafInfos_names (x : XNode Nat) (h : Compact x = true) : (leafInfos x).map (·.1) = names (sk x) := by
  induction x with
  | leaf a => rfl
  | unary t x ih =>
    cases x with
    | leaf a => cases t <;> rfl
    | _ => simp [Compact] at h
  | bin t x y ihx ihy =>
    cases t with
    | All => simp [Compact] at h
    | Sequence =>
      simp only [Compact, Bool.and_eq_true] at h
      simp [leafInfos, sk, names, ihx h.1, ihy h.2]
    | Choice =>
      simp only [Compact, Bool.and_eq_true] at h
      simp [leafInfos, sk, names, ihx h.1, ihy h.2]
  | loopRep o mn mx x ih =>
    cases x with
    | leaf a => cases o <;> first | rfl | simp [Compact] at h
    | _ => cases o <;> simp [Compact] at h

theorem rngOf_append_left (i1 i2 : List (Nat × Option (Nat × Option Nat))) (a : Nat) (h : a ∈ i1.map (·.1)) :
    rngOf (i1 ++ i2) a = rngOf i1 a := by
  unfold rngOf
  rw [List.find?_append]
  cases hf : i1.find? (fun i => i.1 == a) with
  | some r => rfl
  | none =>
    exfalso
    rw [List.find?_eq_none] at hf
    simp only [List.mem_map] at h
    obtain ⟨i, hi, rfl⟩ := h
    exact hf i hi (by simp)

theorem rngOf_append_right (i1 i2 : List (Nat × Option (Nat × Option Nat))) (a : Nat) (h : a ∉ i1.map (·.1)) :
    rngOf (i1 ++ i2) a = rngOf i2 a := by
  unfold rngOf
  rw [List.find?_append]
  have hf : i1.find? (fun i => i.1 == a) = none := by
    rw [List.find?_eq_none]
    intro i hi hia
    exact h (List.mem_map.2 ⟨i, hi, by simpa using hia⟩)
  rw [hf]
  rfl

/-! ### words of a particle only use its leaf names -/

theorem lang_names {c : CM} {w : List Nat} (h : CM.Lang c w) : ∀ y, y ∈ w → y ∈ names c := by
  induction h with
  | leaf n => intro y hy; simpa [names] using hy
  | seq _ _ ih1 ih2 =>
    intro y hy
    simp only [List.mem_append] at hy
    simp only [names, List.mem_append]
    rcases hy with hy | hy
    · exact .inl (ih1 y hy)
    · exact .inr (ih2 y hy)
  | choiceL _ _ ih => intro y hy; simp only [names, List.mem_append]; exact .inl (ih y hy)
  | choiceR _ _ ih => intro y hy; simp only [names, List.mem_append]; exact .inr (ih y hy)
  | optNone => intro y hy; cases hy
  | optSome _ ih => exact ih
  | starNil => intro y hy; cases hy
  | starCons _ _ ih1 ih2 =>
    intro y hy
    simp only [List.mem_append] at hy
    rcases hy with hy | hy
    · exact ih1 y hy
    · exact ih2 y hy
  | plusOne _ ih => exact ih
  | plusCons _ _ ih1 ih2 =>
    intro y hy
    simp only [List.mem_append] at hy
    rcases hy with hy | hy
    · exact ih1 y hy
    · exact ih2 y hy

end XV.Lemmas.ParticleCount
