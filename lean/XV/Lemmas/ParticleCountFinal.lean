/-
C08 — counting states: assembly.

  build_ctx        `buildDFA` on a compact skeleton with pairwise different leaves yields a table satisfying `Ctx`
  counting_compact the schema-mode DFAContentModel with counting states, built from a compact tree with pairwise
                   different leaves, accepts exactly the particle language of the tree
Core Lean only.
-/
import XV.Lemmas.ParticleCountRun
import XV.Lemmas.ParticleCountSep
import XV.Lemmas.ParticleCountShape
namespace XV.Lemmas.ParticleCount
open XV.Spec.Particle XV.Model.Particle XV.Model.ParticleDfa XV.Lemmas.ParticleExpand
open XV.Spec.ContentModel XV.Model.ContentModel XV.Lemmas.Glushkov XV.Lemmas.DfaTree XV.Lemmas.DfaRun
open XV.Lemmas.DfaTable XV.Lemmas.DfaFinal

theorem names_get (K : CM) (p a : Nat) (h : (names K)[p]? = some a) : p < size K ∧ nameAt K 0 p = a := by
  have hl : p < (names K).length := by
    by_cases hl : p < (names K).length
    · exact hl
    · rw [List.getElem?_eq_none (by omega)] at h; cases h
  refine ⟨by rw [names_length] at hl; exact hl, ?_⟩
  unfold nameAt
  simp [List.getD_eq_getElem?_getD, h]

theorem build_ctx (K : CM) (hK : CompactCM K = true) (hn : (names K).Nodup) (r : Rng)
    (hr : ∀ p mn mx, p < size K → r (nameAt K 0 p) = some (mn, mx) →
      selfAt K 0 p = true ∧ (1 ≤ mn → plusAt K 0 p = true) ∧ occOk mn mx = true) :
    ∃ fl states rows emptyOk, buildDFA (nodeOfCM K) = some (mkD emptyOk (size K) (names K) states rows) ∧
      Ctx (size K + 1) (names K) fl states rows r ∧ 0 < states.length := by
  have D := dfaData_of_build K
  simp only at D
  simp only [buildDFA, countLeafNodes_nodeOfCM, Nat.add_sub_cancel]
  generalize hrr : buildSyntaxTree (nodeOfCM K)
      { curIndex := 0, leafList := [], followList := List.replicate (size K + 1) 0 } = rr at D
  obtain ⟨org, st1⟩ := rr
  simp only at D ⊢
  generalize hll : st1.leafList ++ [none] = ll at D
  generalize hfl : addFollow st1.followList org.lastPos (bit (size K)) = fl at D
  generalize hhead : (if org.nullable = true then org.firstPos ||| bit (size K) else org.firstPos) = head at D
  have hllN : ll = llOf (names K) := D.ll_eq
  subst hllN
  have hnd : (llOf (names K)).Nodup := llOf_nodup _ hn
  have hem : elemMapOf (llOf (names K)) [] = llOf (names K) := elemMapOf_nodup _ hnd
  rw [hem]
  have hb := stepSet_lt D
  have hB : Bounded (size K + 1) [head] := ⟨by simp, by simp, by simp⟩
  have hT0 : TableOK (llOf (names K)) fl (llOf (names K)) [head] [] := ⟨by simp, by intro i row h; simp at h⟩
  obtain ⟨ext, rows, e1, e2, e3⟩ :=
    dfaLoop_spec (llOf (names K)) fl (size K + 1) hb (llOf (names K)) (2 ^ (size K + 1) + 2) [head] [] hB hT0 (by simp)
  obtain ⟨x1, x2⟩ := dfaLoop_extra (llOf (names K)) fl (size K + 1) hb (llOf (names K)) _ _ _ _ _ hB
    (by intro row h; cases h) e1
  rw [e1]
  refine ⟨fl, [head] ++ ext, rows, org.nullable, rfl, ?_, by simp⟩
  refine ⟨hn, e2.2, e3, x2, x1, ?_, ?_⟩
  · intro p q h
    rw [D.fl_eq] at h
    simp only [Bool.or_eq_true, Bool.and_eq_true, decide_eq_true_eq] at h
    rcases h with h | ⟨h1, h2⟩
    · exact fol_le hK h
    · have := (last_range h1).2; omega
  · intro p a mn mx hp hra
    obtain ⟨hps, hna⟩ := names_get K p a hp
    rw [← hna] at hra
    obtain ⟨r1, r2, r3⟩ := hr p mn mx hps hra
    refine ⟨?_, r3, ?_⟩
    · rw [D.fl_eq, selfAt_fol hK r1]; rfl
    · intro h1 q hq heq
      obtain ⟨t, _, hne⟩ := plus_sep hK (r2 h1) (Nat.zero_le q) hq
      apply hne
      have e1' := D.fl_eq q t
      have e2' := D.fl_eq p t
      rw [heq] at e1'
      unfold FF
      simp only [Nat.zero_add]
      rw [← e1', ← e2']

/-- no element-map entry carries an occurrence range: `chk` checks nothing -/
theorem rng_none_of_any (infos : List (Nat × Option (Nat × Option Nat))) (N : List Nat) (hN : infos.map (·.1) = N)
    (h : (elemOccurrence infos (llOf N)).any Option.isSome = false) : ∀ y, rngOf infos y = none := by
  intro y
  by_cases hy : y ∈ N
  · obtain ⟨j, hj⟩ := List.getElem?_of_mem hy
    have hll := (llOf_get N j y).2 hj
    have he := eo_get infos j y hll
    cases hr : rngOf infos y with
    | none => rfl
    | some mm =>
      exfalso
      obtain ⟨mn, mx⟩ := mm
      rw [hr] at he
      simp only at he
      rw [List.any_eq_false] at h
      have hmem : (some ⟨mn, mx, j⟩ : Option Occ) ∈ elemOccurrence infos (llOf N) := by
        simp only [List.getD_eq_getElem?_getD] at he
        cases hg : (elemOccurrence infos (llOf N))[j]? with
        | none => rw [hg] at he; cases he
        | some v =>
          rw [hg] at he
          simp only [Option.getD_some] at he
          subst he
          exact List.mem_of_getElem? hg
      exact h _ hmem rfl
  · unfold rngOf
    have : infos.find? (fun i => i.1 == y) = none := by
      rw [List.find?_eq_none]
      intro i hi hiy
      apply hy
      rw [← hN]
      exact List.mem_map.2 ⟨i, hi, by simpa using hiy⟩
    rw [this]

/-- the schema-mode DFAContentModel with counting states built from a compact tree with pairwise different
    leaves accepts exactly the particle language of the tree -/
theorem counting_compact (x : XNode Nat) (hc : Compact x = true) (hn : (names (sk x)).Nodup) (w : List Nat) :
    (match buildCDFA x with
     | some c => validate c (fun x a => x == a) w
     | none => Res.exc "dfa-fuel") = .ok ↔ PLang SymM x.toParticle w := by
  rw [compact_lang x hc hn w]
  obtain ⟨fl, states, rows, emptyOk, hb, C, hpos⟩ := build_ctx (sk x) (compact_sk x hc) hn (rng x)
    (fun p mn mx hp h => rng_pos x hc hn 0 p ⟨Nat.zero_le p, by omega⟩ mn mx h)
  have hdfa := dfa_iff' (sk x) w
  have hval : (Model.dfa (nodeOfCM (sk x))).validate w = dfaValidate (mkD emptyOk (size (sk x)) (names (sk x)) states rows) w := by
    show (match buildDFA (nodeOfCM (sk x)) with
          | some d => dfaValidate d w
          | none => Res.exc "dfa-fuel") = _
    rw [hb]
  rw [hval] at hdfa
  unfold buildCDFA
  rw [toNode_sk, hb]
  simp only
  have hem : (mkD emptyOk (size (sk x)) (names (sk x)) states rows).elemMap = llOf (names (sk x)) := rfl
  rw [hem]
  by_cases hany : (elemOccurrence (leafInfos x) (llOf (names (sk x)))).any Option.isSome = true
  · rw [if_pos hany]
    cases w with
    | nil =>
      rw [← hdfa]
      simp [validate, dfaValidate, chk, endOk]
    | cons y w =>
      rw [← hdfa]
      have := cwalk_iff (leafInfos x) emptyOk (size (sk x)) C (y :: w) none 0 0 0 ⟨rfl, hpos⟩
      exact this
  · rw [if_neg hany]
    have hany' : (elemOccurrence (leafInfos x) (llOf (names (sk x)))).any Option.isSome = false := by
      simpa using hany
    have hnone := rng_none_of_any (leafInfos x) (names (sk x)) (leafInfos_names x hc) hany'
    rw [XV.Lemmas.ParticleDfa.validate_eq ⟨_, none⟩ rfl w, hdfa]
    have : chk (rng x) none 0 w = true := chk_all_none _ hnone w none 0
    simp [this]

end XV.Lemmas.ParticleCount
