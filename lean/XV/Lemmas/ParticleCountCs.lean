/-
C08 — counting states: what `fCountingStates` / `elemOccurenceMap` contain for a table over pairwise different
leaf names (`Ctx`), and what one table lookup yields.  Core Lean only.
-/
import XV.Lemmas.ParticleCountTable
import XV.Lemmas.ParticleCountSpec
namespace XV.Lemmas.ParticleCount
open XV.Spec.ContentModel XV.Model.ContentModel XV.Lemmas.DfaRun XV.Lemmas.DfaTable XV.Model.ParticleDfa
open XV.Model.Particle (occOk)

/-- leaf list with the EOC leaf -/
def llOf (N : List Nat) : List (Option Nat) := N.map some ++ [none]

theorem llOf_get (N : List Nat) (j a : Nat) : (llOf N)[j]? = some (some a) ↔ N[j]? = some a := by
  unfold llOf
  by_cases hj : j < N.length
  · rw [List.getElem?_append_left (by simpa using hj)]
    simp [List.getElem?_map]
  · rw [List.getElem?_append_right (by simpa using hj), List.getElem?_eq_none (by omega : N.length ≤ j)]
    simp only [List.length_map]
    cases h : j - N.length with
    | zero => simp
    | succ k => simp

theorem llOf_nodup (N : List Nat) (h : N.Nodup) : (llOf N).Nodup := by
  unfold llOf
  rw [List.nodup_append]
  refine ⟨?_, by simp, ?_⟩
  · induction N with
    | nil => simp
    | cons a l ih =>
      rw [List.nodup_cons] at h
      simp only [List.map_cons, List.nodup_cons, List.mem_map, Option.some.injEq, exists_eq_right]
      exact ⟨h.1, ih h.2⟩
  · intro a ha b hb hab
    simp only [List.mem_map] at ha
    obtain ⟨x, _, rfl⟩ := ha
    simp only [List.mem_singleton] at hb
    subst hb
    cases hab

/-- the facts about the constructed table the counting walk relies on -/
structure Ctx (L : Nat) (N : List Nat) (fl states : List StateSet) (rows : List (List (Option Nat))) (r : Rng) : Prop where
  nodup : N.Nodup
  tbl : ∀ i row, rows[i]? = some row → RowOK (llOf N) fl states (states.getD i 0) (llOf N) row
  len : rows.length = states.length
  pos : ∀ row, row ∈ rows → PosRow row
  bnd : Bounded L states
  mono : ∀ p q, (fl.getD p 0).testBit q = true → p ≤ q
  loopLeaf : ∀ p a mn mx, N[p]? = some a → r a = some (mn, mx) →
    (fl.getD p 0).testBit p = true ∧ occOk mn mx = true ∧ (1 ≤ mn → ∀ q, q < p → fl.getD q 0 ≠ fl.getD p 0)

section
variable {L : Nat} {N : List Nat} {fl states : List StateSet} {rows : List (List (Option Nat))}
variable (infos : List (Nat × Option (Nat × Option Nat)))

theorem eo_get (j a : Nat) (h : (llOf N)[j]? = some (some a)) :
    (elemOccurrence infos (llOf N)).getD j none =
      match rngOf infos a with
      | some (mn, mx) => some ⟨mn, mx, j⟩
      | none => none := by
  unfold elemOccurrence rngOf
  simp only [List.getD_eq_getElem?_getD, List.getElem?_mapIdx, h, Option.map_some, Option.getD_some]
  cases infos.find? (fun i => i.1 == a) with
  | none => rfl
  | some i =>
    obtain ⟨b, rg⟩ := i
    cases rg with
    | none => rfl
    | some mm => rfl

theorem eo_some (j : Nat) (o : Occ) (h : (elemOccurrence infos (llOf N)).getD j none = some o) :
    ∃ a, N[j]? = some a ∧ rngOf infos a = some (o.min, o.max) ∧ o.elemIndex = j := by
  cases hl : (llOf N)[j]? with
  | none =>
    unfold elemOccurrence at h
    simp [List.getD_eq_getElem?_getD, List.getElem?_mapIdx, hl] at h
  | some e =>
    cases e with
    | none =>
      unfold elemOccurrence at h
      simp [List.getD_eq_getElem?_getD, List.getElem?_mapIdx, hl] at h
    | some a =>
      rw [eo_get infos j a hl] at h
      refine ⟨a, (llOf_get N j a).1 hl, ?_⟩
      cases hr : rngOf infos a with
      | none => rw [hr] at h; cases h
      | some mm =>
        obtain ⟨mn, mx⟩ := mm
        rw [hr] at h
        simp only [Option.some.injEq] at h
        subst h
        exact ⟨rfl, rfl⟩

variable (emptyOk : Bool) (eoc : Nat)

/-- the DFA record `buildDFA` returns -/
def mkD (N : List Nat) (states : List StateSet) (rows : List (List (Option Nat))) : DFA :=
  ⟨emptyOk, llOf N, rows, states.map (fun s => s.testBit eoc)⟩

/-- `fCountingStates` -/
def csOf (N : List Nat) (states : List StateSet) (rows : List (List (Option Nat))) : List (Option Occ) :=
  countingStates (mkD emptyOk eoc N states rows) (elemOccurrence infos (llOf N))

theorem cs_get (i : Nat) (row : List (Option Nat)) (h : rows[i]? = some row) :
    (csOf infos emptyOk eoc N states rows).getD i none =
      match (List.range row.length).find? (fun j => row.getD j none == some i) with
      | none => none
      | some j => (elemOccurrence infos (llOf N)).getD j none := by
  unfold csOf countingStates mkD
  simp only [List.getD_eq_getElem?_getD, List.getElem?_mapIdx, h, Option.map_some, Option.getD_some]
  rfl

theorem getD_eq_some {row : List (Option Nat)} {j i : Nat} (h : (row.getD j none == some i) = true) :
    row[j]? = some (some i) := by
  simp only [List.getD_eq_getElem?_getD, beq_iff_eq] at h
  cases hr : row[j]? with
  | none => rw [hr] at h; cases h
  | some t => rw [hr] at h; simp only [Option.getD_some] at h; rw [h]

/-- a counting state has a self-loop on the element-map entry of its occurrence -/
theorem cs_sound (i : Nat) (row : List (Option Nat)) (h : rows[i]? = some row) (o : Occ)
    (ho : (csOf infos emptyOk eoc N states rows).getD i none = some o) :
    ∃ a, N[o.elemIndex]? = some a ∧ rngOf infos a = some (o.min, o.max) ∧ row[o.elemIndex]? = some (some i) := by
  rw [cs_get infos emptyOk eoc i row h] at ho
  cases hf : (List.range row.length).find? (fun j => row.getD j none == some i) with
  | none => rw [hf] at ho; cases ho
  | some j =>
    rw [hf] at ho
    simp only at ho
    obtain ⟨a, h1, h2, h3⟩ := eo_some infos j o ho
    have hp := List.find?_some hf
    refine ⟨a, by rw [h3]; exact h1, h2, by rw [h3]; exact getD_eq_some hp⟩

/-- the only self-loop column decides -/
theorem cs_complete (i : Nat) (row : List (Option Nat)) (h : rows[i]? = some row) (q : Nat)
    (hq : row[q]? = some (some i)) (huniq : ∀ j, row[j]? = some (some i) → j = q) :
    (csOf infos emptyOk eoc N states rows).getD i none = (elemOccurrence infos (llOf N)).getD q none := by
  rw [cs_get infos emptyOk eoc i row h]
  have hql : q < row.length := by
    by_cases hl : q < row.length
    · exact hl
    · rw [List.getElem?_eq_none (by omega)] at hq; cases hq
  cases hf : (List.range row.length).find? (fun j => row.getD j none == some i) with
  | none =>
    exfalso
    rw [List.find?_eq_none] at hf
    have := hf q (by simpa using hql)
    simp [List.getD_eq_getElem?_getD, hq] at this
  | some j =>
    have hp := List.find?_some hf
    have := huniq j (getD_eq_some hp)
    subst this
    rfl

end

section
variable {L : Nat} {N : List Nat} {fl states : List StateSet} {rows : List (List (Option Nat))} {r : Rng}

theorem Ctx.row_of (C : Ctx L N fl states rows r) {i : Nat} (hi : i < states.length) : ∃ row, rows[i]? = some row :=
  ⟨rows[i]'(by rw [C.len]; exact hi), List.getElem?_eq_getElem (by rw [C.len]; exact hi)⟩

theorem getD_of_get {states : List StateSet} {i : Nat} {S : StateSet} (h : states[i]? = some S) : states.getD i 0 = S := by
  simp [List.getD_eq_getElem?_getD, h]

/-- a self-loop column `j` of state `i` (state set `S`): `j ∈ S` and the follow set of `j` is `S` -/
theorem Ctx.self_col (C : Ctx L N fl states rows r) {i : Nat} {row : List (Option Nat)} (h : rows[i]? = some row)
    {S : StateSet} (hS : states[i]? = some S) {j : Nat} (hj : row[j]? = some (some i)) :
    S.testBit j = true ∧ fl.getD j 0 = S := by
  have hrow := C.tbl i row h
  rw [getD_of_get hS] at hrow
  obtain ⟨hlen, hget⟩ := rowOK_get hrow
  have hjl : j < (llOf N).length := by
    by_cases hl : j < row.length
    · omega
    · rw [List.getElem?_eq_none (by omega)] at hj; cases hj
  obtain ⟨t, ht, hE⟩ := hget j ((llOf N)[j]'hjl) (List.getElem?_eq_getElem hjl)
  rw [hj] at ht
  simp only [Option.some.injEq] at ht
  subst ht
  obtain ⟨h1, h2⟩ := hE
  rw [hS] at h1
  simp only [Option.some.injEq] at h1
  rw [stepSet_nodup (llOf N) fl (llOf_nodup N C.nodup) S j _ (List.getElem?_eq_getElem hjl)] at h1 h2
  by_cases hb : S.testBit j = true
  · rw [if_pos hb] at h1; exact ⟨hb, h1.symm⟩
  · rw [if_neg hb] at h2; exact absurd rfl h2

/-- one lookup of `validateContent` / `handleRepetitions` -/
theorem Ctx.step (C : Ctx L N fl states rows r) {cur : Nat} {row : List (Option Nat)} (h : rows[cur]? = some row)
    (y from_ e next : Nat)
    (hf : findTransGo (fun x a => x == a) y (llOf N) row 0 from_ = some (e, next)) :
    N[e]? = some y ∧ from_ ≤ e ∧ row[e]? = some (some next) ∧ 1 ≤ next ∧ states[next]? = some (fl.getD e 0) ∧
      (states.getD cur 0).testBit e = true ∧ fl.getD e 0 ≠ 0 := by
  obtain ⟨a1, _, a3, a4⟩ := findTransGo_sound y (llOf N) row 0 from_ e next hf
  simp only [Nat.sub_zero] at a3 a4
  obtain ⟨_, hget⟩ := rowOK_get (C.tbl cur row h)
  obtain ⟨t, ht, hE⟩ := hget e (some y) a3
  rw [a4] at ht
  simp only [Option.some.injEq] at ht
  subst ht
  obtain ⟨h1, h2⟩ := hE
  rw [stepSet_nodup (llOf N) fl (llOf_nodup N C.nodup) _ e _ a3] at h1 h2
  have hpos : 1 ≤ next := C.pos row (List.mem_of_getElem? h) next (List.mem_of_getElem? a4)
  by_cases hb : (states.getD cur 0).testBit e = true
  · rw [if_pos hb] at h1 h2
    exact ⟨(llOf_get N e y).1 a3, a1, a4, hpos, h1, hb, h2⟩
  · rw [if_neg hb] at h2; exact absurd rfl h2

end
end XV.Lemmas.ParticleCount
