import XV.Model.GrammarPool
namespace XV.Lemmas.GrammarPool
open XV.Model.GrammarPool

theorem tblGet_remove_self (t : List Gram) (k : Nat) : tblGet (tblRemove t k) k = none := by
  unfold tblGet tblRemove
  rw [List.find?_eq_none]
  intro g hg
  simp [List.mem_filter] at hg
  simp [hg.2]

theorem tblGet_remove_other (t : List Gram) (k k' : Nat) (h : k' ≠ k) :
    tblGet (tblRemove t k) k' = tblGet t k' := by
  unfold tblGet tblRemove
  induction t with
  | nil => rfl
  | cons g t ih =>
    cases hk : (g.key == k) with
    | false =>
      have e1 : List.filter (fun g => !(g.key == k)) (g :: t) = g :: List.filter (fun g => !(g.key == k)) t := by
        rw [List.filter_cons]; simp [hk]
      rw [e1, List.find?_cons, List.find?_cons, ih]
    | true =>
      have e1 : List.filter (fun g => !(g.key == k)) (g :: t) = List.filter (fun g => !(g.key == k)) t := by
        rw [List.filter_cons]; simp [hk]
      have e2 : (g.key == k') = false := by
        have : g.key = k := by simpa using hk
        simp only [beq_eq_false_iff_ne, ne_eq]; intro e; exact h (by rw [← e, this])
      rw [e1, List.find?_cons, e2, ih]

theorem tblGet_put_self (t : List Gram) (g : Gram) : tblGet (tblPut t g) g.key = some g := by
  unfold tblPut tblGet
  rw [List.find?_append]
  have := tblGet_remove_self t g.key
  unfold tblGet at this
  simp [this]

theorem tblGet_put_other (t : List Gram) (g : Gram) (k : Nat) (h : k ≠ g.key) :
    tblGet (tblPut t g) k = tblGet t k := by
  unfold tblPut
  have h1 := tblGet_remove_other t g.key k h
  unfold tblGet at *
  rw [List.find?_append, h1]
  have : (g.key == k) = false := by simp; exact fun e => h e.symm
  cases hf : List.find? (fun g => g.key == k) t <;> simp [List.find?, this]

/-- a locked pool is changed by no operation except unlockPool: registry, string pool, lock -/
theorem applyOp_locked (p : Pool) (op : PoolOp) (hl : p.locked = true) (hu : op ≠ .unlock) :
    (applyOp p op).locked = true ∧ (applyOp p op).registry = p.registry ∧ (applyOp p op).strings = p.strings := by
  cases op with
  | cache g => simp [applyOp, cacheGrammar, hl]
  | cacheNull => simp [applyOp, cacheGrammar, hl]
  | retrieve k => simp [applyOp, hl]
  | orphan k => simp [applyOp, orphanGrammar, hl]
  | clear => simp [applyOp, clear, hl]
  | lock => simp [applyOp, lockPool, hl]
  | unlock => exact absurd rfl hu
  | xsModel => simp [applyOp, getXSModel, hl]
  | addURI s =>
    simp only [applyOp, addOrFindURI, hl, if_true]
    split
    · exact ⟨hl, rfl, rfl⟩
    · split
      · split <;> simp [hl]
      · exact ⟨hl, rfl, rfl⟩

theorem runOps_locked (ops : List PoolOp) (p : Pool) (hl : p.locked = true) (hu : ∀ op ∈ ops, op ≠ .unlock) :
    (runOps ops p).locked = true ∧ (runOps ops p).registry = p.registry ∧ (runOps ops p).strings = p.strings := by
  induction ops generalizing p with
  | nil => exact ⟨hl, rfl, rfl⟩
  | cons op ops ih =>
    have h1 := applyOp_locked p op hl (hu op (by simp))
    have h2 := ih (applyOp p op) h1.1 (fun o ho => hu o (by simp [ho]))
    simp only [runOps, List.foldl_cons] at h2 ⊢
    exact ⟨h2.1, h2.2.1.trans h1.2.1, h2.2.2.trans h1.2.2⟩

theorem cache_then_retrieve (p : Pool) (g : Gram) (hl : p.locked = false) (hn : retrieveGrammar p g.key = none) :
    (cacheGrammar p (some g)).2 = true ∧ retrieveGrammar (cacheGrammar p (some g)).1 g.key = some g ∧
    ∀ k, k ≠ g.key → retrieveGrammar (cacheGrammar p (some g)).1 k = retrieveGrammar p k := by
  have hc : tblContains p.registry g.key = false := by
    unfold tblContains; unfold retrieveGrammar at hn; simp [hn]
  simp only [cacheGrammar, hl, hc]
  refine ⟨by simp, ?_, ?_⟩
  · simp only [Bool.false_eq_true, if_false]
    split <;> simp [retrieveGrammar, tblGet_put_self]
  · intro k hk
    simp only [Bool.false_eq_true, if_false]
    split <;> simp [retrieveGrammar, tblGet_put_other _ _ _ hk]

theorem cache_existing_rejected (p : Pool) (g : Gram) (h : (retrieveGrammar p g.key).isSome) :
    cacheGrammar p (some g) = (p, false) := by
  have hc : tblContains p.registry g.key = true := by unfold tblContains; exact h
  simp only [cacheGrammar, hc]
  split <;> rfl

theorem orphan_removes (p : Pool) (k : Nat) (hl : p.locked = false) :
    (orphanGrammar p k).2 = retrieveGrammar p k ∧ retrieveGrammar (orphanGrammar p k).1 k = none ∧
    ∀ k', k' ≠ k → retrieveGrammar (orphanGrammar p k).1 k' = retrieveGrammar p k' := by
  simp only [orphanGrammar, hl]
  refine ⟨by simp [retrieveGrammar], ?_, ?_⟩
  · simp only [Bool.not_false, if_true]
    split
    · split <;> simp [retrieveGrammar, tblGet_remove_self]
    · simp [retrieveGrammar, tblGet_remove_self]
  · intro k' hk'
    simp only [Bool.not_false, if_true]
    split
    · split <;> simp [retrieveGrammar, tblGet_remove_other _ _ _ hk']
    · simp [retrieveGrammar, tblGet_remove_other _ _ _ hk']

theorem clear_noop_when_locked (p : Pool) (hl : p.locked = true) : clear p = (p, false) := by
  simp [clear, hl]

theorem clear_empties (p : Pool) (hl : p.locked = false) : (clear p).2 = true ∧ ∀ k, retrieveGrammar (clear p).1 k = none := by
  simp [clear, hl, retrieveGrammar, tblGet]

/-! ### GrammarResolver -/

/-- what a locked pool must keep -/
def Frozen (p q : Pool) : Prop := q.locked = true ∧ q.registry = p.registry ∧ q.strings = p.strings

theorem Frozen.refl (p : Pool) (h : p.locked = true) : Frozen p p := ⟨h, rfl, rfl⟩
theorem Frozen.trans {p q r : Pool} (h1 : Frozen p q) (h2 : Frozen q r) : Frozen p r :=
  ⟨h2.1, h2.2.1.trans h1.2.1, h2.2.2.trans h1.2.2⟩

theorem cacheGrammar_locked (p : Pool) (g : Option Gram) (hl : p.locked = true) : cacheGrammar p g = (p, false) := by
  cases g <;> simp [cacheGrammar, hl]

theorem putGrammar_frozen (r : Resolver) (g : Gram) (hl : r.pool.locked = true) : (putGrammar r g).pool = r.pool := by
  unfold putGrammar
  split
  · rw [cacheGrammar_locked _ _ hl]; rfl
  · rfl

theorem cacheOne_frozen (r : Resolver) (g : Gram) (hl : r.pool.locked = true) : (cacheOne r g).pool = r.pool := by
  unfold cacheOne
  rw [cacheGrammar_locked _ _ hl]; rfl

theorem cacheGrammars_frozen (r : Resolver) (hl : r.pool.locked = true) : (cacheGrammars r).pool = r.pool := by
  unfold cacheGrammars
  suffices h : ∀ (l : List Gram) (r' : Resolver), r'.pool = r.pool → (l.foldl cacheOne r').pool = r.pool from
    h r.bucket r rfl
  intro l
  induction l with
  | nil => intro r' h; exact h
  | cons g l ih =>
    intro r' h
    simp only [List.foldl_cons]
    apply ih
    rw [cacheOne_frozen _ _ (by rw [h]; exact hl)]
    exact h

theorem getGrammar_pool (r : Resolver) (k : Nat) : (getGrammar r k).1.pool = r.pool := by
  unfold getGrammar
  split
  · rfl
  · split
    · split
      · rfl
      · split <;> rfl
    · rfl

theorem applyResOp_frozen (r : Resolver) (op : ResOp) (hl : r.pool.locked = true) (hu : op ≠ .pool .unlock) :
    Frozen r.pool (applyResOp r op).pool := by
  cases op with
  | get k => simp only [applyResOp, getGrammar_pool]; exact Frozen.refl _ hl
  | put g => simp only [applyResOp, putGrammar_frozen r g hl]; exact Frozen.refl _ hl
  | reset => exact Frozen.refl _ hl
  | resetCached => simp only [applyResOp, resetCachedGrammar, clear_noop_when_locked _ hl]; exact Frozen.refl _ hl
  | cacheAll => simp only [applyResOp, cacheGrammars_frozen r hl]; exact Frozen.refl _ hl
  | setCache v => exact Frozen.refl _ hl
  | setUse v => exact Frozen.refl _ hl
  | orphan k =>
    simp only [applyResOp, resolverOrphan]
    have ho : orphanGrammar r.pool k = (r.pool, none) := by simp [orphanGrammar, hl]
    split
    · simp only [ho]
      split <;> exact Frozen.refl _ hl
    · exact Frozen.refl _ hl
  | pool op =>
    have := applyOp_locked r.pool op hl (fun e => hu (by rw [e]))
    exact this

theorem runResOps_frozen (ops : List ResOp) (r : Resolver) (hl : r.pool.locked = true)
    (hu : ∀ op ∈ ops, op ≠ .pool .unlock) : Frozen r.pool (runResOps ops r).pool := by
  induction ops generalizing r with
  | nil => exact Frozen.refl _ hl
  | cons op ops ih =>
    have h1 := applyResOp_frozen r op hl (hu op (by simp))
    have h2 := ih (applyResOp r op) h1.1 (fun o ho => hu o (by simp [ho]))
    simp only [runResOps, List.foldl_cons] at h2 ⊢
    exact h1.trans h2

/-- lookup order of GrammarResolver::getGrammar: the bucket wins; the pool is consulted only with fUseCachedGrammar -/
theorem getGrammar_bucket_first (r : Resolver) (k : Nat) (g : Gram) (h : tblGet r.bucket k = some g) :
    (getGrammar r k).2 = some g := by
  simp [getGrammar, h]

theorem getGrammar_no_cache (r : Resolver) (k : Nat) (hb : tblGet r.bucket k = none) (hu : r.useCached = false) :
    (getGrammar r k).2 = none := by
  simp [getGrammar, hb, hu]

theorem getGrammar_from_pool (r : Resolver) (k : Nat) (hb : tblGet r.bucket k = none) (hu : r.useCached = true)
    (hf : tblGet r.fromPool k = none) : (getGrammar r k).2 = retrieveGrammar r.pool k := by
  simp only [getGrammar, hb, hu, hf, if_true]
  split <;> simp_all

end XV.Lemmas.GrammarPool
