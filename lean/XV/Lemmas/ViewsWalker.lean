/-
C14 — helper lemmas for the TreeWalker: the visible nodes below a list of children, the "rest" lists that the filtered
sibling / child navigation of DOMTreeWalkerImpl computes the head of, and the measure that bounds the nesting of its calls.
-/
import XV.Lemmas.Views
namespace XV.Lemmas.ViewsWalker
open XV.Model.Dom XV.Spec.Dom XV.Model.Views XV.Spec.Views XV.Lemmas.Dom XV.Lemmas.Views

-- ------------------------------------------------------------------ the visible nodes below a child list

/-- visible nodes (document order) of the subtrees of the children `l` -/
def VBl (s : Store) (w filt : Nat) (l : List NodeId) : List NodeId := visibleBelowFuel s w filt (s.size + 1) l

theorem vbF_stable (s : Store) (w filt : Nat) (h : WF s) (rank : NodeId → Nat)
    (hrank : ∀ c rc p, s.get c = some rc → rc.parent = some p → rank c < rank p) :
    ∀ (f g : Nat) (l : List NodeId), (∀ c, c ∈ l → belowCount s rank c < f ∧ belowCount s rank c < g) →
      visibleBelowFuel s w filt f l = visibleBelowFuel s w filt g l := by
  intro f
  induction f with
  | zero =>
    intro g l hl
    cases l with
    | nil => cases g <;> simp [visibleBelowFuel]
    | cons a t => have := (hl a (List.mem_cons_self ..)).1; omega
  | succ f' ih =>
    intro g l hl
    cases g with
    | zero =>
      cases l with
      | nil => simp [visibleBelowFuel]
      | cons a t => have := (hl a (List.mem_cons_self ..)).2; omega
    | succ g' =>
      unfold visibleBelowFuel
      apply flatMap_congr'
      intro c hc
      have hsub : ∀ d, d ∈ kids s c → belowCount s rank d < f' ∧ belowCount s rank d < g' := by
        intro d hd
        obtain ⟨rn, hn, hcm⟩ := mem_kids hd
        obtain ⟨rc, hrc, hp⟩ := h.childParent c rn d hn hcm
        have hlt := below_lt s rank c d (lt_size_of_get s d rc hrc) (hrank d rc c hrc hp)
        have := hl c hc
        omega
      rw [ih g' (kids s c) hsub]

/-- the visible nodes below `l`: each child contributes itself and what is below it (accepted), only what is below it
(skipped), or nothing (rejected) -/
theorem VBl_unfold {s : Store} (w filt : Nat) (h : WF s) (l : List NodeId) :
    VBl s w filt l = l.flatMap fun c =>
      match verdict s w filt c with
      | .accept => c :: VBl s w filt (kids s c)
      | .skip => VBl s w filt (kids s c)
      | .reject => [] := by
  obtain ⟨rank, hrank⟩ := h.acyclic
  unfold VBl
  conv => lhs; unfold visibleBelowFuel
  apply flatMap_congr'
  intro c _
  have hst : visibleBelowFuel s w filt s.size (kids s c) = visibleBelowFuel s w filt (s.size + 1) (kids s c) := by
    apply vbF_stable s w filt h rank hrank
    intro d hd
    obtain ⟨rn, hn, hcm⟩ := mem_kids hd
    obtain ⟨rc, hrc, hp⟩ := h.childParent c rn d hn hcm
    have hlt := below_lt s rank c d (lt_size_of_get s d rc hrc) (hrank d rc c hrc hp)
    have hle := below_le s rank c (lt_size_of_get s c rn hn)
    omega
  rw [hst]
  rfl

/-- what one child contributes -/
def VBn (s : Store) (w filt : Nat) (c : NodeId) : List NodeId :=
  match verdict s w filt c with
  | .accept => c :: VBl s w filt (kids s c)
  | .skip => VBl s w filt (kids s c)
  | .reject => []

theorem VBl_cons {s : Store} (w filt : Nat) (h : WF s) (c : NodeId) (t : List NodeId) :
    VBl s w filt (c :: t) = VBn s w filt c ++ VBl s w filt t := by
  rw [VBl_unfold w filt h, VBl_unfold w filt h t]; rfl

theorem VBl_nil (s : Store) (w filt : Nat) : VBl s w filt [] = [] := by
  unfold VBl visibleBelowFuel; rfl

theorem VBl_append {s : Store} (w filt : Nat) (h : WF s) (a b : List NodeId) :
    VBl s w filt (a ++ b) = VBl s w filt a ++ VBl s w filt b := by
  rw [VBl_unfold w filt h, VBl_unfold w filt h a, VBl_unfold w filt h b, List.flatMap_append]

-- ------------------------------------------------------------------ siblings

theorem sibsAfter_split {s : Store} (h : WF s) {n p : NodeId} (hp : parentOf s n = some p) (l1 l2 : List NodeId)
    (hl : kids s p = l1 ++ n :: l2) (h1 : n ∉ l1) : sibsAfter s n = l2 ∧ nextSib s n = l2.head? := by
  constructor
  · unfold sibsAfter
    rw [hp]
    simp only
    rw [hl, dropWhile_ne_split l1 l2 n h1]
    rfl
  · unfold nextSib
    rw [hp]
    simp only
    rw [hl, nextSibIn_split l1 l2 n h1]

-- ------------------------------------------------------------------ positions in the document order of the root

def idxT (s : Store) (root x : NodeId) : Nat := (docOrder s root).idxOf x
def bendT (s : Store) (root x : NodeId) : Nat := idxT s root x + (docOrder s x).length
def depthOf (s : Store) (x : NodeId) : Nat := (ancestors s x).length

theorem idxOf_split (pre rest : List NodeId) (x : NodeId) (hx : x ∉ pre) : (pre ++ x :: rest).idxOf x = pre.length := by
  rw [List.idxOf_append, if_neg hx]; simp

theorem ancestorsFuel_length (s : Store) : ∀ f x, (ancestorsFuel s f x).length ≤ f := by
  intro f
  induction f with
  | zero => intro x; simp [ancestorsFuel]
  | succ f ih =>
    intro x
    unfold ancestorsFuel
    cases parentOf s x with
    | none => simp
    | some p => simp only [List.length_cons]; have := ih p; omega

theorem depthOf_le (s : Store) (x : NodeId) : depthOf s x ≤ s.size := ancestorsFuel_length s s.size x

theorem depthOf_parent {s : Store} (h : WF s) {x q : NodeId} (hq : parentOf s x = some q) :
    depthOf s x = depthOf s q + 1 := by
  unfold depthOf; rw [ancestors_cons h hq]; rfl

theorem bendT_le {s : Store} (h : WF s) {root x : NodeId} (hx : x ∈ docOrder s root) :
    bendT s root x ≤ (docOrder s root).length ∧ idxT s root x + 1 ≤ bendT s root x := by
  obtain ⟨pre, post, heq, hx1, _, _, _⟩ := block_decomp' h hx
  have hb := docOrder_unfold h x
  unfold bendT idxT
  rw [heq, idxOf_split pre _ x hx1, hb]
  simp

/-- position of a child relative to its parent -/
theorem pos_child {s : Store} (h : WF s) {root x q : NodeId} (hx : x ∈ docOrder s root) (hne : x ≠ root)
    (hq : parentOf s x = some q) (l1 l2 : List NodeId) (hl : kids s q = l1 ++ x :: l2) :
    q ∈ docOrder s root ∧
    idxT s root x = idxT s root q + 1 + (l1.flatMap (docOrder s)).length ∧
    bendT s root q = idxT s root q + 1 + (l1.flatMap (docOrder s)).length + (docOrder s x).length +
      (l2.flatMap (docOrder s)).length := by
  have hqT : q ∈ docOrder s root := by
    have ha := mem_docOrder_anc h root x hx
    cases ha with
    | refl => exact absurd rfl hne
    | step hq' ha' => rw [hq] at hq'; cases hq'; exact anc_mem_docOrder h ha'
  obtain ⟨pre, post, heq, hq1, _, _, _⟩ := block_decomp' h hqT
  have hnd := docOrder_nodup h root
  have hbx := docOrder_unfold h x
  have heq2 : docOrder s root = (pre ++ q :: l1.flatMap (docOrder s)) ++
      x :: ((kids s x).flatMap (docOrder s) ++ l2.flatMap (docOrder s) ++ post) := by
    rw [heq, hl]
    simp [List.flatMap_append, hbx, List.append_assoc]
  have hxp : x ∉ pre ++ q :: l1.flatMap (docOrder s) := by
    rw [heq2] at hnd
    exact fun hm => (List.nodup_append.mp hnd).2.2 x hm x (List.mem_cons_self ..) rfl
  refine ⟨hqT, ?_, ?_⟩
  · unfold idxT
    rw [heq2, idxOf_split _ _ x hxp]
    rw [← heq2, heq, idxOf_split pre _ q hq1]
    simp; omega
  · unfold bendT idxT
    rw [heq, idxOf_split pre _ q hq1, docOrder_unfold h q, hl]
    simp [List.flatMap_append]
    omega

-- ------------------------------------------------------------------ the "rest" after a node

/-- the visible nodes that follow the subtree of `n` up to the end of the nearest enclosing node that is the root or not
skipped, over the chain `n :: ancestors n` -/
def restUp (s : Store) (w filt root : Nat) : List NodeId → List NodeId
  | [] => []
  | n :: anc =>
    if n = root then [] else
    VBl s w filt (sibsAfter s n) ++
      (match anc with
       | p :: _ => if verdict s w filt p = .skip then restUp s w filt root anc else []
       | [] => [])

def R (s : Store) (w filt root n : Nat) : List NodeId := restUp s w filt root (n :: ancestors s n)

theorem R_root (s : Store) (w filt root : Nat) : R s w filt root root = [] := by
  unfold R restUp; rw [if_pos rfl]

theorem R_unfold {s : Store} (h : WF s) (w filt root : Nat) {n : NodeId} (hne : n ≠ root) :
    R s w filt root n = VBl s w filt (sibsAfter s n) ++
      (match parentOf s n with
       | some p => if verdict s w filt p = .skip then R s w filt root p else []
       | none => []) := by
  unfold R
  cases hq : parentOf s n with
  | none =>
    rw [ancestors_nil hq]
    unfold restUp
    rw [if_neg hne]
  | some p =>
    rw [ancestors_cons h hq]
    conv => lhs; unfold restUp
    rw [if_neg hne]

/-- getFirstChild(n) of the walker, declaratively -/
def specFC (s : Store) (w filt root n : Nat) : Option NodeId :=
  if (kids s n).isEmpty then none
  else (VBl s w filt (kids s n) ++ (if verdict s w filt n = .skip then R s w filt root n else [])).head?

theorem not_root_of_parent_in {s : Store} (h : WF s) {root c n : NodeId} (hn : n ∈ docOrder s root)
    (hp : parentOf s c = some n) : c ≠ root := by
  intro e; subst e
  exact not_anc_parent h hp (mem_docOrder_anc h c n hn)

/-- facts about the first child -/
theorem child_facts {s : Store} (h : WF s) {root n c : NodeId} {rest : List NodeId} (hn : n ∈ docOrder s root)
    (hk : kids s n = c :: rest) :
    c ∈ docOrder s root ∧ c ≠ root ∧ parentOf s c = some n ∧ idxT s root c = idxT s root n + 1 ∧
    idxT s root n + 2 ≤ bendT s root c ∧ bendT s root c ≤ (docOrder s root).length ∧ sibsAfter s c = rest := by
  have hck : c ∈ kids s n := by rw [hk]; exact List.mem_cons_self ..
  have hp := parent_of_kid h hck
  have hcT : c ∈ docOrder s root := mem_docOrder_trans h root n c hn (by
    rw [docOrder_unfold h n]; exact List.mem_cons_of_mem _ (List.mem_flatMap.mpr ⟨c, hck, mem_docOrder_self h c⟩))
  have hne := not_root_of_parent_in h hn hp
  have hpos := pos_child h hcT hne hp [] rest (by simpa using hk)
  have hb := bendT_le h hcT
  have hsa := (sibsAfter_split h hp [] rest (by simpa using hk) (by simp)).1
  refine ⟨hcT, hne, hp, by simpa using hpos.2.1, ?_, hb.1, hsa⟩
  have := hpos.2.1
  simp at this
  omega

/-- facts about a node below the root and its following sibling -/
theorem sibling_facts {s : Store} (h : WF s) {root n : NodeId} (hn : n ∈ docOrder s root) (hne : n ≠ root) :
    ∃ p l1 l2, parentOf s n = some p ∧ p ∈ docOrder s root ∧ kids s p = l1 ++ n :: l2 ∧ sibsAfter s n = l2 ∧
      nextSib s n = l2.head? ∧ depthOf s n = depthOf s p + 1 ∧ (l2 = [] → bendT s root p = bendT s root n) ∧
      (∀ m l2', l2 = m :: l2' → m ∈ docOrder s root ∧ m ≠ root ∧ parentOf s m = some p ∧
        idxT s root m = bendT s root n ∧ sibsAfter s m = l2' ∧ depthOf s m = depthOf s n ∧
        bendT s root m ≤ (docOrder s root).length ∧ idxT s root m + 1 ≤ bendT s root m) := by
  have ha := mem_docOrder_anc h root n hn
  cases ha with
  | refl => exact absurd rfl hne
  | @step _ p hq hap =>
    obtain ⟨l1, l2, hl, h1, h2⟩ := kids_split h hq
    have hpos := pos_child h hn hne hq l1 l2 hl
    obtain ⟨hsa, hns⟩ := sibsAfter_split h hq l1 l2 hl h1
    refine ⟨p, l1, l2, hq, hpos.1, hl, hsa, hns, depthOf_parent h hq, ?_, ?_⟩
    · intro e
      subst e
      have e1 := hpos.2.1
      have e2 := hpos.2.2
      simp only [List.flatMap_nil, List.length_nil, Nat.add_zero] at e2
      show bendT s root p = idxT s root n + (docOrder s n).length
      omega
    · intro m l2' e
      subst e
      have hmk : m ∈ kids s p := by rw [hl]; simp
      have hpm := parent_of_kid h hmk
      have hmT : m ∈ docOrder s root := mem_docOrder_trans h root p m hpos.1 (by
        rw [docOrder_unfold h p]; exact List.mem_cons_of_mem _ (List.mem_flatMap.mpr ⟨m, hmk, mem_docOrder_self h m⟩))
      have hmne := not_root_of_parent_in h hpos.1 hpm
      have hl' : kids s p = (l1 ++ [n]) ++ m :: l2' := by rw [hl]; simp
      have hposm := pos_child h hmT hmne hpm (l1 ++ [n]) l2' hl'
      have hnd := kids_nodup h p
      rw [hl'] at hnd
      have hm1 : m ∉ l1 ++ [n] := fun hm => (List.nodup_append.mp hnd).2.2 m hm m (List.mem_cons_self ..) rfl
      have hsam := (sibsAfter_split h hpm (l1 ++ [n]) l2' hl' hm1).1
      have hbm := bendT_le h hmT
      refine ⟨hmT, hmne, hpm, ?_, hsam, ?_, hbm.1, hbm.2⟩
      · have := hposm.2.1
        unfold bendT
        rw [this, hpos.2.1]
        simp [List.flatMap_append]
        omega
      · rw [depthOf_parent h hpm, depthOf_parent h hq]

-- ------------------------------------------------------------------ getFirstChild / getNextSibling of the walker

/-- measures that decrease along the nested calls (`d` = a strict bound of the depths) -/
def muFC (s : Store) (root n : NodeId) : Nat := ((docOrder s root).length - idxT s root n) * (s.size + 1)
def muNS (s : Store) (root n : NodeId) : Nat :=
  ((docOrder s root).length - bendT s root n) * (s.size + 1) + depthOf s n

/-- The walker's acceptNode gives the verdicts of DOM Traversal 1.2 (whatToShow first, then the filter).  This holds for
the repaired acceptNode always (`stdJudge_of_repaired`) and for the acceptNode of the code as it is exactly when the filter
does not FILTER_REJECT a node that whatToShow hides (`stdJudge_of_code`, `NoHiddenReject`). -/
def StdJudge (s : Store) (wk : Walker) : Prop := ∀ x, wk.judge s x = verdict s wk.w wk.filt x

/-- side condition under which the acceptNode of the code agrees with DOM Traversal 1.2 -/
def NoHiddenReject (s : Store) (w filt : Nat) : Prop :=
  ∀ x r, s.get x = some r → shown w r.kind = false → filterVerdict filt r ≠ .reject

theorem stdJudge_of_repaired (s : Store) (wk : Walker) (hasis : wk.asIs = false) : StdJudge s wk := by
  intro x; unfold Walker.judge; rw [hasis]; rfl

theorem stdJudge_of_code (s : Store) (wk : Walker) (hside : NoHiddenReject s wk.w wk.filt) : StdJudge s wk := by
  intro x
  unfold Walker.judge
  cases wk.asIs with
  | false => rfl
  | true =>
    simp only [if_true, verdictAsIs, verdict]
    cases hx : s.get x with
    | none => rfl
    | some r =>
      simp only
      by_cases hf : wk.filt = 0
      · simp [hf]
      · by_cases hs : shown wk.w r.kind = true
        · simp [hf, hs]
        · have hs' : shown wk.w r.kind = false := by simpa using hs
          have := hside x r hx hs'
          simp [hf, hs', this]

theorem stdJudge_congr (s : Store) (wk wk' : Walker) (hw : wk'.w = wk.w) (hf : wk'.filt = wk.filt) (ha : wk'.asIs = wk.asIs)
    (hj : StdJudge s wk) : StdJudge s wk' := by
  intro x
  have := hj x
  unfold Walker.judge at this ⊢
  rw [hw, hf, ha]; exact this

theorem head?_append_of_ne_nil {α : Type} (a b : List α) : (a ++ b).head? = a.head?.or b.head? := List.head?_append

/-- The filtered child / sibling steps return the head of the declarative lists, whatever the fuel above the measure. -/
theorem tw_forward_spec {s : Store} (h : WF s) (wk : Walker) (hj : StdJudge s wk) :
    ∀ k,
      (∀ n f, n ∈ docOrder s wk.root → muFC s wk.root n ≤ k → k < f →
        twFirstChild s wk f n = specFC s wk.w wk.filt wk.root n) ∧
      (∀ n f, n ∈ docOrder s wk.root → muNS s wk.root n ≤ k → k < f →
        twNextSibling s wk f n = (R s wk.w wk.filt wk.root n).head?) := by
  intro k
  induction k with
  | zero =>
    -- measure 0 cannot happen for the first child step of a node of the list; the sibling step at measure 0 is still
    -- covered by the general argument below with the induction hypothesis unused, so treat both in the step case
    constructor
    · intro n f hn hmu hf
      exfalso
      have := (bendT_le h hn).1
      have := (bendT_le h hn).2
      unfold muFC at hmu
      have hpos : 0 < (docOrder s wk.root).length - idxT s wk.root n := by omega
      have : 0 < ((docOrder s wk.root).length - idxT s wk.root n) * (s.size + 1) := Nat.mul_pos hpos (by omega)
      omega
    · intro n f hn hmu hf
      cases f with
      | zero => omega
      | succ f' =>
        unfold twNextSibling
        by_cases hr : n = wk.root
        · rw [if_pos hr, hr, R_root]; rfl
        · rw [if_neg hr]
          obtain ⟨p, l1, l2, hq, hpT, hl, hsa, hns, hdep, _, _⟩ := sibling_facts h hn hr
          unfold muNS at hmu
          omega
  | succ k ih =>
    obtain ⟨ihFC, ihNS⟩ := ih
    have hd := depthOf_le s
    constructor
    · -- getFirstChild
      intro n f hn hmu hf
      cases f with
      | zero => omega
      | succ f' =>
        unfold twFirstChild specFC
        cases hk : kids s n with
        | nil => simp [firstKid, hk]
        | cons c rest =>
          have hfk : firstKid s n = some c := by unfold firstKid; rw [hk]; rfl
          rw [hfk]
          simp only [List.isEmpty_cons, Bool.false_eq_true, if_false]
          obtain ⟨hcT, hcne, hpc, hidx, hbend, hbN, hsac⟩ := child_facts h hn hk
          have hRc : VBl s wk.w wk.filt (c :: rest) ++
              (if verdict s wk.w wk.filt n = .skip then R s wk.w wk.filt wk.root n else []) =
              VBn s wk.w wk.filt c ++ R s wk.w wk.filt wk.root c := by
            rw [VBl_cons _ _ h, R_unfold h _ _ _ hcne, hsac, hpc, List.append_assoc]
          rw [hRc, hj]
          -- measures of the nested calls
          have hN := (bendT_le h hn)
          have hmuFCc : muFC s wk.root c ≤ k := by
            unfold muFC at hmu ⊢
            rw [hidx]
            have e : (docOrder s wk.root).length - idxT s wk.root n =
                ((docOrder s wk.root).length - (idxT s wk.root n + 1)) + 1 := by omega
            rw [e, Nat.succ_mul] at hmu
            omega
          have hmuNSc : muNS s wk.root c ≤ k := by
            unfold muFC at hmu
            unfold muNS
            have e : (docOrder s wk.root).length - idxT s wk.root n =
                ((docOrder s wk.root).length - bendT s wk.root c) + 1 +
                  (bendT s wk.root c - idxT s wk.root n - 1) := by omega
            rw [e, Nat.add_mul, Nat.succ_mul] at hmu
            have := hd c
            omega
          unfold VBn
          cases hv : verdict s wk.w wk.filt c with
          | accept => simp
          | skip =>
            simp only
            by_cases hkc : (kids s c).isEmpty = true
            · have : kids s c = [] := List.isEmpty_iff.mp hkc
              simp only [hkc, Bool.not_true, Bool.false_eq_true, if_false]
              rw [(ihNS c f' hcT hmuNSc (by omega)), this, VBl_nil, List.nil_append]
            · simp only [hkc, Bool.not_false, if_true]
              rw [ihFC c f' hcT hmuFCc (by omega)]
              unfold specFC
              rw [if_neg hkc, hv]
              simp
          | reject =>
            simp only [List.nil_append]
            exact ihNS c f' hcT hmuNSc (by omega)
    · -- getNextSibling
      intro n f hn hmu hf
      cases f with
      | zero => omega
      | succ f' =>
        unfold twNextSibling
        by_cases hr : n = wk.root
        · rw [if_pos hr, hr, R_root]; rfl
        · rw [if_neg hr]
          obtain ⟨p, l1, l2, hq, hpT, hl, hsa, hns, hdep, hlast, hnext⟩ := sibling_facts h hn hr
          rw [hns, R_unfold h _ _ _ hr, hsa, hq]
          cases l2 with
          | nil =>
            simp only [List.head?_nil, VBl_nil, List.nil_append]
            rw [hj]
            by_cases hv : verdict s wk.w wk.filt p = .skip
            · rw [if_pos hv, if_pos hv]
              apply ihNS p f' hpT _ (by omega)
              unfold muNS at hmu ⊢
              rw [hlast rfl]
              omega
            · rw [if_neg hv, if_neg hv]; rfl
          | cons m l2' =>
            obtain ⟨hmT, hmne, hpm, hidxm, hsam, hdepm, hbm, hbm2⟩ := hnext m l2' rfl
            simp only [List.head?_cons]
            have hRn : VBl s wk.w wk.filt (m :: l2') ++
                (if verdict s wk.w wk.filt p = .skip then R s wk.w wk.filt wk.root p else []) =
                VBn s wk.w wk.filt m ++ R s wk.w wk.filt wk.root m := by
              rw [VBl_cons _ _ h, R_unfold h _ _ _ hmne, hsam, hpm, List.append_assoc]
            rw [hRn, hj]
            have hmuFCm : muFC s wk.root m ≤ k := by
              unfold muNS at hmu
              unfold muFC
              rw [hidxm]
              omega
            have hmuNSm : muNS s wk.root m ≤ k := by
              unfold muNS at hmu ⊢
              rw [hdepm]
              have e : (docOrder s wk.root).length - bendT s wk.root n =
                  ((docOrder s wk.root).length - bendT s wk.root m) + 1 +
                    (bendT s wk.root m - bendT s wk.root n - 1) := by omega
              rw [e, Nat.add_mul, Nat.succ_mul] at hmu
              omega
            unfold VBn
            cases hv : verdict s wk.w wk.filt m with
            | accept => simp
            | skip =>
              simp only
              rw [ihFC m f' hmT hmuFCm (by omega)]
              unfold specFC
              by_cases hkm : (kids s m).isEmpty = true
              · have : kids s m = [] := List.isEmpty_iff.mp hkm
                rw [if_pos hkm]
                simp only [hkm, if_true]
                rw [ihNS m f' hmT hmuNSm (by omega), this, VBl_nil, List.nil_append]
              · rw [if_neg hkm, hv]
                simp only [if_true]
                cases hh : (VBl s wk.w wk.filt (kids s m) ++ R s wk.w wk.filt wk.root m).head? with
                | none => simp [hkm]
                | some c => rfl
            | reject =>
              simp only [List.nil_append]
              exact ihNS m f' hmT hmuNSm (by omega)

-- ------------------------------------------------------------------ getParentNode and the climb of nextNode()

/-- the visible nodes after the scope of `n` (after the nearest enclosing node that is not skipped), up to the end of the
root: the rests of the accepted ancestors, nearest first; over the chain `n :: ancestors n` -/
def extraUp (s : Store) (w filt root : Nat) : List NodeId → List NodeId
  | [] => []
  | [_] => []
  | n :: p :: rest =>
    if n = root then [] else
    match verdict s w filt p with
    | .accept => R s w filt root p ++ extraUp s w filt root (p :: rest)
    | _ => extraUp s w filt root (p :: rest)

def Extra (s : Store) (w filt root n : Nat) : List NodeId := extraUp s w filt root (n :: ancestors s n)

theorem Extra_root (s : Store) (w filt root : Nat) : Extra s w filt root root = [] := by
  unfold Extra
  cases ancestors s root with
  | nil => rfl
  | cons p rest => unfold extraUp; rw [if_pos rfl]

theorem Extra_unfold {s : Store} (h : WF s) (w filt root : Nat) {n : NodeId} (hne : n ≠ root) :
    Extra s w filt root n =
      match parentOf s n with
      | none => []
      | some p =>
        match verdict s w filt p with
        | .accept => R s w filt root p ++ Extra s w filt root p
        | _ => Extra s w filt root p := by
  unfold Extra
  cases hq : parentOf s n with
  | none => rw [ancestors_nil hq]; rfl
  | some p =>
    rw [ancestors_cons h hq]
    conv => lhs; unfold extraUp
    rw [if_neg hne]

/-- getParentNode(node): the nearest accepted ancestor up to the root; what it means for the climb -/
theorem twParent_spec {s : Store} (h : WF s) (wk : Walker) (hj : StdJudge s wk) :
    ∀ n, n ∈ docOrder s wk.root →
      (twParent s wk n = none → Extra s wk.w wk.filt wk.root n = []) ∧
      (∀ a, twParent s wk n = some a → a ∈ docOrder s wk.root ∧ depthOf s a < depthOf s n ∧
        verdict s wk.w wk.filt a = .accept ∧
        Extra s wk.w wk.filt wk.root n = R s wk.w wk.filt wk.root a ++ Extra s wk.w wk.filt wk.root a) := by
  refine up_induction h (fun n => n ∈ docOrder s wk.root →
      (twParent s wk n = none → Extra s wk.w wk.filt wk.root n = []) ∧
      (∀ a, twParent s wk n = some a → a ∈ docOrder s wk.root ∧ depthOf s a < depthOf s n ∧
        verdict s wk.w wk.filt a = .accept ∧
        Extra s wk.w wk.filt wk.root n = R s wk.w wk.filt wk.root a ++ Extra s wk.w wk.filt wk.root a)) ?_
  intro n ih hn
  by_cases hr : n = wk.root
  · subst hr
    have : twParent s wk wk.root = none := by
      unfold twParent
      cases ancestors s wk.root with
      | nil => rfl
      | cons p ps => unfold twParentChain; rw [if_pos rfl]
    rw [this]
    exact ⟨fun _ => Extra_root s _ _ _, fun a ha => by cases ha⟩
  · obtain ⟨p, l1, l2, hq, hpT, _, _, _, hdep, _, _⟩ := sibling_facts h hn hr
    have hunf : twParent s wk n = if wk.judge s p = .accept then some p else twParent s wk p := by
      unfold twParent
      rw [ancestors_cons h hq]
      conv => lhs; unfold twParentChain
      rw [if_neg hr]
    rw [hunf, hj, Extra_unfold h _ _ _ hr, hq]
    simp only
    obtain ⟨ih1, ih2⟩ := ih p hq hpT
    cases hv : verdict s wk.w wk.filt p with
    | accept =>
      simp only [if_true]
      constructor
      · intro hh; cases hh
      · intro a ha
        cases ha
        exact ⟨hpT, by omega, hv, rfl⟩
    | skip =>
      simp only [reduceCtorEq, if_false]
      refine ⟨ih1, ?_⟩
      intro a ha
      obtain ⟨h1, h2, h3, h4⟩ := ih2 a ha
      exact ⟨h1, by omega, h3, h4⟩
    | reject =>
      simp only [reduceCtorEq, if_false]
      refine ⟨ih1, ?_⟩
      intro a ha
      obtain ⟨h1, h2, h3, h4⟩ := ih2 a ha
      exact ⟨h1, by omega, h3, h4⟩

theorem muNS_lt_fuel {s : Store} (h : WF s) (root n : NodeId) : muNS s root n < twFuel s := by
  unfold muNS twFuel
  have h1 := docOrder_length_le' h root
  have h2 := depthOf_le s n
  have h3 : ((docOrder s root).length - bendT s root n) * (s.size + 1) ≤ (s.size + 1) * (s.size + 1) :=
    Nat.mul_le_mul_right _ (by omega)
  have e1 : (s.size + 2) * (s.size + 2) = (s.size + 1) * (s.size + 1) + (2 * s.size + 3) := by
    rw [show s.size + 2 = (s.size + 1) + 1 by omega, Nat.add_mul, Nat.mul_add]
    omega
  omega

theorem muFC_lt_fuel {s : Store} (h : WF s) (root n : NodeId) : muFC s root n < twFuel s := by
  unfold muFC twFuel
  have h1 := docOrder_length_le' h root
  have h3 : ((docOrder s root).length - idxT s root n) * (s.size + 1) ≤ (s.size + 1) * (s.size + 1) :=
    Nat.mul_le_mul_right _ (by omega)
  have e1 : (s.size + 2) * (s.size + 2) = (s.size + 1) * (s.size + 1) + (2 * s.size + 3) := by
    rw [show s.size + 2 = (s.size + 1) + 1 by omega, Nat.add_mul, Nat.mul_add]
    omega
  omega

/-- the loop of nextNode() over the accepted ancestors -/
theorem twClimb_spec {s : Store} (h : WF s) (wk : Walker) (hj : StdJudge s wk) :
    ∀ f n, n ∈ docOrder s wk.root → depthOf s n < f →
      twClimb s wk f n = (Extra s wk.w wk.filt wk.root n).head? := by
  intro f
  induction f with
  | zero => intro n _ hd; omega
  | succ f ih =>
    intro n hn hd
    unfold twClimb
    obtain ⟨hp1, hp2⟩ := twParent_spec h wk hj n hn
    cases hp : twParent s wk n with
    | none => simp only; rw [hp1 hp]; rfl
    | some a =>
      simp only
      obtain ⟨haT, hda, _, hE⟩ := hp2 a hp
      rw [(tw_forward_spec h wk hj (muNS s wk.root a)).2 a (twFuel s) haT (Nat.le_refl _) (muNS_lt_fuel h _ _), hE,
        List.head?_append]
      cases hh : (R s wk.w wk.filt wk.root a).head? with
      | some x => rfl
      | none =>
        simp only [Option.none_or]
        exact ih a haT (by omega)

-- ------------------------------------------------------------------ the place of a visible node in the logical view

/-- no node strictly between the root and `x` is rejected -/
def OKpath (s : Store) (w filt root x : Nat) : Prop :=
  ∀ a, AncOrSelf s a x → a ≠ x → AncOrSelf s root a → a ≠ root → verdict s w filt a ≠ .reject

theorem okpath_parent {s : Store} (h : WF s) {w filt root x q : Nat} (hq : parentOf s x = some q)
    (hroot : AncOrSelf s root q) (hok : OKpath s w filt root x) :
    OKpath s w filt root q ∧ (q ≠ root → verdict s w filt q ≠ .reject) := by
  constructor
  · intro a ha hne hra har
    refine hok a (.step hq ha) ?_ hra har
    intro e; subst e
    exact not_anc_parent h hq ha
  · intro hqr
    refine hok q (.step hq .refl) ?_ hroot hqr
    intro e; subst e
    exact not_anc_parent h hq .refl

theorem sublist_flatMap' {α β : Type} (f g : α → List β) : ∀ (l : List α), (∀ a, a ∈ l → (f a).Sublist (g a)) →
    (l.flatMap f).Sublist (l.flatMap g)
  | [], _ => by simp
  | a :: t, hh => by
    simp only [List.flatMap_cons]
    exact List.Sublist.append (hh a (List.mem_cons_self ..)) (sublist_flatMap' f g t (fun b hb => hh b (List.mem_cons_of_mem _ hb)))

theorem VBl_eq_flatMap {s : Store} (w filt : Nat) (h : WF s) (l : List NodeId) :
    VBl s w filt l = l.flatMap (VBn s w filt) := by
  rw [VBl_unfold w filt h]; rfl

/-- the visible nodes are a selection of the document order -/
theorem VBn_sublist {s : Store} (w filt : Nat) (h : WF s) : ∀ c, (VBn s w filt c).Sublist (docOrder s c) := by
  refine down_induction h (fun c => (VBn s w filt c).Sublist (docOrder s c)) ?_
  intro c ih
  have hk : (VBl s w filt (kids s c)).Sublist ((kids s c).flatMap (docOrder s)) := by
    rw [VBl_eq_flatMap w filt h]
    exact sublist_flatMap' _ _ _ ih
  rw [docOrder_unfold h c]
  unfold VBn
  cases verdict s w filt c with
  | accept => exact List.Sublist.cons_cons _ hk
  | skip => exact List.Sublist.cons _ hk
  | reject => exact List.nil_sublist _

theorem VBl_sublist {s : Store} (w filt : Nat) (h : WF s) (l : List NodeId) :
    (VBl s w filt l).Sublist (l.flatMap (docOrder s)) := by
  rw [VBl_eq_flatMap w filt h]
  exact sublist_flatMap' _ _ _ (fun c _ => VBn_sublist w filt h c)

theorem VBl_root_nodup {s : Store} (w filt : Nat) (h : WF s) (root : NodeId) :
    (root :: VBl s w filt (kids s root)).Nodup := by
  have hnd := docOrder_nodup h root
  rw [docOrder_unfold h root] at hnd
  exact List.Nodup.sublist (List.Sublist.cons_cons _ (VBl_sublist w filt h _)) hnd

/-- a visible node `x` below the root splits the logical view into what precedes it, its own visible block, the rest up to
the end of its scope and the rests of its accepted ancestors -/
theorem visible_decomp {s : Store} (h : WF s) (w filt root : Nat) {x : NodeId} (ha : AncOrSelf s root x) :
    x ≠ root → OKpath s w filt root x →
    ∃ pre, VBl s w filt (kids s root) = pre ++ VBn s w filt x ++ R s w filt root x ++ Extra s w filt root x := by
  induction ha with
  | refl => intro hne; exact absurd rfl hne
  | @step x q hq haq ih =>
    intro hxr hok
    obtain ⟨l1, l2, hl, h1, _⟩ := kids_split h hq
    obtain ⟨hsa, _⟩ := sibsAfter_split h hq l1 l2 hl h1
    obtain ⟨hokq, hvq⟩ := okpath_parent h hq haq hok
    have hkq : VBl s w filt (kids s q) = VBl s w filt l1 ++ VBn s w filt x ++ VBl s w filt l2 := by
      rw [hl, VBl_append w filt h, VBl_cons w filt h, List.append_assoc]
    rw [R_unfold h _ _ _ hxr, Extra_unfold h _ _ _ hxr, hsa, hq]
    simp only
    by_cases hqr : q = root
    · subst hqr
      refine ⟨VBl s w filt l1, ?_⟩
      rw [hkq, R_root, Extra_root]
      cases verdict s w filt q <;> simp
    · obtain ⟨preq, hpre⟩ := ih hqr hokq
      have hv := hvq hqr
      cases hvv : verdict s w filt q with
      | reject => exact absurd hvv hv
      | accept =>
        refine ⟨preq ++ q :: VBl s w filt l1, ?_⟩
        have hVq : VBn s w filt q = q :: VBl s w filt (kids s q) := by unfold VBn; rw [hvv]
        rw [hpre, hVq, hkq]
        simp [List.append_assoc]
      | skip =>
        refine ⟨preq ++ VBl s w filt l1, ?_⟩
        have hVq : VBn s w filt q = VBl s w filt (kids s q) := by unfold VBn; rw [hvv]
        rw [hpre, hVq, hkq]
        simp [List.append_assoc]

-- ------------------------------------------------------------------ nextNode()

/-- the current node is the root or a visible node of the logical view -/
def VisibleCur (s : Store) (wk : Walker) : Prop :=
  wk.cur = wk.root ∨
    (AncOrSelf s wk.root wk.cur ∧ wk.cur ≠ wk.root ∧ verdict s wk.w wk.filt wk.cur = .accept ∧
      OKpath s wk.w wk.filt wk.root wk.cur)

theorem moveTo_snd (wk : Walker) (r : Option NodeId) : (moveTo wk r).2 = r := by
  unfold moveTo; cases r <;> rfl

theorem moveTo_fst (wk : Walker) (r : Option NodeId) :
    (moveTo wk r).1 = { wk with cur := r.getD wk.cur } := by
  unfold moveTo; cases r <;> rfl

theorem nextNode_value (s : Store) (wk : Walker) :
    (wk.nextNode s).2 =
      (twFirstChild s wk (twFuel s) wk.cur).or ((twNextSibling s wk (twFuel s) wk.cur).or
        (twClimb s wk (s.size + 1) wk.cur)) ∧
    (wk.nextNode s).1 = { wk with cur := ((wk.nextNode s).2).getD wk.cur } := by
  unfold Walker.nextNode
  cases h1 : twFirstChild s wk (twFuel s) wk.cur with
  | some n => simp only; exact ⟨by rw [moveTo_snd]; rfl, by rw [moveTo_fst, moveTo_snd]⟩
  | none =>
    simp only
    cases h2 : twNextSibling s wk (twFuel s) wk.cur with
    | some n => simp only; exact ⟨by rw [moveTo_snd]; rfl, by rw [moveTo_fst, moveTo_snd]⟩
    | none => simp only; exact ⟨by rw [moveTo_snd]; rfl, by rw [moveTo_fst, moveTo_snd]⟩

/-- nextNode() moves to the successor of the current node in the logical view (root first) -/
theorem walker_nextNode_spec {s : Store} (h : WF s) (wk : Walker) (hj : StdJudge s wk) (hcur : VisibleCur s wk) :
    (wk.nextNode s).2 = succIn (wk.root :: visibleOrder s wk.w wk.filt wk.root) wk.cur := by
  have hvo : visibleOrder s wk.w wk.filt wk.root = VBl s wk.w wk.filt (kids s wk.root) := rfl
  have hcT : wk.cur ∈ docOrder s wk.root := by
    rcases hcur with e | ⟨ha, _⟩
    · rw [e]; exact mem_docOrder_self h _
    · exact anc_mem_docOrder h ha
  have hFC := (tw_forward_spec h wk hj (muFC s wk.root wk.cur)).1 wk.cur (twFuel s) hcT (Nat.le_refl _)
    (muFC_lt_fuel h _ _)
  have hNS := (tw_forward_spec h wk hj (muNS s wk.root wk.cur)).2 wk.cur (twFuel s) hcT (Nat.le_refl _)
    (muNS_lt_fuel h _ _)
  have hCL := twClimb_spec h wk hj (s.size + 1) wk.cur hcT (by have := depthOf_le s wk.cur; omega)
  rw [(nextNode_value s wk).1, hFC, hNS, hCL, hvo]
  -- the first child step of the root / of an accepted node does not escalate
  have hspecFC : specFC s wk.w wk.filt wk.root wk.cur = (VBl s wk.w wk.filt (kids s wk.cur)).head? := by
    unfold specFC
    by_cases hk : (kids s wk.cur).isEmpty = true
    · rw [if_pos hk, List.isEmpty_iff.mp hk, VBl_nil]; rfl
    · rw [if_neg hk]
      rcases hcur with e | ⟨_, _, hv, _⟩
      · rw [e, R_root]; cases verdict s wk.w wk.filt wk.root <;> simp
      · rw [hv]; simp
  rw [hspecFC, ← List.head?_append, ← List.head?_append]
  rcases hcur with e | ⟨ha, hne, hv, hok⟩
  · rw [e, R_root, Extra_root]
    simp only [List.append_nil]
    unfold succIn
    rw [if_pos rfl]
  · obtain ⟨pre, hpre⟩ := visible_decomp h wk.w wk.filt wk.root ha hne hok
    have hVn : VBn s wk.w wk.filt wk.cur = wk.cur :: VBl s wk.w wk.filt (kids s wk.cur) := by unfold VBn; rw [hv]
    have hL : wk.root :: VBl s wk.w wk.filt (kids s wk.root) =
        (wk.root :: pre) ++ wk.cur :: (VBl s wk.w wk.filt (kids s wk.cur) ++
          (R s wk.w wk.filt wk.root wk.cur ++ Extra s wk.w wk.filt wk.root wk.cur)) := by
      rw [hpre, hVn]; simp [List.append_assoc]
    have hnd := VBl_root_nodup wk.w wk.filt h wk.root
    rw [hL] at hnd ⊢
    have hnp : wk.cur ∉ wk.root :: pre := fun hm =>
      (List.nodup_append.mp hnd).2.2 wk.cur hm wk.cur (List.mem_cons_self ..) rfl
    rw [succIn_split _ _ _ hnp]

-- ------------------------------------------------------------------ the nodes of the logical view are visible

/-- every node listed below `n` is accepted, lies in the subtree of `n`, and none of its proper ancestors from `n`
downwards is rejected -/
theorem mem_VBn {s : Store} (w filt : Nat) (h : WF s) : ∀ n x, x ∈ VBn s w filt n →
    AncOrSelf s n x ∧ verdict s w filt x = .accept ∧
    (∀ a, AncOrSelf s a x → a ≠ x → AncOrSelf s n a → verdict s w filt a ≠ .reject) := by
  refine down_induction h (fun n => ∀ x, x ∈ VBn s w filt n →
    AncOrSelf s n x ∧ verdict s w filt x = .accept ∧
    (∀ a, AncOrSelf s a x → a ≠ x → AncOrSelf s n a → verdict s w filt a ≠ .reject)) ?_
  intro n ih x hx
  have below : verdict s w filt n ≠ .reject → x ∈ VBl s w filt (kids s n) →
      AncOrSelf s n x ∧ verdict s w filt x = .accept ∧
      (∀ a, AncOrSelf s a x → a ≠ x → AncOrSelf s n a → verdict s w filt a ≠ .reject) := by
    intro hvn hxl
    rw [VBl_eq_flatMap w filt h] at hxl
    obtain ⟨c, hc, hxc⟩ := List.mem_flatMap.mp hxl
    obtain ⟨h1, h2, h3⟩ := ih c hc x hxc
    refine ⟨anc_trans (anc_of_kid h hc) h1, h2, ?_⟩
    intro a hax hne hna
    rcases anc_linear hax h1 with hac | hca
    · -- a is above c: a = c or a = n
      by_cases e : a = c
      · subst e; exact h3 a hax hne .refl
      · have : AncOrSelf s a n := by
          cases hac with
          | refl => exact absurd rfl e
          | step hq hh => rw [parent_of_kid h hc] at hq; cases hq; exact hh
        have := anc_antisymm h this hna
        subst this
        exact hvn
    · exact h3 a hax hne hca
  unfold VBn at hx
  cases hv : verdict s w filt n with
  | accept =>
    rw [hv] at hx
    simp only at hx
    rcases List.mem_cons.mp hx with e | hm
    · subst e
      refine ⟨.refl, hv, ?_⟩
      intro a hax hne hna
      exact absurd (anc_antisymm h hax hna) hne
    · exact below (by rw [hv]; simp) hm
  | skip =>
    rw [hv] at hx
    exact below (by rw [hv]; simp) hx
  | reject => rw [hv] at hx; cases hx

/-- the nodes of the logical view are the ones a walker may stand on -/
theorem mem_visibleOrder {s : Store} (h : WF s) (w filt root x : Nat) (hx : x ∈ visibleOrder s w filt root) :
    AncOrSelf s root x ∧ x ≠ root ∧ verdict s w filt x = .accept ∧ OKpath s w filt root x := by
  have hx' : x ∈ VBl s w filt (kids s root) := hx
  rw [VBl_eq_flatMap w filt h] at hx'
  obtain ⟨c, hc, hxc⟩ := List.mem_flatMap.mp hx'
  obtain ⟨h1, h2, h3⟩ := mem_VBn w filt h c x hxc
  have hrx : AncOrSelf s root x := anc_trans (anc_of_kid h hc) h1
  have hne : x ≠ root := by
    intro e; subst e
    exact not_anc_parent h (parent_of_kid h hc) h1
  refine ⟨hrx, hne, h2, ?_⟩
  intro a hax hnex hra har
  apply h3 a hax hnex
  rcases anc_linear hax h1 with hac | hca
  · cases hac with
    | refl => exact .refl
    | step hq hh =>
      rw [parent_of_kid h hc] at hq; cases hq
      exact absurd (anc_antisymm h hh hra) har
  · exact hca

/-- repeated nextNode(), at most `n` times -/
def walkFrom (s : Store) : Nat → Walker → List NodeId
  | 0, _ => []
  | n + 1, wk =>
    match wk.nextNode s with
    | (wk', some x) => x :: walkFrom s n wk'
    | (_, none) => []

theorem walkFrom_spec {s : Store} (h : WF s) : ∀ (rest pre : List NodeId) (wk : Walker) (n : Nat),
    StdJudge s wk → wk.root :: visibleOrder s wk.w wk.filt wk.root = pre ++ wk.cur :: rest → rest.length ≤ n →
    walkFrom s n wk = rest := by
  intro rest
  induction rest with
  | nil =>
    intro pre wk n hj hL _
    have hnd := VBl_root_nodup wk.w wk.filt h wk.root
    have hL' : wk.root :: VBl s wk.w wk.filt (kids s wk.root) = pre ++ wk.cur :: [] := hL
    rw [hL'] at hnd
    have hcp : wk.cur ∉ pre := fun hm => (List.nodup_append.mp hnd).2.2 _ hm _ (List.mem_cons_self ..) rfl
    have hvis : VisibleCur s wk := by
      cases pre with
      | nil => simp at hL; exact Or.inl hL.1.symm
      | cons a t =>
        simp at hL
        have hm : wk.cur ∈ visibleOrder s wk.w wk.filt wk.root := by rw [hL.2]; simp
        obtain ⟨h1, h2, h3, h4⟩ := mem_visibleOrder h _ _ _ _ hm
        exact Or.inr ⟨h1, h2, h3, h4⟩
    cases n with
    | zero => rfl
    | succ n =>
      unfold walkFrom
      have := walker_nextNode_spec h wk hj hvis
      rw [hL, succIn_split pre [] wk.cur hcp] at this
      have hv := (nextNode_value s wk)
      cases hnx : wk.nextNode s with
      | mk wk' r =>
        rw [hnx] at this
        simp only at this
        subst this
        rfl
  | cons y rest' ih =>
    intro pre wk n hj hL hn
    have hnd := VBl_root_nodup wk.w wk.filt h wk.root
    have hL' : wk.root :: VBl s wk.w wk.filt (kids s wk.root) = pre ++ wk.cur :: y :: rest' := hL
    rw [hL'] at hnd
    have hcp : wk.cur ∉ pre := fun hm => (List.nodup_append.mp hnd).2.2 _ hm _ (List.mem_cons_self ..) rfl
    have hvis : VisibleCur s wk := by
      cases pre with
      | nil => simp at hL; exact Or.inl hL.1.symm
      | cons a t =>
        simp at hL
        have hm : wk.cur ∈ visibleOrder s wk.w wk.filt wk.root := by rw [hL.2]; simp
        obtain ⟨h1, h2, h3, h4⟩ := mem_visibleOrder h _ _ _ _ hm
        exact Or.inr ⟨h1, h2, h3, h4⟩
    cases n with
    | zero => simp at hn
    | succ n =>
      unfold walkFrom
      have hsp := walker_nextNode_spec h wk hj hvis
      rw [hL, succIn_split pre (y :: rest') wk.cur hcp] at hsp
      have hv := (nextNode_value s wk).2
      cases hnx : wk.nextNode s with
      | mk wk' r =>
        rw [hnx] at hsp hv
        simp only at hsp hv
        subst hsp
        simp only [List.head?_cons, Option.getD_some] at hv
        have hwk' : wk'.root = wk.root ∧ wk'.w = wk.w ∧ wk'.filt = wk.filt ∧ wk'.asIs = wk.asIs ∧ wk'.cur = y := by
          rw [hv]; exact ⟨rfl, rfl, rfl, rfl, rfl⟩
        simp only [List.head?_cons]
        congr 1
        apply ih (pre ++ [wk.cur]) wk' n (stdJudge_congr s wk wk' hwk'.2.1 hwk'.2.2.1 hwk'.2.2.2.1 hj)
        · rw [hwk'.1, hwk'.2.1, hwk'.2.2.1, hwk'.2.2.2.2, hL]; simp
        · simp at hn; omega

-- ------------------------------------------------------------------ the logical view as a filter of the document order

/-- visible relative to `n`: accepted, and nothing strictly between `n` and the node is rejected -/
def visRel (s : Store) (w filt n x : Nat) : Bool :=
  verdict s w filt x == .accept &&
  ((ancestors s x).takeWhile (· != n)).all (fun a => verdict s w filt a != .reject)

theorem filter_flatMap' {α β : Type} (p : β → Bool) (f : α → List β) : ∀ l : List α,
    (l.flatMap f).filter p = l.flatMap (fun a => (f a).filter p)
  | [] => rfl
  | a :: t => by simp only [List.flatMap_cons, List.filter_append, filter_flatMap' p f t]

/-- the ancestors of a proper descendant `x` of `c` up to the parent `n` of `c`: those up to `c`, then `c` -/
theorem takeWhile_anc {s : Store} (h : WF s) {n c x : NodeId} (hc : parentOf s c = some n) (ha : AncOrSelf s c x) :
    x ≠ c → (ancestors s x).takeWhile (· != n) = (ancestors s x).takeWhile (· != c) ++ [c] := by
  induction ha with
  | refl => intro hne; exact absurd rfl hne
  | @step x q hq haq ih =>
    intro _
    rw [ancestors_cons h hq]
    by_cases hqc : q = c
    · subst hqc
      have hcn : q ≠ n := by
        intro e; subst e
        exact not_anc_parent h hc .refl
      rw [ancestors_cons h hc]
      simp [hcn]
    · have hqn : q ≠ n := by
        intro e; subst e
        exact not_anc_parent h hc haq
      have := ih hqc
      simp only [List.takeWhile_cons]
      have e1 : (q != n) = true := by simp [hqn]
      have e2 : (q != c) = true := by simp [hqc]
      rw [e1, e2]
      simp only [if_true, List.cons_append]
      rw [this]

theorem visRel_child {s : Store} (h : WF s) (w filt : Nat) {n c x : NodeId} (hc : parentOf s c = some n)
    (ha : AncOrSelf s c x) (hne : x ≠ c) :
    visRel s w filt n x = (visRel s w filt c x && (verdict s w filt c != .reject)) := by
  unfold visRel
  rw [takeWhile_anc h hc ha hne, List.all_append]
  simp [Bool.and_assoc]

theorem visRel_self {s : Store} (h : WF s) (w filt : Nat) {n c : NodeId} (hc : parentOf s c = some n) :
    visRel s w filt n c = (verdict s w filt c == .accept) := by
  unfold visRel
  rw [ancestors_cons h hc]
  simp

/-- the visible nodes below `n` are the nodes of the document order below `n` that are visible relative to `n` -/
theorem VBl_eq_filter {s : Store} (h : WF s) (w filt : Nat) :
    ∀ n, VBl s w filt (kids s n) = ((kids s n).flatMap (docOrder s)).filter (visRel s w filt n) := by
  refine down_induction h (fun n => VBl s w filt (kids s n) =
    ((kids s n).flatMap (docOrder s)).filter (visRel s w filt n)) ?_
  intro n ih
  rw [VBl_eq_flatMap w filt h, filter_flatMap']
  apply flatMap_congr'
  intro c hc
  have hpc := parent_of_kid h hc
  rw [docOrder_unfold h c, List.filter_cons, visRel_self h w filt hpc]
  have hrest : ((kids s c).flatMap (docOrder s)).filter (visRel s w filt n) =
      ((kids s c).flatMap (docOrder s)).filter
        (fun x => visRel s w filt c x && (verdict s w filt c != .reject)) := by
    apply List.filter_congr
    intro x hx
    obtain ⟨k, hk, hxk⟩ := List.mem_flatMap.mp hx
    have hax : AncOrSelf s c x := anc_trans (anc_of_kid h hk) (mem_docOrder_anc h k x hxk)
    have hne : x ≠ c := by
      intro e; subst e
      exact not_anc_parent h (parent_of_kid h hk) (mem_docOrder_anc h k x hxk)
    exact visRel_child h w filt hpc hax hne
  rw [hrest]
  unfold VBn
  cases hv : verdict s w filt c with
  | accept =>
    simp only [beq_self_eq_true, if_true]
    congr 1
    rw [ih c hc]
    apply List.filter_congr
    intro x _
    simp
  | skip =>
    have : (Verdict.skip == Verdict.accept) = false := rfl
    simp only [this, Bool.false_eq_true, if_false]
    rw [ih c hc]
    apply List.filter_congr
    intro x _
    simp
  | reject =>
    have : (Verdict.reject == Verdict.accept) = false := rfl
    simp only [this, Bool.false_eq_true, if_false]
    symm
    apply List.filter_eq_nil_iff.mpr
    intro x _
    simp

/-- **the logical view = `filter docOrder` minus the rejected subtrees** -/
theorem visibleOrder_eq_filter {s : Store} (h : WF s) (w filt root : Nat) :
    visibleOrder s w filt root = (docOrder s root).tail.filter (visibleP s w filt root) := by
  show VBl s w filt (kids s root) = _
  rw [VBl_eq_filter h w filt root, docOrder_unfold h root]
  rfl

end XV.Lemmas.ViewsWalker
