/-
C08 — counting states: the shape of the tree `makeContentModel` hands to `DFAContentModel`.

  * `SNode.noAll`        no `All` group (those go to `AllContentModel`, never to the DFA)
  * `compact_convert`    `useRepeatingLeafNodes s` → `convert true s` is in compact shape and its leaves are
                         `collectLeafNodes s`
  * `okCM_convert`       without compact syntax the converted tree has no `Loop` node
Core Lean only.
-/
import XV.Lemmas.ParticleCountSpec
namespace XV.Lemmas.ParticleCount
open XV.Spec.Particle XV.Model.Particle XV.Model.ParticleDfa XV.Lemmas.ParticleExpand
open XV.Spec.ContentModel (CM)
open XV.Lemmas.Glushkov (names size)

/-- the content models `makeContentModel` builds a `DFAContentModel` for: no `All` group anywhere
    (an all-group is only allowed as the whole content and gets an `AllContentModel`) -/
def noAll : SNode Nat → Bool
  | .leaf _ _ _ => true
  | .group1 t f _ _ => t != .All && noAll f
  | .group2 t f g _ _ => t != .All && noAll f && noAll g

theorem hasRepeatedLeafIn_false (l : List Nat) : hasRepeatedLeafIn l = false ↔ l.Nodup := by
  induction l with
  | nil => simp [hasRepeatedLeafIn]
  | cons a rest ih =>
    simp only [hasRepeatedLeafIn, Bool.or_eq_false_iff, List.nodup_cons, ih]
    constructor
    · rintro ⟨h1, h2⟩; exact ⟨by simpa using h1, h2⟩
    · rintro ⟨h1, h2⟩; exact ⟨by simpa using h1, h2⟩

theorem expand_leaf_compact (a mn : Nat) (mx : Option Nat) (hocc : occOk mn mx = true) :
    Compact (expand (.leaf a) mn mx true) = true ∧ names (sk (expand (.leaf a) mn mx true)) = [a] := by
  unfold expand
  by_cases h1 : mn = 1 ∧ mx = some 1
  · rw [if_pos h1]; exact ⟨rfl, rfl⟩
  · rw [if_neg h1]
    by_cases h2 : mn = 0 ∧ mx = some 1
    · rw [if_pos h2]; exact ⟨rfl, rfl⟩
    · rw [if_neg h2]
      by_cases h3 : mn = 0 ∧ mx = none
      · rw [if_pos h3]; exact ⟨rfl, rfl⟩
      · rw [if_neg h3]
        by_cases h4 : mn = 1 ∧ mx = none
        · rw [if_pos h4]; exact ⟨rfl, rfl⟩
        · rw [if_neg h4]
          simp only [XNode.isLeaf, Bool.and_self, if_true]
          by_cases h0 : mn = 0
          · rw [if_pos h0]
            subst h0
            exact ⟨by simp [Compact, hocc], rfl⟩
          · rw [if_neg h0]
            exact ⟨by simp [Compact, hocc]; omega, rfl⟩

theorem expand_one (x : XNode Nat) (compact : Bool) : expand x 1 (some 1) compact = x := by
  unfold expand
  rw [if_pos ⟨rfl, rfl⟩]

theorem compact_convert (s : SNode Nat) (hwf : s.wf = true) (hna : noAll s = true) (hu : useRepeatingLeafNodes s = true) :
    Compact (convert true s) = true ∧ names (sk (convert true s)) = collectLeafNodes s := by
  induction s with
  | leaf a mn mx =>
    simp only [SNode.wf] at hwf
    exact expand_leaf_compact a mn mx hwf
  | group1 t f mn mx ih =>
    simp only [SNode.wf, Bool.and_eq_true] at hwf
    simp only [noAll, Bool.and_eq_true, bne_iff_ne, ne_eq] at hna
    simp only [convert, collectLeafNodes]
    have ht : t = .Choice ∨ t = .Sequence := by
      cases t with
      | All => exact absurd rfl hna.1
      | Sequence => exact .inr rfl
      | Choice => exact .inl rfl
    unfold useRepeatingLeafNodes at hu
    rw [if_pos ht] at hu
    by_cases h11 : mn = 1 ∧ mx = some 1
    · have hn : ¬ (mn ≠ 1 ∨ mx ≠ some 1) := by
        rintro (h | h)
        · exact h h11.1
        · exact h h11.2
      rw [if_neg hn] at hu
      obtain ⟨rfl, rfl⟩ := h11
      rw [expand_one]
      exact ih hwf.2 hna.2 hu
    · have hn : mn ≠ 1 ∨ mx ≠ some 1 := by
        by_cases hm : mn = 1
        · exact .inr (fun h => h11 ⟨hm, h⟩)
        · exact .inl hm
      rw [if_pos hn] at hu
      cases f with
      | leaf a fmin fmax =>
        simp only [decide_eq_true_eq] at hu
        obtain ⟨rfl, rfl⟩ := hu
        simp only [convert, expand_one, collectLeafNodes]
        exact expand_leaf_compact a mn mx hwf.1
      | group1 _ _ _ _ => simp at hu
      | group2 _ _ _ _ _ => simp at hu
  | group2 t f g mn mx ihf ihg =>
    simp only [noAll, Bool.and_eq_true, bne_iff_ne, ne_eq] at hna
    have ht : t = .Choice ∨ t = .Sequence := by
      cases t with
      | All => exact absurd rfl hna.1.1
      | Sequence => exact .inr rfl
      | Choice => exact .inl rfl
    unfold useRepeatingLeafNodes at hu
    rw [if_pos ht] at hu
    by_cases h11 : mn = 1 ∧ mx = some 1
    · have hn : ¬ (mn ≠ 1 ∨ mx ≠ some 1) := by
        rintro (h | h)
        · exact h h11.1
        · exact h h11.2
      rw [if_neg hn] at hu
      simp only [Bool.and_eq_true] at hu
      obtain ⟨rfl, rfl⟩ := h11
      simp only [convert, expand_one, collectLeafNodes]
      have hwf' : f.wf = true ∧ g.wf = true := by
        cases t with
        | All => exact absurd rfl hna.1.1
        | Sequence => simp only [SNode.wf, Bool.and_eq_true] at hwf; exact ⟨hwf.1.2, hwf.2⟩
        | Choice => simp only [SNode.wf, Bool.and_eq_true] at hwf; exact ⟨hwf.1.2, hwf.2⟩
      obtain ⟨c1, n1⟩ := ihf hwf'.1 hna.1.2 hu.1
      obtain ⟨c2, n2⟩ := ihg hwf'.2 hna.2 hu.2
      cases t with
      | All => exact absurd rfl hna.1.1
      | Sequence => exact ⟨by simp [Compact, c1, c2], by simp [sk, names, n1, n2]⟩
      | Choice => exact ⟨by simp [Compact, c1, c2], by simp [sk, names, n1, n2]⟩
    · have hn : mn ≠ 1 ∨ mx ≠ some 1 := by
        by_cases hm : mn = 1
        · exact .inr (fun h => h11 ⟨hm, h⟩)
        · exact .inl hm
      rw [if_pos hn] at hu
      cases hu

/-! ### without compact syntax: no `Loop` node -/

def okCM (x : XNode Nat) : Bool := (toCM x).isSome

theorem okCM_unary (t : UnOp) (x : XNode Nat) (h : okCM x = true) : okCM (.unary t x) = true := by
  unfold okCM at *
  simp only [toCM]
  cases hx : toCM x with
  | none => rw [hx] at h; cases h
  | some c => rfl

theorem okCM_seq (x y : XNode Nat) (hx : okCM x = true) (hy : okCM y = true) : okCM (.bin .Sequence x y) = true := by
  unfold okCM at *
  simp only [toCM]
  cases h1 : toCM x with
  | none => rw [h1] at hx; cases hx
  | some a =>
    cases h2 : toCM y with
    | none => rw [h2] at hy; cases hy
    | some b => rfl

theorem okCM_choice (x y : XNode Nat) (hx : okCM x = true) (hy : okCM y = true) : okCM (.bin .Choice x y) = true := by
  unfold okCM at *
  simp only [toCM]
  cases h1 : toCM x with
  | none => rw [h1] at hx; cases hx
  | some a =>
    cases h2 : toCM y with
    | none => rw [h2] at hy; cases hy
    | some b => rfl

theorem okCM_iter (f : XNode Nat → XNode Nat) (hf : ∀ z, okCM z = true → okCM (f z) = true) :
    ∀ (n : Nat) (b : XNode Nat), okCM b = true → okCM (iter f n b) = true := by
  intro n
  induction n with
  | zero => intro b hb; exact hb
  | succ n ih => intro b hb; exact ih (f b) (hf b hb)

theorem okCM_expand (x : XNode Nat) (mn : Nat) (mx : Option Nat) (h : okCM x = true) :
    okCM (expand x mn mx false) = true := by
  unfold expand
  split
  · exact h
  · split
    · exact okCM_unary _ x h
    · split
      · exact okCM_unary _ x h
      · split
        · exact okCM_unary _ x h
        · simp only [Bool.false_and, Bool.false_eq_true, if_false]
          cases mx with
          | none =>
            exact okCM_iter _ (fun z hz => okCM_seq x z h hz) _ _ (okCM_unary _ x h)
          | some m =>
            simp only
            have hopt : okCM (.unary .ZeroOrOne x) = true := okCM_unary _ x h
            split
            · exact okCM_iter _ (fun z hz => okCM_seq z _ hz hopt) _ _ hopt
            · have hret1 : okCM (if mn > 1 then iter (fun ret => .bin .Sequence ret x) (mn - 2) (.bin .Sequence x x) else x) = true := by
                split
                · exact okCM_iter _ (fun z hz => okCM_seq z x hz h) _ _ (okCM_seq x x h h)
                · exact h
              split
              · exact okCM_iter _ (fun z hz => okCM_seq z _ hz hopt) _ _ (okCM_seq _ _ hret1 hopt)
              · exact hret1

theorem okCM_convert (s : SNode Nat) (hna : noAll s = true) : okCM (convert false s) = true := by
  induction s with
  | leaf a mn mx => exact okCM_expand _ mn mx rfl
  | group1 t f mn mx ih =>
    simp only [noAll, Bool.and_eq_true] at hna
    exact okCM_expand _ mn mx (ih hna.2)
  | group2 t f g mn mx ihf ihg =>
    simp only [noAll, Bool.and_eq_true, bne_iff_ne, ne_eq] at hna
    simp only [convert]
    apply okCM_expand
    cases t with
    | All => exact absurd rfl hna.1.1
    | Sequence => exact okCM_seq _ _ (ihf hna.1.2) (ihg hna.2)
    | Choice => exact okCM_choice _ _ (ihf hna.1.2) (ihg hna.2)

end XV.Lemmas.ParticleCount
