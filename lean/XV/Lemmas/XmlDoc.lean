/- Document-level round trip of the syntactic recogniser (DOCTYPE-free documents). -/
import XV.Lemmas.XmlTree
namespace XV.Lemmas.Xml
open XV.Spec.Xml XV.Spec.XmlChar

mutual
theorem lexNode_toks : (n : Node) → (lexNode n = true ↔ ∀ t ∈ n.toks, lexTok t = true)
  | .leaf l => by simp [lexNode, Node.toks, lexTok]
  | .empty t => by simp [lexNode, Node.toks, lexTok]
  | .elem t kids en ew => by
    have ih := lexNodes_toksL kids
    simp only [lexNode, Node.toks, Bool.and_eq_true, List.mem_cons, List.mem_append, List.not_mem_nil, or_false]
    constructor
    · rintro ⟨⟨⟨h1, h2⟩, h3⟩, h4⟩ x hx
      rcases hx with rfl | hx | rfl
      · exact h1
      · exact ih.mp h2 x hx
      · simp [lexTok, h3, h4]
    · intro h
      have h1 := h (.stag t) (Or.inl rfl)
      have h3 := h (.etag en ew) (Or.inr (Or.inr rfl))
      simp only [lexTok, Bool.and_eq_true] at h1 h3
      exact ⟨⟨⟨h1, ih.mpr (fun x hx => h x (Or.inr (Or.inl hx)))⟩, h3.1⟩, h3.2⟩
theorem lexNodes_toksL : (ns : List Node) → (lexNodes ns = true ↔ ∀ t ∈ Node.toksL ns, lexTok t = true)
  | [] => by simp [lexNodes, Node.toksL]
  | n :: ns => by
    have i1 := lexNode_toks n
    have i2 := lexNodes_toksL ns
    simp only [lexNodes, Node.toksL, Bool.and_eq_true, List.mem_append]
    constructor
    · rintro ⟨h1, h2⟩ x hx
      rcases hx with hx | hx
      · exact i1.mp h1 x hx
      · exact i2.mp h2 x hx
    · intro h
      exact ⟨i1.mpr (fun x hx => h x (Or.inl hx)), i2.mpr (fun x hx => h x (Or.inr hx))⟩
end

mutual
theorem node_toks_noDoctype : (n : Node) → ∀ t ∈ n.toks, noDoctypeTok t = true
  | .leaf l => by simp [Node.toks, noDoctypeTok]
  | .empty t => by simp [Node.toks, noDoctypeTok]
  | .elem t kids en ew => by
    have ih := nodes_toks_noDoctype kids
    intro x hx
    simp only [Node.toks, List.mem_cons, List.mem_append, List.not_mem_nil, or_false] at hx
    rcases hx with rfl | hx | rfl
    · rfl
    · exact ih x hx
    · rfl
theorem nodes_toks_noDoctype : (ns : List Node) → ∀ t ∈ Node.toksL ns, noDoctypeTok t = true
  | [] => by simp [Node.toksL]
  | n :: ns => by
    intro x hx
    simp only [Node.toksL, List.mem_append] at hx
    rcases hx with hx | hx
    · exact node_toks_noDoctype n x hx
    · exact nodes_toks_noDoctype ns x hx
end

/-- tokens of a DOCTYPE-free document -/
theorem doc_toks_nodt (d : Doc) (h : d.doctype = none) :
    d.toks = d.pre.map .leaf ++ d.root.toks ++ d.post.map .leaf := by
  simp [Doc.toks, h]

theorem lexDoc_toks (d : Doc) (h : d.doctype = none) :
    (∀ t ∈ d.toks, lexTok t = true) ↔
      ((d.pre.all lexLeaf) = true ∧ lexNode d.root = true ∧ (d.post.all lexLeaf) = true) := by
  rw [doc_toks_nodt d h]
  simp only [List.mem_append, List.mem_map, List.all_eq_true]
  constructor
  · intro hx
    refine ⟨fun l hl => ?_, ?_, fun l hl => ?_⟩
    · exact hx (.leaf l) (Or.inl (Or.inl ⟨l, hl, rfl⟩))
    · exact (lexNode_toks d.root).mpr (fun t ht => hx t (Or.inl (Or.inr ht)))
    · exact hx (.leaf l) (Or.inr ⟨l, hl, rfl⟩)
  · rintro ⟨h1, h2, h3⟩ t ht
    rcases ht with (⟨l, hl, rfl⟩ | ht) | ⟨l, hl, rfl⟩
    · exact h1 l hl
    · exact (lexNode_toks d.root).mp h2 t ht
    · exact h3 l hl

theorem doc_toks_noDoctype (d : Doc) (h : d.doctype = none) : ∀ t ∈ d.toks, noDoctypeTok t = true := by
  rw [doc_toks_nodt d h]
  intro t ht
  simp only [List.mem_append, List.mem_map] at ht
  rcases ht with (⟨l, _, rfl⟩ | ht) | ⟨l, _, rfl⟩
  · rfl
  · exact node_toks_noDoctype d.root t ht
  · rfl

end XV.Lemmas.Xml

namespace XV.Lemmas.Xml
open XV.Spec.Xml XV.Spec.XmlChar

/-- lexical validity of a DOCTYPE-free document, unfolded -/
theorem lexDoc_nodt (d : Doc) (h : d.doctype = none) :
    lexDoc d = ((match d.decl with
                 | some x => lexXmlDecl x
                 | none => (startsWithDecl (renderToks d.toks)).isNone) &&
                d.pre.all lexLeaf && d.root.isElement && lexNode d.root && d.post.all lexLeaf) := by
  simp only [lexDoc, h, Bool.and_true]
  cases d.decl <;> rfl

/-- accept side, documents without XML declaration and without DOCTYPE -/
theorem parseSyn_render_nodecl (d : Doc) (hl : lexDoc d = true) (hdecl : d.decl = none) (hdt : d.doctype = none) :
    parseSyn (render d) = .ok d := by
  rw [lexDoc_nodt d hdt, hdecl] at hl
  simp only [Bool.and_eq_true, Option.isNone_iff_eq_none] at hl
  obtain ⟨⟨⟨⟨h0, h1⟩, h2⟩, h3⟩, h4⟩ := hl
  have htoks : ∀ t ∈ d.toks, lexTok t = true := (lexDoc_toks d hdt).mpr ⟨h1, h3, h4⟩
  have ht := tokenize_render d.toks ((renderToks d.toks).length + 1) htoks
    (by have := renderToks_length d.toks; omega)
  have hb := buildDoc_render d hdt h2
  rw [hdecl] at hb
  simp only [parseSyn, render, hdecl, List.nil_append, h0, ht, hb]

/-- reject side: whatever is accepted without XML declaration and DOCTYPE is the rendering of a lexically valid tree -/
theorem parseSyn_sound_nodecl (s : Str) (d : Doc) (h : parseSyn s = .ok d) (hs : startsWithDecl s = none)
    (hdt : d.doctype = none) : lexDoc d = true ∧ render d = s ∧ d.decl = none := by
  simp only [parseSyn, hs] at h
  cases h1 : tokenize (s.length + 1) s with
  | error e => simp [h1] at h
  | ok ts =>
    simp only [h1] at h
    obtain ⟨b1, b2, b3⟩ := buildDoc_sound none ts d h
    have hnd : ∀ t ∈ ts, noDoctypeTok t = true := by rw [← b2]; exact doc_toks_noDoctype d hdt
    obtain ⟨t1, t2⟩ := tokenize_sound _ _ _ h1 hnd
    rw [← b2] at t1 t2
    have hr : render d = s := by simp [render, b1, t1]
    refine ⟨?_, hr, b1⟩
    rw [lexDoc_nodt d hdt, b1]
    obtain ⟨l1, l2, l3⟩ := (lexDoc_toks d hdt).mp t2
    simp only [Bool.and_eq_true, Option.isNone_iff_eq_none]
    refine ⟨⟨⟨⟨?_, l1⟩, b3⟩, l2⟩, l3⟩
    rw [← t1]; exact hs

end XV.Lemmas.Xml
